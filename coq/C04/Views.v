(* C04 proofs, part 4: coverage invariant (every appended batch is visible to a fresh query until the closer drops
   the active table) and the reader invariants that give complete views. *)
From Coq Require Import List Bool Arith PeanoNat Lia.
From OG Require Import C04.Model C04.Proofs C04.Steps C04.Inv.
Import ListNotations.

Definition vis (s : shared) (b : nat) : Prop :=
  (exists a, active s = Some a /\ In b (mt_rows_of s a)) \/
  (exists m, snap s = Some m /\ flag_of s (Some m) = false /\ In b (mt_rows_of s m)) \/
  (exists f x, get_file s f = Some x /\ f_listed x = true /\ In b (f_rows x)).

Definition cover (s : shared) : Prop := dropped s = false -> forall b, In b (appended s) -> vis s b.

Definition close_ok (s : shared) (l : list actor) : Prop :=
  (fclosed s = true -> dropped s = true) /\
  (forall j c, nth_error l j = Some (AC c) -> (c = C3 \/ c = C4) -> dropped s = true).

Lemma mt_rows_of_get : forall s m, mt_rows_of s m = match get_mt s m with Some t => m_rows t | None => [] end.
Proof. reflexivity. Qed.
Lemma file_rows_of_get : forall s f, file_rows_of s f = match get_file s f with Some t => f_rows t | None => [] end.
Proof. reflexivity. Qed.
Arguments mt_rows_of : simpl never.
Arguments file_rows_of : simpl never.

(* ---------------------------------------------------------------- close_ok *)
Lemma close_ok_step : forall st i st', close_ok (sh st) (actors st) -> exec correct st i = Some st' ->
  close_ok (sh st') (actors st').
Proof.
  intros st i st' [Hc1 Hc2] H. inv_step H. rewrite Hact.
  assert (Hframe : forall s' a2, fclosed s' = fclosed (sh st) -> dropped s' = dropped (sh st) ->
            (forall c, a2 = AC c -> (c = C3 \/ c = C4) -> dropped (sh st) = true) -> close_ok s' (upd (actors st) i a2)).
  { intros s' a2 E1 E2 Hn. split; [rewrite E1, E2; auto|]. intros j c Hj Hp. rewrite E2.
    apply nth_error_upd in Hj. destruct Hj as [[_ Hj]|[_ Hj]]; eauto. }
  inversion Hls; subst; repeat match goal with x := _ |- _ => subst x end;
    try (apply Hframe; auto; intros; discriminate).
  - (* append *) apply Hframe; try (intros; discriminate); simpl; unfold map_mt; destruct (get_mt (sh st) a0); auto.
  - (* files *) apply Hframe; try (intros; discriminate); destruct (fclosed (sh st)) eqn:Efc; simpl; auto.
  - (* publish *) apply Hframe; try (intros; discriminate); unfold publish, map_mt; simpl; destruct (get_mt _ m); auto.
  - apply Hframe; try (intros; discriminate); unfold publish, map_mt; simpl; destruct (get_mt _ m); auto.
  - (* drop *) apply Hframe; try (intros; discriminate); unfold drop_snap, map_mt; simpl;
      destruct (get_mt _ m); simpl; auto; destruct (is_nil (m_hold m0)); simpl; auto; destruct (get_mt _ m); auto.
  - (* gc *) apply Hframe; try (intros; discriminate); unfold map_file; destruct (get_file (sh st) f); auto.
  - (* c again *) apply Hframe; auto. intros c E [X|X]; inversion E; congruence.
  - (* c begin *) apply Hframe; auto. intros c E [X|X]; inversion E; congruence.
  - (* c lock *) apply Hframe; auto. intros c E [X|X]; inversion E; congruence.
  - (* c drop *) split; simpl; auto.
  - (* c wait *) apply Hframe; auto. intros c E _. eapply Hc2; eauto.
  - (* c files *) split; simpl; [intros _; eapply Hc2; eauto|].
    intros j c Hj Hp. apply nth_error_upd in Hj. destruct Hj as [[_ Hj]|[_ Hj]]; eauto.
Qed.

Lemma close_ok_init : forall l, forallb fresh l = true -> close_ok init_shared l.
Proof.
  intros l Hl. split; simpl; [discriminate|]. intros j c Hj Hp.
  rewrite forallb_forall in Hl. apply nth_error_In in Hj. apply Hl in Hj. simpl in Hj. destruct Hp; subst; discriminate.
Qed.

(* ---------------------------------------------------------------- what a step of ANOTHER actor preserves *)
Definition ext_held (j : nat) (s s' : shared) : Prop :=
  (forall m t, get_mt s m = Some t -> In j (m_hold t) ->
     exists t', get_mt s' m = Some t' /\ incl (m_rows t) (m_rows t') /\ In j (m_hold t')) /\
  (forall f x, get_file s f = Some x -> In j (f_hold x) ->
     exists x', get_file s' f = Some x' /\ f_rows x' = f_rows x /\ In j (f_hold x')).

Definition ext_owned (s s' : shared) : Prop :=
  active s' = active s /\ snap s' = snap s /\ dropped s' = dropped s /\
  (forall m t, get_mt s m = Some t -> In m (owned_ids s) ->
     exists t', get_mt s' m = Some t' /\ incl (m_rows t) (m_rows t')).

Lemma ext_held_refl : forall j s, ext_held j s s.
Proof. intros. split; intros; eexists; repeat split; eauto; apply incl_refl. Qed.

Lemma is_nil_In : forall (l : list nat) x, In x l -> is_nil l = false.
Proof. destruct l; simpl; auto; tauto. Qed.

Lemma step_ext_held : forall s l i a s' a' j, lstep s l i a s' a' -> j <> i -> ext_held j s s'.
Proof.
  intros s l i a s' a' j Hls N.
  inversion Hls; subst; repeat match goal with x := _ |- _ => subst x end; try apply ext_held_refl.
  - (* append *) split.
    + intros m t0 G Hj. rewrite get_mt_set_logs, get_mt_map_mt.
      destruct (get_mt s a0) eqn:Ga; [|eexists; repeat split; eauto; apply incl_refl].
      destruct (Nat.eqb a0 m) eqn:Ek; [|eexists; repeat split; eauto; apply incl_refl].
      apply Nat.eqb_eq in Ek; subst. rewrite Ga in G; inversion G; subst.
      eexists; split; [reflexivity|]. simpl. split; auto. intros x Hx; right; auto.
    + intros f x G Hj. rewrite get_file_set_logs, get_file_map_mt. eexists; repeat split; eauto.
  - (* ack *) split; intros; eexists; repeat split; eauto; apply incl_refl.
  - (* files *) destruct (fclosed s); [apply ext_held_refl|]. split.
    + intros m t0 G Hj. rewrite get_mt_set_files. eexists; repeat split; eauto; apply incl_refl.
    + intros f x G Hj. rewrite get_file_set_files, nth_error_map_at. rewrite get_file_unfold in G. rewrite G. simpl.
      destruct (mem_nat f (listed s)); eexists; repeat split; eauto. simpl. auto.
  - (* mem *) split.
    + intros m t0 G Hj. rewrite get_mt_set_mts, nth_error_map_at. rewrite get_mt_unfold in G. rewrite G. simpl.
      destruct (mem_nat m _); eexists; repeat split; eauto; simpl; auto; apply incl_refl.
    + intros f x G Hj. rewrite get_file_set_mts. eexists; repeat split; eauto.
  - (* done *) split.
    + intros m t0 G Hj. rewrite get_mt_set_mts, nth_error_unhold_all. simpl. rewrite get_mt_unfold in G. rewrite G. simpl.
      destruct (mem_nat m ms); [|eexists; repeat split; eauto; apply incl_refl].
      assert (Hr : In j (remove_nat i (m_hold t0))) by (apply In_remove_nat; auto).
      unfold mt_unhold. rewrite (is_nil_In _ _ Hr). simpl. eexists; split; [reflexivity|]. simpl. split; auto. apply incl_refl.
    + intros f x G Hj. rewrite get_file_set_mts, get_file_set_files, nth_error_map_at. rewrite get_file_unfold in G. rewrite G. simpl.
      destruct (mem_nat f fs); eexists; repeat split; eauto. simpl. apply In_remove_nat; auto.
  - (* swap *) split.
    + intros m t0 G Hj. rewrite get_mt_set_as, get_mt_set_mts. rewrite get_mt_unfold in G.
      rewrite (nth_error_app_old _ _ _ _ _ G). eexists; repeat split; eauto; apply incl_refl.
    + intros f0 x G Hj. rewrite get_file_set_as, get_file_set_mts. eexists; repeat split; eauto.
  - (* publish *) split.
    + intros m0 t0 G Hj. rewrite publish_mts. destruct (get_mt s m) eqn:Gm; [|eexists; repeat split; eauto; apply incl_refl].
      destruct (Nat.eqb m m0) eqn:Ek; [|eexists; repeat split; eauto; apply incl_refl].
      apply Nat.eqb_eq in Ek; subst. rewrite Gm in G; inversion G; subst. eexists; split; [reflexivity|]. simpl. split; auto. apply incl_refl.
    + intros f0 x G Hj. rewrite get_file_unfold, publish_files. rewrite get_file_unfold in G.
      rewrite (nth_error_app_old _ _ _ _ _ G). eexists; repeat split; eauto.
  - (* publish_b *) split.
    + intros m0 t0 G Hj. rewrite publish_mts. destruct (get_mt s m) eqn:Gm; [|eexists; repeat split; eauto; apply incl_refl].
      destruct (Nat.eqb m m0) eqn:Ek; [|eexists; repeat split; eauto; apply incl_refl].
      apply Nat.eqb_eq in Ek; subst. rewrite Gm in G; inversion G; subst. eexists; split; [reflexivity|]. simpl. split; auto. apply incl_refl.
    + intros f0 x G Hj. rewrite get_file_unfold, publish_files. rewrite get_file_unfold in G.
      rewrite (nth_error_app_old _ _ _ _ _ G). eexists; repeat split; eauto.
  - (* drop *) split.
    + intros m0 t0 G Hj. unfold drop_snap. rewrite get_mt_set_as.
      destruct (get_mt s m) eqn:Gm; [|rewrite get_mt_set_as; eexists; repeat split; eauto; apply incl_refl].
      destruct (is_nil (m_hold m1)) eqn:En; [|rewrite get_mt_set_as; eexists; repeat split; eauto; apply incl_refl].
      rewrite get_mt_map_mt, get_mt_set_as, Gm. destruct (Nat.eqb m m0) eqn:Ek.
      * apply Nat.eqb_eq in Ek; subst. rewrite Gm in G; inversion G; subst. rewrite (is_nil_In _ _ Hj) in En. discriminate.
      * rewrite get_mt_set_as. eexists; repeat split; eauto; apply incl_refl.
    + intros f0 x G Hj. unfold drop_snap. rewrite get_mt_set_as.
      destruct (get_mt s m); [destruct (is_nil (m_hold m0))|]; autorewrite with shr; eexists; repeat split; eauto.
  - (* gc *) split.
    + intros m t0 G Hj. rewrite get_mt_map_file. eexists; repeat split; eauto; apply incl_refl.
    + intros f0 x0 G Hj. rewrite get_file_map_file.
      match goal with Hx : get_file s f = Some _ |- _ => rewrite Hx end.
      destruct (Nat.eqb f f0) eqn:Ek; [|eexists; repeat split; eauto].
      apply Nat.eqb_eq in Ek; subst. match goal with Hx : get_file s f0 = Some x |- _ => rewrite Hx in G; inversion G; subst end.
      match goal with Hx : f_hold x0 = [] |- _ => rewrite Hx in Hj end. destruct Hj.
  - (* replace *) split.
    + intros m t0 G Hj. rewrite get_mt_set_files. eexists; repeat split; eauto; apply incl_refl.
    + intros f0 x G Hj. rewrite get_file_set_files. simpl.
      assert (G' : nth_error (map_at 0 (fun k => mem_nat k olds) f_delist (files s)) f0 =
                   Some (if mem_nat f0 olds then f_delist x else x)).
      { rewrite nth_error_map_at. rewrite get_file_unfold in G. rewrite G. reflexivity. }
      rewrite (nth_error_app_old _ _ _ _ _ G'). destruct (mem_nat f0 olds); eexists; repeat split; eauto.
  - (* delist *) split.
    + intros m t0 G Hj. rewrite get_mt_set_files. eexists; repeat split; eauto; apply incl_refl.
    + intros f0 x G Hj. rewrite get_file_set_files, nth_error_map_at. rewrite get_file_unfold in G. rewrite G. simpl.
      destruct (mem_nat f0 fs); eexists; repeat split; eauto.
  - (* merge *) split.
    + intros m t0 G Hj. rewrite get_mt_set_files. eexists; repeat split; eauto; apply incl_refl.
    + intros f0 x G Hj. rewrite get_file_set_files. simpl.
      assert (G' : nth_error (map_at 0 (fun k => mem_nat k (ord_listed s)) f_delist (files s)) f0 =
                   Some (if mem_nat f0 (ord_listed s) then f_delist x else x)).
      { rewrite nth_error_map_at. rewrite get_file_unfold in G. rewrite G. reflexivity. }
      rewrite (nth_error_app_old _ _ _ _ _ G'). destruct (mem_nat f0 (ord_listed s)); eexists; repeat split; eauto.
  - (* droplist *) split; intros; eexists; repeat split; eauto; apply incl_refl.
  - split; intros; eexists; repeat split; eauto; apply incl_refl.
  - split; intros; eexists; repeat split; eauto; apply incl_refl.
  - split; intros; eexists; repeat split; eauto; apply incl_refl.
  - split; intros; eexists; repeat split; eauto; apply incl_refl.
  - split; intros; eexists; repeat split; eauto; apply incl_refl.
Qed.

Lemma dropped_map_mt : forall s a g, dropped (map_mt s a g) = dropped s.
Proof. intros. unfold map_mt. destruct (get_mt s a); reflexivity. Qed.
Lemma dropped_map_file : forall s a g, dropped (map_file s a g) = dropped s.
Proof. intros. unfold map_file. destruct (get_file s a); reflexivity. Qed.
Global Hint Rewrite dropped_map_mt dropped_map_file : shr.

Lemma ext_owned_refl : forall s, ext_owned s s.
Proof. intros. repeat split; auto. intros; eexists; split; eauto; apply incl_refl. Qed.

Lemma In_owned : forall s m, In m (owned_ids s) -> mem_nat m (owned_ids s) = true.
Proof. intros. apply mem_nat_In; auto. Qed.

Lemma step_ext_owned : forall s l i a s' a', lstep s l i a s' a' -> snapR l = true -> ext_owned s s'.
Proof.
  intros s l i a s' a' Hls Hlock.
  inversion Hls; subst; repeat match goal with x := _ |- _ => subst x end; try apply ext_owned_refl; try congruence.
  - (* append *) split; [|split; [|split]]; simpl; autorewrite with shr; auto.
    intros m t0 G Ho. rewrite get_mt_set_logs, get_mt_map_mt.
    destruct (get_mt s a0) eqn:Ga; [|eexists; split; eauto; apply incl_refl].
    destruct (Nat.eqb a0 m) eqn:Ek; [|eexists; split; eauto; apply incl_refl].
    apply Nat.eqb_eq in Ek; subst. rewrite Ga in G; inversion G; subst.
    eexists; split; [reflexivity|]. simpl. intros x Hx; right; auto.
  - (* ack *) split; [|split; [|split]]; auto; intros; eexists; split; eauto; apply incl_refl.
  - (* files *) destruct (fclosed s); [apply ext_owned_refl|]. split; [|split; [|split]]; auto.
    intros; eexists; split; eauto; apply incl_refl.
  - (* mem *) split; [|split; [|split]]; auto. intros m t0 G Ho.
    rewrite get_mt_set_mts, nth_error_map_at. rewrite get_mt_unfold in G. rewrite G. simpl.
    destruct (mem_nat m _); eexists; split; eauto; simpl; apply incl_refl.
  - (* done *) split; [|split; [|split]]; auto. intros m t0 G Ho.
    rewrite get_mt_set_mts, nth_error_unhold_all. simpl. rewrite get_mt_unfold in G. rewrite G. simpl.
    rewrite (In_owned _ _ Ho). destruct (mem_nat m ms); [|eexists; split; eauto; apply incl_refl].
    destruct (mt_unhold_owned i t0) as [X1 [X2 X3]]. eexists; split; [reflexivity|]. rewrite X3. apply incl_refl.
  - (* publish *) destruct (publish_active s m false) as [P1 P2]. split; [|split; [|split]]; auto.
    + unfold publish, map_mt; simpl. destruct (get_mt _ m); auto.
    + intros m0 t0 G Ho. rewrite publish_mts. destruct (get_mt s m) eqn:Gm; [|eexists; split; eauto; apply incl_refl].
      destruct (Nat.eqb m m0) eqn:Ek; [|eexists; split; eauto; apply incl_refl].
      apply Nat.eqb_eq in Ek; subst. rewrite Gm in G; inversion G; subst. eexists; split; [reflexivity|]. simpl. apply incl_refl.
  - (* publish_b *) destruct (publish_active s m (negb (g =? ugen s))) as [P1 P2]. split; [|split; [|split]]; auto.
    + unfold publish, map_mt; simpl. destruct (get_mt _ m); auto.
    + intros m0 t0 G Ho. rewrite publish_mts. destruct (get_mt s m) eqn:Gm; [|eexists; split; eauto; apply incl_refl].
      destruct (Nat.eqb m m0) eqn:Ek; [|eexists; split; eauto; apply incl_refl].
      apply Nat.eqb_eq in Ek; subst. rewrite Gm in G; inversion G; subst. eexists; split; [reflexivity|]. simpl. apply incl_refl.
  - (* gc *) split; [|split; [|split]]; autorewrite with shr; auto.
    intros m t0 G Ho. rewrite get_mt_map_file. eexists; split; eauto; apply incl_refl.
  - (* replace *) split; [|split; [|split]]; auto; intros; eexists; split; eauto; apply incl_refl.
  - (* delist *) split; [|split; [|split]]; auto; intros; eexists; split; eauto; apply incl_refl.
  - (* merge *) split; [|split; [|split]]; auto; intros; eexists; split; eauto; apply incl_refl.
  - (* droplist *) split; [|split; [|split]]; auto; intros; eexists; split; eauto; apply incl_refl.
  - split; [|split; [|split]]; auto; intros; eexists; split; eauto; apply incl_refl.
  - split; [|split; [|split]]; auto; intros; eexists; split; eauto; apply incl_refl.
  - split; [|split; [|split]]; auto; intros; eexists; split; eauto; apply incl_refl.
  - split; [|split; [|split]]; auto; intros; eexists; split; eauto; apply incl_refl.
Qed.

Lemma step_appended_mono : forall s l i a s' a', lstep s l i a s' a' -> incl (appended s) (appended s').
Proof.
  intros s l i a s' a' Hls.
  inversion Hls; subst; repeat match goal with x := _ |- _ => subst x end; try apply incl_refl.
  - simpl. intros x Hx; right; auto.
  - destruct (fclosed s); apply incl_refl.
  - unfold publish, map_mt; simpl. destruct (get_mt _ m); apply incl_refl.
  - unfold publish, map_mt; simpl. destruct (get_mt _ m); apply incl_refl.
  - unfold drop_snap, map_mt; simpl. destruct (get_mt _ m); simpl; try apply incl_refl.
    destruct (is_nil (m_hold m0)); simpl; try apply incl_refl.
  - unfold map_file. destruct (get_file s f); apply incl_refl.
Qed.

(* ---------------------------------------------------------------- coverage *)
Lemma covered_elsewhere_wit : forall s fs f b, covered_elsewhere s fs = true -> In f fs -> In b (file_rows_of s f) ->
  exists g, In g (listed s) /\ ~ In g fs /\ In b (file_rows_of s g).
Proof.
  intros s fs f b H Hf Hb. unfold covered_elsewhere in H. rewrite forallb_forall in H. specialize (H _ Hf).
  rewrite forallb_forall in H. specialize (H _ Hb). apply mem_nat_In in H. apply in_flat_map in H.
  destruct H as [g [Hg Hbg]]. apply filter_In in Hg. destruct Hg as [Hg1 Hg2]. exists g. repeat split; auto.
  intro X. apply mem_nat_In in X. rewrite X in Hg2. discriminate.
Qed.

Lemma vis_file : forall s f x b, get_file s f = Some x -> f_listed x = true -> In b (f_rows x) -> vis s b.
Proof. intros. right. right. eauto. Qed.

Lemma In_flat_rows : forall s fs f b, In f fs -> In b (file_rows_of s f) -> In b (flat_map (file_rows_of s) fs).
Proof. intros. apply in_flat_map. eauto. Qed.

Lemma vis_step : forall st i st' b, Inv1 st -> exec correct st i = Some st' -> dropped (sh st') = false ->
  vis (sh st) b -> vis (sh st') b.
Proof.
  intros st i st' b [[Ha [Hs Hne]] [Hf [Hu Hsm]] Hfi _] H Hd V. inv_step H.
  inversion Hls; subst; repeat match goal with x := _ |- _ => subst x end.
  - (* reject *) exact V.
  - (* append *)
    destruct V as [[a1 [E1 E2]]|[[m [E1 [E2 E3]]]|[f [x [E1 [E2 E3]]]]]].
    + left. exists a1. simpl; autorewrite with shr. split; auto. rewrite mt_rows_of_get in *. rewrite get_mt_set_logs, get_mt_map_mt.
      destruct (get_mt (sh st) a0) eqn:G; auto. destruct (Nat.eqb a0 a1) eqn:Ek; auto.
      apply Nat.eqb_eq in Ek; subst. rewrite G in E2. simpl. auto.
    + right; left. exists m. simpl; autorewrite with shr. split; auto.
      assert (N : a0 <> m) by eauto. unfold flag_of in *. rewrite mt_rows_of_get in *. rewrite get_mt_set_logs, get_mt_map_mt.
      destruct (get_mt (sh st) a0) eqn:G; auto. destruct (Nat.eqb a0 m) eqn:Ek; auto. apply Nat.eqb_eq in Ek; congruence.
    + apply vis_file with (f := f) (x := x); auto. rewrite get_file_set_logs, get_file_map_mt. auto.
  - (* ack *) exact V.
  - (* begin *) exact V.
  - (* files *) destruct (fclosed (sh st)); auto.
    destruct V as [[a1 [E1 E2]]|[[m [E1 [E2 E3]]]|[f [x [E1 [E2 E3]]]]]].
    + left. exists a1. auto.
    + right; left. exists m. auto.
    + right; right. exists f. rewrite get_file_set_files, nth_error_map_at. rewrite get_file_unfold in E1. rewrite E1. simpl.
      destruct (mem_nat f (listed (sh st))); eexists; repeat split; eauto.
  - (* mem *)
    destruct V as [[a1 [E1 E2]]|[[m [E1 [E2 E3]]]|[f [x [E1 [E2 E3]]]]]].
    + left. exists a1. simpl. split; auto. rewrite mt_rows_of_get in *. rewrite get_mt_set_mts, nth_error_map_at, <- get_mt_unfold.
      destruct (get_mt (sh st) a1); simpl; auto. destruct (mem_nat a1 _); auto.
    + right; left. exists m. simpl. split; auto. unfold flag_of in *. rewrite mt_rows_of_get in *.
      rewrite get_mt_set_mts, nth_error_map_at, <- get_mt_unfold.
      destruct (get_mt (sh st) m); simpl; auto. destruct (mem_nat m _); auto.
    + apply vis_file with (f := f) (x := x); auto.
  - (* read *) exact V.
  - (* done *)
    destruct V as [[a1 [E1 E2]]|[[m [E1 [E2 E3]]]|[f [x [E1 [E2 E3]]]]]].
    + left. exists a1. simpl. split; auto. rewrite mt_rows_of_get in *. rewrite get_mt_set_mts, nth_error_unhold_all, <- get_mt_unfold. simpl.
      destruct (get_mt (sh st) a1); simpl; auto. rewrite (mem_owned_active _ _ E1). destruct (mem_nat a1 ms); auto.
      destruct (mt_unhold_owned i m) as [X1 [X2 X3]]. rewrite X3; auto.
    + right; left. exists m. simpl. split; auto. unfold flag_of in *. rewrite mt_rows_of_get in *.
      rewrite get_mt_set_mts, nth_error_unhold_all, <- get_mt_unfold. simpl.
      destruct (get_mt (sh st) m); simpl; auto. rewrite (mem_owned_snap _ _ E1). destruct (mem_nat m ms); auto.
      destruct (mt_unhold_owned i m0) as [X1 [X2 X3]]. rewrite X1, X3; auto.
    + right; right. exists f. rewrite get_file_set_mts, get_file_set_files, nth_error_map_at. rewrite get_file_unfold in E1. rewrite E1. simpl.
      destruct (mem_nat f fs); eexists; repeat split; eauto.
  - (* flush skip *) exact V.
  - (* swap *)
    match goal with Hx : active (sh st) = Some ?a0, Hy : snap (sh st) = None |- _ => rename Hx into Eact; rename Hy into Esn end.
    destruct (Ha _ Eact) as [tm [G1 [G2 G3]]].
    destruct V as [[a1 [E1 E2]]|[[m [E1 [E2 E3]]]|[f0 [x [E1 [E2 E3]]]]]].
    + right; left. exists a1. simpl. rewrite E1 in Eact; inversion Eact; subst. split; auto.
      unfold flag_of. rewrite mt_rows_of_get in *. rewrite get_mt_set_as, get_mt_set_mts.
      rewrite get_mt_unfold in G1. rewrite (nth_error_app_old _ _ _ _ _ G1). rewrite <- get_mt_unfold in G1. rewrite G1 in E2. auto.
    + congruence.
    + apply vis_file with (f := f0) (x := x); auto.
  - (* publish *)
    pose proof (Hf _ _ Hnth) as X. match goal with Hx : fl_ph _ = F1 ?m0 |- _ => rewrite Hx in X end. destruct X as [X1 X2].
    destruct (Hs _ X1) as [tm [G1 G2]]. destruct (publish_active (sh st) m false) as [P1 P2].
    destruct V as [[a1 [E1 E2]]|[[m1 [E1 [E2 E3]]]|[f0 [x [E1 [E2 E3]]]]]].
    + left. exists a1. rewrite P1. split; auto. rewrite mt_rows_of_get in *. rewrite publish_mts, G1.
      assert (N : a1 <> m) by eauto. destruct (Nat.eqb m a1) eqn:Ek; auto. apply Nat.eqb_eq in Ek; congruence.
    + assert (m1 = m) by congruence. subst m1. right; right.
      destruct (Nat.ltb (hi (sh st)) b) eqn:Eh.
      * (* ordered file *)
        assert (Hin : In b (filter (fun b0 => hi (sh st) <? b0) (mt_rows_of (sh st) m))) by (apply filter_In; auto).
        remember (filter (fun b0 => hi (sh st) <? b0) (mt_rows_of (sh st) m)) as ro eqn:Er0.
        destruct ro as [|n0 l0]; [destruct Hin|].
        exists (length (files (sh st))). exists (mk_file (n0 :: l0) (Some m) true true).
        rewrite get_file_unfold, publish_files. rewrite <- Er0.
        rewrite nth_error_app2; auto. rewrite Nat.sub_diag. simpl. repeat split; auto.
      * assert (Hin : In b (filter (fun b0 => b0 <=? hi (sh st)) (mt_rows_of (sh st) m))).
        { apply filter_In. split; auto. apply Nat.ltb_ge in Eh. apply Nat.leb_le; auto. }
        remember (filter (fun b0 => hi (sh st) <? b0) (mt_rows_of (sh st) m)) as ro eqn:Er0.
        remember (filter (fun b0 => b0 <=? hi (sh st)) (mt_rows_of (sh st) m)) as ru eqn:Er1.
        destruct ru as [|n0 l0]; [destruct Hin|].
        exists (length (files (sh st) ++ opt_file ro (Some m) true true)). exists (mk_file (n0 :: l0) (Some m) false true).
        rewrite get_file_unfold, publish_files. rewrite <- Er0, <- Er1. rewrite app_assoc.
        rewrite nth_error_app2; auto. rewrite Nat.sub_diag. simpl. repeat split; auto.
    + apply vis_file with (f := f0) (x := x); auto. rewrite get_file_unfold, publish_files. rewrite get_file_unfold in E1.
      apply nth_error_app_old; auto.
  - (* publish_b *)
    pose proof (Hf _ _ Hnth) as X. match goal with Hx : fl_ph _ = F1b _ _ |- _ => rewrite Hx in X end. contradiction.
  - (* drop *)
    pose proof (Hf _ _ Hnth) as X. match goal with Hx : fl_ph _ = F2 ?m0 |- _ => rewrite Hx in X end. destruct X as [X1 X2].
    destruct (drop_snap_active (sh st) m) as [P1 P2].
    destruct V as [[a1 [E1 E2]]|[[m1 [E1 [E2 E3]]]|[f0 [x [E1 [E2 E3]]]]]].
    + left. exists a1. rewrite P1. split; auto. rewrite mt_rows_of_get in *. rewrite drop_snap_mts; [auto|]. intro; subst. eapply Hne; eauto.
    + assert (m1 = m) by congruence. subst. congruence.
    + apply vis_file with (f := f0) (x := x); auto. unfold drop_snap. rewrite get_mt_set_as.
      destruct (get_mt (sh st) m); [destruct (is_nil (m_hold m0))|]; autorewrite with shr; auto.
  - (* gc *)
    destruct V as [[a1 [E1 E2]]|[[m1 [E1 [E2 E3]]]|[f0 [x0 [E1 [E2 E3]]]]]].
    + left. exists a1. autorewrite with shr. split; auto. rewrite mt_rows_of_get in *. rewrite get_mt_map_file. auto.
    + right; left. exists m1. autorewrite with shr. split; auto. unfold flag_of in *. rewrite mt_rows_of_get in *. rewrite get_mt_map_file. auto.
    + apply vis_file with (f := f0) (x := x0); auto. rewrite get_file_map_file.
      match goal with Hx : get_file (sh st) f = Some _ |- _ => rewrite Hx end.
      destruct (Nat.eqb f f0) eqn:Ek; auto. apply Nat.eqb_eq in Ek; subst. congruence.
  - (* skip *) exact V.
  - (* replace *)
    destruct V as [[a1 [E1 E2]]|[[m1 [E1 [E2 E3]]]|[f0 [x0 [E1 [E2 E3]]]]]].
    + left. exists a1. auto.
    + right; left. exists m1. auto.
    + right; right. destruct (mem_nat f0 olds) eqn:Em.
      * exists (length (files (sh st))). eexists. rewrite get_file_set_files. simpl.
        rewrite nth_error_app2; rewrite length_map_at; auto. rewrite Nat.sub_diag. simpl. split; [reflexivity|]. simpl. split; auto.
        apply In_flat_rows with f0. apply in_or_app; left; apply mem_nat_In; auto.
        rewrite file_rows_of_get, E1; auto.
      * exists f0. eexists. rewrite get_file_set_files. simpl. split.
        { apply nth_error_app_old. rewrite nth_error_map_at. rewrite get_file_unfold in E1. rewrite E1. simpl. rewrite Em. reflexivity. }
        auto.
  - (* delist *)
    destruct V as [[a1 [E1 E2]]|[[m1 [E1 [E2 E3]]]|[f0 [x0 [E1 [E2 E3]]]]]].
    + left. exists a1. auto.
    + right; left. exists m1. auto.
    + right; right. destruct (mem_nat f0 fs) eqn:Em.
      * match goal with Hx : covered_elsewhere _ _ = true |- _ => rename Hx into Hcov end.
        destruct (covered_elsewhere_wit _ _ f0 b Hcov) as [g [Hg1 [Hg2 Hg3]]].
        { apply mem_nat_In; auto. } { rewrite file_rows_of_get, E1; auto. }
        apply listed_In in Hg1. destruct Hg1 as [xg [Gg Lg]]. exists g. eexists.
        rewrite get_file_set_files, nth_error_map_at. rewrite get_file_unfold in Gg. rewrite Gg. simpl.
        destruct (mem_nat g fs) eqn:Eg; [exfalso; apply Hg2; apply mem_nat_In; auto|].
        split; [reflexivity|]. split; auto. rewrite file_rows_of_get, get_file_unfold, Gg in Hg3. auto.
      * exists f0. eexists. rewrite get_file_set_files, nth_error_map_at. rewrite get_file_unfold in E1. rewrite E1. simpl. rewrite Em.
        split; [reflexivity|]. auto.
  - (* merge *)
    destruct V as [[a1 [E1 E2]]|[[m1 [E1 [E2 E3]]]|[f0 [x0 [E1 [E2 E3]]]]]].
    + left. exists a1. auto.
    + right; left. exists m1. auto.
    + right; right. destruct (mem_nat f0 (ord_listed (sh st))) eqn:Em.
      * exists (length (files (sh st))). eexists. rewrite get_file_set_files. simpl.
        rewrite nth_error_app2; rewrite length_map_at; auto. rewrite Nat.sub_diag. simpl. split; [reflexivity|]. simpl. split; auto.
        apply In_flat_rows with f0. apply in_or_app; left; apply mem_nat_In; auto.
        rewrite file_rows_of_get, E1; auto.
      * exists f0. eexists. rewrite get_file_set_files. simpl. split.
        { apply nth_error_app_old. rewrite nth_error_map_at. rewrite get_file_unfold in E1. rewrite E1. simpl. rewrite Em. reflexivity. }
        auto.
  - (* droplist *) exact V.
  - (* c again *) exact V.
  - (* c begin *) exact V.
  - exact V.
  - (* c drop *) match goal with Hx : _ = sh st' |- _ => rewrite <- Hx in Hd end. simpl in Hd. discriminate.
  - exact V.
  - exact V.
Qed.

Lemma step_appended_cases : forall s l i a s' a', lstep s l i a s' a' ->
  appended s' = appended s \/
  (exists b a0, active s = Some a0 /\ s' = set_logs (map_mt s a0 (mt_add_row b)) (b :: appended s) (acked s)).
Proof.
  intros s l i a s' a' Hls.
  inversion Hls; subst; repeat match goal with x := _ |- _ => subst x end; auto.
  - right. eauto.
  - left. destruct (fclosed s); auto.
  - left. unfold publish, map_mt; simpl. destruct (get_mt _ m); auto.
  - left. unfold publish, map_mt; simpl. destruct (get_mt _ m); auto.
  - left. unfold drop_snap, map_mt; simpl. destruct (get_mt _ m); simpl; auto.
    destruct (is_nil (m_hold m0)); simpl; auto.
  - left. unfold map_file. destruct (get_file s f); auto.
Qed.

Lemma step_dropped_mono : forall s l i a s' a', lstep s l i a s' a' -> dropped s = true -> dropped s' = true.
Proof.
  intros s l i a s' a' Hls Hd.
  inversion Hls; subst; repeat match goal with x := _ |- _ => subst x end; simpl; autorewrite with shr; auto.
  - destruct (fclosed s); auto.
  - unfold publish, map_mt; simpl. destruct (get_mt _ m); auto.
  - unfold publish, map_mt; simpl. destruct (get_mt _ m); auto.
  - unfold drop_snap, map_mt; simpl. destruct (get_mt _ m); simpl; auto.
    destruct (is_nil (m_hold m0)); simpl; auto.
Qed.

Lemma cover_step : forall st i st', Inv1 st -> cover (sh st) -> exec correct st i = Some st' -> cover (sh st').
Proof.
  intros st i st' HI Hc H Hd b Hb.
  assert (H' := H). inv_step H'.
  assert (Hd0 : dropped (sh st) = false).
  { destruct (dropped (sh st)) eqn:E; auto. rewrite (step_dropped_mono _ _ _ _ _ _ Hls E) in Hd. discriminate. }
  destruct (step_appended_cases _ _ _ _ _ _ Hls) as [E|[b0 [a0 [Ea Es]]]].
  - rewrite E in Hb. eapply vis_step; eauto.
  - rewrite Es in Hb. simpl in Hb. destruct Hb as [<-|Hb].
    + left. exists a0. rewrite Es. simpl. autorewrite with shr. split; auto.
      rewrite mt_rows_of_get, get_mt_set_logs, get_mt_map_mt.
      destruct HI as [[Ha _] _ _ _]. destruct (Ha _ Ea) as [tm [G _]]. rewrite G, Nat.eqb_refl. simpl. auto.
    + eapply vis_step; eauto.
Qed.

Lemma cover_init : cover init_shared.
Proof. intros _ b []. Qed.

(* ---------------------------------------------------------------- reader invariants *)
Definition holds_files (s : shared) (i : nat) (fs : list nat) : Prop :=
  forall f, In f fs -> exists x, get_file s f = Some x /\ In i (f_hold x).
Definition holds_mts (s : shared) (i : nat) (ms : list nat) : Prop :=
  forall m, In m ms -> exists t, get_mt s m = Some t /\ In i (m_hold t).

Definition rd_ok (s : shared) (i : nat) (r : reader) : Prop :=
  match r_ph r with
  | R0 => True
  | R1 sn _ => snap s = sn /\ dropped s = false /\ incl (r_start r) (appended s)
  | R2 sn fs fl => snap s = sn /\ dropped s = false /\ holds_files s i fs /\
      (forall b, In b (r_start r) ->
         (exists a, active s = Some a /\ In b (mt_rows_of s a)) \/
         (fl = false /\ exists m, sn = Some m /\ In b (mt_rows_of s m)) \/
         (exists f, In f fs /\ In b (file_rows_of s f)))
  | R3 ms fs => holds_files s i fs /\ holds_mts s i ms /\
      (forall b, In b (r_start r) ->
         (exists m, In m ms /\ In b (mt_rows_of s m)) \/ (exists f, In f fs /\ In b (file_rows_of s f)))
  | R4 ms fs res => incl (r_start r) res
  end.

Definition hist_ok (r : reader) : Prop :=
  forall ok st res, In (ok, st, res) (r_hist r) -> ok = true -> incl st res.

Definition rd_inv (st : state) : Prop :=
  forall i r, nth_error (actors st) i = Some (AR r) -> (r_ok r = true -> rd_ok (sh st) i r) /\ hist_ok r.

Lemma snapR_of_reader : forall l j r, nth_error l j = Some (AR r) ->
  (match r_ph r with R1 _ _ | R2 _ _ _ => True | _ => False end) -> snapR l = true.
Proof.
  intros. eapply existsb_nth; eauto. simpl. destruct (r_ph r); auto; contradiction.
Qed.

(* a step of another actor keeps the reader invariant of reader j *)
Lemma rd_ok_other : forall st i st' j r a a', Inv1 st ->
  lstep (sh st) (actors st) i a (sh st') a' -> nth_error (actors st) i = Some a -> j <> i ->
  nth_error (actors st) j = Some (AR r) -> rd_ok (sh st) j r -> rd_ok (sh st') j r.
Proof.
  intros st i st' j r a a' HI Hls Hi N Hj Hok.
  pose proof (step_ext_held _ _ _ _ _ _ j Hls N) as [Hm Hfl].
  unfold rd_ok in *. destruct (r_ph r) eqn:Ep; auto.
  - (* R1 *)
    assert (Hl : snapR (actors st) = true) by (eapply snapR_of_reader; eauto; rewrite Ep; auto).
    destruct (step_ext_owned _ _ _ _ _ _ Hls Hl) as [E1 [E2 [E3 _]]].
    destruct Hok as [A [B C]]. rewrite E2, E3. repeat split; auto.
    eapply incl_tran; eauto. eapply step_appended_mono; eauto.
  - (* R2 *)
    assert (Hl : snapR (actors st) = true) by (eapply snapR_of_reader; eauto; rewrite Ep; auto).
    destruct (step_ext_owned _ _ _ _ _ _ Hls Hl) as [E1 [E2 [E3 E4]]].
    destruct Hok as [A [B [C D]]]. rewrite E2, E3. split; auto. split; auto. split.
    + intros f Hf. destruct (C _ Hf) as [x [G Hx]]. destruct (Hfl _ _ G Hx) as [x' [G' [_ Hx']]]. eauto.
    + intros b Hb. destruct (D _ Hb) as [[a1 [Ea Er]]|[[Efl [m [Em Er]]]|[f [Hf Er]]]].
      * left. exists a1. rewrite E1. split; auto. rewrite mt_rows_of_get in *.
        destruct (get_mt (sh st) a1) eqn:G; [|destruct Er].
        destruct (E4 _ _ G) as [t' [G' Hi']]. { unfold owned_ids. rewrite Ea. simpl. auto. }
        rewrite G'. auto.
      * right; left. split; auto. exists m. split; auto. rewrite mt_rows_of_get in *.
        destruct (get_mt (sh st) m) eqn:G; [|destruct Er].
        destruct (E4 _ _ G) as [t' [G' Hi']]. { unfold owned_ids. rewrite A, Em. apply in_or_app; right; simpl; auto. }
        rewrite G'. auto.
      * right; right. exists f. split; auto. destruct (C _ Hf) as [x [G Hx]]. destruct (Hfl _ _ G Hx) as [x' [G' [Er' _]]].
        rewrite file_rows_of_get in *. rewrite G', Er'. rewrite G in Er. auto.
  - (* R3 *)
    destruct Hok as [C [D E]]. split; [|split].
    + intros f Hf. destruct (C _ Hf) as [x [G Hx]]. destruct (Hfl _ _ G Hx) as [x' [G' [_ Hx']]]. eauto.
    + intros m Hm'. destruct (D _ Hm') as [t [G Ht]]. destruct (Hm _ _ G Ht) as [t' [G' [_ Ht']]]. eauto.
    + intros b Hb. destruct (E _ Hb) as [[m [Hm' Er]]|[f [Hf Er]]].
      * left. exists m. split; auto. destruct (D _ Hm') as [t [G Ht]]. destruct (Hm _ _ G Ht) as [t' [G' [Hinc _]]].
        rewrite mt_rows_of_get in *. rewrite G'. rewrite G in Er. auto.
      * right. exists f. split; auto. destruct (C _ Hf) as [x [G Hx]]. destruct (Hfl _ _ G Hx) as [x' [G' [Er' _]]].
        rewrite file_rows_of_get in *. rewrite G', Er'. rewrite G in Er. auto.
Qed.

Lemma rd_self : forall st i r s' a', Inv1 st -> cover (sh st) -> close_ok (sh st) (actors st) ->
  nth_error (actors st) i = Some (AR r) ->
  lstep (sh st) (actors st) i (AR r) s' a' ->
  (r_ok r = true -> rd_ok (sh st) i r) -> hist_ok r ->
  exists r', a' = AR r' /\ (r_ok r' = true -> rd_ok s' i r') /\ hist_ok r'.
Proof.
  intros st i r s' a' [[Ha [Hs Hne]] _ Hfi [Hak _]] Hc [Hcl _] Hn Hls Hok Hh.
  inversion Hls; subst; repeat match goal with x := _ |- _ => subst x end.
  - (* begin *) eexists; split; [reflexivity|]. split; auto. simpl. intro Hd. apply negb_true_iff in Hd.
    unfold rd_ok. simpl. auto.
  - (* files *) eexists; split; [reflexivity|]. split; auto. simpl. intro Hk. specialize (Hok Hk).
    unfold rd_ok in *. simpl. match goal with Hx : r_ph r = R1 _ _ |- _ => rewrite Hx in Hok end.
    destruct Hok as [A [B C]].
    assert (Hfc : fclosed (sh st) = false). { destruct (fclosed (sh st)) eqn:E; auto. rewrite (Hcl eq_refl) in B. discriminate. }
    rewrite Hfc. simpl. split; auto. split; auto. split.
    + intros f Hf. apply listed_In in Hf. destruct Hf as [x [G L]]. rewrite get_file_set_files, nth_error_map_at.
      rewrite get_file_unfold in G. rewrite G. simpl.
      assert (Hm : mem_nat f (listed (sh st)) = true). { apply mem_nat_In. apply listed_In. rewrite get_file_unfold. eauto. }
      rewrite Hm. eexists; split; [reflexivity|]. simpl; auto.
    + intros b Hb. destruct (Hc B b (C _ Hb)) as [[a1 [E1 E2]]|[[m [E1 [E2 E3]]]|[f [x [E1 [E2 E3]]]]]].
      * left. exists a1. auto.
      * right; left. rewrite <- A, E1. split; auto. exists m. auto.
      * right; right. exists f. split; [apply listed_In; eauto|].
        rewrite file_rows_of_get, get_file_set_files, nth_error_map_at. rewrite get_file_unfold in E1. rewrite E1. simpl.
        destruct (mem_nat f _); auto.
  - (* mem *) eexists; split; [reflexivity|]. split; auto. simpl. intro Hk. specialize (Hok Hk).
    unfold rd_ok in *. simpl. match goal with Hx : r_ph r = R2 _ _ _ |- _ => rewrite Hx in Hok end.
    destruct Hok as [A [B [C D]]].
    set (ms := opt_list (active (sh st)) ++ (if fl then [] else opt_list sn)).
    assert (Hget : forall m, In m ms -> exists t, get_mt (sh st) m = Some t).
    { intros m Hm. apply in_app_or in Hm. destruct Hm as [Hm|Hm].
      - destruct (active (sh st)) eqn:E; simpl in Hm; [|tauto]. destruct Hm as [<-|[]]. destruct (Ha _ eq_refl) as [t [G _]]. eauto.
      - destruct fl; [destruct Hm|]. destruct sn eqn:E; simpl in Hm; [|tauto]. destruct Hm as [<-|[]].
        destruct (Hs _ A) as [t [G _]]. eauto. }
    assert (Hrows : forall m, mt_rows_of (set_mts (sh st) (map_at 0 (fun k => mem_nat k ms) (mt_add_hold i) (mts (sh st)))) m = mt_rows_of (sh st) m).
    { intro m. rewrite !mt_rows_of_get. rewrite get_mt_set_mts, nth_error_map_at, <- get_mt_unfold.
      destruct (get_mt (sh st) m); simpl; auto. destruct (mem_nat m ms); auto. }
    split; [|split].
    + intros f Hf. destruct (C _ Hf) as [x [G Hx]]. rewrite get_file_set_mts. eauto.
    + intros m Hm. destruct (Hget _ Hm) as [t G]. rewrite get_mt_set_mts, nth_error_map_at. rewrite get_mt_unfold in G. rewrite G. simpl.
      assert (X : mem_nat m ms = true) by (apply mem_nat_In; auto). rewrite X. eexists; split; [reflexivity|]. simpl; auto.
    + intros b Hb. destruct (D _ Hb) as [[a1 [Ea Er]]|[[Efl [m [Em Er]]]|[f [Hf Er]]]].
      * left. exists a1. rewrite Hrows. split; auto. apply in_or_app. left. rewrite Ea. simpl; auto.
      * left. exists m. rewrite Hrows. split; auto. apply in_or_app. right. rewrite Efl, Em. simpl; auto.
      * right. exists f. split; auto.
  - (* read *) eexists; split; [reflexivity|]. split; auto. simpl. intro Hk. specialize (Hok Hk).
    unfold rd_ok in *. simpl. match goal with Hx : r_ph r = R3 _ _ |- _ => rewrite Hx in Hok end.
    destruct Hok as [C [D E]]. intros b Hb. apply in_or_app. destruct (E _ Hb) as [[m [Hm Er]]|[f [Hf Er]]].
    + left. apply in_flat_map. eauto.
    + right. apply in_flat_map. eauto.
  - (* done *) eexists; split; [reflexivity|]. split; [simpl; discriminate|].
    intros ok st0 res0 Hi Hk. simpl in Hi. destruct Hi as [Hi|Hi]; [|eapply Hh; eauto].
    injection Hi as E1 E2 E3. rewrite <- E1 in Hk. specialize (Hok Hk). unfold rd_ok in Hok.
    match goal with Hx : r_ph r = R4 _ _ _ |- _ => rewrite Hx in Hok end. rewrite <- E2, <- E3. auto.
Qed.

Lemma rd_inv_step : forall st i st', Inv1 st -> cover (sh st) -> close_ok (sh st) (actors st) -> rd_inv st ->
  exec correct st i = Some st' -> rd_inv st'.
Proof.
  intros st i st' HI Hc Hcl Hr H. inv_step H. intros j r Hj. rewrite Hact in Hj.
  apply nth_error_upd in Hj. destruct Hj as [[<- Ej]|[N Hj]].
  - (* the reader that stepped *)
    destruct a; try (inversion Hls; subst; discriminate).
    destruct (Hr _ _ Hnth) as [Hok Hh].
    destruct (rd_self _ _ _ _ _ HI Hc Hcl Hnth Hls Hok Hh) as [r' [E [A B]]]. rewrite E in Ej. inversion Ej; subst. auto.
  - destruct (Hr _ _ Hj) as [Hok Hh]. split; auto. intro Hk. eapply rd_ok_other; eauto.
Qed.

Lemma rd_inv_init : forall l, forallb fresh l = true -> rd_inv (init_state l).
Proof.
  intros l Hl j r Hj. rewrite forallb_forall in Hl. apply nth_error_In in Hj. apply Hl in Hj. simpl in Hj.
  destruct (r_ph r) eqn:E; try discriminate. split.
  - intros _. unfold rd_ok. rewrite E. auto.
  - intros ok st res Hi. apply is_nil_true in Hj. rewrite Hj in Hi. destruct Hi.
Qed.

Record Inv2 (st : state) : Prop := { i2_1 : Inv1 st; i2_cover : cover (sh st); i2_close : close_ok (sh st) (actors st); i2_rd : rd_inv st }.

Lemma inv2_reach : forall l st, forallb fresh l = true -> reach correct (init_state l) st -> Inv2 st.
Proof.
  intros l st Hl R. induction R.
  - constructor; [apply inv1_init|apply cover_init|apply close_ok_init|apply rd_inv_init]; auto.
  - destruct H as [i H]. destruct IHR as [A B C D]. constructor.
    + eapply inv1_step; eauto.
    + eapply cover_step; eauto.
    + eapply close_ok_step; eauto.
    + eapply rd_inv_step; eauto.
Qed.

(* ---------------------------------------------------------------- main theorems *)
Theorem view_complete_all : forall l st i r ok start res,
  forallb fresh l = true -> reach correct (init_state l) st ->
  nth_error (actors st) i = Some (AR r) -> In (ok, start, res) (r_hist r) -> ok = true -> incl start res.
Proof.
  intros l st i r ok start res Hl R Hn Hi Hk. destruct (inv2_reach _ _ Hl R) as [_ _ _ D].
  destruct (D _ _ Hn) as [_ Hh]. eapply Hh; eauto.
Qed.

(* also for the query in progress, once it has read *)
Theorem view_complete_in_progress : forall l st i r ms fs res,
  forallb fresh l = true -> reach correct (init_state l) st ->
  nth_error (actors st) i = Some (AR r) -> r_ok r = true -> r_ph r = R4 ms fs res -> incl (r_start r) res.
Proof.
  intros l st i r ms fs res Hl R Hn Hk Hp. destruct (inv2_reach _ _ Hl R) as [_ _ _ D].
  destruct (D _ _ Hn) as [Hok _]. specialize (Hok Hk). unfold rd_ok in Hok. rewrite Hp in Hok. auto.
Qed.
