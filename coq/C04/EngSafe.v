(* C04 engine level, proofs part 3: SAFETY of the reference / offload protocol.  For every system of operations whose
   programs pass `chk`, in every reachable state (variant `ecode`):
     - the partition's operation counter equals the number of operations that hold a reference (never underflows);
     - the partition's directories are deleted only after the shard was closed and while no reference is held, and
       from then on no reference can be taken (the partition is offloading or already unmapped);
     - hence no operation that holds a reference ever works on deleted data, no shard operation that was admitted
       (not rejected with "shard closed") touches deleted files: the violation log `bad` stays empty. *)
From Coq Require Import List Bool Arith PeanoNat Lia.
From OG Require Import C04.Model C04.Proofs C04.Eng C04.EngInv.
Import ListNotations.

Definition nref (l : list eactor) : nat := length (filter (fun a => hasref (ts a)) l).

Lemma nref_upd : forall l i a a', nth_error l i = Some a ->
  nref (upd l i a') + (if hasref (ts a) then 1 else 0) = nref l + (if hasref (ts a') then 1 else 0).
Proof.
  unfold nref. induction l as [|x r IH]; intros i a a' H; destruct i; simpl in *; try discriminate.
  - inversion H; subst. destruct (hasref (ts a)), (hasref (ts a')); simpl; lia.
  - specialize (IH _ _ a' H). destruct (hasref (ts x)); simpl; lia.
Qed.

Lemma nref_pos : forall l i a, nth_error l i = Some a -> hasref (ts a) = true -> 1 <= nref l.
Proof.
  unfold nref. induction l as [|x r IH]; intros i a Hj Hr; destruct i; simpl in *; try discriminate.
  - inversion Hj; subst. rewrite Hr. simpl. lia.
  - specialize (IH _ _ Hj Hr). destruct (hasref (ts x)); simpl; lia.
Qed.

Definition safe_inv (st : estate) : Prop :=
  refs (esh st) = nref (eacts st) /\
  (forall j a, nth_error (eacts st) j = Some a -> marked (ts a) = true -> In (0, MW) (held (ts a)) /\ offl (esh st) = true) /\
  (forall j a, nth_error (eacts st) j = Some a -> drained (ts a) = true -> marked (ts a) = true /\ refs (esh st) = 0) /\
  (forall j a, nth_error (eacts st) j = Some a -> closedk (ts a) = true -> closed (esh st) = true) /\
  (gone (esh st) = true -> closed (esh st) = true /\ refs (esh st) = 0 /\
     ((exists j a, nth_error (eacts st) j = Some a /\ drained (ts a) = true) \/ present (esh st) = false)) /\
  bad (esh st) = [].

Lemma safe_inv_init : forall ps, safe_inv (einit ps).
Proof.
  intros ps. unfold safe_inv. simpl.
  assert (F : forall j a, nth_error (map fresh_actor ps) j = Some a -> ts a = ts0).
  { intros j a H. rewrite nth_error_map in H. destruct (nth_error ps j); inversion H; subst. reflexivity. }
  split; [|split; [|split; [|split; [|split]]]]; auto.
  - clear F. unfold nref. induction ps; simpl; auto.
  - intros j a H M. rewrite (F _ _ H) in M. discriminate.
  - intros j a H M. rewrite (F _ _ H) in M. discriminate.
  - intros j a H M. rewrite (F _ _ H) in M. discriminate.
Qed.

Lemma excl_w : forall st k j1 j2 a1 a2, lock_inv st -> nth_error (eacts st) j1 = Some a1 -> nth_error (eacts st) j2 = Some a2 ->
  In (k, MW) (held (ts a1)) -> In (k, MW) (held (ts a2)) -> j1 = j2.
Proof.
  intros st k j1 j2 a1 a2 HL N1 N2 I1 I2. destruct (HL k) as [_ [_ [_ [H4 _]]]].
  assert (W1 : pend (lk (esh st) k) = Some j1 /\ wheld (lk (esh st) k) = true) by (apply H4; exists a1; auto).
  assert (W2 : pend (lk (esh st) k) = Some j2 /\ wheld (lk (esh st) k) = true) by (apply H4; exists a2; auto).
  destruct W1, W2. congruence.
Qed.

Lemma In_rm_km_keep : forall k m l x, In x l -> x <> (k, m) -> In x (rm_km k m l).
Proof.
  induction l as [|y r IH]; simpl; intros x H N; auto. destruct (is_km k m y) eqn:E.
  - apply is_km_true in E. subst y. destruct H; [congruence|auto].
  - destruct H; [left; auto|right; auto].
Qed.

(* the (0, MW) entry of a marked operation survives every lock operation the discipline allows *)
Lemma keep_0w : forall o t, ok_lock o t = true -> marked t = true -> In (0, MW) (held t) -> In (0, MW) (held (ts_lock o t)).
Proof.
  intros o t Hok Hm Hi. destruct o as [k|k|k|k|k]; simpl in *.
  - right; auto.
  - apply In_rm_km_keep; auto. discriminate.
  - right; auto.
  - apply In_map_upg. left. split; auto. discriminate.
  - apply andb_true_iff in Hok. destruct Hok as [_ Hok]. destruct (Nat.eqb k 0) eqn:E.
    + rewrite Hm in Hok. discriminate.
    + apply In_rm_km_keep; auto. intro C. inversion C; subst. discriminate.
Qed.

Lemma flags_ts_lock : forall o t, hasref (ts_lock o t) = hasref t /\ marked (ts_lock o t) = marked t /\
  drained (ts_lock o t) = drained t /\ closedk (ts_lock o t) = closedk t.
Proof. destruct o; simpl; auto. Qed.

(* shared fields other than the locks are untouched by a lock operation *)
Lemma eff_lock_fields : forall i o s, refs (eff_lock i o s) = refs s /\ offl (eff_lock i o s) = offl s /\
  present (eff_lock i o s) = present s /\ closed (eff_lock i o s) = closed s /\ gone (eff_lock i o s) = gone s /\
  bad (eff_lock i o s) = bad s.
Proof. destruct o; simpl; auto 10. Qed.

Lemma safe_inv_step : forall st i c st', all_inv st -> safe_inv st -> eexec ecode st i c = Some st' -> safe_inv st'.
Proof.
  intros st i c st' [HL HA] [S1 [S2 [S3 [S4 [S5 S6]]]]] H. unfold eexec in H.
  destruct (nth_error (eacts st) i) as [a|] eqn:Ha; [|discriminate].
  destruct (estep ecode i c (esh st) a) as [[s' a']|] eqn:Es; [|discriminate]. inversion H; subst; clear H.
  pose proof (HA _ _ Ha) as [Hc _]. pose proof (nref_upd (eacts st) i a a' Ha) as Hn.
  unfold safe_inv. simpl esh. simpl eacts.
  (* the other actors *)
  assert (Hoth : forall j b, nth_error (upd (eacts st) i a') j = Some b -> (j = i /\ b = a') \/ (j <> i /\ nth_error (eacts st) j = Some b)).
  { intros j b Hj. apply nth_error_upd in Hj. destruct Hj as [[-> ->]|[N Hj]]; auto. }
  assert (Huniq : forall j b, nth_error (eacts st) j = Some b -> marked (ts b) = true -> marked (ts a) = true -> j = i).
  { intros j b Hj Mb Ma. destruct (S2 _ _ Hj Mb) as [I1 _]. destruct (S2 _ _ Ha Ma) as [I2 _]. eapply excl_w; eauto. }
  unfold estep in Es. destruct (pr a) as [|o q|brk f q] eqn:Ep; [discriminate| |].
  - apply chk_Seq in Hc. destruct Hc as [Hok _]. destruct o as [o|o].
    + (* lock operation *)
      destruct (guard_lock o (esh st)); [|discriminate]. inversion Es; subst; clear Es. simpl in Hn, Hok.
      destruct (flags_ts_lock o (ts a)) as [F1 [F2 [F3 F4]]]. destruct (eff_lock_fields i o (esh st)) as [E1 [E2 [E3 [E4 [E5 E6]]]]].
      simpl ts in Hn. rewrite F1 in Hn. rewrite E1, E2, E3, E4, E5, E6.
      split; [destruct (hasref (ts a)); lia|]. split; [|split; [|split; [|split]]]; auto.
      * intros j b Hj Mb. destruct (Hoth _ _ Hj) as [[-> ->]|[N Hj']]; [|eauto]. simpl in Mb |- *. rewrite F2 in Mb.
        destruct (S2 _ _ Ha Mb) as [I0 Ho]. split; auto. apply keep_0w; auto.
      * intros j b Hj Mb. destruct (Hoth _ _ Hj) as [[-> ->]|[N Hj']]; [|eauto]. simpl in Mb |- *. rewrite F3 in Mb. rewrite F2. eauto.
      * intros j b Hj Mb. destruct (Hoth _ _ Hj) as [[-> ->]|[N Hj']]; [|eauto]. simpl in Mb. rewrite F4 in Mb. eauto.
      * intros G. destruct (S5 G) as [G1 [G2 [[j [b [Hj Db]]]|G3]]]; split; auto; split; auto.
        left. destruct (Nat.eq_dec j i) as [->|N].
        -- exists i, {| pr := q; ts := ts_lock o (ts a) |}. split; [apply nth_error_upd_eq; eapply nth_lt'; eauto|].
           simpl. rewrite F3. rewrite Ha in Hj. inversion Hj; subst. auto.
        -- exists j, b. split; auto. rewrite nth_error_upd_neq; auto.
    + (* data operation *)
      destruct (guard_data o (esh st)); [|discriminate]. inversion Es; subst; clear Es. simpl in Hn, Hok.
      destruct o; simpl in Hok, Hn |- *.
      * (* Unref *)
        apply andb_true_iff in Hok. destruct Hok as [Hok _]. apply andb_true_iff in Hok. destruct Hok as [Hr _].
        rewrite Hr in Hn. destruct (refs (esh st)) as [|n] eqn:Er; [lia|]. simpl.
        assert (Nd : forall j b, nth_error (eacts st) j = Some b -> drained (ts b) = true -> False).
        { intros j b Hj Db. destruct (S3 _ _ Hj Db) as [_ C]. discriminate. }
        assert (Ng : gone (esh st) = false).
        { destruct (gone (esh st)) eqn:G; auto. destruct (S5 eq_refl) as [_ [C _]]. discriminate. }
        split; [lia|]. split; [|split; [|split; [|split]]]; auto.
        -- intros j b Hj Mb. destruct (Hoth _ _ Hj) as [[-> ->]|[N Hj']]; [|eauto]. simpl in *. eauto.
        -- intros j b Hj Db. exfalso. destruct (Hoth _ _ Hj) as [[-> ->]|[N Hj']]; [simpl in Db|]; eauto.
        -- intros j b Hj Mb. destruct (Hoth _ _ Hj) as [[-> ->]|[N Hj']]; [|eauto]. simpl in *. eauto.
        -- rewrite Ng. discriminate.
      * (* Mark *)
        apply andb_true_iff in Hok. destruct Hok as [Hok Hnm]. apply andb_true_iff in Hok. destruct Hok as [_ H0].
        apply holds_In in H0. apply negb_true_iff in Hnm.
        split; [destruct (hasref (ts a)); lia|]. split; [|split; [|split; [|split]]]; auto.
        -- intros j b Hj Mb. destruct (Hoth _ _ Hj) as [[-> ->]|[N Hj']]; [simpl; auto|]. destruct (S2 _ _ Hj' Mb); auto.
        -- intros j b Hj Db. destruct (Hoth _ _ Hj) as [[-> ->]|[N Hj']]; [|eauto]. simpl in *.
           destruct (S3 _ _ Ha Db) as [C _]. congruence.
        -- intros j b Hj Mb. destruct (Hoth _ _ Hj) as [[-> ->]|[N Hj']]; [|eauto]. simpl in *. eauto.
        -- intros G. destruct (S5 G) as [G1 [G2 [[j [b [Hj Db]]]|G3]]]; split; auto; split; auto.
           left. destruct (Nat.eq_dec j i) as [->|N].
           ++ rewrite Ha in Hj. inversion Hj; subst. destruct (S3 _ _ Ha Db) as [C _]. congruence.
           ++ exists j, b. split; auto. rewrite nth_error_upd_neq; auto.
      * (* Unmark *)
        apply andb_true_iff in Hok. destruct Hok as [Hok Hnd]. apply andb_true_iff in Hok. destruct Hok as [_ Hmk].
        apply negb_true_iff in Hnd.
        assert (Nd : forall j b, nth_error (eacts st) j = Some b -> drained (ts b) = true -> False).
        { intros j b Hj Db. destruct (S3 _ _ Hj Db) as [Mb _]. assert (j = i) by (eapply Huniq; eauto). subst.
          rewrite Ha in Hj. inversion Hj; subst. congruence. }
        split; [destruct (hasref (ts a)); lia|]. split; [|split; [|split; [|split]]]; auto.
        -- intros j b Hj Mb. destruct (Hoth _ _ Hj) as [[-> ->]|[N Hj']]; [simpl in Mb; discriminate|].
           exfalso. apply N. eapply Huniq; eauto.
        -- intros j b Hj Db. exfalso. destruct (Hoth _ _ Hj) as [[-> ->]|[N Hj']]; [simpl in Db|]; eauto.
        -- intros j b Hj Mb. destruct (Hoth _ _ Hj) as [[-> ->]|[N Hj']]; [|eauto]. simpl in *. eauto.
        -- intros G. destruct (S5 G) as [G1 [G2 [[j [b [Hj Db]]]|G3]]]; [exfalso; eauto|]. auto.
      * (* CloseShard *)
        split; [destruct (hasref (ts a)); lia|]. split; [|split; [|split; [|split]]]; auto.
        -- intros j b Hj Mb. destruct (Hoth _ _ Hj) as [[-> ->]|[N Hj']]; [|eauto]. simpl in *. eauto.
        -- intros j b Hj Db. destruct (Hoth _ _ Hj) as [[-> ->]|[N Hj']]; [|eauto]. simpl in *. eauto.
        -- intros G. destruct (S5 G) as [G1 [G2 [[j [b [Hj Db]]]|G3]]]; split; auto; split; auto.
           left. destruct (Nat.eq_dec j i) as [->|N].
           ++ rewrite Ha in Hj. inversion Hj; subst. eexists _, _. split; [apply nth_error_upd_eq; eapply nth_lt'; eauto|]. simpl. auto.
           ++ exists j, b. split; auto. rewrite nth_error_upd_neq; auto.
      * (* Unmap *)
        split; [destruct (hasref (ts a)); lia|]. split; [|split; [|split; [|split]]]; auto.
        -- intros j b Hj Mb. destruct (Hoth _ _ Hj) as [[-> ->]|[N Hj']]; simpl in *; eauto.
        -- intros j b Hj Db. destruct (Hoth _ _ Hj) as [[-> ->]|[N Hj']]; simpl in *; eauto.
        -- intros j b Hj Mb. destruct (Hoth _ _ Hj) as [[-> ->]|[N Hj']]; simpl in *; eauto.
        -- intros G. destruct (S5 G) as [G1 [G2 [[j [b [Hj Db]]]|G3]]]; split; auto; split; auto.
           left. destruct (Nat.eq_dec j i) as [->|N].
           ++ rewrite Ha in Hj. inversion Hj; subst. eexists _, _. split; [apply nth_error_upd_eq; eapply nth_lt'; eauto|]. simpl. auto.
           ++ exists j, b. split; auto. rewrite nth_error_upd_neq; auto.
      * (* DelDirs *)
        apply andb_true_iff in Hok. destruct Hok as [Hd Hck]. destruct (S3 _ _ Ha Hd) as [Hmk Hr0]. rewrite Hr0. simpl.
        split; [destruct (hasref (ts a)); lia|]. split; [|split; [|split; [|split]]]; auto.
        -- intros j b Hj Mb. destruct (Hoth _ _ Hj) as [[-> ->]|[N Hj']]; simpl in *; eauto.
        -- intros j b Hj Db. destruct (Hoth _ _ Hj) as [[-> ->]|[N Hj']]; simpl in *; eauto.
        -- intros j b Hj Mb. destruct (Hoth _ _ Hj) as [[-> ->]|[N Hj']]; simpl in *; eauto.
        -- intros _. split; [eauto|]. split; auto. left. eexists _, _. split; [apply nth_error_upd_eq; eapply nth_lt'; eauto|]. simpl. auto.
      * (* DropPt *)
        split; [destruct (hasref (ts a)); lia|]. split; [|split; [|split; [|split]]]; auto.
        -- intros j b Hj Mb. destruct (Hoth _ _ Hj) as [[-> ->]|[N Hj']]; [simpl in Mb; discriminate|eauto].
        -- intros j b Hj Db. destruct (Hoth _ _ Hj) as [[-> ->]|[N Hj']]; [simpl in Db; discriminate|eauto].
        -- intros j b Hj Mb. destruct (Hoth _ _ Hj) as [[-> ->]|[N Hj']]; [|eauto]. simpl in *. eauto.
        -- intros G. destruct (S5 G) as [G1 [G2 _]]. auto.
      * (* Use *)
        rewrite Hok in Hn.
        assert (Ng : gone (esh st) = false).
        { destruct (gone (esh st)) eqn:G; auto. destruct (S5 eq_refl) as [_ [C _]]. pose proof (nref_pos _ _ _ Ha Hok). lia. }
        rewrite Ng.
        split; [lia|]. split; [|split; [|split; [|split]]]; auto.
        -- intros j b Hj Mb. destruct (Hoth _ _ Hj) as [[-> ->]|[N Hj']]; simpl in *; eauto.
        -- intros j b Hj Db. destruct (Hoth _ _ Hj) as [[-> ->]|[N Hj']]; simpl in *; eauto.
        -- intros j b Hj Mb. destruct (Hoth _ _ Hj) as [[-> ->]|[N Hj']]; simpl in *; eauto.
        -- rewrite Ng. discriminate.
      * (* ShardOp *)
        assert (Eb : (if negb (closed (esh st)) && gone (esh st) then add_bad (esh st) 3 else esh st) = esh st).
        { destruct (gone (esh st)) eqn:G; [|rewrite andb_false_r; auto]. destruct (S5 eq_refl) as [C _]. rewrite C. auto. }
        rewrite Eb.
        split; [destruct (hasref (ts a)); lia|]. split; [|split; [|split; [|split]]]; auto.
        -- intros j b Hj Mb. destruct (Hoth _ _ Hj) as [[-> ->]|[N Hj']]; simpl in *; eauto.
        -- intros j b Hj Db. destruct (Hoth _ _ Hj) as [[-> ->]|[N Hj']]; simpl in *; eauto.
        -- intros j b Hj Mb. destruct (Hoth _ _ Hj) as [[-> ->]|[N Hj']]; simpl in *; eauto.
        -- intros G. destruct (S5 G) as [G1 [G2 [[j [b [Hj Db]]]|G3]]]; split; auto; split; auto.
           left. destruct (Nat.eq_dec j i) as [->|N].
           ++ rewrite Ha in Hj. inversion Hj; subst. eexists _, _. split; [apply nth_error_upd_eq; eapply nth_lt'; eauto|]. simpl. auto.
           ++ exists j, b. split; auto. rewrite nth_error_upd_neq; auto.
  - (* branches *)
    apply chk_Br in Hc. destruct Hc as [Hok _].
    (* the failure continuation (and Lookup / ShardLookup success) change nothing but the program *)
    assert (Hsame : forall p', safe_inv {| esh := esh st; eacts := upd (eacts st) i {| pr := p'; ts := ts a |} |}).
    { intros p'. pose proof (nref_upd (eacts st) i a {| pr := p'; ts := ts a |} Ha) as Hn'. simpl in Hn'.
      assert (Ho : forall j b, nth_error (upd (eacts st) i {| pr := p'; ts := ts a |}) j = Some b ->
                     exists b0, nth_error (eacts st) j = Some b0 /\ ts b0 = ts b).
      { intros j b Hj. apply nth_error_upd in Hj. destruct Hj as [[-> ->]|[N Hj]]; eauto. }
      unfold safe_inv. simpl. split; [destruct (hasref (ts a)); lia|]. split; [|split; [|split; [|split]]]; auto.
      - intros j b Hj Mb. destruct (Ho _ _ Hj) as [b0 [Hb0 E]]. rewrite <- E in *. eauto.
      - intros j b Hj Mb. destruct (Ho _ _ Hj) as [b0 [Hb0 E]]. rewrite <- E in *. eauto.
      - intros j b Hj Mb. destruct (Ho _ _ Hj) as [b0 [Hb0 E]]. rewrite <- E in *. eauto.
      - intros G. destruct (S5 G) as [G1 [G2 [[j [b [Hj Db]]]|G3]]]; split; auto; split; auto.
        left. destruct (Nat.eq_dec j i) as [->|N].
        + rewrite Ha in Hj. inversion Hj; subst. eexists _, _. split; [apply nth_error_upd_eq; eapply nth_lt'; eauto|]. simpl. auto.
        + exists j, b. split; auto. rewrite nth_error_upd_neq; auto. }
    destruct brk; simpl in Hok.
    + (* Ref *)
      destruct (is_none (pend (lk (esh st) 2))); [|discriminate].
      destruct (present (esh st) && (negb (offl (esh st)) || ev_ref_ignores_offl ecode)) eqn:Eok; inversion Es; subst; clear Es; [|apply Hsame].
      simpl in Eok. rewrite orb_false_r in Eok. apply andb_true_iff in Eok. destruct Eok as [Hpr Hof]. apply negb_true_iff in Hof.
      apply andb_true_iff in Hok. destruct Hok as [_ Hnr]. apply negb_true_iff in Hnr. simpl in Hn. rewrite Hnr in Hn.
      assert (Nm : forall j b, nth_error (eacts st) j = Some b -> marked (ts b) = true -> False).
      { intros j b Hj Mb. destruct (S2 _ _ Hj Mb) as [_ C]. congruence. }
      assert (Nd : forall j b, nth_error (eacts st) j = Some b -> drained (ts b) = true -> False).
      { intros j b Hj Db. destruct (S3 _ _ Hj Db) as [Mb _]. eauto. }
      assert (Ng : gone (esh st) = false).
      { destruct (gone (esh st)) eqn:G; auto. destruct (S5 eq_refl) as [_ [_ [[j [b [Hj Db]]]|C]]]; [exfalso; eauto|congruence]. }
      unfold safe_inv. simpl. split; [lia|]. split; [|split; [|split; [|split]]]; auto.
      * intros j b Hj Mb. exfalso. destruct (Hoth _ _ Hj) as [[-> ->]|[N Hj']]; [simpl in Mb|]; eauto.
      * intros j b Hj Db. exfalso. destruct (Hoth _ _ Hj) as [[-> ->]|[N Hj']]; [simpl in Db|]; eauto.
      * intros j b Hj Mb. destruct (Hoth _ _ Hj) as [[-> ->]|[N Hj']]; [|eauto]. simpl in *. eauto.
      * rewrite Ng. discriminate.
    + destruct (present (esh st)); inversion Es; subst; apply Hsame.
    + destruct (mapped (esh st)); inversion Es; subst; apply Hsame.
    + (* Wait *)
      destruct c.
      * destruct (Nat.eqb (refs (esh st)) 0) eqn:E0; [|discriminate]. apply Nat.eqb_eq in E0. inversion Es; subst; clear Es.
        apply andb_true_iff in Hok. destruct Hok as [Hmk _]. simpl in Hn.
        unfold safe_inv. simpl. split; [destruct (hasref (ts a)); lia|]. split; [|split; [|split; [|split]]]; auto.
        -- intros j b Hj Mb. destruct (Hoth _ _ Hj) as [[-> ->]|[N Hj']]; [|eauto]. simpl in *. eauto.
        -- intros j b Hj Db. destruct (Hoth _ _ Hj) as [[-> ->]|[N Hj']]; [|eauto]. simpl in *. auto.
        -- intros j b Hj Mb. destruct (Hoth _ _ Hj) as [[-> ->]|[N Hj']]; [|eauto]. simpl in *. eauto.
        -- intros G. destruct (S5 G) as [G1 [G2 _]]. split; auto. split; auto. left.
           eexists _, _. split; [apply nth_error_upd_eq; eapply nth_lt'; eauto|]. simpl. auto.
      * destruct (ev_timeout ecode); [|discriminate]. inversion Es; subst. apply Hsame.
Qed.

Lemma safe_inv_reach : forall ps st, forallb (chk ts0) ps = true -> ereach ecode (einit ps) st -> safe_inv st.
Proof.
  intros ps st Hp R. induction R; [apply safe_inv_init|]. destruct H as [i [c H]].
  eapply safe_inv_step; eauto. eapply all_inv_reach; eauto.
Qed.

Theorem eng_safe_all : forall ps st, forallb (chk ts0) ps = true -> ereach ecode (einit ps) st ->
  bad (esh st) = [] /\
  refs (esh st) = nref (eacts st) /\
  (gone (esh st) = true -> closed (esh st) = true /\ refs (esh st) = 0) /\
  (forall j a, nth_error (eacts st) j = Some a -> hasref (ts a) = true -> gone (esh st) = false).
Proof.
  intros ps st Hp R. destruct (safe_inv_reach _ _ Hp R) as [S1 [S2 [S3 [S4 [S5 S6]]]]].
  split; auto. split; auto. split; [intros G; destruct (S5 G) as [G1 [G2 _]]; auto|].
  intros j a Hj Hr. destruct (gone (esh st)) eqn:G; auto. destruct (S5 eq_refl) as [_ [G2 _]].
  pose proof (nref_pos _ _ _ Hj Hr). lia.
Qed.
