(* C04 model: a small-step machine whose steps are the critical sections (lock acquire ... release) of the
   actors that touch one shard: writers, readers (queries), flushers, replacers (compaction / out-of-order merge /
   physical removal) and closers.  Executable Gallina only; every theorem is in Proofs*.v / Props.v.

   Shared state = layout of containers holding batches (memtables, files) + reference holders + flags + the two
   locks the closer holds across steps.  Locks that are only held inside one step are implicit in the atomicity of
   that step; locks held across steps are derived from the phases of the actors (snapshot lock: readers in R1/R2;
   shard.mu read side: writers in W1; "snapshot in progress": flushers in F1/F2) or explicit (mu_x, mmu_x: the
   closer).  A step is enabled only if the locks it takes are free.

   Code anchors (repository paths, for the reader of the model):
     writer   W0->W1  shard.WriteRows/writeRows: under shard.mu.R and snapshotLock.R append to activeTbl (+ WAL)
              W1->W0  WriteRows returns nil = acknowledgement (shard.mu.R released)
     reader   R0->R1  shard.cloneReaders: snapshotLock.RLock; read s.snapshotTbl and its MsInfo.flushed POINTER
              R1->R2  MmsTables.GetBothFilesRef: under m.mu.R + both TSSPFiles.lock.R: Ref every listed file, THEN
                      read *flushed
              R2->R3  mutableReader.Init(active, snapshot iff not flushed); Ref; snapshotLock.RUnlock
              R3->R4  cursors read the referenced containers
              R4->R0  TsIndexInfo.Unref: Unref files and memtables
     flusher  F0->F1  tsstoreImpl.writeSnapshot: snapshotLock.Lock; snapshotTbl = activeTbl; new activeTbl; Unlock
              F1->F2  FlushChunks ... AddBothTSSPFiles: under the TSSPFiles write locks append files AND *flushed=true
              F2->F0  snapshotLock.Lock; snapshotTbl.UnRef(); snapshotTbl = nil; Unlock
     replacer Replace MmsTables.ReplaceFiles under TSSPFiles.lock: de-list old files, list the new one
              Delist  deleteUnorderedFiles after an out-of-order merge put the rows into ordered files
              Gc      tsspFile.Remove / TableStoreGC.GC: physical removal, only when nobody holds a reference
     closer   shard.Close: cacheClosed+DisableCompAndMerge; shard.mu.Lock; snapshotLock.Lock{activeTbl=nil};
              waitSnapshot; immTables.Close (m.mu.Lock; every file: Stop, wg.Wait for references) *)
From Coq Require Import List Bool Arith PeanoNat.
Import ListNotations.

(* ---------------------------------------------------------------- protocol variants (mutants) *)
Record variant := {
  v_flag_first : bool;   (* reader reads *flushed BEFORE taking the file references (in R0->R1) *)
  v_drop_first : bool;   (* flusher drops the snapshot table BEFORE publishing the files *)
  v_gc_ignores_refs : bool;  (* physical removal does not wait for reference count 0 *)
  v_no_snap_lock : bool; (* flusher swaps / drops without waiting for readers inside the snapshot lock *)
  v_stale_list : bool;   (* THE CODE BEFORE fix 0726c22: the flusher fetches the out-of-order list object (makeTSSPFiles) in one
                            critical section and appends to it in a later one, while deleteUnorderedFiles may remove
                            an empty list object from MmsTables.OutOfOrder in between *)
  v_drop_blind : bool;   (* mutant: deleteUnorderedFiles deletes the out-of-order list object from the map on the stale
                            "list became empty" decision of its first critical section, without re-checking under m.mu *)
  v_no_wait_snap : bool  (* mutant: a flush starts without waiting for the snapshot that is already in flight
                            (ForceFlush without waitSnapshot / background snapshot ignoring snapshotTbl != nil) *)
}.
Definition correct : variant :=
  {| v_flag_first := false; v_drop_first := false; v_gc_ignores_refs := false; v_no_snap_lock := false;
     v_stale_list := false; v_drop_blind := false; v_no_wait_snap := false |}.
(* the protocol as the repository implements it today (see Refuted.v) *)
Definition current : variant :=
  {| v_flag_first := false; v_drop_first := false; v_gc_ignores_refs := false; v_no_snap_lock := false;
     v_stale_list := true; v_drop_blind := false; v_no_wait_snap := false |}.

(* ---------------------------------------------------------------- shared state *)
Record mtab := { m_rows : list nat; m_hold : list nat; m_flag : bool; m_dead : bool }.
Record file := { f_rows : list nat; f_src : option nat; f_ord : bool; f_listed : bool; f_removed : bool; f_hold : list nat }.

Record shared := {
  mts : list mtab;          (* every memtable ever created; id = position *)
  active : option nat;
  snap : option nat;
  files : list file;        (* every file ever created; id = position *)
  appended : list nat;      (* batches some writer has appended (acknowledged or in flight) *)
  acked : list nat;         (* acknowledged batches *)
  dropped : bool;           (* the closer has dropped the active table *)
  closing : bool;           (* Close has been called: writes are rejected, compaction is stopped *)
  mu_x : bool;              (* closer holds shard.mu exclusively *)
  mmu_x : bool;             (* closer holds MmsTables.mu exclusively (immTables.Close) *)
  fclosed : bool;           (* files closed *)
  hi : nat;                 (* sequencer: largest batch (= time) in ordered files; later flushes send b <= hi out of order *)
  ugen : nat                (* identity (generation) of the out-of-order list object in MmsTables.OutOfOrder *)
}.

Definition init_shared : shared :=
  {| mts := [ {| m_rows := []; m_hold := []; m_flag := false; m_dead := false |} ];
     active := Some 0; snap := None; files := []; appended := []; acked := [];
     dropped := false; closing := false; mu_x := false; mmu_x := false; fclosed := false; hi := 0; ugen := 0 |}.

(* ---------------------------------------------------------------- actors *)
Inductive wph := W0 | W1 (b : nat).
Record writer := { w_todo : list nat; w_ph : wph }.

Inductive rph :=
| R0
| R1 (sn : option nat) (fl0 : bool)               (* fl0: flag as read in R0->R1 (only used by v_flag_first) *)
| R2 (sn : option nat) (fs : list nat) (fl : bool)
| R3 (ms fs : list nat)
| R4 (ms fs res : list nat).
Record reader := {
  r_left : nat;                 (* queries still to run *)
  r_ok : bool;                  (* current query started before the closer dropped the active table *)
  r_start : list nat;           (* batches acknowledged when the current query took its first step *)
  r_ph : rph;
  r_hist : list (bool * list nat * list nat)   (* finished queries, newest first: (ok, start, result) *)
}.

Inductive fph := F0 | F1 (m : nat) | F1b (m : nat) (g : nat) | F2 (m : nat).
Record flusher := { fl_left : nat; fl_ph : fph }.

Inductive rop :=
| Replace (olds extra : list nat) | Delist (fs : list nat) | Gc (f : nat)
| Merge        (* out-of-order merge: Replace (listed ordered) (listed out-of-order); then Delist; then DropList *)
| DropList.    (* deleteUnorderedFiles: an empty out-of-order list object is removed from MmsTables.OutOfOrder *)
Inductive cph := C0 | C1 | C2 | C3 | C4 | C5.

Inductive actor :=
| AW (w : writer) | AR (r : reader) | AF (f : flusher) | AP (todo : list rop) | AC (c : cph).

Record state := { sh : shared; actors : list actor }.

(* ---------------------------------------------------------------- list helpers *)
Fixpoint upd {A} (l : list A) (i : nat) (x : A) : list A :=
  match l, i with
  | [], _ => []
  | _ :: t, O => x :: t
  | h :: t, S j => h :: upd t j x
  end.

(* apply g at every position k (counted from k0) with p k = true *)
Fixpoint map_at {A} (k0 : nat) (p : nat -> bool) (g : A -> A) (l : list A) : list A :=
  match l with
  | [] => []
  | h :: t => (if p k0 then g h else h) :: map_at (S k0) p g t
  end.

Fixpoint remove_nat (x : nat) (l : list nat) : list nat :=
  match l with
  | [] => []
  | y :: t => if Nat.eqb x y then remove_nat x t else y :: remove_nat x t
  end.

Fixpoint mem_nat (x : nat) (l : list nat) : bool :=
  match l with [] => false | y :: t => Nat.eqb x y || mem_nat x t end.

Definition is_nil {A} (l : list A) : bool := match l with [] => true | _ => false end.

Fixpoint seq_from (k n : nat) : list nat := match n with O => [] | S n' => k :: seq_from (S k) n' end.

(* ---------------------------------------------------------------- accessors *)
Definition get_mt (s : shared) (m : nat) : option mtab := nth_error (mts s) m.
Definition get_file (s : shared) (f : nat) : option file := nth_error (files s) f.

Definition set_mts (s : shared) (l : list mtab) : shared :=
  {| mts := l; active := active s; snap := snap s; files := files s; appended := appended s; acked := acked s;
     dropped := dropped s; closing := closing s; mu_x := mu_x s; mmu_x := mmu_x s; fclosed := fclosed s;
     hi := hi s; ugen := ugen s |}.
Definition set_files (s : shared) (l : list file) : shared :=
  {| mts := mts s; active := active s; snap := snap s; files := l; appended := appended s; acked := acked s;
     dropped := dropped s; closing := closing s; mu_x := mu_x s; mmu_x := mmu_x s; fclosed := fclosed s;
     hi := hi s; ugen := ugen s |}.
Definition set_active_snap (s : shared) (a sn : option nat) : shared :=
  {| mts := mts s; active := a; snap := sn; files := files s; appended := appended s; acked := acked s;
     dropped := dropped s; closing := closing s; mu_x := mu_x s; mmu_x := mmu_x s; fclosed := fclosed s;
     hi := hi s; ugen := ugen s |}.
Definition set_logs (s : shared) (ap ak : list nat) : shared :=
  {| mts := mts s; active := active s; snap := snap s; files := files s; appended := ap; acked := ak;
     dropped := dropped s; closing := closing s; mu_x := mu_x s; mmu_x := mmu_x s; fclosed := fclosed s;
     hi := hi s; ugen := ugen s |}.
Definition set_close (s : shared) (dr cl mx mmx fc : bool) : shared :=
  {| mts := mts s; active := active s; snap := snap s; files := files s; appended := appended s; acked := acked s;
     dropped := dr; closing := cl; mu_x := mx; mmu_x := mmx; fclosed := fc; hi := hi s; ugen := ugen s |}.

Definition set_seq (s : shared) (h g : nat) : shared :=
  {| mts := mts s; active := active s; snap := snap s; files := files s; appended := appended s; acked := acked s;
     dropped := dropped s; closing := closing s; mu_x := mu_x s; mmu_x := mmu_x s; fclosed := fclosed s;
     hi := h; ugen := g |}.

Definition map_mt (s : shared) (m : nat) (g : mtab -> mtab) : shared :=
  match get_mt s m with Some t => set_mts s (upd (mts s) m (g t)) | None => s end.
Definition map_file (s : shared) (f : nat) (g : file -> file) : shared :=
  match get_file s f with Some t => set_files s (upd (files s) f (g t)) | None => s end.

Definition mt_add_row (b : nat) (t : mtab) : mtab :=
  {| m_rows := b :: m_rows t; m_hold := m_hold t; m_flag := m_flag t; m_dead := m_dead t |}.
Definition mt_add_hold (i : nat) (t : mtab) : mtab :=
  {| m_rows := m_rows t; m_hold := i :: m_hold t; m_flag := m_flag t; m_dead := m_dead t |}.
Definition mt_set_flag (t : mtab) : mtab :=
  {| m_rows := m_rows t; m_hold := m_hold t; m_flag := true; m_dead := m_dead t |}.
Definition mt_kill (t : mtab) : mtab :=   (* recycled: MemTable.Reset *)
  {| m_rows := []; m_hold := m_hold t; m_flag := m_flag t; m_dead := true |}.
(* remove holder i; if nobody holds it any more and it is not owned by the shard it is recycled *)
Definition mt_unhold (i : nat) (owned : bool) (t : mtab) : mtab :=
  let h := remove_nat i (m_hold t) in
  if is_nil h && negb owned
  then {| m_rows := []; m_hold := h; m_flag := m_flag t; m_dead := true |}
  else {| m_rows := m_rows t; m_hold := h; m_flag := m_flag t; m_dead := m_dead t |}.

Definition f_add_hold (i : nat) (t : file) : file :=
  {| f_rows := f_rows t; f_src := f_src t; f_ord := f_ord t; f_listed := f_listed t; f_removed := f_removed t; f_hold := i :: f_hold t |}.
Definition f_unhold (i : nat) (t : file) : file :=
  {| f_rows := f_rows t; f_src := f_src t; f_ord := f_ord t; f_listed := f_listed t; f_removed := f_removed t; f_hold := remove_nat i (f_hold t) |}.
Definition f_delist (t : file) : file :=
  {| f_rows := f_rows t; f_src := f_src t; f_ord := f_ord t; f_listed := false; f_removed := f_removed t; f_hold := f_hold t |}.
Definition f_remove (t : file) : file :=   (* physical removal: the contents are gone *)
  {| f_rows := []; f_src := f_src t; f_ord := f_ord t; f_listed := f_listed t; f_removed := true; f_hold := f_hold t |}.

Definition opt_list (o : option nat) : list nat := match o with Some x => [x] | None => [] end.

Definition owned (s : shared) (m : nat) : bool :=
  match active s with Some a => Nat.eqb a m | None => false end
  || match snap s with Some a => Nat.eqb a m | None => false end.

Definition owned_ids (s : shared) : list nat := opt_list (active s) ++ opt_list (snap s).
(* reader i releases the memtables ms: holder removed; a table nobody holds and the shard no longer owns is recycled *)
Fixpoint unhold_all (i : nat) (own ms : list nat) (k : nat) (l : list mtab) : list mtab :=
  match l with
  | [] => []
  | t :: r => (if mem_nat k ms then mt_unhold i (mem_nat k own) t else t) :: unhold_all i own ms (S k) r
  end.

(* ids of the listed files, in id order *)
Fixpoint listed_from (k : nat) (l : list file) : list nat :=
  match l with
  | [] => []
  | t :: r => if f_listed t then k :: listed_from (S k) r else listed_from (S k) r
  end.
Definition listed (s : shared) : list nat := listed_from 0 (files s).

Definition mt_rows_of (s : shared) (m : nat) : list nat :=
  match get_mt s m with Some t => m_rows t | None => [] end.
Definition file_rows_of (s : shared) (f : nat) : list nat :=
  match get_file s f with Some t => f_rows t | None => [] end.
Definition flag_of (s : shared) (sn : option nat) : bool :=
  match sn with Some m => match get_mt s m with Some t => m_flag t | None => false end | None => false end.

(* ---------------------------------------------------------------- lock status derived from the phases *)
Definition holds_snap (a : actor) : bool :=
  match a with AR r => match r_ph r with R1 _ _ | R2 _ _ _ => true | _ => false end | _ => false end.
Definition mid_write (a : actor) : bool :=
  match a with AW w => match w_ph w with W1 _ => true | W0 => false end | _ => false end.
Definition mid_flush (a : actor) : bool :=
  match a with AF f => match fl_ph f with F0 => false | _ => true end | _ => false end.
Definition snapR (l : list actor) : bool := existsb holds_snap l.
Definition wmid (l : list actor) : bool := existsb mid_write l.
Definition fmid (l : list actor) : bool := existsb mid_flush l.

Definition all_unheld (s : shared) : bool := forallb (fun t => is_nil (f_hold t)) (files s).

(* every row of the files fs is also in a listed file outside fs *)
Definition covered_elsewhere (s : shared) (fs : list nat) : bool :=
  let others := filter (fun g => negb (mem_nat g fs)) (listed s) in
  let rows := flat_map (file_rows_of s) others in
  forallb (fun f => forallb (fun b => mem_nat b rows) (file_rows_of s f)) fs.

Fixpoint nodup_nat (l : list nat) : bool :=
  match l with [] => true | x :: t => negb (mem_nat x t) && nodup_nat t end.

(* ---------------------------------------------------------------- the step function *)
Definition step_writer (s : shared) (w : writer) : option (shared * writer) :=
  match w_ph w with
  | W0 =>
      match w_todo w with
      | [] => None
      | b :: t =>
          if mu_x s then None                                     (* blocked on shard.mu *)
          else if closing s then Some (s, {| w_todo := t; w_ph := W0 |})     (* rejected with an error *)
          else match active s with
               | None => Some (s, {| w_todo := t; w_ph := W0 |})
               | Some a =>
                   let s1 := map_mt s a (mt_add_row b) in
                   Some (set_logs s1 (b :: appended s1) (acked s1), {| w_todo := t; w_ph := W1 b |})
               end
      end
  | W1 b => Some (set_logs s (appended s) (b :: acked s), {| w_todo := w_todo w; w_ph := W0 |})
  end.

Definition step_reader (V : variant) (i : nat) (s : shared) (r : reader) : option (shared * reader) :=
  let mk ok st ph hist left :=
    {| r_left := left; r_ok := ok; r_start := st; r_ph := ph; r_hist := hist |} in
  match r_ph r with
  | R0 =>
      match r_left r with
      | O => None
      | S _ => Some (s, mk (negb (dropped s)) (acked s) (R1 (snap s) (flag_of s (snap s))) (r_hist r) (r_left r))
      end
  | R1 sn fl0 =>
      if mmu_x s then None
      else
        let fs := listed s in
        let s1 := if fclosed s then s else set_files s (map_at 0 (fun k => mem_nat k fs) (f_add_hold i) (files s)) in
        let fl := if v_flag_first V then fl0 else flag_of s sn in
        Some (s1, mk (r_ok r) (r_start r) (R2 sn fs fl) (r_hist r) (r_left r))
  | R2 sn fs fl =>
      let ms := opt_list (active s) ++ (if fl then [] else opt_list sn) in
      let s1 := set_mts s (map_at 0 (fun k => mem_nat k ms) (mt_add_hold i) (mts s)) in
      Some (s1, mk (r_ok r) (r_start r) (R3 ms fs) (r_hist r) (r_left r))
  | R3 ms fs =>
      let res := flat_map (mt_rows_of s) ms ++ flat_map (file_rows_of s) fs in
      Some (s, mk (r_ok r) (r_start r) (R4 ms fs res) (r_hist r) (r_left r))
  | R4 ms fs res =>
      let s1 := set_files s (map_at 0 (fun k => mem_nat k fs) (f_unhold i) (files s)) in
      let s2 := set_mts s1 (unhold_all i (owned_ids s) ms 0 (mts s1)) in
      Some (s2, mk false [] R0 ((r_ok r, r_start r, res) :: r_hist r) (pred (r_left r)))
  end.

Definition new_mtab : mtab := {| m_rows := []; m_hold := []; m_flag := false; m_dead := false |}.

Definition mk_file (rows : list nat) (src : option nat) (ord lst : bool) : file :=
  {| f_rows := rows; f_src := src; f_ord := ord; f_listed := lst; f_removed := false; f_hold := [] |}.
Definition opt_file (rows : list nat) (src : option nat) (ord lst : bool) : list file :=
  match rows with [] => [] | _ => [mk_file rows src ord lst] end.

(* FlushChunks + AddBothTSSPFiles: rows later than everything flushed in order go to a new ordered file, the rest to
   a new out-of-order file; both are listed and the flushed flag is set in ONE critical section.  `orphan`: the
   out-of-order list object the flusher holds is no longer the one in MmsTables.OutOfOrder (today's code only). *)
Definition publish (s : shared) (m : nat) (orphan : bool) : shared :=
  let rows := mt_rows_of s m in
  let ro := filter (fun b => hi s <? b) rows in
  let ru := filter (fun b => b <=? hi s) rows in
  let s1 := set_files s (files s ++ opt_file ro (Some m) true true ++ opt_file ru (Some m) false (negb orphan)) in
  let s2 := set_seq s1 (fold_right Nat.max (hi s) ro) (ugen s1) in
  map_mt s2 m mt_set_flag.

Definition drop_snap (s : shared) (m : nat) : shared :=
  let s1 := set_active_snap s (active s) None in
  match get_mt s1 m with
  | Some t => if is_nil (m_hold t) then map_mt s1 m mt_kill else s1
  | None => s1
  end.

Definition step_flusher (V : variant) (l : list actor) (s : shared) (f : flusher) : option (shared * flusher) :=
  let free := v_no_snap_lock V || negb (snapR l) in
  match fl_ph f with
  | F0 =>
      match fl_left f with
      | O => None
      | S n =>
          match active s with
          | None => Some (s, {| fl_left := n; fl_ph := F0 |})           (* writeSnapshot: activeTbl == nil -> return *)
          | Some a =>
              (* the single snapshot slot: ForceFlush waits for the snapshot in flight (waitSnapshot), the background
                 snapshot is not started while snapshotTbl != nil (shouldSnapshot) *)
              if free && (v_no_wait_snap V || match snap s with None => true | Some _ => false end)
              then let s1 := set_mts s (mts s ++ [new_mtab]) in
                   Some (set_active_snap s1 (Some (length (mts s))) (Some a), {| fl_left := fl_left f; fl_ph := F1 a |})
              else None
          end
      end
  | F1 m =>
      if v_drop_first V   (* mutant: the shard forgets the snapshot table first (kept alive until the files are listed) *)
      then (if free then Some (set_active_snap s (active s) None, {| fl_left := fl_left f; fl_ph := F2 m |}) else None)
      else if v_stale_list V then Some (s, {| fl_left := fl_left f; fl_ph := F1b m (ugen s) |})   (* makeTSSPFiles *)
      else (if mmu_x s then None else Some (publish s m false, {| fl_left := fl_left f; fl_ph := F2 m |}))
  | F1b m g =>
      if mmu_x s then None
      else Some (publish s m (negb (Nat.eqb g (ugen s))), {| fl_left := fl_left f; fl_ph := F2 m |})
  | F2 m =>
      if v_drop_first V
      then (if mmu_x s then None else Some (drop_snap (publish s m false) m, {| fl_left := pred (fl_left f); fl_ph := F0 |}))
      else (if free then Some (drop_snap s m, {| fl_left := pred (fl_left f); fl_ph := F0 |}) else None)
  end.

Definition all_listed (s : shared) (fs : list nat) : bool :=
  forallb (fun f => match get_file s f with Some t => f_listed t && negb (f_removed t) | None => false end) fs.

Definition step_replacer (V : variant) (s : shared) (todo : list rop) : option (shared * list rop) :=
  match todo with
  | [] => None
  | Gc f :: t =>
      match get_file s f with
      | Some x =>
          if negb (f_listed x) && negb (f_removed x) && (v_gc_ignores_refs V || is_nil (f_hold x))
          then Some (map_file s f f_remove, t)
          else if f_removed x || f_listed x then Some (s, t)  (* nothing to collect (already gone / still listed) *)
          else None                                          (* de-listed but still referenced: waits for ref count 0 *)
      | None => Some (s, t)
      end
  | op :: t =>
      if closing s || mmu_x s then Some (s, t)                  (* compaction / merge stopped: the operation is abandoned *)
      else match op with
           | Replace olds extra =>
               if negb (is_nil olds) && nodup_nat (olds ++ extra) && all_listed s (olds ++ extra)
               then let rows := flat_map (file_rows_of s) (olds ++ extra) in
                    let s1 := set_files s (map_at 0 (fun k => mem_nat k olds) f_delist (files s)) in
                    Some (set_files s1 (files s1 ++ [mk_file rows None true true]), t)
               else Some (s, t)                                 (* plan no longer applicable: skipped *)
           | Delist fs =>
               if nodup_nat fs && all_listed s fs && covered_elsewhere s fs
               then let s1 := set_files s (map_at 0 (fun k => mem_nat k fs) f_delist (files s)) in
                    (* first critical section of deleteUnorderedFiles; the mutant remembers here whether the list
                       became empty (it skips the second section otherwise) *)
                    let t1 := if v_drop_blind V
                              then (if is_nil (filter (fun f => match get_file s1 f with Some x => negb (f_ord x) | None => false end) (listed s1))
                                    then t else match t with DropList :: t' => t' | _ => t end)
                              else t in
                    Some (s1, t1)
               else Some (s, t)
           | Merge =>
               let os := filter (fun f => match get_file s f with Some x => f_ord x | None => false end) (listed s) in
               let us := filter (fun f => match get_file s f with Some x => negb (f_ord x) | None => false end) (listed s) in
               if is_nil os || is_nil us then Some (s, t)
               else let rows := flat_map (file_rows_of s) (os ++ us) in
                    let s1 := set_files s (map_at 0 (fun k => mem_nat k os) f_delist (files s)) in
                    Some (set_files s1 (files s1 ++ [mk_file rows None true true]), Delist us :: DropList :: t)
           | DropList =>
               let us := filter (fun f => match get_file s f with Some x => negb (f_ord x) | None => false end) (listed s) in
               (* second critical section (under m.mu.Lock): re-read the list object, delete it only if still empty.
                  Mutant: delete it whatever it holds now - the files it lists become unreachable *)
               if v_drop_blind V
               then Some (set_seq (set_files s (map_at 0 (fun k => mem_nat k us) f_delist (files s))) (hi s) (S (ugen s)), t)
               else if is_nil us then Some (set_seq s (hi s) (S (ugen s)), t) else Some (s, t)
           | Gc _ => Some (s, t)
           end
  end.

Definition step_closer (l : list actor) (s : shared) (c : cph) : option (shared * cph) :=
  match c with
  | C0 => if closing s then Some (s, C5)       (* a second Close returns ErrShardClosed at once *)
          else Some (set_close s (dropped s) true (mu_x s) (mmu_x s) (fclosed s), C1)
  | C1 => if wmid l then None else Some (set_close s (dropped s) true true (mmu_x s) (fclosed s), C2)
  | C2 => if snapR l then None
          else Some (set_close (set_active_snap s None (snap s)) true true true (mmu_x s) (fclosed s), C3)
  | C3 => if fmid l then None else Some (set_close s (dropped s) true true true (fclosed s), C4)
  | C4 => if all_unheld s then Some (set_close s (dropped s) true false false true, C5) else None
  | C5 => None
  end.

Definition exec (V : variant) (st : state) (i : nat) : option state :=
  match nth_error (actors st) i with
  | None => None
  | Some a =>
      let s := sh st in
      let l := actors st in
      match a with
      | AW w => match step_writer s w with Some (s', w') => Some {| sh := s'; actors := upd l i (AW w') |} | None => None end
      | AR r => match step_reader V i s r with Some (s', r') => Some {| sh := s'; actors := upd l i (AR r') |} | None => None end
      | AF f => match step_flusher V l s f with Some (s', f') => Some {| sh := s'; actors := upd l i (AF f') |} | None => None end
      | AP t => match step_replacer V s t with Some (s', t') => Some {| sh := s'; actors := upd l i (AP t') |} | None => None end
      | AC c => match step_closer l s c with Some (s', c') => Some {| sh := s'; actors := upd l i (AC c') |} | None => None end
      end
  end.

Definition step (V : variant) (st st' : state) : Prop := exists i, exec V st i = Some st'.

Inductive reach (V : variant) (st0 : state) : state -> Prop :=
| reach_refl : reach V st0 st0
| reach_step : forall st st', reach V st0 st -> step V st st' -> reach V st0 st'.

(* run a schedule (list of actor indices); None if some step is not enabled *)
Fixpoint run (V : variant) (st : state) (sched : list nat) : option state :=
  match sched with
  | [] => Some st
  | i :: t => match exec V st i with Some st' => run V st' t | None => None end
  end.

(* ---------------------------------------------------------------- initial states *)
Definition fresh_reader (n : nat) : actor :=
  AR {| r_left := n; r_ok := false; r_start := []; r_ph := R0; r_hist := [] |}.
Definition fresh_writer (bs : list nat) : actor := AW {| w_todo := bs; w_ph := W0 |}.
Definition fresh_flusher (n : nat) : actor := AF {| fl_left := n; fl_ph := F0 |}.

Definition fresh (a : actor) : bool :=
  match a with
  | AW w => match w_ph w with W0 => true | _ => false end
  | AR r => match r_ph r with R0 => is_nil (r_hist r) | _ => false end
  | AF f => match fl_ph f with F0 => true | _ => false end
  | AP _ => true
  | AC c => match c with C0 => true | _ => false end
  end.

Definition init_state (l : list actor) : state := {| sh := init_shared; actors := l |}.

Definition done (a : actor) : bool :=
  match a with
  | AW w => match w_ph w with W0 => is_nil (w_todo w) | _ => false end
  | AR r => match r_ph r with R0 => Nat.eqb (r_left r) 0 | _ => false end
  | AF f => match fl_ph f with F0 => Nat.eqb (fl_left f) 0 | _ => false end
  | AP t => is_nil t
  | AC c => match c with C5 => true | _ => false end
  end.

(* observable of a finished query *)
Definition reader_hist (a : actor) : list (bool * list nat * list nat) :=
  match a with AR r => r_hist r | _ => [] end.

(* ---------------------------------------------------------------- decidable "bad view" predicates *)
(* some finished query that started before the close misses a batch acknowledged before its first step *)
Definition entry_missing (e : bool * list nat * list nat) : bool :=
  let '(ok, st, res) := e in ok && negb (forallb (fun b => mem_nat b res) st).
Definition entry_dup (e : bool * list nat * list nat) : bool :=
  let '(ok, st, res) := e in negb (nodup_nat res).
Definition some_view_missing (st : state) : bool := existsb (fun a => existsb entry_missing (reader_hist a)) (actors st).
Definition some_view_dup (st : state) : bool := existsb (fun a => existsb entry_dup (reader_hist a)) (actors st).
