(* C04 proofs, part 3: structural invariants of the correct machine. *)
From Coq Require Import List Bool Arith PeanoNat Lia.
From OG Require Import C04.Model C04.Proofs C04.Steps.
Import ListNotations.

(* ---------------------------------------------------------------- accessor lemmas *)
Arguments get_mt : simpl never.
Arguments get_file : simpl never.
Arguments map_mt : simpl never.
Arguments map_file : simpl never.
Arguments publish : simpl never.
Arguments drop_snap : simpl never.
Arguments flag_of : simpl never.

Lemma get_mt_set_logs : forall s a b k, get_mt (set_logs s a b) k = get_mt s k. Proof. reflexivity. Qed.
Lemma get_mt_set_files : forall s a k, get_mt (set_files s a) k = get_mt s k. Proof. reflexivity. Qed.
Lemma get_mt_set_close : forall s a b c d e k, get_mt (set_close s a b c d e) k = get_mt s k. Proof. reflexivity. Qed.
Lemma get_mt_set_seq : forall s a b k, get_mt (set_seq s a b) k = get_mt s k. Proof. reflexivity. Qed.
Lemma get_mt_set_as : forall s a b k, get_mt (set_active_snap s a b) k = get_mt s k. Proof. reflexivity. Qed.
Lemma get_mt_set_mts : forall s l k, get_mt (set_mts s l) k = nth_error l k. Proof. reflexivity. Qed.
Lemma get_file_set_logs : forall s a b k, get_file (set_logs s a b) k = get_file s k. Proof. reflexivity. Qed.
Lemma get_file_set_mts : forall s a k, get_file (set_mts s a) k = get_file s k. Proof. reflexivity. Qed.
Lemma get_file_set_close : forall s a b c d e k, get_file (set_close s a b c d e) k = get_file s k. Proof. reflexivity. Qed.
Lemma get_file_set_seq : forall s a b k, get_file (set_seq s a b) k = get_file s k. Proof. reflexivity. Qed.
Lemma get_file_set_as : forall s a b k, get_file (set_active_snap s a b) k = get_file s k. Proof. reflexivity. Qed.
Lemma get_file_set_files : forall s l k, get_file (set_files s l) k = nth_error l k. Proof. reflexivity. Qed.
Lemma get_file_map_mt : forall s a g k, get_file (map_mt s a g) k = get_file s k.
Proof. intros. unfold map_mt. destruct (get_mt s a); reflexivity. Qed.
Lemma get_mt_map_file : forall s a g k, get_mt (map_file s a g) k = get_mt s k.
Proof. intros. unfold map_file. destruct (get_file s a); reflexivity. Qed.
Lemma get_mt_unfold : forall s k, get_mt s k = nth_error (mts s) k. Proof. reflexivity. Qed.
Lemma get_file_unfold : forall s k, get_file s k = nth_error (files s) k. Proof. reflexivity. Qed.
Lemma active_map_mt : forall s a g, active (map_mt s a g) = active s.
Proof. intros. unfold map_mt. destruct (get_mt s a); reflexivity. Qed.
Lemma snap_map_mt : forall s a g, snap (map_mt s a g) = snap s.
Proof. intros. unfold map_mt. destruct (get_mt s a); reflexivity. Qed.
Lemma active_map_file : forall s a g, active (map_file s a g) = active s.
Proof. intros. unfold map_file. destruct (get_file s a); reflexivity. Qed.
Lemma snap_map_file : forall s a g, snap (map_file s a g) = snap s.
Proof. intros. unfold map_file. destruct (get_file s a); reflexivity. Qed.
Global Hint Rewrite get_mt_set_logs get_mt_set_files get_mt_set_close get_mt_set_seq get_mt_set_as get_mt_set_mts
  get_file_set_logs get_file_set_mts get_file_set_close get_file_set_seq get_file_set_as get_file_set_files
  get_file_map_mt get_mt_map_file active_map_mt snap_map_mt active_map_file snap_map_file : shr.

Lemma nth_error_app_new : forall A (l : list A) x k y,
  nth_error (l ++ [x]) k = Some y -> (k < length l /\ nth_error l k = Some y) \/ (k = length l /\ y = x).
Proof.
  intros. destruct (Nat.lt_ge_cases k (length l)).
  - left. rewrite nth_error_app1 in H; auto.
  - right. rewrite nth_error_app2 in H; auto. destruct (k - length l) eqn:E.
    + simpl in H. inversion H. split; auto. lia.
    + simpl in H. destruct n; discriminate.
Qed.

Lemma nth_error_app_old : forall A (l l2 : list A) k y, nth_error l k = Some y -> nth_error (l ++ l2) k = Some y.
Proof. intros. rewrite nth_error_app1; auto. apply nth_error_Some. congruence. Qed.

Lemma get_mt_map_mt : forall s a g k,
  get_mt (map_mt s a g) k = match get_mt s a with
                            | Some t => if Nat.eqb a k then Some (g t) else get_mt s k
                            | None => get_mt s k end.
Proof.
  intros. unfold map_mt. destruct (get_mt s a) eqn:E; auto. rewrite get_mt_set_mts. rewrite get_mt_unfold in *.
  destruct (Nat.eqb a k) eqn:Ek.
  - apply Nat.eqb_eq in Ek; subst. apply nth_error_upd_eq. apply nth_error_Some. congruence.
  - apply Nat.eqb_neq in Ek. apply nth_error_upd_neq; auto.
Qed.

Lemma get_file_map_file : forall s a g k,
  get_file (map_file s a g) k = match get_file s a with
                                | Some t => if Nat.eqb a k then Some (g t) else get_file s k
                                | None => get_file s k end.
Proof.
  intros. unfold map_file. destruct (get_file s a) eqn:E; auto. rewrite get_file_set_files. rewrite get_file_unfold in *.
  destruct (Nat.eqb a k) eqn:Ek.
  - apply Nat.eqb_eq in Ek; subst. apply nth_error_upd_eq. apply nth_error_Some. congruence.
  - apply Nat.eqb_neq in Ek. apply nth_error_upd_neq; auto.
Qed.

Lemma nth_error_unhold_all : forall i own ms l k j,
  nth_error (unhold_all i own ms k l) j =
  option_map (fun t => if mem_nat (k + j) ms then mt_unhold i (mem_nat (k + j) own) t else t) (nth_error l j).
Proof.
  intros i own ms l; induction l; intros k j; destruct j; simpl; auto.
  - rewrite Nat.add_0_r; auto.
  - rewrite IHl. replace (S k + j) with (k + S j) by lia. auto.
Qed.

(* the listed ids *)
Lemma listed_from_In : forall l k f, In f (listed_from k l) <->
  exists x, nth_error l (f - k) = Some x /\ k <= f /\ f_listed x = true.
Proof.
  induction l; intros k f; simpl.
  - split; [tauto|]. intros [x [H _]]. destruct (f - k); discriminate.
  - assert (Hs : forall x, k < f -> (nth_error (a :: l) (f - k) = Some x <-> nth_error l (f - S k) = Some x)).
    { intros x Hlt. replace (f - k) with (S (f - S k)) by lia. simpl. tauto. }
    destruct (f_listed a) eqn:E.
    + simpl. rewrite IHl. split.
      * intros [H|[x [H1 [H2 H3]]]].
        -- subst. exists a. rewrite Nat.sub_diag. simpl. auto.
        -- exists x. split; [apply Hs; [lia|auto]|]. split; [lia|auto].
      * intros [x [H1 [H2 H3]]]. destruct (Nat.eq_dec k f) as [->|N]; [left; auto|right].
        exists x. split; [apply Hs; [lia|auto]|]. split; [lia|auto].
    + rewrite IHl. split.
      * intros [x [H1 [H2 H3]]]. exists x. split; [apply Hs; [lia|auto]|]. split; [lia|auto].
      * intros [x [H1 [H2 H3]]]. destruct (Nat.eq_dec k f) as [->|N].
        -- rewrite Nat.sub_diag in H1. simpl in H1. inversion H1; subst. congruence.
        -- exists x. split; [apply Hs; [lia|auto]|]. split; [lia|auto].
Qed.

Lemma listed_In : forall s f, In f (listed s) <-> exists x, get_file s f = Some x /\ f_listed x = true.
Proof.
  intros. unfold listed, get_file. rewrite listed_from_In. rewrite Nat.sub_0_r.
  split; intros [x H]; exists x; intuition; lia.
Qed.

Lemma existsb_nth : forall A (p : A -> bool) l i a, nth_error l i = Some a -> p a = true -> existsb p l = true.
Proof. intros. apply existsb_exists. exists a. split; auto. eapply nth_error_In; eauto. Qed.

Lemma existsb_false_nth : forall A (p : A -> bool) l i a, existsb p l = false -> nth_error l i = Some a -> p a = false.
Proof.
  intros. destruct (p a) eqn:E; auto. rewrite (existsb_nth _ p l i a) in H; auto.
Qed.

(* ---------------------------------------------------------------- invariants *)
Definition mt_ok (s : shared) : Prop :=
  (forall a, active s = Some a -> exists t, get_mt s a = Some t /\ m_flag t = false /\ m_dead t = false) /\
  (forall m, snap s = Some m -> exists t, get_mt s m = Some t /\ m_dead t = false) /\
  (forall a m, active s = Some a -> snap s = Some m -> a <> m).

Definition fl_ok (s : shared) (l : list actor) : Prop :=
  (forall j f, nth_error l j = Some (AF f) ->
     match fl_ph f with
     | F0 => True
     | F1 m => snap s = Some m /\ flag_of s (Some m) = false
     | F1b _ _ => False
     | F2 m => snap s = Some m /\ flag_of s (Some m) = true
     end) /\
  (forall j1 j2 f1 f2, nth_error l j1 = Some (AF f1) -> nth_error l j2 = Some (AF f2) ->
     fl_ph f1 <> F0 -> fl_ph f2 <> F0 -> j1 = j2) /\
  (forall m, snap s = Some m -> fmid l = true).

Definition files_ok (s : shared) : Prop :=
  forall f x, get_file s f = Some x -> f_listed x = true -> f_removed x = false.

Definition logs_ok (s : shared) (l : list actor) : Prop :=
  incl (acked s) (appended s) /\
  (forall j w b, nth_error l j = Some (AW w) -> w_ph w = W1 b -> In b (appended s)).

Record Inv1 (st : state) : Prop := {
  i_mt : mt_ok (sh st);
  i_fl : fl_ok (sh st) (actors st);
  i_files : files_ok (sh st);
  i_logs : logs_ok (sh st) (actors st)
}.

Lemma fmid_upd_other : forall l i a a', nth_error l i = Some a -> mid_flush a = mid_flush a' ->
  fmid (upd l i a') = fmid l.
Proof.
  unfold fmid. induction l; intros i x x' H E; destruct i; simpl in *; auto; try discriminate.
  - inversion H; subst. rewrite E. auto.
  - rewrite (IHl i x x'); auto.
Qed.

Lemma existsb_upd_true : forall A (p : A -> bool) l i a', i < length l -> p a' = true -> existsb p (upd l i a') = true.
Proof.
  induction l; intros i a' H E; destruct i; simpl in *; try lia.
  - rewrite E; auto.
  - rewrite IHl; auto. apply orb_true_r. lia.
Qed.

Lemma nth_lt : forall A (l : list A) i a, nth_error l i = Some a -> i < length l.
Proof. intros. apply nth_error_Some. congruence. Qed.

(* ---------------------------------------------------------------- preservation of Inv1 *)
Lemma flag_of_some : forall s m, flag_of s (Some m) = match get_mt s m with Some t => m_flag t | None => false end.
Proof. reflexivity. Qed.

Lemma publish_mts : forall s m o k, get_mt (publish s m o) k =
  match get_mt s m with Some t => if Nat.eqb m k then Some (mt_set_flag t) else get_mt s k | None => get_mt s k end.
Proof. intros. unfold publish. rewrite get_mt_map_mt. reflexivity. Qed.

Lemma publish_active : forall s m o, active (publish s m o) = active s /\ snap (publish s m o) = snap s.
Proof. intros. unfold publish, map_mt, get_mt. simpl. destruct (nth_error (mts s) m); simpl; auto. Qed.

Lemma drop_snap_active : forall s m, active (drop_snap s m) = active s /\ snap (drop_snap s m) = None.
Proof.
  intros. unfold drop_snap. simpl. unfold get_mt; simpl. destruct (nth_error (mts s) m); simpl; auto.
  destruct (is_nil (m_hold m0)); simpl; auto. unfold map_mt, get_mt; simpl. destruct (nth_error (mts s) m); simpl; auto.
Qed.

Lemma drop_snap_mts : forall s m k, k <> m -> get_mt (drop_snap s m) k = get_mt s k.
Proof.
  intros. unfold drop_snap. unfold get_mt at 2; simpl. destruct (nth_error (mts s) m) eqn:E; auto.
  destruct (is_nil (m_hold m0)); auto. rewrite get_mt_map_mt. unfold get_mt at 1; simpl. rewrite E.
  destruct (Nat.eqb m k) eqn:Ek; auto. apply Nat.eqb_eq in Ek. congruence.
Qed.

Lemma mid_flush_F : forall f, mid_flush (AF f) = match fl_ph f with F0 => false | _ => true end.
Proof. reflexivity. Qed.

Lemma fmid_false_all : forall l j f, fmid l = false -> nth_error l j = Some (AF f) -> fl_ph f = F0.
Proof.
  intros. pose proof (existsb_false_nth _ _ _ _ _ H H0) as E. simpl in E. destruct (fl_ph f); auto; discriminate.
Qed.

Lemma mem_owned_active : forall s a, active s = Some a -> mem_nat a (owned_ids s) = true.
Proof. intros. apply mem_nat_In. unfold owned_ids. rewrite H. simpl. auto. Qed.
Lemma mem_owned_snap : forall s a, snap s = Some a -> mem_nat a (owned_ids s) = true.
Proof. intros. apply mem_nat_In. unfold owned_ids. rewrite H. apply in_or_app. right. simpl. auto. Qed.

Lemma mt_unhold_owned : forall i t, m_flag (mt_unhold i true t) = m_flag t /\ m_dead (mt_unhold i true t) = m_dead t /\
  m_rows (mt_unhold i true t) = m_rows t.
Proof. intros. unfold mt_unhold. rewrite andb_false_r. simpl. auto. Qed.

Lemma mt_unhold_flag : forall i o t, m_flag (mt_unhold i o t) = m_flag t.
Proof. intros. unfold mt_unhold. destruct (is_nil (remove_nat i (m_hold t)) && negb o); reflexivity. Qed.

Ltac inv_step H :=
  let a := fresh "a" in let a' := fresh "a'" in let Hn := fresh "Hnth" in let Hl := fresh "Hls" in let Ha := fresh "Hact" in
  destruct (exec_lstep _ _ _ H) as [a [a' [Hn [Hl Ha]]]].

Ltac rw_sh := match goal with H : _ = sh ?st' |- context[sh ?st'] => rewrite <- H end.
Ltac hyp_active := match goal with H : active (sh _) = Some _ |- _ => H end.

Lemma mt_ok_step : forall st i st', Inv1 st -> exec correct st i = Some st' -> mt_ok (sh st').
Proof.
  intros st i st' [[Ha [Hs Hne]] [Hf [Hu Hsm]] _ _] H. inv_step H.
  assert (Hsame : mt_ok (sh st)) by (split; [|split]; assumption).
  inversion Hls; subst.
  - (* reject *) exact Hsame.
  - (* append *)
    match goal with Hx : active (sh st) = Some ?a0 |- _ => rename Hx into Eact; set (aa := a0) in * end.
    unfold mt_ok; simpl; autorewrite with shr. repeat split.
    + intros a1 E. destruct (Ha _ E) as [tm [G1 [G2 G3]]]. rewrite get_mt_set_logs, get_mt_map_mt.
      destruct (get_mt (sh st) aa) eqn:G; eauto.
      destruct (Nat.eqb aa a1) eqn:Ek; eauto.
      apply Nat.eqb_eq in Ek; subst a1. rewrite G in G1. inversion G1; subst. eexists; split; [reflexivity|]. simpl; auto.
    + intros m E. destruct (Hs _ E) as [tm [G1 G2]]. rewrite get_mt_set_logs, get_mt_map_mt. destruct (get_mt (sh st) aa) eqn:G; eauto.
      destruct (Nat.eqb aa m) eqn:Ek; eauto. apply Nat.eqb_eq in Ek; subst m. rewrite G in G1; inversion G1; subst.
      eexists; split; [reflexivity|]. simpl; auto.
    + eauto.
  - (* ack *) exact Hsame.
  - (* begin *) exact Hsame.
  - (* files *) destruct (fclosed (sh st)); exact Hsame.
  - (* mem refs *)
    unfold mt_ok; simpl. repeat split; auto.
    + intros a0 E. destruct (Ha _ E) as [tm [G1 [G2 G3]]]. rewrite get_mt_set_mts, nth_error_map_at. rewrite get_mt_unfold in G1. rewrite G1. simpl.
      destruct (mem_nat a0 ms); eexists; split; try reflexivity; simpl; auto.
    + intros m E. destruct (Hs _ E) as [tm [G1 G2]]. rewrite get_mt_set_mts, nth_error_map_at. rewrite get_mt_unfold in G1. rewrite G1. simpl.
      destruct (mem_nat m ms); eexists; split; try reflexivity; simpl; auto.
  - (* read *) exact Hsame.
  - (* done *)
    unfold mt_ok; simpl. repeat split; auto.
    + intros a0 E. destruct (Ha _ E) as [tm [G1 [G2 G3]]]. rewrite get_mt_set_mts, nth_error_unhold_all. simpl. rewrite get_mt_unfold in G1. rewrite G1. simpl.
      rewrite (mem_owned_active _ _ E). destruct (mem_nat a0 ms); eexists; split; try reflexivity; auto.
      destruct (mt_unhold_owned i tm) as [X1 [X2 X3]]. rewrite X1, X2. auto.
    + intros m E. destruct (Hs _ E) as [tm [G1 G2]]. rewrite get_mt_set_mts, nth_error_unhold_all. simpl. rewrite get_mt_unfold in G1. rewrite G1. simpl.
      rewrite (mem_owned_snap _ _ E). destruct (mem_nat m ms); eexists; split; try reflexivity; auto.
      destruct (mt_unhold_owned i tm) as [X1 [X2 X3]]. rewrite X2. auto.
  - (* skip flush *) exact Hsame.
  - (* swap *)
    match goal with Hx : active (sh st) = Some ?a0 |- _ => destruct (Ha _ Hx) as [tm [G1 [G2 G3]]] end.
    unfold mt_ok; simpl. repeat split.
    + intros a1 E. inversion E; subst. autorewrite with shr. rewrite nth_error_app2; auto. rewrite Nat.sub_diag. simpl.
      eexists; split; [reflexivity|]. simpl; auto.
    + intros m E. inversion E; subst. autorewrite with shr. rewrite get_mt_unfold in G1. rewrite (nth_error_app_old _ _ _ _ _ G1). eauto.
    + intros a1 m E1 E2. inversion E1; inversion E2; subst. rewrite get_mt_unfold in G1. apply nth_lt in G1. lia.
  - (* publish *)
    pose proof (Hf _ _ Hnth) as X. match goal with Hx : fl_ph _ = F1 ?m0 |- _ => rewrite Hx in X; set (mm := m0) in * end.
    destruct X as [X1 X2].
    destruct (publish_active (sh st) mm false) as [P1 P2]. unfold mt_ok. rewrite P1, P2. repeat split; auto.
    + intros a0 E. destruct (Ha _ E) as [tm [G1 [G2 G3]]]. rewrite publish_mts.
      destruct (get_mt (sh st) mm) eqn:G; eauto. destruct (Nat.eqb mm a0) eqn:Ek; eauto.
      apply Nat.eqb_eq in Ek; subst a0. exfalso. eapply Hne; eauto.
    + intros m0 E. destruct (Hs _ E) as [tm [G1 G2]]. rewrite publish_mts.
      destruct (get_mt (sh st) mm) eqn:G; eauto. destruct (Nat.eqb mm m0) eqn:Ek; eauto.
      apply Nat.eqb_eq in Ek; subst m0. rewrite G in G1; inversion G1; subst. eexists; split; [reflexivity|]. simpl; auto.
  - (* publish_b: impossible *)
    pose proof (Hf _ _ Hnth) as X. match goal with Hx : fl_ph _ = F1b _ _ |- _ => rewrite Hx in X end. contradiction.
  - (* drop *)
    pose proof (Hf _ _ Hnth) as X. match goal with Hx : fl_ph _ = F2 ?m0 |- _ => rewrite Hx in X; set (mm := m0) in * end.
    destruct X as [X1 X2].
    destruct (drop_snap_active (sh st) mm) as [P1 P2]. unfold mt_ok. rewrite P1, P2. repeat split; try discriminate.
    intros a0 E. destruct (Ha _ E) as [tm [G1 [G2 G3]]]. rewrite drop_snap_mts; [eauto|].
    intro; subst a0. eapply Hne; eauto.
  - (* gc *) unfold mt_ok, map_file. destruct (get_file (sh st) f); simpl; repeat split; auto.
  - (* skip *) exact Hsame.
  - (* replace *) unfold mt_ok; simpl. repeat split; auto.
  - (* delist *) unfold mt_ok; simpl. repeat split; auto.
  - (* merge *) unfold mt_ok; simpl. repeat split; auto.
  - (* droplist *) unfold mt_ok; simpl. repeat split; auto.
  - (* c again *) exact Hsame.
  - (* c begin *) unfold mt_ok; simpl. repeat split; auto.
  - unfold mt_ok; simpl. repeat split; auto.
  - (* c drop *) unfold mt_ok; simpl. repeat split; auto; try discriminate.
  - unfold mt_ok; simpl. repeat split; auto.
  - unfold mt_ok; simpl. repeat split; auto.
Qed.

Lemma fl_ok_frame : forall s s' l i a a', fl_ok s l -> snap s' = snap s ->
  (forall m, flag_of s' (Some m) = flag_of s (Some m)) ->
  nth_error l i = Some a -> mid_flush a = false -> mid_flush a' = false ->
  (forall f, a' <> AF f) -> fl_ok s' (upd l i a').
Proof.
  intros s s' l i a a' [Hf [Hu Hsm]] Es Ef Hn Ma Ma' Na. repeat split.
  - intros j f Hj. apply nth_error_upd in Hj. destruct Hj as [[E1 E2]|[N Hj]]; [exfalso; eapply Na; eauto|].
    specialize (Hf _ _ Hj). destruct (fl_ph f); auto; rewrite Es, Ef; auto.
  - intros j1 j2 f1 f2 H1 H2 N1 N2.
    apply nth_error_upd in H1. destruct H1 as [[E1 E1']|[M1 H1]]; [exfalso; eapply Na; eauto|].
    apply nth_error_upd in H2. destruct H2 as [[E2 E2']|[M2 H2]]; [exfalso; eapply Na; eauto|].
    eauto.
  - intros m E. rewrite Es in E. erewrite fmid_upd_other; [eauto|eauto|congruence].
Qed.

Lemma flag_of_frame_rows : forall s s', (forall k, option_map m_flag (get_mt s' k) = option_map m_flag (get_mt s k)) ->
  forall m, flag_of s' (Some m) = flag_of s (Some m).
Proof.
  intros s s' H m. unfold flag_of. specialize (H m). destruct (get_mt s' m), (get_mt s m); simpl in H; congruence.
Qed.

Lemma fl_ok_step : forall st i st', Inv1 st -> exec correct st i = Some st' -> fl_ok (sh st') (actors st').
Proof.
  intros st i st' [Hmt Hfl _ _] H. inv_step H. rewrite Hact.
  assert (Hfl0 := Hfl). destruct Hfl as [Hf [Hu Hsm]]. destruct Hmt as [Ha [Hs Hne]].
  inversion Hls; subst.
  - (* reject *) eapply fl_ok_frame; eauto; try congruence; try discriminate.
  - (* append *) eapply fl_ok_frame; eauto; try discriminate; simpl; autorewrite with shr; auto.
    apply flag_of_frame_rows. intro k. rewrite get_mt_set_logs, get_mt_map_mt.
    destruct (get_mt (sh st) a0) eqn:G; auto. destruct (Nat.eqb a0 k) eqn:Ek; auto.
    apply Nat.eqb_eq in Ek; subst. rewrite G. reflexivity.
  - (* ack *) eapply fl_ok_frame; eauto; try discriminate.
  - (* begin *) eapply fl_ok_frame; eauto; try discriminate.
  - (* files *) eapply fl_ok_frame; eauto; try discriminate; destruct (fclosed (sh st)); auto.
  - (* mem *) eapply fl_ok_frame; eauto; try discriminate.
    apply flag_of_frame_rows. intro k. rewrite get_mt_set_mts, nth_error_map_at, get_mt_unfold.
    destruct (nth_error (mts (sh st)) k); simpl; auto. destruct (mem_nat k ms); auto.
  - (* read *) eapply fl_ok_frame; eauto; try discriminate.
  - (* done *) eapply fl_ok_frame; eauto; try discriminate.
    apply flag_of_frame_rows. intro k. rewrite get_mt_set_mts, nth_error_unhold_all, get_mt_unfold. simpl.
    destruct (nth_error (mts (sh st)) k); simpl; auto. destruct (mem_nat k ms); auto. rewrite mt_unhold_flag; auto.
  - (* flush skip *)
    repeat split.
    + intros j f0 Hj. apply nth_error_upd in Hj. destruct Hj as [[-> Hj]|[N Hj]]; [inversion Hj; subst; simpl; auto|].
      exact (Hf _ _ Hj).
    + intros j1 j2 f1 f2 Q1 Q2 N1 N2.
      apply nth_error_upd in Q1. destruct Q1 as [[-> E1]|[M1 Q1]]; [inversion E1; subst; simpl in N1; congruence|].
      apply nth_error_upd in Q2. destruct Q2 as [[-> E2]|[M2 Q2]]; [inversion E2; subst; simpl in N2; congruence|].
      eauto.
    + intros m E. match goal with Hx : active (sh st) = None |- _ => clear Hx end.
      erewrite fmid_upd_other; eauto. simpl. match goal with Hx : fl_ph f = F0 |- _ => rewrite Hx end. reflexivity.
  - (* swap *)
    match goal with Hx : active (sh st) = Some ?a0 |- _ => destruct (Ha _ Hx) as [tm [G1 [G2 G3]]]; set (aa := a0) in * end.
    assert (Hall : forall j f0, nth_error (actors st) j = Some (AF f0) -> fl_ph f0 = F0).
    { intros j f0 Hj. specialize (Hf _ _ Hj). destruct (fl_ph f0); auto; try contradiction; destruct Hf; congruence. }
    repeat split.
    + intros j f0 Hj. apply nth_error_upd in Hj. destruct Hj as [[-> Hj]|[N Hj]].
      * inversion Hj; subst; simpl. split; auto. unfold flag_of. rewrite get_mt_set_as, get_mt_set_mts.
        rewrite get_mt_unfold in G1. rewrite (nth_error_app_old _ _ _ _ _ G1). auto.
      * rewrite (Hall _ _ Hj). auto.
    + intros j1 j2 f1 f2 Q1 Q2 N1 N2.
      apply nth_error_upd in Q1. apply nth_error_upd in Q2.
      destruct Q1 as [[-> E1]|[M1 Q1]]; destruct Q2 as [[-> E2]|[M2 Q2]]; auto.
      * exfalso. apply N2. eauto.
      * exfalso. apply N1. eauto.
      * exfalso. apply N1. eauto.
    + intros m' E. apply existsb_upd_true; [eapply nth_lt; eauto|reflexivity].
  - (* publish *)
    pose proof (Hf _ _ Hnth) as X. match goal with Hx : fl_ph _ = F1 ?m0 |- _ => rename Hx into Hph; rewrite Hph in X; set (mm := m0) in * end.
    destruct X as [X1 X2]. destruct (Hs _ X1) as [tm [G1 G2]].
    destruct (publish_active (sh st) mm false) as [P1 P2].
    assert (Hoth : forall j f0, j <> i -> nth_error (actors st) j = Some (AF f0) -> fl_ph f0 = F0).
    { intros j f0 N Hj. destruct (fl_ph f0) eqn:E; auto; exfalso; apply N; eapply (Hu j i f0 f); eauto; congruence. }
    repeat split.
    + intros j f0 Hj. apply nth_error_upd in Hj. destruct Hj as [[-> Hj]|[N Hj]].
      * inversion Hj; subst; simpl. rewrite P2. split; auto. unfold flag_of. rewrite publish_mts, G1, Nat.eqb_refl. reflexivity.
      * rewrite (Hoth _ _ (not_eq_sym N) Hj). auto.
    + intros j1 j2 f1 f2 Q1 Q2 N1 N2.
      apply nth_error_upd in Q1. apply nth_error_upd in Q2.
      destruct Q1 as [[-> E1]|[M1 Q1]]; destruct Q2 as [[-> E2]|[M2 Q2]]; auto.
      * exfalso. apply N2. exact (Hoth _ _ (not_eq_sym M2) Q2).
      * exfalso. apply N1. exact (Hoth _ _ (not_eq_sym M1) Q1).
      * exfalso. apply N1. exact (Hoth _ _ (not_eq_sym M1) Q1).
    + intros m' E. apply existsb_upd_true; [eapply nth_lt; eauto|reflexivity].
  - (* publish_b *)
    pose proof (Hf _ _ Hnth) as X. match goal with Hx : fl_ph _ = F1b _ _ |- _ => rewrite Hx in X end. contradiction.
  - (* drop *)
    pose proof (Hf _ _ Hnth) as X. match goal with Hx : fl_ph _ = F2 ?m0 |- _ => rename Hx into Hph; rewrite Hph in X; set (mm := m0) in * end.
    destruct X as [X1 X2].
    destruct (drop_snap_active (sh st) mm) as [P1 P2].
    assert (Hoth : forall j f0, j <> i -> nth_error (actors st) j = Some (AF f0) -> fl_ph f0 = F0).
    { intros j f0 N Hj. destruct (fl_ph f0) eqn:E; auto; exfalso; apply N; eapply (Hu j i f0 f); eauto; congruence. }
    repeat split.
    + intros j f0 Hj. apply nth_error_upd in Hj. destruct Hj as [[-> Hj]|[N Hj]].
      * inversion Hj; subst; simpl. auto.
      * rewrite (Hoth _ _ (not_eq_sym N) Hj). auto.
    + intros j1 j2 f1 f2 Q1 Q2 N1 N2.
      apply nth_error_upd in Q1. apply nth_error_upd in Q2.
      destruct Q1 as [[R1 E1]|[M1 Q1]]; destruct Q2 as [[R2 E2]|[M2 Q2]]; try congruence.
      * inversion E1; subst. simpl in N1. congruence.
      * inversion E2; subst. simpl in N2. congruence.
      * exfalso. apply N1. exact (Hoth _ _ (not_eq_sym M1) Q1).
    + intros m' E. rewrite P2 in E. discriminate.
  - (* gc *) eapply fl_ok_frame; eauto; try discriminate; autorewrite with shr; auto.
    apply flag_of_frame_rows. intro k. rewrite get_mt_map_file. auto.
  - (* skip *) eapply fl_ok_frame; eauto; try discriminate.
  - (* replace *) eapply fl_ok_frame; eauto; try discriminate.
  - (* delist *) eapply fl_ok_frame; eauto; try discriminate.
  - (* merge *) eapply fl_ok_frame; eauto; try discriminate.
  - (* droplist *) eapply fl_ok_frame; eauto; try discriminate.
  - eapply fl_ok_frame; eauto; try discriminate.
  - eapply fl_ok_frame; eauto; try discriminate.
  - eapply fl_ok_frame; eauto; try discriminate.
  - eapply fl_ok_frame; eauto; try discriminate.
  - eapply fl_ok_frame; eauto; try discriminate.
  - eapply fl_ok_frame; eauto; try discriminate.
Qed.

Lemma publish_files : forall s m o, files (publish s m o) =
  files s ++ opt_file (filter (fun b => hi s <? b) (mt_rows_of s m)) (Some m) true true
          ++ opt_file (filter (fun b => b <=? hi s) (mt_rows_of s m)) (Some m) false (negb o).
Proof. intros. unfold publish, map_mt, get_mt. simpl. destruct (nth_error (mts s) m); reflexivity. Qed.

Lemma get_file_publish : forall s m o k x, get_file (publish s m o) k = Some x ->
  get_file s k = Some x \/ (get_file s k = None /\ f_removed x = false /\ f_hold x = [] /\ f_src x = Some m /\
                            (f_listed x = true \/ o = true) /\ incl (f_rows x) (mt_rows_of s m)).
Proof.
  intros s m o k x H. rewrite get_file_unfold, publish_files in H.
  destruct (Nat.lt_ge_cases k (length (files s))) as [L|L].
  - left. rewrite nth_error_app1 in H; auto.
  - right. rewrite nth_error_app2 in H; auto. split; [apply nth_error_None; auto|].
    apply nth_error_In in H. apply in_app_or in H.
    assert (G : forall rows ord lst, In x (opt_file rows (Some m) ord lst) ->
                f_removed x = false /\ f_hold x = [] /\ f_src x = Some m /\ f_listed x = lst /\ f_rows x = rows).
    { intros rows ord lst Hi. destruct rows; simpl in Hi; [tauto|]. destruct Hi as [<-|[]]. simpl. auto. }
    destruct H as [H|H]; apply G in H; destruct H as [A [B [C [D E]]]]; repeat split; auto.
    + rewrite E. intros b Hb. apply filter_In in Hb. tauto.
    + destruct o; simpl in D; auto.
    + rewrite E. intros b Hb. apply filter_In in Hb. tauto.
Qed.

Lemma files_ok_step : forall st i st', Inv1 st -> exec correct st i = Some st' -> files_ok (sh st').
Proof.
  intros st i st' [_ Hfl Hfi _] H. inv_step H. destruct Hfl as [Hf _].
  inversion Hls; subst; repeat match goal with x := _ |- _ => subst x end; try exact Hfi.
  - (* append *) intros f x G. rewrite get_file_set_logs, get_file_map_mt in G. eauto.
  - (* files *) destruct (fclosed (sh st)); [exact Hfi|]. intros f x G L. rewrite get_file_set_files, nth_error_map_at in G.
    rewrite <- get_file_unfold in G. destruct (get_file (sh st) f) eqn:E; simpl in G; [|discriminate].
    inversion G; subst. simpl in *. destruct (mem_nat f (listed (sh st))); simpl in *; eauto.
  - (* done *) intros f x G L. rewrite get_file_set_mts, get_file_set_files, nth_error_map_at in G.
    rewrite <- get_file_unfold in G. destruct (get_file (sh st) f) eqn:E; simpl in G; [|discriminate].
    inversion G; subst. simpl in *. destruct (mem_nat f fs); simpl in *; eauto.
  - (* publish *) intros f0 x G L. apply get_file_publish in G. destruct G as [G|[_ [G _]]]; eauto.
  - (* publish_b *) pose proof (Hf _ _ Hnth) as X. match goal with Hx : fl_ph _ = F1b _ _ |- _ => rewrite Hx in X end. contradiction.
  - (* drop *) intros f0 x G. unfold drop_snap in G. rewrite get_mt_set_as in G.
    destruct (get_mt (sh st) m); [destruct (is_nil (m_hold m0))|]; autorewrite with shr in G; eauto.
  - (* gc *) intros f0 x0 G L. rewrite get_file_map_file in G.
    match goal with Hx : get_file (sh st) f = Some _ |- _ => rewrite Hx in G end.
    destruct (Nat.eqb f f0) eqn:Ek; eauto. inversion G; subst. simpl in L. congruence.
  - (* replace *) intros f0 x G L. rewrite get_file_set_files in G. simpl in G. apply nth_error_app_new in G.
    destruct G as [[_ G]|[_ ->]]; [|reflexivity]. rewrite nth_error_map_at in G. rewrite <- get_file_unfold in G.
    destruct (get_file (sh st) f0) eqn:E; simpl in G; [|discriminate]. inversion G; subst.
    simpl in *. destruct (mem_nat f0 olds); simpl in *; eauto; discriminate.
  - (* delist *) intros f0 x G L. rewrite get_file_set_files, nth_error_map_at in G. rewrite <- get_file_unfold in G.
    destruct (get_file (sh st) f0) eqn:E; simpl in G; [|discriminate]. inversion G; subst.
    simpl in *. destruct (mem_nat f0 fs); simpl in *; eauto; discriminate.
  - (* merge *) intros f0 x G L. rewrite get_file_set_files in G. simpl in G. apply nth_error_app_new in G.
    destruct G as [[_ G]|[_ ->]]; [|reflexivity]. rewrite nth_error_map_at in G. rewrite <- get_file_unfold in G.
    destruct (get_file (sh st) f0) eqn:E; simpl in G; [|discriminate]. inversion G; subst.
    simpl in *. destruct (mem_nat f0 (ord_listed (sh st))); simpl in *; eauto; discriminate.
Qed.

Lemma logs_ok_step : forall st i st', Inv1 st -> exec correct st i = Some st' -> logs_ok (sh st') (actors st').
Proof.
  intros st i st' [_ _ _ [Hak Hw]] H. inv_step H. rewrite Hact.
  assert (Hframe : forall s' a2, appended s' = appended (sh st) -> acked s' = acked (sh st) ->
            (forall w b, a2 = AW w -> w_ph w <> W1 b) -> logs_ok s' (upd (actors st) i a2)).
  { intros s' a2 E1 E2 Hn. split; [rewrite E1, E2; auto|]. intros j w b Hj Hp.
    apply nth_error_upd in Hj. destruct Hj as [[_ Hj]|[_ Hj]]; [exfalso; eapply Hn; eauto|]. rewrite E1. eauto. }
  inversion Hls; subst; try (apply Hframe; auto; intros; discriminate).
  - (* reject *) apply Hframe; auto. intros w0 b0 E. inversion E; subst. simpl. discriminate.
  - (* append *) split; simpl.
    + intros x Hx. right. autorewrite with shr. auto.
    + intros j w0 b0 Hj Hp. apply nth_error_upd in Hj. destruct Hj as [[_ Hj]|[_ Hj]].
      * inversion Hj; subst. simpl in Hp. inversion Hp; subst. left; auto.
      * right. eauto.
  - (* ack *) split; simpl.
    + intros x [<-|Hx]; eauto.
    + intros j w0 b0 Hj Hp. apply nth_error_upd in Hj. destruct Hj as [[_ Hj]|[_ Hj]]; eauto.
      inversion Hj; subst. simpl in Hp. discriminate.
  - (* files *) apply Hframe; auto; try (intros; discriminate); destruct (fclosed (sh st)); auto.
  - (* publish *) apply Hframe; try (intros; discriminate); unfold publish, map_mt, get_mt; simpl; destruct (nth_error (mts (sh st)) m); auto.
  - apply Hframe; try (intros; discriminate); unfold publish, map_mt, get_mt; simpl; destruct (nth_error (mts (sh st)) m); auto.
  - (* drop *) apply Hframe; try (intros; discriminate); unfold drop_snap, map_mt, get_mt; simpl;
      destruct (nth_error (mts (sh st)) m); simpl; auto; destruct (is_nil (m_hold m0)); simpl; auto;
      destruct (nth_error (mts (sh st)) m); auto.
  - (* gc *) apply Hframe; try (intros; discriminate); unfold map_file; destruct (get_file (sh st) f); auto.
Qed.

Lemma inv1_init : forall l, forallb fresh l = true -> Inv1 (init_state l).
Proof.
  intros l Hl. assert (Hfr : forall j a, nth_error l j = Some a -> fresh a = true).
  { intros j a Hj. rewrite forallb_forall in Hl. apply Hl. eapply nth_error_In; eauto. }
  constructor; simpl.
  - repeat split; simpl; try discriminate.
    intros a E. inversion E; subst. eexists; split; [reflexivity|]. simpl; auto.
  - repeat split; simpl; try discriminate.
    + intros j f Hj. apply Hfr in Hj. simpl in Hj. destruct (fl_ph f); auto; discriminate.
    + intros j1 j2 f1 f2 H1 H2 N1. apply Hfr in H1. simpl in H1. destruct (fl_ph f1); congruence.
  - intros f x G. unfold get_file in G. simpl in G. destruct f; discriminate.
  - split; simpl; [intros x []|]. intros j w b Hj Hp. apply Hfr in Hj. simpl in Hj. rewrite Hp in Hj. discriminate.
Qed.

Lemma inv1_step : forall st i st', Inv1 st -> exec correct st i = Some st' -> Inv1 st'.
Proof.
  intros. constructor; eauto using mt_ok_step, fl_ok_step, files_ok_step, logs_ok_step.
Qed.

Lemma inv1_reach : forall l st, forallb fresh l = true -> reach correct (init_state l) st -> Inv1 st.
Proof.
  intros l st Hl R. induction R; [apply inv1_init; auto|]. destruct H as [i H]. eapply inv1_step; eauto.
Qed.
