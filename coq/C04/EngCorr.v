(* C04 engine level: what the model predicts for the probes the harness runs against the real engine
   (harness/cmd/c04/eng.go).  Everything here is evaluated by vm_compute in the check's scratch files. *)
From Coq Require Import List Bool Arith PeanoNat.
From OG Require Import C04.Model C04.Eng.
Import ListNotations.

(* operations by the names the harness uses; raftlookup has two candidates (today's code / repaired) *)
Inductive opname := Oquery | Owrite | Oraft | Oraft_current | Odropmst | Odelmst | Oflush | Odropdb | Oclose | Odelshard.
Definition prog_of (o : opname) : prog :=
  match o with
  | Oquery => P_query | Owrite => P_write | Oraft => P_raft | Oraft_current => P_raft_current | Odropmst => P_dropmst
  | Odelmst => P_delmst | Oflush => P_flush | Odropdb => P_dropdb | Oclose => P_close | Odelshard => P_delshard
  end.

(* footprint: 0 = the operation finishes although the harness holds the lock; else 1 + 2*lock + (1 if it waits as a
   writer) *)
Definition enc_fp (r : option (nat * bool)) : nat :=
  match r with None => 0 | Some (k, w) => 1 + 2 * k + (if w then 1 else 0) end.
Definition fp_row (o : opname) : list nat :=
  map (fun kw => enc_fp (probe_footprint (prog_of o) (fst kw) (snd kw)))
      [(1, true); (1, false); (2, true); (2, false); (3, true); (3, false)].
(* re-entry: 2 * (operation done) + (finale done) *)
Definition re_row (o : opname) : list nat :=
  map (fun f => let '(a, b) := probe_reentry (prog_of o) (prog_of f) in (if a then 2 else 0) + (if b then 1 else 0)) [Oclose; Odropdb].

Definition b2n (b : bool) : nat := if b then 1 else 0.
Definition waiting (st : estate) (i : nat) : bool :=
  match nth_error (eacts st) i with Some a => match pr a with Br Wait _ _ => true | _ => false end | None => false end.
Definition has_ref (st : estate) (i : nat) : bool :=
  match nth_error (eacts st) i with Some a => hasref (ts a) | None => false end.

(* drain probe: a query holds a reference, DeleteDatabase starts, a second query tries to take a reference, the first
   query finishes, DeleteDatabase finishes, a third query and a write try.  Observables in the order the harness
   reports them: refs while the query runs, drop waits, offloading while waiting, second reference refused?, directories
   present while waiting, everybody done, partition present after, directories present after, third reference taken?,
   write admitted? *)
Definition drain_expect : list nat :=
  let st0 := einit [P_query; P_dropdb; P_query; P_query; P_write] in
  let st1 := run_until_blocked ecode 3 st0 0 in
  let st2 := run_until_blocked ecode 200 st1 1 in
  let st3 := run_until_blocked ecode 3 st2 2 in
  let r2 := has_ref st3 2 in
  let st4 := run_rounds ecode 6 st3 [2; 0; 1] in
  let st5 := run_until_blocked ecode 3 st4 3 in
  let r3 := has_ref st5 3 in
  let st6 := run_rounds ecode 4 st5 [3; 4] in
  [refs (esh st1); b2n (waiting st2 1); b2n (offl (esh st2)); b2n r2; b2n (negb (gone (esh st3)));
   b2n (forallb edone (eacts st6)); b2n (present (esh st6)); b2n (negb (gone (esh st6))); b2n r3; length (bad (esh st6))].
(* time-out path: DeleteDatabase gives up; observables: offloading after, a new reference is taken?, partition present,
   directories present, everybody done *)
Definition drain_timeout_expect : list nat :=
  let st0 := einit [P_query; P_dropdb; P_query] in
  let st1 := run_until_blocked ecode 3 st0 0 in
  let st2 := run_until_blocked ecode 200 st1 1 in
  match eexec ecode st2 1 false with
  | None => []
  | Some st3 =>
      let st4 := run_until_blocked ecode 200 st3 1 in
      let st5 := run_until_blocked ecode 3 st4 2 in
      let r := has_ref st5 2 in
      let st6 := run_rounds ecode 6 st5 [0; 2] in
      [b2n (offl (esh st4)); b2n r; b2n (present (esh st6)); b2n (negb (gone (esh st6))); b2n (forallb edone (eacts st6))]
  end.
