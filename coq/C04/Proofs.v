(* C04 proofs, part 1: generic facts about the machine (schedules are reachability witnesses; list helpers). *)
From Coq Require Import List Bool Arith PeanoNat Lia.
From OG Require Import C04.Model.
Import ListNotations.

Lemma reach_trans : forall V a b c, reach V a b -> reach V b c -> reach V a c.
Proof. intros V a b c H1 H2. induction H2; auto. eapply reach_step; eauto. Qed.

(* an executable schedule is a reachability witness *)
Lemma run_reach : forall V sched st st', run V st sched = Some st' -> reach V st st'.
Proof.
  intros V sched. induction sched as [|i t IH]; intros st st' H; simpl in H.
  - inversion H; subst. apply reach_refl.
  - destruct (exec V st i) as [st1|] eqn:E; [|discriminate].
    eapply reach_trans; [|apply IH; exact H].
    eapply reach_step; [apply reach_refl|]. exists i; exact E.
Qed.

(* ---- list helpers *)
Lemma length_upd : forall A (l : list A) i x, length (upd l i x) = length l.
Proof. induction l; destruct i; simpl; auto. Qed.

Lemma nth_error_upd_eq : forall A (l : list A) i x, i < length l -> nth_error (upd l i x) i = Some x.
Proof. induction l; destruct i; simpl; intros; try lia; auto. apply IHl; lia. Qed.

Lemma nth_error_upd_neq : forall A (l : list A) i j x, i <> j -> nth_error (upd l i x) j = nth_error l j.
Proof. induction l; destruct i, j; simpl; intros; auto; try congruence. Qed.

Lemma nth_error_upd : forall A (l : list A) i j x y,
  nth_error (upd l i x) j = Some y -> (i = j /\ y = x) \/ (i <> j /\ nth_error l j = Some y).
Proof.
  intros. destruct (Nat.eq_dec i j) as [->|N].
  - left. split; auto. assert (j < length l).
    { assert (j < length (upd l j x)) by (apply nth_error_Some; congruence). rewrite length_upd in H0; auto. }
    rewrite nth_error_upd_eq in H; congruence.
  - right. rewrite nth_error_upd_neq in H; auto.
Qed.

Lemma length_map_at : forall A k p (g : A -> A) l, length (map_at k p g l) = length l.
Proof. intros A k p g l; revert k; induction l; simpl; auto. Qed.

Lemma nth_error_map_at : forall A p (g : A -> A) l k j,
  nth_error (map_at k p g l) j = option_map (fun t => if p (k + j) then g t else t) (nth_error l j).
Proof.
  intros A p g l; induction l; intros k j; destruct j; simpl; auto.
  - rewrite Nat.add_0_r; auto.
  - rewrite IHl. replace (S k + j) with (k + S j) by lia. auto.
Qed.

Lemma mem_nat_In : forall x l, mem_nat x l = true <-> In x l.
Proof.
  induction l; simpl; [split; [discriminate|tauto]|].
  rewrite orb_true_iff, Nat.eqb_eq, IHl. split; intros [H|H]; auto.
Qed.

Lemma In_remove_nat : forall x y l, In y (remove_nat x l) <-> In y l /\ y <> x.
Proof.
  induction l; simpl; [tauto|].
  destruct (Nat.eqb x a) eqn:E.
  - apply Nat.eqb_eq in E; subst. rewrite IHl. split; [tauto|]. intros [[H|H] N]; [congruence|auto].
  - apply Nat.eqb_neq in E. simpl. rewrite IHl. split; [intros [H|H]; [subst; split; auto|tauto]|tauto].
Qed.
