(* C04 property theorems. Statements closed by `exact lemma`; Print Assumptions after each. *)
From Coq Require Import List Bool Arith.
From OG Require Import C04.Model C04.Proofs.
Import ListNotations.

(* every executable schedule is a reachability witness (used by Mutants.v / Refuted.v and by the correspondence) *)
Theorem C04_run_reach : forall V sched st st', run V st sched = Some st' -> reach V st st'.
Proof. exact run_reach. Qed.
Print Assumptions C04_run_reach.
