(* C04 property theorems (PARTIAL claim: the lock-granular protocol; see props/C04/NOTES.md).
   All theorems are about the machine of C04/Model.v in its `correct` variant (= the repaired protocol; today's code is
   variant `current`, refuted in Refuted.v), for ANY list of fresh actors (any number of writers with any batches,
   readers with any number of queries, flushers, replacers with any operation lists, closers) and EVERY state
   reachable by any interleaving of enabled steps.  Statements closed by `exact lemma`. *)
From Coq Require Import List Bool Arith.
From OG Require Import C04.Model C04.Proofs C04.Steps C04.Inv C04.Views C04.Safety C04.Progress C04.NotBoth.
From OG Require Import C04.Eng C04.EngInv C04.EngProgress C04.EngSafe C04.EngRefuted.
Import ListNotations.

(* every executable schedule is a reachability witness (used by Mutants.v / Refuted.v and by the correspondence) *)
Theorem C04_run_reach : forall V sched st st', run V st sched = Some st' -> reach V st st'.
Proof. exact run_reach. Qed.
Print Assumptions C04_run_reach.

(* view_complete: a finished query that took its first step before the closer dropped the active table (ok = true)
   returns every batch that was acknowledged when it took that first step.  (The flushed-flag protocol never drops the
   snapshot table from a view before the files flushed from it are in that view.) *)
Theorem C04_view_complete : forall l st i r ok start res,
  forallb fresh l = true -> reach correct (init_state l) st ->
  nth_error (actors st) i = Some (AR r) -> In (ok, start, res) (r_hist r) -> ok = true -> incl start res.
Proof. exact view_complete_all. Qed.
Print Assumptions C04_view_complete.

Theorem C04_view_complete_in_progress : forall l st i r ms fs res,
  forallb fresh l = true -> reach correct (init_state l) st ->
  nth_error (actors st) i = Some (AR r) -> r_ok r = true -> r_ph r = R4 ms fs res -> incl (r_start r) res.
Proof. exact view_complete_in_progress. Qed.
Print Assumptions C04_view_complete_in_progress.

(* ... nor shows both: the memtables of a view and its files never overlap in provenance; in particular a view never
   contains the snapshot table together with a file flushed from it *)
Theorem C04_view_not_both : forall l st i r ms fs,
  forallb fresh l = true -> reach correct (init_state l) st ->
  nth_error (actors st) i = Some (AR r) -> (r_ph r = R3 ms fs \/ exists res, r_ph r = R4 ms fs res) ->
  forall m f x, In m ms -> In f fs -> get_file (sh st) f = Some x -> f_src x <> Some m.
Proof. exact view_not_both_all. Qed.
Print Assumptions C04_view_not_both.

(* view_values_acked: every batch a query returns was appended by some writer (acknowledged or still in flight) *)
Theorem C04_view_values_acked : forall l st i r ok start res,
  forallb fresh l = true -> reach correct (init_state l) st ->
  nth_error (actors st) i = Some (AR r) -> In (ok, start, res) (r_hist r) -> incl res (appended (sh st)).
Proof. exact view_values_appended_all. Qed.
Print Assumptions C04_view_values_acked.

(* no_file_removed_while_referenced (and no memtable recycled while referenced) *)
Theorem C04_no_file_removed_while_referenced : forall l st i r,
  forallb fresh l = true -> reach correct (init_state l) st ->
  nth_error (actors st) i = Some (AR r) -> r_ok r = true ->
  match r_ph r with
  | R2 _ fs _ => forall f, In f fs -> exists x, get_file (sh st) f = Some x /\ In i (f_hold x) /\ f_removed x = false
  | R3 ms fs =>
      (forall f, In f fs -> exists x, get_file (sh st) f = Some x /\ In i (f_hold x) /\ f_removed x = false) /\
      (forall m, In m ms -> exists t, get_mt (sh st) m = Some t /\ In i (m_hold t) /\ m_dead t = false)
  | _ => True
  end.
Proof. exact no_removal_while_referenced_all. Qed.
Print Assumptions C04_no_file_removed_while_referenced.

(* monotone_reads: for two finished queries of one client, the later one (started before the close) returns every batch
   that was acknowledged when the earlier one started, and every batch of the earlier result that had been acknowledged
   when the later one started *)
Theorem C04_monotone_reads : forall l st i r pre ok2 s2 res2 post ok1 s1 res1,
  forallb fresh l = true -> reach correct (init_state l) st ->
  nth_error (actors st) i = Some (AR r) ->
  r_hist r = pre ++ (ok2, s2, res2) :: post -> In (ok1, s1, res1) post -> ok2 = true ->
  incl s1 s2 /\ incl s1 res2 /\ (forall b, In b res1 -> In b s2 -> In b res2).
Proof. exact monotone_reads_all. Qed.
Print Assumptions C04_monotone_reads.

(* the single snapshot slot: at most one flush is between its swap and its drop, and whenever a snapshot table
   exists some flusher is in that window (a flush waits for the snapshot in flight before it swaps) *)
Theorem C04_single_snapshot_in_flight : forall l st, forallb fresh l = true -> reach correct (init_state l) st ->
  (forall j1 j2 f1 f2, nth_error (actors st) j1 = Some (AF f1) -> nth_error (actors st) j2 = Some (AF f2) ->
     fl_ph f1 <> F0 -> fl_ph f2 <> F0 -> j1 = j2) /\
  (forall m, snap (sh st) = Some m -> fmid (actors st) = true) /\
  (forall j f m, nth_error (actors st) j = Some (AF f) -> (fl_ph f = F1 m \/ fl_ph f = F2 m) -> snap (sh st) = Some m).
Proof. exact single_snapshot_all. Qed.
Print Assumptions C04_single_snapshot_in_flight.

(* close_drains / no deadlock: as long as some actor (writer, reader, flusher, replacer, closer) is not done, some
   step is enabled - in particular a Close in flight always completes, whatever else is in flight *)
Theorem C04_close_drains : forall l st, forallb fresh l = true -> reach correct (init_state l) st ->
  (exists i a, nth_error (actors st) i = Some a /\ done a = false) ->
  exists i st', exec correct st i = Some st'.
Proof. exact no_deadlock_all. Qed.
Print Assumptions C04_close_drains.

(* non-vacuity: a concrete system (two writers, a reader with two queries, a flusher, a merger, a closer) and an
   interleaving in which the first query overlaps a flush (it takes the snapshot pointer before the files are published,
   the file references after) and two writes, the second follows an out-of-order merge; both views are complete and
   the run drains *)
Example C04_example :
  let sys := [fresh_writer [5;3]; fresh_writer [4]; fresh_reader 2; fresh_flusher 2; AP [Merge]; AC C0] in
  forallb fresh sys = true /\
  match run correct (init_state sys) [0;0; 3; 2; 3; 2; 2; 3; 0;0; 1;1; 2;2; 3;3;3; 4;4;4; 2;2;2;2;2; 5;5;5;5;5] with
  | Some st => map reader_hist (actors st) = [[]; []; [(true, [4;3;5], [5;4;3]); (true, [5], [4;3;5])]; []; []; []]
               /\ forallb done (actors st) = true
  | None => False
  end.
Proof. vm_compute. repeat split. Qed.

(* ================================================================================================================
   ENGINE / PARTITION LEVEL (C04/Eng.v): operations are programs over the droppingDB token, EngineImpl.mu, DBPTInfo.mu,
   shard.mu (Go RWMutex semantics WITH writer preference: an announced writer blocks every new reader) and the
   partition's reference counter.  The theorems hold for ANY number of concurrent operations whose programs pass the
   static discipline `chk` (locks taken in increasing rank - hence never re-entered -, Lock = announce;acquire,
   reference before use, drained + closed before the directories go) and EVERY interleaving.  The programs of the code
   (query, write, WriteToRaft's partition lookup [repaired], DropMeasurement, DeleteMstInShard, ForceFlush,
   DeleteDatabase, Engine.Close, DeleteShard) pass it: C04_engine_code_programs_ordered. *)

(* closing or dropping while operations are in flight does not deadlock: while some operation has not finished, some
   step is enabled (DeleteDatabase's wait for the references has its time-out, as in the code) *)
Theorem C04_engine_no_deadlock : forall ps st, forallb (chk ts0) ps = true -> ereach ecode (einit ps) st ->
  (exists i a, nth_error (eacts st) i = Some a /\ edone a = false) ->
  exists i c st', eexec ecode st i c = Some st'.
Proof. exact eng_no_deadlock_all. Qed.
Print Assumptions C04_engine_no_deadlock.

(* ... nor crashes / uses freed state: the violation log stays empty (no counter underflow, no work on deleted data
   under a reference, no admitted shard operation on deleted files, no directory deletion under references); the
   counter equals the number of reference holders; directories go only after the shard was closed and the references
   drained; an operation that holds a reference never sees the directories gone *)
Theorem C04_engine_ref_safety : forall ps st, forallb (chk ts0) ps = true -> ereach ecode (einit ps) st ->
  bad (esh st) = [] /\
  refs (esh st) = nref (eacts st) /\
  (gone (esh st) = true -> closed (esh st) = true /\ refs (esh st) = 0) /\
  (forall j a, nth_error (eacts st) j = Some a -> hasref (ts a) = true -> gone (esh st) = false).
Proof. exact eng_safe_all. Qed.
Print Assumptions C04_engine_ref_safety.

(* the read/write locks exclude: whoever holds a lock exclusively is its only holder *)
Theorem C04_engine_rw_exclusion : forall V ps st k, forallb (chk ts0) ps = true -> ereach V (einit ps) st ->
  forall j1 j2 a1 a2 m, nth_error (eacts st) j1 = Some a1 -> nth_error (eacts st) j2 = Some a2 ->
    In (k, MW) (held (ts a1)) -> In (k, m) (held (ts a2)) -> j1 = j2.
Proof. exact rw_exclusion. Qed.
Print Assumptions C04_engine_rw_exclusion.

(* the hypotheses are satisfiable by the code's programs, in any multiplicity *)
Theorem C04_engine_code_programs_ordered : forall ps, (forall p, In p ps -> In p code_progs) -> forallb (chk ts0) ps = true.
Proof. exact instances_ordered. Qed.
Print Assumptions C04_engine_code_programs_ordered.

(* non-vacuity: two queries, a write, a DropMeasurement, a ForceFlush, a DeleteDatabase and an Engine.Close, run
   round-robin from a state where the first query already holds its reference and DeleteDatabase already waits for it:
   everybody finishes, nothing bad is logged, the partition is gone and the counter is back at 0 *)
Example C04_engine_example :
  let sys := [P_query; P_dropdb; P_write; P_dropmst; P_flush; P_close; P_query] in
  forallb (chk ts0) sys = true /\
  let st1 := run_until_blocked ecode 200 (run_until_blocked ecode 5 (einit sys) 0) 1 in
  (match nth_error (eacts st1) 1 with Some a => match pr a with Br Wait _ _ => true | _ => false end | None => false end) = true /\
  let st := run_rounds ecode 12 st1 [0; 1; 2; 3; 4; 5; 6] in
  forallb edone (eacts st) = true /\ bad (esh st) = [] /\ refs (esh st) = 0 /\ present (esh st) = false.
Proof. vm_compute. repeat split. Qed.
