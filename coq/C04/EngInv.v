(* C04 engine level, proofs part 1: the lock invariants of the machine of Eng.v and NO DEADLOCK for every system of
   operations whose programs pass the static discipline `chk` (locks in increasing rank, Lock = Ann;Acq), under Go's
   writer-preferring RWMutex semantics, for any number of concurrent operations and every interleaving. *)
From Coq Require Import List Bool Arith PeanoNat Lia.
From OG Require Import C04.Model C04.Proofs C04.Eng.
Import ListNotations.

Lemma nth_lt' : forall A (l : list A) i a, nth_error l i = Some a -> i < length l.
Proof. intros. apply nth_error_Some. congruence. Qed.

(* ---------------------------------------------------------------- held lists *)
(* strictly decreasing ranks from the head (the newest acquisition has the highest rank) *)
Fixpoint hsorted (l : list (nat * mode)) : Prop :=
  match l with
  | [] => True
  | x :: r => (forall y, In y r -> fst y < fst x) /\ hsorted r
  end.

Lemma is_km_true : forall k m x, is_km k m x = true <-> x = (k, m).
Proof.
  intros k m [k' m']. unfold is_km. simpl. rewrite andb_true_iff, Nat.eqb_eq. split.
  - intros [-> H]. destruct m, m'; simpl in H; try discriminate; reflexivity.
  - intros H. inversion H; subst. split; auto. destruct m; reflexivity.
Qed.

Lemma holds_In : forall k m t, holds k m t = true <-> In (k, m) (held t).
Proof.
  intros. unfold holds. rewrite existsb_exists. split.
  - intros [x [Hi Hx]]. apply is_km_true in Hx. subst. auto.
  - intros H. exists (k, m). split; auto. apply is_km_true. auto.
Qed.

Lemma holds_any_In : forall k t, holds_any k t = true <-> exists m, In (k, m) (held t).
Proof.
  intros. unfold holds_any. rewrite existsb_exists. split.
  - intros [[k' m] [Hi Hx]]. simpl in Hx. apply Nat.eqb_eq in Hx. subst. eauto.
  - intros [m H]. exists (k, m). split; auto. simpl. apply Nat.eqb_refl.
Qed.

Lemma all_lt_In : forall k t, all_lt k t = true <-> forall x, In x (held t) -> fst x < k.
Proof.
  intros. unfold all_lt. rewrite forallb_forall. split; intros H x Hx; specialize (H x Hx).
  - apply Nat.ltb_lt; auto.
  - apply Nat.ltb_lt; auto.
Qed.

Lemma In_rm_km : forall k m l x, In x (rm_km k m l) -> In x l.
Proof.
  induction l as [|y r IH]; simpl; intros x H; auto.
  destruct (is_km k m y); [right; auto|]. destruct H as [H|H]; [left; auto|right; auto].
Qed.

Lemma hsorted_rm : forall k m l, hsorted l -> hsorted (rm_km k m l).
Proof.
  induction l as [|y r IH]; simpl; intros H; auto. destruct H as [H1 H2].
  destruct (is_km k m y); auto. simpl. split; auto. intros z Hz. apply H1. eapply In_rm_km; eauto.
Qed.

(* in a sorted list an entry of rank k is unique: after removing (k,m) no entry of rank k is left *)
Lemma rm_km_none : forall k m l, hsorted l -> In (k, m) l -> forall m', ~ In (k, m') (rm_km k m l).
Proof.
  induction l as [|y r IH]; simpl; intros Hs Hi m' Hc; auto. destruct Hs as [H1 H2].
  destruct (is_km k m y) eqn:E.
  - apply is_km_true in E. subst y. apply H1 in Hc. simpl in Hc. lia.
  - destruct Hi as [Hi|Hi]; [subst y; rewrite (proj2 (is_km_true k m (k, m)) eq_refl) in E; discriminate|].
    destruct Hc as [Hc|Hc].
    + subst y. apply H1 in Hi. simpl in Hi. lia.
    + eapply IH; eauto.
Qed.

Lemma rm_km_other : forall k m l x, fst x <> k -> (In x (rm_km k m l) <-> In x l).
Proof.
  induction l as [|y r IH]; simpl; intros x N; [tauto|].
  destruct (is_km k m y) eqn:E.
  - apply is_km_true in E. subst y. split; [auto|]. intros [H|H]; auto. subst x. simpl in N. congruence.
  - simpl. rewrite IH; auto. tauto.
Qed.

Lemma In_map_upg : forall k l x, In x (map (upg k) l) <->
  (In x l /\ x <> (k, MA)) \/ (x = (k, MW) /\ In (k, MA) l).
Proof.
  intros k l x. rewrite in_map_iff. split.
  - intros [y [Hy Hi]]. unfold upg in Hy. destruct (is_km k MA y) eqn:E.
    + apply is_km_true in E. subst. right. auto.
    + subst. left. split; auto. intro C. subst. rewrite (proj2 (is_km_true k MA (k, MA)) eq_refl) in E. discriminate.
  - intros [[Hi N]|[-> Hi]].
    + exists x. split; auto. unfold upg. destruct (is_km k MA x) eqn:E; auto. apply is_km_true in E. congruence.
    + exists (k, MA). split; auto. unfold upg. rewrite (proj2 (is_km_true k MA (k, MA)) eq_refl). auto.
Qed.

Lemma hsorted_upg : forall k l, hsorted l -> hsorted (map (upg k) l).
Proof.
  induction l as [|y r IH]; simpl; intros H; auto. destruct H as [H1 H2]. split; auto.
  intros z Hz. apply in_map_iff in Hz. destruct Hz as [w [Hw Hi]]. specialize (H1 w Hi).
  assert (F : forall v, fst (upg k v) = fst v).
  { intros v. unfold upg. destruct (is_km k MA v) eqn:E; auto. apply is_km_true in E. subst. reflexivity. }
  rewrite <- Hw. rewrite !F. auto.
Qed.

(* ---------------------------------------------------------------- the invariant of one operation *)
Definition actor_inv (a : eactor) : Prop :=
  chk (ts a) (pr a) = true /\
  hsorted (held (ts a)) /\
  (forall x, In x (held (ts a)) -> fst x < 4) /\
  (forall k, In (k, MA) (held (ts a)) -> (exists q, pr a = Seq (L (Acq k)) q) /\ exists r, held (ts a) = (k, MA) :: r).

Lemma actor_inv_fresh : forall p, chk ts0 p = true -> actor_inv (fresh_actor p).
Proof. intros p H. unfold actor_inv; simpl. split; [auto|split; [exact I|split; [intros x []|intros k []]]]. Qed.

Lemma chk_Seq : forall t o q, chk t (Seq o q) = true -> ok_op o t = true /\ ann_then_acq o q = true /\ chk (ts_op o t) q = true.
Proof. intros t o q H. simpl in H. apply andb_true_iff in H. destruct H as [H H3]. apply andb_true_iff in H. tauto. Qed.
Lemma chk_Br : forall t b f q, chk t (Br b f q) = true -> ok_br b t = true /\ chk t f = true /\ chk (ts_br b t) q = true.
Proof. intros t b f q H. simpl in H. apply andb_true_iff in H. destruct H as [H H3]. apply andb_true_iff in H. tauto. Qed.

Lemma held_ts_data : forall o t, held (ts_data o t) = held t.
Proof. destruct o; reflexivity. Qed.
Lemma held_ts_br : forall b t, held (ts_br b t) = held t.
Proof. destruct b; reflexivity. Qed.

(* no MA entry is held when the next instruction is not an Acq *)
Lemma no_ma : forall a, actor_inv a -> (forall k q, pr a <> Seq (L (Acq k)) q) -> forall k, ~ In (k, MA) (held (ts a)).
Proof. intros a [_ [_ [_ H]]] N k Hi. destruct (H k Hi) as [[q Hq] _]. eapply N; eauto. Qed.

Lemma mk_actor_inv : forall p t, chk t p = true -> hsorted (held t) -> (forall x, In x (held t) -> fst x < 4) ->
  (forall k, ~ In (k, MA) (held t)) -> actor_inv {| pr := p; ts := t |}.
Proof.
  intros p t H1 H2 H3 H4. unfold actor_inv. simpl. split; [auto|split; [auto|split; [auto|]]].
  intros k C. exfalso. eapply H4; eauto.
Qed.

Lemma actor_inv_step : forall V i c s a s' a', actor_inv a -> estep V i c s a = Some (s', a') -> actor_inv a'.
Proof.
  intros V i c s a s' a' HI H. pose proof HI as [Hc [Hs [Hb Hm]]]. unfold estep in H.
  destruct (pr a) as [|o q|b f q] eqn:Ep; [discriminate| |].
  - (* Seq *)
    apply chk_Seq in Hc. destruct Hc as [Hok [Haa Hq]].
    destruct o as [o|o].
    + destruct (guard_lock o s); [|discriminate]. inversion H; subst; clear H.
      destruct o as [k|k|k|k|k]; simpl in Hok, Hq, Haa |- *.
      * (* RLock *) apply andb_true_iff in Hok. destruct Hok as [Hlt Hk4]. rewrite all_lt_In in Hlt. apply Nat.ltb_lt in Hk4.
        assert (Hno : forall k0, ~ In (k0, MA) (held (ts a))) by (apply no_ma; auto; rewrite Ep; congruence).
        apply mk_actor_inv; simpl; auto.
        -- intros x [<-|Hx]; simpl; auto.
        -- intros k0 [C|C]; [discriminate|eapply Hno; eauto].
      * (* RUnlock *)
        assert (Hno : forall k0, ~ In (k0, MA) (held (ts a))) by (apply no_ma; auto; rewrite Ep; congruence).
        apply mk_actor_inv; simpl; auto.
        -- apply hsorted_rm; auto.
        -- intros x Hx. apply Hb. eapply In_rm_km; eauto.
        -- intros k0 C. eapply Hno. eapply In_rm_km; eauto.
      * (* Ann *) apply andb_true_iff in Hok. destruct Hok as [Hlt Hk4]. rewrite all_lt_In in Hlt. apply Nat.ltb_lt in Hk4.
        assert (Hno : forall k0, ~ In (k0, MA) (held (ts a))) by (apply no_ma; auto; rewrite Ep; congruence).
        destruct q as [|[[| | |k'|]|] q'|]; simpl in Haa; try discriminate. apply Nat.eqb_eq in Haa. subst k'.
        unfold actor_inv. simpl. split; [auto|split; [auto|split]].
        -- intros x [<-|Hx]; simpl; auto.
        -- intros k0 [C|C]; [inversion C; subst; eauto|exfalso; eapply Hno; eauto].
      * (* Acq *)
        apply mk_actor_inv; simpl; auto.
        -- apply hsorted_upg; auto.
        -- intros x Hx. apply In_map_upg in Hx. destruct Hx as [[Hx _]|[-> Hx]]; [auto|]. apply Hb in Hx. auto.
        -- intros k0 C. apply In_map_upg in C. destruct C as [[Hi N]|[C _]]; [|discriminate].
           destruct (Hm k0 Hi) as [[q0 Hq0] _]. inversion Hq0; subst. congruence.
      * (* WUnlock *)
        assert (Hno : forall k0, ~ In (k0, MA) (held (ts a))) by (apply no_ma; auto; rewrite Ep; congruence).
        apply mk_actor_inv; simpl; auto.
        -- apply hsorted_rm; auto.
        -- intros x Hx. apply Hb. eapply In_rm_km; eauto.
        -- intros k0 C. eapply Hno. eapply In_rm_km; eauto.
    + destruct (guard_data o s); [|discriminate]. inversion H; subst; clear H. simpl in Hq.
      assert (Hno : forall k0, ~ In (k0, MA) (held (ts a))) by (apply no_ma; auto; rewrite Ep; congruence).
      apply mk_actor_inv; auto; rewrite held_ts_data; auto.
  - (* Br *)
    apply chk_Br in Hc. destruct Hc as [Hok [Hf Hq]].
    assert (Hno : forall k0, ~ In (k0, MA) (held (ts a))) by (apply no_ma; auto; rewrite Ep; congruence).
    assert (Gf : actor_inv {| pr := f; ts := ts a |}) by (apply mk_actor_inv; auto).
    assert (Gq : actor_inv {| pr := q; ts := ts_br b (ts a) |}) by (apply mk_actor_inv; auto; rewrite held_ts_br; auto).
    destruct b.
    + destruct (is_none (pend (lk s 2))); [|discriminate].
      destruct (present s && (negb (offl s) || ev_ref_ignores_offl V)); inversion H; subst; auto.
    + destruct (present s); inversion H; subst; auto.
    + destruct (mapped s); inversion H; subst; auto.
    + destruct c.
      * destruct (Nat.eqb (refs s) 0); [|discriminate]. inversion H; subst; auto.
      * destruct (ev_timeout V); [|discriminate]. inversion H; subst; auto.
Qed.

(* ---------------------------------------------------------------- the lock invariant *)
Definition holder (st : estate) (j k : nat) (m : mode) : Prop :=
  exists a, nth_error (eacts st) j = Some a /\ In (k, m) (held (ts a)).

Definition lock_inv (st : estate) : Prop :=
  forall k,
    NoDup (rd (lk (esh st) k)) /\
    (forall j, In j (rd (lk (esh st) k)) <-> holder st j k MR) /\
    (forall j, (pend (lk (esh st) k) = Some j /\ wheld (lk (esh st) k) = false) <-> holder st j k MA) /\
    (forall j, (pend (lk (esh st) k) = Some j /\ wheld (lk (esh st) k) = true) <-> holder st j k MW) /\
    (pend (lk (esh st) k) = None -> wheld (lk (esh st) k) = false) /\
    (wheld (lk (esh st) k) = true -> rd (lk (esh st) k) = []).

Definition all_inv (st : estate) : Prop :=
  lock_inv st /\ forall i a, nth_error (eacts st) i = Some a -> actor_inv a.

Lemma lock_inv_init : forall ps, lock_inv (einit ps).
Proof.
  intros ps k. simpl. assert (N : forall j m, ~ holder (einit ps) j k m).
  { intros j m [a [Ha Hi]]. simpl in Ha. rewrite nth_error_map in Ha. destruct (nth_error ps j); inversion Ha; subst. destruct Hi. }
  split; [constructor|]. split; [|split; [|split; [|split]]].
  - intros j. split; [intros []|]. intros H. exfalso. eapply N; eauto.
  - intros j. split; [intros [C _]; discriminate|]. intros H. exfalso. eapply N; eauto.
  - intros j. split; [intros [C _]; discriminate|]. intros H. exfalso. eapply N; eauto.
  - auto.
  - discriminate.
Qed.

Lemma all_inv_init : forall ps, forallb (chk ts0) ps = true -> all_inv (einit ps).
Proof.
  intros ps H. split; [apply lock_inv_init|]. intros i a Ha. simpl in Ha. rewrite nth_error_map in Ha.
  destruct (nth_error ps i) eqn:E; inversion Ha; subst. apply actor_inv_fresh.
  rewrite forallb_forall in H. apply H. eapply nth_error_In; eauto.
Qed.

Lemma In_rm_one : forall x l y, In y (rm_one x l) -> In y l.
Proof.
  induction l as [|z r IH]; simpl; intros y H; auto. destruct (Nat.eqb x z); auto. destruct H; auto.
Qed.
Lemma NoDup_rm_one : forall x l, NoDup l -> NoDup (rm_one x l) /\ ~ In x (rm_one x l) /\ (forall y, y <> x -> In y l -> In y (rm_one x l)).
Proof.
  induction l as [|z r IH]; simpl; intros H; [repeat split; auto|]. inversion H; subst.
  destruct (Nat.eqb x z) eqn:E.
  - apply Nat.eqb_eq in E. subst z. repeat split; auto. intros y N [C|C]; [congruence|auto].
  - apply Nat.eqb_neq in E. destruct (IH H3) as [I1 [I2 I3]]. repeat split.
    + constructor; auto. intro C. apply H2. eapply In_rm_one; eauto.
    + intros [C|C]; [congruence|auto].
    + intros y N [C|C]; [left; auto|right; auto].
Qed.

(* holders of other actors / other locks are untouched by a step of actor i on lock k0 *)
Lemma holder_upd_other : forall st i a' j k m, j <> i ->
  (holder {| esh := esh st; eacts := upd (eacts st) i a' |} j k m <-> holder st j k m).
Proof.
  intros. unfold holder. simpl. rewrite nth_error_upd_neq; auto. tauto.
Qed.

Lemma holder_self : forall st s' i a a' k m, nth_error (eacts st) i = Some a ->
  (holder {| esh := s'; eacts := upd (eacts st) i a' |} i k m <-> In (k, m) (held (ts a'))).
Proof.
  intros. unfold holder. simpl. rewrite nth_error_upd_eq; [|eapply nth_lt'; eauto]. split.
  - intros [x [Hx Hi]]. inversion Hx; subst. auto.
  - intros Hi. eauto.
Qed.

Lemma holder_self0 : forall st i a k m, nth_error (eacts st) i = Some a -> (holder st i k m <-> In (k, m) (held (ts a))).
Proof. intros. unfold holder. rewrite H. split; [intros [x [Hx Hi]]; inversion Hx; subst; auto|eauto]. Qed.

Lemma holder_esh : forall st s' l j k m, holder {| esh := s'; eacts := l |} j k m <-> holder {| esh := esh st; eacts := l |} j k m.
Proof. intros. unfold holder. simpl. tauto. Qed.

Lemma lk_set_lk_eq : forall s k x, lk (set_lk s k x) k = x.
Proof. intros. simpl. rewrite Nat.eqb_refl. auto. Qed.
Lemma lk_set_lk_neq : forall s k k' x, k' <> k -> lk (set_lk s k x) k' = lk s k'.
Proof. intros. simpl. destruct (Nat.eqb k' k) eqn:E; auto. apply Nat.eqb_eq in E. congruence. Qed.

(* a step that leaves the locks and the held list of the stepping actor alone keeps the lock invariant *)
Lemma lock_inv_frame : forall st i a s' a', lock_inv st -> nth_error (eacts st) i = Some a ->
  lk s' = lk (esh st) -> held (ts a') = held (ts a) ->
  lock_inv {| esh := s'; eacts := upd (eacts st) i a' |}.
Proof.
  intros st i a s' a' HL Ha El Eh k. specialize (HL k). simpl. rewrite El.
  assert (Hh : forall j m, holder {| esh := s'; eacts := upd (eacts st) i a' |} j k m <-> holder st j k m).
  { intros j m. destruct (Nat.eq_dec j i) as [->|N].
    - rewrite (holder_self st s' i a a' k m Ha), (holder_self0 st i a k m Ha), Eh. tauto.
    - unfold holder. simpl. rewrite nth_error_upd_neq; auto. tauto. }
  destruct HL as [H1 [H2 [H3 [H4 [H5 H6]]]]]. split; auto. split; [|split; [|split; [|split]]]; auto.
  - intros j. rewrite Hh. auto.
  - intros j. rewrite Hh. auto.
  - intros j. rewrite Hh. auto.
Qed.


Lemma uniq_rank : forall l k m m', hsorted l -> In (k, m) l -> In (k, m') l -> m = m'.
Proof.
  induction l as [|y r IH]; simpl; intros k m m' Hs Ha Hb; [destruct Ha|]. destruct Hs as [H1 H2].
  destruct Ha as [Ha|Ha], Hb as [Hb|Hb].
  - congruence.
  - subst y. apply H1 in Hb. simpl in Hb. lia.
  - subst y. apply H1 in Ha. simpl in Ha. lia.
  - eapply IH; eauto.
Qed.

(* one lock operation of actor i on lock k0: new lock state x', new held list h' *)
Lemma lock_inv_lockop : forall st i a q k0 x' h',
  lock_inv st -> nth_error (eacts st) i = Some a ->
  (forall k' m, k' <> k0 -> (In (k', m) h' <-> In (k', m) (held (ts a)))) ->
  NoDup (rd x') ->
  (forall j, j <> i -> (In j (rd x') <-> In j (rd (lk (esh st) k0)))) ->
  (In i (rd x') <-> In (k0, MR) h') ->
  (forall j, j <> i -> ((pend x' = Some j /\ wheld x' = false) <-> (pend (lk (esh st) k0) = Some j /\ wheld (lk (esh st) k0) = false))) ->
  ((pend x' = Some i /\ wheld x' = false) <-> In (k0, MA) h') ->
  (forall j, j <> i -> ((pend x' = Some j /\ wheld x' = true) <-> (pend (lk (esh st) k0) = Some j /\ wheld (lk (esh st) k0) = true))) ->
  ((pend x' = Some i /\ wheld x' = true) <-> In (k0, MW) h') ->
  (pend x' = None -> wheld x' = false) ->
  (wheld x' = true -> rd x' = []) ->
  lock_inv {| esh := set_lk (esh st) k0 x'; eacts := upd (eacts st) i {| pr := q; ts := set_held (ts a) h' |} |}.
Proof.
  intros st i a q k0 x' h' HL Ha Hoth N1 R1 R2 A1 A2 W1 W2 P1 P2 k.
  assert (Hj : forall j k m, j <> i ->
            (holder {| esh := set_lk (esh st) k0 x'; eacts := upd (eacts st) i {| pr := q; ts := set_held (ts a) h' |} |} j k m <-> holder st j k m)).
  { intros. unfold holder. simpl. rewrite nth_error_upd_neq; auto. tauto. }
  assert (Hi : forall k m,
            (holder {| esh := set_lk (esh st) k0 x'; eacts := upd (eacts st) i {| pr := q; ts := set_held (ts a) h' |} |} i k m <-> In (k, m) h')).
  { intros k' m'. rewrite (holder_self st _ i a _ k' m' Ha). simpl. tauto. }
  destruct (HL k) as [H1 [H2 [H3 [H4 [H5 H6]]]]].
  destruct (Nat.eq_dec k k0) as [->|Nk].
  - simpl esh. rewrite lk_set_lk_eq. split; auto. split; [|split; [|split; [|split]]]; auto.
    + intros j. destruct (Nat.eq_dec j i) as [->|Nj]; [rewrite Hi; auto|]. rewrite Hj, R1; auto.
    + intros j. destruct (Nat.eq_dec j i) as [->|Nj]; [rewrite Hi; auto|]. rewrite Hj, A1; auto.
    + intros j. destruct (Nat.eq_dec j i) as [->|Nj]; [rewrite Hi; auto|]. rewrite Hj, W1; auto.
  - simpl esh. rewrite lk_set_lk_neq; auto.
    assert (Hx : forall j m, holder {| esh := set_lk (esh st) k0 x'; eacts := upd (eacts st) i {| pr := q; ts := set_held (ts a) h' |} |} j k m <-> holder st j k m).
    { intros j m. destruct (Nat.eq_dec j i) as [->|Nj]; [|apply Hj; auto].
      rewrite Hi, (holder_self0 st i a k m Ha). apply Hoth; auto. }
    split; auto. split; [|split; [|split; [|split]]]; auto; intros j; rewrite Hx; auto.
Qed.

Lemma lock_inv_step : forall V st i c st', all_inv st -> eexec V st i c = Some st' -> lock_inv st'.
Proof.
  intros V st i c st' [HL HA] H. unfold eexec in H.
  destruct (nth_error (eacts st) i) as [a|] eqn:Ha; [|discriminate].
  destruct (estep V i c (esh st) a) as [[s' a']|] eqn:Es; [|discriminate]. inversion H; subst; clear H.
  pose proof (HA _ _ Ha) as HI. pose proof HI as [Hc [Hs [Hb Hm]]].
  unfold estep in Es. destruct (pr a) as [|o q|b f q] eqn:Ep; [discriminate| |].
  2:{ destruct b.
    - destruct (is_none (pend (lk (esh st) 2))); [|discriminate].
      destruct (present (esh st) && (negb (offl (esh st)) || ev_ref_ignores_offl V)); inversion Es; subst;
        eapply lock_inv_frame; eauto.
    - destruct (present (esh st)); inversion Es; subst; eapply lock_inv_frame; eauto.
    - destruct (mapped (esh st)); inversion Es; subst; eapply lock_inv_frame; eauto.
    - destruct c.
      + destruct (Nat.eqb (refs (esh st)) 0); [|discriminate]. inversion Es; subst. eapply lock_inv_frame; eauto.
      + destruct (ev_timeout V); [|discriminate]. inversion Es; subst. eapply lock_inv_frame; eauto. }
  apply chk_Seq in Hc. destruct Hc as [Hok [Haa Hq]].
  destruct o as [o|o].
  2:{ destruct (guard_data o (esh st)); [|discriminate]. inversion Es; subst.
      eapply lock_inv_frame; eauto; [|simpl; apply held_ts_data].
      destruct o; simpl; auto; try (destruct (refs (esh st)); reflexivity);
        try (destruct (gone (esh st)); reflexivity); try (destruct (negb (closed (esh st)) && gone (esh st)); reflexivity). }
  destruct (guard_lock o (esh st)) eqn:Eg; [|discriminate]. inversion Es; subst; clear Es.
  assert (Hself : forall k m, holder st i k m <-> In (k, m) (held (ts a))) by (intros; apply holder_self0; auto).
  destruct o as [k0|k0|k0|k0|k0]; simpl in Hok, Eg; unfold eff_lock, ts_lock;
    destruct (HL k0) as [H1 [H2 [H3 [H4 [H5 H6]]]]].
  - (* RLock *)
    apply andb_true_iff in Hok. destruct Hok as [Hlt _]. rewrite all_lt_In in Hlt.
    assert (Nh : forall m, ~ In (k0, m) (held (ts a))) by (intros m C; apply Hlt in C; simpl in C; lia).
    destruct (pend (lk (esh st) k0)) eqn:Ep0; [discriminate|].
    apply (lock_inv_lockop st i a q k0 _ _ HL Ha); simpl.
    + (* other ranks *) intros k' m N. split; [intros [C|C]; [congruence|auto]|auto].
    + (* NoDup *) constructor; auto. intro C. apply H2 in C. apply Hself in C. eapply Nh; eauto.
    + (* R others *) intros j N. split; [intros [C|C]; [congruence|auto]|auto].
    + (* R self *) tauto.
    + (* A others *) intros j N. try rewrite Ep0. tauto.
    + (* A self *) try rewrite Ep0. split; [intros [C _]; discriminate|]. intros [C|C]; [discriminate|exfalso; eapply Nh; eauto].
    + (* W others *) intros j N. try rewrite Ep0. tauto.
    + (* W self *) try rewrite Ep0. split; [intros [C _]; discriminate|]. intros [C|C]; [discriminate|exfalso; eapply Nh; eauto].
    + (* P1 *) try rewrite Ep0. intros _. apply H5. auto.
    + (* P2 *) intros C. rewrite H5 in C; [discriminate|auto].
  - (* RUnlock *)
    apply holds_In in Hok.
    destruct (NoDup_rm_one i _ H1) as [I1 [I2 I3]].
    apply (lock_inv_lockop st i a q k0 _ _ HL Ha); simpl.
    + intros k' m N. apply (rm_km_other k0 MR (held (ts a)) (k', m)). simpl. auto.
    + exact I1.
    + intros j N. split; [apply In_rm_one|apply I3; auto].
    + split; [intros C; exfalso; auto|]. intros C. exfalso. eapply rm_km_none; eauto.
    + tauto.
    + split.
      * intros C. apply H3 in C. apply Hself in C. pose proof (uniq_rank _ _ _ _ Hs Hok C). discriminate.
      * intros C. exfalso. eapply rm_km_none; eauto.
    + tauto.
    + split.
      * intros C. apply H4 in C. apply Hself in C. pose proof (uniq_rank _ _ _ _ Hs Hok C). discriminate.
      * intros C. exfalso. eapply rm_km_none; eauto.
    + exact H5.
    + intros C. rewrite (H6 C). reflexivity.
  - (* Ann *)
    apply andb_true_iff in Hok. destruct Hok as [Hlt _]. rewrite all_lt_In in Hlt.
    assert (Nh : forall m, ~ In (k0, m) (held (ts a))) by (intros m C; apply Hlt in C; simpl in C; lia).
    destruct (pend (lk (esh st) k0)) eqn:Ep0; [discriminate|].
    apply (lock_inv_lockop st i a q k0 _ _ HL Ha); simpl.
    + intros k' m N. split; [intros [C|C]; [congruence|auto]|auto].
    + exact H1.
    + tauto.
    + split.
      * intros C. apply H2 in C. apply Hself in C. exfalso. eapply Nh; eauto.
      * intros [C|C]; [discriminate|exfalso; eapply Nh; eauto].
    + intros j N. try rewrite Ep0. split; [intros [C _]; congruence|intros [C _]; discriminate].
    + tauto.
    + intros j N. try rewrite Ep0. split; [intros [_ C]; discriminate|intros [C _]; discriminate].
    + split; [intros [_ C]; discriminate|]. intros [C|C]; [discriminate|exfalso; eapply Nh; eauto].
    + discriminate.
    + discriminate.
  - (* Acq *)
    apply holds_In in Hok. pose proof (proj2 (H3 i) (proj2 (Hself k0 MA) Hok)) as [Ep0 Ew0].
    destruct (rd (lk (esh st) k0)) eqn:Er; [|discriminate].
    apply (lock_inv_lockop st i a q k0 _ _ HL Ha); simpl.
    + intros k' m N. rewrite In_map_upg. split.
      * intros [[C _]|[C _]]; [auto|congruence].
      * intros C. left. split; auto. congruence.
    + constructor.
    + rewrite Er. tauto.
    + split; [intros []|]. rewrite In_map_upg. intros [[C _]|[C _]]; [|discriminate].
      pose proof (uniq_rank _ _ _ _ Hs Hok C). discriminate.
    + intros j N. try rewrite Ew0. split; [intros [_ C]; discriminate|]. intros [C _]. congruence.
    + split; [intros [_ C]; discriminate|]. rewrite In_map_upg. intros [[_ C]|[C _]]; [congruence|discriminate].
    + intros j N. try rewrite Ep0; try try rewrite Ew0. split; [intros [C _]; congruence|intros [_ C]; congruence].
    + split; [|auto]. intros _. apply In_map_upg. right. auto.
    + intros C. congruence.
    + auto.
  - (* WUnlock *)
    apply andb_true_iff in Hok. destruct Hok as [Hok _]. apply holds_In in Hok.
    pose proof (proj2 (H4 i) (proj2 (Hself k0 MW) Hok)) as [Ep0 Ew0]. pose proof (H6 Ew0) as Er.
    apply (lock_inv_lockop st i a q k0 _ _ HL Ha); simpl.
    + intros k' m N. apply (rm_km_other k0 MW (held (ts a)) (k', m)). simpl. auto.
    + exact H1.
    + tauto.
    + rewrite Er. split; [intros []|]. intros C. apply In_rm_km in C.
      pose proof (uniq_rank _ _ _ _ Hs Hok C). discriminate.
    + intros j N. try rewrite Ep0. split; [intros [C _]; discriminate|]. intros [C _]. congruence.
    + split; [intros [C _]; discriminate|]. intros C. exfalso. eapply rm_km_none; eauto.
    + intros j N. try rewrite Ep0. split; [intros [C _]; discriminate|]. intros [C _]. congruence.
    + split; [intros [C _]; discriminate|]. intros C. exfalso. eapply rm_km_none; eauto.
    + auto.
    + discriminate.
Qed.

Lemma all_inv_step : forall V st i c st', all_inv st -> eexec V st i c = Some st' -> all_inv st'.
Proof.
  intros V st i c st' HI H. split; [eapply lock_inv_step; eauto|].
  destruct HI as [_ HA]. unfold eexec in H.
  destruct (nth_error (eacts st) i) as [a|] eqn:Ha; [|discriminate].
  destruct (estep V i c (esh st) a) as [[s' a']|] eqn:Es; [|discriminate]. inversion H; subst; clear H. simpl.
  intros j b Hj. apply nth_error_upd in Hj. destruct Hj as [[-> ->]|[N Hj]]; [|eauto].
  eapply actor_inv_step; eauto.
Qed.

Lemma all_inv_reach : forall V ps st, forallb (chk ts0) ps = true -> ereach V (einit ps) st -> all_inv st.
Proof.
  intros V ps st Hp R. induction R; [apply all_inv_init; auto|].
  destruct H as [i [c H]]. eapply all_inv_step; eauto.
Qed.

(* mutual exclusion of the read/write locks *)
Lemma rw_exclusion : forall V ps st k, forallb (chk ts0) ps = true -> ereach V (einit ps) st ->
  forall j1 j2 a1 a2 m, nth_error (eacts st) j1 = Some a1 -> nth_error (eacts st) j2 = Some a2 ->
    In (k, MW) (held (ts a1)) -> In (k, m) (held (ts a2)) -> j1 = j2.
Proof.
  intros V ps st k Hp R j1 j2 a1 a2 m N1 N2 I1 I2. destruct (all_inv_reach _ _ _ Hp R) as [HL _].
  destruct (HL k) as [H1 [H2 [H3 [H4 [H5 H6]]]]].
  assert (W : pend (lk (esh st) k) = Some j1 /\ wheld (lk (esh st) k) = true) by (apply H4; exists a1; auto).
  destruct W as [Wp Ww]. destruct m.
  - assert (C : In j2 (rd (lk (esh st) k))) by (apply H2; exists a2; auto). rewrite (H6 Ww) in C. destruct C.
  - assert (C : pend (lk (esh st) k) = Some j2 /\ wheld (lk (esh st) k) = false) by (apply H3; exists a2; auto). destruct C; congruence.
  - assert (C : pend (lk (esh st) k) = Some j2 /\ wheld (lk (esh st) k) = true) by (apply H4; exists a2; auto). destruct C; congruence.
Qed.
