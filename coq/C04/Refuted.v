(* C04: the protocol as the repository implements it TODAY (variant `current`) reaches a state in which a query
   that started after a batch was acknowledged does not return it.

   Root cause: tsImmTableImpl.AddBothTSSPFiles obtains the measurement's out-of-order TSSPFiles object with
   makeTSSPFiles (under MmsTables.mu, released), and appends the new out-of-order file to it in a LATER critical
   section (under the TSSPFiles lock only).  Between the two, MmsTables.deleteUnorderedFiles (end of an out-of-order
   merge) may find that list empty and delete the object from MmsTables.OutOfOrder.  The flush then lists its file in
   an object no reader can reach; the flushed flag is set and the snapshot table dropped, so the rows of that flush
   with time <= last flushed time vanish from every query until the shard is reopened.

   Witness: W writes 5, flush (ordered file {5}); W writes 3, flush (out-of-order file {3}); W writes 4, flusher swaps
   and fetches the list object; merge replaces {5}+{3} by one ordered file, de-lists {3}, deletes the now empty list
   object; flusher appends {4} to the orphaned object; a query misses 4. *)
From Coq Require Import List Bool Arith.
From OG Require Import C04.Model C04.Proofs C04.Eng C04.EngRefuted.
Import ListNotations.

Definition sys_orphan : list actor := [fresh_writer [5;3;4]; fresh_flusher 3; AP [Merge]; fresh_reader 1].
Definition sched_orphan : list nat :=
  [0;0; 1;1;1;1;  0;0; 1;1;1;1;  0;0; 1;1;  2;2;2;  1;1;  3;3;3;3;3].

Theorem view_complete_current_refuted :
  exists st, forallb fresh sys_orphan = true /\ reach current (init_state sys_orphan) st /\ some_view_missing st = true.
Proof.
  destruct (run current (init_state sys_orphan) sched_orphan) as [st|] eqn:E; [|vm_compute in E; discriminate].
  exists st. split; [reflexivity|]. split; [eapply run_reach; exact E|].
  vm_compute in E. inversion E; subst. vm_compute. reflexivity.
Qed.
Print Assumptions view_complete_current_refuted.

(* the repaired protocol (list object validated in the critical section that appends to it) on the same history *)
Example repaired_on_witness :
  match run correct (init_state sys_orphan) [0;0; 1;1;1;  0;0; 1;1;1;  0;0; 1;  2;2;2;  1;1;  3;3;3;3;3] with
  | Some st => some_view_missing st = false /\ map reader_hist (actors st) = [[]; []; []; [(true, [4;3;5], [5;3;4])]]
  | None => False
  end.
Proof. vm_compute. split; reflexivity. Qed.

(* ---------------------------------------------------------------------------------------------------------------
   ENGINE LEVEL, TODAY'S CODE (finding C04-reentrant-engine-rlock): EngineImpl.checkAndGetDBPTInfo (the partition lookup
   of WriteToRaft) holds EngineImpl.mu.RLock until it returns and its deferred unrefDBPT takes EngineImpl.mu.RLock
   again.  Go's RWMutex blocks new readers once a writer waits, so with Engine.Close (CreateDBPT, the last step of
   DeleteDatabase, ...) arriving in between both block for ever.  P_raft_current is the program of today's code. *)
Theorem engine_reentrant_rlock_refuted : exists st,
  erun ecode (einit [P_raft_current; P_close]) reentry_witness = Some st /\ deadlocked ecode st = true.
Proof. exact reentrant_rlock_deadlock. Qed.
Print Assumptions engine_reentrant_rlock_refuted.

(* it is exactly the static discipline that today's program violates; the repaired program passes it and finishes on
   the same interleaving *)
Example engine_repaired_on_witness :
  chk ts0 P_raft_current = false /\ chk ts0 P_raft = true /\
  let st := run_rounds ecode 4 (einit [P_raft; P_close]) [0; 1] in
  forallb edone (eacts st) = true /\ bad (esh st) = [].
Proof. vm_compute. repeat split. Qed.
