(* C04 engine level: refutations.  (1) TODAY'S CODE: checkAndGetDBPTInfo re-enters EngineImpl.mu.RLock; with a
   Close (or anything that calls EngineImpl.mu.Lock) arriving in between the machine reaches a deadlock.
   (2) sensitivity: without the time-out of DeleteDatabase's wait a pending writer of EngineImpl.mu deadlocks the
   drop; a DBPTInfo.ref that ignores the offloading flag lets an operation work on deleted data. *)
From Coq Require Import List Bool Arith PeanoNat Lia.
From OG Require Import C04.Model C04.Proofs C04.Eng C04.EngInv C04.EngProgress C04.EngSafe.
Import ListNotations.

Lemma ereach_trans : forall V a b c, ereach V a b -> ereach V b c -> ereach V a c.
Proof. intros V a b c H1 H2. induction H2; auto. eapply ereach_step; eauto. Qed.

Lemma run_until_blocked_reach : forall V n st i, ereach V st (run_until_blocked V n st i).
Proof.
  intros V n. induction n as [|n IH]; intros st i; simpl; [apply ereach_refl|].
  destruct (eexec V st i true) as [st'|] eqn:E; [|apply ereach_refl].
  eapply ereach_trans; [|apply IH]. eapply ereach_step; [apply ereach_refl|]. exists i, true. exact E.
Qed.

Lemma erun_reach : forall V sched st st', erun V st sched = Some st' -> ereach V st st'.
Proof.
  intros V sched. induction sched as [|[i c] t IH]; intros st st' H; simpl in H.
  - inversion H; subst. apply ereach_refl.
  - destruct (eexec V st i c) as [st1|] eqn:E; [|discriminate].
    eapply ereach_trans; [|apply IH; exact H]. eapply ereach_step; [apply ereach_refl|]. exists i, c. exact E.
Qed.

(* ---------------------------------------------------------------- (1) the code as it is today *)
(* the partition lookup of WriteToRaft does not pass the static discipline ... *)
Lemma raft_current_not_ordered : chk ts0 P_raft_current = false.
Proof. vm_compute. reflexivity. Qed.

(* ... and the machine deadlocks: the lookup holds EngineImpl.mu.RLock and has taken its reference, Engine.Close
   announces itself as writer of EngineImpl.mu, the lookup's deferred unrefDBPT asks for EngineImpl.mu.RLock again *)
Definition reentry_witness : list (nat * bool) := [(0, true); (0, true); (1, true)].

Theorem reentrant_rlock_deadlock : exists st,
  erun ecode (einit [P_raft_current; P_close]) reentry_witness = Some st /\ deadlocked ecode st = true.
Proof. eexists. split; [vm_compute; reflexivity|]. vm_compute. reflexivity. Qed.

(* the repaired lookup on the same schedule: everybody finishes *)
Lemma repaired_on_reentry_witness :
  chk ts0 P_raft = true /\
  let st := run_rounds ecode 4 (einit [P_raft; P_close]) [0; 1] in
  forallb edone (eacts st) = true /\ bad (esh st) = [].
Proof. vm_compute. repeat split. Qed.

(* ---------------------------------------------------------------- (2) sensitivity *)
Definition no_timeout : evariant := {| ev_timeout := false; ev_ref_ignores_offl := false |}.
Definition ref_ignores_offloading : evariant := {| ev_timeout := true; ev_ref_ignores_offl := true |}.

(* a query holds a reference; DeleteDatabase marks the partition and waits (holding EngineImpl.mu.RLock); Engine.Close
   announces itself on EngineImpl.mu; the query's DbPTUnref cannot take EngineImpl.mu.RLock any more.  Without the
   time-out nobody can move; with it (the code) DeleteDatabase gives up and everything drains. *)
Definition stall_state (V : evariant) : estate :=
  let st0 := einit [P_query; P_dropdb; P_close] in
  let st1 := run_until_blocked V 12 st0 0 in      (* the query up to (not including) its DbPTUnref *)
  let st2 := run_until_blocked V 200 st1 1 in     (* DeleteDatabase up to its wait *)
  let st3 := run_until_blocked V 200 st2 2 in     (* Close: announced, waiting for the readers *)
  run_until_blocked V 200 st3 0.

Theorem drop_wait_needs_timeout :
  ereach no_timeout (einit [P_query; P_dropdb; P_close]) (stall_state no_timeout) /\
  deadlocked no_timeout (stall_state no_timeout) = true /\
  (* the same state under the code's semantics: only the time-out is enabled, and taking it everything drains *)
  deadlocked ecode (stall_state ecode) = false /\
  match eexec ecode (stall_state ecode) 1 false with
  | Some st => forallb edone (eacts (run_rounds ecode 6 st [1; 2; 0])) = true /\ bad (esh (run_rounds ecode 6 st [1; 2; 0])) = []
  | None => False
  end.
Proof.
  split; [|vm_compute; repeat split].
  unfold stall_state. repeat (eapply ereach_trans; [|apply run_until_blocked_reach]). apply ereach_refl.
Qed.

(* DBPTInfo.ref ignoring `offloading`: DeleteDatabase sees the counter at 0 and goes on, a query takes a reference
   nevertheless, the directories are deleted under it *)
Theorem ref_ignoring_offloading_refuted : exists st,
  ereach ref_ignores_offloading (einit [P_dropdb; P_query]) st /\ bad (esh st) <> [].
Proof.
  exists (run_until_blocked ref_ignores_offloading 200
           (run_until_blocked ref_ignores_offloading 3 (run_until_blocked ref_ignores_offloading 9 (einit [P_dropdb; P_query]) 0) 1) 0).
  split.
  - repeat (eapply ereach_trans; [|apply run_until_blocked_reach]). apply ereach_refl.
  - vm_compute. discriminate.
Qed.

(* the programs of the code pass the discipline, so the theorems of EngProgress.v / EngSafe.v apply to any number of
   instances of them *)
Lemma code_progs_ordered : forallb (chk ts0) code_progs = true.
Proof. vm_compute. reflexivity. Qed.

Lemma instances_ordered : forall ps, (forall p, In p ps -> In p code_progs) -> forallb (chk ts0) ps = true.
Proof.
  intros ps H. apply forallb_forall. intros p Hp. pose proof code_progs_ordered as C. rewrite forallb_forall in C. auto.
Qed.
