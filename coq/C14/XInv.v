(* C14 - the catalogue invariant of the extended model: "every index group that holds the index of a shard ends no
   earlier than the shard's group and belongs to the same policy" (so the index expires no earlier than the shard),
   with the id-freshness facts it needs; it holds initially and is preserved by EVERY event when the index-group
   choice is the repaired one (whatever the pruning variant). *)
From Coq Require Import ZArith List Bool Lia ZifyBool.
From OG Require Import C14.Model C14.Proofs C14.XModel C14.XProofs.
Import ListNotations.
Open Scope Z_scope.

Record XInv (c : cat) : Prop := {
  xv_pos : 0 <= c_maxix c;
  xv_ixb : forall ig i, In ig (c_igs c) -> In i (ig_ixs ig) -> 1 <= ci_id i <= c_maxix c;
  xv_sxb : forall sg s, In sg (c_sgs c) -> In s (sg_shards sg) -> cs_ix s <= c_maxix c;
  xv_shb : forall sg s, In sg (c_sgs c) -> In s (sg_shards sg) -> cs_id s <= c_maxsh c;
  xv_shu : forall g1 g2 s1 s2, In g1 (c_sgs c) -> In g2 (c_sgs c) -> In s1 (sg_shards g1) -> In s2 (sg_shards g2) ->
           cs_id s1 = cs_id s2 -> sg_end g1 = sg_end g2 /\ sg_rp g1 = sg_rp g2 /\ cs_ix s1 = cs_ix s2 /\ cs_pt s1 = cs_pt s2;
  xv_igb : forall ig, In ig (c_igs c) -> ig_id ig <= c_maxig c;
  xv_sgb : forall sg, In sg (c_sgs c) -> sg_id sg <= c_maxsg c;
  xv_igu : forall g1 g2, In g1 (c_igs c) -> In g2 (c_igs c) -> ig_id g1 = ig_id g2 -> ig_end g1 = ig_end g2 /\ ig_rp g1 = ig_rp g2;
  xv_sgu : forall g1 g2, In g1 (c_sgs c) -> In g2 (c_sgs c) -> sg_id g1 = sg_id g2 -> sg_end g1 = sg_end g2 /\ sg_rp g1 = sg_rp g2;
  xv_ixu : forall g1 g2 i1 i2, In g1 (c_igs c) -> In g2 (c_igs c) -> In i1 (ig_ixs g1) -> In i2 (ig_ixs g2) ->
           ci_id i1 = ci_id i2 -> ig_end g1 = ig_end g2 /\ ig_rp g1 = ig_rp g2;
  xv_cover : forall sg s ig i, In sg (c_sgs c) -> In s (sg_shards sg) -> In ig (c_igs c) -> In i (ig_ixs ig) ->
           ci_id i = cs_ix s -> sg_end sg <= ig_end ig /\ ig_rp ig = sg_rp sg
}.

Lemma XInv_init ps n : XInv (cat0 ps n).
Proof. constructor; cbn; try tauto; lia. Qed.

(* ------------------------------------------------------------------ shrinking / re-flagging keeps the invariant *)
Definition sub_sgs (l' l : list sgroup) : Prop :=
  forall g', In g' l' -> exists g, In g l /\ sg_id g' = sg_id g /\ sg_end g' = sg_end g /\ sg_rp g' = sg_rp g /\
    forall s', In s' (sg_shards g') -> exists s, In s (sg_shards g) /\ cs_ix s' = cs_ix s /\ cs_id s' = cs_id s /\ cs_pt s' = cs_pt s.
Definition sub_igs (l' l : list igroup) : Prop :=
  forall g', In g' l' -> exists g, In g l /\ ig_id g' = ig_id g /\ ig_end g' = ig_end g /\ ig_rp g' = ig_rp g /\
    forall i', In i' (ig_ixs g') -> exists i, In i (ig_ixs g) /\ ci_id i' = ci_id i.

Lemma sub_sgs_refl l : sub_sgs l l.
Proof. intros g Hg. exists g. repeat split; auto. intros s Hs. eauto. Qed.
Lemma sub_igs_refl l : sub_igs l l.
Proof. intros g Hg. exists g. repeat split; auto. intros s Hs. eauto. Qed.

Lemma XInv_sub c c' :
  XInv c -> sub_sgs (c_sgs c') (c_sgs c) -> sub_igs (c_igs c') (c_igs c) ->
  c_maxix c <= c_maxix c' -> c_maxig c <= c_maxig c' -> c_maxsg c <= c_maxsg c' -> c_maxsh c <= c_maxsh c' -> XInv c'.
Proof.
  intros I Ss Si Mx Mi Ms Mh. constructor.
  - pose proof (xv_pos _ I). lia.
  - intros ig i Hg Hi. destruct (Si _ Hg) as (g & Hg0 & _ & _ & _ & Hix). destruct (Hix _ Hi) as (i0 & Hi0 & E).
    pose proof (xv_ixb _ I _ _ Hg0 Hi0). lia.
  - intros sg s Hg Hs. destruct (Ss _ Hg) as (g & Hg0 & _ & _ & _ & Hsh). destruct (Hsh _ Hs) as (s0 & Hs0 & E & _).
    pose proof (xv_sxb _ I _ _ Hg0 Hs0). lia.
  - intros sg s Hg Hs. destruct (Ss _ Hg) as (g & Hg0 & _ & _ & _ & Hsh). destruct (Hsh _ Hs) as (s0 & Hs0 & _ & E & _).
    pose proof (xv_shb _ I _ _ Hg0 Hs0). lia.
  - intros g1 g2 s1 s2 H1 H2 Hs1 Hs2 E.
    destruct (Ss _ H1) as (a & Ha & _ & Eae & Ear & Hsa). destruct (Ss _ H2) as (b & Hb & _ & Ebe & Ebr & Hsb).
    destruct (Hsa _ Hs1) as (t1 & Ht1 & X1 & Y1 & Z1). destruct (Hsb _ Hs2) as (t2 & Ht2 & X2 & Y2 & Z2).
    destruct (xv_shu _ I a b t1 t2 Ha Hb Ht1 Ht2) as (P & Q & R & T); [congruence|]. repeat split; congruence.
  - intros ig Hg. destruct (Si _ Hg) as (g & Hg0 & E & _). pose proof (xv_igb _ I _ Hg0). lia.
  - intros sg Hg. destruct (Ss _ Hg) as (g & Hg0 & E & _). pose proof (xv_sgb _ I _ Hg0). lia.
  - intros g1 g2 H1 H2 E. destruct (Si _ H1) as (a & Ha & Ea & Eae & Ear & _). destruct (Si _ H2) as (b & Hb & Eb & Ebe & Ebr & _).
    destruct (xv_igu _ I a b Ha Hb) as (X & Y); [congruence|]. split; congruence.
  - intros g1 g2 H1 H2 E. destruct (Ss _ H1) as (a & Ha & Ea & Eae & Ear & _). destruct (Ss _ H2) as (b & Hb & Eb & Ebe & Ebr & _).
    destruct (xv_sgu _ I a b Ha Hb) as (X & Y); [congruence|]. split; congruence.
  - intros g1 g2 i1 i2 H1 H2 Hi1 Hi2 E.
    destruct (Si _ H1) as (a & Ha & _ & Eae & Ear & Hxa). destruct (Si _ H2) as (b & Hb & _ & Ebe & Ebr & Hxb).
    destruct (Hxa _ Hi1) as (j1 & Hj1 & E1). destruct (Hxb _ Hi2) as (j2 & Hj2 & E2).
    destruct (xv_ixu _ I a b j1 j2 Ha Hb Hj1 Hj2) as (X & Y); [congruence|]. split; congruence.
  - intros sg s ig i Hsg Hs Hig Hi E.
    destruct (Ss _ Hsg) as (a & Ha & _ & Eae & Ear & Hsa). destruct (Si _ Hig) as (b & Hb & _ & Ebe & Ebr & Hxb).
    destruct (Hsa _ Hs) as (s0 & Hs0 & E1 & _). destruct (Hxb _ Hi) as (i0 & Hi0 & E2).
    destruct (xv_cover _ I a s0 b i0 Ha Hs0 Hb Hi0) as (X & Y); [congruence|]. split; [lia|congruence].
Qed.

Lemma Forall2_cs_ix rep id l s' : In s' (mark_cs rep id l) -> exists s, In s l /\ cs_ix s' = cs_ix s.
Proof.
  intros H. destruct (Forall2_in_r _ _ _ _ (mark_cs_same rep id l) H) as (x & Hx & (_ & _ & E) & _). eauto.
Qed.
Lemma Forall2_ci_id rep id l i' : In i' (mark_ci rep id l) -> exists i, In i l /\ ci_id i' = ci_id i.
Proof.
  intros H. destruct (Forall2_in_r _ _ _ _ (mark_ci_same rep id l) H) as (x & Hx & (E & _) & _). eauto.
Qed.

Lemma sub_prune_sg rep c id : sub_sgs (c_sgs (prune_sg rep c id)) (c_sgs c).
Proof.
  intros g'. unfold prune_sg; cbn. rewrite filter_In, in_map_iff. intros ((g & <- & Hg) & _).
  exists g. destruct (prune_mark_sg_head rep id g) as (A & B & _ & D & _). repeat split; auto.
  intros s' Hs'. destruct (Forall2_in_r _ _ _ _ (prune_mark_sg_shards rep id g) Hs') as (x & Hx & (E0 & E1 & E) & _). eauto 6.
Qed.
Lemma sub_prune_ig rep c id : sub_igs (c_igs (prune_ig rep c id)) (c_igs c).
Proof.
  intros g'. unfold prune_ig; cbn. rewrite filter_In, in_map_iff. intros ((g & <- & Hg) & _).
  exists g. destruct (prune_mark_ig_head rep id g) as (A & B & _ & D & _). repeat split; auto.
  intros s' Hs'. destruct (Forall2_in_r _ _ _ _ (prune_mark_ig_ixs rep id g) Hs') as (x & Hx & (E & _) & _). eauto.
Qed.
Lemma sub_del_sg c rp gid : sub_sgs (c_sgs (del_sg c rp gid)) (c_sgs c).
Proof.
  intros g'. unfold del_sg; cbn. rewrite in_map_iff. intros (g & <- & Hg).
  exists g. destruct (_ && _); cbn; repeat split; auto; intros s Hs; eauto.
Qed.
Lemma sub_del_ig c rp gid : sub_igs (c_igs (del_ig c rp gid)) (c_igs c).
Proof.
  intros g'. unfold del_ig; cbn. rewrite in_map_iff. intros (g & <- & Hg).
  exists g. destruct (_ && _); cbn; repeat split; auto; intros s Hs; eauto.
Qed.

Lemma XInv_prune_sg rep c id : XInv c -> XInv (prune_sg rep c id).
Proof. intros I. eapply XInv_sub; [exact I|apply sub_prune_sg|cbn; apply sub_igs_refl|cbn; lia..]. Qed.
Lemma XInv_prune_ig rep c id : XInv c -> XInv (prune_ig rep c id).
Proof. intros I. eapply XInv_sub; [exact I|cbn; apply sub_sgs_refl|apply sub_prune_ig|cbn; lia..]. Qed.
Lemma XInv_del_sg c rp gid : XInv c -> XInv (del_sg c rp gid).
Proof. intros I. eapply XInv_sub; [exact I|apply sub_del_sg|cbn; apply sub_igs_refl|cbn; lia..]. Qed.
Lemma XInv_del_ig c rp gid : XInv c -> XInv (del_ig c rp gid).
Proof. intros I. eapply XInv_sub; [exact I|cbn; apply sub_sgs_refl|apply sub_del_ig|cbn; lia..]. Qed.

Lemma fold_inv {A B} (P : A -> Prop) (f : A -> B -> A) : (forall a b, P a -> P (f a b)) -> forall l a, P a -> P (fold_left f l a).
Proof. intros H; induction l; cbn; auto. Qed.

(* ------------------------------------------------------------------ fresh ids *)
Lemma fresh_ixs_spec n : forall from m i, In i (fresh_ixs n from m) -> m < ci_id i <= m + Z.of_nat n.
Proof.
  induction n as [|k IH]; cbn; [tauto|]. intros from m i [<-|H]; cbn; [lia|]. specialize (IH _ _ _ H). lia.
Qed.

Lemma nth_ix_spec g k : nth_ix g k = 0 \/ exists i, In i (ig_ixs g) /\ ci_id i = nth_ix g k.
Proof.
  unfold nth_ix. destruct (Nat.lt_ge_cases k (length (ig_ixs g))) as [L|G].
  - right. eexists. split; [apply nth_In; exact L|reflexivity].
  - left. rewrite nth_overflow; auto.
Qed.

Lemma fresh_shards_ix n : forall k m g s, In s (fresh_shards n k m g) -> exists j, cs_ix s = nth_ix g j.
Proof.
  induction n as [|n IH]; cbn; [tauto|]. intros k m g s [<-|H]; cbn; [eauto|]. eapply IH; eauto.
Qed.

Lemma fresh_shards_id n : forall k m g s, In s (fresh_shards n k m g) -> m < cs_id s <= m + Z.of_nat n.
Proof.
  induction n as [|n IH]; cbn [fresh_shards In]; [tauto|]. intros k m g s [<-|H]; [cbn; lia|]. specialize (IH _ _ _ _ H). lia.
Qed.
Lemma fresh_shards_inj n : forall k m g s1 s2, In s1 (fresh_shards n k m g) -> In s2 (fresh_shards n k m g) -> cs_id s1 = cs_id s2 -> s1 = s2.
Proof.
  induction n as [|n IH]; cbn [fresh_shards In]; [tauto|]. intros k m g s1 s2 [<-|H1] [<-|H2] E; auto.
  - apply fresh_shards_id in H2. cbn in E. lia.
  - apply fresh_shards_id in H1. cbn in E. lia.
  - eapply IH; eauto.
Qed.

(* ------------------------------------------------------------------ the repaired index-group choice *)
Definition same_but_igs (c c1 : cat) : Prop :=
  c_sgs c1 = c_sgs c /\ c_pols c1 = c_pols c /\ c_ptnum c1 = c_ptnum c /\ c_maxsg c1 = c_maxsg c /\ c_maxsh c1 = c_maxsh c.

Lemma XInv_create_ig c rp igd ts minEnd :
  XInv c -> let '(c1, ig) := create_ig true c rp igd ts minEnd in
  XInv c1 /\ In ig (c_igs c1) /\ minEnd <= ig_end ig /\ ig_rp ig = rp /\ same_but_igs c c1.
Proof.
  intros I. unfold create_ig. cbv zeta.
  set (g := {| ig_id := c_maxig c + 1; ig_rp := rp; ig_start := trunc ts igd;
               ig_end := Z.max (trunc ts igd + igd) minEnd; ig_del := false; ig_ixs := fresh_ixs (c_ptnum c) 0 (c_maxix c) |}).
  split; [|split; [cbn; apply in_or_app; right; cbn; auto|split; [cbn; lia|split; [reflexivity|unfold same_but_igs; cbn; auto]]]].
  pose proof (xv_pos _ I) as P0.
  assert (Fr : forall i, In i (ig_ixs g) -> c_maxix c < ci_id i <= c_maxix c + Z.of_nat (c_ptnum c)).
  { intros i Hi. apply (fresh_ixs_spec _ _ _ _ Hi). }
  assert (Old : forall ig i, In ig (c_igs c) -> In i (ig_ixs ig) -> 1 <= ci_id i <= c_maxix c) by (apply (xv_ixb _ I)).
  constructor; cbn.
  - lia.
  - intros ig i Hg Hi. apply in_app_or in Hg. destruct Hg as [Hg|[<-|[]]].
    + specialize (Old _ _ Hg Hi). lia.
    + specialize (Fr _ Hi). lia.
  - intros sg s Hg Hs. pose proof (xv_sxb _ I _ _ Hg Hs). lia.
  - apply (xv_shb _ I).
  - apply (xv_shu _ I).
  - intros ig Hg. apply in_app_or in Hg. destruct Hg as [Hg|[<-|[]]]; [pose proof (xv_igb _ I _ Hg); lia|cbn; lia].
  - apply (xv_sgb _ I).
  - intros g1 g2 H1 H2 E. apply in_app_or in H1. apply in_app_or in H2.
    destruct H1 as [H1|[<-|[]]], H2 as [H2|[<-|[]]]; auto.
    + apply (xv_igu _ I); auto.
    + pose proof (xv_igb _ I _ H1). cbn in E. lia.
    + pose proof (xv_igb _ I _ H2). cbn in E. lia.
  - apply (xv_sgu _ I).
  - intros g1 g2 i1 i2 H1 H2 Hi1 Hi2 E. apply in_app_or in H1. apply in_app_or in H2.
    destruct H1 as [H1|[<-|[]]], H2 as [H2|[<-|[]]]; auto.
    + apply (xv_ixu _ I g1 g2 i1 i2); auto.
    + specialize (Old _ _ H1 Hi1). specialize (Fr _ Hi2). lia.
    + specialize (Old _ _ H2 Hi2). specialize (Fr _ Hi1). lia.
  - intros sg s ig i Hsg Hs Hig Hi E. apply in_app_or in Hig. destruct Hig as [Hig|[<-|[]]].
    + apply (xv_cover _ I sg s ig i); auto.
    + specialize (Fr _ Hi). pose proof (xv_sxb _ I _ _ Hsg Hs). lia.
Qed.

Lemma XInv_ig_if_needed c rp igd ts en :
  XInv c -> let '(c1, ig) := ig_if_needed true c rp igd ts en in
  XInv c1 /\ In ig (c_igs c1) /\ en <= ig_end ig /\ ig_rp ig = rp /\ same_but_igs c c1.
Proof.
  intros I. unfold ig_if_needed.
  destruct (pick_ig true c rp ts en) as [g|] eqn:P.
  - destruct (_ <=? _)%nat; [|apply XInv_create_ig; auto].
    unfold pick_ig in P. apply find_last_in in P. destruct P as (Hin & Hp).
    apply in_rp_igs in Hin. destruct Hin as (Hin & Hrp).
    rewrite andb_true_iff in Hp. destruct Hp as (_ & Hp).
    split; [auto|split; [auto|split; [lia|split; [auto|unfold same_but_igs; auto]]]].
  - apply XInv_create_ig; auto.
Qed.

(* a shard group created with indexes taken from an index group that ends no earlier: the invariant is kept *)
Lemma cover_new_shard c ig s e rp :
  XInv c -> In ig (c_igs c) -> e <= ig_end ig -> ig_rp ig = rp -> (exists j, cs_ix s = nth_ix ig j) ->
  (cs_ix s <= c_maxix c) /\
  forall ig' i', In ig' (c_igs c) -> In i' (ig_ixs ig') -> ci_id i' = cs_ix s -> e <= ig_end ig' /\ ig_rp ig' = rp.
Proof.
  intros I Hig He Hrp (j & Ej). destruct (nth_ix_spec ig j) as [Z0|(i & Hi & Ei)].
  - split; [pose proof (xv_pos _ I); lia|]. intros ig' i' H1 H2 E. pose proof (xv_ixb _ I _ _ H1 H2). lia.
  - split; [pose proof (xv_ixb _ I _ _ Hig Hi); lia|]. intros ig' i' H1 H2 E.
    destruct (xv_ixu _ I ig' ig i' i H1 Hig H2 Hi) as (X & Y); [congruence|]. split; [lia|congruence].
Qed.

Lemma XInv_create_sg clip c rp ts : XInv c -> XInv (create_sg true clip c rp ts).
Proof.
  intros I. unfold create_sg. destruct (find_pol _ _) as [p|]; [|auto]. destruct (existsb _ _); [auto|].
  cbv zeta.
  set (st := if clip then clip_start c rp ts (trunc ts (xp_sgd p)) else trunc ts (xp_sgd p)).
  set (en := if clip then clip_end c rp ts (trunc ts (xp_sgd p) + xp_sgd p) else trunc ts (xp_sgd p) + xp_sgd p).
  pose proof (XInv_ig_if_needed c rp (xp_igd p) ts en I) as H.
  destruct (ig_if_needed true c rp (xp_igd p) ts en) as (c1, ig).
  destruct H as (I1 & Hig & Hen & Hrp & (Esg & _)).
  set (g := {| sg_id := c_maxsg c1 + 1; sg_rp := rp; sg_start := st; sg_end := en;
               sg_del := false; sg_shards := fresh_shards (c_ptnum c1) 0 (c_maxsh c1) ig |}).
  assert (New : forall s, In s (sg_shards g) -> (cs_ix s <= c_maxix c1) /\
            forall ig' i', In ig' (c_igs c1) -> In i' (ig_ixs ig') -> ci_id i' = cs_ix s -> sg_end g <= ig_end ig' /\ ig_rp ig' = rp).
  { intros s Hs. apply (cover_new_shard c1 ig s (sg_end g) rp I1 Hig Hen Hrp). eapply fresh_shards_ix; exact Hs. }
  constructor; cbn.
  - apply (xv_pos _ I1).
  - apply (xv_ixb _ I1).
  - intros sg s Hg Hs. apply in_app_or in Hg. destruct Hg as [Hg|[<-|[]]]; [apply (xv_sxb _ I1 _ _ Hg Hs)|apply (New _ Hs)].
  - intros sg s Hg Hs. apply in_app_or in Hg. destruct Hg as [Hg|[<-|[]]].
    + pose proof (xv_shb _ I1 _ _ Hg Hs). lia.
    + apply fresh_shards_id in Hs. lia.
  - intros g1 g2 s1 s2 H1 H2 Hs1 Hs2 E. apply in_app_or in H1. apply in_app_or in H2.
    destruct H1 as [H1|[<-|[]]], H2 as [H2|[<-|[]]].
    + apply (xv_shu _ I1 g1 g2 s1 s2); auto.
    + pose proof (xv_shb _ I1 _ _ H1 Hs1). apply fresh_shards_id in Hs2. lia.
    + pose proof (xv_shb _ I1 _ _ H2 Hs2). apply fresh_shards_id in Hs1. lia.
    + rewrite (fresh_shards_inj _ _ _ _ _ _ Hs1 Hs2 E). auto.
  - apply (xv_igb _ I1).
  - intros sg Hg. apply in_app_or in Hg. destruct Hg as [Hg|[<-|[]]]; [pose proof (xv_sgb _ I1 _ Hg); lia|cbn; lia].
  - apply (xv_igu _ I1).
  - intros g1 g2 H1 H2 E. apply in_app_or in H1. apply in_app_or in H2.
    destruct H1 as [H1|[<-|[]]], H2 as [H2|[<-|[]]]; auto.
    + apply (xv_sgu _ I1); auto.
    + pose proof (xv_sgb _ I1 _ H1). cbn in E. lia.
    + pose proof (xv_sgb _ I1 _ H2). cbn in E. lia.
  - apply (xv_ixu _ I1).
  - intros sg s ig' i' Hsg Hs Hig' Hi' E. apply in_app_or in Hsg. destruct Hsg as [Hsg|[<-|[]]].
    + apply (xv_cover _ I1 sg s ig' i'); auto.
    + destruct (New _ Hs) as (_ & N). apply (N ig' i'); auto.
Qed.

Lemma XInv_set_pols c ps : XInv c -> XInv (set_pols c ps).
Proof. intros I. destruct I. constructor; cbn; auto. Qed.

Lemma XInv_alter c rp d sgd igd c' : XInv c -> alter_cat c rp d sgd igd = Some c' -> XInv c'.
Proof.
  unfold alter_cat. intros I. destruct (find_pol _ _); [|discriminate]. destruct (alter_pol _ _ _ _); [|discriminate].
  intros H; inversion H; subst. apply XInv_set_pols; auto.
Qed.

(* ------------------------------------------------------------------ ExpandGroups *)
Lemma XInv_grow_ig c gid : XInv c -> XInv (grow_ig c gid).
Proof.
  intros I. unfold grow_ig. destruct (find _ _) as [g0|] eqn:F; [|auto].
  set (add := fresh_ixs (c_ptnum c - length (ig_ixs g0)) (Z.of_nat (length (ig_ixs g0))) (c_maxix c)).
  set (n := Z.of_nat (c_ptnum c - length (ig_ixs g0))).
  set (f := fun g : igroup => if ig_id g =? gid then
        {| ig_id := ig_id g; ig_rp := ig_rp g; ig_start := ig_start g; ig_end := ig_end g; ig_del := ig_del g; ig_ixs := ig_ixs g ++ add |} else g).
  assert (Fr : forall i, In i add -> c_maxix c < ci_id i <= c_maxix c + n) by (intros i Hi; apply (fresh_ixs_spec _ _ _ _ Hi)).
  assert (Hd : forall g, ig_id (f g) = ig_id g /\ ig_end (f g) = ig_end g /\ ig_rp (f g) = ig_rp g).
  { intros g. unfold f. destruct (ig_id g =? gid); cbn; auto. }
  assert (Hx : forall g i, In i (ig_ixs (f g)) -> In i (ig_ixs g) \/ (ig_id g = gid /\ In i add)).
  { intros g i. unfold f. destruct (ig_id g =? gid) eqn:E; cbn; [|auto]. intros H. apply in_app_or in H. destruct H; [auto|right; split; [lia|auto]]. }
  pose proof (xv_pos _ I) as P0.
  constructor; cbn -[Z.of_nat].
  - unfold n. lia.
  - intros ig i Hg Hi. apply in_map_iff in Hg. destruct Hg as (g & <- & Hg). destruct (Hx _ _ Hi) as [H|(_ & H)].
    + pose proof (xv_ixb _ I _ _ Hg H). unfold n. lia.
    + specialize (Fr _ H). fold n. lia.
  - intros sg s Hg Hs. pose proof (xv_sxb _ I _ _ Hg Hs). unfold n. lia.
  - apply (xv_shb _ I).
  - apply (xv_shu _ I).
  - intros ig Hg. apply in_map_iff in Hg. destruct Hg as (g & <- & Hg). destruct (Hd g) as (-> & _). apply (xv_igb _ I _ Hg).
  - apply (xv_sgb _ I).
  - intros g1 g2 H1 H2 E. apply in_map_iff in H1. apply in_map_iff in H2. destruct H1 as (a & <- & Ha), H2 as (b & <- & Hb).
    destruct (Hd a) as (Ia & -> & ->), (Hd b) as (Ib & -> & ->). apply (xv_igu _ I a b); auto. congruence.
  - apply (xv_sgu _ I).
  - intros g1 g2 i1 i2 H1 H2 Hi1 Hi2 E. apply in_map_iff in H1. apply in_map_iff in H2. destruct H1 as (a & <- & Ha), H2 as (b & <- & Hb).
    destruct (Hd a) as (Ia & -> & ->), (Hd b) as (Ib & -> & ->).
    destruct (Hx _ _ Hi1) as [X1|(G1 & X1)], (Hx _ _ Hi2) as [X2|(G2 & X2)].
    + apply (xv_ixu _ I a b i1 i2); auto.
    + pose proof (xv_ixb _ I _ _ Ha X1). specialize (Fr _ X2). lia.
    + pose proof (xv_ixb _ I _ _ Hb X2). specialize (Fr _ X1). lia.
    + apply (xv_igu _ I a b); auto. congruence.
  - intros sg s ig i Hsg Hs Hig Hi E. apply in_map_iff in Hig. destruct Hig as (b & <- & Hb).
    destruct (Hd b) as (_ & -> & ->). destruct (Hx _ _ Hi) as [X|(_ & X)].
    + apply (xv_cover _ I sg s b i); auto.
    + specialize (Fr _ X). pose proof (xv_sxb _ I _ _ Hsg Hs). lia.
Qed.

Lemma XInv_grow_sg_one c gid k : XInv c -> XInv (grow_sg_one true c gid k).
Proof.
  intros I. unfold grow_sg_one. destruct (find _ _) as [g0|] eqn:F; [|auto].
  apply find_some in F. destruct F as (Hg0 & Eg0). destruct (find_pol _ _) as [p|]; [|auto].
  pose proof (XInv_ig_if_needed c (sg_rp g0) (xp_igd p) (sg_start g0) (sg_end g0) I) as H.
  destruct (ig_if_needed true c (sg_rp g0) (xp_igd p) (sg_start g0) (sg_end g0)) as (c1, ig).
  destruct H as (I1 & Hig & Hen & Hrp & (Esg & _)).
  set (s0 := {| cs_id := c_maxsh c1 + 1; cs_pt := Z.of_nat k; cs_ix := nth_ix ig k; cs_md := false |}).
  set (f := fun g : sgroup => if sg_id g =? gid then
        {| sg_id := sg_id g; sg_rp := sg_rp g; sg_start := sg_start g; sg_end := sg_end g; sg_del := sg_del g; sg_shards := sg_shards g ++ [s0] |} else g).
  assert (Hd : forall g, sg_id (f g) = sg_id g /\ sg_end (f g) = sg_end g /\ sg_rp (f g) = sg_rp g).
  { intros g. unfold f. destruct (sg_id g =? gid); cbn; auto. }
  assert (Hx : forall g s, In s (sg_shards (f g)) -> In s (sg_shards g) \/ (sg_id g = gid /\ s = s0)).
  { intros g s. unfold f. destruct (sg_id g =? gid) eqn:E; cbn; [|auto]. intros H. apply in_app_or in H.
    destruct H as [H|[<-|[]]]; [auto|right; split; [lia|auto]]. }
  rewrite <- Esg in Hg0.
  destruct (cover_new_shard c1 ig s0 (sg_end g0) (sg_rp g0) I1 Hig Hen Hrp (ex_intro _ k eq_refl)) as (Nb & Nc).
  constructor; cbn.
  - apply (xv_pos _ I1).
  - apply (xv_ixb _ I1).
  - intros sg s Hg Hs. apply in_map_iff in Hg. destruct Hg as (g & <- & Hg). destruct (Hx _ _ Hs) as [X|(_ & ->)];
      [apply (xv_sxb _ I1 _ _ Hg X)|exact Nb].
  - intros sg s Hg Hs. apply in_map_iff in Hg. destruct Hg as (g & <- & Hg). destruct (Hx _ _ Hs) as [X|(_ & ->)].
    + pose proof (xv_shb _ I1 _ _ Hg X). lia.
    + cbn. lia.
  - intros g1 g2 s1 s2 H1 H2 Hs1 Hs2 E. apply in_map_iff in H1. apply in_map_iff in H2. destruct H1 as (a & <- & Ha), H2 as (b & <- & Hb).
    destruct (Hd a) as (_ & -> & ->), (Hd b) as (_ & -> & ->).
    destruct (Hx _ _ Hs1) as [X1|(G1 & ->)], (Hx _ _ Hs2) as [X2|(G2 & ->)].
    + apply (xv_shu _ I1 a b s1 s2); auto.
    + pose proof (xv_shb _ I1 _ _ Ha X1). cbn in E. lia.
    + pose proof (xv_shb _ I1 _ _ Hb X2). cbn in E. lia.
    + destruct (xv_sgu _ I1 a b Ha Hb) as (P & Q); [congruence|]. auto.
  - apply (xv_igb _ I1).
  - intros sg Hg. apply in_map_iff in Hg. destruct Hg as (g & <- & Hg). destruct (Hd g) as (-> & _). apply (xv_sgb _ I1 _ Hg).
  - apply (xv_igu _ I1).
  - intros g1 g2 H1 H2 E. apply in_map_iff in H1. apply in_map_iff in H2. destruct H1 as (a & <- & Ha), H2 as (b & <- & Hb).
    destruct (Hd a) as (Ia & -> & ->), (Hd b) as (Ib & -> & ->). apply (xv_sgu _ I1 a b); auto. congruence.
  - apply (xv_ixu _ I1).
  - intros sg s ig' i' Hsg Hs Hig' Hi' E. apply in_map_iff in Hsg. destruct Hsg as (a & <- & Ha).
    destruct (Hd a) as (_ & -> & ->). destruct (Hx _ _ Hs) as [X|(G & ->)].
    + apply (xv_cover _ I1 a s ig' i'); auto.
    + destruct (xv_sgu _ I1 a g0 Ha Hg0) as (Ee & Er); [lia|]. rewrite Ee, Er. apply (Nc ig' i'); auto.
Qed.

Lemma XInv_grow_sg c gid : XInv c -> XInv (grow_sg true c gid).
Proof.
  intros I. unfold grow_sg. destruct (find _ _); [|auto].
  apply fold_inv; [|auto]. intros a b Ha. apply XInv_grow_sg_one; auto.
Qed.

Lemma XInv_expand c : XInv c -> XInv (expand true c).
Proof.
  intros I. unfold expand. apply fold_inv.
  - intros a rp Ha. unfold expand_pol. apply fold_inv; [intros; apply XInv_grow_sg; auto|].
    apply fold_inv; [intros; apply XInv_grow_ig; auto|auto].
  - destruct I. constructor; cbn; auto.
Qed.

(* ------------------------------------------------------------------ the retention pass and the other node events *)
Lemma x_cat_materialise w gid l : x_cat (materialise w gid l) = x_cat w.
Proof.
  unfold materialise. destruct (find _ _); [|auto]. destruct (find_pol _ _); [|auto].
  destruct (fold_left _ _ _). reflexivity.
Qed.

Lemma XInv_xtick rep w pt now now2 : XInv (x_cat w) -> XInv (x_cat (fst (xtick rep w pt now now2))).
Proof.
  intros I. unfold xtick. cbn.
  apply fold_inv; [intros a v Ha; apply XInv_prune_ig, XInv_del_ig; auto|].
  apply fold_inv; [intros a v Ha; apply XInv_prune_sg, XInv_del_sg; auto|auto].
Qed.

Lemma XInv_xstep repP clip w e : XInv (x_cat w) -> XInv (x_cat (fst (xstep true repP clip w e))).
Proof.
  intros I. destruct e; cbn [xstep fst].
  - cbn. apply XInv_create_sg; auto.
  - rewrite x_cat_materialise. auto.
  - destruct (alter_cat _ _ _ _ _) eqn:E; cbn; [eapply XInv_alter; eauto|auto].
  - cbn. apply XInv_expand; auto.
  - apply XInv_xtick; auto.
  - auto.
  - cbn. auto.
Qed.

Lemma XInv_xrun repP clip es : forall w, XInv (x_cat w) -> XInv (x_cat (fst (xrun true repP clip w es))).
Proof.
  induction es as [|e r IH]; cbn; [auto|]. intros w I.
  pose proof (XInv_xstep repP clip w e I) as H. destruct (xstep true repP clip w e) as (w1, l1). cbn in H.
  specialize (IH w1 H). destruct (xrun true repP clip w1 r) as (w2, l2). cbn in *. auto.
Qed.

(* ------------------------------------------------------------------ what the invariant buys *)
Lemma cover_expiry c sg s ig i d now :
  XInv c -> In sg (c_sgs c) -> In s (sg_shards sg) -> In ig (c_igs c) -> In i (ig_ixs ig) -> ci_id i = cs_ix s ->
  expired d (ig_end ig) now = true -> expired d (sg_end sg) now = true.
Proof.
  intros I H1 H2 H3 H4 E. destruct (xv_cover _ I sg s ig i H1 H2 H3 H4 E) as (L & _).
  rewrite !expired_spec. intros (Hd & Hlt). split; [auto|lia].
Qed.

(* in terms of what the stores are told: if the index duration info of partition pt makes an index expired at `now`,
   then every shard (of any partition) whose index this is has a shard duration info that makes it expired at `now` *)
Lemma infos_expiry c pt fi sg s now :
  XInv c -> In fi (index_infos c pt) -> In sg (c_sgs c) -> In s (sg_shards sg) -> cs_ix s = si_id fi ->
  expired (si_d fi) (si_end fi) now = true ->
  expired (pol_d c (sg_rp sg)) (sg_end sg) now = true.
Proof.
  intros I Hfi Hsg Hs E. unfold index_infos in Hfi. apply in_flat_map in Hfi. destruct Hfi as (ig & Hig & Hfi).
  apply in_map_iff in Hfi. destruct Hfi as (i & <- & Hi). apply filter_In in Hi. destruct Hi as (Hi & _). cbn in *.
  destruct (xv_cover _ I sg s ig i Hsg Hs Hig Hi) as (L & R); [congruence|].
  rewrite R. rewrite !expired_spec. intros (Hd & Hlt). split; [auto|lia].
Qed.
