(* C14 - a proposed engine-side hardening (props/C14/harden1.patch): ExpiredIndexes does not report a loaded index as
   long as a loaded shard of the partition that holds this index builder is itself not expired. Modelled as a filter on
   the index victims of a pass; proved REDUNDANT (it never filters anything) when the catalogue satisfies XInv and the
   node agrees with it - i.e. harmless under the repaired catalogue, a second line of defence otherwise. *)
From Coq Require Import ZArith List Bool Lia ZifyBool.
From OG Require Import C14.Model C14.Proofs C14.XModel C14.XProofs C14.XInv C14.XNode.
Import ListNotations.
Open Scope Z_scope.

(* the shards of the node as the pass sees them after the duration refresh *)
Definition pass_shards (w : xworld) (pt : Z) : list xshard := map (refresh_shard (shard_infos (x_cat w) pt) pt) (x_shards w).

(* no loaded shard of the partition that uses index X is unexpired at the reading of the index decisions *)
Definition guard_ok (shs : list xshard) (pt now2 X : Z) : bool :=
  forallb (fun s => negb ((xs_pt s =? pt) && xs_loaded s && (xs_ix s =? X)) || expired (xs_dur s) (xs_end s) now2) shs.

Lemma guard_redundant rep w pt now now2 :
  XInv (x_cat w) -> NodeOK w pt ->
  forall X, In X (l_ixs (snd (xtick rep w pt now now2))) -> guard_ok (pass_shards w pt) pt now2 X = true.
Proof.
  intros I N X HX. unfold guard_ok. apply forallb_forall. intros s1 Hs1.
  unfold pass_shards in Hs1. apply in_map_iff in Hs1. destruct Hs1 as (s & <- & Hs).
  set (sinf := shard_infos (x_cat w) pt).
  destruct (refresh_shard_fields sinf pt s) as (F1 & F2 & F3 & F4 & F5). rewrite F2, F4, F5, F3.
  destruct ((xs_pt s =? pt) && xs_loaded s && (xs_ix s =? X)) eqn:U; [|reflexivity]. cbn [negb orb].
  assert (Hpt : xs_pt s = pt) by lia. assert (Hl : xs_loaded s = true) by (destruct (xs_loaded s); [auto|lia]). assert (Hx : xs_ix s = X) by lia.
  destruct (xtick_index_victims rep w pt now now2 I N X HX s Hs Hpt Hx) as (sg & cs & Hsg & Hcs & Ecs & Eend & Hexp & _).
  destruct (nk_sh _ _ N s Hs Hpt) as (sg0 & cs0 & Hsg0 & Hcs0 & Ecs0 & Ept0 & _).
  assert (Hf : exists f, In f sinf /\ si_id f = xs_id s).
  { eexists. split; [apply in_shard_infos; exists sg0, cs0; repeat split; eauto|]. cbn. auto. }
  destruct (find_info_some _ _ Hf) as (f' & Ff & Hf' & Ef').
  apply in_shard_infos in Hf'. destruct Hf' as (sg2 & cs2 & Hsg2 & Hcs2 & _ & ->). cbn in Ef'.
  destruct (xv_shu _ I sg2 sg cs2 cs Hsg2 Hsg Hcs2 Hcs) as (V1 & V2 & _); [congruence|].
  unfold refresh_shard. assert ((xs_pt s =? pt) && xs_loaded s = true) as -> by (rewrite Hl; lia). fold sinf. rewrite Ff. cbn.
  rewrite V2, <- Eend. exact Hexp.
Qed.
