(* C14 - the index part of "the node agrees with the catalogue", as an invariant over all traces: an index held by a
   store node ends no earlier than EVERY catalogue index group that still lists its id, and belongs to the same policy
   (IndexAgree). "No earlier" rather than "equal": a store learns the span of a new index through
   getIndexGroupTimeRange, an id-RANGE lookup scanned from the latest-ending group, which after ExpandGroups may hit a
   later-ending group than the one that really holds the id - the safe direction. *)
From Coq Require Import ZArith List Bool Lia ZifyBool.
From OG Require Import C14.Model C14.Proofs C14.XModel C14.XProofs C14.XInv C14.XAgree.
Import ListNotations.
Open Scope Z_scope.

(* ------------------------------------------------------------------ ascending index ids inside a group *)
Definition AscIx (c : cat) : Prop := forall ig, In ig (c_igs c) -> asc (map ci_id (ig_ixs ig)).

Lemma asc_app l1 l2 : asc l1 -> asc l2 -> (forall x y, In x l1 -> In y l2 -> x < y) -> asc (l1 ++ l2).
Proof.
  induction l1 as [|a r IH]; [cbn; auto|]. intros (H1 & H2) A2 L. change ((a :: r) ++ l2) with (a :: (r ++ l2)). split.
  - intros y Hy. apply in_app_or in Hy. destruct Hy as [Hy|Hy]; [apply H1; exact Hy|apply L; [left; reflexivity|exact Hy]].
  - apply IH; [exact H2|exact A2|]. intros x y Hx Hy. apply L; [right; exact Hx|exact Hy].
Qed.
Lemma fresh_ixs_asc n : forall from m, asc (map ci_id (fresh_ixs n from m)).
Proof.
  induction n as [|n IH]; cbn; [auto|]. intros from m. split; [|apply IH].
  intros y Hy. apply in_map_iff in Hy. destruct Hy as (i & <- & Hi). apply fresh_ixs_spec in Hi. lia.
Qed.
Lemma ci_first_le l x : asc (map ci_id l) -> In x l -> ci_first l <= ci_id x.
Proof.
  destruct l as [|z r]; cbn; [tauto|]. intros (Hlt & _) [->|Hx]; [lia|].
  assert (ci_id z < ci_id x) by (apply Hlt; apply in_map; auto). lia.
Qed.
Lemma ci_le_last l : asc (map ci_id l) -> forall x, In x l -> ci_id x <= ci_last l.
Proof.
  unfold ci_last. induction l as [|z r IH]; [cbn; tauto|].
  intros Ha x Hx. destruct r as [|z2 r2].
  - cbn in *. destruct Hx as [->|[]]. lia.
  - change (last (z :: z2 :: r2) _) with (last (z2 :: r2) {| ci_id := 0; ci_pt := 0; ci_md := false |}).
    cbn [map asc] in Ha. destruct Ha as (Hlt & Ha). destruct Hx as [->|Hx].
    + assert (ci_id x < ci_id z2) by (apply Hlt; cbn; auto).
      specialize (IH Ha z2 (or_introl eq_refl)). lia.
    + apply IH; auto.
Qed.

Lemma mark_ci_ids rep id l : map ci_id (mark_ci rep id l) = map ci_id l.
Proof.
  induction l as [|x r IH]; cbn; [auto|]. destruct (id <=? ci_id x).
  - destruct (rep && negb (ci_id x =? id)); reflexivity.
  - cbn. now rewrite IH.
Qed.

Lemma AscIx_create_ig rep c rp igd ts e : AscIx c -> AscIx (fst (create_ig rep c rp igd ts e)).
Proof.
  intros A ig H. cbn in H. apply in_app_or in H. destruct H as [H|[<-|[]]]; [auto|cbn; apply fresh_ixs_asc].
Qed.
Lemma AscIx_ig_if_needed rep c rp igd ts e : AscIx c -> AscIx (fst (ig_if_needed rep c rp igd ts e)).
Proof.
  intros A. unfold ig_if_needed. destruct (pick_ig _ _ _ _ _); [destruct (_ <=? _)%nat|]; cbn [fst]; auto; apply AscIx_create_ig; auto.
Qed.
Lemma c_igs_create_sg rep clip c rp ts :
  c_igs (create_sg rep clip c rp ts) = c_igs c \/
  exists igd e, c_igs (create_sg rep clip c rp ts) = c_igs (fst (ig_if_needed rep c rp igd ts e)).
Proof.
  unfold create_sg. destruct (find_pol _ _) as [p|]; [|auto]. destruct (existsb _ _); [auto|]. cbv zeta.
  right. eexists _, _. destruct (ig_if_needed _ _ _ _ _ _) eqn:E. cbn. rewrite E. reflexivity.
Qed.
Lemma AscIx_create_sg rep clip c rp ts : AscIx c -> AscIx (create_sg rep clip c rp ts).
Proof.
  intros A. destruct (c_igs_create_sg rep clip c rp ts) as [E|(igd & e & E)]; intros ig H; rewrite E in H; [auto|].
  apply (AscIx_ig_if_needed rep c rp igd ts e A); auto.
Qed.
Lemma AscIx_grow_ig c gid : XInv c -> AscIx c -> AscIx (grow_ig c gid).
Proof.
  intros I A. unfold grow_ig. destruct (find _ _) as [g0|]; [|auto]. intros ig H. cbn in H.
  apply in_map_iff in H. destruct H as (g & <- & Hg). destruct (ig_id g =? gid); [|auto]. cbn. rewrite map_app.
  apply asc_app; [auto|apply fresh_ixs_asc|].
  intros x y Hx Hy. apply in_map_iff in Hx. apply in_map_iff in Hy. destruct Hx as (i & <- & Hi), Hy as (j & <- & Hj).
  pose proof (xv_ixb _ I _ _ Hg Hi). apply fresh_ixs_spec in Hj. lia.
Qed.
Lemma c_igs_grow_sg_one rep c gid k :
  c_igs (grow_sg_one rep c gid k) = c_igs c \/
  exists rp igd ts e, c_igs (grow_sg_one rep c gid k) = c_igs (fst (ig_if_needed rep c rp igd ts e)).
Proof.
  unfold grow_sg_one. destruct (find _ _) as [g0|]; [|auto]. destruct (find_pol _ _) as [p|]; [|auto].
  right. eexists _, _, _, _. destruct (ig_if_needed _ _ _ _ _ _) eqn:E. cbn. rewrite E. reflexivity.
Qed.
Lemma AscIx_grow_sg_one rep c gid k : AscIx c -> AscIx (grow_sg_one rep c gid k).
Proof.
  intros A. destruct (c_igs_grow_sg_one rep c gid k) as [E|(rp & igd & ts & e & E)]; intros ig H; rewrite E in H; [auto|].
  apply (AscIx_ig_if_needed rep c rp igd ts e A); auto.
Qed.

Definition AI (c : cat) : Prop := XInv c /\ AscIx c.

Lemma AI_fold {B} (f : cat -> B -> cat) : (forall c b, AI c -> AI (f c b)) -> forall l c, AI c -> AI (fold_left f l c).
Proof. intros H; induction l; cbn; auto. Qed.

Lemma AI_expand c : AI c -> AI (expand true c).
Proof.
  intros (I & A). unfold expand. apply AI_fold.
  - intros a rp Ha. unfold expand_pol. apply AI_fold.
    + intros b gid (Ib & Ab). unfold grow_sg. destruct (find _ _); [|split; auto]. apply AI_fold; [|split; auto].
      intros d k (Id & Ad). split; [apply XInv_grow_sg_one; auto|apply AscIx_grow_sg_one; auto].
    + apply AI_fold; [|auto]. intros b gid (Ib & Ab). split; [apply XInv_grow_ig; auto|apply AscIx_grow_ig; auto].
  - split; [destruct I; constructor; cbn; auto|exact A].
Qed.

Lemma AscIx_sub c c' : AscIx c -> (forall g', In g' (c_igs c') -> exists g, In g (c_igs c) /\ map ci_id (ig_ixs g') = map ci_id (ig_ixs g)) -> AscIx c'.
Proof. intros A S g' H. destruct (S _ H) as (g & Hg & E). rewrite E. auto. Qed.

Lemma AscIx_xtick rep w pt now now2 : AscIx (x_cat w) -> AscIx (x_cat (fst (xtick rep w pt now now2))).
Proof.
  intros A. unfold xtick. cbn.
  assert (F : forall (l : list victim) c, AscIx c -> AscIx (fold_left (fun c' v => prune_ig rep (del_ig c' (v_rp v) (v_gid v)) (v_id v)) l c)).
  { induction l as [|v r IH]; cbn; [auto|]. intros c Ac. apply IH. eapply AscIx_sub; [exact Ac|].
    intros g'. unfold prune_ig, del_ig; cbn. rewrite filter_In, in_map_iff. intros ((g1 & <- & H1) & _).
    apply in_map_iff in H1. destruct H1 as (g & <- & Hg). exists g. split; [auto|].
    unfold prune_mark_ig. destruct (_ && _); cbn.
    - rewrite mark_ci_ids. destruct (_ && _); reflexivity.
    - destruct (_ && _); reflexivity. }
  apply F.
  assert (G : forall (l : list victim) c, AscIx c -> AscIx (fold_left (fun c' v => prune_sg rep (del_sg c' (v_rp v) (v_gid v)) (v_id v)) l c)).
  { induction l as [|v r IH]; cbn; [auto|]. intros c Ac. apply IH. intros ig H. cbn in H. auto. }
  apply G. exact A.
Qed.

Lemma AI_xstep repP clip w e : AI (x_cat w) -> AI (x_cat (fst (xstep true repP clip w e))).
Proof.
  intros (I & A). split; [apply XInv_xstep; auto|].
  destruct e; cbn [xstep fst].
  - cbn. apply AscIx_create_sg; auto.
  - rewrite x_cat_materialise. auto.
  - destruct (alter_cat _ _ _ _ _) eqn:E; cbn; [|auto]. unfold alter_cat in E. destruct (find_pol _ _); [|discriminate].
    destruct (alter_pol _ _ _ _); [|discriminate]. inversion E; subst. exact A.
  - cbn. apply AI_expand. split; auto.
  - apply AscIx_xtick; auto.
  - auto.
  - cbn. auto.
Qed.

(* ------------------------------------------------------------------ the id-range lookup returns a group that ends no earlier *)
Fixpoint sorted_end (l : list igroup) : Prop :=
  match l with [] => True | x :: r => (forall y, In y r -> ig_end x <= ig_end y) /\ sorted_end r end.

Lemma ins_ig_sorted x l : sorted_end l -> sorted_end (ins_ig x l).
Proof.
  induction l as [|y r IH]; [cbn; intros _; split; [intros ? []|exact I]|]. cbn. intros (Hy & Hr).
  destruct (span_less (ig_end x) (ig_start x) (ig_end y) (ig_start y)) eqn:E; cbn.
  - split; [|auto]. unfold span_less in E. intros z [<-|Hz]; [lia|]. specialize (Hy z Hz). lia.
  - split; [|auto]. unfold span_less in E. intros z Hz. apply in_ins_ig in Hz. destruct Hz as [->|Hz]; [lia|auto].
Qed.
Lemma rp_igs_sorted c rp : sorted_end (rp_igs c rp).
Proof.
  unfold rp_igs. generalize (filter (fun g => ig_rp g =? rp) (c_igs c)).
  assert (G : forall l acc, sorted_end acc -> sorted_end (fold_left (fun a g => ins_ig g a) l acc)).
  { induction l as [|x r IH]; cbn; [auto|]. intros acc H. apply IH. apply ins_ig_sorted; auto. }
  intros l. apply G. cbn. auto.
Qed.
Lemma find_last_none {A} (p : A -> bool) l : find_last p l = None -> forall x, In x l -> p x = false.
Proof.
  induction l as [|y r IH]; cbn; [tauto|]. destruct (find_last p r); [discriminate|]. destruct (p y) eqn:E; [discriminate|].
  intros _ x [<-|H]; auto.
Qed.
Lemma find_last_sorted p l : sorted_end l -> forall x, In x l -> p x = true ->
  exists y, find_last p l = Some y /\ ig_end x <= ig_end y.
Proof.
  induction l as [|z r IH]; cbn; [tauto|]. intros (Hz & Hr) x [->|Hx] Px.
  - destruct (find_last p r) as [y|] eqn:F.
    + exists y. split; [auto|]. apply find_last_in in F. destruct F. auto.
    + rewrite Px. exists x. split; [auto|lia].
  - destruct (IH Hr x Hx Px) as (y & -> & L). exists y. auto.
Qed.

Lemma ix_group_of_covers c rp ig ci :
  AscIx c -> In ig (c_igs c) -> ig_rp ig = rp -> In ci (ig_ixs ig) ->
  exists g', ix_group_of c rp (ci_id ci) = Some g' /\ ig_end ig <= ig_end g'.
Proof.
  intros A Hig Hrp Hci. unfold ix_group_of. apply find_last_sorted; [apply rp_igs_sorted|apply in_rp_igs; auto|].
  pose proof (ci_first_le _ _ (A ig Hig) Hci). pose proof (ci_le_last _ (A ig Hig) _ Hci). lia.
Qed.

(* ------------------------------------------------------------------ catalogues do not re-issue or re-label index ids *)
Definition BackI (c c' : cat) : Prop :=
  c_maxix c <= c_maxix c' /\
  forall ig' ci', In ig' (c_igs c') -> In ci' (ig_ixs ig') -> ci_id ci' <= c_maxix c ->
    exists ig ci, In ig (c_igs c) /\ In ci (ig_ixs ig) /\ ci_id ci = ci_id ci' /\ ig_end ig = ig_end ig' /\ ig_rp ig = ig_rp ig'.

Lemma BackI_same c c' : c_igs c' = c_igs c -> c_maxix c' = c_maxix c -> BackI c c'.
Proof. intros E M. split; [lia|]. rewrite E. intros ig ci H1 H2 _. exists ig, ci. auto. Qed.
Lemma BackI_refl c : BackI c c.
Proof. apply BackI_same; auto. Qed.
Lemma BackI_trans a b c : BackI a b -> BackI b c -> BackI a c.
Proof.
  intros (M1 & B1) (M2 & B2). split; [lia|]. intros g3 i3 H1 H2 Hb.
  destruct (B2 g3 i3 H1 H2) as (g2 & i2 & G1 & G2 & E1 & E2 & E3); [lia|].
  destruct (B1 g2 i2 G1 G2) as (g1 & i1 & F1 & F2 & D1 & D2 & D3); [lia|].
  exists g1, i1. repeat split; auto; congruence.
Qed.
Lemma BackI_fold {B} (f : cat -> B -> cat) : (forall c b, BackI c (f c b)) -> forall l c, BackI c (fold_left f l c).
Proof.
  intros H; induction l as [|x r IH]; cbn; intros c; [apply BackI_refl|]. eapply BackI_trans; [apply H|apply IH].
Qed.

Lemma BackI_create_ig rep c rp igd ts e : BackI c (fst (create_ig rep c rp igd ts e)).
Proof.
  split; cbn; [lia|]. intros ig ci H1 H2 Hb. apply in_app_or in H1. destruct H1 as [H1|[<-|[]]].
  - exists ig, ci. auto.
  - cbn in H2. apply fresh_ixs_spec in H2. lia.
Qed.
Lemma BackI_ig_if_needed rep c rp igd ts e : BackI c (fst (ig_if_needed rep c rp igd ts e)).
Proof.
  unfold ig_if_needed. destruct (pick_ig _ _ _ _ _); [destruct (_ <=? _)%nat|]; cbn [fst];
    try apply BackI_refl; apply BackI_create_ig.
Qed.
Lemma maxix_create_sg rep clip c rp ts :
  (c_igs (create_sg rep clip c rp ts) = c_igs c /\ c_maxix (create_sg rep clip c rp ts) = c_maxix c) \/
  exists igd e, c_igs (create_sg rep clip c rp ts) = c_igs (fst (ig_if_needed rep c rp igd ts e)) /\
                c_maxix (create_sg rep clip c rp ts) = c_maxix (fst (ig_if_needed rep c rp igd ts e)).
Proof.
  unfold create_sg. destruct (find_pol _ _) as [p|]; [|auto]. destruct (existsb _ _); [auto|]. cbv zeta.
  right. eexists _, _. destruct (ig_if_needed _ _ _ _ _ _) eqn:E. cbn. rewrite E. auto.
Qed.
Lemma BackI_create_sg rep clip c rp ts : BackI c (create_sg rep clip c rp ts).
Proof.
  destruct (maxix_create_sg rep clip c rp ts) as [(E & M)|(igd & e & E & M)]; [apply BackI_same; auto|].
  eapply BackI_trans; [apply (BackI_ig_if_needed rep c rp igd ts e)|apply BackI_same; auto].
Qed.
Lemma BackI_grow_ig c gid : BackI c (grow_ig c gid).
Proof.
  unfold grow_ig. destruct (find _ _) as [g0|]; [|apply BackI_refl]. split; cbn -[Z.of_nat]; [lia|].
  intros ig ci H1 H2 Hb. apply in_map_iff in H1. destruct H1 as (g & <- & Hg). destruct (ig_id g =? gid); cbn in *.
  - apply in_app_or in H2. destruct H2 as [H2|H2]; [exists g, ci; auto|]. apply fresh_ixs_spec in H2. lia.
  - exists g, ci. auto.
Qed.
Lemma maxix_grow_sg_one rep c gid k :
  (c_igs (grow_sg_one rep c gid k) = c_igs c /\ c_maxix (grow_sg_one rep c gid k) = c_maxix c) \/
  exists rp igd ts e, c_igs (grow_sg_one rep c gid k) = c_igs (fst (ig_if_needed rep c rp igd ts e)) /\
                      c_maxix (grow_sg_one rep c gid k) = c_maxix (fst (ig_if_needed rep c rp igd ts e)).
Proof.
  unfold grow_sg_one. destruct (find _ _) as [g0|]; [|auto]. destruct (find_pol _ _) as [p|]; [|auto].
  right. eexists _, _, _, _. destruct (ig_if_needed _ _ _ _ _ _) eqn:E. cbn. rewrite E. auto.
Qed.
Lemma BackI_grow_sg_one rep c gid k : BackI c (grow_sg_one rep c gid k).
Proof.
  destruct (maxix_grow_sg_one rep c gid k) as [(E & M)|(rp & igd & ts & e & E & M)]; [apply BackI_same; auto|].
  eapply BackI_trans; [apply (BackI_ig_if_needed rep c rp igd ts e)|apply BackI_same; auto].
Qed.
Lemma BackI_expand rep c : BackI c (expand rep c).
Proof.
  unfold expand.
  set (c0 := {| c_pols := c_pols c; c_sgs := c_sgs c; c_igs := c_igs c; c_ptnum := S (c_ptnum c); c_maxsg := c_maxsg c;
                c_maxsh := c_maxsh c; c_maxig := c_maxig c; c_maxix := c_maxix c |}).
  apply (BackI_trans c c0); [apply BackI_same; reflexivity|]. apply BackI_fold.
  intros a rp. unfold expand_pol.
  apply (BackI_trans a (fold_left grow_ig (map ig_id (rp_igs a rp)) a)); [apply BackI_fold; intros; apply BackI_grow_ig|].
  apply BackI_fold. intros b gid. unfold grow_sg. destruct (find _ _); [|apply BackI_refl]. apply BackI_fold. intros. apply BackI_grow_sg_one.
Qed.
Lemma BackI_of_sub c c' : sub_igs (c_igs c') (c_igs c) -> c_maxix c' = c_maxix c -> BackI c c'.
Proof.
  intros S M. split; [lia|]. intros ig' ci' H1 H2 _. destruct (S _ H1) as (g & Hg & _ & Ee & Er & Hs).
  destruct (Hs _ H2) as (i & Hi & Ei). exists g, i. repeat split; auto.
Qed.
Lemma BackI_xtick rep w pt now now2 : BackI (x_cat w) (x_cat (fst (xtick rep w pt now now2))).
Proof.
  unfold xtick. cbn.
  match goal with |- BackI ?a (fold_left ?f ?l (fold_left ?g ?m ?a)) => apply (BackI_trans a (fold_left g m a)) end;
    apply BackI_fold; intros c v.
  - apply (BackI_trans c (del_sg c (v_rp v) (v_gid v))); apply BackI_same; reflexivity.
  - apply (BackI_trans c (del_ig c (v_rp v) (v_gid v))); [apply BackI_of_sub; [apply sub_del_ig|reflexivity]|].
    apply BackI_of_sub; [apply sub_prune_ig|reflexivity].
Qed.

(* ------------------------------------------------------------------ the node side *)
Definition NodeIxAgree (w : xworld) : Prop :=
  forall i, In i (x_ixs w) -> xi_id i <= c_maxix (x_cat w) /\
    forall ig ci, In ig (c_igs (x_cat w)) -> In ci (ig_ixs ig) -> ci_id ci = xi_id i -> ig_end ig <= xi_end i /\ ig_rp ig = xi_rp i.

Definition same_index (i i' : xindex) : Prop := xi_id i' = xi_id i /\ xi_end i' = xi_end i /\ xi_rp i' = xi_rp i.

Lemma NodeIxAgree_step w c' shs' ixs' :
  NodeIxAgree w -> BackI (x_cat w) c' ->
  (forall i', In i' ixs' -> exists i, In i (x_ixs w) /\ same_index i i') ->
  NodeIxAgree {| x_cat := c'; x_shards := shs'; x_ixs := ixs' |}.
Proof.
  intros A (M & B) Hs i' Hi'. cbn in *. destruct (Hs _ Hi') as (i & Hin & E1 & E2 & E3).
  destruct (A i Hin) as (Bd & Ag). split; [lia|]. intros ig' ci' H1 H2 E.
  destruct (B ig' ci' H1 H2) as (ig & ci & G1 & G2 & D1 & D2 & D3); [lia|].
  destruct (Ag ig ci G1 G2) as (P1 & P2); [congruence|]. split; [lia|congruence].
Qed.

Lemma NodeIxAgree_cat w c' : NodeIxAgree w -> BackI (x_cat w) c' -> NodeIxAgree (with_cat w c').
Proof.
  intros A B. unfold with_cat. eapply NodeIxAgree_step; [exact A|exact B|]. intros i Hi. exists i. unfold same_index. auto.
Qed.

Lemma NodeIxAgree_xtick rep w pt now now2 : NodeIxAgree w -> NodeIxAgree (fst (xtick rep w pt now now2)).
Proof.
  intros A. pose proof (BackI_xtick rep w pt now now2) as B. unfold xtick in *. cbn in *.
  eapply NodeIxAgree_step; [exact A|exact B|]. intros i' Hi'. apply filter_In in Hi'. destruct Hi' as (Hi' & _).
  apply in_map_iff in Hi'. destruct Hi' as (i1 & <- & Hi1). apply in_map_iff in Hi1. destruct Hi1 as (i0 & <- & Hi0).
  exists i0. split; [auto|]. unfold same_index, refresh_ix, push_ix.
  destruct (xi_pt i0 =? pt) eqn:P; cbn.
  - destruct (find_last _ _); cbn; rewrite ?P; destruct (find_info _ _); cbn; auto.
  - rewrite P. auto.
Qed.

Lemma NodeIxAgree_restart w pt : NodeIxAgree w -> NodeIxAgree (xrestart w pt).
Proof.
  intros A. unfold xrestart. eapply NodeIxAgree_step; [exact A|apply BackI_refl|]. intros i' Hi'.
  apply in_map_iff in Hi'. destruct Hi' as (i & <- & Hi). exists i. split; [auto|]. unfold same_index. destruct (_ =? _); cbn; auto.
Qed.

(* the stores create an index with the span the catalogue's id-range lookup returns *)
Lemma mat_one_ixs c g d l acc s :
  snd (mat_one c g d l acc s) = snd acc \/
  exists ge gi, snd (mat_one c g d l acc s) = snd acc ++ [{| xi_id := cs_ix s; xi_pt := cs_pt s; xi_igid := gi; xi_rp := sg_rp g; xi_end := ge; xi_dur := d |}] /\
            (forall g', ix_group_of c (sg_rp g) (cs_ix s) = Some g' -> ge = ig_end g').
Proof.
  unfold mat_one. destruct acc as (shs, ixs). destruct (existsb _ _); cbn; [auto|]. destruct (has_ix _ _ _); cbn; [auto|].
  right. destruct (ix_group_of c (sg_rp g) (cs_ix s)) as [g'|]; eexists _, _; (split; [reflexivity|]); intros g2 E; inversion E; auto.
Qed.

Lemma NodeIxAgree_materialise w gid l : AI (x_cat w) -> NodeIxAgree w -> NodeIxAgree (materialise w gid l).
Proof.
  intros (I & As) A. unfold materialise. destruct (find _ _) as [g|] eqn:F; [|auto]. apply find_some in F. destruct F as (Hg & _).
  destruct (find_pol _ _) as [p|]; [|auto].
  set (P := fun x : xindex => xi_id x <= c_maxix (x_cat w) /\
    forall ig ci, In ig (c_igs (x_cat w)) -> In ci (ig_ixs ig) -> ci_id ci = xi_id x -> ig_end ig <= xi_end x /\ ig_rp ig = xi_rp x).
  assert (G : forall ss acc, (forall s, In s ss -> In s (sg_shards g)) -> (forall x, In x (snd acc) -> P x) ->
              forall x, In x (snd (fold_left (mat_one (x_cat w) g (xp_d p) l) ss acc)) -> P x).
  { induction ss as [|s r IH]; cbn; intros acc Hss Hacc; [auto|]. apply IH; [auto|].
    intros x Hx. destruct (mat_one_ixs (x_cat w) g (xp_d p) l acc s) as [E|(ge & gi & E & Hge)]; rewrite E in Hx; [auto|].
    apply in_app_or in Hx. destruct Hx as [Hx|[<-|[]]]; [auto|].
    assert (Hs : In s (sg_shards g)) by auto. unfold P; cbn. split; [apply (xv_sxb _ I g s Hg Hs)|].
    intros ig ci H1 H2 E3.
    destruct (xv_cover _ I g s ig ci Hg Hs H1 H2 E3) as (_ & Rp).
    destruct (ix_group_of_covers (x_cat w) (sg_rp g) ig ci As H1 Rp H2) as (g' & Eg & Le).
    rewrite E3 in Eg. rewrite (Hge g' Eg). split; [exact Le|exact Rp]. }
  specialize (G (sg_shards g) (x_shards w, x_ixs w) (fun s H => H) A).
  destruct (fold_left _ _ _) as (shs, ixs). cbn in G. intros x Hx. cbn in *. apply G. exact Hx.
Qed.

Lemma NodeIxAgree_xstep repP clip w e : AI (x_cat w) -> NodeIxAgree w -> NodeIxAgree (fst (xstep true repP clip w e)).
Proof.
  intros AIw A. destruct e; cbn [xstep fst].
  - apply NodeIxAgree_cat; [auto|apply BackI_create_sg].
  - apply NodeIxAgree_materialise; auto.
  - destruct (alter_cat _ _ _ _ _) as [c'|] eqn:E; cbn; [|auto]. apply NodeIxAgree_cat; [auto|].
    unfold alter_cat in E. destruct (find_pol _ _); [|discriminate]. destruct (alter_pol _ _ _ _); [|discriminate].
    inversion E; subst. apply BackI_same; reflexivity.
  - apply NodeIxAgree_cat; [auto|apply BackI_expand].
  - apply NodeIxAgree_xtick; auto.
  - auto.
  - apply NodeIxAgree_restart; auto.
Qed.

Lemma NodeIxAgree_xrun repP clip es : forall w, AI (x_cat w) -> NodeIxAgree w -> NodeIxAgree (fst (xrun true repP clip w es)).
Proof.
  induction es as [|e r IH]; cbn; [auto|]. intros w I A.
  pose proof (AI_xstep repP clip w e I) as I1. pose proof (NodeIxAgree_xstep repP clip w e I A) as A1.
  destruct (xstep true repP clip w e) as (w1, l1). cbn in I1, A1.
  specialize (IH w1 I1 A1). destruct (xrun true repP clip w1 r) as (w2, l2). cbn in *. auto.
Qed.

Lemma AI_init ps n : AI (cat0 ps n).
Proof. split; [apply XInv_init|intros ig []]. Qed.
Lemma NodeIxAgree_init ps n : NodeIxAgree (xworld0 ps n).
Proof. intros i []. Qed.
