(* C14 - extended model: the catalogue with SHARD GROUPS and INDEX GROUPS as the meta service builds it, the
   shard -> index reference, and one store node per partition running the retention pass over shards AND indexes.

   Mirrors (lib/util/lifted/influx/meta/data.go unless said otherwise):
     CreateShardGroup = ShardGroupByTimestamp ; createIndexGroupIfNeeded/CreateIndexGroup ; newShardGroup ; createShards
     UpdateRetentionPolicy + RetentionPolicyInfo.CheckSpecValid (retentionpolicy.go, indexinfo.go normalisedIndexDuration)
     ExpandGroups, DeleteShardGroup(MarkDelete), DeleteIndexGroup, PruneGroups = pruneShardGroups / pruneIndexGroups
     DurationInfos / IndexDurationInfos (what a store is told), RetentionPolicyInfo.getIndexGroupTimeRange
     engine.UpdateShardDurationInfo / UpdateIndexDurationInfo / ExpiredShards / ExpiredIndexes, IndexBuilder.Expired,
     services/retention Service.handle = updateDurationInfo ; HandleLocalStorage.
   Every function that has a defect in today's tree takes a flag  rep : bool  (false = as the code is today,
   true = minimal repair); the correspondence check decides which one the working tree implements.

   Instants/durations are unbounded Z nanoseconds. Go's time.Truncate rounds down to a multiple of d counted from the
   zero Time (year 1), not from the Unix epoch: EPOCH below is that offset. *)
From Coq Require Import ZArith List Bool.
From OG Require Import C14.Model.
Import ListNotations.
Open Scope Z_scope.

Definition EPOCH : Z := 62135596800 * 1000000000.
Definition HOUR : Z := 3600 * 1000000000.
Definition trunc (t d : Z) : Z := if d <=? 0 then t else t - (t + EPOCH) mod d.

Record cshard := { cs_id : Z; cs_pt : Z; cs_ix : Z; cs_md : bool }.
Record sgroup := { sg_id : Z; sg_rp : Z; sg_start : Z; sg_end : Z; sg_del : bool; sg_shards : list cshard }.
Record cindex := { ci_id : Z; ci_pt : Z; ci_md : bool }.
Record igroup := { ig_id : Z; ig_rp : Z; ig_start : Z; ig_end : Z; ig_del : bool; ig_ixs : list cindex }.
Record xpol := { xp_id : Z; xp_d : Z; xp_sgd : Z; xp_igd : Z }.
Record cat := { c_pols : list xpol; c_sgs : list sgroup; c_igs : list igroup; c_ptnum : nat;
                c_maxsg : Z; c_maxsh : Z; c_maxig : Z; c_maxix : Z }.

Fixpoint find_pol (ps : list xpol) (rp : Z) : option xpol :=
  match ps with
  | [] => None
  | p :: r => if xp_id p =? rp then Some p else find_pol r rp
  end.

(* last element satisfying p (the code scans its slices from the end) *)
Fixpoint find_last {A} (p : A -> bool) (l : list A) : option A :=
  match l with
  | [] => None
  | x :: r => match find_last p r with Some y => Some y | None => if p x then Some x else None end
  end.

(* sort.Sort with Less = (end, then start) *)
Definition span_less (e1 s1 e2 s2 : Z) : bool := (e1 <? e2) || ((e1 =? e2) && (s1 <? s2)).
Fixpoint ins_ig (x : igroup) (l : list igroup) : list igroup :=
  match l with
  | [] => [x]
  | y :: r => if span_less (ig_end x) (ig_start x) (ig_end y) (ig_start y) then x :: l else y :: ins_ig x r
  end.
Fixpoint ins_sg (x : sgroup) (l : list sgroup) : list sgroup :=
  match l with
  | [] => [x]
  | y :: r => if span_less (sg_end x) (sg_start x) (sg_end y) (sg_start y) then x :: l else y :: ins_sg x r
  end.
(* the policy's slices, in the order the code keeps them: each new group is appended and the slice re-sorted; equal
   spans (a deleted group and its successor) stay in creation order, as Go's insertion sort (slices of <= 12) leaves them *)
Definition rp_igs (c : cat) (rp : Z) : list igroup := fold_left (fun acc g => ins_ig g acc) (filter (fun g => ig_rp g =? rp) (c_igs c)) [].
Definition rp_sgs (c : cat) (rp : Z) : list sgroup := fold_left (fun acc g => ins_sg g acc) (filter (fun g => sg_rp g =? rp) (c_sgs c)) [].

Definition sg_contains (g : sgroup) (t : Z) : bool := (sg_start g <=? t) && (t <? sg_end g).
Definition ig_contains (g : igroup) (t : Z) : bool := (ig_start g <=? t) && (t <? ig_end g).

(* n fresh consecutive ids after m, for partitions from, from+1, .. *)
Fixpoint fresh_ixs (n : nat) (from : Z) (m : Z) : list cindex :=
  match n with
  | O => []
  | S k => {| ci_id := m + 1; ci_pt := from; ci_md := false |} :: fresh_ixs k (from + 1) (m + 1)
  end.

(* CreateIndexGroup; the repaired variant never lets the new group end before minEnd *)
Definition create_ig (rep : bool) (c : cat) (rp igd ts minEnd : Z) : cat * igroup :=
  let st := trunc ts igd in
  let en := if rep then Z.max (st + igd) minEnd else st + igd in
  let g := {| ig_id := c_maxig c + 1; ig_rp := rp; ig_start := st; ig_end := en; ig_del := false;
              ig_ixs := fresh_ixs (c_ptnum c) 0 (c_maxix c) |} in
  ({| c_pols := c_pols c; c_sgs := c_sgs c; c_igs := c_igs c ++ [g]; c_ptnum := c_ptnum c;
      c_maxsg := c_maxsg c; c_maxsh := c_maxsh c; c_maxig := c_maxig c + 1;
      c_maxix := c_maxix c + Z.of_nat (c_ptnum c) |}, g).

(* createIndexGroupIfNeeded(rpi, timestamp): the LAST index group containing the timestamp, if it has an index for
   every partition; else a new one. Today nothing relates the chosen group's end to the shard group's end (sgEnd);
   the repair only accepts a group that ends no earlier than the shard group it will serve. *)
Definition pick_ig (rep : bool) (c : cat) (rp ts sgEnd : Z) : option igroup :=
  find_last (fun g => ig_contains g ts && (if rep then sgEnd <=? ig_end g else true)) (rp_igs c rp).

Definition ig_if_needed (rep : bool) (c : cat) (rp igd ts sgEnd : Z) : cat * igroup :=
  match pick_ig rep c rp ts sgEnd with
  | Some g => if (c_ptnum c <=? length (ig_ixs g))%nat then (c, g) else create_ig rep c rp igd ts sgEnd
  | None => create_ig rep c rp igd ts sgEnd
  end.

Definition nth_ix (g : igroup) (i : nat) : Z := ci_id (nth i (ig_ixs g) {| ci_id := 0; ci_pt := 0; ci_md := false |}).

Fixpoint fresh_shards (n : nat) (i : nat) (m : Z) (g : igroup) : list cshard :=
  match n with
  | O => []
  | S k => {| cs_id := m + 1; cs_pt := Z.of_nat i; cs_ix := nth_ix g i; cs_md := false |} :: fresh_shards k (S i) (m + 1) g
  end.

(* newShardGroup with the clipping repair (props/C16/fix3.patch): the cell of the CURRENT shard duration may reach into
   live neighbouring groups created under an earlier duration; the new group is cut back to the latest live end <= ts
   and the earliest live start > ts (running max / min over the policy's groups, order-independent). *)
Definition clip_start (c : cat) (rp ts st : Z) : Z :=
  fold_left (fun a g => if negb (sg_del g) && (sg_end g <=? ts) && (a <? sg_end g) then sg_end g else a) (rp_sgs c rp) st.
Definition clip_end (c : cat) (rp ts en : Z) : Z :=
  fold_left (fun a g => if negb (sg_del g) && (ts <? sg_start g) && (sg_start g <? a) then sg_start g else a) (rp_sgs c rp) en.

(* CreateShardGroup(db, policy, timestamp); clip = false: the cell as it is (code before fix3), true: clipped *)
Definition create_sg (rep clip : bool) (c : cat) (rp ts : Z) : cat :=
  match find_pol (c_pols c) rp with
  | None => c
  | Some p =>
    if existsb (fun g => sg_contains g ts && negb (sg_del g)) (rp_sgs c rp) then c else
    let st0 := trunc ts (xp_sgd p) in
    let st := if clip then clip_start c rp ts st0 else st0 in
    let en := if clip then clip_end c rp ts (st0 + xp_sgd p) else st0 + xp_sgd p in
    let '(c1, ig) := ig_if_needed rep c rp (xp_igd p) ts en in
    let g := {| sg_id := c_maxsg c1 + 1; sg_rp := rp; sg_start := st; sg_end := en; sg_del := false;
                sg_shards := fresh_shards (c_ptnum c1) 0 (c_maxsh c1) ig |} in
    {| c_pols := c_pols c1; c_sgs := c_sgs c1 ++ [g]; c_igs := c_igs c1; c_ptnum := c_ptnum c1;
       c_maxsg := c_maxsg c1 + 1; c_maxsh := c_maxsh c1 + Z.of_nat (c_ptnum c1); c_maxig := c_maxig c1; c_maxix := c_maxix c1 |}
  end.

(* ---- ALTER RETENTION POLICY: UpdateRetentionPolicy + CheckSpecValid (hot/warm/index-cold/merge durations 0) ---- *)
Definition default_sgd (d : Z) : Z :=
  if (180 * 24 * HOUR <=? d) || (d =? 0) then 7 * 24 * HOUR else if 2 * 24 * HOUR <=? d then 24 * HOUR else HOUR.
Definition norm_sgd (sgd d : Z) : Z := if sgd =? 0 then default_sgd d else if sgd <? HOUR then HOUR else sgd.
Definition norm_igd (igd sgd : Z) : Z :=
  if igd <? sgd then sgd else if igd mod sgd =? 0 then igd else (igd / sgd + 1) * sgd.

Definition or_default (o : option Z) (d : Z) : Z := match o with Some x => x | None => d end.

Definition alter_pol (p : xpol) (od osgd oigd : option Z) : option xpol :=
  let d := or_default od (xp_d p) in
  let sgd := norm_sgd (or_default osgd (xp_sgd p)) d in
  let igd := norm_igd (or_default oigd (xp_igd p)) sgd in
  if negb (d =? 0) && (d <? HOUR) then None
  else if negb (d =? 0) && (d <? sgd) then None
  else Some {| xp_id := xp_id p; xp_d := d; xp_sgd := sgd; xp_igd := igd |}.

Definition set_pols (c : cat) (ps : list xpol) : cat :=
  {| c_pols := ps; c_sgs := c_sgs c; c_igs := c_igs c; c_ptnum := c_ptnum c;
     c_maxsg := c_maxsg c; c_maxsh := c_maxsh c; c_maxig := c_maxig c; c_maxix := c_maxix c |}.

Definition alter_cat (c : cat) (rp : Z) (od osgd oigd : option Z) : option cat :=
  match find_pol (c_pols c) rp with
  | None => None
  | Some p => match alter_pol p od osgd oigd with
              | None => None
              | Some p' => Some (set_pols c (map (fun q => if xp_id q =? rp then p' else q) (c_pols c)))
              end
  end.

(* ---- ExpandGroups after the partition count grew: every index group gets an index, every shard group a shard, for
        each new partition; ids come from the same counters, so id ranges of different groups now interleave ---- *)
Definition set_igs (c : cat) (igs : list igroup) (maxig maxix : Z) : cat :=
  {| c_pols := c_pols c; c_sgs := c_sgs c; c_igs := igs; c_ptnum := c_ptnum c;
     c_maxsg := c_maxsg c; c_maxsh := c_maxsh c; c_maxig := maxig; c_maxix := maxix |}.
Definition set_sgs (c : cat) (sgs : list sgroup) (maxsh : Z) : cat :=
  {| c_pols := c_pols c; c_sgs := sgs; c_igs := c_igs c; c_ptnum := c_ptnum c;
     c_maxsg := c_maxsg c; c_maxsh := maxsh; c_maxig := c_maxig c; c_maxix := c_maxix c |}.

Definition grow_ig (c : cat) (gid : Z) : cat :=
  match find (fun g => ig_id g =? gid) (c_igs c) with
  | None => c
  | Some g0 =>
    let have := length (ig_ixs g0) in
    let add := fresh_ixs (c_ptnum c - have) (Z.of_nat have) (c_maxix c) in
    set_igs c (map (fun g => if ig_id g =? gid then
                     {| ig_id := ig_id g; ig_rp := ig_rp g; ig_start := ig_start g; ig_end := ig_end g; ig_del := ig_del g;
                        ig_ixs := ig_ixs g ++ add |} else g) (c_igs c))
            (c_maxig c) (c_maxix c + Z.of_nat (c_ptnum c - have))
  end.

(* one missing shard of group gid for partition i *)
Definition grow_sg_one (rep : bool) (c : cat) (gid : Z) (i : nat) : cat :=
  match find (fun g => sg_id g =? gid) (c_sgs c) with
  | None => c
  | Some g0 =>
    match find_pol (c_pols c) (sg_rp g0) with
    | None => c
    | Some p =>
      let '(c1, ig) := ig_if_needed rep c (sg_rp g0) (xp_igd p) (sg_start g0) (sg_end g0) in
      let s := {| cs_id := c_maxsh c1 + 1; cs_pt := Z.of_nat i; cs_ix := nth_ix ig i; cs_md := false |} in
      set_sgs c1 (map (fun g => if sg_id g =? gid then
                        {| sg_id := sg_id g; sg_rp := sg_rp g; sg_start := sg_start g; sg_end := sg_end g; sg_del := sg_del g;
                           sg_shards := sg_shards g ++ [s] |} else g) (c_sgs c1)) (c_maxsh c1 + 1)
    end
  end.

Definition grow_sg (rep : bool) (c : cat) (gid : Z) : cat :=
  match find (fun g => sg_id g =? gid) (c_sgs c) with
  | None => c
  | Some g0 => let have := length (sg_shards g0) in
               fold_left (fun c' i => grow_sg_one rep c' gid i) (seq have (c_ptnum c - have)) c
  end.

Definition expand_pol (rep : bool) (c : cat) (rp : Z) : cat :=
  let c1 := fold_left grow_ig (map ig_id (rp_igs c rp)) c in
  fold_left (grow_sg rep) (map sg_id (rp_sgs c1 rp)) c1.

Definition expand (rep : bool) (c : cat) : cat :=
  let c0 := {| c_pols := c_pols c; c_sgs := c_sgs c; c_igs := c_igs c; c_ptnum := S (c_ptnum c);
               c_maxsg := c_maxsg c; c_maxsh := c_maxsh c; c_maxig := c_maxig c; c_maxix := c_maxix c |} in
  fold_left (expand_pol rep) (map xp_id (c_pols c)) c0.

(* ---- marking and pruning ---- *)
Definition del_sg (c : cat) (rp gid : Z) : cat :=
  set_sgs c (map (fun g => if (sg_id g =? gid) && (sg_rp g =? rp) then
                    {| sg_id := sg_id g; sg_rp := sg_rp g; sg_start := sg_start g; sg_end := sg_end g; sg_del := true;
                       sg_shards := sg_shards g |} else g) (c_sgs c)) (c_maxsh c).
Definition del_ig (c : cat) (rp gid : Z) : cat :=
  set_igs c (map (fun g => if (ig_id g =? gid) && (ig_rp g =? rp) then
                    {| ig_id := ig_id g; ig_rp := ig_rp g; ig_start := ig_start g; ig_end := ig_end g; ig_del := true;
                       ig_ixs := ig_ixs g |} else g) (c_igs c)) (c_maxig c) (c_maxix c).

Definition cs_mark (x : cshard) : cshard := {| cs_id := cs_id x; cs_pt := cs_pt x; cs_ix := cs_ix x; cs_md := true |}.
Definition ci_mark (x : cindex) : cindex := {| ci_id := ci_id x; ci_pt := ci_pt x; ci_md := true |}.

(* today: if first <= id <= last, mark the first element with id' >= id (sort.Search, no equality test);
   repaired: mark only an element whose id IS id *)
Fixpoint mark_cs (rep : bool) (id : Z) (l : list cshard) : list cshard :=
  match l with
  | [] => []
  | x :: r => if id <=? cs_id x then (if rep && negb (cs_id x =? id) then l else cs_mark x :: r) else x :: mark_cs rep id r
  end.
Fixpoint mark_ci (rep : bool) (id : Z) (l : list cindex) : list cindex :=
  match l with
  | [] => []
  | x :: r => if id <=? ci_id x then (if rep && negb (ci_id x =? id) then l else ci_mark x :: r) else x :: mark_ci rep id r
  end.

Definition cs_first (l : list cshard) : Z := match l with [] => 0 | x :: _ => cs_id x end.
Definition cs_last (l : list cshard) : Z := cs_id (last l {| cs_id := 0; cs_pt := 0; cs_ix := 0; cs_md := false |}).
Definition ci_first (l : list cindex) : Z := match l with [] => 0 | x :: _ => ci_id x end.
Definition ci_last (l : list cindex) : Z := ci_id (last l {| ci_id := 0; ci_pt := 0; ci_md := false |}).

Definition prune_mark_sg (rep : bool) (id : Z) (g : sgroup) : sgroup :=
  if (cs_first (sg_shards g) <=? id) && (id <=? cs_last (sg_shards g)) then
    {| sg_id := sg_id g; sg_rp := sg_rp g; sg_start := sg_start g; sg_end := sg_end g; sg_del := sg_del g;
       sg_shards := mark_cs rep id (sg_shards g) |}
  else g.
Definition prune_mark_ig (rep : bool) (id : Z) (g : igroup) : igroup :=
  if (ci_first (ig_ixs g) <=? id) && (id <=? ci_last (ig_ixs g)) then
    {| ig_id := ig_id g; ig_rp := ig_rp g; ig_start := ig_start g; ig_end := ig_end g; ig_del := ig_del g;
       ig_ixs := mark_ci rep id (ig_ixs g) |}
  else g.

Definition sg_all_marked (g : sgroup) : bool := forallb cs_md (sg_shards g).
Definition ig_all_marked (g : igroup) : bool := forallb ci_md (ig_ixs g).

(* pruneShardGroups: a group goes when it is marked deleted AND all its shards are marked *)
Definition prune_sg (rep : bool) (c : cat) (id : Z) : cat :=
  set_sgs c (filter (fun g => negb (sg_del g && sg_all_marked g)) (map (prune_mark_sg rep id) (c_sgs c))) (c_maxsh c).
(* pruneIndexGroups: an index group goes when all its indexes are marked (DeletedAt is not consulted) *)
Definition prune_ig (rep : bool) (c : cat) (id : Z) : cat :=
  set_igs c (filter (fun g => negb (ig_all_marked g)) (map (prune_mark_ig rep id) (c_igs c))) (c_maxig c) (c_maxix c).

(* ---- what the catalogue says about one index id: RetentionPolicyInfo.getIndexGroupTimeRange (id-range test, scanned
        from the end); used when a store creates the index for a shard ---- *)
Definition ix_group_of (c : cat) (rp ix : Z) : option igroup :=
  find_last (fun g => (ci_first (ig_ixs g) <=? ix) && (ix <=? ci_last (ig_ixs g))) (rp_igs c rp).

(* ================= store nodes (one per partition) ================= *)
Record xshard := { xs_id : Z; xs_pt : Z; xs_gid : Z; xs_rp : Z; xs_end : Z; xs_dur : Z; xs_ix : Z; xs_loaded : bool }.
Record xindex := { xi_id : Z; xi_pt : Z; xi_igid : Z; xi_rp : Z; xi_end : Z; xi_dur : Z }.
Record xworld := { x_cat : cat; x_shards : list xshard; x_ixs : list xindex }.

Definition has_shard (w : xworld) (id : Z) : bool := existsb (fun s => xs_id s =? id) (x_shards w).
Definition has_ix (ixs : list xindex) (id pt : Z) : bool := existsb (fun i => (xi_id i =? id) && (xi_pt i =? pt)) ixs.

(* the stores receive the first write for group gid: every catalogue shard of the group not yet present is created,
   together with its index if the partition does not have it yet (NewMergeSetIndex: span from the catalogue's
   index-group lookup, duration = the policy's) *)
Definition mat_one (c : cat) (g : sgroup) (d : Z) (loaded : bool) (acc : list xshard * list xindex) (s : cshard)
  : list xshard * list xindex :=
  let '(shs, ixs) := acc in
  if existsb (fun x => xs_id x =? cs_id s) shs then acc else
  let sh := {| xs_id := cs_id s; xs_pt := cs_pt s; xs_gid := sg_id g; xs_rp := sg_rp g; xs_end := sg_end g; xs_dur := d;
               xs_ix := cs_ix s; xs_loaded := loaded |} in
  let ixs' := if has_ix ixs (cs_ix s) (cs_pt s) then ixs else
              match ix_group_of c (sg_rp g) (cs_ix s) with
              | Some ig => ixs ++ [{| xi_id := cs_ix s; xi_pt := cs_pt s; xi_igid := ig_id ig; xi_rp := sg_rp g;
                                      xi_end := ig_end ig; xi_dur := d |}]
              | None => ixs ++ [{| xi_id := cs_ix s; xi_pt := cs_pt s; xi_igid := 0; xi_rp := sg_rp g; xi_end := 0; xi_dur := d |}]
              end in
  (shs ++ [sh], ixs').

Definition materialise (w : xworld) (gid : Z) (loaded : bool) : xworld :=
  match find (fun g => sg_id g =? gid) (c_sgs (x_cat w)) with
  | None => w
  | Some g =>
    match find_pol (c_pols (x_cat w)) (sg_rp g) with
    | None => w
    | Some p => let '(shs, ixs) := fold_left (mat_one (x_cat w) g (xp_d p) loaded) (sg_shards g) (x_shards w, x_ixs w) in
                {| x_cat := x_cat w; x_shards := shs; x_ixs := ixs |}
    end
  end.

(* -- one pass of the retention service on the node that owns partition pt -- *)
Record sinfo := { si_id : Z; si_gid : Z; si_rp : Z; si_end : Z; si_d : Z }.   (* ShardDurationInfo / IndexDurationInfo *)

Definition pol_d (c : cat) (rp : Z) : Z := match find_pol (c_pols c) rp with Some p => xp_d p | None => 0 end.

Definition shard_infos (c : cat) (pt : Z) : list sinfo :=
  flat_map (fun g => map (fun s => {| si_id := cs_id s; si_gid := sg_id g; si_rp := sg_rp g; si_end := sg_end g; si_d := pol_d c (sg_rp g) |})
                         (filter (fun s => cs_pt s =? pt) (sg_shards g))) (c_sgs c).
Definition index_infos (c : cat) (pt : Z) : list sinfo :=
  flat_map (fun g => map (fun i => {| si_id := ci_id i; si_gid := ig_id g; si_rp := ig_rp g; si_end := ig_end g; si_d := pol_d c (ig_rp g) |})
                         (filter (fun i => ci_pt i =? pt) (ig_ixs g))) (c_igs c).

Definition find_info (l : list sinfo) (id : Z) : option sinfo := find (fun i => si_id i =? id) l.

(* UpdateShardDurationInfo on a loaded shard: duration and group id; the duration is also pushed into the shard's index *)
Definition refresh_shard (infos : list sinfo) (pt : Z) (s : xshard) : xshard :=
  if (xs_pt s =? pt) && xs_loaded s then
    match find_info infos (xs_id s) with
    | Some i => {| xs_id := xs_id s; xs_pt := xs_pt s; xs_gid := si_gid i; xs_rp := xs_rp s; xs_end := xs_end s; xs_dur := si_d i;
                   xs_ix := xs_ix s; xs_loaded := true |}
    | None => s
    end
  else s.
Definition is_some {A} (o : option A) : bool := match o with Some _ => true | None => false end.
Definition push_ix (infos : list sinfo) (shs : list xshard) (pt : Z) (i : xindex) : xindex :=
  if xi_pt i =? pt then
    match find_last (fun s => (xs_pt s =? pt) && xs_loaded s && (xs_ix s =? xi_id i) && is_some (find_info infos (xs_id s))) shs with
    | Some s => {| xi_id := xi_id i; xi_pt := xi_pt i; xi_igid := xi_igid i; xi_rp := xi_rp i; xi_end := xi_end i; xi_dur := xs_dur s |}
    | None => i
    end
  else i.
Definition refresh_ix (infos : list sinfo) (pt : Z) (i : xindex) : xindex :=
  if xi_pt i =? pt then
    match find_info infos (xi_id i) with
    | Some f => {| xi_id := xi_id i; xi_pt := xi_pt i; xi_igid := si_gid f; xi_rp := xi_rp i; xi_end := xi_end i; xi_dur := si_d f |}
    | None => i
    end
  else i.

(* the decisions *)
Record victim := { v_id : Z; v_gid : Z; v_rp : Z }.

Definition expired_shards_x (shs : list xshard) (infos : list sinfo) (pt now : Z) : list victim :=
  map (fun s => {| v_id := xs_id s; v_gid := xs_gid s; v_rp := xs_rp s |})
      (filter (fun s => (xs_pt s =? pt) && xs_loaded s && expired (xs_dur s) (xs_end s) now) shs)
  ++ map (fun i => {| v_id := si_id i; v_gid := si_gid i; v_rp := si_rp i |})
      (filter (fun i => negb (existsb (fun s => (xs_id s =? si_id i) && (xs_pt s =? pt) && xs_loaded s) shs)
                        && expired (si_d i) (si_end i) now) infos).

Definition expired_ixs_x (ixs : list xindex) (infos : list sinfo) (pt now : Z) : list victim :=
  map (fun i => {| v_id := xi_id i; v_gid := xi_igid i; v_rp := xi_rp i |})
      (filter (fun i => (xi_pt i =? pt) && expired (xi_dur i) (xi_end i) now) ixs)
  ++ map (fun i => {| v_id := si_id i; v_gid := si_gid i; v_rp := si_rp i |})
      (filter (fun i => negb (has_ix ixs (si_id i) pt) && expired (si_d i) (si_end i) now) infos).

Record xlog := { l_shards : list Z; l_ixs : list Z }.

(* The service reads the clock anew for every decision; the shard decisions of a pass come first, the index decisions
   later: `now` is the reading of the former, `now2` (>= now in reality) of the latter. *)
Definition xtick (rep : bool) (w : xworld) (pt now now2 : Z) : xworld * xlog :=
  let c := x_cat w in
  let sinf := shard_infos c pt in
  let iinf := index_infos c pt in
  let shs1 := map (refresh_shard sinf pt) (x_shards w) in
  let ixs1 := map (refresh_ix iinf pt) (map (push_ix sinf shs1 pt) (x_ixs w)) in
  let vs := expired_shards_x shs1 sinf pt now in
  let c1 := fold_left (fun c' v => prune_sg rep (del_sg c' (v_rp v) (v_gid v)) (v_id v)) vs c in
  let shs2 := filter (fun s => negb (existsb (fun v => v_id v =? xs_id s) vs)) shs1 in
  let vi := expired_ixs_x ixs1 iinf pt now2 in
  let c2 := fold_left (fun c' v => prune_ig rep (del_ig c' (v_rp v) (v_gid v)) (v_id v)) vi c1 in
  let ixs2 := filter (fun i => negb ((xi_pt i =? pt) && existsb (fun v => v_id v =? xi_id i) vi)) ixs1 in
  ({| x_cat := c2; x_shards := shs2; x_ixs := ixs2 |}, {| l_shards := map v_id vs; l_ixs := map v_id vi |}).

Definition xrestart (w : xworld) (pt : Z) : xworld :=
  {| x_cat := x_cat w;
     x_shards := map (fun s => if xs_pt s =? pt then
                        {| xs_id := xs_id s; xs_pt := xs_pt s; xs_gid := xs_gid s; xs_rp := xs_rp s; xs_end := xs_end s; xs_dur := 0;
                           xs_ix := xs_ix s; xs_loaded := false |} else s) (x_shards w);
     x_ixs := map (fun i => if xi_pt i =? pt then
                        {| xi_id := xi_id i; xi_pt := xi_pt i; xi_igid := 0; xi_rp := xi_rp i; xi_end := xi_end i; xi_dur := 0 |}
                      else i) (x_ixs w) |}.

Inductive xevent :=
| XCreate (rp ts : Z)                       (* a write needs a shard group at ts: CreateShardGroup *)
| XMat (gid : Z) (loaded : bool)            (* the stores create the group's shards and indexes *)
| XAlter (rp : Z) (d sgd igd : option Z)    (* ALTER RETENTION POLICY .. DURATION / SHARD DURATION / INDEX DURATION *)
| XExpand                                   (* a partition is added: ExpandGroups *)
| XTick (pt now now2 : Z)
| XTickAborted (pt now : Z)
| XRestart (pt : Z).

Definition with_cat (w : xworld) (c : cat) : xworld := {| x_cat := c; x_shards := x_shards w; x_ixs := x_ixs w |}.
Definition nolog : xlog := {| l_shards := []; l_ixs := [] |}.

(* repI: index-group choice repaired; repP: pruning repaired; clip: new shard groups clipped to their live neighbours *)
Definition xstep (repI repP clip : bool) (w : xworld) (e : xevent) : xworld * xlog :=
  match e with
  | XCreate rp ts => (with_cat w (create_sg repI clip (x_cat w) rp ts), nolog)
  | XMat gid l => (materialise w gid l, nolog)
  | XAlter rp d sgd igd => (match alter_cat (x_cat w) rp d sgd igd with Some c => with_cat w c | None => w end, nolog)
  | XExpand => (with_cat w (expand repI (x_cat w)), nolog)
  | XTick pt now now2 => xtick repP w pt now now2
  | XTickAborted _ _ => (w, nolog)
  | XRestart pt => (xrestart w pt, nolog)
  end.

Fixpoint xrun (repI repP clip : bool) (w : xworld) (es : list xevent) : xworld * list xlog :=
  match es with
  | [] => (w, [])
  | e :: r => let '(w1, l1) := xstep repI repP clip w e in let '(w2, l2) := xrun repI repP clip w1 r in (w2, l1 :: l2)
  end.

Definition cat0 (ps : list xpol) (ptnum : nat) : cat :=
  {| c_pols := ps; c_sgs := []; c_igs := []; c_ptnum := ptnum; c_maxsg := 0; c_maxsh := 0; c_maxig := 0; c_maxix := 0 |}.
Definition xworld0 (ps : list xpol) (ptnum : nat) : xworld := {| x_cat := cat0 ps ptnum; x_shards := []; x_ixs := [] |}.

(* ================= write admission of one batch (coordinator) =================
   injestionCtx.checkDBRP looks the policy up ONCE per batch and fixes minTime from its duration and the coordinator's
   coarse clock (seconds); routeAndMapOriginRows then turns away every row with Timestamp < minTime. An ALTER that
   lands while the batch is being routed does not change the threshold of that batch. *)
Definition min_time (d nowsec : Z) : Z := if 0 <? d then nowsec * 1000000000 - d else 0.
Definition admit_batch (d_at_lookup nowsec : Z) (ts : list Z) : list bool := map (write_accept d_at_lookup nowsec) ts.
