(* C14: monotonicity of the retention decision rule `expired d end now` (d <> 0 && end + d < now): the clock can only turn a
   kept shard into an expired one, never back; a group that ends later never expires earlier; a longer (limited) duration never
   expires more. Consequences users rely on: groups of one policy leave in the order of their ends, and raising a retention
   duration can only postpone deletions. *)
From Coq Require Import ZArith Bool Lia.
From OG Require Import C14.Model C14.Proofs.
Local Open Scope Z_scope.

Theorem expired_mono_now : forall d e n n', n <= n' -> expired d e n = true -> expired d e n' = true.
Proof. intros d e n n' Hle H. apply expired_spec in H. apply expired_spec. lia. Qed.

Theorem expired_anti_end : forall d e e' n, e <= e' -> expired d e' n = true -> expired d e n = true.
Proof. intros d e e' n Hle H. apply expired_spec in H. apply expired_spec. lia. Qed.

Theorem expired_anti_dur : forall d d' e n, 0 < d <= d' -> expired d' e n = true -> expired d e n = true.
Proof. intros d d' e n Hle H. apply expired_spec in H. apply expired_spec. lia. Qed.

(* groups leave in the order of their ends: whenever the later group is expired, so is the earlier one - at every clock
   value, so at the first tick that deletes the later one the earlier one is deleted as well (or already gone) *)
Theorem expired_in_end_order : forall d e1 e2 n, e1 <= e2 -> expired d e1 n = false -> expired d e2 n = false.
Proof.
  intros d e1 e2 n Hle H. destruct (expired d e2 n) eqn:E; [|reflexivity].
  rewrite (expired_anti_end d e1 e2 n Hle E) in H. discriminate H.
Qed.

(* the exact instant: the first clock value at which a limited group is expired is end + d + 1 *)
Theorem expired_first_instant : forall d e n, d <> 0 -> (expired d e n = true <-> e + d + 1 <= n).
Proof. intros d e n Hd. rewrite expired_spec. lia. Qed.

Example expired_mono_examples :
  expired 10 100 110 = false /\ expired 10 100 111 = true /\ expired 10 101 111 = false /\ expired 11 100 111 = false /\
  expired 0 100 1000000 = false.
Proof. vm_compute. repeat split. Qed.
