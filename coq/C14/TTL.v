(* C14 - the two other deleters next to the retention pass.
   (1) Measurement TTL (services/retention/mst + engine.ExpiredShardsForMst / ExpiredIndexesForMst): the data of ONE
       measurement is dropped from the shards (and indexes) of its policy whose span ended more than the measurement's
       TTL ago - the same predicate as the policy rule with the TTL in place of the duration; TTL 0 (the default) never.
   (2) SchemaClean (optional, meta.SchemaCleanEn; runs when pruneShardGroups drops groups): a field is removed from a
       measurement's schema when the high 32 bits of the end of the latest shard group it was written to are <= the high
       32 bits of the latest end among the groups just pruned (MeasurementInfo.SchemaClean; a measurement left without
       fields is marked deleted). One unit of the high 32 bits is 2^32 ns = 4.29 s. *)
From Coq Require Import ZArith List Bool Lia ZifyBool.
From OG Require Import C14.Model C14.Proofs.
Import ListNotations.
Open Scope Z_scope.

Definition mst_expired_shards (rp ttl now : Z) (shards : list (Z * Z * Z)) : list Z :=   (* (id, rp, end) *)
  map (fun s => fst (fst s)) (filter (fun s => (snd (fst s) =? rp) && expired ttl (snd s) now) shards).

Lemma mst_ttl_rule rp ttl now shards id :
  In id (mst_expired_shards rp ttl now shards) -> exists e, In (id, rp, e) shards /\ ttl <> 0 /\ e + ttl < now.
Proof.
  unfold mst_expired_shards. rewrite in_map_iff. intros (((i, r), e) & <- & H). apply filter_In in H. cbn in H.
  destruct H as (H & E). rewrite andb_true_iff in E. destruct E as (E1 & E2). apply expired_spec in E2.
  exists e. assert (r = rp) by lia. subst. auto.
Qed.
Lemma mst_ttl_zero_never rp now shards : mst_expired_shards rp 0 now shards = [].
Proof.
  unfold mst_expired_shards. induction shards as [|s r IH]; [reflexivity|]. cbn [filter]. rewrite expired_unlimited, andb_false_r. exact IH.
Qed.

Definition P32 : Z := 4294967296.
Definition high32 (t : Z) : Z := t / P32.
Definition schema_drop (field_end pruned_end : Z) : bool := high32 field_end <=? high32 pruned_end.
Definition schema_clean (fields : list (Z * Z)) (pruned_end : Z) : list (Z * Z) :=   (* (field id, end of its latest group) *)
  filter (fun f => negb (schema_drop (snd f) pruned_end)) fields.

(* a field is dropped only if the latest group it was written to ends before pruned_end + 4.29 s ... *)
Lemma schema_drop_bound fe pe : schema_drop fe pe = true -> fe < pe + P32.
Proof.
  unfold schema_drop, high32, P32. intros H. apply Z.leb_le in H.
  pose proof (Z.mul_div_le pe 4294967296). pose proof (Z.mod_pos_bound fe 4294967296). pose proof (Z.div_mod fe 4294967296).
  pose proof (Z.mod_pos_bound pe 4294967296). pose proof (Z.div_mod pe 4294967296). nia.
Qed.
(* ... so never when that group ends 4.29 s or more after the pruned one (group ends of one policy are hours apart) *)
Lemma schema_keep_later fe pe : pe + P32 <= fe -> schema_drop fe pe = false.
Proof. intros H. destruct (schema_drop fe pe) eqn:E; [|auto]. apply schema_drop_bound in E. lia. Qed.
(* hence, when distinct group ends are at least 2^32 ns apart, everything SchemaClean drops lies in groups that are
   expired under the same duration as the group whose pruning triggered it *)
Lemma schema_drop_expired d fe pe now :
  (fe <= pe \/ pe + P32 <= fe) -> schema_drop fe pe = true -> expired d pe now = true -> expired d fe now = true.
Proof.
  intros [L|G] Hd He; [|rewrite (schema_keep_later _ _ G) in Hd; discriminate].
  apply expired_spec in He. apply expired_spec. destruct He. split; [auto|lia].
Qed.

(* correspondence evaluators *)
Definition ttlcase := (Z * Z * Z * list (Z * Z * Z) * list Z)%type.          (* rp ttl now shards -> ids reported (sorted) *)
Fixpoint ins_zz (x : Z) (l : list Z) : list Z := match l with [] => [x] | y :: r => if x <=? y then x :: l else y :: ins_zz x r end.
Fixpoint zl_eqb (a b : list Z) : bool := match a, b with [], [] => true | x :: a', y :: b' => (x =? y) && zl_eqb a' b' | _, _ => false end.
Definition ttl_ok (c : ttlcase) : bool :=
  match c with (rp, ttl, now, shards, got) => zl_eqb (fold_right ins_zz [] (mst_expired_shards rp ttl now shards)) got end.
Definition sccase := (list (Z * Z) * Z * list Z)%type.                        (* fields (id, end of latest group), pruned end -> ids left (sorted) *)
Definition sc_ok (c : sccase) : bool :=
  match c with (fields, pe, got) => zl_eqb (fold_right ins_zz [] (map fst (schema_clean fields pe))) got end.
Fixpoint bad_from {A} (ok : A -> bool) (k : nat) (cs : list A) : list nat :=
  match cs with [] => [] | c :: r => if ok c then bad_from ok (S k) r else k :: bad_from ok (S k) r end.
Definition ttl_bad := bad_from ttl_ok 0.
Definition sc_bad := bad_from sc_ok 0.
