(* C14 - what today's code violates (the `false` variants of the extended model mirror it; the correspondence check
   confirms on every run which variant the working tree implements). Witnesses closed by vm_compute. *)
From Coq Require Import ZArith List Bool.
From OG Require Import C14.Model C14.XModel C14.XInv.
Import ListNotations.
Open Scope Z_scope.

Definition HR : Z := 3600000000000.

(* finding C14-index-outlived-by-shard. Policy: duration 1h, shard groups 1h, index groups 4h. A first group is
   written; ALTER raises the duration to 7d and the shard duration to 12h; the next write (one hour later) gets a
   12h shard group whose index is taken from the old 4h index group. One nanosecond after indexgroup.end + 7d the
   retention pass deletes the index although the 12h shard that uses it stays on the node, unexpired for 8 more hours. *)
Definition w1_pols := [{| xp_id := 1; xp_d := HR; xp_sgd := HR; xp_igd := 4 * HR |}].
Definition w1_events := [XCreate 1 (472140 * HR + 100); XAlter 1 (Some (168 * HR)) (Some (12 * HR)) None;
                         XCreate 1 (472141 * HR + 100); XMat 1 true; XMat 2 true].
Definition w1_now := 472144 * HR + 168 * HR + 1.

Theorem C14_index_outlived_by_shard_refuted :
  exists ps n es pt now,
    let r := xrun false false false (xworld0 ps n) (es ++ [XTick pt now now]) in
    exists s, In s (x_shards (fst r)) /\ xs_pt s = pt /\
              In (xs_ix s) (l_ixs (last (snd r) nolog)) /\            (* its index was deleted by this pass *)
              has_ix (x_ixs (fst r)) (xs_ix s) pt = false /\          (* and is gone from the node *)
              expired (pol_d (x_cat (fst r)) (xs_rp s)) (xs_end s) now = false.   (* while the shard has not expired *)
Proof.
  exists w1_pols, 1%nat, w1_events, 0, w1_now.
  exists {| xs_id := 2; xs_pt := 0; xs_gid := 2; xs_rp := 1; xs_end := 1699747200000000000; xs_dur := 604800000000000;
            xs_ix := 1; xs_loaded := true |}.
  vm_compute. intuition.
Qed.
Print Assumptions C14_index_outlived_by_shard_refuted.

(* the same history under the repaired index-group choice: the 12h group gets a fresh index group, the pass deletes
   only the expired 1h shard and ITS index, and the 12h shard keeps its index *)
Example C14_index_kept_when_repaired :
  let r := xrun true false false (xworld0 w1_pols 1) (w1_events ++ [XTick 0 w1_now w1_now]) in
  map xs_id (x_shards (fst r)) = [2] /\ map xi_id (x_ixs (fst r)) = [2] /\ l_ixs (last (snd r) nolog) = [1].
Proof. vm_compute. auto. Qed.

(* today's index-group choice breaks the invariant of XInv.v *)
Theorem C14_index_cover_refuted :
  exists ps n es, let c := x_cat (fst (xrun false false false (xworld0 ps n) es)) in
    exists sg s ig i, In sg (c_sgs c) /\ In s (sg_shards sg) /\ In ig (c_igs c) /\ In i (ig_ixs ig) /\ ci_id i = cs_ix s /\
                      ig_end ig < sg_end sg.
Proof.
  exists w1_pols, 1%nat, w1_events.
  exists {| sg_id := 2; sg_rp := 1; sg_start := 1699704000000000000; sg_end := 1699747200000000000; sg_del := false;
            sg_shards := [{| cs_id := 2; cs_pt := 0; cs_ix := 1; cs_md := false |}] |},
         {| cs_id := 2; cs_pt := 0; cs_ix := 1; cs_md := false |},
         {| ig_id := 1; ig_rp := 1; ig_start := 1699704000000000000; ig_end := 1699718400000000000; ig_del := false;
            ig_ixs := [{| ci_id := 1; ci_pt := 0; ci_md := false |}] |},
         {| ci_id := 1; ci_pt := 0; ci_md := false |}.
  vm_compute. intuition.
Qed.
Print Assumptions C14_index_cover_refuted.

(* finding C14-prune-marks-neighbour. Two partitions, groups {1,2} (old) and {3,4} (20 hours younger); a third
   partition is added: ExpandGroups gives the groups the shards 5 and 6, so the id ranges are [1,5] and [3,6]. The
   retention pass of partition 2 expires shard 5 of the old group and prunes it; the catalogue also marks shard 6 of
   the younger group - not expired, not deleted by anyone - as deleted. *)
Definition w2_pols := [{| xp_id := 1; xp_d := HR; xp_sgd := HR; xp_igd := HR |}].
Definition w2_events := [XCreate 1 (472140 * HR); XCreate 1 (472160 * HR); XExpand; XMat 1 true; XMat 2 true].
Definition w2_now := 472141 * HR + HR + 1.

Theorem C14_prune_neighbour_refuted :
  exists ps n es pt now,
    let r := xrun false false false (xworld0 ps n) (es ++ [XTick pt now now]) in
    exists sg s, In sg (c_sgs (x_cat (fst r))) /\ In s (sg_shards sg) /\ cs_md s = true /\
                 ~ In (cs_id s) (l_shards (last (snd r) nolog)) /\                      (* the pass did not delete it *)
                 expired (pol_d (x_cat (fst r)) (sg_rp sg)) (sg_end sg) now = false /\  (* its group has not expired *)
                 has_shard (fst r) (cs_id s) = true.                                    (* and it is still on its node *)
Proof.
  exists w2_pols, 2%nat, w2_events, 2, w2_now.
  exists {| sg_id := 2; sg_rp := 1; sg_start := 1699776000000000000; sg_end := 1699779600000000000; sg_del := false;
            sg_shards := [{| cs_id := 3; cs_pt := 0; cs_ix := 3; cs_md := false |}; {| cs_id := 4; cs_pt := 1; cs_ix := 4; cs_md := false |};
                          {| cs_id := 6; cs_pt := 2; cs_ix := 6; cs_md := true |}] |},
         {| cs_id := 6; cs_pt := 2; cs_ix := 6; cs_md := true |}.
  vm_compute. intuition; try discriminate.
Qed.
Print Assumptions C14_prune_neighbour_refuted.

(* the same history with the repaired pruning marks nothing but shard 5 *)
Example C14_prune_exact_when_repaired :
  let r := xrun false true false (xworld0 w2_pols 2) (w2_events ++ [XTick 2 w2_now w2_now]) in
  flat_map (fun g => map cs_id (filter cs_md (sg_shards g))) (c_sgs (x_cat (fst r))) = [5].
Proof. vm_compute. auto. Qed.
