(* C14 - the part of NodeOK that is an invariant: on every trace, a shard held by a store node agrees with EVERY catalogue
   entry that still lists its id - same partition, same index reference, same group end, same policy (NodeAgree). So the
   premise "the node's shard is the one the catalogue lists, with the catalogue's span" of the node-level theorem is
   re-established by all events for the shards that are still listed. *)
From Coq Require Import ZArith List Bool Lia ZifyBool.
From OG Require Import C14.Model C14.Proofs C14.XModel C14.XProofs C14.XInv.
Import ListNotations.
Open Scope Z_scope.

Definition same_entry (sg sg' : sgroup) (cs cs' : cshard) : Prop :=
  cs_id cs' = cs_id cs /\ cs_pt cs' = cs_pt cs /\ cs_ix cs' = cs_ix cs /\ sg_end sg' = sg_end sg /\ sg_rp sg' = sg_rp sg.

(* every entry of c' whose id is not fresh with respect to c is an entry of c *)
Definition Back (c c' : cat) : Prop :=
  c_maxsh c <= c_maxsh c' /\
  forall sg' cs', In sg' (c_sgs c') -> In cs' (sg_shards sg') -> cs_id cs' <= c_maxsh c ->
    exists sg cs, In sg (c_sgs c) /\ In cs (sg_shards sg) /\ same_entry sg sg' cs cs'.

Lemma Back_same c c' : c_sgs c' = c_sgs c -> c_maxsh c' = c_maxsh c -> Back c c'.
Proof.
  intros E M. split; [lia|]. rewrite E. intros sg cs H1 H2 _. exists sg, cs. unfold same_entry. auto 10.
Qed.
Lemma Back_refl c : Back c c.
Proof. apply Back_same; auto. Qed.
Lemma Back_trans a b c : Back a b -> Back b c -> Back a c.
Proof.
  intros (M1 & B1) (M2 & B2). split; [lia|]. intros sg3 cs3 H1 H2 Hb.
  destruct (B2 sg3 cs3 H1 H2) as (sg2 & cs2 & G1 & G2 & S2); [lia|].
  destruct S2 as (E1 & E2 & E3 & E4 & E5).
  destruct (B1 sg2 cs2 G1 G2) as (sg1 & cs1 & F1 & F2 & S1); [lia|].
  destruct S1 as (D1 & D2 & D3 & D4 & D5).
  exists sg1, cs1. unfold same_entry. repeat split; auto; congruence.
Qed.
Lemma Back_fold {B} (f : cat -> B -> cat) : (forall c b, Back c (f c b)) -> forall l c, Back c (fold_left f l c).
Proof.
  intros H; induction l as [|x r IH]; cbn; intros c; [apply Back_refl|]. eapply Back_trans; [apply H|apply IH].
Qed.

Lemma same_ig_if_needed rep c rp igd ts en :
  c_sgs (fst (ig_if_needed rep c rp igd ts en)) = c_sgs c /\ c_maxsh (fst (ig_if_needed rep c rp igd ts en)) = c_maxsh c.
Proof.
  unfold ig_if_needed. destruct (pick_ig _ _ _ _ _); [destruct (_ <=? _)%nat|]; cbn; auto.
Qed.

Lemma Back_create_sg rep clip c rp ts : Back c (create_sg rep clip c rp ts).
Proof.
  unfold create_sg. destruct (find_pol _ _) as [p|]; [|apply Back_refl]. destruct (existsb _ _); [apply Back_refl|].
  cbv zeta.
  set (en := if clip then clip_end c rp ts (trunc ts (xp_sgd p) + xp_sgd p) else trunc ts (xp_sgd p) + xp_sgd p).
  destruct (same_ig_if_needed rep c rp (xp_igd p) ts en) as (Es & Em).
  destruct (ig_if_needed rep c rp (xp_igd p) ts en) as (c1, ig). cbn in Es, Em.
  split; cbn; [lia|]. intros sg cs H1 H2 Hb. apply in_app_or in H1. destruct H1 as [H1|[<-|[]]].
  - rewrite Es in H1. exists sg, cs. unfold same_entry. auto 10.
  - cbn in H2. apply fresh_shards_id in H2. lia.
Qed.

Lemma Back_grow_ig c gid : Back c (grow_ig c gid).
Proof. unfold grow_ig. destruct (find _ _); [|apply Back_refl]. apply Back_same; reflexivity. Qed.

Lemma Back_grow_sg_one rep c gid k : Back c (grow_sg_one rep c gid k).
Proof.
  unfold grow_sg_one. destruct (find _ _) as [g0|]; [|apply Back_refl]. destruct (find_pol _ _) as [p|]; [|apply Back_refl].
  destruct (same_ig_if_needed rep c (sg_rp g0) (xp_igd p) (sg_start g0) (sg_end g0)) as (Es & Em).
  destruct (ig_if_needed rep c (sg_rp g0) (xp_igd p) (sg_start g0) (sg_end g0)) as (c1, ig). cbn in Es, Em.
  split; cbn; [lia|]. intros sg cs H1 H2 Hb. apply in_map_iff in H1. destruct H1 as (g & <- & Hg). rewrite Es in Hg.
  destruct (sg_id g =? gid); cbn in *.
  - apply in_app_or in H2. destruct H2 as [H2|[<-|[]]].
    + exists g, cs. unfold same_entry. auto 10.
    + cbn in Hb. lia.
  - exists g, cs. unfold same_entry. auto 10.
Qed.

Lemma Back_grow_sg rep c gid : Back c (grow_sg rep c gid).
Proof. unfold grow_sg. destruct (find _ _); [|apply Back_refl]. apply Back_fold. intros. apply Back_grow_sg_one. Qed.

Lemma Back_expand rep c : Back c (expand rep c).
Proof.
  unfold expand.
  set (c0 := {| c_pols := c_pols c; c_sgs := c_sgs c; c_igs := c_igs c; c_ptnum := S (c_ptnum c); c_maxsg := c_maxsg c;
                c_maxsh := c_maxsh c; c_maxig := c_maxig c; c_maxix := c_maxix c |}).
  apply (Back_trans c c0); [apply Back_same; reflexivity|]. apply Back_fold.
  intros a rp. unfold expand_pol.
  apply (Back_trans a (fold_left grow_ig (map ig_id (rp_igs a rp)) a)); [apply Back_fold; intros; apply Back_grow_ig|].
  apply Back_fold. intros. apply Back_grow_sg.
Qed.

Lemma Back_of_sub c c' : sub_sgs (c_sgs c') (c_sgs c) -> c_maxsh c' = c_maxsh c -> Back c c'.
Proof.
  intros S M. split; [lia|]. intros sg' cs' H1 H2 _. destruct (S _ H1) as (g & Hg & _ & Ee & Er & Hs).
  destruct (Hs _ H2) as (s & Hs' & Ex & Ei & Ep). exists g, s. unfold same_entry. repeat split; auto.
Qed.

Lemma Back_xtick rep w pt now now2 : Back (x_cat w) (x_cat (fst (xtick rep w pt now now2))).
Proof.
  unfold xtick. cbn.
  match goal with |- Back ?a (fold_left ?f ?l (fold_left ?g ?m ?a)) => apply (Back_trans a (fold_left g m a)) end;
    apply Back_fold; intros c v.
  - apply (Back_trans c (del_sg c (v_rp v) (v_gid v))); [apply Back_of_sub; [apply sub_del_sg|reflexivity]|].
    apply Back_of_sub; [apply sub_prune_sg|reflexivity].
  - apply (Back_trans c (del_ig c (v_rp v) (v_gid v))); apply Back_same; reflexivity.
Qed.

(* ------------------------------------------------------------------ the node side *)
Definition agrees (c : cat) (s : xshard) : Prop :=
  forall sg cs, In sg (c_sgs c) -> In cs (sg_shards sg) -> cs_id cs = xs_id s ->
    cs_pt cs = xs_pt s /\ cs_ix cs = xs_ix s /\ sg_end sg = xs_end s /\ sg_rp sg = xs_rp s.

Definition NodeAgree (w : xworld) : Prop :=
  forall s, In s (x_shards w) -> xs_id s <= c_maxsh (x_cat w) /\ agrees (x_cat w) s.

Definition same_shard (s s' : xshard) : Prop :=
  xs_id s' = xs_id s /\ xs_pt s' = xs_pt s /\ xs_ix s' = xs_ix s /\ xs_end s' = xs_end s /\ xs_rp s' = xs_rp s.

(* the catalogue moves on (Back), the node keeps or re-labels its shards (each new shard is an old one up to the
   fields the service refreshes) *)
Lemma NodeAgree_step w c' shs' ixs' :
  NodeAgree w -> Back (x_cat w) c' ->
  (forall s', In s' shs' -> exists s, In s (x_shards w) /\ same_shard s s') ->
  NodeAgree {| x_cat := c'; x_shards := shs'; x_ixs := ixs' |}.
Proof.
  intros A (M & B) Hs s' Hs'. cbn in *. destruct (Hs _ Hs') as (s & Hin & E1 & E2 & E3 & E4 & E5).
  destruct (A s Hin) as (Bd & Ag). split; [lia|]. intros sg' cs' H1 H2 E.
  destruct (B sg' cs' H1 H2) as (sg & cs & G1 & G2 & D1 & D2 & D3 & D4 & D5); [lia|].
  destruct (Ag sg cs G1 G2) as (P1 & P2 & P3 & P4); [congruence|]. repeat split; congruence.
Qed.

Lemma same_shard_refl s : same_shard s s.
Proof. unfold same_shard. auto. Qed.

Lemma refresh_shard_same infos pt s : same_shard s (refresh_shard infos pt s).
Proof.
  unfold refresh_shard, same_shard. destruct (_ && _); [|auto]. destruct (find_info _ _); cbn; auto.
Qed.

Lemma NodeAgree_xtick rep w pt now now2 : NodeAgree w -> NodeAgree (fst (xtick rep w pt now now2)).
Proof.
  intros A. pose proof (Back_xtick rep w pt now now2) as B. unfold xtick in *. cbn in *.
  eapply NodeAgree_step; [exact A|exact B|]. intros s' Hs'. apply filter_In in Hs'. destruct Hs' as (Hs' & _).
  apply in_map_iff in Hs'. destruct Hs' as (s & <- & Hs). exists s. split; [auto|apply refresh_shard_same].
Qed.

Lemma NodeAgree_restart w pt : NodeAgree w -> NodeAgree (xrestart w pt).
Proof.
  intros A. unfold xrestart. eapply NodeAgree_step; [exact A|apply Back_refl|]. intros s' Hs'.
  apply in_map_iff in Hs'. destruct Hs' as (s & <- & Hs). exists s. split; [auto|].
  unfold same_shard. destruct (_ =? _); cbn; auto.
Qed.

Lemma NodeAgree_cat w c' : NodeAgree w -> Back (x_cat w) c' -> NodeAgree (with_cat w c').
Proof.
  intros A B. unfold with_cat. eapply NodeAgree_step; [exact A|exact B|]. intros s Hs. exists s. split; [auto|apply same_shard_refl].
Qed.

(* the stores create the shards of a group from the catalogue's own entries *)
Lemma mat_one_shards c g d l acc s :
  fst (mat_one c g d l acc s) = fst acc \/
  fst (mat_one c g d l acc s) = fst acc ++ [{| xs_id := cs_id s; xs_pt := cs_pt s; xs_gid := sg_id g; xs_rp := sg_rp g; xs_end := sg_end g;
                                                 xs_dur := d; xs_ix := cs_ix s; xs_loaded := l |}].
Proof.
  unfold mat_one. destruct acc as (shs, ixs). destruct (existsb _ _); cbn; [auto|]. right. reflexivity.
Qed.

Lemma NodeAgree_materialise w gid l : XInv (x_cat w) -> NodeAgree w -> NodeAgree (materialise w gid l).
Proof.
  intros I A. unfold materialise. destruct (find _ _) as [g|] eqn:F; [|auto]. apply find_some in F. destruct F as (Hg & _).
  destruct (find_pol _ _) as [p|]; [|auto].
  assert (G : forall ss acc, (forall s, In s ss -> In s (sg_shards g)) ->
              (forall x, In x (fst acc) -> xs_id x <= c_maxsh (x_cat w) /\ agrees (x_cat w) x) ->
              forall x, In x (fst (fold_left (mat_one (x_cat w) g (xp_d p) l) ss acc)) -> xs_id x <= c_maxsh (x_cat w) /\ agrees (x_cat w) x).
  { induction ss as [|s r IH]; cbn; intros acc Hss Hacc; [auto|]. apply IH; [auto|].
    intros x Hx. destruct (mat_one_shards (x_cat w) g (xp_d p) l acc s) as [E|E]; rewrite E in Hx; [auto|].
    apply in_app_or in Hx. destruct Hx as [Hx|[<-|[]]]; [auto|]. cbn.
    assert (Hs : In s (sg_shards g)) by auto. split; [apply (xv_shb _ I g s Hg Hs)|].
    intros sg cs H1 H2 E3. cbn in E3.
    destruct (xv_shu _ I sg g cs s H1 Hg H2 Hs E3) as (P & Q & R & T). cbn. auto. }
  specialize (G (sg_shards g) (x_shards w, x_ixs w) (fun s H => H) A).
  destruct (fold_left _ _ _) as (shs, ixs). cbn in G. intros x Hx. cbn in *. auto.
Qed.

Lemma NodeAgree_xstep repP clip w e : XInv (x_cat w) -> NodeAgree w -> NodeAgree (fst (xstep true repP clip w e)).
Proof.
  intros I A. destruct e; cbn [xstep fst].
  - apply NodeAgree_cat; [auto|apply Back_create_sg].
  - apply NodeAgree_materialise; auto.
  - destruct (alter_cat _ _ _ _ _) as [c'|] eqn:E; cbn; [|auto]. apply NodeAgree_cat; [auto|].
    unfold alter_cat in E. destruct (find_pol _ _); [|discriminate]. destruct (alter_pol _ _ _ _); [|discriminate].
    inversion E; subst. apply Back_same; reflexivity.
  - apply NodeAgree_cat; [auto|apply Back_expand].
  - apply NodeAgree_xtick; auto.
  - auto.
  - apply NodeAgree_restart; auto.
Qed.

Lemma NodeAgree_xrun repP clip es : forall w, XInv (x_cat w) -> NodeAgree w -> NodeAgree (fst (xrun true repP clip w es)).
Proof.
  induction es as [|e r IH]; cbn; [auto|]. intros w I A.
  pose proof (XInv_xstep repP clip w e I) as I1. pose proof (NodeAgree_xstep repP clip w e I A) as A1.
  destruct (xstep true repP clip w e) as (w1, l1). cbn in I1, A1.
  specialize (IH w1 I1 A1). destruct (xrun true repP clip w1 r) as (w2, l2). cbn in *. auto.
Qed.

Lemma NodeAgree_init ps n : NodeAgree (xworld0 ps n).
Proof. intros s []. Qed.
