(* C14 correspondence evaluator for the extended model (XModel.v): runs the model on a harness trace under each of the
   four variants (index-group choice as-is/repaired x pruning as-is/repaired) and reports which variants reproduce the
   implementation's observables after every event. *)
From Coq Require Import ZArith List Bool.
From OG Require Import C14.Model C14.Corr C14.XModel.
Import ListNotations.
Open Scope Z_scope.

Definition z4 := (Z * Z * Z * Z)%type.
Definition o_sg := (Z * Z * Z * Z * bool * list (Z * Z * Z * bool))%type.   (* id rp start end del shards(id pt ix md) *)
Definition o_ig := (Z * Z * Z * Z * bool * list (Z * Z * bool))%type.       (* id rp start end del indexes(id pt md) *)
Record xobs := { o_ok : bool;                 (* the operation was accepted (ALTER) *)
                 o_pols : list z4; o_sgs : list o_sg; o_igs : list o_ig;
                 o_nsh : list (Z * Z) (* shard id, end time held by the node *); o_nix : list (Z * Z) (* index id, end time held by the node *); o_dsh : list Z; o_dix : list Z }.

Definition zsort := sort_by (fun x : Z => x).

Definition obs_of (ok : bool) (w : xworld) (l : xlog) : xobs :=
  let c := x_cat w in
  {| o_ok := ok;
     o_pols := map (fun p => (xp_id p, xp_d p, xp_sgd p, xp_igd p)) (c_pols c);
     o_sgs := sort_by (fun g : o_sg => match g with (id, _, _, _, _, _) => id end)
                (map (fun g => (sg_id g, sg_rp g, sg_start g, sg_end g, sg_del g,
                                map (fun s => (cs_id s, cs_pt s, cs_ix s, cs_md s)) (sg_shards g))) (c_sgs c));
     o_igs := sort_by (fun g : o_ig => match g with (id, _, _, _, _, _) => id end)
                (map (fun g => (ig_id g, ig_rp g, ig_start g, ig_end g, ig_del g,
                                map (fun s => (ci_id s, ci_pt s, ci_md s)) (ig_ixs g))) (c_igs c));
     o_nsh := sort_by (fun p : Z * Z => fst p) (map (fun s => (xs_id s, xs_end s)) (x_shards w));
     o_nix := sort_by (fun p : Z * Z => fst p) (map (fun i => (xi_id i, xi_end i)) (x_ixs w));
     o_dsh := zsort (l_shards l); o_dix := zsort (l_ixs l) |}.

Definition z4_eqb (a b : z4) : bool :=
  match a, b with (a1, a2, a3, a4), (b1, b2, b3, b4) => (a1 =? b1) && (a2 =? b2) && (a3 =? b3) && (a4 =? b4) end.
Definition cs_eqb (a b : Z * Z * Z * bool) : bool :=
  match a, b with (a1, a2, a3, a4), (b1, b2, b3, b4) => (a1 =? b1) && (a2 =? b2) && (a3 =? b3) && Bool.eqb a4 b4 end.
Definition ci_eqb (a b : Z * Z * bool) : bool :=
  match a, b with (a1, a2, a3), (b1, b2, b3) => (a1 =? b1) && (a2 =? b2) && Bool.eqb a3 b3 end.
Definition osg_eqb (a b : o_sg) : bool :=
  match a, b with (a1, a2, a3, a4, a5, a6), (b1, b2, b3, b4, b5, b6) =>
    (a1 =? b1) && (a2 =? b2) && (a3 =? b3) && (a4 =? b4) && Bool.eqb a5 b5 && list_eqb cs_eqb a6 b6 end.
Definition oig_eqb (a b : o_ig) : bool :=
  match a, b with (a1, a2, a3, a4, a5, a6), (b1, b2, b3, b4, b5, b6) =>
    (a1 =? b1) && (a2 =? b2) && (a3 =? b3) && (a4 =? b4) && Bool.eqb a5 b5 && list_eqb ci_eqb a6 b6 end.
Definition xobs_eqb (a b : xobs) : bool :=
  Bool.eqb (o_ok a) (o_ok b) && list_eqb z4_eqb (o_pols a) (o_pols b) && list_eqb osg_eqb (o_sgs a) (o_sgs b)
  && list_eqb oig_eqb (o_igs a) (o_igs b) && list_eqb (fun p q : Z * Z => (fst p =? fst q) && (snd p =? snd q)) (o_nsh a) (o_nsh b) && list_eqb (fun p q : Z * Z => (fst p =? fst q) && (snd p =? snd q)) (o_nix a) (o_nix b)
  && list_eqb Z.eqb (o_dsh a) (o_dsh b) && list_eqb Z.eqb (o_dix a) (o_dix b).

Definition accepted (w : xworld) (e : xevent) : bool :=
  match e with
  | XAlter rp d sgd igd => is_some (alter_cat (x_cat w) rp d sgd igd)
  | _ => true
  end.

(* None = every step agrees; Some i = first disagreeing event *)
Fixpoint xcheck_from (rI rP cl : bool) (i : nat) (w : xworld) (es : list xevent) (os : list xobs) : option nat :=
  match es, os with
  | [], _ => None
  | e :: es', o :: os' =>
      let '(w', l) := xstep rI rP cl w e in
      if xobs_eqb (obs_of (accepted w e) w' l) o then xcheck_from rI rP cl (S i) w' es' os' else Some i
  | _ :: _, [] => Some i
  end.

Definition mk_pols (ps : list z4) : list xpol :=
  map (fun p => match p with (i, d, s, g) => {| xp_id := i; xp_d := d; xp_sgd := s; xp_igd := g |} end) ps.

Definition xcase := (list z4 * nat * list xevent * list xobs)%type.

(* per case: for each variant (I,P,clip) in the order (f,f) (f,t) (t,f) (t,t) without clipping, then the same four with
   clipping: 0 if it agrees, else 1 + index of the first disagreeing event *)
Definition xverdict (c : xcase) : list nat :=
  match c with (ps, ptn, es, os) =>
    map (fun v : bool * bool * bool =>
           match xcheck_from (fst (fst v)) (snd (fst v)) (snd v) 0 (xworld0 (mk_pols ps) ptn) es os with None => O | Some i => S i end)
        [(false, false, false); (false, true, false); (true, false, false); (true, true, false);
         (false, false, true); (false, true, true); (true, false, true); (true, true, true)]
  end.
Definition xverdicts (cs : list xcase) : list (list nat) := map xverdict cs.

(* the model's own observations of a trace (replay/debugging aid) *)
Fixpoint xtrace (rI rP cl : bool) (w : xworld) (es : list xevent) : list xobs :=
  match es with
  | [] => []
  | e :: r => let '(w', l) := xstep rI rP cl w e in obs_of (accepted w e) w' l :: xtrace rI rP cl w' r
  end.

(* write admission: (d at lookup, coordinator clock, minTime the implementation used, rows (t, admitted)) *)
Definition wacase := (Z * Z * Z * list (Z * bool))%type.
Definition wa_ok (c : wacase) : bool :=
  match c with (d, nowsec, mt, rows) =>
    (min_time d nowsec =? mt) && list_eqb Bool.eqb (admit_batch d nowsec (map fst rows)) (map snd rows)
  end.
Fixpoint wa_mismatches_from (k : nat) (cs : list wacase) : list nat :=
  match cs with
  | [] => []
  | c :: r => if wa_ok c then wa_mismatches_from (S k) r else k :: wa_mismatches_from (S k) r
  end.
Definition wa_mismatches := wa_mismatches_from 0.
