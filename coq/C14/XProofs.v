(* C14 - proofs about the extended model (XModel.v): pruning, and the invariant "an index never ends before a shard that
   uses it" over every trace of catalogue and retention events when the index-group choice is the repaired one. *)
From Coq Require Import ZArith List Bool Lia ZifyBool.
From OG Require Import C14.Model C14.Proofs C14.XModel.
Import ListNotations.
Open Scope Z_scope.

(* ------------------------------------------------------------------ generic list facts *)
Lemma find_last_in {A} (p : A -> bool) l x : find_last p l = Some x -> In x l /\ p x = true.
Proof.
  induction l as [|y r IH]; cbn; [discriminate|].
  destruct (find_last p r) eqn:E.
  - intros H; inversion H; subst. destruct (IH eq_refl). auto.
  - destruct (p y) eqn:P; [|discriminate]. intros H; inversion H; subst. auto.
Qed.

Lemma in_ins_ig x l y : In y (ins_ig x l) <-> y = x \/ In y l.
Proof.
  induction l as [|z r IH]; cbn; [intuition|].
  destruct (span_less _ _ _ _); cbn; [intuition|]. rewrite IH. intuition.
Qed.
Lemma in_ins_sg x l y : In y (ins_sg x l) <-> y = x \/ In y l.
Proof.
  induction l as [|z r IH]; cbn; [intuition|].
  destruct (span_less _ _ _ _); cbn; [intuition|]. rewrite IH. intuition.
Qed.

Lemma in_fold_ins_ig l : forall acc y, In y (fold_left (fun a g => ins_ig g a) l acc) <-> In y l \/ In y acc.
Proof.
  induction l as [|x r IH]; cbn; intros; [intuition|]. rewrite IH, in_ins_ig. intuition.
Qed.
Lemma in_fold_ins_sg l : forall acc y, In y (fold_left (fun a g => ins_sg g a) l acc) <-> In y l \/ In y acc.
Proof.
  induction l as [|x r IH]; cbn; intros; [intuition|]. rewrite IH, in_ins_sg. intuition.
Qed.

Lemma in_rp_igs c rp g : In g (rp_igs c rp) <-> In g (c_igs c) /\ ig_rp g = rp.
Proof.
  unfold rp_igs. rewrite in_fold_ins_ig, filter_In. cbn. rewrite Z.eqb_eq. intuition.
Qed.
Lemma in_rp_sgs c rp g : In g (rp_sgs c rp) <-> In g (c_sgs c) /\ sg_rp g = rp.
Proof.
  unfold rp_sgs. rewrite in_fold_ins_sg, filter_In. cbn. rewrite Z.eqb_eq. intuition.
Qed.

(* ------------------------------------------------------------------ marking keeps ids, changes only the flag *)
Definition cs_same (x y : cshard) : Prop := cs_id y = cs_id x /\ cs_pt y = cs_pt x /\ cs_ix y = cs_ix x.
Definition ci_same (x y : cindex) : Prop := ci_id y = ci_id x /\ ci_pt y = ci_pt x.

(* the repaired marking flips a flag only on the element with the pruned id *)
Lemma mark_cs_rep_exact id l :
  Forall2 (fun x y => cs_same x y /\ (cs_md y = cs_md x \/ (cs_md y = true /\ cs_id x = id))) l (mark_cs true id l).
Proof.
  induction l as [|x r IH]; cbn; [constructor|].
  assert (R : forall l0 : list cshard, Forall2 (fun x y => cs_same x y /\ (cs_md y = cs_md x \/ (cs_md y = true /\ cs_id x = id))) l0 l0).
  { induction l0; constructor; auto. unfold cs_same. auto. }
  destruct (id <=? cs_id x) eqn:E.
  - destruct (negb (cs_id x =? id)) eqn:N; cbn.
    + apply R.
    + constructor; [|apply R]. unfold cs_same; cbn. split; [auto|]. right. split; [auto|]. lia.
  - constructor; [unfold cs_same; auto|apply IH].
Qed.
Lemma mark_ci_rep_exact id l :
  Forall2 (fun x y => ci_same x y /\ (ci_md y = ci_md x \/ (ci_md y = true /\ ci_id x = id))) l (mark_ci true id l).
Proof.
  induction l as [|x r IH]; cbn; [constructor|].
  assert (R : forall l0 : list cindex, Forall2 (fun x y => ci_same x y /\ (ci_md y = ci_md x \/ (ci_md y = true /\ ci_id x = id))) l0 l0).
  { induction l0; constructor; auto. unfold ci_same. auto. }
  destruct (id <=? ci_id x) eqn:E.
  - destruct (negb (ci_id x =? id)) eqn:N; cbn.
    + apply R.
    + constructor; [|apply R]. unfold ci_same; cbn. split; [auto|]. right. split; [auto|]. lia.
  - constructor; [unfold ci_same; auto|apply IH].
Qed.

(* any variant of the marking keeps ids, partitions and index references, and never clears a flag *)
Lemma mark_cs_same rep id l :
  Forall2 (fun x y => cs_same x y /\ (cs_md x = true -> cs_md y = true)) l (mark_cs rep id l).
Proof.
  induction l as [|x r IH]; cbn; [constructor|].
  assert (R : forall l0 : list cshard, Forall2 (fun x y => cs_same x y /\ (cs_md x = true -> cs_md y = true)) l0 l0).
  { induction l0; constructor; auto. unfold cs_same. auto. }
  destruct (id <=? cs_id x).
  - destruct (rep && negb (cs_id x =? id)); [apply R|]. constructor; [|apply R]. unfold cs_same; cbn. auto.
  - constructor; [unfold cs_same; auto|apply IH].
Qed.
Lemma mark_ci_same rep id l :
  Forall2 (fun x y => ci_same x y /\ (ci_md x = true -> ci_md y = true)) l (mark_ci rep id l).
Proof.
  induction l as [|x r IH]; cbn; [constructor|].
  assert (R : forall l0 : list cindex, Forall2 (fun x y => ci_same x y /\ (ci_md x = true -> ci_md y = true)) l0 l0).
  { induction l0; constructor; auto. unfold ci_same. auto. }
  destruct (id <=? ci_id x).
  - destruct (rep && negb (ci_id x =? id)); [apply R|]. constructor; [|apply R]. unfold ci_same; cbn. auto.
  - constructor; [unfold ci_same; auto|apply IH].
Qed.

Lemma Forall2_in_r {A B} (R : A -> B -> Prop) l l' y : Forall2 R l l' -> In y l' -> exists x, In x l /\ R x y.
Proof.
  induction 1 as [|a b l l' Hab _ IH]; cbn; [tauto|]. intros [->|H1]; [eauto|]. destruct (IH H1) as (x1 & ? & ?). eauto.
Qed.
Lemma Forall2_in_l {A B} (R : A -> B -> Prop) l l' x : Forall2 R l l' -> In x l -> exists y, In y l' /\ R x y.
Proof.
  induction 1 as [|a b l l' Hab _ IH]; cbn; [tauto|]. intros [->|H1]; [eauto|]. destruct (IH H1) as (x1 & ? & ?). eauto.
Qed.

(* ------------------------------------------------------------------ pruning: exactness, safety, progress *)
Definition sg_same_head (g g' : sgroup) : Prop :=
  sg_id g' = sg_id g /\ sg_rp g' = sg_rp g /\ sg_start g' = sg_start g /\ sg_end g' = sg_end g /\ sg_del g' = sg_del g.
Definition ig_same_head (g g' : igroup) : Prop :=
  ig_id g' = ig_id g /\ ig_rp g' = ig_rp g /\ ig_start g' = ig_start g /\ ig_end g' = ig_end g /\ ig_del g' = ig_del g.

Lemma prune_mark_sg_head rep id g : sg_same_head g (prune_mark_sg rep id g).
Proof. unfold prune_mark_sg, sg_same_head. destruct (_ && _); cbn; auto. Qed.
Lemma prune_mark_ig_head rep id g : ig_same_head g (prune_mark_ig rep id g).
Proof. unfold prune_mark_ig, ig_same_head. destruct (_ && _); cbn; auto. Qed.

Lemma Forall2_refl {A} (R : A -> A -> Prop) : (forall x, R x x) -> forall l, Forall2 R l l.
Proof. intros H; induction l; constructor; auto. Qed.

Lemma prune_mark_sg_shards rep id g :
  Forall2 (fun x y => cs_same x y /\ (cs_md x = true -> cs_md y = true)) (sg_shards g) (sg_shards (prune_mark_sg rep id g)).
Proof.
  unfold prune_mark_sg. destruct (_ && _); cbn; [apply mark_cs_same|].
  apply Forall2_refl. unfold cs_same; auto.
Qed.
Lemma prune_mark_ig_ixs rep id g :
  Forall2 (fun x y => ci_same x y /\ (ci_md x = true -> ci_md y = true)) (ig_ixs g) (ig_ixs (prune_mark_ig rep id g)).
Proof.
  unfold prune_mark_ig. destruct (_ && _); cbn; [apply mark_ci_same|].
  apply Forall2_refl. unfold ci_same; auto.
Qed.

(* exactness of the repaired pruning: every group that survives is an old group with the same head, and a shard's
   flag differs from before only if the shard has the pruned id *)
Lemma prune_sg_exact c id g' :
  In g' (c_sgs (prune_sg true c id)) ->
  exists g, In g (c_sgs c) /\ sg_same_head g g' /\
    Forall2 (fun x y => cs_same x y /\ (cs_md y = cs_md x \/ (cs_md y = true /\ cs_id x = id))) (sg_shards g) (sg_shards g').
Proof.
  unfold prune_sg; cbn. rewrite filter_In, in_map_iff. intros ((g & <- & Hg) & _).
  exists g. split; [auto|]. split; [apply prune_mark_sg_head|].
  unfold prune_mark_sg. destruct (_ && _); cbn; [apply mark_cs_rep_exact|].
  apply Forall2_refl. unfold cs_same; auto.
Qed.
Lemma prune_ig_exact c id g' :
  In g' (c_igs (prune_ig true c id)) ->
  exists g, In g (c_igs c) /\ ig_same_head g g' /\
    Forall2 (fun x y => ci_same x y /\ (ci_md y = ci_md x \/ (ci_md y = true /\ ci_id x = id))) (ig_ixs g) (ig_ixs g').
Proof.
  unfold prune_ig; cbn. rewrite filter_In, in_map_iff. intros ((g & <- & Hg) & _).
  exists g. split; [auto|]. split; [apply prune_mark_ig_head|].
  unfold prune_mark_ig. destruct (_ && _); cbn; [apply mark_ci_rep_exact|].
  apply Forall2_refl. unfold ci_same; auto.
Qed.

Lemma forallb_Forall2_marks id (l l' : list cshard) :
  Forall2 (fun x y => cs_same x y /\ (cs_md y = cs_md x \/ (cs_md y = true /\ cs_id x = id))) l l' ->
  forallb cs_md l' = true -> forall x, In x l -> cs_md x = true \/ cs_id x = id.
Proof.
  induction 1 as [|x y l l' (Hs & Hm) _ IH]; cbn; [tauto|].
  rewrite andb_true_iff. intros (Hy & Hr) z [->|Hz]; [|auto].
  destruct Hm as [E|(_ & E)]; [left; congruence|auto].
Qed.

(* safety of the repaired pruning: a group leaves the catalogue only if it was marked deleted and every one of its
   shards had been marked before or is the shard just deleted *)
Lemma prune_sg_removes_only_dead c id g :
  In g (c_sgs c) -> ~ In (prune_mark_sg true id g) (c_sgs (prune_sg true c id)) ->
  sg_del g = true /\ forall s, In s (sg_shards g) -> cs_md s = true \/ cs_id s = id.
Proof.
  intros Hg Hn. unfold prune_sg in Hn; cbn in Hn. rewrite filter_In in Hn.
  destruct (sg_del (prune_mark_sg true id g) && sg_all_marked (prune_mark_sg true id g)) eqn:E.
  - rewrite andb_true_iff in E. destruct E as (Ed & Em). split.
    + destruct (prune_mark_sg_head true id g) as (_ & _ & _ & _ & <-). auto.
    + unfold sg_all_marked in Em. eapply forallb_Forall2_marks; [|exact Em].
      unfold prune_mark_sg. destruct (_ && _); cbn; [apply mark_cs_rep_exact|].
      apply Forall2_refl. unfold cs_same; auto.
  - exfalso. apply Hn. split; [apply in_map; auto|]. reflexivity.
Qed.

(* ascending ids, as the id counter produces them inside a group *)
Fixpoint asc (l : list Z) : Prop :=
  match l with
  | [] => True
  | x :: r => (forall y, In y r -> x < y) /\ asc r
  end.

Lemma mark_cs_marks_member rep id l :
  asc (map cs_id l) -> forall x, In x l -> cs_id x = id ->
  exists y, In y (mark_cs rep id l) /\ cs_id y = id /\ cs_md y = true.
Proof.
  induction l as [|z r IH]; cbn; [tauto|]. intros (Hlt & Ha) x [->|Hx] E.
  - assert (id <=? cs_id x = true) as -> by lia.
    assert (rep && negb (cs_id x =? id) = false) as ->.
    { destruct rep; cbn; [|auto]. rewrite negb_false_iff. lia. }
    exists (cs_mark x). cbn. auto.
  - assert (cs_id z < id) by (apply Hlt; rewrite <- E; apply in_map; auto).
    assert (id <=? cs_id z = false) as -> by lia.
    destruct (IH Ha x Hx E) as (y & ? & ? & ?). exists y. cbn. auto.
Qed.

Lemma asc_first_le l x : asc (map cs_id l) -> In x l -> cs_first l <= cs_id x.
Proof.
  destruct l as [|z r]; cbn; [tauto|]. intros (Hlt & _) [->|Hx]; [lia|].
  assert (cs_id z < cs_id x) by (apply Hlt; apply in_map; auto). lia.
Qed.
Lemma asc_le_last l : asc (map cs_id l) -> forall x, In x l -> cs_id x <= cs_last l.
Proof.
  unfold cs_last. induction l as [|z r IH]; [cbn; tauto|].
  intros Ha x Hx. destruct r as [|z2 r2].
  - cbn in *. destruct Hx as [->|[]]. lia.
  - change (last (z :: z2 :: r2) _) with (last (z2 :: r2) {| cs_id := 0; cs_pt := 0; cs_ix := 0; cs_md := false |}).
    cbn [map asc] in Ha. destruct Ha as (Hlt & Ha). destruct Hx as [->|Hx].
    + assert (cs_id x < cs_id z2) by (apply Hlt; cbn; auto).
      specialize (IH Ha z2 (or_introl eq_refl)). lia.
    + apply IH; auto.
Qed.

(* every marked flag after the marking was marked before or belongs to a marked element (monotone) - and progress:
   with ascending ids a group whose remaining unmarked shard is the pruned one becomes fully marked *)
Lemma mark_cs_all rep id l :
  asc (map cs_id l) -> (forall s, In s l -> cs_md s = true \/ cs_id s = id) ->
  (exists x, In x l /\ cs_id x = id) -> forallb cs_md (mark_cs rep id l) = true.
Proof.
  induction l as [|z r IH]; cbn; [intros _ _ (x & [] & _)|].
  intros (Hlt & Ha) Hall (x & Hx & E).
  destruct (id <=? cs_id z) eqn:Le.
  - (* the first element >= id must be the member with that id *)
    assert (cs_id z = id).
    { destruct Hx as [->|Hx]; [auto|]. assert (cs_id z < cs_id x) by (apply Hlt; apply in_map; auto). lia. }
    assert (rep && negb (cs_id z =? id) = false) as ->.
    { destruct rep; cbn; [|auto]. rewrite negb_false_iff. lia. }
    cbn. apply forallb_forall. intros y Hy. destruct (Hall y (or_intror Hy)) as [|E2]; [auto|].
    assert (cs_id z < cs_id y) by (apply Hlt; apply in_map; auto). lia.
  - cbn. rewrite andb_true_iff. split.
    + destruct (Hall z (or_introl eq_refl)); [auto|lia].
    + apply IH; [auto|intros; apply Hall; auto|].
      destruct Hx as [->|Hx]; [lia|eauto].
Qed.

Lemma classic_member id (l : list cshard) : (exists x, In x l /\ cs_id x = id) \/ (forall x, In x l -> cs_id x <> id).
Proof.
  induction l as [|z r [(x & Hx & E)|IH]]; [right; cbn; tauto|left; exists x; cbn; auto|].
  destruct (Z.eq_dec (cs_id z) id) as [E|N]; [left; exists z; cbn; auto|].
  right. intros x [->|Hx]; auto.
Qed.

Lemma prune_sg_progress rep c id g :
  In g (c_sgs c) -> asc (map cs_id (sg_shards g)) -> sg_del g = true ->
  (forall s, In s (sg_shards g) -> cs_md s = true \/ cs_id s = id) ->
  (forall g2, In g2 (c_sgs c) -> sg_id g2 = sg_id g -> g2 = g) ->
  forall g', In g' (c_sgs (prune_sg rep c id)) -> sg_id g' <> sg_id g.
Proof.
  intros Hg Ha Hd Hall Hu g'. unfold prune_sg; cbn. rewrite filter_In, in_map_iff.
  intros ((g0 & <- & Hg0) & Hk) E.
  destruct (prune_mark_sg_head rep id g0) as (Ei & _ & _ & _ & Ed).
  rewrite Ei in E. specialize (Hu g0 Hg0 E). subst g0.
  rewrite negb_true_iff, andb_false_iff in Hk. destruct Hk as [Hk|Hk]; [congruence|].
  unfold sg_all_marked, prune_mark_sg in Hk.
  destruct (classic_member id (sg_shards g)) as [(x & Hx & Ex)|Hno].
  - assert (R : (cs_first (sg_shards g) <=? id) && (id <=? cs_last (sg_shards g)) = true).
    { pose proof (asc_first_le _ _ Ha Hx). pose proof (asc_le_last _ Ha _ Hx). lia. }
    rewrite R in Hk. cbn in Hk. rewrite mark_cs_all in Hk; [discriminate|auto|auto|eauto].
  - assert (All : forallb cs_md (sg_shards g) = true).
    { apply forallb_forall. intros s Hs. destruct (Hall s Hs) as [|E2]; [auto|]. exfalso. apply (Hno s); auto. }
    destruct (_ && _) in Hk; cbn in Hk; [|congruence].
    pose proof (mark_cs_same rep id (sg_shards g)) as F.
    assert (forallb cs_md (mark_cs rep id (sg_shards g)) = true); [|congruence].
    apply forallb_forall. intros y Hy. destruct (Forall2_in_r _ _ _ _ F Hy) as (x & Hx & _ & Hm).
    apply Hm. rewrite forallb_forall in All. auto.
Qed.

(* ------------------------------------------------------------------ two clocks *)
Lemma admitted_not_expired_skew d nowsec t e storenow :
  0 < d -> write_accept d nowsec t = true -> t < e -> storenow <= nowsec * 1000000000 + (e - t) ->
  expired d e storenow = false.
Proof.
  intros Hd Ha Hte Hs. apply (write_accept_window d nowsec t Hd) in Ha.
  destruct (expired d e storenow) eqn:E; [|auto]. apply expired_spec in E. lia.
Qed.

Lemma write_accept_min_time d nowsec t : write_accept d nowsec t = negb (t <? min_time d nowsec).
Proof. unfold write_accept, min_time. destruct (0 <? d); reflexivity. Qed.

Lemma admit_batch_nth d nowsec ts k t : nth_error ts k = Some t -> nth_error (admit_batch d nowsec ts) k = Some (write_accept d nowsec t).
Proof. intros H. unfold admit_batch. now rewrite nth_error_map, H. Qed.
