(* C14 - the LogKeeper flavour of the retention service (services/retention Service.HandleSharedStorage with
   metaclient.Client.GetExpiredShards / GetExpiredIndexes): deletion in two phases.
     phase 1  a shard group that is not marked and is expired under the policy's CURRENT duration (d <> 0, end + d < now)
              is marked deleted, DeletedAt := the clock reading of the pass (DelayDeleteShardGroup); from then on every
              read path skips it (Deleted()).
     phase 2  a group whose mark is at least RetentionDelayedTime (24h) old has the files of its unmarked shards removed
              and the shards pruned; THE POLICY DURATION IS NOT CONSULTED AGAIN.
     recall   RevertRetentionPolicyDelete (HTTP "recall data") clears the marks of a policy.
   Both lists of a pass are computed from one snapshot of the catalogue taken before the pass changes anything.
   The ghost field lg_markd remembers the duration in force when the mark was set (not in the code; used by the proofs). *)
From Coq Require Import ZArith List Bool Lia ZifyBool.
From OG Require Import C14.Model C14.Proofs.
Import ListNotations.
Open Scope Z_scope.

Definition DAY : Z := 24 * 3600 * 1000000000.

Record lshard := { ls_id : Z; ls_md : bool }.
Record lgroup := { lg_id : Z; lg_end : Z; lg_mark : option Z (* DeletedAt *); lg_markd : Z (* ghost *); lg_shards : list lshard }.
Record lworld := { l_d : Z; l_groups : list lgroup }.

Definition lk_to_mark (d now : Z) (g : lgroup) : bool :=
  match lg_mark g with None => expired d (lg_end g) now | Some _ => false end.
Definition lk_to_delete (now : Z) (g : lgroup) : bool :=
  match lg_mark g with None => false | Some t => negb (now <? t + DAY) end.

Definition lk_mark (d now : Z) (g : lgroup) : lgroup :=
  if lk_to_mark d now g then {| lg_id := lg_id g; lg_end := lg_end g; lg_mark := Some now; lg_markd := d; lg_shards := lg_shards g |} else g.

(* deletion record: group, shard, clock reading *)
Record ldel := { ld_gid : Z; ld_sid : Z; ld_now : Z }.

Definition lk_tick (w : lworld) (now : Z) : lworld * list ldel :=
  let dels := flat_map (fun g => if lk_to_delete now g
                                 then map (fun s => {| ld_gid := lg_id g; ld_sid := ls_id s; ld_now := now |})
                                          (filter (fun s => negb (ls_md s)) (lg_shards g))
                                 else []) (l_groups w) in
  (* every unmarked shard of such a group is removed and pruned: all its shards are then marked and the group goes *)
  ({| l_d := l_d w; l_groups := map (lk_mark (l_d w) now) (filter (fun g => negb (lk_to_delete now g)) (l_groups w)) |}, dels).

Definition lk_recall (w : lworld) : lworld :=
  {| l_d := l_d w;
     l_groups := map (fun g => {| lg_id := lg_id g; lg_end := lg_end g; lg_mark := None; lg_markd := 0; lg_shards := lg_shards g |}) (l_groups w) |}.

Inductive levent :=
| LAdd (gid endT : Z) (shards : list Z)
| LAlter (d : Z)
| LTick (now : Z)
| LRecall.

Definition lk_step (w : lworld) (e : levent) : lworld * list ldel :=
  match e with
  | LAdd gid e sh => ({| l_d := l_d w; l_groups := l_groups w ++ [{| lg_id := gid; lg_end := e; lg_mark := None; lg_markd := 0;
                                                                    lg_shards := map (fun s => {| ls_id := s; ls_md := false |}) sh |}] |}, [])
  | LAlter d => ({| l_d := d; l_groups := l_groups w |}, [])
  | LTick now => lk_tick w now
  | LRecall => (lk_recall w, [])
  end.

Fixpoint lk_run (w : lworld) (es : list levent) : lworld * list ldel :=
  match es with
  | [] => (w, [])
  | e :: r => let '(w1, d1) := lk_step w e in let '(w2, d2) := lk_run w1 r in (w2, d1 ++ d2)
  end.

(* ------------------------------------------------------------------ proofs *)
(* every mark was justified when it was set: the group was expired under the duration then in force *)
Definition LInv (w : lworld) : Prop :=
  forall g t, In g (l_groups w) -> lg_mark g = Some t -> lg_markd g <> 0 /\ lg_end g + lg_markd g < t.

Lemma LInv_step w e : LInv w -> LInv (fst (lk_step w e)).
Proof.
  intros I. destruct e; cbn.
  - intros g t Hg Hm. apply in_app_or in Hg. destruct Hg as [Hg|[<-|[]]]; [eauto|discriminate].
  - exact I.
  - intros g t Hg Hm. apply in_map_iff in Hg. destruct Hg as (g0 & <- & Hg0). apply filter_In in Hg0. destruct Hg0 as (Hg0 & _).
    unfold lk_mark in *. destruct (lk_to_mark (l_d w) now g0) eqn:E; [|eauto].
    cbn in *. inversion Hm; subst. unfold lk_to_mark in E. destruct (lg_mark g0); [discriminate|]. apply expired_spec in E. exact E.
  - intros g t Hg Hm. apply in_map_iff in Hg. destruct Hg as (g0 & <- & _). discriminate.
Qed.

Lemma LInv_run es : forall w, LInv w -> LInv (fst (lk_run w es)).
Proof.
  induction es as [|e r IH]; cbn; [auto|]. intros w I. pose proof (LInv_step w e I) as H.
  destruct (lk_step w e) as (w1, d1). cbn in H. specialize (IH w1 H). destruct (lk_run w1 r) as (w2, d2). auto.
Qed.

(* a pass deletes only shards of groups whose mark is at least a day old *)
Lemma lk_tick_deletes w now r :
  In r (snd (lk_tick w now)) ->
  exists g t, In g (l_groups w) /\ lg_id g = ld_gid r /\ lg_mark g = Some t /\ t + DAY <= now /\ ld_now r = now.
Proof.
  cbn. intros H. apply in_flat_map in H. destruct H as (g & Hg & H). destruct (lk_to_delete now g) eqn:E; [|destruct H].
  apply in_map_iff in H. destruct H as (s & <- & _). unfold lk_to_delete in E. destruct (lg_mark g) as [t|] eqn:M; [|discriminate].
  exists g, t. repeat split; auto. apply negb_true_iff in E. apply Z.ltb_ge in E. exact E.
Qed.

Lemma lk_run_app w es1 es2 :
  lk_run w (es1 ++ es2) = (fst (lk_run (fst (lk_run w es1)) es2), snd (lk_run w es1) ++ snd (lk_run (fst (lk_run w es1)) es2)).
Proof.
  revert w. induction es1 as [|e r IH]; intros w; cbn; [destruct (lk_run w es2); reflexivity|].
  destruct (lk_step w e) as (w1, d1). rewrite IH. destruct (lk_run w1 r) as (w2, d2). cbn. now rewrite app_assoc.
Qed.

Lemma lk_run_origin es : forall w r, In r (snd (lk_run w es)) ->
  exists pre post, es = pre ++ LTick (ld_now r) :: post /\ In r (snd (lk_tick (fst (lk_run w pre)) (ld_now r))).
Proof.
  induction es as [|e es IH]; cbn; intros w r H; [destruct H|].
  destruct (lk_step w e) as (w1, d1) eqn:S. destruct (lk_run w1 es) as (w2, d2) eqn:R. cbn in H.
  apply in_app_or in H. destruct H as [H|H].
  - destruct e; cbn [lk_step] in S; try (injection S as <- <-; destruct H).
    assert (Ed : d1 = snd (lk_tick w now)) by (rewrite S; reflexivity). subst d1.
    assert (En : ld_now r = now) by (destruct (lk_tick_deletes w now r H) as (_ & _ & _ & _ & _ & _ & E); exact E).
    exists [], es. rewrite En. split; [reflexivity|exact H].
  - specialize (IH w1 r). rewrite R in IH. destruct (IH H) as (pre & post & -> & Hin).
    exists (e :: pre), post. split; [reflexivity|]. cbn. rewrite S. destruct (lk_run w1 pre). exact Hin.
Qed.

(* SAFETY over every history: whatever is physically deleted belongs to a group that was marked at some clock reading t
   at which it was expired under the duration then in force (d <> 0, end + d < t), the mark was not recalled, and at
   least 24h have passed since *)
Lemma lk_safety es w0 r :
  LInv w0 -> In r (snd (lk_run w0 es)) ->
  exists g t, lg_id g = ld_gid r /\ lg_mark g = Some t /\ lg_markd g <> 0 /\ lg_end g + lg_markd g < t /\ t + DAY <= ld_now r.
Proof.
  intros I H. destruct (lk_run_origin es w0 r H) as (pre & post & -> & Hin).
  destruct (lk_tick_deletes _ _ _ Hin) as (g & t & Hg & Eg & Em & Et & _).
  destruct (LInv_run pre w0 I g t Hg Em) as (A & B). exists g, t. auto.
Qed.

(* raising (or un-limiting) the duration BEFORE the mark keeps the group: a pass does not mark what is not expired under
   the current duration *)
Lemma lk_raise_before_mark w now g :
  In g (l_groups w) -> lg_mark g = None -> expired (l_d w) (lg_end g) now = false ->
  In g (l_groups (fst (lk_tick w now))).
Proof.
  intros Hg Hm He. cbn. apply in_map_iff. exists g. split.
  - unfold lk_mark, lk_to_mark. rewrite Hm, He. reflexivity.
  - apply filter_In. split; [auto|]. unfold lk_to_delete. now rewrite Hm.
Qed.

(* a recall clears every mark: the next pass deletes nothing *)
Lemma lk_recall_cancels w now : snd (lk_tick (lk_recall w) now) = [].
Proof.
  cbn. induction (l_groups w) as [|g r IH]; cbn; [reflexivity|]. exact IH.
Qed.

(* ------------------------------------------------------------------ documented behaviour + correspondence evaluator *)
(* "raising the duration after the mark does not cancel the deletion without an explicit recall": a group expired under
   d = 1h is marked; the policy is made unlimited; 24h after the mark the pass deletes the group's shards all the same.
   The mark is the moment the deletion takes effect for readers (every read path skips Deleted() groups); the 24h are a
   grace period in which "recall data" (LRecall) brings the group back - see NOTES. *)
Example lk_raise_after_mark_is_not_a_recall :
  let H := 3600000000000 in
  snd (lk_run {| l_d := H; l_groups := [] |} [LAdd 1 (10 * H) [1; 2]; LTick (11 * H + 1); LAlter 0; LTick (11 * H + 1 + DAY)])
    = [{| ld_gid := 1; ld_sid := 1; ld_now := 11 * H + 1 + DAY |}; {| ld_gid := 1; ld_sid := 2; ld_now := 11 * H + 1 + DAY |}] /\
  snd (lk_run {| l_d := H; l_groups := [] |} [LAdd 1 (10 * H) [1; 2]; LTick (11 * H + 1); LAlter 0; LRecall; LTick (11 * H + 1 + DAY)]) = [] /\
  snd (lk_run {| l_d := H; l_groups := [] |} [LAdd 1 (10 * H) [1; 2]; LAlter 0; LTick (11 * H + 1); LTick (11 * H + 1 + DAY)]) = [].
Proof. vm_compute. auto. Qed.

Definition lobs := (list (Z * Z * option Z * list (Z * bool)) * list Z)%type.
Fixpoint ins_z (x : Z) (l : list Z) : list Z := match l with [] => [x] | y :: r => if x <=? y then x :: l else y :: ins_z x r end.
Definition lk_obs (w : lworld) (dl : list ldel) : lobs :=
  (map (fun g => (lg_id g, lg_end g, lg_mark g, map (fun s => (ls_id s, ls_md s)) (lg_shards g))) (l_groups w),
   fold_right ins_z [] (map ld_sid dl)).
Fixpoint eqb_list {A} (e : A -> A -> bool) (a b : list A) : bool :=
  match a, b with [], [] => true | x :: a', y :: b' => e x y && eqb_list e a' b' | _, _ => false end.
Definition oz_eqb (a b : option Z) : bool := match a, b with None, None => true | Some x, Some y => x =? y | _, _ => false end.
Definition lobs_eqb (a b : lobs) : bool :=
  eqb_list (fun x y => match x, y with (i1, e1, m1, s1), (i2, e2, m2, s2) =>
              (i1 =? i2) && (e1 =? e2) && oz_eqb m1 m2 && eqb_list (fun p q : Z * bool => (fst p =? fst q) && Bool.eqb (snd p) (snd q)) s1 s2 end)
           (fst a) (fst b) && eqb_list Z.eqb (snd a) (snd b).
(* groups are compared in id order: the harness sorts, the model keeps creation order = id order *)
Fixpoint lk_check_from (i : nat) (w : lworld) (es : list levent) (os : list lobs) : option nat :=
  match es, os with
  | [], _ => None
  | e :: es', o :: os' => let '(w', dl) := lk_step w e in if lobs_eqb (lk_obs w' dl) o then lk_check_from (S i) w' es' os' else Some i
  | _ :: _, [] => Some i
  end.
Definition lkcase := (Z * list levent * list lobs)%type.
Definition lk_verdict (c : lkcase) : nat :=
  match c with (d0, es, os) => match lk_check_from 0 {| l_d := d0; l_groups := [] |} es os with None => O | Some i => S i end end.
Definition lk_verdicts (cs : list lkcase) : list nat := map lk_verdict cs.
