(* C14 - node level: one pass of the retention service (xtick) deletes an index only if every shard of the node that
   refers to it is deleted by the same pass, when the catalogue satisfies XInv and the node agrees with the catalogue. *)
From Coq Require Import ZArith List Bool Lia ZifyBool.
From OG Require Import C14.Model C14.Proofs C14.XModel C14.XProofs C14.XInv.
Import ListNotations.
Open Scope Z_scope.

(* the node's shard / index is the one the catalogue lists for this partition, with the span the catalogue gives it *)
Definition listed_shard (c : cat) (pt : Z) (s : xshard) : Prop :=
  exists sg cs, In sg (c_sgs c) /\ In cs (sg_shards sg) /\ cs_id cs = xs_id s /\ cs_pt cs = pt /\ cs_ix cs = xs_ix s /\ sg_end sg = xs_end s.
Definition listed_index (c : cat) (pt : Z) (i : xindex) : Prop :=
  exists ig ci, In ig (c_igs c) /\ In ci (ig_ixs ig) /\ ci_id ci = xi_id i /\ ci_pt ci = pt /\ ig_end ig <= xi_end i.

Record NodeOK (w : xworld) (pt : Z) : Prop := {
  nk_sh : forall s, In s (x_shards w) -> xs_pt s = pt -> listed_shard (x_cat w) pt s;
  nk_ix : forall i, In i (x_ixs w) -> xi_pt i = pt -> listed_index (x_cat w) pt i;
  nk_ref : forall s, In s (x_shards w) -> xs_pt s = pt -> has_ix (x_ixs w) (xs_ix s) pt = true;   (* its index is on the node *)
  nk_uniq : forall s s', In s (x_shards w) -> In s' (x_shards w) -> xs_id s = xs_id s' -> s = s'
}.

Lemma in_shard_infos c pt f :
  In f (shard_infos c pt) <->
  exists sg cs, In sg (c_sgs c) /\ In cs (sg_shards sg) /\ cs_pt cs = pt /\
    f = {| si_id := cs_id cs; si_gid := sg_id sg; si_rp := sg_rp sg; si_end := sg_end sg; si_d := pol_d c (sg_rp sg) |}.
Proof.
  unfold shard_infos. rewrite in_flat_map. split.
  - intros (sg & Hsg & H). apply in_map_iff in H. destruct H as (cs & <- & H). apply filter_In in H. destruct H as (H & E).
    exists sg, cs. repeat split; auto. lia.
  - intros (sg & cs & Hsg & Hcs & E & ->). exists sg. split; [auto|]. apply in_map_iff. exists cs. split; [auto|].
    apply filter_In. split; [auto|lia].
Qed.
Lemma in_index_infos c pt f :
  In f (index_infos c pt) <->
  exists ig ci, In ig (c_igs c) /\ In ci (ig_ixs ig) /\ ci_pt ci = pt /\
    f = {| si_id := ci_id ci; si_gid := ig_id ig; si_rp := ig_rp ig; si_end := ig_end ig; si_d := pol_d c (ig_rp ig) |}.
Proof.
  unfold index_infos. rewrite in_flat_map. split.
  - intros (ig & Hig & H). apply in_map_iff in H. destruct H as (ci & <- & H). apply filter_In in H. destruct H as (H & E).
    exists ig, ci. repeat split; auto. lia.
  - intros (ig & ci & Hig & Hci & E & ->). exists ig. split; [auto|]. apply in_map_iff. exists ci. split; [auto|].
    apply filter_In. split; [auto|lia].
Qed.

Lemma find_info_some l id : (exists f, In f l /\ si_id f = id) -> exists f', find_info l id = Some f' /\ In f' l /\ si_id f' = id.
Proof.
  intros (f & Hf & E). unfold find_info. destruct (find (fun i => si_id i =? id) l) as [f'|] eqn:F.
  - apply find_some in F. destruct F. exists f'. repeat split; auto. lia.
  - exfalso. pose proof (find_none _ _ F f Hf) as N. cbn in N. lia.
Qed.

Lemma refresh_shard_fields infos pt s :
  xs_id (refresh_shard infos pt s) = xs_id s /\ xs_pt (refresh_shard infos pt s) = xs_pt s /\
  xs_end (refresh_shard infos pt s) = xs_end s /\ xs_ix (refresh_shard infos pt s) = xs_ix s /\
  xs_loaded (refresh_shard infos pt s) = xs_loaded s.
Proof.
  unfold refresh_shard. destruct ((xs_pt s =? pt) && xs_loaded s) eqn:E; [|auto].
  destruct (find_info infos (xs_id s)); cbn; repeat split; auto. rewrite andb_true_iff in E. symmetry. tauto.
Qed.
Lemma push_ix_fields infos shs pt i :
  xi_id (push_ix infos shs pt i) = xi_id i /\ xi_pt (push_ix infos shs pt i) = xi_pt i /\ xi_end (push_ix infos shs pt i) = xi_end i.
Proof. unfold push_ix. destruct (xi_pt i =? pt); [|auto]. destruct (find_last _ _); cbn; auto. Qed.
Lemma refresh_ix_fields infos pt i :
  xi_id (refresh_ix infos pt i) = xi_id i /\ xi_pt (refresh_ix infos pt i) = xi_pt i /\ xi_end (refresh_ix infos pt i) = xi_end i.
Proof. unfold refresh_ix. destruct (xi_pt i =? pt); [|auto]. destruct (find_info _ _); cbn; auto. Qed.

Lemma has_ix_map (f : xindex -> xindex) l id pt :
  (forall i, xi_id (f i) = xi_id i /\ xi_pt (f i) = xi_pt i) -> has_ix (map f l) id pt = has_ix l id pt.
Proof.
  intros H. unfold has_ix. induction l as [|x r IH]; cbn; [auto|]. destruct (H x) as (-> & ->). now rewrite IH.
Qed.

(* the theorem; `now` is the clock reading of the pass's shard decisions, `now2` that of its index decisions *)
Lemma xtick_index_victims rep w pt now now2 :
  XInv (x_cat w) -> NodeOK w pt ->
  forall X, In X (l_ixs (snd (xtick rep w pt now now2))) ->
  forall s, In s (x_shards w) -> xs_pt s = pt -> xs_ix s = X ->
    exists sg cs, In sg (c_sgs (x_cat w)) /\ In cs (sg_shards sg) /\ cs_id cs = xs_id s /\ sg_end sg = xs_end s /\
                  expired (pol_d (x_cat w) (sg_rp sg)) (sg_end sg) now2 = true /\
                  (expired (pol_d (x_cat w) (sg_rp sg)) (sg_end sg) now = true ->
                   In (xs_id s) (l_shards (snd (xtick rep w pt now now2)))).
Proof.
  intros I N X HX s Hs Hpt HsX.
  set (c := x_cat w) in *.
  set (sinf := shard_infos c pt). set (iinf := index_infos c pt).
  set (shs1 := map (refresh_shard sinf pt) (x_shards w)).
  set (ixs1 := map (refresh_ix iinf pt) (map (push_ix sinf shs1 pt) (x_ixs w))).
  assert (EX : l_ixs (snd (xtick rep w pt now now2)) = map v_id (expired_ixs_x ixs1 iinf pt now2)) by reflexivity.
  assert (ES : l_shards (snd (xtick rep w pt now now2)) = map v_id (expired_shards_x shs1 sinf pt now)) by reflexivity.
  rewrite EX in HX. rewrite ES. clear EX ES.
  destruct (nk_sh _ _ N s Hs Hpt) as (sg & cs & Hsg & Hcs & Ecs & Ecpt & Ecix & Eend).
  apply in_map_iff in HX. destruct HX as (v & Ev & Hv). unfold expired_ixs_x in Hv. apply in_app_or in Hv.
  assert (Hix : has_ix ixs1 X pt = has_ix (x_ixs w) X pt).
  { unfold ixs1. rewrite has_ix_map; [|intros i; destruct (refresh_ix_fields iinf pt i) as (A & B & _); auto].
    apply has_ix_map. intros i; destruct (push_ix_fields sinf shs1 pt i) as (A & B & _); auto. }
  destruct Hv as [Hv|Hv].
  2:{ exfalso. apply in_map_iff in Hv. destruct Hv as (f & <- & Hf). apply filter_In in Hf. destruct Hf as (_ & Hf).
      cbn in Ev. rewrite andb_true_iff, negb_true_iff in Hf. destruct Hf as (Hf & _).
      rewrite Ev, Hix in Hf. pose proof (nk_ref _ _ N s Hs Hpt) as R. rewrite HsX in R. congruence. }
  apply in_map_iff in Hv. destruct Hv as (i1 & <- & Hi1). apply filter_In in Hi1. destruct Hi1 as (Hi1 & Fi1). cbn in Ev.
  rewrite andb_true_iff in Fi1. destruct Fi1 as (Ept1 & Exp1).
  unfold ixs1 in Hi1. apply in_map_iff in Hi1. destruct Hi1 as (i2 & <- & Hi2). apply in_map_iff in Hi2. destruct Hi2 as (i0 & <- & Hi0).
  set (ip := push_ix sinf shs1 pt i0) in *.
  destruct (push_ix_fields sinf shs1 pt i0) as (P1 & P2 & P3). fold ip in P1, P2, P3.
  destruct (refresh_ix_fields iinf pt ip) as (R1 & R2 & R3).
  assert (Ei0 : xi_id i0 = X) by congruence. assert (Ei0pt : xi_pt i0 = pt) by lia.
  destruct (nk_ix _ _ N i0 Hi0 Ei0pt) as (ig & ci & Hig & Hci & Eci & Ecipt & Eigend).
  assert (Hfi : exists f, In f iinf /\ si_id f = xi_id ip).
  { eexists. split; [apply in_index_infos; exists ig, ci; repeat split; eauto|]. cbn. congruence. }
  destruct (find_info_some _ _ Hfi) as (f' & Ff & Hf' & Ef').
  assert (Edur : xi_dur (refresh_ix iinf pt ip) = si_d f').
  { unfold refresh_ix. assert (xi_pt ip =? pt = true) as -> by lia. rewrite Ff. reflexivity. }
  apply in_index_infos in Hf'. destruct Hf' as (ig' & ci' & Hig' & Hci' & _ & ->). cbn in Ef', Edur.
  destruct (xv_ixu _ I ig' ig ci' ci Hig' Hig Hci' Hci) as (U1 & U2); [congruence|].
  destruct (xv_cover _ I sg cs ig ci Hsg Hcs Hig Hci) as (Cv & Crp); [congruence|].
  rewrite Edur, R3, P3 in Exp1. rewrite U2, Crp in Exp1.
  assert (Hexp : expired (pol_d c (sg_rp sg)) (sg_end sg) now2 = true).
  { apply expired_spec in Exp1. apply expired_spec. destruct Exp1. split; [auto|lia]. }
  exists sg, cs. repeat split; auto. clear Hexp. intros Hexp.
  apply in_map_iff. unfold expired_shards_x.
  assert (Hfs : In {| si_id := cs_id cs; si_gid := sg_id sg; si_rp := sg_rp sg; si_end := sg_end sg; si_d := pol_d c (sg_rp sg) |} sinf).
  { apply in_shard_infos. exists sg, cs. repeat split; auto. }
  destruct (xs_loaded s) eqn:L.
  - destruct (find_info_some sinf (xs_id s)) as (g' & Fg & Hg' & Eg'); [eexists; split; [exact Hfs|cbn; auto]|].
    apply in_shard_infos in Hg'. destruct Hg' as (sg2 & cs2 & Hsg2 & Hcs2 & _ & ->). cbn in Eg'.
    destruct (xv_shu _ I sg2 sg cs2 cs Hsg2 Hsg Hcs2 Hcs) as (V1 & V2 & _); [congruence|].
    exists {| v_id := xs_id s; v_gid := sg_id sg2; v_rp := xs_rp s |}. split; [reflexivity|]. apply in_or_app. left.
    apply in_map_iff. exists (refresh_shard sinf pt s). split.
    + unfold refresh_shard. assert ((xs_pt s =? pt) && xs_loaded s = true) as -> by (rewrite L; lia). rewrite Fg. reflexivity.
    + apply filter_In. split; [apply in_map; auto|].
      unfold refresh_shard. assert ((xs_pt s =? pt) && xs_loaded s = true) as -> by (rewrite L; lia). rewrite Fg. cbn.
      rewrite V2, <- Eend. rewrite andb_true_iff. split; [lia|exact Hexp].
  - eexists. split; [|apply in_or_app; right; apply in_map_iff; eexists; split; [reflexivity|apply filter_In; split; [exact Hfs|]]].
    + cbn. auto.
    + cbn. rewrite andb_true_iff, negb_true_iff. split; [|exact Hexp].
      destruct (existsb _ shs1) eqn:Ex; [|auto]. exfalso. apply existsb_exists in Ex. destruct Ex as (s1 & Hs1 & Q).
      unfold shs1 in Hs1. apply in_map_iff in Hs1. destruct Hs1 as (s0 & <- & Hs0).
      destruct (refresh_shard_fields sinf pt s0) as (A & B & _ & _ & D). rewrite A, B, D in Q.
      assert (s0 = s) by (apply (nk_uniq _ _ N); auto; lia). subst s0. rewrite L in Q. lia.
Qed.
