(* C14 property theorems. Nothing but statements closed by `exact lemma` and Print Assumptions. *)
From Coq Require Import ZArith List Bool.
From OG Require Import C14.Model C14.Proofs C14.Inv.
Import ListNotations.
Open Scope Z_scope.

(* the decision rule: deleted only if the duration is limited and the whole span ended more than d ago (strict) *)
Theorem C14_expired_iff : forall d e n, expired d e n = true <-> d <> 0 /\ e + d < n.
Proof. exact expired_spec. Qed.
Print Assumptions C14_expired_iff.

(* Safety over every trace of ticks / policy alterations / group creations / restarts, from any start world:
   every deletion happened at a tick, concerns a shard of the node at that moment, and is justified by the
   duration in force in the catalogue at that very step (listed shard), or - for a loaded shard the catalogue no
   longer lists - by the duration the node last learnt. An unloaded unlisted shard is never deleted. *)
Theorem C14_safety : forall es w0 r,
  In r (snd (run w0 es)) ->
  exists pre post s0,
    es = pre ++ Tick (del_now r) :: post /\
    let w := fst (run w0 pre) in
    In s0 (node w) /\ n_id (del_shard r) = n_id s0 /\ n_end (del_shard r) = n_end s0 /\
    del_dur r = policy_dur (policies w) (n_rp s0) /\ justified w (del_now r) s0.
Proof. exact safety_all_traces. Qed.
Print Assumptions C14_safety.

Theorem C14_unlimited_never : forall w now s,
  listed (groups w) s = true -> policy_dur (policies w) (n_rp s) = Some 0 ->
  shard_expired (groups (refresh w)) now (refresh_one w s) = false.
Proof. exact unlimited_not_selected. Qed.
Print Assumptions C14_unlimited_never.

(* a point with t < group end that is still inside the window [now - d, ..) keeps its shard *)
Theorem C14_in_window_survives : forall d e t now, t < e -> now - d <= t -> expired d e now = false.
Proof. exact in_window_not_expired. Qed.
Print Assumptions C14_in_window_survives.

Theorem C14_write_window : forall d nowsec t, 0 < d -> write_accept d nowsec t = true <-> nowsec * 1000000000 - d <= t.
Proof. exact write_accept_window. Qed.
Print Assumptions C14_write_window.

Theorem C14_raise_before_effect_keeps : forall w now s rp d',
  listed (groups w) s = true -> n_rp s = rp -> policy_dur (policies w) rp <> None ->
  ~ (d' <> 0 /\ n_end s + d' < now) ->
  shard_expired (groups (refresh (alter w rp d'))) now (refresh_one (alter w rp d') s) = false.
Proof. exact raise_before_tick_keeps. Qed.
Print Assumptions C14_raise_before_effect_keeps.

(* progress: after one run of the service no shard that is expired (under the refreshed durations) remains, and a
   listed shard of a finite policy whose span ended more than d ago is gone from the node *)
Theorem C14_tick_removes_expired : forall w now x,
  In x (node (fst (tick w now))) -> shard_expired (groups (refresh w)) now x = false.
Proof. exact tick_removes_expired. Qed.
Print Assumptions C14_tick_removes_expired.

Theorem C14_eventual_removal_node : forall w now s d,
  In s (node w) -> listed (groups w) s = true -> policy_dur (policies w) (n_rp s) = Some d ->
  d <> 0 -> n_end s + d < now ->
  forall x, In x (node (fst (tick w now))) -> n_id x <> n_id s.
Proof. exact tick_eventual. Qed.
Print Assumptions C14_eventual_removal_node.

(* The closed form. `Inv` (C14/Inv.v) is the catalogue/node consistency invariant (every shard of the node is listed
   in the catalogue and has a policy; shard ids ascending inside a group, id ranges of groups disjoint; unmarked
   catalogue entries for the node's shards; node ids unique). It holds initially, is preserved by every event whose
   created groups take fresh larger ids (as the id counters guarantee), and under it EVERY deletion in EVERY trace is
   justified by the policy duration in force in the catalogue at the deciding step: limited, and end + d < now. *)
Theorem C14_inv_init : forall ps, Inv {| policies := ps; groups := []; node := [] |}.
Proof. exact Inv_init. Qed.
Theorem C14_inv_preserved : forall es w, Inv w -> wf_trace w es -> Inv (fst (run w es)).
Proof. exact Inv_run. Qed.
Print Assumptions C14_inv_preserved.

Theorem C14_safety_closed : forall es w0 r,
  Inv w0 -> wf_trace w0 es -> In r (snd (run w0 es)) ->
  exists d, del_dur r = Some d /\ d <> 0 /\ n_end (del_shard r) + d < del_now r.
Proof. exact safety_closed. Qed.
Print Assumptions C14_safety_closed.

(* progress on the catalogue: one run of the service removes from the catalogue every expired group of a limited
   policy whose live shards are all on this node (single-owner view), because all of them are deleted, marked,
   and the group - now marked deleted with every shard marked - is pruned *)
Theorem C14_eventual_removal_catalogue : forall w now g d,
  Inv w -> In g (groups w) ->
  (forall g2, In g2 (groups w) -> g_id g2 = g_id g -> g2 = g) ->
  policy_dur (policies w) (g_rp g) = Some d -> d <> 0 -> g_end g + d < now ->
  (forall x, In x (g_shards g) -> gs_markdel x = false ->
     exists s, In s (node w) /\ n_id s = gs_id x /\ n_gid s = g_id g /\ n_rp s = g_rp g /\ n_end s = g_end g) ->
  (exists x, In x (g_shards g) /\ gs_markdel x = false) ->
  forall g', In g' (groups (fst (tick w now))) -> g_id g' <> g_id g.
Proof. exact tick_prunes_group. Qed.
Print Assumptions C14_eventual_removal_catalogue.

(* boundary instants *)
Theorem C14_boundary_at : forall d e, expired d e (e + d) = false.
Proof. exact expired_boundary. Qed.
Theorem C14_boundary_after : forall d e, d <> 0 -> expired d e (e + d + 1) = true.
Proof. exact expired_just_after. Qed.
Print Assumptions C14_boundary_after.

(* non-vacuity: a concrete world in which a tick deletes exactly the expired shard and prunes its group *)
Example C14_example :
  let g1 := {| g_id := 1; g_rp := 7; g_start := 0; g_end := 100; g_deleted := false; g_shards := [{| gs_id := 1; gs_markdel := false |}; {| gs_id := 2; gs_markdel := false |}] |} in
  let g2 := {| g_id := 2; g_rp := 7; g_start := 100; g_end := 200; g_deleted := false; g_shards := [{| gs_id := 3; gs_markdel := false |}] |} in
  let w0 := {| policies := [{| p_id := 7; p_dur := 50 |}]; groups := []; node := [] |} in
  let '(w, log) := run w0 [AddGroup g1 true; AddGroup g2 false; Tick 150; Tick 151; Alter 7 0; Tick 1000] in
  obs_node w = [3] /\ map g_id (groups w) = [2] /\ map (fun r => (n_id (del_shard r), del_now r)) log = [(1, 151); (2, 151)].
Proof. vm_compute. repeat split. Qed.
