(* C14 property theorems. Nothing but statements closed by `exact lemma` and Print Assumptions. *)
From Coq Require Import ZArith List Bool Lia.
From OG Require Import C14.Model C14.Proofs C14.Inv C14.XModel C14.XProofs C14.XInv C14.XNode C14.XAgree C14.XAgreeIx C14.LK C14.XGuard C14.TTL C14.Mono.
Import ListNotations.
Open Scope Z_scope.

(* the decision rule: deleted only if the duration is limited and the whole span ended more than d ago (strict) *)
Theorem C14_expired_iff : forall d e n, expired d e n = true <-> d <> 0 /\ e + d < n.
Proof. exact expired_spec. Qed.
Print Assumptions C14_expired_iff.

(* monotonicity of the rule (Mono.v): the clock only turns kept into expired; a later end never expires earlier (groups of a
   policy leave in the order of their ends); a longer limited duration never expires more; first expired instant = e + d + 1 *)
Theorem C14_expired_mono_now : forall d e n n', n <= n' -> expired d e n = true -> expired d e n' = true.
Proof. exact expired_mono_now. Qed.
Print Assumptions C14_expired_mono_now.
Theorem C14_expired_anti_end : forall d e e' n, e <= e' -> expired d e' n = true -> expired d e n = true.
Proof. exact expired_anti_end. Qed.
Print Assumptions C14_expired_anti_end.
Theorem C14_expired_anti_dur : forall d d' e n, 0 < d <= d' -> expired d' e n = true -> expired d e n = true.
Proof. exact expired_anti_dur. Qed.
Print Assumptions C14_expired_anti_dur.
Theorem C14_expired_in_end_order : forall d e1 e2 n, e1 <= e2 -> expired d e1 n = false -> expired d e2 n = false.
Proof. exact expired_in_end_order. Qed.
Print Assumptions C14_expired_in_end_order.
Theorem C14_expired_first_instant : forall d e n, d <> 0 -> (expired d e n = true <-> e + d + 1 <= n).
Proof. exact expired_first_instant. Qed.
Print Assumptions C14_expired_first_instant.

(* Safety over every trace of ticks / policy alterations / group creations / restarts, from any start world:
   every deletion happened at a tick, concerns a shard of the node at that moment, and is justified by the
   duration in force in the catalogue at that very step (listed shard), or - for a loaded shard the catalogue no
   longer lists - by the duration the node last learnt. An unloaded unlisted shard is never deleted. *)
Theorem C14_safety : forall es w0 r,
  In r (snd (run w0 es)) ->
  exists pre post s0,
    es = pre ++ Tick (del_now r) :: post /\
    let w := fst (run w0 pre) in
    In s0 (node w) /\ n_id (del_shard r) = n_id s0 /\ n_end (del_shard r) = n_end s0 /\
    del_dur r = policy_dur (policies w) (n_rp s0) /\ justified w (del_now r) s0.
Proof. exact safety_all_traces. Qed.
Print Assumptions C14_safety.

Theorem C14_unlimited_never : forall w now s,
  listed (groups w) s = true -> policy_dur (policies w) (n_rp s) = Some 0 ->
  shard_expired (groups (refresh w)) now (refresh_one w s) = false.
Proof. exact unlimited_not_selected. Qed.
Print Assumptions C14_unlimited_never.

(* a point with t < group end that is still inside the window [now - d, ..) keeps its shard *)
Theorem C14_in_window_survives : forall d e t now, t < e -> now - d <= t -> expired d e now = false.
Proof. exact in_window_not_expired. Qed.
Print Assumptions C14_in_window_survives.

Theorem C14_write_window : forall d nowsec t, 0 < d -> write_accept d nowsec t = true <-> nowsec * 1000000000 - d <= t.
Proof. exact write_accept_window. Qed.
Print Assumptions C14_write_window.

Theorem C14_raise_before_effect_keeps : forall w now s rp d',
  listed (groups w) s = true -> n_rp s = rp -> policy_dur (policies w) rp <> None ->
  ~ (d' <> 0 /\ n_end s + d' < now) ->
  shard_expired (groups (refresh (alter w rp d'))) now (refresh_one (alter w rp d') s) = false.
Proof. exact raise_before_tick_keeps. Qed.
Print Assumptions C14_raise_before_effect_keeps.

(* progress: after one run of the service no shard that is expired (under the refreshed durations) remains, and a
   listed shard of a finite policy whose span ended more than d ago is gone from the node *)
Theorem C14_tick_removes_expired : forall w now x,
  In x (node (fst (tick w now))) -> shard_expired (groups (refresh w)) now x = false.
Proof. exact tick_removes_expired. Qed.
Print Assumptions C14_tick_removes_expired.

Theorem C14_eventual_removal_node : forall w now s d,
  In s (node w) -> listed (groups w) s = true -> policy_dur (policies w) (n_rp s) = Some d ->
  d <> 0 -> n_end s + d < now ->
  forall x, In x (node (fst (tick w now))) -> n_id x <> n_id s.
Proof. exact tick_eventual. Qed.
Print Assumptions C14_eventual_removal_node.

(* The closed form. `Inv` (C14/Inv.v) is the catalogue/node consistency invariant (every shard of the node is listed
   in the catalogue and has a policy; shard ids ascending inside a group, id ranges of groups disjoint; unmarked
   catalogue entries for the node's shards; node ids unique). It holds initially, is preserved by every event whose
   created groups take fresh larger ids (as the id counters guarantee), and under it EVERY deletion in EVERY trace is
   justified by the policy duration in force in the catalogue at the deciding step: limited, and end + d < now. *)
Theorem C14_inv_init : forall ps, Inv {| policies := ps; groups := []; node := [] |}.
Proof. exact Inv_init. Qed.
Theorem C14_inv_preserved : forall es w, Inv w -> wf_trace w es -> Inv (fst (run w es)).
Proof. exact Inv_run. Qed.
Print Assumptions C14_inv_preserved.

Theorem C14_safety_closed : forall es w0 r,
  Inv w0 -> wf_trace w0 es -> In r (snd (run w0 es)) ->
  exists d, del_dur r = Some d /\ d <> 0 /\ n_end (del_shard r) + d < del_now r.
Proof. exact safety_closed. Qed.
Print Assumptions C14_safety_closed.

(* progress on the catalogue: one run of the service removes from the catalogue every expired group of a limited
   policy whose live shards are all on this node (single-owner view), because all of them are deleted, marked,
   and the group - now marked deleted with every shard marked - is pruned *)
Theorem C14_eventual_removal_catalogue : forall w now g d,
  Inv w -> In g (groups w) ->
  (forall g2, In g2 (groups w) -> g_id g2 = g_id g -> g2 = g) ->
  policy_dur (policies w) (g_rp g) = Some d -> d <> 0 -> g_end g + d < now ->
  (forall x, In x (g_shards g) -> gs_markdel x = false ->
     exists s, In s (node w) /\ n_id s = gs_id x /\ n_gid s = g_id g /\ n_rp s = g_rp g /\ n_end s = g_end g) ->
  (exists x, In x (g_shards g) /\ gs_markdel x = false) ->
  forall g', In g' (groups (fst (tick w now))) -> g_id g' <> g_id g.
Proof. exact tick_prunes_group. Qed.
Print Assumptions C14_eventual_removal_catalogue.

(* boundary instants *)
Theorem C14_boundary_at : forall d e, expired d e (e + d) = false.
Proof. exact expired_boundary. Qed.
Theorem C14_boundary_after : forall d e, d <> 0 -> expired d e (e + d + 1) = true.
Proof. exact expired_just_after. Qed.
Print Assumptions C14_boundary_after.

(* non-vacuity: a concrete world in which a tick deletes exactly the expired shard and prunes its group *)
Example C14_example :
  let g1 := {| g_id := 1; g_rp := 7; g_start := 0; g_end := 100; g_deleted := false; g_shards := [{| gs_id := 1; gs_markdel := false |}; {| gs_id := 2; gs_markdel := false |}] |} in
  let g2 := {| g_id := 2; g_rp := 7; g_start := 100; g_end := 200; g_deleted := false; g_shards := [{| gs_id := 3; gs_markdel := false |}] |} in
  let w0 := {| policies := [{| p_id := 7; p_dur := 50 |}]; groups := []; node := [] |} in
  let '(w, log) := run w0 [AddGroup g1 true; AddGroup g2 false; Tick 150; Tick 151; Alter 7 0; Tick 1000] in
  obs_node w = [3] /\ map g_id (groups w) = [2] /\ map (fun r => (n_id (del_shard r), del_now r)) log = [(1, 151); (2, 151)].
Proof. vm_compute. repeat split. Qed.

(* ======================================================================================================
   Extended model (XModel.v): catalogue with shard groups AND index groups as meta.Data builds it, ALTER of the three
   durations, ExpandGroups, one store node per partition. `true` = repaired variant, `false` = today's code. *)

(* -- pruning (catalogue side of "expired shards are eventually removed from the catalogue") -- *)

(* exactness: after the repaired pruning of id, every surviving group is an old group with the same id / policy /
   span / deleted flag, and a shard's mark differs from before only if the shard has the pruned id *)
Theorem C14_prune_exact : forall c id g',
  In g' (c_sgs (prune_sg true c id)) ->
  exists g, In g (c_sgs c) /\ sg_same_head g g' /\
    Forall2 (fun x y => cs_same x y /\ (cs_md y = cs_md x \/ (cs_md y = true /\ cs_id x = id))) (sg_shards g) (sg_shards g').
Proof. exact prune_sg_exact. Qed.
Print Assumptions C14_prune_exact.

Theorem C14_prune_index_exact : forall c id g',
  In g' (c_igs (prune_ig true c id)) ->
  exists g, In g (c_igs c) /\ ig_same_head g g' /\
    Forall2 (fun x y => ci_same x y /\ (ci_md y = ci_md x \/ (ci_md y = true /\ ci_id x = id))) (ig_ixs g) (ig_ixs g').
Proof. exact prune_ig_exact. Qed.
Print Assumptions C14_prune_index_exact.

(* pruning never drops a group that still has a live shard: a group leaves the catalogue only if it was marked
   deleted and each of its shards was marked before or is the shard being pruned *)
Theorem C14_prune_never_drops_live_group : forall c id g,
  In g (c_sgs c) -> ~ In (prune_mark_sg true id g) (c_sgs (prune_sg true c id)) ->
  sg_del g = true /\ forall s, In s (sg_shards g) -> cs_md s = true \/ cs_id s = id.
Proof. exact prune_sg_removes_only_dead. Qed.
Print Assumptions C14_prune_never_drops_live_group.

(* progress, for both variants: a group marked deleted whose shards are all deleted (marked, or the one pruned now)
   is gone after the pruning - given ascending shard ids inside the group and unique group ids, which the id
   counters guarantee *)
Theorem C14_prune_progress : forall rep c id g,
  In g (c_sgs c) -> asc (map cs_id (sg_shards g)) -> sg_del g = true ->
  (forall s, In s (sg_shards g) -> cs_md s = true \/ cs_id s = id) ->
  (forall g2, In g2 (c_sgs c) -> sg_id g2 = sg_id g -> g2 = g) ->
  forall g', In g' (c_sgs (prune_sg rep c id)) -> sg_id g' <> sg_id g.
Proof. exact prune_sg_progress. Qed.
Print Assumptions C14_prune_progress.

Example C14_prune_progress_example :
  let g := {| sg_id := 7; sg_rp := 1; sg_start := 0; sg_end := 10; sg_del := true;
              sg_shards := [{| cs_id := 3; cs_pt := 0; cs_ix := 1; cs_md := true |}; {| cs_id := 4; cs_pt := 1; cs_ix := 2; cs_md := false |}] |} in
  let c := {| c_pols := []; c_sgs := [g]; c_igs := []; c_ptnum := 2; c_maxsg := 7; c_maxsh := 4; c_maxig := 0; c_maxix := 2 |} in
  asc (map cs_id (sg_shards g)) /\ (forall s, In s (sg_shards g) -> cs_md s = true \/ cs_id s = 4) /\ c_sgs (prune_sg false c 4) = [].
Proof. cbn. repeat split; try lia; intros; intuition; subst; cbn; auto. Qed.

(* -- index groups: an index never expires before a shard that uses it -- *)

(* the invariant XInv (XInv.v): every index group holding the index of a shard ends no earlier than the shard's group
   and belongs to the same policy (plus the id-freshness facts this needs). It holds for the empty catalogue ... *)
Theorem C14_index_cover_init : forall ps n, XInv (cat0 ps n).
Proof. exact XInv_init. Qed.

(* ... and after EVERY trace of events - group creation for any timestamp, ALTER of duration / shard duration / index
   duration, added partitions (ExpandGroups), stores creating shards and indexes, retention passes of any partition at
   any clock reading, aborted passes, restarts - when the index-group choice is the repaired one; the pruning variant
   does not matter. *)
Theorem C14_index_cover_all_traces : forall repP clip es ps n, XInv (x_cat (fst (xrun true repP clip (xworld0 ps n) es))).
Proof. intros. apply XInv_xrun. apply XInv_init. Qed.
Print Assumptions C14_index_cover_all_traces.

(* consequence, in terms of what the stores are told (IndexDurationInfos / DurationInfos): in every reachable
   catalogue, whenever the duration info of an index makes it expired at a clock reading `now`, every shard whose
   index it is - on any partition - is expired at `now` under its policy's duration in force. So the retention pass
   deletes an index only when every shard referring to it is expired (and is deleted by the same rule). *)
Theorem C14_index_deleted_only_after_its_shards : forall repP clip es ps n pt fi sg s now,
  let c := x_cat (fst (xrun true repP clip (xworld0 ps n) es)) in
  In fi (index_infos c pt) -> In sg (c_sgs c) -> In s (sg_shards sg) -> cs_ix s = si_id fi ->
  expired (si_d fi) (si_end fi) now = true ->
  expired (pol_d c (sg_rp sg)) (sg_end sg) now = true.
Proof. intros repP clip es ps n pt fi sg s now c. apply infos_expiry. apply XInv_xrun. apply XInv_init. Qed.
Print Assumptions C14_index_deleted_only_after_its_shards.

(* non-vacuity: a reachable catalogue (repaired choice) in which one index group serves two shard groups, after an
   ALTER that lengthened the shard duration gave the third group its own, longer index group *)
Example C14_index_cover_example :
  let H := 3600000000000 in
  let c := x_cat (fst (xrun true true false (xworld0 [{| xp_id := 1; xp_d := 0; xp_sgd := H; xp_igd := 4 * H |}] 2)
                        [XCreate 1 (472140 * H); XCreate 1 (472141 * H); XAlter 1 None (Some (12 * H)) None; XCreate 1 (472142 * H)])) in
  map (fun g => (sg_id g, map cs_ix (sg_shards g))) (c_sgs c) = [(1, [1; 2]); (2, [1; 2]); (3, [3; 4])] /\
  map (fun g => (ig_id g, ig_end g - ig_start g)) (c_igs c) = [(1, 4 * H); (2, 12 * H)].
Proof. vm_compute. auto. Qed.

(* -- two clocks: the sql node admits writes by ITS clock (seconds), the store node expires shards by its own -- *)
(* a point admitted at sql clock reading nowsec lies in a group ending at e > t; the store does not consider that
   group expired as long as its clock is at most (e - t) ahead of the sql clock. With equal clocks an admitted point
   is never in an expired shard; the code has no margin beyond that (a point at the very end of its group tolerates
   no skew). The safety theorems above hold for arbitrary, even non-monotone, clock readings per pass. *)
Theorem C14_admitted_point_not_expired_under_skew : forall d nowsec t e storenow,
  0 < d -> write_accept d nowsec t = true -> t < e -> storenow <= nowsec * 1000000000 + (e - t) ->
  expired d e storenow = false.
Proof. exact admitted_not_expired_skew. Qed.
Print Assumptions C14_admitted_point_not_expired_under_skew.

(* -- write admission of a batch (tied to the real coordinator on every run) -- *)
(* the threshold: a row is admitted iff its timestamp is not below min_time, fixed per batch from the duration the
   policy had when the batch looked it up *)
Theorem C14_admission_threshold : forall d nowsec t, write_accept d nowsec t = negb (t <? min_time d nowsec).
Proof. exact write_accept_min_time. Qed.
(* for a limited policy: exactly the points of the window [now - d, ..) are admitted; for each admitted point the shard
   group that receives it (end > t) is not expired at that clock reading *)
Theorem C14_admitted_point_in_live_group : forall d nowsec t e,
  0 < d -> write_accept d nowsec t = true -> t < e -> expired d e (nowsec * 1000000000) = false.
Proof. intros d nowsec t e Hd Ha Ht. apply (admitted_not_expired_skew d nowsec t e); auto; lia. Qed.
Print Assumptions C14_admitted_point_in_live_group.

(* -- node level: one pass of the retention service -- *)
(* The pass reads the clock anew for each decision: `now` is the reading of its shard decisions, `now2` (later) that of
   its index decisions. When the catalogue satisfies XInv and the node of partition pt agrees with it (NodeOK, XNode.v:
   every shard and index of the node is the one the catalogue lists for this partition with the catalogue's span, every
   shard's index is on the node, shard ids unique), an index deleted by the pass is used only by shards that are
   EXPIRED AT THE INSTANT OF THAT DECISION under their policy's duration in force, and each of them that was already
   expired when the shard decisions were taken is deleted by the same pass (with one clock reading: all of them).
   So no unexpired data ever loses its index; a shard that expires between the two readings keeps its files until the
   next pass. (NodeOK is a precondition of the step; NodeAgree below is the part of it that is an invariant.) *)
Theorem C14_index_deleted_only_with_its_shards : forall rep w pt now now2,
  XInv (x_cat w) -> NodeOK w pt ->
  forall X, In X (l_ixs (snd (xtick rep w pt now now2))) ->
  forall s, In s (x_shards w) -> xs_pt s = pt -> xs_ix s = X ->
    exists sg cs, In sg (c_sgs (x_cat w)) /\ In cs (sg_shards sg) /\ cs_id cs = xs_id s /\ sg_end sg = xs_end s /\
                  expired (pol_d (x_cat w) (sg_rp sg)) (sg_end sg) now2 = true /\
                  (expired (pol_d (x_cat w) (sg_rp sg)) (sg_end sg) now = true ->
                   In (xs_id s) (l_shards (snd (xtick rep w pt now now2)))).
Proof. exact xtick_index_victims. Qed.
Print Assumptions C14_index_deleted_only_with_its_shards.

(* the hypotheses are satisfiable and the conclusion is not vacuous: a reachable world (two shard groups sharing one
   index, one shard loaded, one on disk) that satisfies NodeOK; a pass whose two clock readings straddle the expiry of
   the second shard deletes the first shard and the index now, the second shard only at the next pass *)
Example C14_node_ok_example :
  let H := 3600000000000 in
  let w := fst (xrun true true false (xworld0 [{| xp_id := 1; xp_d := H; xp_sgd := H; xp_igd := 2 * H |}] 1)
                  [XCreate 1 (472140 * H); XCreate 1 (472141 * H); XMat 1 true; XMat 2 false]) in
  NodeOK w 0 /\ XInv (x_cat w) /\
  l_ixs (snd (xtick true w 0 (472142 * H + H + 1) (472142 * H + H + 1))) = [1] /\
  l_shards (snd (xtick true w 0 (472142 * H + H + 1) (472142 * H + H + 1))) = [1; 2] /\
  l_ixs (snd (xtick true w 0 (472142 * H + H) (472142 * H + H + 1))) = [1] /\
  l_shards (snd (xtick true w 0 (472142 * H + H) (472142 * H + H + 1))) = [1].
Proof.
  cbv zeta. split; [|split; [apply XInv_xrun; apply XInv_init|vm_compute; auto]].
  match goal with |- NodeOK ?w _ => let v := eval vm_compute in w in change w with v end.
  constructor.
  - intros s [<-|[<-|[]]] _; unfold listed_shard; cbn.
    + eexists _, _. split; [left; reflexivity|]. cbn. split; [left; reflexivity|]. cbn. auto.
    + eexists _, _. split; [right; left; reflexivity|]. cbn. split; [left; reflexivity|]. cbn. auto.
  - intros i [<-|[]] _; unfold listed_index; cbn.
    eexists _, _. split; [left; reflexivity|]. cbn. split; [left; reflexivity|]. cbn. repeat split; auto; lia.
  - intros s [<-|[<-|[]]] _; reflexivity.
  - intros s s' [<-|[<-|[]]] [<-|[<-|[]]]; cbn; intros; auto; discriminate.
Qed.

(* -- the node's view agrees with the catalogue: the invariant part of NodeOK -- *)
(* After EVERY trace (repaired index-group choice, any pruning variant): each shard a store node holds has an id the
   catalogue has issued, and agrees with EVERY catalogue entry that still lists that id - same partition, same index
   reference, same group end, same policy. So for the shards that are still listed the events re-establish "the node's
   shard is the listed one, with the catalogue's span" (premise nk_sh of the theorem above); a shard can only drop out
   of that premise by no longer being listed at all. The corresponding fact for indexes (the end time a node holds
   for an index vs. the catalogue's index-group end) is not proved: it is compared with the running engine after every
   event of every trace (the engine's index end is an observable of the correspondence). *)
Theorem C14_node_agrees_all_traces : forall repP clip es ps n s sg cs,
  let w := fst (xrun true repP clip (xworld0 ps n) es) in
  In s (x_shards w) -> xs_id s <= c_maxsh (x_cat w) /\
  (In sg (c_sgs (x_cat w)) -> In cs (sg_shards sg) -> cs_id cs = xs_id s ->
   cs_pt cs = xs_pt s /\ cs_ix cs = xs_ix s /\ sg_end sg = xs_end s /\ sg_rp sg = xs_rp s).
Proof.
  intros repP clip es ps n s sg cs w Hs.
  destruct (NodeAgree_xrun repP clip es (xworld0 ps n) (XInv_init ps n) (NodeAgree_init ps n) s Hs) as (B & A).
  split; [exact B|]. intros H1 H2 E. apply (A sg cs H1 H2 E).
Qed.
Print Assumptions C14_node_agrees_all_traces.

Example C14_node_agrees_example :
  let H := 3600000000000 in
  let w := fst (xrun true true false (xworld0 [{| xp_id := 1; xp_d := H; xp_sgd := H; xp_igd := 2 * H |}] 2)
                  [XCreate 1 (472140 * H); XMat 1 true; XExpand; XAlter 1 (Some (2 * H)) None None; XTick 0 (472141 * H + 2 * H + 1) (472141 * H + 2 * H + 5)]) in
  map xs_id (x_shards w) = [2] /\ map (fun g => map cs_id (sg_shards g)) (c_sgs (x_cat w)) = [[1; 2; 3]].
Proof. vm_compute. auto. Qed.

(* -- clipped shard groups (repair props/C16/fix3.patch) -- *)
(* Every theorem above that runs over traces (C14_index_cover_all_traces, C14_index_deleted_only_after_its_shards,
   C14_node_agrees_all_traces) is quantified over `clip`: it holds both when a new shard group takes the whole cell of
   the current shard duration and when it is cut back to its live neighbours (the index group is then looked up /
   created for the clipped end). The prune, node-pass and admission theorems do not go through group creation.
   Non-vacuity: after ALTER .. SHARD DURATION 12h the second group of the history below is clipped at the end of the
   first one, and still shares the first group's 4h index group, which covers it. *)
Example C14_clip_example :
  let H := 3600000000000 in
  let ps := [{| xp_id := 1; xp_d := H; xp_sgd := H; xp_igd := 4 * H |}] in
  let es := [XCreate 1 (472140 * H + 100); XAlter 1 (Some (168 * H)) (Some (12 * H)) None; XCreate 1 (472141 * H + 100);
             XCreate 1 (472139 * H + 100)] in
  map (fun g => (sg_id g, sg_start g - 472140 * H, sg_end g - 472140 * H)) (c_sgs (x_cat (fst (xrun true true true (xworld0 ps 1) es))))
    = [(1, 0, H); (2, H, 12 * H); (3, - (12 * H), 0)] /\
  map (fun g => (sg_id g, sg_start g - 472140 * H, sg_end g - 472140 * H)) (c_sgs (x_cat (fst (xrun true true false (xworld0 ps 1) es))))
    = [(1, 0, H); (2, 0, 12 * H); (3, - (12 * H), 0)].
Proof. vm_compute. auto. Qed.

(* -- the node's INDEXES agree with the catalogue: the invariant part of NodeOK's index premise -- *)
(* After EVERY trace (repaired index-group choice, any pruning / clipping variant): each index a store node holds has an
   id the catalogue issued, belongs to the policy of, and ENDS NO EARLIER THAN, every catalogue index group that still
   lists that id. (No earlier, not equal: a store learns the span of a new index through getIndexGroupTimeRange, an
   id-range lookup scanned from the latest-ending group; with interleaved ids it can only err towards a later end. The
   proof uses: index ids ascend inside a group, the policy's groups are kept sorted by end, no id is re-issued.)
   NodeOK's premise nk_ix is weakened accordingly (ig_end <= xi_end); what remains unproved of it is that the index sits
   on the partition the catalogue assigns it to. *)
Theorem C14_node_indexes_agree_all_traces : forall repP clip es ps n i ig ci,
  let w := fst (xrun true repP clip (xworld0 ps n) es) in
  In i (x_ixs w) -> xi_id i <= c_maxix (x_cat w) /\
  (In ig (c_igs (x_cat w)) -> In ci (ig_ixs ig) -> ci_id ci = xi_id i -> ig_end ig <= xi_end i /\ ig_rp ig = xi_rp i).
Proof.
  intros repP clip es ps n i ig ci w Hi.
  destruct (NodeIxAgree_xrun repP clip es (xworld0 ps n) (AI_init ps n) (NodeIxAgree_init ps n) i Hi) as (B & A).
  split; [exact B|]. intros H1 H2 E. apply (A ig ci H1 H2 E).
Qed.
Print Assumptions C14_node_indexes_agree_all_traces.

(* the id-range lookup itself: for an index that a group of the policy really holds, it returns a group that ends no earlier *)
Theorem C14_index_span_lookup_covers : forall c rp ig ci,
  AscIx c -> In ig (c_igs c) -> ig_rp ig = rp -> In ci (ig_ixs ig) ->
  exists g', ix_group_of c rp (ci_id ci) = Some g' /\ ig_end ig <= ig_end g'.
Proof. exact ix_group_of_covers. Qed.

(* ======================================================================================================
   LogKeeper flavour (LK.v): two-phase deletion - mark (hidden from every read), physical removal 24h later, recall. *)

(* SAFETY over every history of group creation / ALTER / passes at any clock readings / recalls: whatever is physically
   removed belongs to a group that was marked at a reading t at which it was expired under the duration then in force
   (d <> 0, end + d < t), whose mark was not recalled since, and at least 24h have passed since the mark. *)
Theorem C14_logkeeper_safety : forall es w0 r,
  LInv w0 -> In r (snd (lk_run w0 es)) ->
  exists g t, lg_id g = ld_gid r /\ lg_mark g = Some t /\ lg_markd g <> 0 /\ lg_end g + lg_markd g < t /\ t + DAY <= ld_now r.
Proof. exact lk_safety. Qed.
Print Assumptions C14_logkeeper_safety.
Theorem C14_logkeeper_inv_init : forall d, LInv {| l_d := d; l_groups := [] |}.
Proof. intros d g t []. Qed.

(* raising (or un-limiting) the duration BEFORE the mark keeps the group; a recall cancels every pending deletion *)
Theorem C14_logkeeper_raise_before_mark_keeps : forall w now g,
  In g (l_groups w) -> lg_mark g = None -> expired (l_d w) (lg_end g) now = false -> In g (l_groups (fst (lk_tick w now))).
Proof. exact lk_raise_before_mark. Qed.
Theorem C14_logkeeper_recall_cancels : forall w now, snd (lk_tick (lk_recall w) now) = [].
Proof. exact lk_recall_cancels. Qed.
(* documented behaviour, not a defect (NOTES section 9): a raise AFTER the mark is not a recall *)
Example C14_logkeeper_raise_after_mark_is_not_a_recall :
  let H := 3600000000000 in
  snd (lk_run {| l_d := H; l_groups := [] |} [LAdd 1 (10 * H) [1; 2]; LTick (11 * H + 1); LAlter 0; LTick (11 * H + 1 + DAY)])
    = [{| ld_gid := 1; ld_sid := 1; ld_now := 11 * H + 1 + DAY |}; {| ld_gid := 1; ld_sid := 2; ld_now := 11 * H + 1 + DAY |}] /\
  snd (lk_run {| l_d := H; l_groups := [] |} [LAdd 1 (10 * H) [1; 2]; LTick (11 * H + 1); LAlter 0; LRecall; LTick (11 * H + 1 + DAY)]) = [].
Proof. vm_compute. auto. Qed.

(* -- proposed hardening of the engine (props/C14/harden1.patch): an index is not reported expired while a loaded shard
      that holds it is unexpired. REDUNDANT under the repaired catalogue: when the catalogue satisfies XInv and the node
      agrees with it, the guard is true for every index the pass deletes, so the patch changes nothing there (it only
      matters when the catalogue or the node's view is wrong, as with the two defects found earlier). -- *)
Theorem C14_index_guard_redundant : forall rep w pt now now2,
  XInv (x_cat w) -> NodeOK w pt ->
  forall X, In X (l_ixs (snd (xtick rep w pt now now2))) -> guard_ok (pass_shards w pt) pt now2 X = true.
Proof. exact guard_redundant. Qed.
Print Assumptions C14_index_guard_redundant.

(* -- measurement TTL and SchemaClean (TTL.v): the other two deleters -- *)
(* measurement TTL: only shards / indexes of the measurement's policy whose span ended more than the TTL ago; TTL 0 never *)
Theorem C14_mst_ttl_rule : forall rp ttl now shards id,
  In id (mst_expired_shards rp ttl now shards) -> exists e, In (id, rp, e) shards /\ ttl <> 0 /\ e + ttl < now.
Proof. exact mst_ttl_rule. Qed.
Theorem C14_mst_ttl_zero_never : forall rp now shards, mst_expired_shards rp 0 now shards = [].
Proof. exact mst_ttl_zero_never. Qed.
(* SchemaClean drops a field only if the latest group it was written to ends less than 2^32 ns (4.29 s) after the pruned
   group; so, group ends of one policy being at least that far apart, only fields all of whose data is expired *)
Theorem C14_schema_clean_bound : forall fe pe, schema_drop fe pe = true -> fe < pe + P32.
Proof. exact schema_drop_bound. Qed.
Theorem C14_schema_clean_only_expired : forall d fe pe now,
  (fe <= pe \/ pe + P32 <= fe) -> schema_drop fe pe = true -> expired d pe now = true -> expired d fe now = true.
Proof. exact schema_drop_expired. Qed.
Print Assumptions C14_schema_clean_only_expired.
Example C14_schema_clean_example : schema_clean [(1, 3600000000000); (2, 7200000000000); (3, 3600000000000 + 1000000000); (4, 3600000000000 + 4294967296)] 3600000000000 = [(2, 7200000000000); (4, 3604294967296)].
Proof. vm_compute. reflexivity. Qed.
