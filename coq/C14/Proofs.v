From Coq Require Import ZArith List Bool Lia.
From OG Require Import C14.Model.
Import ListNotations.
Open Scope Z_scope.

Lemma expired_spec d e n : expired d e n = true <-> d <> 0 /\ e + d < n.
Proof.
  unfold expired. rewrite andb_true_iff, negb_true_iff, Z.eqb_neq, Z.ltb_lt. tauto.
Qed.

Lemma expired_unlimited e n : expired 0 e n = false.
Proof. reflexivity. Qed.

Lemma expired_boundary d e : expired d e (e + d) = false.
Proof. unfold expired. rewrite Z.ltb_irrefl. apply andb_false_r. Qed.

Lemma expired_just_after d e : d <> 0 -> expired d e (e + d + 1) = true.
Proof. intros H. apply expired_spec. lia. Qed.

Lemma expired_monotone d e n n' : expired d e n = true -> n <= n' -> expired d e n' = true.
Proof. rewrite !expired_spec. lia. Qed.

Lemma expired_raise d d' e n : 0 < d -> d <= d' -> expired d' e n = true -> expired d e n = true.
Proof. rewrite !expired_spec. lia. Qed.

(* a point accepted now (t >= now - d) lies in a group with end > t; as long as it is still inside the window
   at a later reading now', its shard is not expired *)
Lemma in_window_not_expired d e t now' : t < e -> now' - d <= t -> expired d e now' = false.
Proof.
  intros H1 H2. destruct (expired d e now') eqn:E; [|reflexivity].
  apply expired_spec in E. lia.
Qed.

Lemma write_accept_window d nowsec t :
  0 < d -> write_accept d nowsec t = true <-> nowsec * 1000000000 - d <= t.
Proof.
  intros Hd. unfold write_accept. destruct (0 <? d) eqn:E; [|apply Z.ltb_ge in E; lia].
  rewrite negb_true_iff, Z.ltb_ge. tauto.
Qed.

(* ---------- refresh ---------- *)
Lemma refresh_one_id w s : n_id (refresh_one w s) = n_id s /\ n_gid (refresh_one w s) = n_gid s
  /\ n_rp (refresh_one w s) = n_rp s /\ n_end (refresh_one w s) = n_end s /\ n_loaded (refresh_one w s) = n_loaded s.
Proof.
  unfold refresh_one. destruct (listed _ _); [destruct (policy_dur _ _)|]; simpl; auto.
Qed.

Lemma listed_ext gs s s' : n_id s = n_id s' -> n_gid s = n_gid s' -> listed gs s = listed gs s'.
Proof. intros H1 H2. unfold listed. rewrite H1, H2. reflexivity. Qed.

Lemma refresh_one_dur w s d :
  listed (groups w) s = true -> policy_dur (policies w) (n_rp s) = Some d -> n_dur (refresh_one w s) = d.
Proof. intros H1 H2. unfold refresh_one. rewrite H1, H2. reflexivity. Qed.

Lemma refresh_one_unlisted w s : listed (groups w) s = false -> refresh_one w s = s.
Proof. intros H. unfold refresh_one. now rewrite H. Qed.

(* ---------- one tick: every deletion is justified ---------- *)
Definition justified (w : world) (now : Z) (s0 : nshard) : Prop :=
  (listed (groups w) s0 = true ->
     forall d, policy_dur (policies w) (n_rp s0) = Some d -> d <> 0 /\ n_end s0 + d < now)
  /\ (listed (groups w) s0 = false -> n_loaded s0 = true /\ n_dur s0 <> 0 /\ n_end s0 + n_dur s0 < now).

Lemma tick_deletion_justified w now r :
  In r (snd (tick w now)) ->
  del_now r = now /\
  exists s0, In s0 (node w) /\ del_shard r = refresh_one w s0 /\ del_dur r = policy_dur (policies w) (n_rp s0)
             /\ justified w now s0.
Proof.
  unfold tick. cbn [snd]. rewrite in_map_iff. intros (s & <- & Hs). cbn [del_now del_shard del_dur].
  split; [reflexivity|].
  unfold expired_shards in Hs. apply filter_In in Hs. destruct Hs as [Hin Hex].
  cbn [refresh node groups] in Hin, Hex. apply in_map_iff in Hin. destruct Hin as (s0 & <- & Hin0).
  exists s0. destruct (refresh_one_id w s0) as (Hid & Hgid & Hrp & Hend & Hld).
  split; [exact Hin0|]. split; [reflexivity|]. split; [now rewrite Hrp|].
  unfold shard_expired in Hex. rewrite Hld, Hend in Hex.
  rewrite (listed_ext (groups w) (refresh_one w s0) s0 Hid Hgid) in Hex.
  split.
  - intros Hl d Hd. rewrite (refresh_one_dur w s0 d Hl Hd) in Hex.
    destruct (n_loaded s0); [|rewrite Hl in Hex; cbn in Hex]; apply expired_spec in Hex; exact Hex.
  - intros Hl. rewrite (refresh_one_unlisted w s0 Hl) in Hex. rewrite Hl in Hex.
    destruct (n_loaded s0); [|discriminate]. apply expired_spec in Hex. tauto.
Qed.

(* ---------- traces ---------- *)
Lemma run_app w es1 es2 :
  run w (es1 ++ es2) = let '(w1, d1) := run w es1 in let '(w2, d2) := run w1 es2 in (w2, d1 ++ d2).
Proof.
  revert w. induction es1 as [|e es1 IH]; intros w; cbn [run app].
  - destruct (run w es2); reflexivity.
  - destruct (step w e) as [w1 d1]. rewrite IH. destruct (run w1 es1) as [w2 d2].
    destruct (run w2 es2) as [w3 d3]. now rewrite app_assoc.
Qed.

Lemma run_deletion_origin es : forall w r,
  In r (snd (run w es)) ->
  exists pre now post, es = pre ++ Tick now :: post /\ In r (snd (tick (fst (run w pre)) now)).
Proof.
  induction es as [|e es IH]; intros w r Hr; cbn [run] in Hr.
  - destruct Hr.
  - destruct (step w e) as [w1 d1] eqn:Es. destruct (run w1 es) as [w2 d2] eqn:Er. cbn [snd] in Hr.
    apply in_app_or in Hr. destruct Hr as [Hr|Hr].
    + destruct e as [now|rp d|g l|now'|]; cbn [step] in Es; try (inversion Es; subst; destruct Hr).
      exists [], now, es. split; [reflexivity|]. cbn [run fst]. rewrite Es. exact Hr.
    + assert (Hr' : In r (snd (run w1 es))) by (rewrite Er; exact Hr).
      destruct (IH w1 r Hr') as (pre & now & post & -> & Hin).
      exists (e :: pre), now, post. split; [reflexivity|]. cbn [run]. rewrite Es.
      destruct (run w1 pre) as [w3 d3] eqn:E3. cbn [fst] in *. exact Hin.
Qed.

(* main safety statement over all traces *)
Lemma safety_all_traces es w0 r :
  In r (snd (run w0 es)) ->
  exists pre post s0,
    es = pre ++ Tick (del_now r) :: post /\
    let w := fst (run w0 pre) in
    In s0 (node w) /\ n_id (del_shard r) = n_id s0 /\ n_end (del_shard r) = n_end s0 /\
    del_dur r = policy_dur (policies w) (n_rp s0) /\ justified w (del_now r) s0.
Proof.
  intros Hr. destruct (run_deletion_origin es w0 r Hr) as (pre & now & post & -> & Hin).
  destruct (tick_deletion_justified _ _ _ Hin) as (Hnow & s0 & Hin0 & Hds & Hdd & Hj).
  exists pre, post, s0. rewrite Hnow. split; [reflexivity|]. cbn zeta.
  destruct (refresh_one_id (fst (run w0 pre)) s0) as (Hid & _ & _ & Hend & _).
  rewrite Hds. split; [exact Hin0|]. split; [exact Hid|]. split; [exact Hend|]. split; [exact Hdd|exact Hj].
Qed.

(* ---------- catalogue consistency invariant: every node shard is listed and has a policy ---------- *)
Definition ids (g : group) : list Z := map gs_id (g_shards g).

Fixpoint ascending (l : list Z) : Prop :=
  match l with
  | [] => True
  | x :: r => (match r with [] => True | y :: _ => x < y end) /\ ascending r
  end.

Lemma ascending_lt x l : ascending (x :: l) -> forall y, In y l -> x < y.
Proof.
  revert x. induction l as [|a l IH]; intros x H y Hy; [destruct Hy|].
  destruct H as [Hxa Hr]. destruct Hy as [<-|Hy]; [exact Hxa|].
  specialize (IH a Hr y Hy). lia.
Qed.

Lemma mark_first_ge_ids sid l : map gs_id (mark_first_ge sid l) = map gs_id l.
Proof.
  induction l as [|x r IH]; cbn [mark_first_ge map]; [reflexivity|].
  destruct (sid <=? gs_id x); cbn [map gs_id]; [reflexivity| now rewrite IH].
Qed.

Lemma mark_shard_absent sid l : ~ In sid (map gs_id l) -> map (mark_shard sid) l = l.
Proof.
  induction l as [|y r IH]; intros H; [reflexivity|]. cbn [map] in *. f_equal.
  - unfold mark_shard. destruct (Z.eqb_spec (gs_id y) sid) as [E|_]; [|reflexivity]. exfalso. apply H. now left.
  - apply IH. intros Hc. apply H. now right.
Qed.

Lemma mark_first_ge_exact sid l :
  ascending (map gs_id l) -> In sid (map gs_id l) -> mark_first_ge sid l = map (mark_shard sid) l.
Proof.
  induction l as [|x r IH]; intros Hasc Hin; [destruct Hin|].
  cbn [mark_first_ge map]. unfold mark_shard at 1.
  destruct (Z.eqb_spec (gs_id x) sid) as [E|NE].
  - subst sid. rewrite Z.leb_refl. f_equal. symmetry. apply mark_shard_absent.
    cbn [map] in Hasc. intros Hc. pose proof (ascending_lt _ _ Hasc _ Hc). lia.
  - destruct Hin as [E|Hin]; [congruence|].
    cbn [map] in Hasc. assert (Hlt := ascending_lt _ _ Hasc sid Hin).
    destruct (Z.leb_spec sid (gs_id x)); [lia|]. f_equal. apply IH; [apply Hasc|exact Hin].
Qed.

(* ---------- progress: after a tick no expired shard is left on the node ---------- *)
Lemma delete_one_node w s : node (delete_one w s) = filter (fun x => negb (n_id x =? n_id s)) (node w).
Proof. reflexivity. Qed.

Lemma fold_delete_node ex : forall w x,
  In x (node (fold_left delete_one ex w)) <-> In x (node w) /\ forall s, In s ex -> n_id x <> n_id s.
Proof.
  induction ex as [|s ex IH]; intros w x; cbn [fold_left].
  - split; [intros H; split; [exact H|intros s []] | tauto].
  - rewrite IH, delete_one_node, filter_In, negb_true_iff, Z.eqb_neq. split.
    + intros [[H1 H2] H3]. split; [exact H1|]. intros s' [<-|Hs']; [exact H2|apply H3, Hs'].
    + intros [H1 H2]. split; [split; [exact H1|apply H2; now left]|]. intros s' Hs'. apply H2. now right.
Qed.

Lemma tick_removes_expired w now x :
  In x (node (fst (tick w now))) -> shard_expired (groups (refresh w)) now x = false.
Proof.
  unfold tick. cbn [fst]. rewrite fold_delete_node. intros [Hin Hno].
  destruct (shard_expired (groups (refresh w)) now x) eqn:E; [|reflexivity]. exfalso.
  apply (Hno x); [|reflexivity]. unfold expired_shards. apply filter_In. split; assumption.
Qed.

Lemma tick_node_subset w now x : In x (node (fst (tick w now))) -> In x (node (refresh w)).
Proof. unfold tick. cbn [fst]. rewrite fold_delete_node. tauto. Qed.

(* a listed shard of a finite policy whose group ended more than d ago is gone after the tick *)
Lemma tick_eventual w now s d :
  In s (node w) -> listed (groups w) s = true -> policy_dur (policies w) (n_rp s) = Some d ->
  d <> 0 -> n_end s + d < now ->
  forall x, In x (node (fst (tick w now))) -> n_id x <> n_id s.
Proof.
  intros Hin Hl Hd Hd0 Hlt x Hx Heq.
  unfold tick in Hx. cbn [fst] in Hx. rewrite fold_delete_node in Hx. destruct Hx as [_ Hno].
  apply (Hno (refresh_one w s)); [|destruct (refresh_one_id w s) as (-> & _); exact Heq].
  unfold expired_shards. apply filter_In. split.
  - cbn [refresh node]. apply in_map. exact Hin.
  - destruct (refresh_one_id w s) as (Hid & Hgid & Hrp & Hend & Hld).
    unfold shard_expired. rewrite Hld, Hend, (refresh_one_dur w s d Hl Hd).
    cbn [refresh groups]. rewrite (listed_ext (groups w) _ s Hid Hgid), Hl.
    assert (E : expired d (n_end s) now = true) by (apply expired_spec; lia).
    rewrite E. now destruct (n_loaded s).
Qed.

(* the shard itself (as a node entry) is never selected as expired when its policy is unlimited *)
Lemma unlimited_not_selected w now s :
  listed (groups w) s = true -> policy_dur (policies w) (n_rp s) = Some 0 ->
  shard_expired (groups (refresh w)) now (refresh_one w s) = false.
Proof.
  intros Hl Hd. destruct (refresh_one_id w s) as (Hid & Hgid & Hrp & Hend & Hld).
  unfold shard_expired. rewrite Hld, (refresh_one_dur w s 0 Hl Hd), expired_unlimited.
  destruct (n_loaded s); [reflexivity|apply andb_false_r].
Qed.

(* raising the duration before the tick keeps the data: the decision uses the catalogue's duration at the tick *)
Lemma raise_before_tick_keeps w now s rp d' :
  listed (groups w) s = true -> n_rp s = rp -> policy_dur (policies w) rp <> None ->
  ~ (d' <> 0 /\ n_end s + d' < now) ->
  shard_expired (groups (refresh (alter w rp d'))) now (refresh_one (alter w rp d') s) = false.
Proof.
  intros Hl Hrp Hp Hn.
  assert (Hd : policy_dur (policies (alter w rp d')) (n_rp s) = Some d').
  { rewrite Hrp. cbn [alter policies]. clear -Hp. induction (policies w) as [|p ps IH]; cbn [policy_dur map] in *; [congruence|].
    destruct (Z.eqb_spec (p_id p) rp) as [E|NE]; cbn [p_id]; [now rewrite Z.eqb_refl|].
    destruct (Z.eqb_spec (p_id p) rp); [congruence|]. apply IH, Hp. }
  assert (Hl' : listed (groups (alter w rp d')) s = true) by exact Hl.
  destruct (refresh_one_id (alter w rp d') s) as (Hid & Hgid & Hrp' & Hend & Hld).
  unfold shard_expired. rewrite Hld, Hend, (refresh_one_dur _ s d' Hl' Hd).
  destruct (expired d' (n_end s) now) eqn:E; [apply expired_spec in E; tauto|].
  destruct (n_loaded s); [reflexivity|apply andb_false_r].
Qed.
