(* C14: the catalogue/node consistency invariant, its preservation by every event, and the closed form of the
   safety theorem: from a consistent world, over every well-formed trace, every deletion is justified by the
   policy duration in force in the catalogue at the deciding step. *)
From Coq Require Import ZArith List Bool Lia.
From OG Require Import C14.Model C14.Proofs.
Import ListNotations.
Open Scope Z_scope.

Definition in_range (g : group) (sid : Z) : bool :=
  (first_id (g_shards g) <=? sid) && (sid <=? last_id (g_shards g)).

Record Inv (w : world) : Prop := {
  inv_listed : forall s, In s (node w) -> listed (groups w) s = true;
  inv_policy : forall s, In s (node w) -> policy_dur (policies w) (n_rp s) <> None;
  inv_asc : forall g, In g (groups w) -> ascending (ids g);
  inv_nonempty : forall g, In g (groups w) -> ids g <> [];
  inv_range : forall g1 g2 sid, In g1 (groups w) -> In g2 (groups w) -> In sid (ids g1) ->
                                in_range g2 sid = true -> In sid (ids g2);
  inv_unmarked : forall s g x, In s (node w) -> In g (groups w) -> In x (g_shards g) -> gs_id x = n_id s ->
                               gs_markdel x = false;
  inv_nodup : NoDup (map n_id (node w))
}.

(* ---------- list facts ---------- *)
Lemma last_map {A B} (f : A -> B) l d : last (map f l) (f d) = f (last l d).
Proof.
  induction l as [|x r IH]; [reflexivity|]. destruct r as [|y r]; [reflexivity|].
  change (last (map f (x :: y :: r)) (f d)) with (last (map f (y :: r)) (f d)).
  change (last (x :: y :: r) d) with (last (y :: r) d). exact IH.
Qed.

Lemma ascending_tail x l : ascending (x :: l) -> ascending l.
Proof. intros [_ H]. exact H. Qed.

Lemma ascending_le_last l : ascending l -> forall y d, In y l -> y <= last l d.
Proof.
  induction l as [|x r IH]; intros Ha y d Hy; [destruct Hy|].
  destruct r as [|z r].
  - destruct Hy as [<-|[]]. cbn. lia.
  - change (last (x :: z :: r) d) with (last (z :: r) d).
    destruct Hy as [<-|Hy].
    + pose proof (ascending_lt _ _ Ha z (or_introl eq_refl)) as H1.
      pose proof (IH (ascending_tail _ _ Ha) z d (or_introl eq_refl)) as H2. lia.
    + apply IH; [apply (ascending_tail _ _ Ha)|exact Hy].
Qed.

Lemma ascending_nodup l : ascending l -> NoDup l.
Proof.
  induction l as [|x r IH]; intros Ha; constructor.
  - intros Hin. pose proof (ascending_lt _ _ Ha x Hin). lia.
  - apply IH, (ascending_tail _ _ Ha).
Qed.

Lemma first_id_hd l : first_id l = hd 0 (map gs_id l).
Proof. destruct l; reflexivity. Qed.

Lemma last_id_last l : last_id l = last (map gs_id l) 0.
Proof. unfold last_id. symmetry. apply (last_map gs_id l {| gs_id := 0; gs_markdel := false |}). Qed.

Lemma in_range_member g sid : ascending (ids g) -> In sid (ids g) -> in_range g sid = true.
Proof.
  unfold in_range, ids. intros Ha Hin. rewrite first_id_hd, last_id_last.
  apply andb_true_iff. split; apply Z.leb_le.
  - destruct (map gs_id (g_shards g)) as [|x r]; [destruct Hin|]. cbn [hd].
    destruct Hin as [<-|Hin]; [lia|]. pose proof (ascending_lt _ _ Ha sid Hin). lia.
  - apply ascending_le_last; assumption.
Qed.

Lemma first_in l : l <> [] -> In (hd 0 l) l.
Proof. destruct l; [congruence|]. intros _. now left. Qed.

Lemma last_in (l : list Z) d : l <> [] -> In (last l d) l.
Proof.
  induction l as [|x r IH]; [congruence|]. intros _. destruct r as [|y r]; [now left|].
  right. change (last (x :: y :: r) d) with (last (y :: r) d). apply IH. congruence.
Qed.

Lemma mark_shard_ids sid l : map gs_id (map (mark_shard sid) l) = map gs_id l.
Proof.
  induction l as [|x r IH]; [reflexivity|]. cbn [map]. rewrite IH. f_equal.
  unfold mark_shard. destruct (gs_id x =? sid); reflexivity.
Qed.

(* ---------- prune_mark is an exact marking under the invariant ---------- *)
Definition mark_in (sid : Z) (g : group) : group :=
  {| g_id := g_id g; g_rp := g_rp g; g_start := g_start g; g_end := g_end g; g_deleted := g_deleted g;
     g_shards := map (mark_shard sid) (g_shards g) |}.

Lemma prune_mark_eq sid g :
  ascending (ids g) -> (in_range g sid = true -> In sid (ids g)) -> prune_mark sid g = mark_in sid g.
Proof.
  intros Ha Hr. unfold prune_mark, mark_in. fold (in_range g sid) in *.
  change ((first_id (g_shards g) <=? sid) && (sid <=? last_id (g_shards g))) with (in_range g sid).
  destruct (in_range g sid) eqn:E.
  - rewrite (mark_first_ge_exact sid (g_shards g) Ha (Hr eq_refl)). reflexivity.
  - assert (Hn : ~ In sid (map gs_id (g_shards g))).
    { intros Hin. rewrite (in_range_member g sid Ha Hin) in E. discriminate. }
    rewrite (mark_shard_absent sid (g_shards g) Hn). destruct g; reflexivity.
Qed.

Lemma mark_group_shards gid g : g_shards (mark_group gid g) = g_shards g.
Proof. unfold mark_group. destruct (g_id g =? gid); reflexivity. Qed.
Lemma mark_group_id gid g : g_id (mark_group gid g) = g_id g.
Proof. unfold mark_group. destruct (g_id g =? gid); reflexivity. Qed.
Lemma mark_group_ids gid g : ids (mark_group gid g) = ids g.
Proof. unfold ids. now rewrite mark_group_shards. Qed.
Lemma mark_in_ids sid g : ids (mark_in sid g) = ids g.
Proof. unfold ids, mark_in. cbn [g_shards]. apply mark_shard_ids. Qed.

Lemma in_range_ids g g' sid : ids g = ids g' -> in_range g sid = in_range g' sid.
Proof. unfold in_range, ids. rewrite !first_id_hd, !last_id_last. intros ->. reflexivity. Qed.

Lemma listed_spec gs s :
  listed gs s = true <-> exists g, In g gs /\ g_id g = n_gid s /\ In (n_id s) (ids g).
Proof.
  unfold listed. rewrite existsb_exists. split.
  - intros (g & Hg & H). apply andb_true_iff in H. destruct H as [H1 H2]. apply Z.eqb_eq in H1.
    apply existsb_exists in H2. destruct H2 as (x & Hx & Hx'). apply Z.eqb_eq in Hx'.
    exists g. repeat split; auto. unfold ids. rewrite <- Hx'. apply in_map, Hx.
  - intros (g & Hg & H1 & H2). exists g. split; [exact Hg|]. apply andb_true_iff. split; [now apply Z.eqb_eq|].
    unfold ids in H2. apply in_map_iff in H2. destruct H2 as (x & Hx & Hin). apply existsb_exists. exists x.
    split; [exact Hin|now apply Z.eqb_eq].
Qed.

(* the groups after deleting shard s, under the invariant *)
Definition after (s : nshard) (g : group) : group := mark_in (n_id s) (mark_group (n_gid s) g).
Definition keep (g : group) : bool := negb (g_deleted g && can_delete g).

Lemma delete_one_groups w s :
  Inv w -> In s (node w) ->
  groups (delete_one w s) = filter keep (map (after s) (groups w)).
Proof.
  intros I Hs. unfold delete_one, prune. cbn [groups]. rewrite map_map. f_equal.
  apply map_ext_in. intros g Hg. unfold after. apply prune_mark_eq.
  - rewrite mark_group_ids. apply (inv_asc w I g Hg).
  - rewrite mark_group_ids, (in_range_ids _ g _ (mark_group_ids _ g)). intros Hr.
    destruct (proj1 (listed_spec (groups w) s) (inv_listed w I s Hs)) as (g1 & Hg1 & _ & Hin1).
    exact (inv_range w I g1 g (n_id s) Hg1 Hg Hin1 Hr).
Qed.

Lemma after_ids s g : ids (after s g) = ids g.
Proof. unfold after. now rewrite mark_in_ids, mark_group_ids. Qed.
Lemma after_id s g : g_id (after s g) = g_id g.
Proof. unfold after, mark_in. cbn [g_id]. apply mark_group_id. Qed.
Lemma after_shards s g : g_shards (after s g) = map (mark_shard (n_id s)) (g_shards g).
Proof. unfold after, mark_in. cbn [g_shards]. now rewrite mark_group_shards. Qed.

Lemma Inv_delete_one w s : Inv w -> In s (node w) -> Inv (delete_one w s).
Proof.
  intros I Hs. pose proof (delete_one_groups w s I Hs) as HG.
  assert (Hnode : forall s', In s' (node (delete_one w s)) <-> In s' (node w) /\ n_id s' <> n_id s).
  { intros s'. rewrite delete_one_node, filter_In, negb_true_iff, Z.eqb_neq. tauto. }
  assert (Hgrp : forall g', In g' (groups (delete_one w s)) -> exists g, In g (groups w) /\ g' = after s g /\ keep g' = true).
  { intros g'. rewrite HG, filter_In, in_map_iff. intros [(g & <- & Hg) Hk]. exists g. auto. }
  constructor.
  - (* listed *)
    intros s' Hs'. apply Hnode in Hs'. destruct Hs' as [Hs' Hne].
    destruct (proj1 (listed_spec _ _) (inv_listed w I s' Hs')) as (g & Hg & Hgid & Hin).
    apply listed_spec. exists (after s g). rewrite after_id, after_ids. repeat split; auto.
    rewrite HG. apply filter_In. split; [apply in_map, Hg|].
    unfold keep. apply negb_true_iff. apply andb_false_iff. right.
    unfold can_delete. rewrite after_shards. unfold ids in Hin. apply in_map_iff in Hin.
    destruct Hin as (x & Hx & Hxin).
    assert (Hm : gs_markdel x = false) by exact (inv_unmarked w I s' g x Hs' Hg Hxin Hx).
    apply not_true_is_false. intros Hall. rewrite forallb_forall in Hall.
    specialize (Hall (mark_shard (n_id s) x) (in_map _ _ _ Hxin)).
    unfold mark_shard in Hall. destruct (Z.eqb_spec (gs_id x) (n_id s)) as [E|_]; [congruence|]. congruence.
  - intros s' Hs'. apply Hnode in Hs'. cbn [delete_one policies]. apply (inv_policy w I), Hs'.
  - intros g' Hg'. destruct (Hgrp g' Hg') as (g & Hg & -> & _). rewrite after_ids. apply (inv_asc w I g Hg).
  - intros g' Hg'. destruct (Hgrp g' Hg') as (g & Hg & -> & _). rewrite after_ids. apply (inv_nonempty w I g Hg).
  - intros g1' g2' sid H1 H2 Hin Hr.
    destruct (Hgrp g1' H1) as (g1 & Hg1 & -> & _). destruct (Hgrp g2' H2) as (g2 & Hg2 & -> & _).
    rewrite after_ids in *. rewrite (in_range_ids _ g2 _ (after_ids s g2)) in Hr.
    exact (inv_range w I g1 g2 sid Hg1 Hg2 Hin Hr).
  - intros s' g' x' Hs' Hg' Hx' Hid. apply Hnode in Hs'. destruct Hs' as [Hs' Hne].
    destruct (Hgrp g' Hg') as (g & Hg & -> & _). rewrite after_shards in Hx'.
    apply in_map_iff in Hx'. destruct Hx' as (x & <- & Hx).
    unfold mark_shard in *. destruct (Z.eqb_spec (gs_id x) (n_id s)) as [E|NE]; cbn [gs_id gs_markdel] in *.
    + congruence.
    + exact (inv_unmarked w I s' g x Hs' Hg Hx Hid).
  - rewrite delete_one_node. clear -I. pose proof (inv_nodup w I) as H.
    induction (node w) as [|a l IH]; [constructor|]. cbn [filter map] in *. inversion H; subst.
    destruct (negb (n_id a =? n_id s)); [|apply IH; assumption]. cbn [map]. constructor; [|apply IH; assumption].
    intros Hin. apply H2. apply in_map_iff in Hin. destruct Hin as (y & Hy & Hyin). apply filter_In in Hyin.
    rewrite <- Hy. apply in_map, Hyin.
Qed.

Lemma Inv_fold_delete ex : forall w,
  Inv w -> NoDup (map n_id ex) -> (forall s, In s ex -> In s (node w)) -> Inv (fold_left delete_one ex w).
Proof.
  induction ex as [|s ex IH]; intros w I Hnd Hin; cbn [fold_left]; [exact I|].
  cbn [map] in Hnd. inversion Hnd; subst.
  apply IH; [apply Inv_delete_one; [exact I|apply Hin; now left]|assumption|].
  intros s' Hs'. rewrite delete_one_node. apply filter_In. split; [apply Hin; now right|].
  apply negb_true_iff, Z.eqb_neq. intros E. apply H1. rewrite <- E. apply in_map, Hs'.
Qed.

Lemma Inv_refresh w : Inv w -> Inv (refresh w).
Proof.
  intros I.
  assert (Hn : forall s', In s' (node (refresh w)) -> exists s, In s (node w) /\ s' = refresh_one w s).
  { intros s'. cbn [refresh node]. rewrite in_map_iff. intros (s & <- & Hs). eauto. }
  constructor; cbn [refresh groups policies].
  - intros s' Hs'. destruct (Hn s' Hs') as (s & Hs & ->). destruct (refresh_one_id w s) as (Hid & Hgid & _).
    rewrite (listed_ext _ _ s Hid Hgid). apply (inv_listed w I s Hs).
  - intros s' Hs'. destruct (Hn s' Hs') as (s & Hs & ->). destruct (refresh_one_id w s) as (_ & _ & Hrp & _).
    rewrite Hrp. apply (inv_policy w I s Hs).
  - apply (inv_asc w I).
  - apply (inv_nonempty w I).
  - apply (inv_range w I).
  - intros s' g x Hs' Hg Hx Hid. destruct (Hn s' Hs') as (s & Hs & ->). destruct (refresh_one_id w s) as (Hid' & _).
    rewrite Hid' in Hid. exact (inv_unmarked w I s g x Hs Hg Hx Hid).
  - cbn [refresh node]. rewrite map_map. erewrite map_ext; [apply (inv_nodup w I)|].
    intros s. apply (refresh_one_id w s).
Qed.

Lemma NoDup_filter_map {A} (f : A -> Z) (p : A -> bool) l : NoDup (map f l) -> NoDup (map f (filter p l)).
Proof.
  induction l as [|a l IH]; intros H; [constructor|]. cbn [map filter] in *. inversion H; subst.
  destruct (p a); [|apply IH; assumption]. cbn [map]. constructor; [|apply IH; assumption].
  intros Hin. apply H2. apply in_map_iff in Hin. destruct Hin as (y & Hy & Hyin). apply filter_In in Hyin.
  rewrite <- Hy. apply in_map, Hyin.
Qed.

Lemma Inv_tick w now : Inv w -> Inv (fst (tick w now)).
Proof.
  intros I. unfold tick. cbn [fst]. pose proof (Inv_refresh w I) as I1.
  apply Inv_fold_delete; [exact I1| |].
  - unfold expired_shards. apply NoDup_filter_map, (inv_nodup _ I1).
  - intros s Hs. unfold expired_shards in Hs. apply filter_In in Hs. apply Hs.
Qed.

Lemma nodup_app_intro (l1 l2 : list Z) :
  NoDup l1 -> NoDup l2 -> (forall z, In z l1 -> In z l2 -> False) -> NoDup (l1 ++ l2).
Proof.
  induction l1 as [|a l1 IH]; intros H1 H2 Hd; [exact H2|]. cbn [app]. inversion H1; subst. constructor.
  - intros Hin. apply in_app_or in Hin. destruct Hin as [Hin|Hin]; [contradiction|]. apply (Hd a); [now left|exact Hin].
  - apply IH; [assumption|assumption|]. intros z Hz1 Hz2. apply (Hd z); [now right|exact Hz2].
Qed.

(* ---------- well-formed events ---------- *)
Definition fresh_group (w : world) (g : group) : Prop :=
  ascending (ids g) /\ ids g <> [] /\ (forall x, In x (g_shards g) -> gs_markdel x = false)
  /\ (forall sid g' y, In sid (ids g) -> In g' (groups w) -> In y (ids g') -> y < sid)
  /\ policy_dur (policies w) (g_rp g) <> None.

Definition wf_event (w : world) (e : event) : Prop :=
  match e with AddGroup g _ => fresh_group w g | _ => True end.

Fixpoint wf_trace (w : world) (es : list event) : Prop :=
  match es with
  | [] => True
  | e :: es' => wf_event w e /\ wf_trace (fst (step w e)) es'
  end.

Lemma policy_dur_alter ps rp d rp' :
  policy_dur ps rp' <> None ->
  policy_dur (map (fun p => if p_id p =? rp then {| p_id := rp; p_dur := d |} else p) ps) rp' <> None.
Proof.
  induction ps as [|p ps IH]; cbn [policy_dur map]; [congruence|]. intros H.
  destruct (Z.eqb_spec (p_id p) rp) as [E|NE]; cbn [p_id].
  - subst rp. destruct (p_id p =? rp'); [congruence|apply IH, H].
  - destruct (p_id p =? rp'); [congruence|apply IH, H].
Qed.

Lemma Inv_add_group w g l : Inv w -> fresh_group w g -> Inv (add_group w g l).
Proof.
  intros I (Ha & Hne & Hum & Hfresh & Hpol).
  set (news := map (fun x => {| n_id := gs_id x; n_gid := g_id g; n_rp := g_rp g; n_end := g_end g;
                               n_dur := match policy_dur (policies w) (g_rp g) with Some d => d | None => 0 end;
                               n_loaded := l |}) (g_shards g)).
  assert (Hnode : node (add_group w g l) = node w ++ news) by reflexivity.
  assert (Hgroups : groups (add_group w g l) = groups w ++ [g]) by reflexivity.
  assert (Hnew : forall s, In s news -> n_gid s = g_id g /\ n_rp s = g_rp g /\ In (n_id s) (ids g)).
  { intros s Hs. unfold news in Hs. apply in_map_iff in Hs. destruct Hs as (x & <- & Hx). cbn.
    repeat split. unfold ids. apply in_map, Hx. }
  assert (Hold_id : forall s, In s (node w) -> exists g', In g' (groups w) /\ In (n_id s) (ids g')).
  { intros s Hs. destruct (proj1 (listed_spec _ _) (inv_listed w I s Hs)) as (g' & Hg' & _ & Hin). eauto. }
  constructor; rewrite ?Hnode, ?Hgroups.
  - intros s Hs. apply in_app_or in Hs. apply listed_spec. destruct Hs as [Hs|Hs].
    + destruct (proj1 (listed_spec _ _) (inv_listed w I s Hs)) as (g' & Hg' & H1 & H2).
      exists g'. split; [apply in_or_app; now left|auto].
    + destruct (Hnew s Hs) as (H1 & _ & H3). exists g. split; [apply in_or_app; right; now left|auto].
  - cbn [add_group policies]. intros s Hs. apply in_app_or in Hs. destruct Hs as [Hs|Hs].
    + apply (inv_policy w I s Hs).
    + destruct (Hnew s Hs) as (_ & -> & _). exact Hpol.
  - intros g' Hg'. apply in_app_or in Hg'. destruct Hg' as [Hg'|[<-|[]]]; [apply (inv_asc w I g' Hg')|exact Ha].
  - intros g' Hg'. apply in_app_or in Hg'. destruct Hg' as [Hg'|[<-|[]]]; [apply (inv_nonempty w I g' Hg')|exact Hne].
  - intros g1 g2 sid H1 H2 Hin Hr. apply in_app_or in H1. apply in_app_or in H2.
    destruct H1 as [H1|[<-|[]]]; destruct H2 as [H2|[<-|[]]].
    + exact (inv_range w I g1 g2 sid H1 H2 Hin Hr).
    + (* g1 old, g2 = g: first id of g > sid *)
      exfalso. unfold in_range in Hr. apply andb_true_iff in Hr. destruct Hr as [Hr _]. apply Z.leb_le in Hr.
      rewrite first_id_hd in Hr. pose proof (first_in (map gs_id (g_shards g)) Hne) as Hf.
      pose proof (Hfresh _ g1 sid Hf H1 Hin). lia.
    + (* g1 = g, g2 old: last id of g2 < sid *)
      exfalso. unfold in_range in Hr. apply andb_true_iff in Hr. destruct Hr as [_ Hr]. apply Z.leb_le in Hr.
      rewrite last_id_last in Hr. pose proof (last_in (map gs_id (g_shards g2)) 0 (inv_nonempty w I g2 H2)) as Hl.
      pose proof (Hfresh sid g2 _ Hin H2 Hl). lia.
    + exact Hin.
  - intros s g' x Hs Hg' Hx Hid. apply in_app_or in Hs. apply in_app_or in Hg'.
    destruct Hg' as [Hg'|[<-|[]]]; [|apply Hum, Hx].
    destruct Hs as [Hs|Hs]; [exact (inv_unmarked w I s g' x Hs Hg' Hx Hid)|].
    exfalso. destruct (Hnew s Hs) as (_ & _ & Hin).
    assert (Hy : In (gs_id x) (ids g')) by (unfold ids; apply in_map, Hx).
    pose proof (Hfresh (n_id s) g' (gs_id x) Hin Hg' Hy). lia.
  - rewrite map_app. apply nodup_app_intro.
    + apply (inv_nodup w I).
    + unfold news. rewrite map_map. cbn [n_id]. apply ascending_nodup, Ha.
    + intros z Hz1 Hz2. apply in_map_iff in Hz1. destruct Hz1 as (s1 & <- & Hs1).
      apply in_map_iff in Hz2. destruct Hz2 as (s2 & E & Hs2).
      destruct (Hold_id s1 Hs1) as (g' & Hg' & Hin'). destruct (Hnew s2 Hs2) as (_ & _ & Hin2).
      rewrite E in Hin2. pose proof (Hfresh _ g' _ Hin2 Hg' Hin'). lia.
Qed.

Lemma Inv_alter w rp d : Inv w -> Inv (alter w rp d).
Proof.
  intros I. constructor; cbn [alter groups node policies];
    [apply (inv_listed w I)| |apply (inv_asc w I)|apply (inv_nonempty w I)|apply (inv_range w I)
     |apply (inv_unmarked w I)|apply (inv_nodup w I)].
  intros s Hs. apply policy_dur_alter, (inv_policy w I s Hs).
Qed.

Lemma Inv_restart w : Inv w -> Inv (restart w).
Proof.
  intros I.
  assert (Hn : forall s', In s' (node (restart w)) -> exists s, In s (node w) /\ n_id s' = n_id s /\ n_gid s' = n_gid s /\ n_rp s' = n_rp s).
  { intros s'. cbn [restart node]. rewrite in_map_iff. intros (s & <- & Hs). exists s. cbn. auto. }
  constructor; cbn [restart groups policies].
  - intros s' Hs'. destruct (Hn s' Hs') as (s & Hs & Hid & Hgid & _). rewrite (listed_ext _ _ s Hid Hgid). apply (inv_listed w I s Hs).
  - intros s' Hs'. destruct (Hn s' Hs') as (s & Hs & _ & _ & Hrp). rewrite Hrp. apply (inv_policy w I s Hs).
  - apply (inv_asc w I).
  - apply (inv_nonempty w I).
  - apply (inv_range w I).
  - intros s' g x Hs' Hg Hx Hid. destruct (Hn s' Hs') as (s & Hs & Hid' & _). rewrite Hid' in Hid.
    exact (inv_unmarked w I s g x Hs Hg Hx Hid).
  - cbn [restart node]. rewrite map_map. cbn [n_id]. apply (inv_nodup w I).
Qed.

Lemma Inv_step w e : Inv w -> wf_event w e -> Inv (fst (step w e)).
Proof.
  intros I Hwf. destruct e as [now|rp d|g l|now'|]; cbn [step fst].
  - apply Inv_tick, I.
  - apply Inv_alter, I.
  - apply Inv_add_group; assumption.
  - exact I.
  - apply Inv_restart, I.
Qed.

Lemma run_cons w e es : run w (e :: es) = (fst (run (fst (step w e)) es), snd (step w e) ++ snd (run (fst (step w e)) es)).
Proof. cbn [run]. destruct (step w e) as [w1 d1]. cbn [fst snd]. destruct (run w1 es) as [w2 d2]. reflexivity. Qed.

Lemma Inv_run es : forall w, Inv w -> wf_trace w es -> Inv (fst (run w es)).
Proof.
  induction es as [|e es IH]; intros w I Hwf; [exact I|]. rewrite run_cons. cbn [fst].
  destruct Hwf as [He Hes]. apply IH; [apply Inv_step; assumption|exact Hes].
Qed.

Lemma wf_trace_app pre : forall w post, wf_trace w (pre ++ post) -> wf_trace w pre /\ wf_trace (fst (run w pre)) post.
Proof.
  induction pre as [|e pre IH]; intros w post H; [split; [exact I|exact H]|].
  cbn [app wf_trace] in H. destruct H as [He H]. destruct (IH _ _ H) as [H1 H2].
  split; [split; assumption|]. rewrite run_cons. exact H2.
Qed.

Lemma Inv_init ps : Inv {| policies := ps; groups := []; node := [] |}.
Proof. constructor; cbn; try (intros; contradiction). constructor. Qed.

(* closed form of safety: from a consistent world, over every well-formed trace, every deletion is justified by the
   policy duration in force in the catalogue at the deciding step *)
Lemma safety_closed es w0 r :
  Inv w0 -> wf_trace w0 es -> In r (snd (run w0 es)) ->
  exists d, del_dur r = Some d /\ d <> 0 /\ n_end (del_shard r) + d < del_now r.
Proof.
  intros I Hwf Hr. destruct (safety_all_traces es w0 r Hr) as (pre & post & s0 & Hes & Hin & Hid & Hend & Hdd & Hj).
  cbn zeta in *. rewrite Hes in Hwf. destruct (wf_trace_app pre w0 _ Hwf) as [Hpre _].
  pose proof (Inv_run pre w0 I Hpre) as Iw. set (w := fst (run w0 pre)) in *.
  pose proof (inv_listed w Iw s0 Hin) as Hl. pose proof (inv_policy w Iw s0 Hin) as Hp.
  destruct (policy_dur (policies w) (n_rp s0)) as [d|] eqn:Ed; [|congruence].
  exists d. split; [exact Hdd|]. rewrite Hend. destruct Hj as [Hj _]. exact (Hj Hl d Ed).
Qed.

(* ---------- progress on the catalogue side: an expired group whose live shards are all on this node is pruned ---------- *)
Definition marked_by (ex : list nshard) (x : gshard) : gshard :=
  {| gs_id := gs_id x; gs_markdel := gs_markdel x || existsb (fun s => gs_id x =? n_id s) ex |}.

Lemma marked_by_nil x : marked_by [] x = x.
Proof. destruct x as [i m]. unfold marked_by. cbn. now rewrite orb_false_r. Qed.

Lemma marked_by_cons s ex x : marked_by ex (mark_shard (n_id s) x) = marked_by (s :: ex) x.
Proof.
  destruct x as [i m]. unfold marked_by, mark_shard. cbn [gs_id gs_markdel existsb].
  destruct (i =? n_id s), m; reflexivity.
Qed.

Lemma mark_group_deleted gid g : g_deleted (mark_group gid g) = g_deleted g || (g_id g =? gid).
Proof. unfold mark_group. destruct (g_id g =? gid); cbn; [now rewrite orb_true_r|now rewrite orb_false_r]. Qed.

Lemma after_deleted s g : g_deleted (after s g) = g_deleted g || (g_id g =? n_gid s).
Proof. unfold after, mark_in. cbn [g_deleted]. apply mark_group_deleted. Qed.

Lemma fold_groups_char ex : forall w,
  Inv w -> NoDup (map n_id ex) -> (forall s, In s ex -> In s (node w)) ->
  forall g', In g' (groups (fold_left delete_one ex w)) ->
  exists g, In g (groups w) /\ g_id g' = g_id g /\ g_shards g' = map (marked_by ex) (g_shards g)
            /\ g_deleted g' = g_deleted g || existsb (fun s => g_id g =? n_gid s) ex
            /\ (ex <> [] -> keep g' = true).
Proof.
  induction ex as [|s ex IH]; intros w I Hnd Hin g' Hg'; cbn [fold_left] in Hg'.
  - exists g'. split; [exact Hg'|]. split; [reflexivity|]. split.
    + rewrite (map_ext _ (fun x => x) marked_by_nil), map_id. reflexivity.
    + split; [cbn; now rewrite orb_false_r|congruence].
  - cbn [map] in Hnd. inversion Hnd as [|? ? Hnotin Hnd']; subst.
    assert (Hs : In s (node w)) by (apply Hin; now left).
    pose proof (Inv_delete_one w s I Hs) as I1.
    assert (Hin1 : forall s', In s' ex -> In s' (node (delete_one w s))).
    { intros s' Hs'. rewrite delete_one_node. apply filter_In. split; [apply Hin; now right|].
      apply negb_true_iff, Z.eqb_neq. intros E. apply Hnotin. rewrite <- E. apply in_map, Hs'. }
    destruct (IH _ I1 Hnd' Hin1 g' Hg') as (g1 & Hg1 & Hid & Hsh & Hdel & Hkeep).
    rewrite (delete_one_groups w s I Hs) in Hg1. apply filter_In in Hg1. destruct Hg1 as [Hg1 Hk1].
    apply in_map_iff in Hg1. destruct Hg1 as (g & <- & Hg).
    exists g. split; [exact Hg|]. split; [now rewrite Hid, after_id|]. split.
    + rewrite Hsh, after_shards, map_map. apply map_ext. intros x. apply marked_by_cons.
    + split.
      * rewrite Hdel, after_deleted, after_id. cbn [existsb]. now rewrite orb_assoc.
      * intros _. destruct ex as [|s2 ex2]; [|apply Hkeep; congruence].
        cbn [fold_left] in Hg'. rewrite (delete_one_groups w s I Hs) in Hg'. apply filter_In in Hg'. apply Hg'.
Qed.

Lemma tick_prunes_group w now g d :
  Inv w -> In g (groups w) ->
  (forall g2, In g2 (groups w) -> g_id g2 = g_id g -> g2 = g) ->
  policy_dur (policies w) (g_rp g) = Some d -> d <> 0 -> g_end g + d < now ->
  (forall x, In x (g_shards g) -> gs_markdel x = false ->
     exists s, In s (node w) /\ n_id s = gs_id x /\ n_gid s = g_id g /\ n_rp s = g_rp g /\ n_end s = g_end g) ->
  (exists x, In x (g_shards g) /\ gs_markdel x = false) ->
  forall g', In g' (groups (fst (tick w now))) -> g_id g' <> g_id g.
Proof.
  intros I Hg Huniq Hpol Hd0 Hexp Hcomplete (x0 & Hx0 & Hm0) g' Hg' Heq.
  unfold tick in Hg'. cbn [fst] in Hg'. set (ex := expired_shards (refresh w) now) in *.
  pose proof (Inv_refresh w I) as I1.
  assert (Hnd : NoDup (map n_id ex)) by (apply NoDup_filter_map, (inv_nodup _ I1)).
  assert (Hin : forall s, In s ex -> In s (node (refresh w))) by (intros s Hs; apply filter_In in Hs; apply Hs).
  destruct (fold_groups_char ex (refresh w) I1 Hnd Hin g' Hg') as (g0 & Hg0 & Hid & Hsh & Hdel & Hkeep).
  cbn [refresh groups] in Hg0. assert (g0 = g) by (apply Huniq; [exact Hg0|congruence]). subst g0.
  (* every live shard of g is selected as expired *)
  assert (Hsel : forall x, In x (g_shards g) -> gs_markdel x = false ->
                 exists s1, In s1 ex /\ n_id s1 = gs_id x /\ n_gid s1 = g_id g).
  { intros x Hx Hm. destruct (Hcomplete x Hx Hm) as (s & Hs & Hsid & Hsgid & Hsrp & Hsend).
    exists (refresh_one w s). destruct (refresh_one_id w s) as (Hid1 & Hgid1 & Hrp1 & Hend1 & Hld1).
    split; [|split; congruence]. unfold ex, expired_shards. apply filter_In. split.
    - cbn [refresh node]. apply in_map, Hs.
    - pose proof (inv_listed w I s Hs) as Hl. rewrite <- Hsrp in Hpol.
      unfold shard_expired. rewrite Hld1, Hend1, (refresh_one_dur w s d Hl Hpol). cbn [refresh groups].
      rewrite (listed_ext (groups w) _ s Hid1 Hgid1), Hl.
      assert (E : expired d (n_end s) now = true) by (apply expired_spec; lia). rewrite E. now destruct (n_loaded s). }
  destruct (Hsel x0 Hx0 Hm0) as (s0 & Hs0 & _ & Hgid0).
  assert (Hne : ex <> []) by (intros E; rewrite E in Hs0; destruct Hs0).
  specialize (Hkeep Hne). unfold keep in Hkeep. apply negb_true_iff, andb_false_iff in Hkeep.
  destruct Hkeep as [Hk|Hk].
  - rewrite Hdel in Hk. apply orb_false_iff in Hk. destruct Hk as [_ Hk].
    assert (Ht : existsb (fun s => g_id g =? n_gid s) ex = true).
    { apply existsb_exists. exists s0. split; [exact Hs0|]. apply Z.eqb_eq. congruence. }
    congruence.
  - unfold can_delete in Hk. rewrite Hsh in Hk.
    assert (Ht : forallb gs_markdel (map (marked_by ex) (g_shards g)) = true).
    { apply forallb_forall. intros y Hy. apply in_map_iff in Hy. destruct Hy as (x & <- & Hx).
      unfold marked_by. cbn [gs_markdel]. destruct (gs_markdel x) eqn:Em; [reflexivity|]. cbn [orb].
      destruct (Hsel x Hx Em) as (s1 & Hs1 & Hid1 & _). apply existsb_exists. exists s1.
      split; [exact Hs1|]. apply Z.eqb_eq. congruence. }
    congruence.
Qed.
