(* C14 - retention: executable model (definitions only; proofs live in Proofs.v).
   Mirrors: engine shard.IsExpired / EngineImpl.nilShardIsExpired / ExpiredShards,
   services/retention Service.handle = updateDurationInfo ; HandleLocalStorage,
   meta Data.DurationInfos / DeleteShardGroup(MarkDelete) / pruneShardGroups / UpdateRetentionPolicy(duration),
   coordinator write context minTime check.
   Instants and durations are unbounded Z nanoseconds (Go: int64 ns; time.Time.Add/Before do not wrap in the
   supported range, see DESIGN C14). *)
From Coq Require Import ZArith List Bool.
Import ListNotations.
Open Scope Z_scope.

(* d <> 0 && end + d < now   (strict, as time.Before) *)
Definition expired (d endT now : Z) : bool := negb (d =? 0) && (endT + d <? now).

(* ---- catalogue side (meta.Data restricted to what retention touches) ---- *)
Record gshard := { gs_id : Z; gs_markdel : bool }.
Record group := { g_id : Z; g_rp : Z; g_start : Z; g_end : Z; g_deleted : bool; g_shards : list gshard }.
Record policy := { p_id : Z; p_dur : Z }.

(* ---- node side ---- *)
Record nshard := { n_id : Z; n_gid : Z; n_rp : Z; n_end : Z;
                   n_dur : Z;        (* duration as last told to the node (shard.durationInfo.Duration) *)
                   n_loaded : bool   (* false: the shard is known to meta for this node but not opened: it goes through nilShardMap *) }.

Record world := { policies : list policy; groups : list group; node : list nshard }.

Fixpoint policy_dur (ps : list policy) (rp : Z) : option Z :=
  match ps with
  | [] => None
  | p :: ps' => if p_id p =? rp then Some (p_dur p) else policy_dur ps' rp
  end.

(* updateShardDurationInfo: every shard of the node that meta still lists gets the policy's current duration.
   A shard whose group is no longer in the catalogue keeps what it had (loaded) - nilShardMap only has listed ones. *)
Definition listed (gs : list group) (s : nshard) : bool :=
  existsb (fun g => (g_id g =? n_gid s) && existsb (fun x => gs_id x =? n_id s) (g_shards g)) gs.

Definition refresh_one (w : world) (s : nshard) : nshard :=
  if listed (groups w) s then
    match policy_dur (policies w) (n_rp s) with
    | Some d => {| n_id := n_id s; n_gid := n_gid s; n_rp := n_rp s; n_end := n_end s; n_dur := d; n_loaded := n_loaded s |}
    | None => s
    end
  else s.

Definition refresh (w : world) : world :=
  {| policies := policies w; groups := groups w; node := map (refresh_one w) (node w) |}.

(* ExpiredShards: loaded shards by their own durationInfo; unloaded ones only if present in nilShardMap (= listed) *)
Definition shard_expired (gs : list group) (now : Z) (s : nshard) : bool :=
  if n_loaded s then expired (n_dur s) (n_end s) now
  else listed gs s && expired (n_dur s) (n_end s) now.

Definition expired_shards (w : world) (now : Z) : list nshard :=
  filter (shard_expired (groups w) now) (node w).

(* meta.DeleteShardGroup(.., MarkDelete): set DeletedAt of that group *)
Definition mark_group (gid : Z) (g : group) : group :=
  if g_id g =? gid then {| g_id := g_id g; g_rp := g_rp g; g_start := g_start g; g_end := g_end g; g_deleted := true; g_shards := g_shards g |} else g.

(* pruneShardGroups id: mark the shard with that id inside whichever group's id range contains it;
   then drop every group that is deleted and whose shards are all marked *)
Definition mark_shard (sid : Z) (x : gshard) : gshard :=
  if gs_id x =? sid then {| gs_id := gs_id x; gs_markdel := true |} else x.

Definition first_id (l : list gshard) : Z := match l with [] => 0 | x :: _ => gs_id x end.
Definition last_id (l : list gshard) : Z := gs_id (last l {| gs_id := 0; gs_markdel := false |}).

(* sort.Search over ascending ids: first position with id >= sid *)
Fixpoint mark_first_ge (sid : Z) (l : list gshard) : list gshard :=
  match l with
  | [] => []
  | x :: r => if sid <=? gs_id x then {| gs_id := gs_id x; gs_markdel := true |} :: r else x :: mark_first_ge sid r
  end.

Definition prune_mark (sid : Z) (g : group) : group :=
  if (first_id (g_shards g) <=? sid) && (sid <=? last_id (g_shards g)) then
    {| g_id := g_id g; g_rp := g_rp g; g_start := g_start g; g_end := g_end g; g_deleted := g_deleted g;
       g_shards := mark_first_ge sid (g_shards g) |}
  else g.

Definition can_delete (g : group) : bool := forallb gs_markdel (g_shards g).
Definition prune (sid : Z) (gs : list group) : list group :=
  filter (fun g => negb (g_deleted g && can_delete g)) (map (prune_mark sid) gs).

(* HandleLocalStorage for one expired shard *)
Definition delete_one (w : world) (s : nshard) : world :=
  {| policies := policies w;
     groups := prune (n_id s) (map (mark_group (n_gid s)) (groups w));
     node := filter (fun x => negb (n_id x =? n_id s)) (node w) |}.

Inductive event :=
| Tick (now : Z)                       (* one run of the retention service on the node *)
| Alter (rp d : Z)                     (* ALTER RETENTION POLICY .. DURATION d  (0 = unlimited) *)
| AddGroup (g : group) (loaded : bool) (* a shard group is created; the node gets its shards *)
| TickAborted (now : Z)                (* a run of the service whose duration refresh from meta failed: the pass is abandoned, nothing is decided on stale durations *)
| Restart.                             (* node restart: loaded flags are lost = every shard becomes "not loaded" until opened; durations forgotten *)

(* a deletion record: which shard, at which clock reading, and the policy duration in force in the catalogue at that step *)
Record deletion := { del_shard : nshard; del_now : Z; del_dur : option Z }.

Definition tick (w : world) (now : Z) : world * list deletion :=
  let w1 := refresh w in
  let ex := expired_shards w1 now in
  (fold_left delete_one ex w1,
   map (fun s => {| del_shard := s; del_now := now; del_dur := policy_dur (policies w) (n_rp s) |}) ex).

Definition alter (w : world) (rp d : Z) : world :=
  {| policies := map (fun p => if p_id p =? rp then {| p_id := rp; p_dur := d |} else p) (policies w);
     groups := groups w; node := node w |}.

Definition add_group (w : world) (g : group) (loaded : bool) : world :=
  let d := match policy_dur (policies w) (g_rp g) with Some d => d | None => 0 end in
  {| policies := policies w; groups := groups w ++ [g];
     node := node w ++ map (fun x => {| n_id := gs_id x; n_gid := g_id g; n_rp := g_rp g; n_end := g_end g; n_dur := d; n_loaded := loaded |}) (g_shards g) |}.

Definition restart (w : world) : world :=
  {| policies := policies w; groups := groups w;
     node := map (fun s => {| n_id := n_id s; n_gid := n_gid s; n_rp := n_rp s; n_end := n_end s; n_dur := 0; n_loaded := false |}) (node w) |}.

Definition step (w : world) (e : event) : world * list deletion :=
  match e with
  | Tick now => tick w now
  | Alter rp d => (alter w rp d, [])
  | AddGroup g l => (add_group w g l, [])
  | TickAborted _ => (w, [])
  | Restart => (restart w, [])
  end.

Fixpoint run (w : world) (es : list event) : world * list deletion :=
  match es with
  | [] => (w, [])
  | e :: es' => let '(w1, d1) := step w e in let '(w2, d2) := run w1 es' in (w2, d1 ++ d2)
  end.

(* write admission (coordinator): minTime = nowSec*1e9 - d when d > 0, else 0; reject t < minTime *)
Definition write_accept (d nowsec t : Z) : bool :=
  if 0 <? d then negb (t <? nowsec * 1000000000 - d) else negb (t <? 0).

(* observables compared with the implementation after every event *)
Definition obs_node (w : world) : list Z := map n_id (node w).
Definition obs_groups (w : world) : list (Z * bool * list (Z * bool)) :=
  map (fun g => (g_id g, g_deleted g, map (fun x => (gs_id x, gs_markdel x)) (g_shards g))) (groups w).
