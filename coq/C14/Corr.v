(* C14 correspondence evaluator: runs the model on a harness trace and reports the first event index at which the
   model's observables differ from those the implementation produced. *)
From Coq Require Import ZArith List Bool.
From OG Require Import C14.Model.
Import ListNotations.
Open Scope Z_scope.

Definition gobs := (Z * bool * list (Z * bool))%type.
Definition obs := (list Z * list gobs)%type.

Fixpoint insert_by {A} (key : A -> Z) (x : A) (l : list A) : list A :=
  match l with
  | [] => [x]
  | y :: r => if key x <=? key y then x :: l else y :: insert_by key x r
  end.
Definition sort_by {A} (key : A -> Z) (l : list A) : list A := fold_right (insert_by key) [] l.

Definition model_obs (w : world) : obs :=
  (sort_by (fun x => x) (obs_node w), sort_by (fun g : gobs => fst (fst g)) (obs_groups w)).

Fixpoint list_eqb {A} (eqb : A -> A -> bool) (a b : list A) : bool :=
  match a, b with
  | [], [] => true
  | x :: a', y :: b' => eqb x y && list_eqb eqb a' b'
  | _, _ => false
  end.
Definition pair_eqb (a b : Z * bool) := (fst a =? fst b) && Bool.eqb (snd a) (snd b).
Definition gobs_eqb (a b : gobs) :=
  (fst (fst a) =? fst (fst b)) && Bool.eqb (snd (fst a)) (snd (fst b)) && list_eqb pair_eqb (snd a) (snd b).
Definition obs_eqb (a b : obs) := list_eqb Z.eqb (fst a) (fst b) && list_eqb gobs_eqb (snd a) (snd b).

(* returns None if every step agrees, else Some index of the first disagreeing event *)
Fixpoint check_from (i : nat) (w : world) (es : list event) (os : list obs) : option nat :=
  match es, os with
  | [], _ => None
  | e :: es', o :: os' =>
      let w' := fst (step w e) in
      if obs_eqb (model_obs w') o then check_from (S i) w' es' os' else Some i
  | _ :: _, [] => Some i
  end.

Definition check_trace (ps : list (Z * Z)) (es : list event) (os : list obs) : option nat :=
  check_from 0 {| policies := map (fun p => {| p_id := fst p; p_dur := snd p |}) ps; groups := []; node := [] |} es os.

Definition mk_group (gid rp st en : Z) (shards : list Z) : group :=
  {| g_id := gid; g_rp := rp; g_start := st; g_end := en; g_deleted := false;
     g_shards := map (fun s => {| gs_id := s; gs_markdel := false |}) shards |}.

(* indices (case number, event index) of all disagreeing cases *)
Fixpoint mismatches_from (k : nat) (cs : list (list (Z * Z) * list event * list obs)) : list (nat * nat) :=
  match cs with
  | [] => []
  | (ps, es, os) :: r =>
      match check_trace ps es os with
      | None => mismatches_from (S k) r
      | Some i => (k, i) :: mismatches_from (S k) r
      end
  end.
Definition mismatches := mismatches_from 0.
