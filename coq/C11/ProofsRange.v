(* C11, range sharding after re-sharding: several key ranges per shard group.
   - DestShard picks THE shard whose half-open range [Min, Max) contains the key (existence and uniqueness);
   - the groups produced by CreateShardGroupWithBounds (Data.ReSharding) with strictly increasing non-empty split points,
     and the groups CreateShardGroup creates afterwards (ranges copied from the newest group), keep that shape;
   - the read side consults every shard whose range can hold a key that extends the prefix built from the condition. *)
From Coq Require Import ZArith NArith List Bool Lia.
From OG Require Import C11.Model C11.Proofs.
Import ListNotations.

(* ------------------------------------------------------------------ the order on byte strings, non-strict part *)
Lemma str_leb_cmp : forall a b, str_leb a b = true <-> str_cmp a b <> Gt.
Proof. intros a b. unfold str_leb. destruct (str_cmp a b); split; intros H; try reflexivity; try discriminate; congruence. Qed.

Lemma str_leb_refl : forall a, str_leb a a = true.
Proof. intros a. unfold str_leb. rewrite str_cmp_refl. reflexivity. Qed.

Lemma str_nil_leb : forall a, str_leb [] a = true.
Proof. destruct a; reflexivity. Qed.

Lemma str_lt_leb : forall a b, str_lt a b -> str_leb a b = true.
Proof. intros a b H. apply str_lt_cmp in H. unfold str_leb. rewrite H. reflexivity. Qed.

Lemma str_lt_nonnil : forall a b, str_lt a b -> b <> [].
Proof. intros a b H E. subst b. apply str_lt_cmp in H. destruct a; simpl in H; discriminate. Qed.

Lemma str_lt_not_leb : forall a b, str_lt a b -> str_leb b a = false.
Proof.
  intros a b H. apply str_lt_cmp in H. unfold str_leb. rewrite (str_cmp_antisym a b), H. reflexivity.
Qed.

Lemma str_leb_trans : forall a b c, str_leb a b = true -> str_leb b c = true -> str_leb a c = true.
Proof.
  intros a b c H1 H2. unfold str_leb in *.
  destruct (str_cmp a b) eqn:E1; try discriminate.
  - apply str_cmp_eq in E1. subst b. exact H2.
  - destruct (str_cmp b c) eqn:E2; try discriminate.
    + apply str_cmp_eq in E2. subst c. rewrite E1. reflexivity.
    + rewrite (str_cmp_lt_trans _ _ _ E1 E2). reflexivity.
Qed.

Lemma str_lt_leb_trans : forall a b c, str_lt a b -> str_leb b c = true -> str_lt a c.
Proof.
  intros a b c H1 H2. apply str_lt_cmp in H1. apply str_lt_cmp. unfold str_leb in H2.
  destruct (str_cmp b c) eqn:E2; try discriminate.
  - apply str_cmp_eq in E2. subst c. exact H1.
  - exact (str_cmp_lt_trans _ _ _ H1 E2).
Qed.

(* ------------------------------------------------------------------ key ranges that tile the key space *)
(* first Min = lo, every shard's Max is the next shard's Min and lies strictly above its own Min, the last Max is open *)
Fixpoint range_chain (lo : str) (shards : list shard) : Prop :=
  match shards with
  | [] => False
  | s :: rest => s_min s = lo /\ match rest with
                                | [] => s_max s = []
                                | _ :: _ => str_lt lo (s_max s) /\ range_chain (s_max s) rest
                                end
  end.

Lemma range_chain_covers : forall shards lo, range_chain lo shards -> covers_from lo shards.
Proof.
  induction shards as [|s rest IH]; intros lo H; [contradiction|]. destruct H as [Hmin Hrest]. split; [exact Hmin|].
  destruct rest as [|s1 rest']; [exact Hrest|]. destruct Hrest as [Hlt Hch]. split; [eapply str_lt_nonnil; eauto|]. apply IH; exact Hch.
Qed.

Lemma chain_min_ge : forall shards lo s, range_chain lo shards -> In s shards -> str_leb lo (s_min s) = true.
Proof.
  induction shards as [|s0 rest IH]; intros lo s H Hin; [contradiction|]. destruct H as [Hmin Hrest].
  destruct Hin as [<-|Hin]; [rewrite Hmin; apply str_leb_refl|].
  destruct rest as [|s1 rest']; [contradiction|]. destruct Hrest as [Hlt Hch].
  apply str_lt_leb. eapply str_lt_leb_trans; [exact Hlt|]. eapply IH; eauto.
Qed.

Lemma chain_head_excludes_rest : forall s0 rest lo key s',
  range_chain lo (s0 :: rest) -> In s' rest -> contain s0 key = true -> contain s' key = true -> False.
Proof.
  intros s0 rest lo key s' H Hin Hc0 Hc'. destruct H as [Hmin Hrest]. destruct rest as [|s1 rest']; [contradiction|].
  destruct Hrest as [Hlt Hch]. unfold contain in Hc0, Hc'.
  apply andb_true_iff in Hc0 as [_ Hmax]. apply andb_true_iff in Hc' as [Hmin' _].
  assert (Hne : is_nil (s_max s0) = false) by (pose proof (str_lt_nonnil _ _ Hlt); destruct (s_max s0); [congruence|reflexivity]).
  rewrite Hne in Hmax. simpl in Hmax.
  pose proof (chain_min_ge _ _ _ Hch Hin) as Hge.
  pose proof (str_leb_trans _ _ _ Hge Hmin') as Hle.
  assert (Hlt' : str_lt key (s_max s0)) by exact Hmax.
  rewrite (str_lt_not_leb _ _ Hlt') in Hle. discriminate.
Qed.

Lemma chain_unique : forall shards lo key s s',
  range_chain lo shards -> In s shards -> In s' shards -> contain s key = true -> contain s' key = true -> s = s'.
Proof.
  induction shards as [|s0 rest IH]; intros lo key s s' H Hs Hs' Hc Hc'; [contradiction|].
  destruct Hs as [<-|Hs]; destruct Hs' as [<-|Hs']; auto.
  - exfalso. eapply chain_head_excludes_rest; eauto.
  - exfalso. eapply chain_head_excludes_rest; eauto.
  - destruct H as [_ Hrest]. destruct rest as [|s1 rest']; [contradiction|]. destruct Hrest as [_ Hch]. eapply IH; eauto.
Qed.

(* DestShard: the key has exactly one owner among the shards of the group, and DestShard returns it *)
Theorem range_dest_unique_proof : forall g key, range_chain [] (g_shards g) ->
  exists s, dest_shard key g = Some s /\ In s (g_shards g) /\ contain s key = true /\
            forall s', In s' (g_shards g) -> contain s' key = true -> s' = s.
Proof.
  intros g key H.
  destruct (covers_contains _ [] key (range_chain_covers _ _ H) (str_nil_leb key)) as [x [Hx Hcx]].
  destruct (find_exists (fun s0 => contain s0 key) (g_shards g)) as [y Hy]; [eauto|].
  exists y. unfold dest_shard. split; [exact Hy|]. apply find_some in Hy as [Hin Hc]. split; [exact Hin|]. split; [exact Hc|].
  intros s' Hs' Hc'. eapply chain_unique; eauto.
Qed.

(* ------------------------------------------------------------------ where such groups come from *)
(* split points handed to ReSharding: non-empty and strictly increasing *)
Fixpoint bounds_sorted (lo : str) (bounds : list str) : Prop :=
  match bounds with
  | [] => True
  | b :: r => str_lt lo b /\ bounds_sorted b r
  end.

Definition ranges (shards : list shard) : list (str * str) := map (fun s => (s_min s, s_max s)) shards.

Lemma ranges_of_nonempty : forall bounds lo, ranges_of lo bounds <> [].
Proof. destruct bounds; simpl; discriminate. Qed.

Lemma chain_of_ranges : forall bounds lo shards, bounds_sorted lo bounds -> ranges shards = ranges_of lo bounds -> range_chain lo shards.
Proof.
  induction bounds as [|b r IH]; intros lo shards Hs Hr.
  - simpl in Hr. destruct shards as [|s [|s1 rest]]; simpl in Hr; try discriminate. inversion Hr. simpl. auto.
  - simpl in Hr, Hs. destruct Hs as [Hlt Hs]. destruct shards as [|s rest]; simpl in Hr; [discriminate|].
    injection Hr as Hmin Hmax Hrest. fold (ranges rest) in Hrest.
    destruct rest as [|s1 rest'].
    + simpl in Hrest. exfalso. eapply ranges_of_nonempty; eauto.
    + change (s_min s = lo /\ (str_lt lo (s_max s) /\ range_chain (s_max s) (s1 :: rest'))).
      split; [exact Hmin|]. rewrite Hmax. split; [exact Hlt|]. apply IH; auto.
Qed.

Lemma chain_ranges_ext : forall a b lo, ranges a = ranges b -> range_chain lo a -> range_chain lo b.
Proof.
  induction a as [|x a IH]; intros b lo He H; [contradiction|].
  destruct b as [|y b]; simpl in He; [discriminate|]. injection He as Hmin Hmax Hrest. fold (ranges a) (ranges b) in Hrest.
  destruct H as [Hm Hr].
  destruct a as [|x1 a']; destruct b as [|y1 b']; simpl in Hrest; try discriminate.
  - simpl. split; congruence.
  - destruct Hr as [Hlt Hch].
    change (s_min y = lo /\ (str_lt lo (s_max y) /\ range_chain (s_max y) (y1 :: b'))).
    split; [congruence|]. rewrite <- Hmax. split; [exact Hlt|]. apply (IH (y1 :: b')); auto.
Qed.

(* CreateShardGroupWithBounds: the shards of the group created by re-sharding tile the key space *)
Theorem range_chain_resharded_proof : forall g bounds,
  bounds_sorted [] bounds -> shard_ranges g = ranges_of [] bounds -> range_chain [] (g_shards g).
Proof. intros g bounds Hs Hr. eapply chain_of_ranges; eauto. Qed.

(* CreateShardGroup on a range-sharded policy: one shard owning everything, or the ranges of the newest group *)
Theorem range_chain_created_proof : forall existing g,
  Forall (fun x => range_chain [] (g_shards x)) existing -> shard_ranges g = created_ranges existing ->
  range_chain [] (g_shards g).
Proof.
  intros existing g Hall Hr. unfold created_ranges in Hr. destruct (rev existing) as [|l rest] eqn:E.
  - unfold shard_ranges in Hr. destruct (g_shards g) as [|s [|s1 r]]; simpl in Hr; inversion Hr. simpl. split; congruence.
  - assert (Hin : In l existing) by (apply in_rev; rewrite E; left; reflexivity).
    rewrite Forall_forall in Hall. apply (chain_ranges_ext (g_shards l)); [symmetry; exact Hr|]. apply Hall; exact Hin.
Qed.

(* ------------------------------------------------------------------ read side *)
Lemma tloop_range_some : forall hash v c g, c_typ c = Range -> forall tss acc, exists res, tloop hash v c g acc tss = Some res.
Proof.
  intros hash v c g Ht. induction tss as [|t tss IH]; intros acc; [eexists; reflexivity|].
  cbn [tloop]. rewrite Ht.
  destruct (IH ((if v_reset v then c_mst c else acc) ++ key_suffix (fst (sel_keys (c_sk c) (sort_tags t))))) as [res Hres].
  rewrite Hres. eexists; reflexivity.
Qed.

(* every shard whose range holds SOME key that extends the prefix built from an alternative of the condition is consulted *)
Theorem range_candidates_consulted_proof : forall hash v c g e tss ts s rest,
  v_reset v = true -> c_typ c = Range ->
  cond_tags v (c_tagkeys c) e = Some tss -> In ts tss -> In s (g_shards g) ->
  (forall i, (i < length (g_shards g))%nat -> In i (g_alive g)) ->
  contain s ((c_mst c ++ key_suffix (fst (sel_keys (c_sk c) (sort_tags ts)))) ++ rest) = true ->
  In s (target_group hash v c g (Some e)).
Proof.
  intros hash v c g e tss ts s rest Hr Ht Hct Hin Hs Halive Hc.
  assert (Hall : In s (all_alive g)).
  { destruct (In_nth_error _ _ Hs) as [i Hn]. unfold all_alive. apply in_flat_map. exists i. split.
    - apply Halive. apply nth_error_Some. rewrite Hn. discriminate.
    - rewrite Hn. left; reflexivity. }
  unfold target_group. destruct (c_sk c) as [|k0 sk0] eqn:Esk; [exact Hall|]. rewrite Hct.
  destruct (tloop_range_some hash v c g Ht tss (c_mst c)) as [res Hres]. rewrite Hres.
  eapply (tloop_range_in hash v c g Hr Ht _ _ _ _ Hres Hin); auto.
  rewrite Esk. eapply contain_prefix_of. exact Hc.
Qed.

(* ------------------------------------------------------------------ hint queries, hash and range sharding *)
Lemma hint_range_in : forall hash v c g cond p s,
  v_or v = true -> (v_and v = true \/ match cond with Some e => parser_image e | None => True end) ->
  wf_group c g -> wf_point p ->
  (c_sk c = [] -> match cond with
                  | Some e => forall ts, cond_tags v (c_tagkeys c) e = Some [ts] -> sort_tags ts = p_tags p
                  | None => True end) ->
  route_in hash c g p = Some s -> eval_cond c cond p = true ->
  In s (target_hint_range hash true v c g cond).
Proof.
  intros hash v c g cond p s Hor Hok Hwf Hwp Hfull Hr Hev.
  unfold target_hint_range. destruct (c_typ c) eqn:Etyp.
  - eapply hint_prune_sound_proof; eauto.
  - destruct (route_in_all_alive hash _ _ _ _ Hwf Hr) as [_ Hall].
    destruct cond as [e|]; [|exact Hall]. simpl in Hev.
    destruct (cond_tags v (c_tagkeys c) e) as [tss|] eqn:Ect; [|exact Hall].
    destruct tss as [|ts [|ts2 rest]]; try exact Hall.
    assert (Hok' : v_and v = true \/ parser_image e) by (destruct Hok; auto).
    destruct (cond_tags_sound _ _ p _ _ Hor Hok' Ect Hev) as [ts' [[<-|[]] Hsat]].
    assert (Hf : c_sk c = [] -> sort_tags ts = p_tags p).
    { intros E. first [exact (Hfull E ts Ect) | exact (Hfull E ts eq_refl)]. }
    unfold route_in in Hr.
    destruct (hint_key_agrees c p ts Hwp Hsat Hf) as [Hk|[Hk|Hk]].
    + rewrite Hk. exact Hall.
    + rewrite Hk. destruct (wkey c p) as [ps|] eqn:Ew; [|discriminate]. rewrite Etyp in Hr. rewrite Hr. left; reflexivity.
    + rewrite Hk in Hr. discriminate.
Qed.

Theorem hint_kind_sound_proof : forall hash v c g cond p s specific,
  v_or v = true -> (v_and v = true \/ match cond with Some e => parser_image e | None => True end) ->
  wf_group c g -> wf_point p ->
  (c_sk c = [] -> match cond with
                  | Some e => forall ts, cond_tags v (c_tagkeys c) e = Some [ts] -> sort_tags ts = p_tags p
                  | None => True end) ->
  route_in hash c g p = Some s -> eval_cond c cond p = true ->
  In s (target_hint_kind hash specific true v c g cond).
Proof.
  intros hash v c g cond p s specific Hor Hok Hwf Hwp Hfull Hr Hev.
  pose proof (hint_range_in hash v c g cond p s Hor Hok Hwf Hwp Hfull Hr Hev) as Hin.
  destruct (route_in_all_alive hash _ _ _ _ Hwf Hr) as [_ Hall].
  unfold target_hint_kind. destruct specific; [|exact Hin].
  destruct cond as [e|]; [|exact Hall].
  destruct (cond_tags v (c_tagkeys c) e) as [tss|]; [|exact Hall].
  destruct tss as [|ts [|ts2 rest]]; try exact Hall.
  destruct (Nat.eqb (length ts) (length (c_tagkeys c))); [exact Hin|exact Hall].
Qed.

(* ------------------------------------------------------------------ alive shards: partitions offline at write / at read *)
(* hash sharding consults online shards only: a shard whose partition is offline when the query runs is never consulted *)
Lemma tloop_hash_sub : forall hash v c g, c_typ c = Hash -> wf_group c g ->
  forall tss acc res, tloop hash v c g acc tss = Some res -> forall s, In s res -> In s (all_alive g).
Proof.
  intros hash v c g Ht Hwf. unfold wf_group in Hwf. rewrite Ht in Hwf.
  induction tss as [|t tss IH]; intros acc res H s Hin.
  - inversion H; subst. contradiction.
  - cbn [tloop] in H. rewrite Ht in H.
    destruct (snd (sel_keys (c_sk c) (sort_tags t))); [|discriminate].
    match type of H with match ?X with _ => _ end = _ => destruct X as [res'|] eqn:El; [|discriminate] end.
    inversion H; subst res; clear H. apply in_app_or in Hin as [Hin|Hin]; [|eapply IH; eauto].
    match type of Hin with In s (match ?X with _ => _ end) => destruct X as [s0|] eqn:Es; [|contradiction] end.
    destruct Hin as [<-|[]]. apply shard_for_spec in Es as [i [Hi Hn]].
    unfold all_alive. apply in_flat_map. exists i. split; [apply Hwf; exact Hi|]. rewrite Hn. left; reflexivity.
Qed.

Theorem consulted_are_alive_proof : forall hash v c g cond s,
  c_typ c = Hash -> wf_group c g -> In s (target_group hash v c g cond) -> In s (all_alive g).
Proof.
  intros hash v c g cond s Ht Hwf. unfold target_group.
  destruct (c_sk c); [auto|]. destruct cond as [e|]; [|auto].
  destruct (cond_tags v (c_tagkeys c) e) as [tss|]; [|auto].
  destruct (tloop hash v c g (c_mst c) tss) as [res|] eqn:El; [|auto].
  intros Hin. eapply tloop_hash_sub; eauto.
Qed.

(* routing looks at the alive list only through the index list hashed over (and not at all under range sharding) *)
Lemma route_in_alive_ext : forall hash c g a b p,
  (c_typ c = Range \/ eff_idx c (set_alive g a) = eff_idx c (set_alive g b)) ->
  route_in hash c (set_alive g a) p = route_in hash c (set_alive g b) p.
Proof.
  intros hash c g a b p H. unfold route_in. destruct (wkey c p) as [ps|]; [|reflexivity].
  destruct (c_typ c) eqn:Et.
  - destruct H as [H|H]; [discriminate|]. unfold shard_for. rewrite H. reflexivity.
  - reflexivity.
Qed.

(* if the index list hashed over is the same when the row is written and when the query runs, whatever else happened to the
   partitions in between, pruning finds the row *)
Theorem prune_sound_alive_change_proof : forall hash v c cond p g aw ar s,
  v_or v = true -> v_reset v = true ->
  (v_and v = true \/ match cond with Some e => parser_image e | None => True end) ->
  wf_group c (set_alive g ar) -> wf_point p ->
  (c_typ c = Range \/ eff_idx c (set_alive g aw) = eff_idx c (set_alive g ar)) ->
  route_in hash c (set_alive g aw) p = Some s -> eval_cond c cond p = true ->
  In s (target_group hash v c (set_alive g ar) cond).
Proof.
  intros hash v c cond p g aw ar s Hor Hres Hok Hwf Hwp Hsame Hr Hev.
  rewrite (route_in_alive_ext hash c g aw ar p Hsame) in Hr. eapply target_group_sound; eauto.
Qed.

(* ------------------------------------------------------------------ hard-write: lookup in the writers' list, then keep the alive *)
Lemma is_alive_in : forall g s, In s (all_alive g) -> is_alive_b g s = true.
Proof. intros g s H. unfold is_alive_b. apply existsb_exists. exists s. split; auto. apply N.eqb_refl. Qed.

(* a row written under hard-write (hash over every shard of the group) whose shard is alive when the query runs is found,
   whatever happened to the OTHER partitions between the write and the query *)
Theorem hard_write_prune_sound_proof : forall hash v c cond p g s,
  v_or v = true -> v_reset v = true ->
  (v_and v = true \/ match cond with Some e => parser_image e | None => True end) ->
  wf_group c (set_alive g (full_list g)) -> wf_point p ->
  route_in hash c (set_alive g (full_list g)) p = Some s -> In s (all_alive g) -> eval_cond c cond p = true ->
  In s (target_group_hw hash v c g cond).
Proof.
  intros hash v c cond p g s Hor Hres Hok Hwf Hwp Hr Hal Hev.
  unfold target_group_hw. apply filter_In. split; [|apply is_alive_in; exact Hal].
  eapply target_group_sound; eauto.
Qed.

(* and only alive shards are consulted *)
Lemma target_group_hw_alive : forall hash v c g cond s, In s (target_group_hw hash v c g cond) -> is_alive_b g s = true.
Proof. intros hash v c g cond s H. unfold target_group_hw in H. apply filter_In in H as [_ H]. exact H. Qed.
