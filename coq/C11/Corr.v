(* C11 correspondence evaluator: runs the model on the cases the harness produced on the real code and reports, per case,
   (a) codes of variant-independent disagreements (row evaluation, routing, hash, created group span, groups selected by
       the time range) and
   (b) a bit mask saying which of the 8 model variants (v_or, v_and, v_reset) reproduce the implementation's
       getConditionTags output and the set of shards TargetShards returned for every selected group. *)
From Coq Require Import ZArith NArith List Bool.
From OG Require Import C11.Model.
Import ListNotations.

Record cpoint := {
  cp_tags : tagset; cp_time : Z; cp_leaf : list bool; cp_sat : bool;
  cp_fresh : bool;                       (* routed through a fresh ingestion context (no cached group) *)
  cp_routed : option (N * N);            (* (group id, shard id) the implementation routed the point to *)
  cp_hash : option (str * N)             (* bytes the implementation hashed and HashID of them *)
}.
Record ccase := {
  cc_cfg : cfg;                          (* groups: the catalogue after all writes *)
  cc_born : list Z;                      (* per group: index of the point whose routing created it, -1 = pre-existing *)
  cc_cond : option expr;
  cc_points : list cpoint;
  cc_condtags : option (list tagset);
  cc_tmin : Z; cc_tmax : Z;
  cc_qgroups : list N;
  cc_targets : list (N * list N)
}.

Definition to_point (cp : cpoint) : point :=
  {| p_tags := cp_tags cp; p_time := cp_time cp; p_leaf := fun i => nth (N.to_nat i) (cp_leaf cp) false |}.

Definition pair_eqb (a b : str * str) : bool := str_eqb (fst a) (fst b) && str_eqb (snd a) (snd b).
Fixpoint list_eqb {A} (eqb : A -> A -> bool) (a b : list A) : bool :=
  match a, b with
  | [], [] => true
  | x :: a', y :: b' => eqb x y && list_eqb eqb a' b'
  | _, _ => false
  end.
Definition incl_b {A} (eqb : A -> A -> bool) (a b : list A) : bool := forallb (fun x => existsb (eqb x) b) a.
Definition seteq_b {A} (eqb : A -> A -> bool) (a b : list A) : bool := incl_b eqb a b && incl_b eqb b a.

Open Scope Z_scope.

Definition with_born (c : ccase) : list (group * Z) := combine (c_groups (cc_cfg c)) (cc_born c).

(* group the model writes point i into: an older group that accepts t, else the group created for it, whose span must
   be [trunc(t,d), +d) clipped; the flag reports a span disagreement *)
Definition model_group (c : ccase) (cache : option group) (i : Z) (t : Z) : option group * bool :=
  let before := map fst (filter (fun gb => snd gb <? i) (with_born c)) in
  match pick_group cache before t with
  | Some g => (Some g, true)
  | None => match find (fun gb => snd gb =? i) (with_born c) with
            | Some (g, _) =>
                let sp := span_of t (c_dur (cc_cfg c)) in
                (Some g, (g_start g =? fst sp) && (g_end g =? snd sp) && negb (g_deleted g))
            | None => (None, true)
            end
  end.

Definition opt_pair_eqb (a b : option (N * N)) : bool :=
  match a, b with
  | None, None => true
  | Some x, Some y => N.eqb (fst x) (fst y) && N.eqb (snd x) (snd y)
  | _, _ => false
  end.

Definition point_codes (c : ccase) (mg : option group * bool) (cp : cpoint) : list N :=
  let cf := cc_cfg c in
  let p := to_point cp in
  let routed := match fst mg with
                | Some g => match route_in xxh64 cf g p with Some s => Some (g_id g, s_id s) | None => None end
                | None => None
                end in
  (if Bool.eqb (eval_cond cf (cc_cond c) p) (cp_sat cp) then [] else [1%N])
  ++ (if opt_pair_eqb routed (cp_routed cp) then [] else [2%N])
  ++ (match cp_hash cp with
      | None => []
      | Some (k, h) =>
          if N.eqb (xxh64 k) h && match wkey cf p with Some ps => str_eqb (hash_arg cf ps) k | None => false end
          then [] else [3%N]
      end)
  ++ (if snd mg then [] else [4%N]).

(* the shared ingestion context remembers the group of its previous row; fresh contexts start empty and are dropped *)
Fixpoint points_codes (c : ccase) (cache : option group) (i : Z) (cps : list cpoint) : list N :=
  match cps with
  | [] => []
  | cp :: r =>
      let mg := model_group c (if cp_fresh cp then None else cache) i (cp_time cp) in
      let cache' := if cp_fresh cp then cache else match fst mg with Some g => Some g | None => cache end in
      point_codes c mg cp ++ points_codes c cache' (i + 1) r
  end.

Definition variants : list variant :=
  [ {| v_or := false; v_and := false; v_reset := false |}; {| v_or := false; v_and := false; v_reset := true |};
    {| v_or := false; v_and := true;  v_reset := false |}; {| v_or := false; v_and := true;  v_reset := true |};
    {| v_or := true;  v_and := false; v_reset := false |}; {| v_or := true;  v_and := false; v_reset := true |};
    {| v_or := true;  v_and := true;  v_reset := false |}; {| v_or := true;  v_and := true;  v_reset := true |} ].

Definition condtags_ok (v : variant) (c : ccase) : bool :=
  match cc_cond c with
  | None => true
  | Some e =>
      match cond_tags v (c_tagkeys (cc_cfg c)) e, cc_condtags c with
      | None, None => true
      | Some a, Some b => seteq_b (list_eqb pair_eqb) a b
      | _, _ => false
      end
  end.

Definition targets_ok (v : variant) (c : ccase) : bool :=
  forallb (fun g =>
             match find (fun x => N.eqb (fst x) (g_id g)) (cc_targets c) with
             | Some (_, ids) => seteq_b N.eqb (map s_id (target_group xxh64 v (cc_cfg c) g (cc_cond c))) ids
             | None => false
             end)
          (query_groups (cc_cfg c) (cc_tmin c) (cc_tmax c)).

Fixpoint mask_of (vs : list variant) (bit : N) (c : ccase) : N :=
  match vs with
  | [] => 0%N
  | v :: r => ((if condtags_ok v c && targets_ok v c then bit else 0) + mask_of r (2 * bit) c)%N
  end.

Definition check_case (c : ccase) : list N * N :=
  (points_codes c None 0 (cc_points c)
   ++ (if list_eqb N.eqb (map g_id (query_groups (cc_cfg c) (cc_tmin c) (cc_tmax c))) (cc_qgroups c) then [] else [5%N]),
   mask_of variants 1%N c).

Fixpoint mismatches_from (k : N) (cs : list ccase) : list (N * list N * N) :=
  match cs with
  | [] => []
  | c :: r =>
      let '(codes, m) := check_case c in
      match codes, N.eqb m 255 with
      | [], true => mismatches_from (k + 1)%N r
      | _, _ => (k, codes, m) :: mismatches_from (k + 1)%N r
      end
  end.
Definition mismatches := mismatches_from 0%N.
