(* C11 correspondence evaluator: runs the model on the cases the harness produced on the real code and reports, per case,
   (a) codes of variant-independent disagreements (1 row evaluation, 3 hash function, 4 span of a created group,
       5 groups selected by the time range, 6 span / key ranges of the group created by re-sharding, 7 key ranges of a
       group created in a range-sharded policy) and
   (b) a bit mask over the 128 model variants (hard-write read repair, hint range repair, use_cache, per_group_key, v_or, v_and, v_reset) saying which of them
       reproduce the implementation: the shard every row of every write batch was mapped to (batch_step with the group /
       measurement / shard-key caches), getConditionTags' output (as a set of tag sets) and the SET of shards
       TargetShards returned for every selected group. *)
From Coq Require Import ZArith NArith List Bool.
From OG Require Import C11.Model.
Import ListNotations.

Record cpoint := {
  cp_m : nat;                            (* measurement index *)
  cp_newbatch : bool;                    (* first row of a write batch (fresh ingestion context) *)
  cp_conflict : bool;                    (* the row's only field has the wrong type: dropped by the schema check *)
  cp_tags : tagset; cp_time : Z; cp_leaf : list bool; cp_sat : bool;
  cp_routed : option (N * N);            (* (group id, shard id) the implementation mapped the row to *)
  cp_hash : option (str * N)             (* bytes the implementation hashed and HashID of them *)
}.
Record ccase := {
  cc_msts : list mcfg;                   (* every m_cfg carries the catalogue after all writes in c_groups *)
  cc_qm : nat;                           (* measurement the query reads *)
  cc_born : list Z;                      (* per group: 2i = created by the routing of point i, -2 = pre-existing,
                                            2i-1 = created by Data.ReSharding before the batch starting at point i *)
  cc_hardwrite : bool;                   (* coordinator.hard-write *)
  cc_walive : list (list nat);           (* per group: the alive shard indexes while the rows were written (the groups carry the
                                            list in force when the query runs) *)
  cc_reshard : option (Z * list str);    (* split time and split points of the Data.ReSharding of this case *)
  cc_cond : option expr;
  cc_points : list cpoint;
  cc_condtags : option (list tagset);
  cc_tmin : Z; cc_tmax : Z;
  cc_qgroups : list N;
  cc_targets : list (N * list N);
  cc_hints : list (bool * option (list (N * list N)))   (* the same query with a series hint: (specific_series?, shards
                                                           consulted per selected group; None = mapMstShards failed) *)
}.

Definition dummy_cfg : cfg :=
  {| c_mst := []; c_tagkeys := []; c_sk := []; c_typ := Hash; c_dur := 1%Z; c_groups := []; c_mstidx := None |}.
Definition dummy_m : mcfg := {| m_cfg := dummy_cfg; m_vers := []; m_db := [] |}.
Definition mst_of (c : ccase) (i : nat) : mcfg := nth i (cc_msts c) dummy_m.
Definition qmst (c : ccase) : mcfg := mst_of c (cc_qm c).

Definition to_point (cp : cpoint) : point :=
  {| p_tags := cp_tags cp; p_time := cp_time cp; p_leaf := fun i => nth (N.to_nat i) (cp_leaf cp) false |}.

Definition pair_eqb (a b : str * str) : bool := str_eqb (fst a) (fst b) && str_eqb (snd a) (snd b).
Fixpoint list_eqb {A} (eqb : A -> A -> bool) (a b : list A) : bool :=
  match a, b with
  | [], [] => true
  | x :: a', y :: b' => eqb x y && list_eqb eqb a' b'
  | _, _ => false
  end.
Definition incl_b {A} (eqb : A -> A -> bool) (a b : list A) : bool := forallb (fun x => existsb (eqb x) b) a.
Definition seteq_b {A} (eqb : A -> A -> bool) (a b : list A) : bool := incl_b eqb a b && incl_b eqb b a.

Open Scope Z_scope.

Definition all_groups (c : ccase) : list group := c_groups (m_cfg (qmst c)).
Definition with_born (c : ccase) : list (group * Z) := combine (all_groups c) (cc_born c).
(* the groups as the write path saw them *)
Definition wgroups_born (c : ccase) : list (group * Z) :=
  combine (map (fun ga : group * list nat => set_alive (fst ga) (snd ga)) (combine (all_groups c) (cc_walive c))) (cc_born c).

Definition with_groups (m : mcfg) (gs : list group) : mcfg :=
  {| m_cfg := {| c_mst := c_mst (m_cfg m); c_tagkeys := c_tagkeys (m_cfg m); c_sk := c_sk (m_cfg m); c_typ := c_typ (m_cfg m);
                 c_dur := c_dur (m_cfg m); c_groups := gs; c_mstidx := c_mstidx (m_cfg m) |};
     m_vers := m_vers m; m_db := m_db m |}.

(* catalogue seen by the routing of point i: the groups that existed before, plus - when none of them (nor the cached
   one) takes the timestamp - the group created for this point, whose span must be [trunc(t,d), +d) clipped *)
Definition visible_groups (c : ccase) (cache : option group) (i : Z) (t : Z) : list group * bool :=
  let before := map fst (filter (fun gb => snd gb <? 2 * i) (wgroups_born c)) in
  match pick_group cache before t with
  | Some _ => (before, true)
  | None => match find (fun gb => snd gb =? 2 * i) (wgroups_born c) with
            | Some (g, _) =>
                let sp := span_of t (c_dur (m_cfg (qmst c))) in
                (before ++ [g], (g_start g =? fst sp) && (g_end g =? snd sp) && negb (g_deleted g))
            | None => (before, true)
            end
  end.

Definition opt_pair_eqb (a b : option (N * N)) : bool :=
  match a, b with
  | None, None => true
  | Some x, Some y => N.eqb (fst x) (fst y) && N.eqb (snd x) (snd y)
  | _, _ => false
  end.

(* the harness' retention policy is unlimited: rows before 1970 are outside the window (ctx.minTime = 0) *)
Definition row_kind (cp : cpoint) : rowkind :=
  if cp_time cp <? 0 then RSkip else if cp_conflict cp || has_adj_dup (cp_tags cp) then RDrop else RRoute.

(* the write batches under one reading of the shard-key cache: true iff every row was mapped as the implementation did;
   the second component collects span disagreements of created groups *)
Fixpoint batches_ok (use_cache : bool) (c : ccase) (st : bstate) (i : Z) (cps : list cpoint) : bool * bool :=
  match cps with
  | [] => (true, true)
  | cp :: r =>
      let st0 := if cp_newbatch cp then b_empty else st in
      let kind := row_kind cp in
      let vg := match kind with
                | RRoute => visible_groups c (b_sg st0) i (cp_time cp)
                | _ => (@nil group, true)
                end in
      let row := {| r_m := with_groups (mst_of c (cp_m cp)) (fst vg); r_kind := kind; r_p := to_point cp |} in
      let x := batch_step xxh64 use_cache st0 row in
      let got := match snd x with Some gs => Some (g_id (fst gs), s_id (snd gs)) | None => None end in
      let rest := batches_ok use_cache c (fst x) (i + 1) r in
      (opt_pair_eqb got (cp_routed cp) && fst rest, snd vg && snd rest)
  end.

(* shape of the groups of a range-sharded policy: a group created by the routing of a point has one shard owning
   everything (first group) or the key ranges of the newest group existing then (createShards); the group created by
   re-sharding is [split+1, end of the newest group) with the ranges the split points define (CreateShardGroupWithBounds) *)
Definition range_policy (c : ccase) : bool := match c_typ (m_cfg (qmst c)) with Range => true | Hash => false end.
Definition ranges_eqb (a b : list (str * str)) : bool := list_eqb pair_eqb a b.
Definition group_shapes_ok (c : ccase) : bool * bool :=
  let check := fun gb : group * Z =>
    let '(g, born) := gb in
    let before := map fst (filter (fun x => snd x <? born) (with_born c)) in
    if born <? 0 then (true, true)
    else if Z.even born then (ranges_eqb (shard_ranges g) (created_ranges before), true)
    else (true,
          match cc_reshard c with
          | Some (split, bounds) =>
              match resharded_span before split with
              | Some (st, en) => (g_start g =? st) && (g_end g =? en) && ranges_eqb (shard_ranges g) (ranges_of [] bounds)
              | None => false
              end
          | None => false
          end) in
  if range_policy c
  then fold_right (fun gb acc => let r := check gb in (fst r && fst acc, snd r && snd acc)) (true, true) (with_born c)
  else (true, true).

Definition point_codes (c : ccase) (cp : cpoint) : list N :=
  let p := to_point cp in
  (if Bool.eqb (eval_cond (m_cfg (mst_of c (cp_m cp))) (cc_cond c) p) (cp_sat cp) then [] else [1%N])
  ++ (match cp_hash cp with
      | None => []
      | Some (k, h) => if N.eqb (xxh64 k) h then [] else [3%N]
      end).

Definition condtags_ok (v : variant) (c : ccase) : bool :=
  match cc_cond c with
  | None => true
  | Some e =>
      match cond_tags v (c_tagkeys (m_cfg (qmst c))) e, cc_condtags c with
      | None, None => true
      | Some a, Some b => seteq_b (list_eqb pair_eqb) a b
      | _, _ => false
      end
  end.

(* hw = the hard-write read repair is in the tree: lookup in the writers' list (all shards), then the alive ones are kept;
   without hard-write both readings coincide *)
Definition targets_ok (v : variant) (per_group_key : bool) (hw : bool) (c : ccase) : bool :=
  let m := qmst c in
  let qs := query_groups (m_cfg m) (cc_tmin c) (cc_tmax c) in
  forallb (fun g =>
             let gid := if per_group_key then g_id g else match qs with g0 :: _ => g_id g0 | [] => g_id g end in
             match find (fun x => N.eqb (fst x) (g_id g)) (cc_targets c) with
             | Some (_, ids) =>
                 seteq_b N.eqb (map s_id (if hw && cc_hardwrite c then target_group_hw xxh64 v (cfg_at m gid) g (cc_cond c)
                                          else target_group xxh64 v (cfg_at m gid) g (cc_cond c))) ids
             | None => false
             end) qs.

Definition hints_ok (v : variant) (per_group_key : bool) (range_rep : bool) (hw : bool) (c : ccase) : bool :=
  let m := qmst c in
  let qs := query_groups (m_cfg m) (cc_tmin c) (cc_tmax c) in
  forallb (fun h : bool * option (list (N * list N)) =>
             match snd h with
             | None => false
             | Some tg =>
                 forallb (fun g =>
                            let gid := if per_group_key then g_id g else match qs with g0 :: _ => g_id g0 | [] => g_id g end in
                            match find (fun x => N.eqb (fst x) (g_id g)) tg with
                            | Some (_, ids) =>
                                seteq_b N.eqb (map s_id (if hw && cc_hardwrite c
                                                         then target_hint_hw xxh64 (fst h) range_rep v (cfg_at m gid) g (cc_cond c)
                                                         else target_hint_kind xxh64 (fst h) range_rep v (cfg_at m gid) g (cc_cond c))) ids
                            | None => false
                            end) qs
             end) (cc_hints c).

(* bit index = 64*hard_write_read_repaired + 32*hint_range_repaired + 16*use_cache_repaired + 8*per_group_key + 4*v_or + 2*v_and + v_reset  (use_cache_repaired = the shard key is
   looked up for every row) *)
Definition mask_hw (hw : bool) (c : ccase) : N :=
  let w_cur := fst (batches_ok true c b_empty 0 (cc_points c)) in
  let w_rep := fst (batches_ok false c b_empty 0 (cc_points c)) in
  (* shared and short-circuited: getConditionTags per reading of OR/AND/reset, TargetShards per (reading, group key), the
     hinted queries per (reading, group key, hint range repair), the write batches once per reading of the batch cache *)
  fold_left N.add
    (flat_map (fun vo : bool => flat_map (fun va : bool => flat_map (fun vr : bool =>
       let v := {| v_or := vo; v_and := va; v_reset := vr |} in
       if condtags_ok v c then
         flat_map (fun pk : bool =>
           if targets_ok v pk hw c then
             flat_map (fun rr : bool =>
               if hints_ok v pk rr hw c then
                 map (fun cf : bool =>
                   if (if cf then w_rep else w_cur)
                   then N.shiftl 1%N ((if rr then 32 else 0) + (if cf then 16 else 0) + (if pk then 8 else 0) + (if vo then 4 else 0) + (if va then 2 else 0) + (if vr then 1 else 0))%N
                   else 0%N) [false; true]
               else []) [false; true]
           else []) [false; true]
       else []) [false; true]) [false; true]) [false; true])
    0%N.
(* bits 64..127: the same with the hard-write read repair; a case without hard-write cannot tell the two apart *)
Definition mask_of (c : ccase) : N :=
  let m0 := mask_hw false c in
  let m1 := if cc_hardwrite c then mask_hw true c else m0 in
  (m0 + N.shiftl m1 64)%N.

Definition full_mask : N := 340282366920938463463374607431768211455%N.

Definition check_case (c : ccase) : list N * N :=
  (flat_map (point_codes c) (cc_points c)
   ++ (if snd (batches_ok false c b_empty 0 (cc_points c)) then [] else [4%N])
   ++ (if list_eqb N.eqb (map g_id (query_groups (m_cfg (qmst c)) (cc_tmin c) (cc_tmax c))) (cc_qgroups c) then [] else [5%N])
   ++ (if snd (group_shapes_ok c) then [] else [6%N])
   ++ (if fst (group_shapes_ok c) then [] else [7%N]),
   mask_of c).

Fixpoint mismatches_from (k : N) (cs : list ccase) : list (N * list N * N) :=
  match cs with
  | [] => []
  | c :: r =>
      let '(codes, m) := check_case c in
      match codes, N.eqb m full_mask with
      | [], true => mismatches_from (k + 1)%N r
      | _, _ => (k, codes, m) :: mismatches_from (k + 1)%N r
      end
  end.
Definition mismatches := mismatches_from 0%N.

(* ------------------------------------------------------------------ the other shard-key builders (c11 alt cases) *)
(* codes: 1 row evaluation, 2 builder result / shard the row was mapped to, 3 bytes hashed / HashID, 5 shards consulted *)
Record apoint := {
  ap_row : xrow; ap_time : Z; ap_leaf : list bool; ap_sat : bool;
  ap_routed : option (N * N); ap_hash : option (str * N)
}.
Record acase := {
  ac_m : mcfg;                           (* the measurement, its key, its database's key; c_groups = the catalogue after the writes *)
  ac_builder : builder;
  ac_cond : expr;
  ac_points : list apoint;
  ac_targets : list (N * list N);
  ac_variant : variant                   (* reading of getConditionTags / TargetShards the tree was found to implement *)
}.

Definition apoint_codes (c : acase) (ap : apoint) : list N :=
  let m := ac_m c in
  let p := {| p_tags := x_tags (ap_row ap); p_time := ap_time ap; p_leaf := fun i => nth (N.to_nat i) (ap_leaf ap) false |} in
  (if Bool.eqb (eval_cond (m_cfg m) (Some (ac_cond c)) p) (ap_sat ap) then [] else [1%N])
  ++ match find_group (c_groups (m_cfg m)) (ap_time ap) with
     | None => match ap_routed ap with None => [] | Some _ => [2%N] end
     | Some g =>
         let cw := cfg_with m (wkey_in_force m (g_id g)) in
         (if opt_pair_eqb (match route_in_x xxh64 (ac_builder c) cw g (ap_row ap) with
                           | Some s => Some (g_id g, s_id s) | None => None end) (ap_routed ap) then [] else [2%N])
         ++ match ap_hash ap, build_key (ac_builder c) (c_sk cw) (ap_row ap) with
            | Some (k, h), Some ps => if list_eqb N.eqb (hash_arg cw ps) k && N.eqb (xxh64 k) h then [] else [3%N]
            | Some _, None => [3%N]
            | None, _ => []
            end
     end.

Definition atargets_ok (c : acase) : bool :=
  let m := ac_m c in
  forallb (fun g =>
             match find (fun x => N.eqb (fst x) (g_id g)) (ac_targets c) with
             | Some (_, ids) => seteq_b N.eqb (map s_id (target_group xxh64 (ac_variant c) (cfg_at m (g_id g)) g (Some (ac_cond c)))) ids
             | None => false
             end) (filter (fun g => negb (g_deleted g)) (c_groups (m_cfg m))).

Fixpoint amismatches_from (k : N) (cs : list acase) : list (N * list N) :=
  match cs with
  | [] => []
  | c :: r =>
      let codes := flat_map (apoint_codes c) (ac_points c) ++ (if atargets_ok c then [] else [5%N]) in
      match codes with
      | [] => amismatches_from (k + 1)%N r
      | _ => (k, codes) :: amismatches_from (k + 1)%N r
      end
  end.
Definition amismatches := amismatches_from 0%N.
