(* C11 lemmas and proofs. *)
From Coq Require Import ZArith NArith List Bool Lia.
From OG Require Import C11.Model.
Import ListNotations.

(* ------------------------------------------------------------------ well-formedness hypotheses *)
(* the index list hashed over is part of what "all shards" means on the read side; range shards are all readable *)
Definition wf_group (c : cfg) (g : group) : Prop :=
  match c_typ c with
  | Hash => incl (eff_idx c g) (g_alive g)
  | Range => forall i, (i < length (g_shards g))%nat -> In i (g_alive g)
  end.
Definition wf_cfg (c : cfg) : Prop := Forall (wf_group c) (c_groups c).
(* what the line-protocol parser guarantees together with the duplicate check of the write path *)
Definition wf_point (p : point) : Prop := NoDup (map fst (p_tags p)).

(* ------------------------------------------------------------------ strings *)
Lemma str_eqb_eq : forall a b, str_eqb a b = true <-> a = b.
Proof.
  induction a as [|x a IH]; destruct b as [|y b]; simpl; try (split; congruence).
  rewrite andb_true_iff, N.eqb_eq, IH. split.
  - intros [-> ->]; reflexivity.
  - intros H; inversion H; auto.
Qed.

Lemma str_eqb_refl : forall a, str_eqb a a = true.
Proof. intros; apply str_eqb_eq; reflexivity. Qed.

Lemma leb_prefix : forall P R m, str_leb m (P ++ R) = true ->
  if (length P <? length m)%nat then str_leb (firstn (length P) m) P = true else str_leb m P = true.
Proof.
  induction P as [|a P IH]; intros R m H; destruct m as [|x m].
  - reflexivity.
  - reflexivity.
  - reflexivity.
  - change (length (a :: P) <? length (x :: m))%nat with (length P <? length m)%nat.
    specialize (IH R m). unfold str_leb in *. simpl in H.
    destruct (N.compare x a) eqn:C; try discriminate.
    + specialize (IH H). destruct (length P <? length m)%nat; simpl; rewrite C; exact IH.
    + destruct (length P <? length m)%nat; simpl; rewrite C; reflexivity.
Qed.

Lemma ltb_prefix : forall P R mx, str_ltb (P ++ R) mx = true -> str_ltb P mx = true.
Proof.
  induction P as [|a P IH]; intros R mx H; destruct mx as [|y mx]; unfold str_ltb in *; simpl in *.
  - destruct R; simpl in H; discriminate.
  - reflexivity.
  - discriminate.
  - destruct (N.compare a y); try discriminate; auto. eapply IH; eauto.
Qed.

Lemma contain_prefix_of : forall s P R, contain s (P ++ R) = true -> contain_prefix s P = true.
Proof.
  intros s P R. unfold contain, contain_prefix. rewrite !andb_true_iff. intros [H1 H2]. split.
  - pose proof (leb_prefix P R _ H1) as H. destruct (length P <? length (s_min s))%nat; auto.
    rewrite H. apply orb_true_r.
  - apply orb_true_iff in H2 as [H2|H2].
    + rewrite H2; reflexivity.
    + rewrite (ltb_prefix _ _ _ H2). apply orb_true_r.
Qed.


(* ------------------------------------------------------------------ order on byte strings *)
Lemma str_cmp_refl : forall a, str_cmp a a = Eq.
Proof. induction a as [|x a IH]; simpl; auto. rewrite N.compare_refl. exact IH. Qed.

Lemma str_cmp_eq : forall a b, str_cmp a b = Eq -> a = b.
Proof.
  induction a as [|x a IH]; destruct b as [|y b]; simpl; intros H; try discriminate; auto.
  destruct (N.compare x y) eqn:C; try discriminate. apply N.compare_eq in C. subst. f_equal. auto.
Qed.

Lemma str_cmp_antisym : forall a b, str_cmp b a = CompOpp (str_cmp a b).
Proof.
  induction a as [|x a IH]; destruct b as [|y b]; simpl; auto.
  rewrite (N.compare_antisym x y). destruct (N.compare x y); simpl; auto.
Qed.

Lemma str_cmp_lt_trans : forall a b c, str_cmp a b = Lt -> str_cmp b c = Lt -> str_cmp a c = Lt.
Proof.
  induction a as [|x a IH]; destruct b as [|y b]; destruct c as [|z c]; simpl; intros H1 H2; try discriminate; auto.
  destruct (N.compare x y) eqn:C1; destruct (N.compare y z) eqn:C2; try discriminate.
  - apply N.compare_eq in C1. apply N.compare_eq in C2. subst. rewrite N.compare_refl. eapply IH; eauto.
  - apply N.compare_eq in C1. subst. rewrite C2. reflexivity.
  - apply N.compare_eq in C2. subst. rewrite C1. reflexivity.
  - apply N.compare_lt_iff in C1. apply N.compare_lt_iff in C2.
    assert (Hl : (x < z)%N) by (eapply N.lt_trans; eauto). apply N.compare_lt_iff in Hl. rewrite Hl. reflexivity.
Qed.

Definition str_lt (a b : str) : Prop := str_ltb a b = true.
Lemma str_lt_cmp : forall a b, str_lt a b <-> str_cmp a b = Lt.
Proof. intros a b. unfold str_lt, str_ltb. destruct (str_cmp a b); split; intros H; try discriminate; auto. Qed.
Lemma str_lt_trans : forall a b c, str_lt a b -> str_lt b c -> str_lt a c.
Proof. intros a b c H1 H2. apply str_lt_cmp. eapply str_cmp_lt_trans; apply str_lt_cmp; eauto. Qed.
Lemma str_lt_irrefl : forall a, ~ str_lt a a.
Proof. intros a H. apply str_lt_cmp in H. rewrite str_cmp_refl in H. discriminate. Qed.
Lemma str_ltb_false_leb : forall a b, str_ltb a b = false -> str_leb b a = true.
Proof.
  intros a b H. unfold str_ltb in H. unfold str_leb. rewrite (str_cmp_antisym a b).
  destruct (str_cmp a b); simpl; auto; discriminate.
Qed.
Lemma str_lt_neq_eqb : forall a b, str_lt a b -> str_eqb b a = false.
Proof.
  intros a b H. destruct (str_eqb b a) eqn:E; auto. apply str_eqb_eq in E. subst. exfalso. eapply str_lt_irrefl; eauto.
Qed.
Lemma str_lt_asym_ltb : forall a b, str_lt a b -> str_ltb b a = false.
Proof.
  intros a b H. apply str_lt_cmp in H. unfold str_ltb. rewrite (str_cmp_antisym a b), H. reflexivity.
Qed.

(* ------------------------------------------------------------------ sorted rows: what the line-protocol parser delivers *)
From Coq Require Import Sorting.Sorted.
Definition keys_sorted (l : list str) : Prop := Sorted str_lt l.

Lemma keys_sorted_strong : forall l, keys_sorted l -> StronglySorted str_lt l.
Proof. intros l H. apply Sorted_StronglySorted; auto. intros a b c. apply str_lt_trans. Qed.

Lemma sorted_nodup : forall l, keys_sorted l -> NoDup l.
Proof.
  intros l H. apply keys_sorted_strong in H. induction H as [|a l Hs IH Hf]; constructor; auto.
  intros Hin. rewrite Forall_forall in Hf. eapply str_lt_irrefl. apply Hf. exact Hin.
Qed.

Lemma sorted_no_adj_dup : forall tags, keys_sorted (map fst tags) -> has_adj_dup tags = false.
Proof.
  induction tags as [|a tags IH]; simpl; intros H; auto. destruct tags as [|b tags']; auto.
  simpl in H. inversion H as [|? ? Hs Hh]; subst. inversion Hh; subst.
  rewrite (IH Hs). rewrite orb_false_r. destruct (str_eqb (fst a) (fst b)) eqn:E; auto.
  apply str_eqb_eq in E. rewrite E in H1. exfalso. eapply str_lt_irrefl; eauto.
Qed.

(* every shard-key tag is among the row's tags => the sorted merge finds them all *)
Lemma sel_keys_complete : forall tags sk,
  keys_sorted (map fst tags) -> keys_sorted sk -> (forall k, In k sk -> In k (map fst tags)) ->
  snd (sel_keys sk tags) = true.
Proof.
  induction tags as [|[tk tv] tags IH]; intros sk Ht Hs Hin.
  - destruct sk as [|k sk]; simpl; auto. exfalso. apply (Hin k). left; reflexivity.
  - destruct sk as [|k sk']; [reflexivity|]. simpl.
    pose proof (keys_sorted_strong _ Ht) as Hst. simpl in Hst. inversion Hst as [|? ? Hst' Hf]; subst.
    rewrite Forall_forall in Hf.
    pose proof (keys_sorted_strong _ Hs) as Hss. inversion Hss as [|? ? Hss' Hfs]; subst. rewrite Forall_forall in Hfs.
    assert (Ht' : keys_sorted (map fst tags)) by (simpl in Ht; inversion Ht; auto).
    assert (Hs' : keys_sorted sk') by (inversion Hs; auto).
    destruct (str_ltb k tk) eqn:El.
    + exfalso. destruct (Hin k (or_introl eq_refl)) as [He|Hi].
      * simpl in He. subst. eapply str_lt_irrefl; eauto.
      * apply (str_lt_irrefl k). eapply str_lt_trans; [exact El|]. apply Hf. exact Hi.
    + destruct (str_eqb k tk) eqn:Ee.
      * apply str_eqb_eq in Ee. subst tk. simpl. apply IH; auto.
        intros k' Hk'. destruct (Hin k' (or_intror Hk')) as [He|Hi]; auto.
        simpl in He. subst k'. exfalso. eapply str_lt_irrefl. apply Hfs. exact Hk'.
      * apply IH; auto. intros k' Hk'.
        destruct (Hin k' Hk') as [He|Hi]; auto. simpl in He. subst k'. exfalso.
        (* tk is in sk but k is the least element of sk and k > tk *)
        destruct Hk' as [Hk'|Hk'].
        -- subst. rewrite str_eqb_refl in Ee. discriminate.
        -- assert (Hlt : str_lt k tk) by (apply Hfs; auto). unfold str_lt in Hlt. rewrite Hlt in El. discriminate.
Qed.


Lemma find_group_spec0 : forall gs t g, find_group gs t = Some g -> g_writable g t = true.
Proof. unfold find_group. intros gs t g H. apply find_some in H as [_ H]. exact H. Qed.

Lemma span_covers0 : forall t d, (0 < d)%Z -> (t <= max_nano)%Z -> (fst (span_of t d) <= t < snd (span_of t d))%Z.
Proof.
  intros t d Hd Ht. unfold span_of, trunc. cbn [fst snd]. destruct (d <=? 0)%Z eqn:E; [apply Z.leb_le in E; lia|].
  pose proof (Z.mod_pos_bound (t + epoch_shift) d Hd) as Hm.
  match goal with |- context [if ?b then _ else _] => destruct b eqn:E2 end; lia.
Qed.

(* ------------------------------------------------------------------ every accepted point has a route *)
(* key ranges of a range-sharded group: first Min empty, last Max empty, adjacent shards share the bound *)
Fixpoint covers_from (lo : str) (shards : list shard) : Prop :=
  match shards with
  | [] => False
  | s :: rest => s_min s = lo /\ match rest with
                                | [] => s_max s = []
                                | _ => s_max s <> [] /\ covers_from (s_max s) rest
                                end
  end.
Definition wf_route (c : cfg) (g : group) : Prop :=
  match c_typ c with
  | Hash => eff_idx c g <> [] /\ Forall (fun i => (i < length (g_shards g))%nat) (eff_idx c g)
  | Range => covers_from [] (g_shards g)
  end.

Lemma find_exists : forall {A} (f : A -> bool) l, (exists x, In x l /\ f x = true) -> exists y, find f l = Some y.
Proof.
  induction l as [|a l IH]; intros [x [Hin Hf]]; [contradiction|]. simpl. destruct (f a) eqn:E; eauto.
  destruct Hin as [->|Hin]; [congruence|]. apply IH. eauto.
Qed.

Lemma covers_contains : forall shards lo key, covers_from lo shards -> str_leb lo key = true ->
  exists s, In s shards /\ contain s key = true.
Proof.
  induction shards as [|s rest IH]; intros lo key Hc Hl; [contradiction|]. destruct Hc as [Hmin Hrest].
  destruct rest as [|s' rest'].
  - exists s. split; [left; reflexivity|]. unfold contain. rewrite Hmin, Hl, Hrest. reflexivity.
  - destruct Hrest as [Hne Hcov]. destruct (str_ltb key (s_max s)) eqn:E.
    + exists s. split; [left; reflexivity|]. unfold contain. rewrite Hmin, Hl, E. apply orb_true_r.
    + destruct (IH (s_max s) key Hcov (str_ltb_false_leb _ _ E)) as [x [Hx Hcx]]. exists x. split; [right; exact Hx|exact Hcx].
Qed.

Lemma shard_for_total : forall c h g, eff_idx c g <> [] ->
  Forall (fun i => (i < length (g_shards g))%nat) (eff_idx c g) -> exists s, shard_for c h g = Some s.
Proof.
  intros c h g Hne Hf. unfold shard_for. destruct (eff_idx c g) as [|i0 idx] eqn:E; [congruence|].
  set (n := length (i0 :: idx)).
  assert (Hlt : (N.to_nat (h mod N.of_nat n) < n)%nat).
  { assert (Hn : N.of_nat n <> 0%N) by (unfold n; simpl; lia).
    pose proof (N.mod_lt h (N.of_nat n) Hn). lia. }
  destruct (nth_error (i0 :: idx) (N.to_nat (h mod N.of_nat n))) as [i|] eqn:En.
  - rewrite Forall_forall in Hf. assert (Hi : (i < length (g_shards g))%nat) by (apply Hf; eapply nth_error_In; eauto).
    apply nth_error_Some in Hi. destruct (nth_error (g_shards g) i); [eauto|congruence].
  - apply nth_error_None in En. fold n in En. lia.
Qed.

Lemma ensure_group_finds : forall c t gid shards alive, (0 < c_dur c)%Z -> (t <= max_nano)%Z ->
  exists g, find_group (c_groups (ensure_group c t gid shards alive)) t = Some g /\ g_writable g t = true.
Proof.
  intros c t gid shards alive Hd Ht. unfold ensure_group.
  destruct (find_group (c_groups c) t) as [g|] eqn:Ef.
  - exists g. split; auto. apply find_group_spec0 in Ef. exact Ef.
  - simpl. exists (new_group gid t (c_dur c) shards alive). unfold find_group. rewrite rev_app_distr. simpl.
    assert (Hw : g_writable (new_group gid t (c_dur c) shards alive) t = true).
    { unfold g_writable, g_contains, new_group. cbn [g_start g_end g_deleted g_trunc]. pose proof (span_covers0 t (c_dur c) Hd Ht) as [H1 H2].
      apply Z.leb_le in H1. apply Z.ltb_lt in H2. rewrite H1, H2. reflexivity. }
    rewrite Hw. auto.
Qed.

Lemma wkey_total : forall c p,
  keys_sorted (map fst (p_tags p)) -> keys_sorted (c_sk c) -> (forall k, In k (c_sk c) -> In k (map fst (p_tags p))) ->
  exists ps, wkey c p = Some ps.
Proof.
  intros c p Ht Hs Hin. unfold wkey. rewrite (sorted_no_adj_dup _ Ht).
  destruct (c_sk c) as [|k sk] eqn:E; [eauto|]. rewrite (sel_keys_complete _ (k :: sk) Ht Hs Hin). eauto.
Qed.

(* ------------------------------------------------------------------ tags *)
Lemma tag_val_in : forall tags k v, NoDup (map fst tags) -> In (k, v) tags -> tag_val tags k = v.
Proof.
  induction tags as [|[k' v'] r IH]; simpl; intros k v ND HI; [contradiction|].
  inversion ND as [|? ? Hn ND']; subst. unfold tag_val; simpl.
  destruct (str_eqb k' k) eqn:E.
  - apply str_eqb_eq in E; subst. destruct HI as [H|H]; [inversion H; auto|].
    exfalso; apply Hn. change k with (fst (k, v)). apply in_map; exact H.
  - destruct HI as [H|H].
    + inversion H; subst. rewrite str_eqb_refl in E; discriminate.
    + apply IH; auto.
Qed.

Lemma sel_keys_spec : forall tags sk,
  exists m, map fst (fst (sel_keys sk tags)) = firstn m sk /\ incl (fst (sel_keys sk tags)) tags /\
            (snd (sel_keys sk tags) = true -> map fst (fst (sel_keys sk tags)) = sk).
Proof.
  induction tags as [|[tk tv] tags IH]; intros sk; simpl.
  - exists O; simpl. split; [reflexivity|]. split; [apply incl_refl|]. destruct sk; simpl; [auto|discriminate].
  - destruct sk as [|k sk'].
    + exists O; simpl. split; [reflexivity|]. split; [intros x []|auto].
    + destruct (str_ltb k tk).
      * exists O; simpl. split; [reflexivity|]. split; [intros x []|discriminate].
      * destruct (str_eqb k tk) eqn:E.
        -- apply str_eqb_eq in E; subst. destruct (IH sk') as [m [H1 [H2 H3]]]. exists (S m); simpl.
           split; [rewrite H1; reflexivity|]. split.
           ++ intros x [Hx|Hx]; [left; auto|right; apply H2; auto].
           ++ intros Hs. rewrite (H3 Hs); reflexivity.
        -- destruct (IH (k :: sk')) as [m [H1 [H2 H3]]]. exists m. split; [exact H1|]. split; [|exact H3].
           apply incl_tl; exact H2.
Qed.

Lemma pairs_determined : forall (f : str -> str) (a b : tagset),
  map fst a = map fst b -> (forall x, In x a -> snd x = f (fst x)) -> (forall x, In x b -> snd x = f (fst x)) -> a = b.
Proof.
  induction a as [|[k v] a IH]; destruct b as [|[k' v'] b]; simpl; intros H Ha Hb; try discriminate; auto.
  inversion H; subst. f_equal.
  - pose proof (Ha (k', v) (or_introl eq_refl)) as E1. pose proof (Hb (k', v') (or_introl eq_refl)) as E2.
    simpl in *. congruence.
  - apply IH; auto.
Qed.

Lemma ins_tag_in : forall x y l, In x (ins_tag y l) -> x = y \/ In x l.
Proof.
  induction l as [|z l IH]; simpl; intros H.
  - destruct H as [H|[]]; auto.
  - destruct (str_ltb (fst z) (fst y)).
    + destruct H as [H|H]; [right; left; auto|]. destruct (IH H) as [H'|H']; [left; auto|right; right; auto].
    + destruct H as [H|H]; auto.
Qed.

Lemma sort_tags_in : forall l x, In x (sort_tags l) -> In x l.
Proof.
  induction l as [|y l IH]; simpl; intros x H; [contradiction|].
  apply ins_tag_in in H. destruct H as [H|H]; [left; auto|right; apply IH; auto].
Qed.

Lemma firstn_In : forall {A} n (l : list A) x, In x (firstn n l) -> In x l.
Proof. induction n as [|n IH]; destruct l as [|y l]; simpl; intros x H; try contradiction. destruct H as [H|H]; [left; auto|right; apply IH; auto]. Qed.

Lemma key_suffix_app : forall a b, key_suffix (a ++ b) = key_suffix a ++ key_suffix b.
Proof. intros; unfold key_suffix. rewrite map_app, concat_app. reflexivity. Qed.

Lemma skipn_S_app : forall (a b : str), skipn (S (length a)) (a ++ b) = tl b.
Proof. induction a as [|x a IH]; intros b; [destruct b; reflexivity|]. simpl length. simpl app. exact (IH b). Qed.

(* ------------------------------------------------------------------ getConditionTags, repaired reading *)
Definition sat_ts (p : point) (ts : tagset) : Prop := forall k v, In (k, v) ts -> tag_val (p_tags p) k = v.

Lemma sat_ts_app : forall p a b, sat_ts p a -> sat_ts p b -> sat_ts p (a ++ b).
Proof. intros p a b Ha Hb k v H. apply in_app_or in H as [H|H]; auto. Qed.

(* a condition as the InfluxQL grammar produces it: OR binds weaker than AND, so an AND node never has an OR operand
   (a parenthesised one is an EParen); and_pure = no OR reachable without crossing parentheses *)
Fixpoint and_pure (e : expr) : Prop :=
  match e with EOr _ _ => False | EAnd a b => and_pure a /\ and_pure b | _ => True end.
Fixpoint parser_image (e : expr) : Prop :=
  match e with EOr a b => parser_image a /\ parser_image b | EAnd a b => and_pure a /\ and_pure b | _ => True end.

Lemma and_pure_parser_image : forall e, and_pure e -> parser_image e.
Proof. induction e; simpl; intros H; auto. contradiction. Qed.

Lemma and_pure_single : forall v tagkeys e tss, and_pure e -> cond_tags v tagkeys e = Some tss -> exists ts, tss = [ts].
Proof.
  induction e as [id k val|id|a IHa b IHb|a IHa b IHb|a IHa]; simpl; intros tss Hp H; try discriminate; try contradiction.
  - destruct (is_time_name k); try discriminate. destruct (mem_str k tagkeys); try discriminate.
    inversion H; eauto.
  - destruct Hp as [Hpa Hpb].
    destruct (cond_tags v tagkeys a) as [ls|] eqn:Ea; destruct (cond_tags v tagkeys b) as [rs|] eqn:Eb.
    + destruct (IHa _ Hpa eq_refl) as [l ->]. destruct (IHb _ Hpb eq_refl) as [r ->].
      destruct (v_and v); inversion H; simpl; eauto.
    + inversion H; subst. eauto.
    + eauto.
    + discriminate.
Qed.

Lemma cond_tags_sound : forall v tagkeys p e tss,
  v_or v = true -> (v_and v = true \/ parser_image e) ->
  cond_tags v tagkeys e = Some tss -> eval_expr tagkeys p e = true ->
  exists ts, In ts tss /\ sat_ts p ts.
Proof.
  intros v tagkeys p. induction e as [id k val|id|a IHa b IHb|a IHa b IHb|a IHa]; simpl; intros tss Hor Hok H Hev; try discriminate.
  - destruct (is_time_name k); try discriminate. destruct (mem_str k tagkeys) eqn:M; try discriminate.
    inversion H; subst. apply str_eqb_eq in Hev.
    exists [(k, val)]. split; [left; reflexivity|]. intros k' v' [Heq|[]]. inversion Heq; subst; auto.
  - apply andb_true_iff in Hev as [Hea Heb].
    assert (Hoka : v_and v = true \/ parser_image a).
    { destruct Hok as [Hok|[Hpa _]]; [left; auto|right; apply and_pure_parser_image; auto]. }
    assert (Hokb : v_and v = true \/ parser_image b).
    { destruct Hok as [Hok|[_ Hpb]]; [left; auto|right; apply and_pure_parser_image; auto]. }
    destruct (cond_tags v tagkeys a) as [ls|] eqn:Ea; destruct (cond_tags v tagkeys b) as [rs|] eqn:Eb.
    + destruct (IHa _ Hor Hoka eq_refl Hea) as [l [Hl Hsl]]. destruct (IHb _ Hor Hokb eq_refl Heb) as [r [Hr Hsr]].
      destruct (v_and v) eqn:Va.
      * inversion H; subst. exists (l ++ r). split; [|apply sat_ts_app; auto].
        apply in_flat_map. exists l. split; auto. apply in_map; auto.
      * destruct Hok as [Hok|[Hpa Hpb]]; [discriminate|].
        destruct (and_pure_single _ _ _ _ Hpa Ea) as [l0 ->]. destruct (and_pure_single _ _ _ _ Hpb Eb) as [r0 ->].
        destruct Hl as [<-|[]]. destruct Hr as [<-|[]]. inversion H; subst. simpl.
        exists (l0 ++ r0 ++ []). split; [left; reflexivity|]. rewrite app_nil_r. apply sat_ts_app; auto.
    + inversion H; subst. eapply IHa; eauto.
    + eapply IHb; eauto.
    + discriminate.
  - assert (Hoka : v_and v = true \/ parser_image a) by (destruct Hok as [Hok|[Hpa _]]; auto).
    assert (Hokb : v_and v = true \/ parser_image b) by (destruct Hok as [Hok|[_ Hpb]]; auto).
    rewrite Hor in H.
    destruct (cond_tags v tagkeys a) as [ls|] eqn:Ea; destruct (cond_tags v tagkeys b) as [rs|] eqn:Eb; try discriminate.
    inversion H; subst. apply orb_true_iff in Hev as [Hev|Hev].
    + destruct (IHa _ Hor Hoka eq_refl Hev) as [l [Hl Hsl]]. exists l. split; auto. apply in_or_app; auto.
    + destruct (IHb _ Hor Hokb eq_refl Hev) as [r [Hr Hsr]]. exists r. split; auto. apply in_or_app; auto.
Qed.

(* ------------------------------------------------------------------ TargetShards loop with the buffer reset *)
Section Loop.
Variable hash : str -> N.

Lemma tloop_hash_in : forall v c g, v_reset v = true -> c_typ c = Hash ->
  forall tss acc res ts, tloop hash v c g acc tss = Some res -> In ts tss ->
  snd (sel_keys (c_sk c) (sort_tags ts)) = true /\
  forall s, shard_for c (hash (after_name c (c_mst c ++ key_suffix (fst (sel_keys (c_sk c) (sort_tags ts)))))) g = Some s ->
            In s res.
Proof.
  intros v c g Hr Ht. induction tss as [|t tss IH]; intros acc res ts H Hin; [contradiction|].
  cbn [tloop] in H. rewrite Ht, Hr in H.
  destruct (snd (sel_keys (c_sk c) (sort_tags t))) eqn:Ok; try discriminate.
  destruct (tloop hash v c g (c_mst c ++ key_suffix (fst (sel_keys (c_sk c) (sort_tags t)))) tss) as [res'|] eqn:El; try discriminate.
  injection H as Hres; subst res. destruct Hin as [<-|Hin].
  - split; [exact Ok|]. intros s Hs. rewrite Hs. left; reflexivity.
  - destruct (IH _ _ _ El Hin) as [H1 H2]. split; [exact H1|]. intros s Hs. apply in_or_app; right. apply H2; exact Hs.
Qed.

Lemma tloop_range_in : forall v c g, v_reset v = true -> c_typ c = Range ->
  forall tss acc res ts, tloop hash v c g acc tss = Some res -> In ts tss ->
  forall s, In s (g_shards g) ->
            contain_prefix s (c_mst c ++ key_suffix (fst (sel_keys (c_sk c) (sort_tags ts)))) = true -> In s res.
Proof.
  intros v c g Hr Ht. induction tss as [|t tss IH]; intros acc res ts H Hin s Hs Hc; [contradiction|].
  cbn [tloop] in H. rewrite Ht, Hr in H.
  destruct (tloop hash v c g (c_mst c ++ key_suffix (fst (sel_keys (c_sk c) (sort_tags t)))) tss) as [res'|] eqn:El; try discriminate.
  injection H as Hres; subst res. destruct Hin as [<-|Hin].
  - apply in_or_app; left. apply filter_In. split; auto.
  - apply in_or_app; right. eapply IH; eauto.
Qed.

(* ------------------------------------------------------------------ write side *)
Lemma find_group_spec : forall gs t g, find_group gs t = Some g -> In g gs /\ g_writable g t = true.
Proof.
  unfold find_group. intros gs t g H. apply find_some in H as [H1 H2]. split; auto. apply in_rev; auto.
Qed.

Lemma shard_for_spec : forall c h g s, shard_for c h g = Some s ->
  exists i, In i (eff_idx c g) /\ nth_error (g_shards g) i = Some s.
Proof.
  unfold shard_for. intros c h g s H. destruct (eff_idx c g) as [|i0 idx] eqn:E; [discriminate|].
  destruct (nth_error (i0 :: idx) (N.to_nat (h mod N.of_nat (length (i0 :: idx))))) as [i|] eqn:En; [|discriminate].
  exists i. split; auto. eapply nth_error_In; eauto.
Qed.

Lemma route_in_all_alive : forall c g p s, wf_group c g -> route_in hash c g p = Some s ->
  In s (g_shards g) /\ In s (all_alive g).
Proof.
  unfold route_in, wf_group. intros c g p s Hwf H. destruct (wkey c p) as [ps|]; [|discriminate].
  destruct (c_typ c).
  - apply shard_for_spec in H as [i [Hi Hn]]. split; [eapply nth_error_In; eauto|].
    unfold all_alive. apply in_flat_map. exists i. split; [apply Hwf; auto|]. rewrite Hn. left; reflexivity.
  - unfold dest_shard in H. apply find_some in H as [Hs _]. split; auto.
    destruct (In_nth_error _ _ Hs) as [i Hn]. unfold all_alive. apply in_flat_map. exists i. split.
    + apply Hwf. apply nth_error_Some. rewrite Hn; discriminate.
    + rewrite Hn. left; reflexivity.
Qed.

Lemma route_covering : forall c p g s, route hash c p = Some (g, s) ->
  In g (c_groups c) /\ (g_start g <= p_time p < g_end g)%Z /\ g_deleted g = false /\
  match g_trunc g with None => True | Some tr => (p_time p < tr)%Z end /\ route_in hash c g p = Some s.
Proof.
  unfold route. intros c p g s H. destruct (find_group (c_groups c) (p_time p)) as [g'|] eqn:Ef; [|discriminate].
  destruct (route_in hash c g' p) as [s'|] eqn:Er; [|discriminate]. inversion H; subst.
  apply find_group_spec in Ef as [Hin Hw]. unfold g_writable, g_contains in Hw.
  apply andb_true_iff in Hw as [Hw Htr]. apply andb_true_iff in Hw as [Hc Hd]. apply andb_true_iff in Hc as [Hs He].
  apply Z.leb_le in Hs. apply Z.ltb_lt in He. apply negb_true_iff in Hd.
  repeat split; auto. destruct (g_trunc g); auto. apply Z.ltb_lt in Htr; auto.
Qed.


Lemma route_in_shards : forall c g p s, route_in hash c g p = Some s -> In s (g_shards g).
Proof.
  unfold route_in. intros c g p s H. destruct (wkey c p) as [ps|]; [|discriminate]. destruct (c_typ c).
  - apply shard_for_spec in H as [i [_ Hn]]. eapply nth_error_In; eauto.
  - unfold dest_shard in H. apply find_some in H as [Hs _]. exact Hs.
Qed.

(* the shard inside the group is a function of the shard-key pairs only *)
Lemma route_by_key : forall c g p p', wkey c p' = wkey c p -> route_in hash c g p' = route_in hash c g p.
Proof. intros c g p p' H. unfold route_in. rewrite H. reflexivity. Qed.

Theorem route_unique_covering_proof : forall c p g s,
  route hash c p = Some (g, s) ->
  (In g (c_groups c) /\ (g_start g <= p_time p < g_end g)%Z /\ g_deleted g = false /\ In s (g_shards g))
  /\ (forall g' s', route hash c p = Some (g', s') -> g' = g /\ s' = s)
  /\ (forall p', find_group (c_groups c) (p_time p') = Some g -> wkey c p' = wkey c p -> route hash c p' = Some (g, s)).
Proof.
  intros c p g s H. pose proof (route_covering _ _ _ _ H) as [Hin [Hc [Hd [_ Hri]]]]. split; [|split].
  - repeat split; auto; try apply Hc. eapply route_in_shards; eauto.
  - intros g' s' H'. rewrite H in H'. inversion H'; auto.
  - intros p' Hf Hk. unfold route. rewrite Hf, (route_by_key _ _ _ _ Hk), Hri. reflexivity.
Qed.

(* the cached fast path still stores the row in a shard of a group whose span contains the timestamp; either the
   cached group was reused or the result is the catalogue's *)
Theorem route_cached_covering_proof : forall cache c p g s,
  route_cached hash cache c p = Some (g, s) ->
  (g_start g <= p_time p < g_end g)%Z /\ In s (g_shards g) /\ (cache = Some g \/ route hash c p = Some (g, s)).
Proof.
  unfold route_cached, pick_group. intros cache c p g s H.
  destruct cache as [g0|].
  - destruct (g_contains g0 (p_time p)) eqn:Ec.
    + destruct (route_in hash c g0 p) as [s0|] eqn:Er; [|discriminate]. inversion H; subst.
      unfold g_contains in Ec. apply andb_true_iff in Ec as [E1 E2]. apply Z.leb_le in E1. apply Z.ltb_lt in E2.
      split; [split; auto|]. split; [eapply route_in_shards; eauto|left; reflexivity].
    + assert (Hr : route hash c p = Some (g, s)) by exact H.
      pose proof (route_unique_covering_proof _ _ _ _ Hr) as [[_ [Hc [_ Hs]]] _]. auto.
  - assert (Hr : route hash c p = Some (g, s)) by exact H.
    pose proof (route_unique_covering_proof _ _ _ _ Hr) as [[_ [Hc [_ Hs]]] _]. auto.
Qed.

Theorem route_total_proof : forall c p gid shards alive,
  (0 < c_dur c)%Z -> (p_time p <= max_nano)%Z ->
  keys_sorted (map fst (p_tags p)) -> keys_sorted (c_sk c) -> (forall k, In k (c_sk c) -> In k (map fst (p_tags p))) ->
  (forall g, In g (c_groups (ensure_group c (p_time p) gid shards alive)) -> wf_route c g) ->
  exists g s, route hash (ensure_group c (p_time p) gid shards alive) p = Some (g, s).
Proof.
  intros c p gid shards alive Hd Ht Hst Hss Hin Hwf.
  destruct (ensure_group_finds c (p_time p) gid shards alive Hd Ht) as [g [Hf Hw]].
  set (c' := ensure_group c (p_time p) gid shards alive) in *.
  assert (Hsk : c_sk c' = c_sk c) by (unfold c', ensure_group; destruct (find_group (c_groups c) (p_time p)); reflexivity).
  assert (Hty : c_typ c' = c_typ c) by (unfold c', ensure_group; destruct (find_group (c_groups c) (p_time p)); reflexivity).
  assert (Hix : forall g0, eff_idx c' g0 = eff_idx c g0).
  { intros g0. unfold eff_idx, c', ensure_group. destruct (find_group (c_groups c) (p_time p)); reflexivity. }
  assert (Hmst : c_mst c' = c_mst c) by (unfold c', ensure_group; destruct (find_group (c_groups c) (p_time p)); reflexivity).
  assert (Hg : In g (c_groups c')). { pose proof (find_group_spec _ _ _ Hf) as [H _]. exact H. }
  specialize (Hwf g Hg). unfold wf_route in Hwf.
  destruct (wkey_total c' p Hst) as [ps Hps]; try (rewrite Hsk; auto).
  unfold route. rewrite Hf. unfold route_in. rewrite Hps, Hty. exists g.
  destruct (c_typ c).
  - destruct Hwf as [Hne Hfa]. destruct (shard_for_total c (hash (hash_arg c' ps)) g Hne Hfa) as [s Hs].
    exists s. unfold shard_for in *. rewrite Hix. rewrite Hs. reflexivity.
  - destruct (covers_contains _ [] (c_mst c' ++ key_suffix ps) Hwf) as [s [Hs Hc]]; [destruct (c_mst c' ++ key_suffix ps); reflexivity|].
    destruct (find_exists (fun s0 => contain s0 (c_mst c' ++ key_suffix ps)) (g_shards g)) as [y Hy]; [eauto|].
    exists y. unfold dest_shard. rewrite Hy. reflexivity.
Qed.

(* the key built on the read side from any tag set the row satisfies (duplicates allowed: the merge takes the first value
   per key) is a prefix of the key built on the write side, and equal to it when every shard-key tag is constrained;
   for every shard-key definition *)
Theorem sel_keys_agree_proof : forall sk tags ts,
  NoDup (map fst tags) -> snd (sel_keys sk tags) = true ->
  (forall k v, In (k, v) ts -> tag_val tags k = v) ->
  exists m, fst (sel_keys sk (sort_tags ts)) = firstn m (fst (sel_keys sk tags)) /\
            (snd (sel_keys sk (sort_tags ts)) = true -> fst (sel_keys sk (sort_tags ts)) = fst (sel_keys sk tags)).
Proof.
  intros sk tags ts Hnd Hok Hsat.
  destruct (sel_keys_spec tags sk) as [mp [Hp1 [Hp2 Hp3]]]. specialize (Hp3 Hok).
  destruct (sel_keys_spec (sort_tags ts) sk) as [mt [Ht1 [Ht2 Ht3]]].
  set (ps := fst (sel_keys sk tags)) in *. set (qs := fst (sel_keys sk (sort_tags ts))) in *.
  assert (Hps : forall x, In x ps -> snd x = tag_val tags (fst x)).
  { intros [k x] Hx. simpl. symmetry. apply tag_val_in; auto. }
  assert (Hqs : forall x, In x qs -> snd x = tag_val tags (fst x)).
  { intros [k x] Hx. simpl. symmetry. apply Hsat. apply sort_tags_in. apply Ht2. exact Hx. }
  exists mt. split.
  - apply (pairs_determined (tag_val tags)); auto.
    + rewrite Ht1, <- firstn_map, Hp3. reflexivity.
    + intros x Hx. apply Hps. eapply firstn_In; eauto.
  - intros Hc. apply (pairs_determined (tag_val tags)); auto. rewrite (Ht3 Hc), Hp3. reflexivity.
Qed.

Lemma contradictory_alternative_unsat : forall tags ts k v1 v2,
  In (k, v1) ts -> In (k, v2) ts -> v1 <> v2 -> ~ (forall k' v, In (k', v) ts -> tag_val tags k' = v).
Proof. intros tags ts k v1 v2 H1 H2 Hne Hs. apply Hne. rewrite <- (Hs k v1 H1), <- (Hs k v2 H2). reflexivity. Qed.

(* ------------------------------------------------------------------ pruning is sound *)
Lemma target_group_sound : forall v c g cond p s,
  v_or v = true -> v_reset v = true ->
  (v_and v = true \/ match cond with Some e => parser_image e | None => True end) ->
  wf_group c g -> wf_point p ->
  route_in hash c g p = Some s -> eval_cond c cond p = true ->
  In s (target_group hash v c g cond).
Proof.
  intros v c g cond p s Hor Hres Hok Hwf Hwp Hr Hev.
  destruct (route_in_all_alive _ _ _ _ Hwf Hr) as [Hsg Hall].
  unfold target_group. destruct (c_sk c) as [|k0 sk0] eqn:Esk; [exact Hall|].
  destruct cond as [e|]; [|exact Hall]. simpl in Hev.
  destruct (cond_tags v (c_tagkeys c) e) as [tss|] eqn:Ect; [|exact Hall].
  destruct (tloop hash v c g (c_mst c) tss) as [res|] eqn:El; [|exact Hall].
  assert (Hok' : v_and v = true \/ parser_image e) by (destruct Hok; auto).
  destruct (cond_tags_sound _ _ p _ _ Hor Hok' Ect Hev) as [ts [Hts Hsat]].
  (* the point's key pairs *)
  unfold route_in in Hr. destruct (wkey c p) as [ps|] eqn:Ew; [|discriminate].
  unfold wkey in Ew. destruct (has_adj_dup (p_tags p)); [discriminate|]. rewrite Esk in Ew.
  destruct (snd (sel_keys (k0 :: sk0) (p_tags p))) eqn:Okp; [|discriminate]. inversion Ew; subst ps; clear Ew.
  destruct (sel_keys_spec (p_tags p) (k0 :: sk0)) as [mp [Hp1 [Hp2 Hp3]]]. specialize (Hp3 Okp).
  destruct (sel_keys_spec (sort_tags ts) (k0 :: sk0)) as [mt [Ht1 [Ht2 Ht3]]].
  set (ps := fst (sel_keys (k0 :: sk0) (p_tags p))) in *.
  set (qs := fst (sel_keys (k0 :: sk0) (sort_tags ts))) in *.
  assert (Hps : forall x, In x ps -> snd x = tag_val (p_tags p) (fst x)).
  { intros [k x] Hx. simpl. symmetry. apply tag_val_in; auto. }
  assert (Hqs : forall x, In x qs -> snd x = tag_val (p_tags p) (fst x)).
  { intros [k x] Hx. simpl. symmetry. apply Hsat. apply sort_tags_in. apply Ht2. exact Hx. }
  assert (Hpre : qs = firstn mt ps).
  { apply (pairs_determined (tag_val (p_tags p))); auto.
    - rewrite Ht1, <- firstn_map, Hp3. reflexivity.
    - intros x Hx. apply Hps. eapply firstn_In; eauto. }
  destruct (c_typ c) eqn:Etyp.
  - (* hash *)
    destruct (tloop_hash_in v c g Hres Etyp _ _ _ _ El Hts) as [Hc Hin]. rewrite Esk in Hc, Hin. fold qs in Hin.
    assert (Hq : qs = ps).
    { apply (pairs_determined (tag_val (p_tags p))); auto. fold qs in Ht3. rewrite (Ht3 Hc), Hp3. reflexivity. }
    apply Hin. unfold after_name. rewrite skipn_S_app, Hq. unfold hash_arg in Hr. rewrite Esk in Hr. exact Hr.
  - (* range *)
    unfold dest_shard in Hr. apply find_some in Hr as [_ Hcon].
    eapply (tloop_range_in v c g Hres Etyp _ _ _ _ El Hts); auto. rewrite Esk. fold qs. rewrite Hpre.
    rewrite <- (firstn_skipn mt ps), key_suffix_app, app_assoc in Hcon.
    eapply contain_prefix_of; eauto.
Qed.

Lemma in_query_groups : forall c g t tmin tmax,
  In g (c_groups c) -> (g_start g <= t < g_end g)%Z -> g_deleted g = false -> (tmin <= t <= tmax)%Z ->
  In g (query_groups c tmin tmax).
Proof.
  intros c g t tmin tmax Hin Hc Hd Ht. unfold query_groups. apply filter_In. split; auto.
  rewrite Hd. simpl. unfold g_overlaps. apply andb_true_iff. split; [apply Z.leb_le|apply Z.ltb_lt]; lia.
Qed.

Theorem prune_sound_gen : forall v c cond p g s tmin tmax,
  v_or v = true -> v_reset v = true ->
  (v_and v = true \/ match cond with Some e => parser_image e | None => True end) ->
  wf_cfg c -> wf_point p ->
  route hash c p = Some (g, s) -> (tmin <= p_time p <= tmax)%Z -> eval_cond c cond p = true ->
  In g (query_groups c tmin tmax) /\ In s (target_group hash v c g cond) /\
  In (g_id g, s_id s) (target hash v c tmin tmax cond).
Proof.
  intros v c cond p g s tmin tmax Hor Hres Hok Hwf Hwp Hr Ht Hev.
  apply route_covering in Hr as [Hin [Hc [Hd [_ Hri]]]].
  assert (Hq : In g (query_groups c tmin tmax)) by (eapply in_query_groups; eauto).
  assert (Hs : In s (target_group hash v c g cond)).
  { eapply target_group_sound; eauto. unfold wf_cfg in Hwf. rewrite Forall_forall in Hwf. apply Hwf; auto. }
  split; auto. split; auto. unfold target. apply in_flat_map. exists g. split; auto.
  apply (in_map (fun s0 => (g_id g, s_id s0))); auto.
Qed.

Lemma consulted_true : forall v c tmin tmax cond g s,
  In (g_id g, s_id s) (target hash v c tmin tmax cond) -> consulted hash v c tmin tmax cond (g, s) = true.
Proof.
  intros. unfold consulted. apply existsb_exists. exists (g_id g, s_id s). split; auto. simpl.
  rewrite !N.eqb_refl. reflexivity.
Qed.

Lemma answer_is_filter : forall c cond tmin tmax ps,
  wf_cfg c -> Forall wf_point ps -> (forall p, In p ps -> route hash c p <> None) ->
  answer hash repaired c tmin tmax cond ps =
  filter (fun p => (tmin <=? p_time p)%Z && (p_time p <=? tmax)%Z && eval_cond c cond p) ps.
Proof.
  intros c cond tmin tmax ps Hwf Hps Hr. unfold answer. apply filter_ext_in. intros p Hp.
  destruct (route hash c p) as [[g s]|] eqn:Er; [|exfalso; apply (Hr p Hp); auto].
  destruct ((tmin <=? p_time p)%Z && (p_time p <=? tmax)%Z && eval_cond c cond p) eqn:E.
  - apply andb_true_iff in E as [E Hev]. apply andb_true_iff in E as [E1 E2].
    apply Z.leb_le in E1. apply Z.leb_le in E2. rewrite Forall_forall in Hps.
    destruct (prune_sound_gen repaired c cond p g s tmin tmax eq_refl eq_refl (or_introl eq_refl) Hwf (Hps p Hp) Er (conj E1 E2) Hev)
      as [_ [_ Hin]].
    rewrite (consulted_true _ _ _ _ _ _ _ Hin). simpl.
    apply Z.leb_le in E1. apply Z.leb_le in E2. rewrite E1, E2, Hev. reflexivity.
  - rewrite <- !andb_assoc. rewrite <- !andb_assoc in E. rewrite E. apply andb_false_r.
Qed.

Lemma eval_cond_schema : forall c1 c2 cond p, c_tagkeys c1 = c_tagkeys c2 -> eval_cond c1 cond p = eval_cond c2 cond p.
Proof. intros c1 c2 cond p H. unfold eval_cond. rewrite H. reflexivity. Qed.

Theorem answer_invariant : forall c1 c2 cond tmin tmax ps,
  wf_cfg c1 -> wf_cfg c2 -> c_tagkeys c1 = c_tagkeys c2 -> Forall wf_point ps ->
  (forall p, In p ps -> route hash c1 p <> None /\ route hash c2 p <> None) ->
  answer hash repaired c1 tmin tmax cond ps = answer hash repaired c2 tmin tmax cond ps.
Proof.
  intros c1 c2 cond tmin tmax ps H1 H2 Hk Hps Hr.
  rewrite (answer_is_filter c1), (answer_is_filter c2); auto; try (intros p Hp; apply (Hr p Hp)).
  apply filter_ext. intros p. rewrite (eval_cond_schema c1 c2); auto.
Qed.

(* ------------------------------------------------------------------ hint queries (hash sharding) *)
(* the key the hinted read builds from the single tag set (through the write path's own key construction on a pseudo row) is
   the row's key, or there is no key (no pruning) *)
Lemma hint_key_agrees : forall c p ts, wf_point p ->
  (forall k v, In (k, v) ts -> tag_val (p_tags p) k = v) ->
  (c_sk c = [] -> sort_tags ts = p_tags p) ->
  wkey c (hint_point (sort_tags ts)) = None \/ wkey c (hint_point (sort_tags ts)) = wkey c p \/ wkey c p = None.
Proof.
  intros c p ts Hwp Hsat Hfull. unfold wkey. cbn [p_tags hint_point].
  destruct (c_sk c) as [|k0 sk0] eqn:Esk.
  - rewrite (Hfull eq_refl). right; left; reflexivity.
  - destruct (has_adj_dup (sort_tags ts)); [left; reflexivity|].
    destruct (has_adj_dup (p_tags p)); [right; right; reflexivity|].
    destruct (snd (sel_keys (k0 :: sk0) (p_tags p))) eqn:Okp; [|right; right; reflexivity].
    destruct (sel_keys_agree_proof (k0 :: sk0) (p_tags p) ts Hwp Okp Hsat) as [m [_ Hfullk]].
    destruct (snd (sel_keys (k0 :: sk0) (sort_tags ts))) eqn:Okt; [|left; reflexivity].
    right; left. rewrite (Hfullk eq_refl). reflexivity.
Qed.

Theorem hint_prune_sound_proof : forall v c g cond p s,
  v_or v = true -> (v_and v = true \/ match cond with Some e => parser_image e | None => True end) ->
  c_typ c = Hash -> wf_group c g -> wf_point p ->
  (c_sk c = [] -> match cond with
                  | Some e => forall ts, cond_tags v (c_tagkeys c) e = Some [ts] -> sort_tags ts = p_tags p
                  | None => True end) ->
  route_in hash c g p = Some s -> eval_cond c cond p = true ->
  In s (target_hint hash true v c g cond).
Proof.
  intros v c g cond p s Hor Hok Etyp Hwf Hwp Hfull Hr Hev.
  destruct (route_in_all_alive _ _ _ _ Hwf Hr) as [_ Hall].
  unfold target_hint. destruct cond as [e|]; [|exact Hall]. simpl in Hev.
  destruct (cond_tags v (c_tagkeys c) e) as [tss|] eqn:Ect; [|exact Hall].
  destruct tss as [|ts [|ts2 rest]]; try exact Hall.
  assert (Hok' : v_and v = true \/ parser_image e) by (destruct Hok; auto).
  destruct (cond_tags_sound _ _ p _ _ Hor Hok' Ect Hev) as [ts' [[<-|[]] Hsat]].
  assert (Hf : c_sk c = [] -> sort_tags ts = p_tags p).
  { intros E. first [exact (Hfull E ts Ect) | exact (Hfull E ts eq_refl)]. }
  unfold route_in in Hr.
  destruct (hint_key_agrees c p ts Hwp Hsat Hf) as [Hk|[Hk|Hk]].
  - rewrite Hk. exact Hall.
  - rewrite Hk. destruct (wkey c p) as [ps|] eqn:Ew; [|discriminate]. rewrite Etyp in Hr. rewrite Hr. left; reflexivity.
  - rewrite Hk in Hr. discriminate.
Qed.

(* ------------------------------------------------------------------ batch caches, key in force *)
Lemma wf_group_set_sk : forall c sk g, wf_group c g -> wf_group (set_sk c sk) g.
Proof. intros c sk g H. exact H. Qed.

(* the write path and the read path agree on which shard-key definition is in force, for every catalogue: database with or
   without a key, measurement with any key history, every group *)
Lemma key_in_force_agree : forall m gid, wkey_in_force m gid = rkey_in_force m gid.
Proof. intros m gid. unfold wkey_in_force, rkey_in_force, db_key_read. destruct (m_db m); reflexivity. Qed.

(* a database-level key wins over every key of the measurement, on both sides *)
Lemma db_key_wins : forall m gid k ks, m_db m = k :: ks ->
  wkey_in_force m gid = Some (k :: ks) /\ rkey_in_force m gid = Some (k :: ks) /\ c_typ (cfg_at m gid) = Hash.
Proof.
  intros m gid k ks H. unfold wkey_in_force, rkey_in_force, db_key_read, cfg_at, cfg_with, base_cfg. rewrite H. repeat split.
Qed.
Lemma no_db_key : forall m gid, m_db m = [] ->
  wkey_in_force m gid = sk_scan (m_vers m) gid /\ rkey_in_force m gid = sk_scan (m_vers m) gid /\
  c_typ (cfg_at m gid) = c_typ (m_cfg m).
Proof.
  intros m gid H. unfold wkey_in_force, rkey_in_force, db_key_read, cfg_at, cfg_with, base_cfg. rewrite H. repeat split.
Qed.

(* measurement names identify measurements inside a batch (one database: one database-level key) *)
Definition consistent (rows : list brow) : Prop :=
  forall r1 r2, In r1 rows -> In r2 rows -> c_mst (m_cfg (r_m r1)) = c_mst (m_cfg (r_m r2)) ->
                m_vers (r_m r1) = m_vers (r_m r2) /\ m_db (r_m r1) = m_db (r_m r2).
Definition no_drop (rows : list brow) : Prop := forall r, In r rows -> r_kind r = RRoute.
(* the remembered shard key is the one in force for the remembered measurement and group *)
Definition cache_inv (all : list brow) (st : bstate) : Prop :=
  forall n g, b_mst st = Some n -> b_sg st = Some g ->
  forall r, In r all -> c_mst (m_cfg (r_m r)) = n -> wkey_in_force (r_m r) (g_id g) = b_sk st.

Lemma cache_inv_empty : forall all, cache_inv all b_empty.
Proof. intros all n g H. discriminate. Qed.

Lemma base_cfg_mst : forall m, c_mst (base_cfg m) = c_mst (m_cfg m).
Proof. intros m. unfold base_cfg. destruct (m_db m); reflexivity. Qed.
Lemma base_cfg_groups : forall m, c_groups (base_cfg m) = c_groups (m_cfg m).
Proof. intros m. unfold base_cfg. destruct (m_db m); reflexivity. Qed.
Lemma base_cfg_tagkeys : forall m, c_tagkeys (base_cfg m) = c_tagkeys (m_cfg m).
Proof. intros m. unfold base_cfg. destruct (m_db m); reflexivity. Qed.

Lemma wkey_in_force_ext : forall m1 m2 gid, m_vers m1 = m_vers m2 -> m_db m1 = m_db m2 ->
  wkey_in_force m1 gid = wkey_in_force m2 gid.
Proof. intros m1 m2 gid H1 H2. unfold wkey_in_force. rewrite H1, H2. reflexivity. Qed.

Lemma batch_step_transparent : forall all st r,
  consistent all -> In r all -> r_kind r = RRoute -> cache_inv all st ->
  batch_step hash true st r = batch_step hash false st r /\ cache_inv all (fst (batch_step hash false st r)).
Proof.
  intros all st r Hc Hin Hk Hinv. unfold batch_step. rewrite Hk. rewrite !base_cfg_mst, !base_cfg_groups.
  destruct (pick_group (b_sg st) (c_groups (m_cfg (r_m r))) (p_time (r_p r))) as [g|] eqn:Ep.
  - assert (Hsk : (if true && (match b_sg st with Some g0 => g_contains g0 (p_time (r_p r)) | None => false end && b_asis st) &&
                      match b_mst st with Some n => str_eqb n (c_mst (m_cfg (r_m r))) | None => false end
                   then b_sk st else wkey_in_force (r_m r) (g_id g)) = wkey_in_force (r_m r) (g_id g)).
    { destruct (b_sg st) as [g0|] eqn:Eg; simpl; auto.
      destruct (g_contains g0 (p_time (r_p r))) eqn:Ec; simpl; auto.
      destruct (b_asis st); simpl; auto.
      destruct (b_mst st) as [n|] eqn:Em; auto.
      destruct (str_eqb n (c_mst (m_cfg (r_m r)))) eqn:En; auto.
      apply str_eqb_eq in En. unfold pick_group in Ep. rewrite Ec in Ep. inversion Ep; subst g0.
      symmetry. apply (Hinv n g Em Eg r Hin). auto. }
    rewrite Hsk. simpl (false && _ && _). cbv iota. split; [reflexivity|].
    unfold cache_inv.
    destruct (wkey_in_force (r_m r) (g_id g)) as [k|] eqn:Es;
      [destruct (wkey (set_sk (base_cfg (r_m r)) k) (r_p r))|]; cbn [fst b_mst b_sg b_sk];
      intros n g' Hn Hg r' Hin' Hname; injection Hn as Hn; injection Hg as Hg; subst n g';
      destruct (Hc r' r Hin' Hin Hname) as [Hv Hd]; rewrite (wkey_in_force_ext _ _ _ Hv Hd); auto.
  - split; [reflexivity|]. unfold cache_inv. cbn [fst b_mst b_sg b_sk]. intros n g' _ Hg. discriminate.
Qed.

(* with no row dropped between the measurement lookup and the routing step, remembering the shard key is invisible *)
Theorem batch_cache_transparent_proof : forall all, consistent all -> no_drop all ->
  forall rows st, incl rows all -> cache_inv all st -> batch_run hash true st rows = batch_run hash false st rows.
Proof.
  intros all Hc Hnd. induction rows as [|r rows IH]; intros st Hi Hinv; [reflexivity|].
  assert (Hin : In r all) by (apply Hi; left; reflexivity).
  destruct (batch_step_transparent all st r Hc Hin (Hnd r Hin) Hinv) as [Heq Hinv'].
  simpl. rewrite Heq. f_equal. apply IH; auto. intros x Hx. apply Hi. right; exact Hx.
Qed.

(* without the shard-key cache a batch row is routed like a single row, in the remembered group or the catalogue's, by
   the shard key in force (database's, else the measurement's for that group) - which is the key the read side uses *)
Theorem batch_uncached_is_route_proof : forall st r g s,
  snd (batch_step hash false st r) = Some (g, s) ->
  r_kind r = RRoute /\ pick_group (b_sg st) (c_groups (m_cfg (r_m r))) (p_time (r_p r)) = Some g /\
  wkey_in_force (r_m r) (g_id g) <> None /\ route_in hash (cfg_at (r_m r) (g_id g)) g (r_p r) = Some s.
Proof.
  intros st r g s. unfold batch_step. rewrite !base_cfg_mst, !base_cfg_groups. destruct (r_kind r); simpl; [|discriminate|discriminate].
  destruct (pick_group (b_sg st) (c_groups (m_cfg (r_m r))) (p_time (r_p r))) as [g0|] eqn:Ep; simpl; [|discriminate].
  destruct (wkey_in_force (r_m r) (g_id g0)) as [k|] eqn:Es; simpl; [|discriminate].
  destruct (wkey (set_sk (base_cfg (r_m r)) k) (r_p r)) as [ps|] eqn:Ew; simpl; [|discriminate].
  destruct (route_in hash (set_sk (base_cfg (r_m r)) k) g0 (r_p r)) as [s0|] eqn:Er; [|discriminate].
  intros H. inversion H; subst. repeat split; auto.
  - rewrite Es; discriminate.
  - unfold cfg_at, cfg_with. rewrite <- key_in_force_agree, Es. exact Er.
Qed.

Theorem batch_prune_sound_proof : forall v st r g s cond,
  v_or v = true -> v_reset v = true ->
  (v_and v = true \/ match cond with Some e => parser_image e | None => True end) ->
  wf_group (base_cfg (r_m r)) g -> wf_point (r_p r) ->
  snd (batch_step hash false st r) = Some (g, s) -> eval_cond (m_cfg (r_m r)) cond (r_p r) = true ->
  In s (target_group hash v (cfg_at (r_m r) (g_id g)) g cond).
Proof.
  intros v st r g s cond Hor Hres Hok Hwf Hwp H Hev.
  apply batch_uncached_is_route_proof in H as [_ [_ [_ Hr]]].
  eapply target_group_sound; eauto.
  unfold eval_cond in *. unfold cfg_at, cfg_with. cbn [c_tagkeys set_sk]. rewrite base_cfg_tagkeys. exact Hev.
Qed.

Lemma target_m_in : forall v m tmin tmax cond g s,
  In g (query_groups (m_cfg m) tmin tmax) -> In s (target_group hash v (cfg_at m (g_id g)) g cond) ->
  In (g_id g, s_id s) (target_m hash v true m tmin tmax cond).
Proof.
  intros. unfold target_m. apply in_flat_map. exists g. split; auto.
  apply (in_map (fun s0 => (g_id g, s_id s0))); auto.
Qed.

(* today's rule for the key in force IS mapMstShards with the per-group key *)
Lemma target_m_by_rkey : forall v m tmin tmax cond,
  target_m_by hash rkey_in_force v m tmin tmax cond = target_m hash v true m tmin tmax cond.
Proof. intros. reflexivity. Qed.
End Loop.

(* ------------------------------------------------------------------ shard-group spans *)
Open Scope Z_scope.
Lemma span_covers : forall t d, 0 < d -> t <= max_nano -> fst (span_of t d) <= t < snd (span_of t d).
Proof.
  intros t d Hd Ht. unfold span_of, trunc. cbn [fst snd]. destruct (d <=? 0) eqn:E; [apply Z.leb_le in E; lia|].
  pose proof (Z.mod_pos_bound (t + epoch_shift) d Hd) as Hm.
  match goal with |- context [if ?b then _ else _] => destruct b eqn:E2 end; lia.
Qed.

Lemma span_aligned : forall t d, 0 < d -> (fst (span_of t d) + epoch_shift) mod d = 0.
Proof.
  intros t d Hd. unfold span_of, trunc. cbn [fst snd]. destruct (d <=? 0) eqn:E; [apply Z.leb_le in E; lia|].
  replace (t - (t + epoch_shift) mod d + epoch_shift) with ((t + epoch_shift) - (t + epoch_shift) mod d) by lia.
  set (X := t + epoch_shift).
  assert (HX : X - X mod d = (X / d) * d) by (pose proof (Z_div_mod_eq_full X d); lia).
  rewrite HX. apply Z.mod_mul. lia.
Qed.

Lemma span_same : forall t t' d, 0 < d -> fst (span_of t d) <= t' < fst (span_of t d) + d ->
  fst (span_of t' d) = fst (span_of t d).
Proof.
  intros t t' d Hd H. pose proof (span_aligned t d Hd) as Ha. set (s := fst (span_of t d)) in *.
  unfold span_of, trunc. cbn [fst snd]. destruct (d <=? 0) eqn:E; [apply Z.leb_le in E; lia|].
  apply Z.mod_divide in Ha; [|lia]. destruct Ha as [q Hq].
  replace (t' + epoch_shift) with ((t' - s) + q * d) by lia.
  rewrite Z_mod_plus_full. rewrite Z.mod_small by lia. lia.
Qed.
