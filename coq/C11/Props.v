(* C11 property theorems. Nothing but statements closed by `exact lemma`, Print Assumptions, and non-vacuity Examples. *)
From Coq Require Import ZArith NArith List Bool.
From OG Require Import C11.Model C11.Proofs C11.ProofsRange C11.ProofsBuilders C11.ProofsSpan.
Import ListNotations.
Open Scope Z_scope.

(* Write side. A routed point is stored in exactly one shard; that shard belongs to a live group of the catalogue whose
   half-open span contains the timestamp; the result is a function of the catalogue and the point, and inside the group
   it depends on the point only through its shard-key pairs (any other point of the group with the same pairs goes to
   the same shard). For every hash function. *)
Theorem route_unique_covering : forall (hash : str -> N) c p g s,
  route hash c p = Some (g, s) ->
  (In g (c_groups c) /\ g_start g <= p_time p < g_end g /\ g_deleted g = false /\ In s (g_shards g))
  /\ (forall g' s', route hash c p = Some (g', s') -> g' = g /\ s' = s)
  /\ (forall p', find_group (c_groups c) (p_time p') = Some g -> wkey c p' = wkey c p -> route hash c p' = Some (g, s)).
Proof. exact route_unique_covering_proof. Qed.
Print Assumptions route_unique_covering.

(* The batch fast path (the group of the previous row is reused when its span contains the timestamp): the row is still
   stored in one shard of a group whose half-open span contains the timestamp; the group is the cached one or the
   catalogue's. *)
Theorem route_cached_covering : forall (hash : str -> N) cache c p g s,
  route_cached hash cache c p = Some (g, s) ->
  g_start g <= p_time p < g_end g /\ In s (g_shards g) /\ (cache = Some g \/ route hash c p = Some (g, s)).
Proof. exact route_cached_covering_proof. Qed.
Print Assumptions route_cached_covering.

(* Existence. A row as the line-protocol parser delivers it (tag keys strictly ascending) that carries every shard-key tag
   (shard key sorted, as CreateMeasurement stores it), with a timestamp up to MaxNanoTime and a positive group duration,
   HAS a route once CreateShardGroup has run: a writable group containing the timestamp exists (the old one or the new
   [trunc(t,d), +d)), and in it a shard is chosen - hash: non-empty index list with indexes in range; range: key ranges
   that start and end open and share their bounds. Together with route_unique_covering: exactly one shard. *)
Theorem route_total : forall (hash : str -> N) c p gid shards alive,
  0 < c_dur c -> p_time p <= max_nano ->
  keys_sorted (map fst (p_tags p)) -> keys_sorted (c_sk c) -> (forall k, In k (c_sk c) -> In k (map fst (p_tags p))) ->
  (forall g, In g (c_groups (ensure_group c (p_time p) gid shards alive)) -> wf_route c g) ->
  exists g s, route hash (ensure_group c (p_time p) gid shards alive) p = Some (g, s).
Proof. exact route_total_proof. Qed.
Print Assumptions route_total.

(* sorted rows satisfy the hypothesis of the pruning theorems and pass the duplicate check of the write path *)
Theorem sorted_row_is_wf : forall p, keys_sorted (map fst (p_tags p)) -> wf_point p /\ has_adj_dup (p_tags p) = false.
Proof. intros p H. split; [exact (sorted_nodup _ H)|exact (sorted_no_adj_dup _ H)]. Qed.

(* Write side and read side build the same key, for every shard-key definition: from any tag set the row satisfies -
   duplicate keys allowed, the sorted merge takes the first value per key - the read side selects a prefix of the pairs
   the write side selected, and all of them when every shard-key tag is constrained. A tag set with two different
   values for one key is satisfied by no row. *)
Theorem key_construction_agrees : forall sk tags ts,
  NoDup (map fst tags) -> snd (sel_keys sk tags) = true ->
  (forall k v, In (k, v) ts -> tag_val tags k = v) ->
  exists m, fst (sel_keys sk (sort_tags ts)) = firstn m (fst (sel_keys sk tags)) /\
            (snd (sel_keys sk (sort_tags ts)) = true -> fst (sel_keys sk (sort_tags ts)) = fst (sel_keys sk tags)).
Proof. exact sel_keys_agree_proof. Qed.
Theorem contradictory_alternative_matches_no_row : forall tags ts k v1 v2,
  In (k, v1) ts -> In (k, v2) ts -> v1 <> v2 -> ~ (forall k' v, In (k', v) ts -> tag_val tags k' = v).
Proof. exact contradictory_alternative_unsat. Qed.
Print Assumptions key_construction_agrees.

(* The group created for a timestamp: [trunc(t,d), +d) with Go's year-1 anchored Truncate; it contains t, its start is
   a multiple of d counted from year 1, and every instant of the span is mapped to the same span (created groups of one
   duration tile the time line: two of them are equal or disjoint). *)
Theorem group_span_covers : forall t d, 0 < d -> t <= max_nano -> fst (span_of t d) <= t < snd (span_of t d).
Proof. exact span_covers. Qed.
Theorem group_span_aligned : forall t d, 0 < d -> (fst (span_of t d) + epoch_shift) mod d = 0.
Proof. exact span_aligned. Qed.
Theorem group_span_partition : forall t t' d, 0 < d ->
  fst (span_of t d) <= t' < fst (span_of t d) + d -> fst (span_of t' d) = fst (span_of t d).
Proof. exact span_same. Qed.
Print Assumptions group_span_partition.
(* ... the created spans are ordered like the timestamps, and two of them with different starts are disjoint - the end
   clipped at MaxNanoTime + 1 included; equal starts give equal spans *)
Theorem group_span_monotone : forall t1 t2 d, 0 < d -> t1 <= t2 -> fst (span_of t1 d) <= fst (span_of t2 d).
Proof. exact span_monotone. Qed.
Print Assumptions group_span_monotone.
Theorem group_span_disjoint : forall t1 t2 d, 0 < d -> fst (span_of t1 d) <> fst (span_of t2 d) ->
  snd (span_of t1 d) <= fst (span_of t2 d) \/ snd (span_of t2 d) <= fst (span_of t1 d).
Proof. exact span_disjoint. Qed.
Print Assumptions group_span_disjoint.
Theorem group_span_start_determines : forall t1 t2 d, fst (span_of t1 d) = fst (span_of t2 d) -> span_of t1 d = span_of t2 d.
Proof. exact span_start_determines. Qed.
Print Assumptions group_span_start_determines.

(* Read side, repaired getConditionTags / TargetShards (OR with an unconstrained operand = unconstrained, AND = cross
   product, key buffer reset per alternative): for every hash function, catalogue, condition tree, time range and
   row: if the write path stored the row in shard s of group g and the row satisfies the query, then g is among the
   groups selected by the time range and s is among the shards TargetShards returns for g. *)
Theorem C11_prune_sound : forall (hash : str -> N) c cond p g s tmin tmax,
  wf_cfg c -> wf_point p ->
  route hash c p = Some (g, s) -> tmin <= p_time p <= tmax -> eval_cond c cond p = true ->
  In g (query_groups c tmin tmax) /\ In s (target_group hash repaired c g cond) /\
  In (g_id g, s_id s) (target hash repaired c tmin tmax cond).
Proof.
  intros hash c cond p g s tmin tmax.
  exact (prune_sound_gen hash repaired c cond p g s tmin tmax eq_refl eq_refl (or_introl eq_refl)).
Qed.
Print Assumptions C11_prune_sound.

(* The same with today's AND (every right alternative appended to each left set) as long as the condition is in the
   image of the InfluxQL grammar (an AND never has a bare OR operand): the AND repair is not needed for conditions a
   query can produce. This is the variant props/C11/fix.patch implements. *)
Theorem C11_prune_sound_parser_image : forall (hash : str -> N) c e p g s tmin tmax,
  wf_cfg c -> wf_point p -> parser_image e ->
  route hash c p = Some (g, s) -> tmin <= p_time p <= tmax -> eval_cond c (Some e) p = true ->
  In g (query_groups c tmin tmax) /\
  In s (target_group hash {| v_or := true; v_and := false; v_reset := true |} c g (Some e)) /\
  In (g_id g, s_id s) (target hash {| v_or := true; v_and := false; v_reset := true |} c tmin tmax (Some e)).
Proof.
  intros hash c e p g s tmin tmax Hc Hp Hi.
  exact (prune_sound_gen hash {| v_or := true; v_and := false; v_reset := true |} c (Some e) p g s tmin tmax
           eq_refl eq_refl (or_intror Hi) Hc Hp).
Qed.
Print Assumptions C11_prune_sound_parser_image.

(* Corollary: the rows a query returns out of any set of stored rows do not depend on how the data is spread: two
   catalogues with the same schema (any partition counts, group layouts, alive sets, hash or range sharding) give the
   same answer, namely the stored rows that satisfy the time range and the condition. *)
Theorem partition_count_invariant : forall (hash : str -> N) c1 c2 cond tmin tmax ps,
  wf_cfg c1 -> wf_cfg c2 -> c_tagkeys c1 = c_tagkeys c2 -> Forall wf_point ps ->
  (forall p, In p ps -> route hash c1 p <> None /\ route hash c2 p <> None) ->
  answer hash repaired c1 tmin tmax cond ps = answer hash repaired c2 tmin tmax cond ps.
Proof. exact answer_invariant. Qed.
Print Assumptions partition_count_invariant.

Theorem answer_is_the_matching_rows : forall (hash : str -> N) c cond tmin tmax ps,
  wf_cfg c -> Forall wf_point ps -> (forall p, In p ps -> route hash c p <> None) ->
  answer hash repaired c tmin tmax cond ps =
  filter (fun p => (tmin <=? p_time p) && (p_time p <=? tmax) && eval_cond c cond p) ps.
Proof. exact answer_is_filter. Qed.
Print Assumptions answer_is_the_matching_rows.

(* ------------------------------------------------------------------ write batches, several measurements, key history *)
(* One ingestion context serves a whole batch and remembers the previous row's shard group, measurement and shard-key
   definition. If no row is dropped between the measurement lookup and the routing step, remembering the shard key is
   invisible: every row is mapped exactly as if its own measurement's key were looked up for it. Rows of any number of
   measurements with any shard keys, in any order and any groups. *)
Theorem batch_cache_transparent : forall (hash : str -> N) all, consistent all -> no_drop all ->
  forall rows st, incl rows all -> cache_inv all st -> batch_run hash true st rows = batch_run hash false st rows.
Proof. exact batch_cache_transparent_proof. Qed.
Print Assumptions batch_cache_transparent.

Theorem batch_starts_consistent : forall all, cache_inv all b_empty.
Proof. exact cache_inv_empty. Qed.

(* with the key looked up per row, a batch row is routed as a single row: into the remembered group if its span contains
   the timestamp, else the catalogue's, by the shard key in force for the row's database, measurement and that group *)
Theorem batch_uncached_is_route : forall (hash : str -> N) st r g s,
  snd (batch_step hash false st r) = Some (g, s) ->
  r_kind r = RRoute /\ pick_group (b_sg st) (c_groups (m_cfg (r_m r))) (p_time (r_p r)) = Some g /\
  wkey_in_force (r_m r) (g_id g) <> None /\ route_in hash (cfg_at (r_m r) (g_id g)) g (r_p r) = Some s.
Proof. exact batch_uncached_is_route_proof. Qed.

(* ... and pruning with the key in force for the row's group (per-group key in mapMstShards) finds it *)
Theorem batch_prune_sound : forall (hash : str -> N) st r g s cond,
  wf_group (base_cfg (r_m r)) g -> wf_point (r_p r) ->
  snd (batch_step hash false st r) = Some (g, s) -> eval_cond (m_cfg (r_m r)) cond (r_p r) = true ->
  In s (target_group hash repaired (cfg_at (r_m r) (g_id g)) g cond) /\
  (forall tmin tmax, In g (query_groups (m_cfg (r_m r)) tmin tmax) ->
                     In (g_id g, s_id s) (target_m hash repaired true (r_m r) tmin tmax cond)).
Proof.
  intros hash st r g s cond Hwf Hwp H Hev.
  pose proof (batch_prune_sound_proof hash repaired st r g s cond eq_refl eq_refl (or_introl eq_refl) Hwf Hwp H Hev) as Hs.
  split; [exact Hs|]. intros tmin tmax Hq. apply target_m_in; auto.
Qed.
Print Assumptions batch_prune_sound.

(* ------------------------------------------------------------------ database-level and measurement-level shard keys *)
(* Which shard-key definition is in force is decided in two places: the write path (updateShardGroupAndShardKey: the
   database's key if it has one, else the measurement's key for the row's group) and the read path (getTargetShardMsg +
   mapMstShards). They are the SAME function of the catalogue - any database key, any key history of the measurement, any
   group. (batch_prune_sound above is proved through this equation; the precedence "measurement first" is refuted.) *)
Theorem key_in_force_write_eq_read : forall m gid, wkey_in_force m gid = rkey_in_force m gid.
Proof. exact key_in_force_agree. Qed.
Print Assumptions key_in_force_write_eq_read.

(* a database-level key overrides every key of the measurement on both sides, and such a key is hashed *)
Theorem database_key_overrides : forall m gid k ks, m_db m = k :: ks ->
  wkey_in_force m gid = Some (k :: ks) /\ rkey_in_force m gid = Some (k :: ks) /\ c_typ (cfg_at m gid) = Hash.
Proof. exact db_key_wins. Qed.
Theorem without_database_key : forall m gid, m_db m = [] ->
  wkey_in_force m gid = sk_scan (m_vers m) gid /\ rkey_in_force m gid = sk_scan (m_vers m) gid /\
  c_typ (cfg_at m gid) = c_typ (m_cfg m).
Proof. exact no_db_key. Qed.

(* ------------------------------------------------------------------ range sharding after re-sharding *)
(* A range-sharded group whose key ranges tile the key space (range_chain: first Min open, each Max = the next Min and
   strictly above its own Min, last Max open): DestShard returns a shard for EVERY key, that shard's half-open range
   [Min, Max) contains the key, and no other shard of the group contains it - a key equal to a split point belongs to the
   shard that STARTS there. *)
Theorem range_dest_shard_unique : forall g key, range_chain [] (g_shards g) ->
  exists s, dest_shard key g = Some s /\ In s (g_shards g) /\ contain s key = true /\
            forall s', In s' (g_shards g) -> contain s' key = true -> s' = s.
Proof. exact range_dest_unique_proof. Qed.
Print Assumptions range_dest_shard_unique.

(* Such groups are what the catalogue operations produce: CreateShardGroupWithBounds (Data.ReSharding) with non-empty,
   strictly increasing split points, and CreateShardGroup afterwards (one shard owning everything for the first group of a
   policy, else the ranges of the newest group). *)
Theorem range_chain_resharded : forall g bounds,
  bounds_sorted [] bounds -> shard_ranges g = ranges_of [] bounds -> range_chain [] (g_shards g).
Proof. exact range_chain_resharded_proof. Qed.
Theorem range_chain_created : forall existing g,
  Forall (fun x => range_chain [] (g_shards x)) existing -> shard_ranges g = created_ranges existing ->
  range_chain [] (g_shards g).
Proof. exact range_chain_created_proof. Qed.
Print Assumptions range_chain_created.

(* ... and such groups satisfy the route-existence premise of route_total: every accepted row of a range-sharded
   measurement has a shard in them *)
Theorem range_chain_is_wf_route : forall c g, c_typ c = Range -> range_chain [] (g_shards g) -> wf_route c g.
Proof. intros c g Ht H. unfold wf_route. rewrite Ht. apply range_chain_covers. exact H. Qed.

(* Read side, range sharding: for every alternative (tag set) the condition yields, EVERY shard of the group whose range
   holds some key extending the prefix built from that alternative (measurement name + the leading shard-key pairs the
   alternative binds) is consulted. With C11_prune_sound: the shard of every matching row is among them. *)
Theorem range_candidates_consulted : forall (hash : str -> N) c g e tss ts s rest,
  c_typ c = Range ->
  cond_tags repaired (c_tagkeys c) e = Some tss -> In ts tss -> In s (g_shards g) ->
  (forall i, (i < length (g_shards g))%nat -> In i (g_alive g)) ->
  contain s ((c_mst c ++ key_suffix (fst (sel_keys (c_sk c) (sort_tags ts)))) ++ rest) = true ->
  In s (target_group hash repaired c g (Some e)).
Proof. intros hash c g e tss ts s rest. exact (range_candidates_consulted_proof hash repaired c g e tss ts s rest eq_refl). Qed.
Print Assumptions range_candidates_consulted.

(* Hint queries (full_series), hash sharding, repaired key construction (the measurement's shard-key tags are selected from
   the single tag set, no pruning if one is not bound): the shard of every row satisfying the condition is consulted. A
   measurement without a shard key hashes name + all tags: sound when the tag set is the row's full tag set, which is what
   the hint asserts. *)
Theorem C11_hint_prune_sound : forall (hash : str -> N) c g cond p s,
  c_typ c = Hash -> wf_group c g -> wf_point p ->
  (c_sk c = [] -> match cond with
                  | Some e => forall ts, cond_tags repaired (c_tagkeys c) e = Some [ts] -> sort_tags ts = p_tags p
                  | None => True end) ->
  route_in hash c g p = Some s -> eval_cond c cond p = true ->
  In s (target_hint hash true repaired c g cond).
Proof.
  intros hash c g cond p s.
  exact (hint_prune_sound_proof hash repaired c g cond p s eq_refl (or_introl eq_refl)).
Qed.
Print Assumptions C11_hint_prune_sound.

(* Hint queries, hash AND range sharding, full_series AND specific_series, with the range repair (the key is looked up by
   key range when the measurement is range-sharded, as the write path does): the shard of every row the hinted query
   promises to return is consulted. *)
Theorem C11_hint_kind_prune_sound : forall (hash : str -> N) c g cond p s specific,
  wf_group c g -> wf_point p ->
  (c_sk c = [] -> match cond with
                  | Some e => forall ts, cond_tags repaired (c_tagkeys c) e = Some [ts] -> sort_tags ts = p_tags p
                  | None => True end) ->
  route_in hash c g p = Some s -> eval_cond c cond p = true ->
  In s (target_hint_kind hash specific true repaired c g cond).
Proof.
  intros hash c g cond p s specific.
  exact (hint_kind_sound_proof hash repaired c g cond p s specific eq_refl (or_introl eq_refl)).
Qed.
Print Assumptions C11_hint_kind_prune_sound.

(* ------------------------------------------------------------------ the other shard-key builders of the write path *)
(* Column-store rows (UnmarshalShardKeyByField), rows with a column index (UnmarshalShardKeyByTagOp), stream results
   (UnmarshalShardKeyByDimOrTag): for a non-empty key each of them selects exactly the key's columns, in key order, each from
   the row's tags or fields - whatever the order of the row's tags. *)
Theorem builders_select_the_key_columns : forall b sk r ps, sk <> [] -> build_key b sk r = Some ps ->
  map fst ps = sk /\ forall x, In x ps -> In x (x_tags r) \/ In x (x_fields r).
Proof. exact build_key_spec. Qed.

(* WRITE-SIDE KEY = READ-SIDE KEY for any such selection ps: from a tag set ts of the condition that names schema tags only and
   that the row satisfies, the read side builds a PREFIX of ps, and ps itself when every key column is bound; key columns that
   are not tags of the row are not tags of the schema (so the condition cannot bind them and no shard is selected by hash). *)
Theorem builder_key_agrees : forall (tagkeys sk : list str) (tags ps ts : tagset),
  NoDup (map fst tags) -> map fst ps = sk ->
  (forall x, In x ps -> In x tags \/ mem_str (fst x) tagkeys = false) ->
  (forall x, In x ts -> mem_str (fst x) tagkeys = true) ->
  (forall k v, In (k, v) ts -> tag_val tags k = v) ->
  exists m, fst (sel_keys sk (sort_tags ts)) = firstn m ps /\
            (snd (sel_keys sk (sort_tags ts)) = true -> fst (sel_keys sk (sort_tags ts)) = ps).
Proof. exact builder_key_agrees_proof. Qed.
Print Assumptions builder_key_agrees.

(* ... hence pruning (repaired reading) consults the shard of every row routed through one of these builders that satisfies the
   query: hash and range sharding, any key, any row whose fields are not schema tags. *)
Theorem C11_builders_prune_sound : forall (hash : str -> N) b c g cond r p s,
  wf_group c g -> wf_point p -> p_tags p = x_tags r ->
  (forall x, In x (x_fields r) -> mem_str (fst x) (c_tagkeys c) = false) ->
  route_in_x hash b c g r = Some s -> eval_cond c cond p = true ->
  In s (target_group hash repaired c g cond).
Proof.
  intros hash b c g cond r p s.
  exact (builders_prune_sound_proof hash repaired b c g cond r p s eq_refl eq_refl (or_introl eq_refl)).
Qed.
Print Assumptions C11_builders_prune_sound.

(* Stream destinations placed with the SOURCE row's key bytes (routeAndCalculateStreamRows cases 2 and 3, hash sharding): pruning
   on the destination finds the result row if the destination has no key in force, or has the SAME key in force as the source and
   the result row carries the same key pairs. (Another key on the destination: Refuted.C11_stream_reuse_other_key_refuted.) *)
Theorem stream_reuse_prune_sound : forall (hash : str -> N) csrc cdst g cond psrc pdst s,
  c_typ cdst = Hash -> wf_group cdst g -> wf_point pdst ->
  (c_sk cdst = [] \/ (c_sk csrc = c_sk cdst /\ wkey cdst pdst = wkey csrc psrc)) ->
  route_reuse hash csrc cdst g psrc = Some s -> eval_cond cdst cond pdst = true ->
  In s (target_group hash repaired cdst g cond).
Proof.
  intros hash csrc cdst g cond psrc pdst s.
  exact (stream_reuse_prune_sound_proof hash repaired csrc cdst g cond psrc pdst s eq_refl eq_refl (or_introl eq_refl)).
Qed.
Print Assumptions stream_reuse_prune_sound.

(* ------------------------------------------------------------------ partitions going offline between write and read *)
(* The alive shard list (GetAliveShards) is evaluated when a row is written (list aw) and again when a query runs (list ar).
   1. Hash sharding consults only shards that are alive when the query runs: if the owner of a row is offline then, it is
      not consulted - the shard at position (hash mod |ar|) of the read-time list is. *)
Theorem consulted_are_alive : forall (hash : str -> N) v c g cond s,
  c_typ c = Hash -> wf_group c g -> In s (target_group hash v c g cond) -> In s (all_alive g).
Proof. exact consulted_are_alive_proof. Qed.
(* 2. Pruning finds every matching row as long as the index list hashed over is the same at write and at read time (always
      under range sharding; under hash sharding e.g. a measurement with its own shard list, or no change of partition
      status). When the list changed, today's code can skip an ONLINE shard that holds a match:
      Refuted.C11_alive_set_change_refuted. *)
Theorem prune_sound_alive_change : forall (hash : str -> N) c cond p g aw ar s,
  wf_group c (set_alive g ar) -> wf_point p ->
  (c_typ c = Range \/ eff_idx c (set_alive g aw) = eff_idx c (set_alive g ar)) ->
  route_in hash c (set_alive g aw) p = Some s -> eval_cond c cond p = true ->
  In s (target_group hash repaired c (set_alive g ar) cond).
Proof.
  intros hash c cond p g aw ar s.
  exact (prune_sound_alive_change_proof hash repaired c cond p g aw ar s eq_refl eq_refl (or_introl eq_refl)).
Qed.
Print Assumptions prune_sound_alive_change.

(* 3. Hard-write (writes hash over every shard of the group): with the read side repaired to look the key up in that same
      list and then keep the alive shards (target_group_hw, props/C11/fix5.patch), a row whose own shard is alive when the query
      runs is found - for EVERY alive list at query time: other partitions going offline or coming back cannot hide it. *)
Theorem hard_write_prune_sound : forall (hash : str -> N) c cond p g s,
  wf_group c (set_alive g (full_list g)) -> wf_point p ->
  route_in hash c (set_alive g (full_list g)) p = Some s -> In s (all_alive g) -> eval_cond c cond p = true ->
  In s (target_group_hw hash repaired c g cond) /\ (forall s', In s' (target_group_hw hash repaired c g cond) -> is_alive_b g s' = true).
Proof.
  intros hash c cond p g s Hwf Hwp Hr Hal Hev. split.
  - exact (hard_write_prune_sound_proof hash repaired c cond p g s eq_refl eq_refl (or_introl eq_refl) Hwf Hwp Hr Hal Hev).
  - intros s'. apply target_group_hw_alive.
Qed.
Print Assumptions hard_write_prune_sound.

(* ------------------------------------------------------------------ non-vacuity: the hypotheses are satisfiable *)
Definition B (l : list N) : str := l.
Definition s_host : str := [104; 111; 115; 116]%N.
Definition s_dc : str := [100; 99]%N.
Definition s_cpu : str := [99; 112; 117; 95; 48; 48; 48; 48]%N.
Definition mk_shards (n : nat) : list shard := map (fun i => {| s_id := N.of_nat (S i); s_min := []; s_max := [] |}) (seq 0 n).
Definition ex_group : group :=
  {| g_id := 1%N; g_start := 1699999200000000000; g_end := 1700002800000000000; g_deleted := false; g_trunc := None;
     g_shards := mk_shards 8; g_alive := seq 0 8 |}.
Definition ex_cfg : cfg :=
  {| c_mst := s_cpu; c_tagkeys := [s_dc; s_host]; c_sk := [s_host]; c_typ := Hash; c_dur := 3600000000000; c_groups := [ex_group]; c_mstidx := None |}.
Definition ex_point (v : N) (other : bool) : point :=
  {| p_tags := [(s_host, [v])]; p_time := 1699999200000000003; p_leaf := fun _ => other |}.
(* host = 'a' OR usage > 1 *)
Definition ex_cond : expr := EOr (EEq 0%N s_host [97%N]) (EOther 1%N).

Example ex_wf : wf_cfg ex_cfg /\ wf_point (ex_point 100 true).
Proof.
  split.
  - unfold wf_cfg. simpl. constructor; [|constructor]. unfold wf_group. simpl. apply incl_refl.
  - unfold wf_point. simpl. constructor; [intros []|constructor].
Qed.

(* host=d is stored in shard 4 (as on the real code), satisfies the condition through the field comparison, and the
   repaired read path consults all eight shards *)
Example ex_routed_and_found :
  option_map (fun gs => (g_id (fst gs), s_id (snd gs))) (route xxh64 ex_cfg (ex_point 100 true)) = Some (1%N, 4%N) /\
  eval_cond ex_cfg (Some ex_cond) (ex_point 100 true) = true /\
  target xxh64 repaired ex_cfg 0 max_nano (Some ex_cond) = map (fun i => (1%N, N.of_nat (S i))) (seq 0 8).
Proof. vm_compute. repeat split. Qed.

(* pruning does happen under the repaired reading: host = 'a' alone consults one shard, and it is the one host=a is in *)
Example ex_pruned :
  target xxh64 repaired ex_cfg 0 max_nano (Some (EEq 0%N s_host [97%N])) = [(1%N, 5%N)] /\
  option_map (fun gs => s_id (snd gs)) (route xxh64 ex_cfg (ex_point 97 false)) = Some 5%N.
Proof. vm_compute. split; reflexivity. Qed.

(* Go's Truncate is anchored at year 1: a 7-day group containing 2023-11-14T22:13:20Z starts on Monday 2023-11-13,
   not on the Thursday an epoch-anchored truncation would give *)
Example ex_week_anchor :
  span_of 1700000000000000000 604800000000000 = (1699833600000000000, 1700438400000000000) /\
  1700000000000000000 - 1700000000000000000 mod 604800000000000 = 1699488000000000000.
Proof. vm_compute. split; reflexivity. Qed.

(* the hypotheses of route_total hold for the example catalogue and row, and the route is the observed one *)
Example ex_route_total_hyps :
  0 < c_dur ex_cfg /\ keys_sorted (map fst (p_tags (ex_point 100 true))) /\ keys_sorted (c_sk ex_cfg) /\
  (forall g, In g (c_groups (ensure_group ex_cfg (p_time (ex_point 100 true)) 2%N (mk_shards 8) (seq 0 8))) -> wf_route ex_cfg g).
Proof.
  split; [reflexivity|]. split; [repeat constructor|]. split; [repeat constructor|].
  intros g [<-|[]]. unfold wf_route. simpl. split; [discriminate|]. repeat constructor.
Qed.

(* range sharding after re-sharding at the shard keys of host=h2 and host=h5: the split points are non-empty and strictly
   increasing, the three shards tile the key space, the series host=h2 - whose key EQUALS the first split point - is
   stored in the shard that starts there (shard 3), and the query host='h2' consults exactly that shard *)
Definition s_k (v : N) : str := s_cpu ++ [44; 104; 111; 115; 116; 61; 104; v]%N.     (* "cpu_0000,host=h<v>" *)
Definition ex_rgroup : group :=
  {| g_id := 2%N; g_start := 1700001000000000001; g_end := 1700002800000000000; g_deleted := false; g_trunc := None;
     g_shards := [ {| s_id := 2%N; s_min := []; s_max := s_k 50 |}; {| s_id := 3%N; s_min := s_k 50; s_max := s_k 53 |};
                   {| s_id := 4%N; s_min := s_k 53; s_max := [] |} ];
     g_alive := seq 0 3 |}.
Definition ex_rcfg : cfg :=
  {| c_mst := s_cpu; c_tagkeys := [s_dc; s_host]; c_sk := [s_host]; c_typ := Range; c_dur := 3600000000000;
     c_groups := [ex_rgroup]; c_mstidx := None |}.
Example ex_range_split_point :
  bounds_sorted [] [s_k 50; s_k 53] /\ shard_ranges ex_rgroup = ranges_of [] [s_k 50; s_k 53] /\
  range_chain [] (g_shards ex_rgroup) /\
  option_map s_id (dest_shard (s_k 50) ex_rgroup) = Some 3%N /\
  map s_id (target_group xxh64 repaired ex_rcfg ex_rgroup (Some (EEq 0%N s_host [104; 50]%N))) = [3%N] /\
  map s_id (target_group xxh64 repaired ex_rcfg ex_rgroup (Some (EEq 0%N s_dc [100]%N))) = [2%N; 3%N; 4%N].
Proof.
  assert (Hb : bounds_sorted [] [s_k 50; s_k 53]) by (simpl; repeat split; vm_compute; reflexivity).
  split; [exact Hb|]. split; [reflexivity|]. split; [exact (range_chain_resharded ex_rgroup _ Hb eq_refl)|].
  vm_compute. repeat split.
Qed.

(* a stream result row with its tags in dimension order (host before dc), key (dc, host): the builder selects dc then host, the
   route is the one of the sorted row, and the query dc='1' AND host='a' consults exactly that shard *)
Definition ex_xrow : xrow :=
  {| x_tags := [(s_host, [97%N]); (s_dc, [49%N])]; x_fields := []; x_cols := [(s_host, 0%nat); (s_dc, 1%nat)] |}.
Definition ex_cfg_dh2 : cfg :=
  {| c_mst := s_cpu; c_tagkeys := [s_dc; s_host]; c_sk := [s_dc; s_host]; c_typ := Hash; c_dur := 3600000000000; c_groups := [ex_group]; c_mstidx := None |}.
Example ex_builder_unsorted_row :
  build_key (BDim [s_host; s_dc]) (c_sk ex_cfg_dh2) ex_xrow = Some [(s_dc, [49%N]); (s_host, [97%N])] /\
  NoDup (map fst (x_tags ex_xrow)) /\
  route_in_x xxh64 (BDim [s_host; s_dc]) ex_cfg_dh2 ex_group ex_xrow =
    route_in xxh64 ex_cfg_dh2 ex_group {| p_tags := [(s_dc, [49%N]); (s_host, [97%N])]; p_time := 0; p_leaf := fun _ => false |} /\
  option_map (fun s => [s_id s]) (route_in_x xxh64 (BDim [s_host; s_dc]) ex_cfg_dh2 ex_group ex_xrow) =
    Some (map s_id (target_group xxh64 repaired ex_cfg_dh2 ex_group (Some (EAnd (EEq 0%N s_dc [49%N]) (EEq 1%N s_host [97%N]))))).
Proof.
  split; [vm_compute; reflexivity|]. split.
  - simpl. constructor; [intros [H|[]]; discriminate|constructor; [intros []|constructor]].
  - split; vm_compute; reflexivity.
Qed.
