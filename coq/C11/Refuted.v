(* C11: today's getConditionTags / TargetShards violate the pruning property. Witnesses closed by vm_compute, with the
   repository's hash (XXH64) so that the shard numbers are those observed on the real code. *)
From Coq Require Import ZArith NArith List Bool.
From OG Require Import C11.Model C11.Proofs C11.Props.
Import ListNotations.
Open Scope Z_scope.

Definition violates (v : variant) : Prop :=
  exists (hash : str -> N) c cond p g s tmin tmax,
    wf_cfg c /\ wf_point p /\ route hash c p = Some (g, s) /\ tmin <= p_time p <= tmax /\ eval_cond c cond p = true /\
    ~ In (s_id s) (map s_id (target_group hash v c g cond)).

(* host = 'a' OR usage > 1, shard key host, 8 shards: the row host=d, usage > 1 is in shard 4, only shard 5 is read *)
Theorem C11_or_refuted : violates current.
Proof.
  exists xxh64, ex_cfg, (Some ex_cond), (ex_point 100 true), ex_group,
         {| s_id := 4%N; s_min := []; s_max := [] |}, 0, max_nano.
  split; [apply ex_wf|]. split; [apply ex_wf|].
  split; [vm_compute; reflexivity|]. split; [vm_compute; split; discriminate|]. split; [vm_compute; reflexivity|].
  vm_compute. intros [H|[]]; discriminate.
Qed.
Print Assumptions C11_or_refuted.

(* the OR repair alone is not enough: the key buffer is not reset between alternatives.
   host = 'a' OR host = 'b' with 16 shards: host=b is in shard 13; the keys looked up are host=a and host=a,host=b *)
Definition ex_cfg16 : cfg :=
  {| c_mst := s_cpu; c_tagkeys := [s_dc; s_host]; c_sk := [s_host]; c_typ := Hash; c_dur := 3600000000000;
     c_groups := [{| g_id := 1%N; g_start := 1699999200000000000; g_end := 1700002800000000000; g_deleted := false;
                     g_trunc := None; g_shards := mk_shards 16; g_alive := seq 0 16 |}]; c_mstidx := None |}.
Definition ex_cond_ab : expr := EOr (EEq 0%N s_host [97%N]) (EEq 1%N s_host [98%N]).

Theorem C11_key_accumulation_refuted :
  violates current /\ violates {| v_or := true; v_and := true; v_reset := false |}.
Proof.
  assert (W : forall v, v_reset v = false -> violates v).
  { intros v Hv.
    exists xxh64, ex_cfg16, (Some ex_cond_ab), (ex_point 98 false), (hd ex_group (c_groups ex_cfg16)),
           {| s_id := 13%N; s_min := []; s_max := [] |}, 0, max_nano.
    split. { unfold wf_cfg. simpl. constructor; [|constructor]. unfold wf_group. simpl. apply incl_refl. }
    split. { unfold wf_point. simpl. constructor; [intros []|constructor]. }
    split; [vm_compute; reflexivity|]. split; [vm_compute; split; discriminate|]. split; [vm_compute; reflexivity|].
    destruct v as [vo va vr]. simpl in Hv. subst vr. destruct vo, va; vm_compute; intros [H|[H|[]]]; discriminate. }
  split; apply W; reflexivity.
Qed.
Print Assumptions C11_key_accumulation_refuted.

(* AND with alternatives on the right: the paren-free tree AND(host='a', OR(dc='3', dc='4')), shard key (dc, host).
   Today's AND puts dc=3 and dc=4 into the one tag set of host=a; the sorted merge takes the first value per key, so
   only dc=3,host=a is looked up (shard 6) and the row dc=4,host=a (shard 3) is skipped - even with the OR and
   buffer repairs in place. The tree is NOT in the image of the InfluxQL parser (a parenthesised OR arrives as a
   ParenExpr, which getConditionTags treats as unconstrained), so no query reaches it today. *)
Definition ex_cfg_dh : cfg :=
  {| c_mst := s_cpu; c_tagkeys := [s_dc; s_host]; c_sk := [s_dc; s_host]; c_typ := Hash; c_dur := 3600000000000; c_groups := [ex_group]; c_mstidx := None |}.
Definition ex_cond_and : expr := EAnd (EEq 0%N s_host [97%N]) (EOr (EEq 1%N s_dc [51%N]) (EEq 2%N s_dc [52%N])).
Definition ex_point_dh : point :=
  {| p_tags := [(s_dc, [52%N]); (s_host, [97%N])]; p_time := 1699999200000000001; p_leaf := fun _ => false |}.

Theorem C11_and_alternatives_refuted :
  violates current /\ violates {| v_or := true; v_and := false; v_reset := true |} /\ ~ parser_image ex_cond_and.
Proof.
  assert (W : forall v, v_and v = false -> violates v).
  { intros v Hv.
    exists xxh64, ex_cfg_dh, (Some ex_cond_and), ex_point_dh, ex_group, {| s_id := 3%N; s_min := []; s_max := [] |}, 0, max_nano.
    split. { unfold wf_cfg. simpl. constructor; [|constructor]. unfold wf_group. simpl. apply incl_refl. }
    split. { unfold wf_point. simpl. constructor; [intros [H|[]]; discriminate|constructor; [intros []|constructor]]. }
    split; [vm_compute; reflexivity|]. split; [vm_compute; split; discriminate|]. split; [vm_compute; reflexivity|].
    destruct v as [vo va vr]. simpl in Hv. subst va. destruct vo, vr; vm_compute; intros [H|[]]; discriminate. }
  split; [apply W; reflexivity|]. split; [apply W; reflexivity|]. simpl. intros [_ H]. exact H.
Qed.
Print Assumptions C11_and_alternatives_refuted.

(* through the parser the same query is sound today: the parenthesised OR is not looked into *)
Example and_alternatives_through_parser_reads_all :
  target xxh64 current ex_cfg_dh 0 max_nano (Some (EAnd (EEq 0%N s_host [97%N]) (EParen (EOr (EEq 1%N s_dc [51%N]) (EEq 2%N s_dc [52%N])))))
  = map (fun i => (1%N, N.of_nat (S i))) (seq 0 8).
Proof. vm_compute. reflexivity. Qed.

(* ------------------------------------------------------------------ stale shard key inside a write batch *)
(* cpu is sharded by host, mem by region, 4 shards, one group. One batch: a cpu row; a mem row that the schema check
   drops (field type conflict) after mem was resolved; a mem row {host=h0, region=r3}. Today's bookkeeping says "same
   measurement as the previous row, same group" and keeps cpu's key: the mem row is hashed by host=h0 into shard 1,
   while a query region='r3' on mem consults shard 3 only - even with every read-side repair. Looked up per row, the
   mem row goes to shard 3. *)
Definition s_region : str := [114; 101; 103; 105; 111; 110]%N.
Definition s_mem : str := [109; 101; 109; 95; 48; 48; 48; 48]%N.
Definition ex_group4 : group :=
  {| g_id := 1%N; g_start := 1699999200000000000; g_end := 1700002800000000000; g_deleted := false; g_trunc := None;
     g_shards := mk_shards 4; g_alive := seq 0 4 |}.
Definition ex_m (name : str) (key : str) : mcfg :=
  {| m_cfg := {| c_mst := name; c_tagkeys := [s_host; s_region]; c_sk := []; c_typ := Hash; c_dur := 3600000000000;
                 c_groups := [ex_group4]; c_mstidx := None |};
     m_vers := [(0%N, [key])]; m_db := [] |}.
Definition ex_row (m : mcfg) (k : rowkind) (t : Z) : brow :=
  {| r_m := m; r_kind := k;
     r_p := {| p_tags := [(s_host, [104; 48]%N); (s_region, [114; 51]%N)]; p_time := t; p_leaf := fun _ => false |} |}.
Definition ex_batch : list brow :=
  [ ex_row (ex_m s_cpu s_host) RRoute 1699999260000000000;
    ex_row (ex_m s_mem s_region) RDrop 1699999261000000000;
    ex_row (ex_m s_mem s_region) RRoute 1699999320000000000 ].
Definition ex_cond_region : expr := EEq 0%N s_region [114; 51]%N.

Theorem C11_stale_key_after_dropped_row_refuted :
  consistent ex_batch /\
  exists g s, nth 2 (batch_run xxh64 true b_empty ex_batch) None = Some (g, s) /\
    wf_group (base_cfg (ex_m s_mem s_region)) g /\ wf_point (r_p (nth 2 ex_batch (ex_row (ex_m s_mem s_region) RRoute 0))) /\
    eval_cond (m_cfg (ex_m s_mem s_region)) (Some ex_cond_region) (r_p (nth 2 ex_batch (ex_row (ex_m s_mem s_region) RRoute 0))) = true /\
    ~ In (s_id s) (map s_id (target_group xxh64 repaired (cfg_at (ex_m s_mem s_region) (g_id g)) g (Some ex_cond_region))) /\
    option_map (fun gs => s_id (snd gs)) (nth 2 (batch_run xxh64 false b_empty ex_batch) None) = Some 3%N.
Proof.
  split.
  - intros r1 r2 H1 H2 Hn. simpl in H1, H2.
    destruct H1 as [<-|[<-|[<-|[]]]]; destruct H2 as [<-|[<-|[<-|[]]]]; try (split; reflexivity); vm_compute in Hn; discriminate.
  - exists ex_group4, {| s_id := 1%N; s_min := []; s_max := [] |}.
    split; [vm_compute; reflexivity|]. split; [unfold wf_group; simpl; apply incl_refl|].
    split. { unfold wf_point. simpl. constructor; [intros [H|[]]; discriminate|constructor; [intros []|constructor]]. }
    split; [vm_compute; reflexivity|]. split; [vm_compute; intros [H|[]]; discriminate|vm_compute; reflexivity].
Qed.
Print Assumptions C11_stale_key_after_dropped_row_refuted.

(* ------------------------------------------------------------------ stale shard key across shard groups on the read side *)
(* cpu: shard key host for groups < 2, region from group 2 on (ALTER ... SHARDKEY). The row {host=h1, region=r1} written
   into group 2 is hashed by region into shard 12. mapMstShards keeps the key of the first selected group (host) for all
   groups: the query host='h1' over both groups consults shards 2 and 10. With the key in force per group, group 2 is not
   constrained by host and all its shards are read. *)
Definition ex_group_b : group :=
  {| g_id := 2%N; g_start := 1700002800000000000; g_end := 1700006400000000000; g_deleted := false; g_trunc := None;
     g_shards := map (fun i => {| s_id := N.of_nat (9 + i); s_min := []; s_max := [] |}) (seq 0 8); g_alive := seq 0 8 |}.
Definition ex_m_altered : mcfg :=
  {| m_cfg := {| c_mst := s_cpu; c_tagkeys := [s_host; s_region]; c_sk := []; c_typ := Hash; c_dur := 3600000000000;
                 c_groups := [ex_group; ex_group_b]; c_mstidx := None |};
     m_vers := [(0%N, [s_host]); (2%N, [s_region])]; m_db := [] |}.
Definition ex_row_b : brow :=
  {| r_m := ex_m_altered; r_kind := RRoute;
     r_p := {| p_tags := [(s_host, [104; 49]%N); (s_region, [114; 49]%N)]; p_time := 1700002920000000000; p_leaf := fun _ => false |} |}.
Definition ex_cond_h1 : expr := EEq 0%N s_host [104; 49]%N.

Theorem C11_stale_key_across_groups_refuted :
  exists g s, snd (batch_step xxh64 false b_empty ex_row_b) = Some (g, s) /\
    eval_cond (m_cfg ex_m_altered) (Some ex_cond_h1) (r_p ex_row_b) = true /\
    In g (query_groups (m_cfg ex_m_altered) 0 max_nano) /\
    ~ In (g_id g, s_id s) (target_m xxh64 repaired false ex_m_altered 0 max_nano (Some ex_cond_h1)) /\
    In (g_id g, s_id s) (target_m xxh64 repaired true ex_m_altered 0 max_nano (Some ex_cond_h1)).
Proof.
  exists ex_group_b, {| s_id := 12%N; s_min := []; s_max := [] |}.
  split; [vm_compute; reflexivity|]. split; [vm_compute; reflexivity|].
  split; [vm_compute; right; left; reflexivity|].
  split.
  - vm_compute. intros [H|[H|[]]]; discriminate.
  - vm_compute. do 4 right. left. reflexivity.
Qed.
Print Assumptions C11_stale_key_across_groups_refuted.

(* ------------------------------------------------------------------ hint queries ignore the shard key *)
(* cpu sharded by host, 8 shards. SELECT /*+ full_series */ .. WHERE dc='d2' AND host='h4': today's TargetShardsHintQuery
   hashes "dc=d2,host=h4" (all tags of the condition), the row was placed by hash("host=h4"). *)
Definition ex_cond_full : expr := EAnd (EEq 0%N s_dc [100; 50]%N) (EEq 1%N s_host [104; 52]%N).
Definition ex_point_full : point :=
  {| p_tags := [(s_dc, [100; 50]%N); (s_host, [104; 52]%N)]; p_time := 1699999200000000005; p_leaf := fun _ => false |}.

Theorem C11_hint_ignores_shardkey_refuted :
  exists s, route_in xxh64 ex_cfg ex_group ex_point_full = Some s /\
    eval_cond ex_cfg (Some ex_cond_full) ex_point_full = true /\
    ~ In (s_id s) (map s_id (target_hint xxh64 false repaired ex_cfg ex_group (Some ex_cond_full))) /\
    In (s_id s) (map s_id (target_hint xxh64 true repaired ex_cfg ex_group (Some ex_cond_full))).
Proof.
  destruct (route_in xxh64 ex_cfg ex_group ex_point_full) as [s|] eqn:E; [|vm_compute in E; discriminate].
  exists s. split; [reflexivity|]. split; [vm_compute; reflexivity|].
  vm_compute in E. inversion E; subst s. split.
  - vm_compute. intros [H|[]]; discriminate.
  - vm_compute. left; reflexivity.
Qed.
Print Assumptions C11_hint_ignores_shardkey_refuted.

(* ------------------------------------------------------------------ the measurement's key must NOT win over the database's *)
(* Database created WITH SHARDKEY region, measurement cpu created WITH SHARDKEY host inside it, 8 shards. The write path
   places the row {host=h2, region=r1} by the database's key: hash("region=r1") -> shard 4. A read path that preferred the
   measurement's own key ("the more specific definition wins") would hash "host=h2" for the query host='h2' and consult
   shard 3 only; with today's precedence the condition does not bind region and all 8 shards are read. *)
Definition ex_m_db : mcfg :=
  {| m_cfg := {| c_mst := s_cpu; c_tagkeys := [s_host; s_region]; c_sk := []; c_typ := Hash; c_dur := 3600000000000;
                 c_groups := [ex_group]; c_mstidx := None |};
     m_vers := [(0%N, [s_host])]; m_db := [s_region] |}.
Definition ex_row_db : brow :=
  {| r_m := ex_m_db; r_kind := RRoute;
     r_p := {| p_tags := [(s_host, [104; 50]%N); (s_region, [114; 49]%N)]; p_time := 1699999380000000000; p_leaf := fun _ => false |} |}.
Definition ex_cond_h2 : expr := EEq 0%N s_host [104; 50]%N.

Theorem C11_measurement_key_first_refuted :
  exists g s, snd (batch_step xxh64 false b_empty ex_row_db) = Some (g, s) /\
    eval_cond (m_cfg ex_m_db) (Some ex_cond_h2) (r_p ex_row_db) = true /\
    In g (query_groups (m_cfg ex_m_db) 0 max_nano) /\
    wkey_in_force ex_m_db (g_id g) <> rkey_mst_first ex_m_db (g_id g) /\
    ~ In (g_id g, s_id s) (target_m_by xxh64 rkey_mst_first repaired ex_m_db 0 max_nano (Some ex_cond_h2)) /\
    In (g_id g, s_id s) (target_m_by xxh64 rkey_in_force repaired ex_m_db 0 max_nano (Some ex_cond_h2)).
Proof.
  exists ex_group, {| s_id := 4%N; s_min := []; s_max := [] |}.
  split; [vm_compute; reflexivity|]. split; [vm_compute; reflexivity|].
  split; [vm_compute; left; reflexivity|].
  split; [vm_compute; discriminate|].
  split.
  - vm_compute. intros [H|[]]; discriminate.
  - vm_compute. do 3 right. left. reflexivity.
Qed.
Print Assumptions C11_measurement_key_first_refuted.

(* ------------------------------------------------------------------ hint queries on a range-sharded measurement *)
(* cpu range-sharded by host, re-sharded at the keys of host=h2 and host=h5 (three key ranges, Props.ex_rgroup). The row
   host=h2 is stored by key range in shard 3. SELECT /*+ full_series */ .. WHERE host='h2': today's
   getShardsAndSeriesKeyForHintQuery hashes "host=h2" over the three shards and consults another one; looked up by range,
   shard 3 is consulted. *)
Definition ex_point_h2 : point :=
  {| p_tags := [(s_host, [104; 50]%N)]; p_time := 1700001180000000000; p_leaf := fun _ => false |}.
Theorem C11_hint_range_hashes_refuted :
  exists s, route_in xxh64 ex_rcfg ex_rgroup ex_point_h2 = Some s /\
    wf_group ex_rcfg ex_rgroup /\ wf_point ex_point_h2 /\
    eval_cond ex_rcfg (Some (EEq 0%N s_host [104; 50]%N)) ex_point_h2 = true /\
    (forall specific, specific = false ->
       ~ In (s_id s) (map s_id (target_hint_kind xxh64 specific false repaired ex_rcfg ex_rgroup (Some (EEq 0%N s_host [104; 50]%N))))) /\
    In (s_id s) (map s_id (target_hint_kind xxh64 false true repaired ex_rcfg ex_rgroup (Some (EEq 0%N s_host [104; 50]%N)))).
Proof.
  exists {| s_id := 3%N; s_min := s_k 50; s_max := s_k 53 |}.
  split; [vm_compute; reflexivity|].
  split. { unfold wf_group. simpl. intros i Hi. simpl. destruct i as [|[|[|i]]]; simpl; auto. exfalso. inversion Hi as [|? H1]. inversion H1 as [|? H2]. inversion H2 as [|? H3]. inversion H3. }
  split. { unfold wf_point. simpl. constructor; [intros []|constructor]. }
  split; [vm_compute; reflexivity|]. split.
  - intros specific ->. vm_compute. intros [H|[]]; discriminate.
  - vm_compute. left; reflexivity.
Qed.
Print Assumptions C11_hint_range_hashes_refuted.

(* ------------------------------------------------------------------ the alive shard list changes between write and read *)
(* cpu sharded by host, 8 shards, every partition online while the row host=d is written: hash mod 8 -> shard 4. Then the
   partition of shard 8 goes offline. The query host='d' hashes over the 7 remaining shards and consults shard 3 only;
   shard 4 - online, holding the row - is not consulted. (Write-available-first policy; the same happens under hard-write,
   where writes always hash over all shards and reads over the online ones.) *)
Theorem C11_alive_set_change_refuted :
  exists s, route_in xxh64 ex_cfg (set_alive ex_group (seq 0 8)) (ex_point 100 false) = Some s /\
    wf_group ex_cfg (set_alive ex_group (seq 0 8)) /\ wf_group ex_cfg (set_alive ex_group (seq 0 7)) /\
    eval_cond ex_cfg (Some (EEq 0%N s_host [100%N])) (ex_point 100 false) = true /\
    In s (all_alive (set_alive ex_group (seq 0 7))) /\
    ~ In (s_id s) (map s_id (target_group xxh64 repaired ex_cfg (set_alive ex_group (seq 0 7)) (Some (EEq 0%N s_host [100%N])))).
Proof.
  exists {| s_id := 4%N; s_min := []; s_max := [] |}.
  split; [vm_compute; reflexivity|].
  split; [unfold wf_group; simpl; apply incl_refl|]. split; [unfold wf_group; simpl; apply incl_refl|].
  split; [vm_compute; reflexivity|].
  split; [vm_compute; do 3 right; left; reflexivity|].
  vm_compute. intros [H|[]]; discriminate.
Qed.
Print Assumptions C11_alive_set_change_refuted.

(* the same catalogue under hard-write with the read side repaired: the key is looked up among all 8 shards (shard 4) and shard 4
   is alive, so it is consulted although the partition of shard 8 is offline *)
Example hard_write_repaired_finds_the_row :
  map s_id (target_group_hw xxh64 repaired ex_cfg (set_alive ex_group (seq 0 7)) (Some (EEq 0%N s_host [100%N]))) = [4%N].
Proof. vm_compute. reflexivity. Qed.

(* ------------------------------------------------------------------ stream destination with another shard key *)
(* source cpu SHARDKEY host, stream GROUP BY host into a destination created WITH SHARDKEY dc (case 3 of routeAndCalculateStreamRows
   looks at the source's key and the dimensions only): the result row is placed by hash("host=a") over the destination's shards,
   the query dc='1' on the destination consults hash("dc=1") *)
Definition ex_cfg_dst : cfg :=
  {| c_mst := s_mem; c_tagkeys := [s_dc; s_host]; c_sk := [s_dc]; c_typ := Hash; c_dur := 3600000000000; c_groups := [ex_group]; c_mstidx := None |}.
Definition ex_prow : point := {| p_tags := [(s_dc, [49%N]); (s_host, [97%N])]; p_time := 1699999200000000003; p_leaf := fun _ => false |}.
Theorem C11_stream_reuse_other_key_refuted :
  exists s, route_reuse xxh64 ex_cfg ex_cfg_dst ex_group ex_prow = Some s /\
    wf_group ex_cfg_dst ex_group /\ wf_point ex_prow /\
    eval_cond ex_cfg_dst (Some (EEq 0%N s_dc [49%N])) ex_prow = true /\
    ~ In (s_id s) (map s_id (target_group xxh64 repaired ex_cfg_dst ex_group (Some (EEq 0%N s_dc [49%N])))).
Proof.
  destruct (route_reuse xxh64 ex_cfg ex_cfg_dst ex_group ex_prow) as [s|] eqn:E; [|vm_compute in E; discriminate].
  exists s. split; [reflexivity|]. split; [unfold wf_group; simpl; apply incl_refl|].
  split. { unfold wf_point. simpl. constructor; [intros [H|[]]; discriminate|constructor; [intros []|constructor]]. }
  split; [vm_compute; reflexivity|]. vm_compute in E. inversion E; subst s. vm_compute. intros [H|[]]; discriminate.
Qed.
Print Assumptions C11_stream_reuse_other_key_refuted.
