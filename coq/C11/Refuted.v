(* C11: today's getConditionTags / TargetShards violate the pruning property. Witnesses closed by vm_compute, with the
   repository's hash (XXH64) so that the shard numbers are those observed on the real code. *)
From Coq Require Import ZArith NArith List Bool.
From OG Require Import C11.Model C11.Proofs C11.Props.
Import ListNotations.
Open Scope Z_scope.

Definition violates (v : variant) : Prop :=
  exists (hash : str -> N) c cond p g s tmin tmax,
    wf_cfg c /\ wf_point p /\ route hash c p = Some (g, s) /\ tmin <= p_time p <= tmax /\ eval_cond c cond p = true /\
    ~ In (s_id s) (map s_id (target_group hash v c g cond)).

(* host = 'a' OR usage > 1, shard key host, 8 shards: the row host=d, usage > 1 is in shard 4, only shard 5 is read *)
Theorem C11_or_refuted : violates current.
Proof.
  exists xxh64, ex_cfg, (Some ex_cond), (ex_point 100 true), ex_group,
         {| s_id := 4%N; s_min := []; s_max := [] |}, 0, max_nano.
  split; [apply ex_wf|]. split; [apply ex_wf|].
  split; [vm_compute; reflexivity|]. split; [vm_compute; split; discriminate|]. split; [vm_compute; reflexivity|].
  vm_compute. intros [H|[]]; discriminate.
Qed.
Print Assumptions C11_or_refuted.

(* the OR repair alone is not enough: the key buffer is not reset between alternatives.
   host = 'a' OR host = 'b' with 16 shards: host=b is in shard 13; the keys looked up are host=a and host=a,host=b *)
Definition ex_cfg16 : cfg :=
  {| c_mst := s_cpu; c_tagkeys := [s_dc; s_host]; c_sk := [s_host]; c_typ := Hash; c_dur := 3600000000000;
     c_groups := [{| g_id := 1%N; g_start := 1699999200000000000; g_end := 1700002800000000000; g_deleted := false;
                     g_trunc := None; g_shards := mk_shards 16; g_alive := seq 0 16; g_mstidx := None |}] |}.
Definition ex_cond_ab : expr := EOr (EEq 0%N s_host [97%N]) (EEq 1%N s_host [98%N]).

Theorem C11_key_accumulation_refuted :
  violates current /\ violates {| v_or := true; v_and := true; v_reset := false |}.
Proof.
  assert (W : forall v, v_reset v = false -> violates v).
  { intros v Hv.
    exists xxh64, ex_cfg16, (Some ex_cond_ab), (ex_point 98 false), (hd ex_group (c_groups ex_cfg16)),
           {| s_id := 13%N; s_min := []; s_max := [] |}, 0, max_nano.
    split. { unfold wf_cfg. simpl. constructor; [|constructor]. simpl. apply incl_refl. }
    split. { unfold wf_point. simpl. constructor; [intros []|constructor]. }
    split; [vm_compute; reflexivity|]. split; [vm_compute; split; discriminate|]. split; [vm_compute; reflexivity|].
    destruct v as [vo va vr]. simpl in Hv. subst vr. destruct vo, va; vm_compute; intros [H|[H|[]]]; discriminate. }
  split; apply W; reflexivity.
Qed.
Print Assumptions C11_key_accumulation_refuted.

(* AND with alternatives on the right: the paren-free tree AND(host='a', OR(dc='3', dc='4')), shard key (dc, host).
   Today's AND puts dc=3 and dc=4 into the one tag set of host=a; the sorted merge takes the first value per key, so
   only dc=3,host=a is looked up (shard 6) and the row dc=4,host=a (shard 3) is skipped - even with the OR and
   buffer repairs in place. The tree is NOT in the image of the InfluxQL parser (a parenthesised OR arrives as a
   ParenExpr, which getConditionTags treats as unconstrained), so no query reaches it today. *)
Definition ex_cfg_dh : cfg :=
  {| c_mst := s_cpu; c_tagkeys := [s_dc; s_host]; c_sk := [s_dc; s_host]; c_typ := Hash; c_dur := 3600000000000; c_groups := [ex_group] |}.
Definition ex_cond_and : expr := EAnd (EEq 0%N s_host [97%N]) (EOr (EEq 1%N s_dc [51%N]) (EEq 2%N s_dc [52%N])).
Definition ex_point_dh : point :=
  {| p_tags := [(s_dc, [52%N]); (s_host, [97%N])]; p_time := 1699999200000000001; p_leaf := fun _ => false |}.

Theorem C11_and_alternatives_refuted :
  violates current /\ violates {| v_or := true; v_and := false; v_reset := true |} /\ ~ parser_image ex_cond_and.
Proof.
  assert (W : forall v, v_and v = false -> violates v).
  { intros v Hv.
    exists xxh64, ex_cfg_dh, (Some ex_cond_and), ex_point_dh, ex_group, {| s_id := 3%N; s_min := []; s_max := [] |}, 0, max_nano.
    split. { unfold wf_cfg. simpl. constructor; [|constructor]. simpl. apply incl_refl. }
    split. { unfold wf_point. simpl. constructor; [intros [H|[]]; discriminate|constructor; [intros []|constructor]]. }
    split; [vm_compute; reflexivity|]. split; [vm_compute; split; discriminate|]. split; [vm_compute; reflexivity|].
    destruct v as [vo va vr]. simpl in Hv. subst va. destruct vo, vr; vm_compute; intros [H|[]]; discriminate. }
  split; [apply W; reflexivity|]. split; [apply W; reflexivity|]. simpl. intros [_ H]. exact H.
Qed.
Print Assumptions C11_and_alternatives_refuted.

(* through the parser the same query is sound today: the parenthesised OR is not looked into *)
Example and_alternatives_through_parser_reads_all :
  target xxh64 current ex_cfg_dh 0 max_nano (Some (EAnd (EEq 0%N s_host [97%N]) (EParen (EOr (EEq 1%N s_dc [51%N]) (EEq 2%N s_dc [52%N])))))
  = map (fun i => (1%N, N.of_nat (S i))) (seq 0 8).
Proof. vm_compute. reflexivity. Qed.
