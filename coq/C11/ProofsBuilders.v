(* C11: the shard-key builders of column-store rows (UnmarshalShardKeyByField), rows with a column index
   (UnmarshalShardKeyByTagOp) and stream results (UnmarshalShardKeyByDimOrTag) against the read side's key construction. *)
From Coq Require Import ZArith NArith List Bool Lia.
From OG Require Import C11.Model C11.Proofs.
Import ListNotations.

Lemma assoc_find_spec : forall {A} k (l : list (str * A)) kv, assoc_find k l = Some kv -> In kv l /\ fst kv = k.
Proof.
  intros A k l kv H. unfold assoc_find in H. apply find_some in H as [H1 H2]. split; auto. apply str_eqb_eq in H2. auto.
Qed.

(* what a builder returns: one pair per key column, in the order of the key, each a tag or a field of the row *)
Lemma by_field_spec : forall sk r ps, by_field sk r = Some ps ->
  map fst ps = sk /\ forall x, In x ps -> In x (x_tags r) \/ (In x (x_fields r) /\ assoc_find (fst x) (x_tags r) = None).
Proof.
  induction sk as [|k sk IH]; intros r ps H; simpl in H.
  - inversion H; subst. split; [reflexivity|intros x []].
  - destruct (assoc_find k (x_tags r)) as [kv|] eqn:Et.
    + destruct (by_field sk r) as [ps'|] eqn:E; [|discriminate]. inversion H; subst ps; clear H.
      destruct (IH r ps' E) as [H1 H2]. apply assoc_find_spec in Et as [Hin Hk]. split.
      * simpl. rewrite H1, Hk. reflexivity.
      * intros x [<-|Hx]; [left; exact Hin|apply H2; exact Hx].
    + destruct (assoc_find k (x_fields r)) as [kv|] eqn:Ef; [|discriminate].
      destruct (by_field sk r) as [ps'|] eqn:E; [|discriminate]. inversion H; subst ps; clear H.
      destruct (IH r ps' E) as [H1 H2]. apply assoc_find_spec in Ef as [Hin Hk]. split.
      * simpl. rewrite H1, Hk. reflexivity.
      * intros x [<-|Hx]; [right; split; [exact Hin|rewrite Hk; exact Et]|apply H2; exact Hx].
Qed.

Lemma by_cols_spec : forall sk r ps, by_cols sk r = Some ps ->
  map fst ps = sk /\ forall x, In x ps -> In x (x_tags r) \/ In x (x_fields r).
Proof.
  induction sk as [|k sk IH]; intros r ps H; simpl in H.
  - inversion H; subst. split; [reflexivity|intros x []].
  - destruct (assoc_find k (x_cols r)) as [[k' id]|]; [|discriminate].
    destruct (if (id <? length (x_tags r))%nat then nth_error (x_tags r) id else nth_error (x_fields r) (id - length (x_tags r)))
      as [kv|] eqn:En; [|discriminate].
    destruct (str_eqb (fst kv) k) eqn:Ek; [|discriminate]. apply str_eqb_eq in Ek.
    destruct (by_cols sk r) as [ps'|] eqn:E; [|discriminate]. inversion H; subst ps; clear H.
    destruct (IH r ps' E) as [H1 H2]. split.
    + simpl. rewrite H1, Ek. reflexivity.
    + intros x [<-|Hx]; [|apply H2; exact Hx].
      destruct (id <? length (x_tags r))%nat; [left|right]; eapply nth_error_In; eauto.
Qed.

(* for a non-empty key every builder selects exactly the key's columns, each from the row *)
Lemma build_key_spec : forall b sk r ps, sk <> [] -> build_key b sk r = Some ps ->
  map fst ps = sk /\ forall x, In x ps -> In x (x_tags r) \/ In x (x_fields r).
Proof.
  intros b sk r ps Hne H. destruct b as [| |dims]; simpl in H.
  - destruct (by_field_spec sk r ps H) as [H1 H2]. split; auto. intros x Hx. destruct (H2 x Hx) as [?|[? _]]; auto.
  - unfold by_tagop in H. destruct sk as [|k sk']; [congruence|]. apply by_cols_spec; exact H.
  - unfold by_dim_or_tag, by_tagop in H. destruct sk as [|k sk']; [congruence|]. apply by_cols_spec; exact H.
Qed.

(* getConditionTags only names columns the schema lists as tags *)
Lemma cond_tags_keys : forall v tagkeys e tss, cond_tags v tagkeys e = Some tss ->
  forall ts x, In ts tss -> In x ts -> mem_str (fst x) tagkeys = true.
Proof.
  intros v tagkeys. induction e as [id k val|id|a IHa b IHb|a IHa b IHb|a IHa]; intros tss H ts x Hts Hx; simpl in H; try discriminate.
  - destruct (is_time_name k); [discriminate|]. destruct (mem_str k tagkeys) eqn:Em; [|discriminate].
    inversion H; subst. destruct Hts as [<-|[]]. destruct Hx as [<-|[]]. exact Em.
  - destruct (cond_tags v tagkeys a) as [ls|] eqn:Ea; destruct (cond_tags v tagkeys b) as [rs|] eqn:Eb.
    + destruct (v_and v); inversion H; subst; clear H.
      * apply in_flat_map in Hts as [l [Hl Hts]]. apply in_map_iff in Hts as [r [<- Hr]].
        apply in_app_or in Hx as [Hx|Hx]; [eapply IHa; eauto|eapply IHb; eauto].
      * apply in_map_iff in Hts as [l [<- Hl]]. apply in_app_or in Hx as [Hx|Hx]; [eapply IHa; eauto|].
        apply in_concat in Hx as [r [Hr Hx]]. eapply IHb; eauto.
    + inversion H; subst. eapply IHa; eauto.
    + inversion H; subst. eapply IHb; eauto.
    + discriminate.
  - destruct (cond_tags v tagkeys a) as [ls|] eqn:Ea; destruct (cond_tags v tagkeys b) as [rs|] eqn:Eb.
    + inversion H; subst. apply in_app_or in Hts as [Hts|Hts]; [eapply IHa; eauto|eapply IHb; eauto].
    + destruct (v_or v); [discriminate|]. inversion H; subst. eapply IHa; eauto.
    + destruct (v_or v); [discriminate|]. inversion H; subst. eapply IHb; eauto.
    + destruct (v_or v); discriminate.
Qed.

Lemma map_fst_firstn : forall (l : tagset) m, map fst (firstn m l) = firstn m (map fst l).
Proof. intros. symmetry. apply firstn_map. Qed.

(* WRITE-SIDE KEY = READ-SIDE KEY. ps: the pairs a builder selected for the key sk (one per column, in key order); a column
   taken from somewhere else than the row's tags is not a tag of the schema. ts: a tag set of the condition the row satisfies,
   naming schema tags only. Then the pairs the read side builds from ts are a PREFIX of ps, and ALL of ps when every key column
   is bound - for any order of the row's tags and any position of the key columns among tags and fields. *)
Theorem builder_key_agrees_proof : forall (tagkeys sk : list str) (tags ps ts : tagset),
  NoDup (map fst tags) -> map fst ps = sk ->
  (forall x, In x ps -> In x tags \/ mem_str (fst x) tagkeys = false) ->
  (forall x, In x ts -> mem_str (fst x) tagkeys = true) ->
  (forall k v, In (k, v) ts -> tag_val tags k = v) ->
  exists m, fst (sel_keys sk (sort_tags ts)) = firstn m ps /\
            (snd (sel_keys sk (sort_tags ts)) = true -> fst (sel_keys sk (sort_tags ts)) = ps).
Proof.
  intros tagkeys sk tags ps ts Hnd Hkeys Hsrc Htk Hsat.
  destruct (sel_keys_spec (sort_tags ts) sk) as [mt [Ht1 [Ht2 Ht3]]].
  set (qs := fst (sel_keys sk (sort_tags ts))) in *.
  assert (Hq : forall x, In x qs -> mem_str (fst x) tagkeys = true /\ snd x = tag_val tags (fst x)).
  { intros [k v] Hx. pose proof (sort_tags_in _ _ (Ht2 _ Hx)) as Hin. split; [apply (Htk _ Hin)|]. simpl. symmetry. apply Hsat; exact Hin. }
  assert (Hpre : qs = firstn mt ps).
  { apply (pairs_determined (tag_val tags)).
    - rewrite Ht1, map_fst_firstn, Hkeys. reflexivity.
    - intros x Hx. apply Hq; exact Hx.
    - intros x Hx.
      assert (Hk : In (fst x) (map fst qs)).
      { rewrite Ht1, <- Hkeys, <- map_fst_firstn. apply in_map; exact Hx. }
      apply in_map_iff in Hk as [y [Hy1 Hy2]]. destruct (Hq y Hy2) as [Hm _]. rewrite Hy1 in Hm.
      destruct (Hsrc x (firstn_In _ _ _ Hx)) as [Hin|Hf]; [|congruence].
      destruct x as [k v]. simpl. symmetry. apply tag_val_in; auto. }
  exists mt. split; [exact Hpre|]. intros Hc. rewrite Hpre.
  assert (Hlen : length qs = length ps).
  { rewrite <- (map_length fst qs), (Ht3 Hc), <- Hkeys, map_length. reflexivity. }
  rewrite Hpre in Hlen. rewrite firstn_length in Hlen.
  apply firstn_all2. lia.
Qed.

Section Builders.
Variable hash : str -> N.

(* pruning finds every row routed with one of these builders *)
Theorem builders_prune_sound_proof : forall v b c g cond r p s,
  v_or v = true -> v_reset v = true ->
  (v_and v = true \/ match cond with Some e => parser_image e | None => True end) ->
  wf_group c g -> wf_point p -> p_tags p = x_tags r ->
  (forall x, In x (x_fields r) -> mem_str (fst x) (c_tagkeys c) = false) ->
  route_in_x hash b c g r = Some s -> eval_cond c cond p = true ->
  In s (target_group hash v c g cond).
Proof.
  intros v b c g cond r p s Hor Hres Hok Hwf Hwp Htags Hfld Hr Hev.
  unfold route_in_x in Hr. destruct (build_key b (c_sk c) r) as [ps|] eqn:Eb; [|discriminate].
  assert (Hall : In s (g_shards g) /\ In s (all_alive g)).
  { unfold wf_group in Hwf. destruct (c_typ c).
    - apply shard_for_spec in Hr as [i [Hi Hn]]. split; [eapply nth_error_In; eauto|].
      unfold all_alive. apply in_flat_map. exists i. split; [apply Hwf; auto|]. rewrite Hn. left; reflexivity.
    - unfold dest_shard in Hr. apply find_some in Hr as [Hs _]. split; auto.
      destruct (In_nth_error _ _ Hs) as [i Hn]. unfold all_alive. apply in_flat_map. exists i. split.
      + apply Hwf. apply nth_error_Some. rewrite Hn; discriminate.
      + rewrite Hn. left; reflexivity. }
  destruct Hall as [Hsg Hall].
  unfold target_group. destruct (c_sk c) as [|k0 sk0] eqn:Esk; [exact Hall|].
  destruct cond as [e|]; [|exact Hall]. simpl in Hev.
  destruct (cond_tags v (c_tagkeys c) e) as [tss|] eqn:Ect; [|exact Hall].
  destruct (tloop hash v c g (c_mst c) tss) as [res|] eqn:El; [|exact Hall].
  assert (Hok' : v_and v = true \/ parser_image e) by (destruct Hok; auto).
  destruct (cond_tags_sound _ _ p _ _ Hor Hok' Ect Hev) as [ts [Hts Hsat]].
  destruct (build_key_spec b (k0 :: sk0) r ps) as [Hkeys Hsrc]; [discriminate|exact Eb|].
  destruct (builder_key_agrees_proof (c_tagkeys c) (k0 :: sk0) (p_tags p) ps ts Hwp Hkeys) as [mt [Hpre Hfull]].
  { intros x Hx. rewrite Htags. destruct (Hsrc x Hx) as [?|Hf]; [left; auto|right; apply Hfld; exact Hf]. }
  { intros x Hx. eapply cond_tags_keys; eauto. }
  { exact Hsat. }
  destruct (c_typ c) eqn:Etyp.
  - destruct (tloop_hash_in hash v c g Hres Etyp _ _ _ _ El Hts) as [Hc Hin]. rewrite Esk in Hc, Hin.
    apply Hin. unfold after_name. rewrite skipn_S_app, (Hfull Hc). unfold hash_arg in Hr. rewrite Esk in Hr. exact Hr.
  - unfold dest_shard in Hr. apply find_some in Hr as [_ Hcon].
    eapply (tloop_range_in hash v c g Hres Etyp _ _ _ _ El Hts); auto. rewrite Esk, Hpre.
    rewrite <- (firstn_skipn mt ps), key_suffix_app, app_assoc in Hcon.
    eapply contain_prefix_of; eauto.
Qed.
(* stream destinations that reuse the source's key bytes: with the same non-empty key on both measurements this IS the
   destination's own routing of any row carrying the same key pairs *)
Lemma route_reuse_is_route : forall csrc cdst g psrc pdst,
  c_sk csrc = c_sk cdst -> c_sk cdst <> [] -> c_typ cdst = Hash -> wkey cdst pdst = wkey csrc psrc ->
  route_reuse hash csrc cdst g psrc = route_in hash cdst g pdst.
Proof.
  intros csrc cdst g psrc pdst Hk Hne Ht Hw. unfold route_reuse, route_in. rewrite Hw, Ht.
  destruct (wkey csrc psrc) as [ps|]; [|reflexivity]. unfold hash_arg. rewrite Hk.
  destruct (c_sk cdst); [congruence|reflexivity].
Qed.

Theorem stream_reuse_prune_sound_proof : forall v csrc cdst g cond psrc pdst s,
  v_or v = true -> v_reset v = true ->
  (v_and v = true \/ match cond with Some e => parser_image e | None => True end) ->
  c_typ cdst = Hash -> wf_group cdst g -> wf_point pdst ->
  (c_sk cdst = [] \/ (c_sk csrc = c_sk cdst /\ wkey cdst pdst = wkey csrc psrc)) ->
  route_reuse hash csrc cdst g psrc = Some s -> eval_cond cdst cond pdst = true ->
  In s (target_group hash v cdst g cond).
Proof.
  intros v csrc cdst g cond psrc pdst s Hor Hres Hok Ht Hwf Hwp Hcase Hr Hev.
  destruct (c_sk cdst) as [|k0 sk0] eqn:Esk.
  - unfold target_group. rewrite Esk. unfold route_reuse in Hr. destruct (wkey csrc psrc); [|discriminate]. rewrite Ht in Hr.
    apply shard_for_spec in Hr as [i [Hi Hn]]. unfold wf_group in Hwf. rewrite Ht in Hwf.
    unfold all_alive. apply in_flat_map. exists i. split; [apply Hwf; auto|]. rewrite Hn. left; reflexivity.
  - destruct Hcase as [Hc|[Hk Hw]]; [congruence|].
    assert (Hne : c_sk cdst <> []) by (rewrite Esk; discriminate).
    rewrite <- Esk in Hk. rewrite (route_reuse_is_route csrc cdst g psrc pdst Hk Hne Ht Hw) in Hr.
    eapply target_group_sound; eauto.
Qed.
End Builders.
