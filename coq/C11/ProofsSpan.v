(* C11: the spans of the shard groups created for timestamps (newShardGroup: Go's year-1 anchored Truncate, end clipped at
   MaxNanoTime + 1) are ordered like the timestamps and pairwise equal or disjoint - clipping included. Together with
   Proofs.span_covers / span_same: a timestamp belongs to exactly one created group of a given duration. *)
From Coq Require Import ZArith Lia.
From OG Require Import C11.Model.
Local Open Scope Z_scope.

Lemma trunc_closed : forall t d, 0 < d -> trunc t d = d * ((t + epoch_shift) / d) - epoch_shift.
Proof.
  intros t d Hd. unfold trunc. destruct (Z.leb_spec d 0); [lia|].
  pose proof (Z.div_mod (t + epoch_shift) d ltac:(lia)). lia.
Qed.

Lemma span_end_le : forall t d, 0 < d -> snd (span_of t d) <= fst (span_of t d) + d.
Proof. intros t d Hd. unfold span_of. cbn [fst snd]. destruct (Z.ltb_spec max_nano (trunc t d + d)); lia. Qed.

Theorem span_monotone : forall t1 t2 d, 0 < d -> t1 <= t2 -> fst (span_of t1 d) <= fst (span_of t2 d).
Proof.
  intros t1 t2 d Hd Hle. unfold span_of. cbn [fst]. rewrite !trunc_closed by assumption.
  pose proof (Z.div_le_mono (t1 + epoch_shift) (t2 + epoch_shift) d Hd ltac:(lia)). nia.
Qed.

Theorem span_disjoint : forall t1 t2 d, 0 < d -> fst (span_of t1 d) <> fst (span_of t2 d) ->
  snd (span_of t1 d) <= fst (span_of t2 d) \/ snd (span_of t2 d) <= fst (span_of t1 d).
Proof.
  intros t1 t2 d Hd Hne. pose proof (span_end_le t1 d Hd) as E1. pose proof (span_end_le t2 d Hd) as E2.
  unfold span_of in *. cbn [fst snd] in *. rewrite !trunc_closed in * by assumption.
  destruct (Z.lt_trichotomy ((t1 + epoch_shift) / d) ((t2 + epoch_shift) / d)) as [Hlt|[Heq|Hgt]].
  - left. nia.
  - exfalso. apply Hne. rewrite Heq. reflexivity.
  - right. nia.
Qed.

(* equal starts give equal spans (the clipped end is a function of the start) *)
Theorem span_start_determines : forall t1 t2 d, fst (span_of t1 d) = fst (span_of t2 d) -> span_of t1 d = span_of t2 d.
Proof. intros t1 t2 d H. unfold span_of in *. cbn [fst] in H. rewrite H. reflexivity. Qed.
