(* C11 model: where a point is written (group by timestamp, shard by shard key) and which shards a query consults.
   Executable definitions only. Mirrors
     meta/data.go newShardGroup / CreateShardGroup, retentionpolicy.go ShardGroupByTimestampAndEngineType,
     influx/parser.go UnmarshalShardKeyByTag, coordinator/points_writer.go updateShardGroupAndShardKey,
     meta/shardinfo.go ShardFor / DestShard / TargetShards / getConditionTags / ContainPrefix,
     meta/data.go ShardGroupsByTimeRange. *)
From Coq Require Import ZArith NArith List Bool.
Import ListNotations.

(* ------------------------------------------------------------------ strings = byte lists, Go's byte-wise order *)
Definition str := list N.

Fixpoint str_eqb (a b : str) : bool :=
  match a, b with
  | [], [] => true
  | x :: a', y :: b' => N.eqb x y && str_eqb a' b'
  | _, _ => false
  end.

Fixpoint str_cmp (a b : str) : comparison :=
  match a, b with
  | [], [] => Eq
  | [], _ :: _ => Lt
  | _ :: _, [] => Gt
  | x :: a', y :: b' => match N.compare x y with Eq => str_cmp a' b' | c => c end
  end.
Definition str_ltb (a b : str) : bool := match str_cmp a b with Lt => true | _ => false end.
Definition str_leb (a b : str) : bool := match str_cmp a b with Gt => false | _ => true end.
Definition is_nil (a : str) : bool := match a with [] => true | _ => false end.

Definition lower_byte (c : N) : N := if (N.leb 65 c && N.leb c 90)%bool then (c + 32)%N else c.
(* strings.ToLower(k) == "time" *)
Definition is_time_name (k : str) : bool := str_eqb (map lower_byte k) [116; 105; 109; 101]%N.

Definition mem_str (k : str) (l : list str) : bool := existsb (str_eqb k) l.

(* ------------------------------------------------------------------ time: Go's Time.Truncate is anchored at year 1 *)
Open Scope Z_scope.
Definition epoch_shift : Z := 62135596800 * 1000000000.      (* ns from 0001-01-01T00:00:00Z to the Unix epoch *)
Definition max_nano : Z := 9223372036854775806.              (* models.MaxNanoTime *)
Definition min_nano : Z := -9223372036854775806.             (* models.MinNanoTime *)

Definition trunc (t d : Z) : Z := if d <=? 0 then t else t - ((t + epoch_shift) mod d).
(* newShardGroup: [trunc(t,d), +d), the end clipped to MaxNanoTime+1 *)
Definition span_of (t d : Z) : Z * Z :=
  let s := trunc t d in (s, if max_nano <? s + d then max_nano + 1 else s + d).

(* ------------------------------------------------------------------ catalogue *)
Record shard := { s_id : N; s_min : str; s_max : str }.
Record group := {
  g_id : N; g_start : Z; g_end : Z; g_deleted : bool; g_trunc : option Z;
  g_shards : list shard;
  g_alive : list nat                  (* indexes of the shards whose partition is online (GetAliveShards) *)
}.
(* the same group with another list of alive shard indexes: GetAliveShards is evaluated when a row is written and again when
   a query runs, and partitions go offline and come back in between *)
Definition set_alive (g : group) (a : list nat) : group :=
  {| g_id := g_id g; g_start := g_start g; g_end := g_end g; g_deleted := g_deleted g; g_trunc := g_trunc g;
     g_shards := g_shards g; g_alive := a |}.
Inductive shtype := Hash | Range.
Record cfg := {
  c_mst : str;                        (* measurement name (with version) *)
  c_tagkeys : list str;               (* schema entries of type tag *)
  c_sk : list str;                    (* shard-key tags, sorted; [] = no shard key (nil ShardKey) *)
  c_typ : shtype;
  c_dur : Z;                          (* shard-group duration *)
  c_groups : list group;              (* catalogue order (sorted by end, start) *)
  c_mstidx : option (list (N * list nat))   (* MeasurementInfo.ShardIdexes (group id -> shard indexes) when
                                               InitNumOfShards <> 0, else None *)
}.

Definition tagset := list (str * str).
Record point := { p_tags : tagset; p_time : Z; p_leaf : N -> bool }.
(* p_leaf: truth on this row of every predicate that is not "tag = 'literal'" (field comparisons, other tag
   operators, time bounds, regexes...): the theorems hold for every such valuation *)

Definition g_contains (g : group) (t : Z) : bool := (g_start g <=? t) && (t <? g_end g).
Definition g_writable (g : group) (t : Z) : bool :=
  g_contains g t && negb (g_deleted g) && match g_trunc g with None => true | Some tr => t <? tr end.
(* ShardGroupByTimestampAndEngineType scans from the end of the sorted list *)
Definition find_group (gs : list group) (t : Z) : option group := find (fun g => g_writable g t) (rev gs).

(* ------------------------------------------------------------------ shard key *)
(* the sorted merge of UnmarshalShardKeyByTag (write) and of TargetShards (read): pairs selected so far, and
   whether every shard-key tag was found *)
Definition is_nil_list (l : list str) : bool := match l with [] => true | _ => false end.
Fixpoint sel_keys (sk : list str) (tags : tagset) {struct tags} : tagset * bool :=
  match tags with
  | [] => ([], is_nil_list sk)
  | (tk, tv) :: tags' =>
      match sk with
      | [] => ([], true)
      | k :: sk' =>
          if str_ltb k tk then ([], false)
          else if str_eqb k tk then let r := sel_keys sk' tags' in ((tk, tv) :: fst r, snd r)
          else sel_keys sk tags'
      end
  end.

Fixpoint has_adj_dup (tags : tagset) : bool :=
  match tags with
  | a :: (b :: _) as r => str_eqb (fst a) (fst b) || has_adj_dup r
  | _ => false
  end.

Definition kv_bytes (kv : str * str) : str := (44 :: fst kv ++ 61 :: snd kv)%N.      (* ",k=v" *)
Definition key_suffix (kvs : tagset) : str := concat (map kv_bytes kvs).

(* the pairs that make up Row.ShardKey, None = the point is rejected (missing shard-key tag or duplicate tag) *)
Definition wkey (c : cfg) (p : point) : option tagset :=
  if has_adj_dup (p_tags p) then None
  else match c_sk c with
       | [] => Some (p_tags p)
       | sk => let r := sel_keys sk (p_tags p) in if snd r then Some (fst r) else None
       end.

Definition eff_idx (c : cfg) (g : group) : list nat :=
  match c_mstidx c with
  | Some m => match find (fun x => N.eqb (fst x) (g_id g)) m with Some x => snd x | None => [] end
  | None => g_alive g
  end.

(* ShardFor: shards[idx[h mod len idx]] *)
Definition shard_for (c : cfg) (h : N) (g : group) : option shard :=
  let idx := eff_idx c g in
  match idx with
  | [] => None
  | _ => match nth_error idx (N.to_nat (h mod N.of_nat (length idx))) with
         | Some i => nth_error (g_shards g) i
         | None => None
         end
  end.

Definition contain (s : shard) (key : str) : bool :=
  str_leb (s_min s) key && (is_nil (s_max s) || str_ltb key (s_max s)).
Definition dest_shard (key : str) (g : group) : option shard := find (fun s => contain s key) (g_shards g).

Definition contain_prefix (s : shard) (prefix : str) : bool :=
  (if (length prefix <? length (s_min s))%nat then str_leb (firstn (length prefix) (s_min s)) prefix
   else is_nil (s_min s) || str_leb (s_min s) prefix)
  && (is_nil (s_max s) || str_ltb prefix (s_max s)).

(* key ranges of a range-sharded group. CreateShardGroupWithBounds (Data.ReSharding): len(bounds)+1 shards, shard i owns
   [bounds[i-1], bounds[i]) with the first Min and the last Max empty (= open) *)
Fixpoint ranges_of (lo : str) (bounds : list str) : list (str * str) :=
  match bounds with
  | [] => [(lo, [])]
  | b :: r => (lo, b) :: ranges_of b r
  end.
Definition shard_ranges (g : group) : list (str * str) := map (fun s => (s_min s, s_max s)) (g_shards g).
(* createShards for a range-sharded policy: the first group has one shard owning everything, every later group copies the
   key ranges of the newest group (rpi.ShardGroups[len-1]) *)
Definition created_ranges (existing : list group) : list (str * str) :=
  match rev existing with
  | [] => [([], [])]
  | l :: _ => shard_ranges l
  end.
(* ReSharding at split time `split`: the new group is [split+1, end of the newest group) *)
Definition resharded_span (existing : list group) (split : Z) : option (Z * Z) :=
  match rev existing with
  | [] => None
  | l :: _ => Some (split + 1, g_end l)
  end.

(* ------------------------------------------------------------------ the other shard-key builders of the write path *)
(* rows of column-store measurements, rows with a column index and stream results: tags need not be sorted, a key column may be
   a (string) field; x_cols is Row.ColumnToIndex as an association list (column name -> position among tags ++ fields) *)
Record xrow := { x_tags : tagset; x_fields : list (str * str); x_cols : list (str * nat) }.
Definition assoc_find {A} (k : str) (l : list (str * A)) : option (str * A) := find (fun kv => str_eqb (fst kv) k) l.
(* Row.UnmarshalShardKeyByField (column store): per key column, in the order of the key, the first tag of that name, else the
   first field of that name, else the row is rejected. No duplicate check. An empty key gives the measurement name alone. *)
Fixpoint by_field (sk : list str) (r : xrow) : option tagset :=
  match sk with
  | [] => Some []
  | k :: sk' =>
      match assoc_find k (x_tags r) with
      | Some kv => option_map (cons kv) (by_field sk' r)
      | None => match assoc_find k (x_fields r) with
                | Some kv => option_map (cons kv) (by_field sk' r)
                | None => None
                end
      end
  end.
(* Row.UnmarshalShardKeyByTagOp: an empty key takes every tag in row order; else per key column the position from the column
   index, which must hold a tag or a field of exactly that name *)
Fixpoint by_cols (sk : list str) (r : xrow) : option tagset :=
  match sk with
  | [] => Some []
  | k :: sk' =>
      match assoc_find k (x_cols r) with
      | None => None
      | Some (_, id) =>
          let nt := length (x_tags r) in
          match (if (id <? nt)%nat then nth_error (x_tags r) id else nth_error (x_fields r) (id - nt)) with
          | Some kv => if str_eqb (fst kv) k then option_map (cons kv) (by_cols sk' r) else None
          | None => None
          end
      end
  end.
Definition by_tagop (sk : list str) (r : xrow) : option tagset :=
  match sk with [] => Some (x_tags r) | _ => by_cols sk r end.
(* Row.UnmarshalShardKeyByDimOrTag (stream results): the destination's key, else the stream's dimensions *)
Definition by_dim_or_tag (sk dims : list str) (r : xrow) : option tagset :=
  match sk, dims with
  | [], _ :: _ => by_tagop dims r
  | _, _ => by_tagop sk r
  end.
Inductive builder := BField | BTagOp | BDim (dims : list str).
Definition build_key (b : builder) (sk : list str) (r : xrow) : option tagset :=
  match b with BField => by_field sk r | BTagOp => by_tagop sk r | BDim dims => by_dim_or_tag sk dims r end.

(* ------------------------------------------------------------------ conditions *)
Inductive expr :=
| EEq (id : N) (k v : str)      (* VarRef k = StringLiteral v *)
| EOther (id : N)               (* any other leaf: other operators, field comparisons, time bounds, reversed operands *)
| EAnd (a b : expr)
| EOr (a b : expr)
| EParen (a : expr).

Definition tag_val (tags : tagset) (k : str) : str :=
  match find (fun kv => str_eqb (fst kv) k) tags with Some kv => snd kv | None => [] end.

Fixpoint eval_expr (tagkeys : list str) (p : point) (e : expr) : bool :=
  match e with
  | EEq id k v => if mem_str k tagkeys then str_eqb (tag_val (p_tags p) k) v else p_leaf p id
  | EOther id => p_leaf p id
  | EAnd a b => eval_expr tagkeys p a && eval_expr tagkeys p b
  | EOr a b => eval_expr tagkeys p a || eval_expr tagkeys p b
  | EParen a => eval_expr tagkeys p a
  end.
Definition eval_cond (c : cfg) (cond : option expr) (p : point) : bool :=
  match cond with None => true | Some e => eval_expr (c_tagkeys c) p e end.

(* which repairs the tree under test carries: the model of today's code is all-false, the repaired one all-true *)
Record variant := { v_or : bool; v_and : bool; v_reset : bool }.
Definition current : variant := {| v_or := false; v_and := false; v_reset := false |}.
Definition repaired : variant := {| v_or := true; v_and := true; v_reset := true |}.

(* getConditionTags; None = nil = no constraint *)
Fixpoint cond_tags (v : variant) (tagkeys : list str) (e : expr) : option (list tagset) :=
  match e with
  | EEq _ k val => if is_time_name k then None else if mem_str k tagkeys then Some [[(k, val)]] else None
  | EOther _ => None
  | EParen _ => None
  | EAnd a b =>
      match cond_tags v tagkeys a, cond_tags v tagkeys b with
      | None, r => r
      | Some ls, None => Some ls
      | Some ls, Some rs =>
          if v_and v then Some (flat_map (fun l => map (fun r => l ++ r) rs) ls)       (* cross product *)
          else Some (map (fun l => l ++ concat rs) ls)                                 (* every alternative into each left set *)
      end
  | EOr a b =>
      match cond_tags v tagkeys a, cond_tags v tagkeys b with
      | Some ls, Some rs => Some (ls ++ rs)
      | None, r => if v_or v then None else r
      | l, None => if v_or v then None else l
      end
  end.
Definition cond_tags_current := cond_tags current.
Definition cond_tags_repaired := cond_tags repaired.

(* sort.Sort(PointTags) by key: insertion sort for short slices (stable: fold_right inserts earlier elements last,
   so an element goes in front of the equal keys already placed) *)
Fixpoint ins_tag (x : str * str) (l : tagset) : tagset :=
  match l with
  | [] => [x]
  | y :: r => if str_ltb (fst y) (fst x) then y :: ins_tag x r else x :: l
  end.
Definition sort_tags (l : tagset) : tagset := fold_right ins_tag [] l.

Definition all_alive (g : group) : list shard :=
  flat_map (fun i => match nth_error (g_shards g) i with Some s => [s] | None => [] end) (g_alive g).

Section WithHash.
Variable hash : str -> N.           (* meta.HashID; nothing is assumed about it *)

Definition hash_arg (c : cfg) (ps : tagset) : str :=
  match c_sk c with [] => c_mst c ++ key_suffix ps | _ => tl (key_suffix ps) end.

Definition route_in (c : cfg) (g : group) (p : point) : option shard :=
  match wkey c p with
  | None => None
  | Some ps =>
      match c_typ c with
      | Range => dest_shard (c_mst c ++ key_suffix ps) g
      | Hash => shard_for c (hash (hash_arg c ps)) g
      end
  end.

(* updateShardGroupAndShardKey with one of the other builders: the bytes hashed are the pairs without the measurement name
   iff the key in force is non-empty (hash_arg), range sharding compares name ++ pairs *)
Definition route_in_x (b : builder) (c : cfg) (g : group) (r : xrow) : option shard :=
  match build_key b (c_sk c) r with
  | None => None
  | Some ps =>
      match c_typ c with
      | Range => dest_shard (c_mst c ++ key_suffix ps) g
      | Hash => shard_for c (hash (hash_arg c ps)) g
      end
  end.

(* routeAndCalculateStreamRows, cases 2 and 3 ("same distribution"): the shard of the stream's DESTINATION measurement is chosen
   by updateShardGroupAndShardKey(.., stream = true, reuseShardKey = true) with the bytes already built for the SOURCE row
   (hash sharding): the destination's index list, the source's key bytes *)
Definition route_reuse (csrc cdst : cfg) (g : group) (p : point) : option shard :=
  match wkey csrc p with
  | None => None
  | Some ps => match c_typ cdst with
               | Hash => shard_for cdst (hash (hash_arg csrc ps)) g
               | Range => None
               end
  end.

(* the write path on a catalogue in which the group for the timestamp exists (after CreateShardGroup) *)
Definition route (c : cfg) (p : point) : option (group * shard) :=
  match find_group (c_groups c) (p_time p) with
  | None => None
  | Some g => match route_in c g p with Some s => Some (g, s) | None => None end
  end.

(* shardKeyAndValue[len(mst.Name)+1:] *)
Definition after_name (c : cfg) (key : str) : str := skipn (S (length (c_mst c))) key.

(* write_helper.go createShardGroup: the group of the previous row of the batch is reused when its span contains the
   timestamp (only the span is looked at), otherwise the catalogue is consulted *)
Definition pick_group (cache : option group) (gs : list group) (t : Z) : option group :=
  match cache with
  | Some g => if g_contains g t then Some g else find_group gs t
  | None => find_group gs t
  end.
Definition route_cached (cache : option group) (c : cfg) (p : point) : option (group * shard) :=
  match pick_group cache (c_groups c) (p_time p) with
  | None => None
  | Some g => match route_in c g p with Some s => Some (g, s) | None => None end
  end.

(* CreateShardGroup when no writable group takes the timestamp: a live group [trunc(t,d), +d) is added (the catalogue is
   kept sorted by the real code; the position does not matter for the lookup of t because no other writable group
   contains t) *)
Definition new_group (gid : N) (t d : Z) (shards : list shard) (alive : list nat) : group :=
  {| g_id := gid; g_start := fst (span_of t d); g_end := snd (span_of t d); g_deleted := false; g_trunc := None;
     g_shards := shards; g_alive := alive |}.
Definition ensure_group (c : cfg) (t : Z) (gid : N) (shards : list shard) (alive : list nat) : cfg :=
  match find_group (c_groups c) t with
  | Some _ => c
  | None => {| c_mst := c_mst c; c_tagkeys := c_tagkeys c; c_sk := c_sk c; c_typ := c_typ c; c_dur := c_dur c;
               c_groups := c_groups c ++ [new_group gid t (c_dur c) shards alive]; c_mstidx := c_mstidx c |}
  end.

(* ------------------------------------------------------------------ several measurements, shard-key history, batches *)
(* a measurement: its configuration (c_sk is a placeholder) and MeasurementInfo.ShardKeys as (ShardGroup threshold, key) *)
Record mcfg := {
  m_cfg : cfg; m_vers : list (N * list str);
  m_db : list str     (* DatabaseInfo.ShardKey.ShardKey of the measurement's database, [] = the database has no shard key.
                         CREATE DATABASE .. WITH SHARDKEY stores the tag list without a sharding type, and both the write
                         path and TargetShards treat every type other than "range" as hashing *)
}.
Definition set_sk (c : cfg) (sk : list str) : cfg :=
  {| c_mst := c_mst c; c_tagkeys := c_tagkeys c; c_sk := sk; c_typ := c_typ c; c_dur := c_dur c;
     c_groups := c_groups c; c_mstidx := c_mstidx c |}.
Definition set_typ (c : cfg) (t : shtype) : cfg :=
  {| c_mst := c_mst c; c_tagkeys := c_tagkeys c; c_sk := c_sk c; c_typ := t; c_dur := c_dur c;
     c_groups := c_groups c; c_mstidx := c_mstidx c |}.
(* the measurement's configuration with the sharding type in force: a database-level key is always hashed *)
Definition base_cfg (m : mcfg) : cfg := match m_db m with [] => m_cfg m | _ :: _ => set_typ (m_cfg m) Hash end.
(* GetShardKey(group id): the last entry whose threshold is <= the id *)
Fixpoint sk_scan (vs : list (N * list str)) (gid : N) : option (list str) :=
  match vs with
  | [] => None
  | (thr, sk) :: r => match sk_scan r gid with
                      | Some x => Some x
                      | None => if N.leb thr gid then Some sk else None
                      end
  end.
(* WRITE side, points_writer.go updateShardGroupAndShardKey (and stream.go):
     if len(di.ShardKey.ShardKey) > 0 { si = &di.ShardKey } else { si = mi.GetShardKey(sg.ID) } *)
Definition wkey_in_force (m : mcfg) (gid : N) : option (list str) :=
  match m_db m with _ :: _ => Some (m_db m) | [] => sk_scan (m_vers m) gid end.
(* READ side, shard_mapper.go: getTargetShardMsg sets shardKeyInfo = &dbi.ShardKey iff len(dbi.ShardKey.ShardKey) > 0, once
   per query; mapMstShards, per group: groupShardKeyInfo := shardKeyInfo; if nil, measurements[0].GetShardKey(group id) *)
Definition db_key_read (m : mcfg) : option (list str) := if (0 <? length (m_db m))%nat then Some (m_db m) else None.
Definition rkey_in_force (m : mcfg) (gid : N) : option (list str) :=
  match db_key_read m with Some k => Some k | None => sk_scan (m_vers m) gid end.
(* the other precedence ("the more specific definition wins": the measurement's own key, the database's only when the
   measurement has none) - NOT what the write side does; refuted in Refuted.v *)
Definition rkey_mst_first (m : mcfg) (gid : N) : option (list str) :=
  match sk_scan (m_vers m) gid with
  | Some (k :: r) => Some (k :: r)
  | o => match db_key_read m with Some k => Some k | None => o end
  end.
(* configuration in force for a group on the read side; no entry = nil ShardKeyInfo: the read path consults every shard *)
Definition cfg_with (m : mcfg) (k : option (list str)) : cfg :=
  set_sk (base_cfg m) (match k with Some sk => sk | None => [] end).
Definition cfg_at (m : mcfg) (gid : N) : cfg := cfg_with m (rkey_in_force m gid).

(* routeAndMapOriginRows: one ingestion context per batch remembers the previous row's shard group (preSg), the
   previous row's measurement (preMst / sameMst) and the shard-key definition last looked up (ctx.shardKeyInfo), which is
   looked up again only when the group or the measurement changed *)
Inductive rowkind :=
| RRoute
| RDrop     (* the row is rejected by the schema check, after its measurement was resolved and before it is routed *)
| RSkip.    (* the row is rejected before its measurement is looked at (timestamp outside the retention window) *)
Record brow := { r_m : mcfg; r_kind : rowkind; r_p : point }.
Record bstate := { b_sg : option group; b_mst : option str; b_sk : option (list str);
                   b_asis : bool (* the remembered alive-shard list (ctx.aliveShardIdxes) is non-empty *) }.
Definition b_empty : bstate := {| b_sg := None; b_mst := None; b_sk := None; b_asis := false |}.

(* use_cache = true: today's code; false: the shard key is looked up for every row *)
Definition batch_step (use_cache : bool) (st : bstate) (r : brow) : bstate * option (group * shard) :=
  let c0 := base_cfg (r_m r) in
  let same_mst := match b_mst st with Some n => str_eqb n (c_mst c0) | None => false end in
  match r_kind r with
  | RSkip => (st, None)
  | RDrop => ({| b_sg := b_sg st; b_mst := Some (c_mst c0); b_sk := b_sk st; b_asis := b_asis st |}, None)
  | RRoute =>
      let t := p_time (r_p r) in
      (* sameSg: the remembered group takes the timestamp and an alive list was stored for it (a row that failed while its
         shard key was built leaves the list empty) *)
      let same_sg := match b_sg st with Some g => g_contains g t | None => false end && b_asis st in
      match pick_group (b_sg st) (c_groups c0) t with
      | None => ({| b_sg := None; b_mst := Some (c_mst c0); b_sk := b_sk st; b_asis := b_asis st |}, None)
          (* no group: the real loop returns the error and the batch ends; the model goes on without a cached group *)
      | Some g =>
          let sk := if use_cache && same_sg && same_mst then b_sk st else wkey_in_force (r_m r) (g_id g) in
          match sk with
          | None => ({| b_sg := Some g; b_mst := Some (c_mst c0); b_sk := None; b_asis := b_asis st |}, None)
          | Some k =>
              match wkey (set_sk c0 k) (r_p r) with
              | None => ({| b_sg := Some g; b_mst := Some (c_mst c0); b_sk := Some k; b_asis := b_asis st |}, None)
              | Some _ =>
                  ({| b_sg := Some g; b_mst := Some (c_mst c0); b_sk := Some k;
                      b_asis := if same_sg then true else match g_alive g with [] => false | _ => true end |},
                   match route_in (set_sk c0 k) g (r_p r) with Some s => Some (g, s) | None => None end)
              end
          end
      end
  end.

Fixpoint batch_run (use_cache : bool) (st : bstate) (rows : list brow) : list (option (group * shard)) :=
  match rows with
  | [] => []
  | r :: rest => let x := batch_step use_cache st r in snd x :: batch_run use_cache (fst x) rest
  end.

(* the loop of TargetShards over the tag sets; None = "return every alive shard" *)
Fixpoint tloop (v : variant) (c : cfg) (g : group) (acc : str) (tss : list tagset) : option (list shard) :=
  match tss with
  | [] => Some []
  | ts :: rest =>
      let r := sel_keys (c_sk c) (sort_tags ts) in
      let key := (if v_reset v then c_mst c else acc) ++ key_suffix (fst r) in
      match c_typ c with
      | Range => match tloop v c g key rest with
                 | Some res => Some (filter (fun s => contain_prefix s key) (g_shards g) ++ res)
                 | None => None
                 end
      | Hash => if snd r then
                  match tloop v c g key rest with
                  | Some res => Some (match shard_for c (hash (after_name c key)) g with
                                      | Some s => [s] | None => [] end ++ res)
                  | None => None
                  end
                else None
      end
  end.

Definition target_group (v : variant) (c : cfg) (g : group) (cond : option expr) : list shard :=
  match c_sk c with
  | [] => all_alive g
  | _ => match cond with
         | None => all_alive g
         | Some e => match cond_tags v (c_tagkeys c) e with
                     | None => all_alive g
                     | Some tss => match tloop v c g (c_mst c) tss with Some res => res | None => all_alive g end
                     end
         end
  end.

(* TargetShardsHintQuery (full_series hint): only a condition that yields exactly one tag set prunes. Today the hashed key
   is built from ALL tags of that set (UnmarshalShardKeyByTag(nil)); repaired: from the measurement's shard-key tags, and
   no pruning when the set does not bind all of them. Without a shard key the key is the measurement name and all tags
   of the set, as on the write side when the set is the row's full tag set. *)
Definition hint_point (sorted : tagset) : point := {| p_tags := sorted; p_time := 0; p_leaf := fun _ => false |}.
Definition target_hint (rep : bool) (v : variant) (c : cfg) (g : group) (cond : option expr) : list shard :=
  match cond with
  | None => all_alive g
  | Some e =>
      match cond_tags v (c_tagkeys c) e with
      | Some [ts] =>
          let sorted := sort_tags ts in
          let one := fun key => match shard_for c (hash key) g with Some s => [s] | None => [] end in
          if rep then
            (* the real code builds a Row from the tag set and calls the write path's UnmarshalShardKeyByTag: duplicate
               tags or a missing shard-key tag = no pruning *)
            match wkey c (hint_point sorted) with
            | Some ps => one (hash_arg c ps)
            | None => all_alive g
            end
          else match c_sk c with
               | [] => one (c_mst c ++ key_suffix sorted)
               | _ => one (tl (key_suffix sorted))
               end
      | _ => all_alive g
      end
  end.

(* Hint queries on a RANGE-sharded measurement. Today getShardsAndSeriesKeyForHintQuery always hashes (ShardFor), although
   the write path places rows of a range-sharded measurement by key range (DestShard): range_rep = false is target_hint,
   i.e. today's code; range_rep = true looks the key (measurement name + shard-key pairs, as on the write side) up by range. *)
Definition opt_shard (o : option shard) : list shard := match o with Some s => [s] | None => [] end.
Definition target_hint_range (range_rep : bool) (v : variant) (c : cfg) (g : group) (cond : option expr) : list shard :=
  match c_typ c, range_rep with
  | Range, true =>
      match cond with
      | None => all_alive g
      | Some e =>
          match cond_tags v (c_tagkeys c) e with
          | Some [ts] =>
              match wkey c (hint_point (sort_tags ts)) with
              | Some ps => opt_shard (dest_shard (c_mst c ++ key_suffix ps) g)
              | None => all_alive g
              end
          | _ => all_alive g
          end
      end
  | _, _ => target_hint true v c g cond
  end.
(* specific_series: prunes only when the single tag set has as many entries as the schema has tags *)
Definition target_hint_kind (specific : bool) (range_rep : bool) (v : variant) (c : cfg) (g : group) (cond : option expr)
  : list shard :=
  if specific then
    match cond with
    | None => all_alive g
    | Some e => match cond_tags v (c_tagkeys c) e with
                | Some [ts] => if Nat.eqb (length ts) (length (c_tagkeys c)) then target_hint_range range_rep v c g cond
                               else all_alive g
                | _ => all_alive g
                end
    end
  else target_hint_range range_rep v c g cond.

(* hard-write (coordinator.hard-write = true): writes hash over EVERY shard of the group, whatever the state of the partitions.
   Today the read side still hashes over the shards alive when the query runs. Repair (props/C11/fix5.patch, mapMstShards): look
   the key up in the list the writes use, then keep the shards that are alive. *)
Definition full_list (g : group) : list nat := seq 0 (length (g_shards g)).
Definition is_alive_b (g : group) (s : shard) : bool := existsb (fun x => N.eqb (s_id x) (s_id s)) (all_alive g).
Definition target_group_hw (v : variant) (c : cfg) (g : group) (cond : option expr) : list shard :=
  filter (is_alive_b g) (target_group v c (set_alive g (full_list g)) cond).
Definition target_hint_hw (specific range_rep : bool) (v : variant) (c : cfg) (g : group) (cond : option expr) : list shard :=
  filter (is_alive_b g) (target_hint_kind specific range_rep v c (set_alive g (full_list g)) cond).

Definition g_overlaps (g : group) (tmin tmax : Z) : bool := (g_start g <=? tmax) && (tmin <? g_end g).
Definition query_groups (c : cfg) (tmin tmax : Z) : list group :=
  filter (fun g => negb (g_deleted g) && g_overlaps g tmin tmax) (c_groups c).

(* what the read path consults: (group id, shard id) *)
Definition target (v : variant) (c : cfg) (tmin tmax : Z) (cond : option expr) : list (N * N) :=
  flat_map (fun g => map (fun s => (g_id g, s_id s)) (target_group v c g cond)) (query_groups c tmin tmax).

(* mapMstShards: the shard key used for pruning; today the key of the FIRST selected group is kept for all groups
   (v_ski = false), repaired: the key in force for each group *)
Definition target_m (v : variant) (per_group_key : bool) (m : mcfg) (tmin tmax : Z) (cond : option expr) : list (N * N) :=
  let qs := query_groups (m_cfg m) tmin tmax in
  flat_map (fun g =>
              let gid := if per_group_key then g_id g else match qs with g0 :: _ => g_id g0 | [] => g_id g end in
              map (fun s => (g_id g, s_id s)) (target_group v (cfg_at m gid) g cond)) qs.

(* mapMstShards with an arbitrary rule for the key in force (per group): rkey_in_force is today's code *)
Definition target_m_by (keyf : mcfg -> N -> option (list str)) (v : variant) (m : mcfg) (tmin tmax : Z) (cond : option expr)
  : list (N * N) :=
  flat_map (fun g => map (fun s => (g_id g, s_id s)) (target_group v (cfg_with m (keyf m (g_id g))) g cond))
           (query_groups (m_cfg m) tmin tmax).

Definition consulted (v : variant) (c : cfg) (tmin tmax : Z) (cond : option expr) (gs : group * shard) : bool :=
  existsb (fun x => N.eqb (fst x) (g_id (fst gs)) && N.eqb (snd x) (s_id (snd gs))) (target v c tmin tmax cond).

(* rows a query returns out of a set of written rows: those stored in a consulted shard that satisfy the query *)
Definition answer (v : variant) (c : cfg) (tmin tmax : Z) (cond : option expr) (ps : list point) : list point :=
  filter (fun p => match route c p with
                   | Some gs => consulted v c tmin tmax cond gs && (tmin <=? p_time p) && (p_time p <=? tmax) && eval_cond c cond p
                   | None => false
                   end) ps.
End WithHash.

(* ------------------------------------------------------------------ XXH64 (seed 0), the repository's HashID; used by the
   correspondence and the witnesses only - the theorems quantify over the hash *)
Open Scope N_scope.
Definition m64 : N := 18446744073709551616.
Definition P1 : N := 11400714785074694791.
Definition P2 : N := 14029467366897019727.
Definition P3 : N := 1609587929392839161.
Definition P4 : N := 9650029242287828579.
Definition P5 : N := 2870177450012600261.
Definition add64 (a b : N) := (a + b) mod m64.
Definition mul64 (a b : N) := (a * b) mod m64.
Definition rotl64 (x : N) (r : N) := N.lor (N.shiftl x r mod m64) (N.shiftr x (64 - r)).
Fixpoint le_bytes (l : list N) : N := match l with [] => 0 | b :: r => b + 256 * le_bytes r end.
Definition xround (acc inp : N) := mul64 (rotl64 (add64 acc (mul64 inp P2)) 31) P1.
Definition xmerge (acc v : N) := add64 (mul64 (N.lxor acc (xround 0 v)) P1) P4.

Fixpoint stripes (fuel : nat) (l : list N) (v : N * N * N * N) : (N * N * N * N) * list N :=
  match fuel with
  | O => (v, l)
  | S f =>
      if (32 <=? length l)%nat then
        let '(v1, v2, v3, v4) := v in
        stripes f (skipn 32 l)
          (xround v1 (le_bytes (firstn 8 l)), xround v2 (le_bytes (firstn 8 (skipn 8 l))),
           xround v3 (le_bytes (firstn 8 (skipn 16 l))), xround v4 (le_bytes (firstn 8 (skipn 24 l))))
      else (v, l)
  end.
Fixpoint tail8 (fuel : nat) (l : list N) (h : N) : N * list N :=
  match fuel with
  | O => (h, l)
  | S f => if (8 <=? length l)%nat
           then tail8 f (skipn 8 l) (add64 (mul64 (rotl64 (N.lxor h (xround 0 (le_bytes (firstn 8 l)))) 27) P1) P4)
           else (h, l)
  end.
Definition tail4 (l : list N) (h : N) : N * list N :=
  if (4 <=? length l)%nat
  then (add64 (mul64 (rotl64 (N.lxor h (mul64 (le_bytes (firstn 4 l)) P1)) 23) P2) P3, skipn 4 l)
  else (h, l).
Fixpoint tail1 (l : list N) (h : N) : N :=
  match l with [] => h | b :: r => tail1 r (mul64 (rotl64 (N.lxor h (mul64 b P5)) 11) P1) end.
Definition avalanche (h : N) : N :=
  let h := N.lxor h (N.shiftr h 33) in let h := mul64 h P2 in
  let h := N.lxor h (N.shiftr h 29) in let h := mul64 h P3 in N.lxor h (N.shiftr h 32).
Definition xxh64 (l : list N) : N :=
  let n := N.of_nat (length l) in
  let '(h0, rest) :=
    if (32 <=? length l)%nat then
      let '((v1, v2, v3, v4), rest) := stripes (length l) l (add64 P1 P2, P2, 0, (m64 - P1)) in
      let h := add64 (add64 (rotl64 v1 1) (rotl64 v2 7)) (add64 (rotl64 v3 12) (rotl64 v4 18)) in
      (xmerge (xmerge (xmerge (xmerge h v1) v2) v3) v4, rest)
    else (P5, l) in
  let h := add64 h0 n in
  let '(h, rest) := tail8 (length rest) rest h in
  let '(h, rest) := tail4 rest h in
  avalanche (tail1 rest h).
