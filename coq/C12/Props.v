(* C12 property theorems. Nothing but statements closed by `exact lemma` and Print Assumptions. *)
From Coq Require Import ZArith NArith List Bool.
From OG Require Import C12.Model C12.Proofs C12.ProofsParse C12.ProofsSet C12.ProofsLex C12.ProofsLexMain C12.Gen_Tokens C12.Inst.
Import ListNotations.
Open Scope N_scope.

(* MAIN: for every precedence table, operator map and keyword list, and either printer variant: an expression in
   canonical form (what a round trip can produce: parenthesisation consistent with the table, every operator known
   to ParseExpr, literals in range, regex only where the parser reads one) prints to a token sequence that the
   spine-insertion parser reads back as exactly the same tree - same operators, grouping, literal types and values,
   identifiers, casts, regex sources, call names and arities. *)
Theorem C12_print_parse : forall prec isop kws nr dr e,
  canon prec isop kws nr dr false e = true -> Model.parse prec isop (print_toks nr dr e) = Some e.
Proof. exact print_parse. Qed.
Print Assumptions C12_print_parse.

(* the same for the repository's live tables (Gen_Tokens.v) and the repaired printers *)
Theorem C12_print_parse_repo : forall e, canon_v true true e = true -> Inst.parse (print_toks_v true true e) = Some e.
Proof. exact (fun e => print_parse Inst.prec Inst.isop keywords true true e). Qed.
Print Assumptions C12_print_parse_repo.

(* LEXING: for all tables that satisfy the (decidable) table condition lex_tables - every operator ParseExpr knows is
   printed as the text the scanner reads as that operator, cast names / true / false scan as themselves, Inf and NaN are
   not keywords - and every canonical expression: the scanner run on the printed TEXT (String()) yields exactly the
   printed token sequence.  Canonical strings/identifiers exclude NUL and CR (the reader maps CR to LF and ends at NUL),
   canonical regex sources also LF and a trailing backslash. *)
Theorem C12_scan_print : forall prec isop op_text kws op_of_code ct cf cfield ctag cdistinct nr dr,
  lex_tables isop op_text kws op_of_code ct cf cfield ctag cdistinct ->
  forall e, canon prec isop kws nr dr false e = true ->
  Model.scan kws op_of_code ct cf cfield ctag cdistinct (Model.print_text op_text kws nr dr e) = print_toks nr dr e.
Proof. exact scan_print. Qed.
Print Assumptions C12_scan_print.

(* END TO END on text: print with String(), scan, parse with the precedence parser: the same tree *)
Theorem C12_print_scan_parse : forall prec isop op_text kws op_of_code ct cf cfield ctag cdistinct nr dr,
  lex_tables isop op_text kws op_of_code ct cf cfield ctag cdistinct ->
  forall e, canon prec isop kws nr dr false e = true ->
  Model.parse prec isop (Model.scan kws op_of_code ct cf cfield ctag cdistinct (Model.print_text op_text kws nr dr e)) = Some e.
Proof. exact print_scan_parse. Qed.
Print Assumptions C12_print_scan_parse.

(* the repository's live tables (Gen_Tokens.v, regenerated on every run) satisfy the table condition *)
Theorem C12_lex_tables_repo :
  lex_tables Inst.isop Inst.op_text keywords Inst.op_of_code code_true code_false code_field code_tag code_distinct.
Proof. apply lex_tables_reflect. vm_compute. reflexivity. Qed.
Print Assumptions C12_lex_tables_repo.

(* hence, for the live tables and either printer variant *)
Theorem C12_print_scan_parse_repo : forall nr dr e, canon_v nr dr e = true ->
  Inst.parse (Inst.scan (print_text_v nr dr e)) = Some e.
Proof.
  exact (fun nr dr => print_scan_parse Inst.prec Inst.isop Inst.op_text keywords Inst.op_of_code code_true code_false
           code_field code_tag code_distinct nr dr C12_lex_tables_repo).
Qed.
Print Assumptions C12_print_scan_parse_repo.

(* the insertion algorithm of ParseExpr rebuilds every tree whose parenthesisation agrees with the table *)
Theorem C12_spine_rebuild : forall prec e, pcanon prec e = true -> build prec (fst (spine e)) (snd (spine e)) = e.
Proof. exact (fun prec => build_spine prec (fun _ => true)). Qed.
Print Assumptions C12_spine_rebuild.

(* literals *)
Theorem C12_int_digits : forall n, digits_val (digits n) = Some n.
Proof. exact digits_roundtrip. Qed.
Print Assumptions C12_int_digits.

Theorem C12_duration_roundtrip : forall prec isop z f rest,
  ((- Z.of_N max_int64 <=? z) && (z <=? Z.of_N max_int64))%Z && (true || (Z.rem z ns_us =? 0)%Z) = true ->
  parse_unary prec isop (S (S f)) (duration_toks true z ++ rest) = Some (EDur z, rest).
Proof. exact (fun prec isop => duration_parse prec isop true). Qed.
Print Assumptions C12_duration_roundtrip.

Theorem C12_number_roundtrip : forall ip fp, frac_ok fp = true ->
  parse_number (digits ip ++ match fp with [] => [46; 48] | _ => 46 :: frac_text fp end) = Some (ip, fp).
Proof. exact parse_number_print. Qed.
Print Assumptions C12_number_roundtrip.

Theorem C12_quote_string_roundtrip : forall s rest, wf_str s = true ->
  match quote_string s ++ rest with
  | q :: body => q = 39 /\ unquote 39 body [] = Some (s, rest)
  | [] => False
  end.
Proof. exact quote_string_roundtrip. Qed.
Print Assumptions C12_quote_string_roundtrip.

Theorem C12_quote_ident_roundtrip : forall kws s rest, wf_str s = true ->
  if ident_needs_quotes kws s
  then match Model.quote_ident kws s ++ rest with
       | q :: body => q = 34 /\ unquote 34 body [] = Some (s, rest)
       | [] => False
       end
  else bare_ok s = true /\ kw_lookup kws (lower s) = None.
Proof. exact quote_ident_roundtrip. Qed.
Print Assumptions C12_quote_ident_roundtrip.

(* IN sets: members that are strings or numbers without a sign survive print -> parseSet (negative ones do not: Refuted.v) *)
Theorem C12_set_roundtrip_nonneg : forall vs, forallb setval_nonneg vs = true -> parse_set (set_print_toks vs) = Some vs.
Proof. exact set_roundtrip_nonneg. Qed.
Print Assumptions C12_set_roundtrip_nonneg.

(* non-vacuity: canonical expressions exist (64-bit limits, quotes, casts, calls, regexes, nested parentheses) *)
Definition ex1 : expr :=
  EBin OOr
    (EBin OAnd (EBin OGt (EBin ODiv (EVar [97] DUnknown) (ENum false 2 [])) (ENum false 1 [2]))
               (EBin OEqRegex (EVar [104;111;115;116] DTag) (ERegex [97;47;98])))
    (EParen (EBin OEq (ECall [102] [EInt (-9223372036854775808); EUnsigned 18446744073709551615; EWild WField; ERegex [120]])
                      (EBin OMul (EInt (-1)) (EParen (EBin OAdd (EDur 1) (EStr [105;116;39;115;10;92])))))).
Example C12_ex1_canonical : canon_v true true ex1 = true.
Proof. vm_compute. reflexivity. Qed.
Example C12_ex1_roundtrip : Inst.parse (Inst.scan (print_text_v true true ex1)) = Some ex1.
Proof. vm_compute. reflexivity. Qed.
Example C12_int_limits :
  Inst.parse (print_toks_v true true (EBin OSub (EInt (-9223372036854775808)) (EInt 9223372036854775807)))
  = Some (EBin OSub (EInt (-9223372036854775808)) (EInt 9223372036854775807)).
Proof. vm_compute. reflexivity. Qed.
