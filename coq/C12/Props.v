(* C12 property theorems. Nothing but statements closed by `exact lemma` and Print Assumptions. *)
From Coq Require Import ZArith NArith List Bool.
From OG Require Import C12.Model C12.Proofs C12.ProofsParse C12.ProofsSet C12.ProofsLex C12.ProofsLexMain C12.Chunk C12.ChunkProofs C12.Regroup C12.Stmt C12.StmtProofs C12.StmtCorr C12.Gen_Tokens C12.Inst.
Import ListNotations.
Open Scope N_scope.

(* MAIN: for every precedence table, operator map and keyword list, and either printer variant: an expression in
   canonical form (what a round trip can produce: parenthesisation consistent with the table, every operator known
   to ParseExpr, literals in range, regex only where the parser reads one) prints to a token sequence that the
   spine-insertion parser reads back as exactly the same tree - same operators, grouping, literal types and values,
   identifiers, casts, regex sources, call names and arities. *)
Theorem C12_print_parse : forall prec isop kws nr dr e,
  canon prec isop kws nr dr false e = true -> Model.parse prec isop (print_toks nr dr e) = Some e.
Proof. exact print_parse. Qed.
Print Assumptions C12_print_parse.

(* the same for the repository's live tables (Gen_Tokens.v) and the repaired printers *)
Theorem C12_print_parse_repo : forall e, canon_v true true e = true -> Inst.parse (print_toks_v true true e) = Some e.
Proof. exact (fun e => print_parse Inst.prec Inst.isop keywords true true e). Qed.
Print Assumptions C12_print_parse_repo.

(* LEXING: for all tables that satisfy the (decidable) table condition lex_tables - every operator ParseExpr knows is
   printed as the text the scanner reads as that operator, cast names / true / false scan as themselves, Inf and NaN are
   not keywords - and every canonical expression: the scanner run on the printed TEXT (String()) yields exactly the
   printed token sequence.  Canonical strings/identifiers exclude NUL and CR (the reader maps CR to LF and ends at NUL),
   canonical regex sources also LF and a trailing backslash. *)
Theorem C12_scan_print : forall prec isop op_text kws op_of_code ct cf cfield ctag cdistinct nr dr,
  lex_tables isop op_text kws op_of_code ct cf cfield ctag cdistinct ->
  forall e, canon prec isop kws nr dr false e = true ->
  Model.scan kws op_of_code ct cf cfield ctag cdistinct (Model.print_text op_text kws nr dr e) = print_toks nr dr e.
Proof. exact scan_print. Qed.
Print Assumptions C12_scan_print.

(* END TO END on text: print with String(), scan, parse with the precedence parser: the same tree *)
Theorem C12_print_scan_parse : forall prec isop op_text kws op_of_code ct cf cfield ctag cdistinct nr dr,
  lex_tables isop op_text kws op_of_code ct cf cfield ctag cdistinct ->
  forall e, canon prec isop kws nr dr false e = true ->
  Model.parse prec isop (Model.scan kws op_of_code ct cf cfield ctag cdistinct (Model.print_text op_text kws nr dr e)) = Some e.
Proof. exact print_scan_parse. Qed.
Print Assumptions C12_print_scan_parse.

(* the repository's live tables (Gen_Tokens.v, regenerated on every run) satisfy the table condition *)
Theorem C12_lex_tables_repo :
  lex_tables Inst.isop Inst.op_text keywords Inst.op_of_code code_true code_false code_field code_tag code_distinct.
Proof. apply lex_tables_reflect. vm_compute. reflexivity. Qed.
Print Assumptions C12_lex_tables_repo.

(* hence, for the live tables and either printer variant *)
Theorem C12_print_scan_parse_repo : forall nr dr e, canon_v nr dr e = true ->
  Inst.parse (Inst.scan (print_text_v nr dr e)) = Some e.
Proof.
  exact (fun nr dr => print_scan_parse Inst.prec Inst.isop Inst.op_text keywords Inst.op_of_code code_true code_false
           code_field code_tag code_distinct nr dr C12_lex_tables_repo).
Qed.
Print Assumptions C12_print_scan_parse_repo.

(* the insertion algorithm of ParseExpr rebuilds every tree whose parenthesisation agrees with the table *)
Theorem C12_spine_rebuild : forall prec e, pcanon prec e = true -> build prec (fst (spine e)) (snd (spine e)) = e.
Proof. exact (fun prec => build_spine prec (fun _ => true)). Qed.
Print Assumptions C12_spine_rebuild.

(* literals *)
Theorem C12_int_digits : forall n, digits_val (digits n) = Some n.
Proof. exact digits_roundtrip. Qed.
Print Assumptions C12_int_digits.

Theorem C12_duration_roundtrip : forall prec isop z f rest,
  ((- Z.of_N max_int64 <=? z) && (z <=? Z.of_N max_int64))%Z && (true || (Z.rem z ns_us =? 0)%Z) = true ->
  parse_unary prec isop (S (S f)) (duration_toks true z ++ rest) = Some (EDur z, rest).
Proof. exact (fun prec isop => duration_parse prec isop true). Qed.
Print Assumptions C12_duration_roundtrip.

Theorem C12_number_roundtrip : forall ip fp, frac_ok fp = true ->
  parse_number (digits ip ++ match fp with [] => [46; 48] | _ => 46 :: frac_text fp end) = Some (ip, fp).
Proof. exact parse_number_print. Qed.
Print Assumptions C12_number_roundtrip.

Theorem C12_quote_string_roundtrip : forall s rest, wf_str s = true ->
  match quote_string s ++ rest with
  | q :: body => q = 39 /\ unquote 39 body [] = Some (s, rest)
  | [] => False
  end.
Proof. exact quote_string_roundtrip. Qed.
Print Assumptions C12_quote_string_roundtrip.

Theorem C12_quote_ident_roundtrip : forall kws s rest, wf_str s = true ->
  if ident_needs_quotes kws s
  then match Model.quote_ident kws s ++ rest with
       | q :: body => q = 34 /\ unquote 34 body [] = Some (s, rest)
       | [] => False
       end
  else bare_ok s = true /\ kw_lookup kws (lower s) = None.
Proof. exact quote_ident_roundtrip. Qed.
Print Assumptions C12_quote_ident_roundtrip.

(* IN sets: members that are strings or numbers without a sign survive print -> parseSet (negative ones do not: Refuted.v) *)
Theorem C12_set_roundtrip_nonneg : forall vs, forallb setval_nonneg vs = true -> parse_set (set_print_toks vs) = Some vs.
Proof. exact set_roundtrip_nonneg. Qed.
Print Assumptions C12_set_roundtrip_nonneg.

(* non-vacuity: canonical expressions exist (64-bit limits, quotes, casts, calls, regexes, nested parentheses) *)
Definition ex1 : expr :=
  EBin OOr
    (EBin OAnd (EBin OGt (EBin ODiv (EVar [97] DUnknown) (ENum false 2 [])) (ENum false 1 [2]))
               (EBin OEqRegex (EVar [104;111;115;116] DTag) (ERegex [97;47;98])))
    (EParen (EBin OEq (ECall [102] [EInt (-9223372036854775808); EUnsigned 18446744073709551615; EWild WField; ERegex [120]])
                      (EBin OMul (EInt (-1)) (EParen (EBin OAdd (EDur 1) (EStr [105;116;39;115;10;92])))))).
Example C12_ex1_canonical : canon_v true true ex1 = true.
Proof. vm_compute. reflexivity. Qed.
Example C12_ex1_roundtrip : Inst.parse (Inst.scan (print_text_v true true ex1)) = Some ex1.
Proof. vm_compute. reflexivity. Qed.
Example C12_int_limits :
  Inst.parse (print_toks_v true true (EBin OSub (EInt (-9223372036854775808)) (EInt 9223372036854775807)))
  = Some (EBin OSub (EInt (-9223372036854775808)) (EInt 9223372036854775807)).
Proof. vm_compute. reflexivity. Qed.

(* REGROUPING PRINTER (the repaired BinaryExpr printer: an operand that a reader would group differently is printed in
   parentheses; as a tree transformation `fixp`).  For ALL trees whose atoms are printable (`canon_np`: no condition on
   the parenthesisation at all - in particular the statement parser's `(A OR B) AND C` without a ParenExpr and the
   `b / (-1 * a)` of a unary minus) the printed text scans and parses back to the tree plus exactly the parentheses that
   were printed: same operators, same grouping (`strip` removes ParenExpr nodes). *)
Theorem C12_regroup_print_scan_parse : forall prec isop op_text kws op_of_code ct cf cfield ctag cdistinct nr dr,
  lex_tables isop op_text kws op_of_code ct cf cfield ctag cdistinct ->
  forall e, canon_np prec isop kws nr dr false e = true ->
  Model.parse prec isop (Model.scan kws op_of_code ct cf cfield ctag cdistinct (Model.print_text op_text kws nr dr (fixp prec e)))
    = Some (fixp prec e) /\ strip (fixp prec e) = strip e.
Proof.
  intros prec isop op_text kws op_of_code ct cf cfield ctag cdistinct nr dr HT e H. split.
  - apply (print_scan_parse prec isop op_text kws op_of_code ct cf cfield ctag cdistinct nr dr HT).
    apply (fixp_canon prec isop kws nr dr (ProofsParse.size e)); [apply le_n | exact H].
  - apply (strip_fixp prec isop (ProofsParse.size e)). apply le_n.
Qed.
Print Assumptions C12_regroup_print_scan_parse.

(* non-vacuity: the two trees of the open findings satisfy the hypothesis under the live tables, and their repaired text
   reads back with the same grouping *)
Definition ex_and_or : expr :=
  EBin OAnd (EBin OOr (EBin OEq (EVar [97] DUnknown) (EInt 1)) (EBin OEq (EVar [98] DUnknown) (EInt 2))) (EBin OEq (EVar [99] DUnknown) (EInt 3)).
Definition ex_unary_minus : expr := EBin ODiv (EVar [98] DUnknown) (EBin OMul (EInt (-1)) (EVar [97] DUnknown)).
Example C12_ex_regroup_hyp : canon_np Inst.prec Inst.isop keywords true true false ex_and_or = true /\
                             canon_np Inst.prec Inst.isop keywords true true false ex_unary_minus = true.
Proof. split; vm_compute; reflexivity. Qed.
Example C12_ex_regroup_roundtrip :
  option_map strip (Inst.parse (Inst.scan (print_text_v true true (fixp Inst.prec ex_and_or)))) = Some ex_and_or /\
  option_map strip (Inst.parse (Inst.scan (print_text_v true true (fixp Inst.prec ex_unary_minus)))) = Some ex_unary_minus.
Proof. split; vm_compute; reflexivity. Qed.

(* STATEMENTS.  The model of the HAND-WRITTEN statement parser the storage node uses (parseSelectStatement and its parts,
   Stmt.v) reads the token-level print of every canonical statement back as that statement: select list with aliases and
   regex fields, measurement sources in every db.rp.name form, regex sources, sub-queries to ANY depth with alias, WHERE,
   GROUP BY (expressions, time(), regexes), fill, ORDER BY, LIMIT/OFFSET/SLIMIT/SOFFSET, TZ - for all precedence tables,
   operator maps, keyword lists and every injective assignment of token codes to the statement keywords. *)
Theorem C12_parse_source_roundtrip : forall prec isop kws (K : kwid -> N) nr dr,
  (forall a b, K a = K b -> a = b) ->
  forall src f, canon_source prec isop kws nr dr src = true -> (need_src src <= f)%nat ->
  exists R', parse_source prec isop K f (source_toks K nr dr src) = Some (src, R') /\ skip_ws R' = [].
Proof. exact parse_source_roundtrip. Qed.
Print Assumptions C12_parse_source_roundtrip.

(* hybridqp.ParseFields(Fields.String()): SELECT <fields> FROM mock through the same parser *)
Theorem C12_parse_fields_roundtrip : forall prec isop kws (K : kwid -> N) nr dr,
  (forall a b, K a = K b -> a = b) ->
  forall fields f, fields <> [] -> forallb (canon_field prec isop kws nr dr) fields = true -> (length fields + 3 <= f)%nat ->
  parse_stmt prec isop K f (TWs :: sep_toks (field_toks K nr dr) fields ++ [TWs; TKeyword (K KFrom); TWs; TIdent StmtProofs.mock]) =
  Some (Stmt fields [SMst [] [] StmtProofs.mock None] None [] FNull [] 0 0 0 0 None, []).
Proof. exact parse_fields_roundtrip. Qed.
Print Assumptions C12_parse_fields_roundtrip.

(* ParseSortFields(SortFields.String()) *)
Theorem C12_sort_fields_roundtrip : forall (K : kwid -> N), (forall a b, K a = K b -> a = b) ->
  forall sl R, sl <> [] -> hd_is_comma (skip_ws R) = false ->
  parse_sort_fields K (length sl) (sep_toks (sort_toks K) sl ++ R) = Some (sl, skip_ws R).
Proof. exact sort_fields_roundtrip. Qed.
Print Assumptions C12_sort_fields_roundtrip.

(* the live keyword table gives the statement keywords pairwise different token codes *)
Theorem C12_stmt_keywords_repo : forall a b, KI a = KI b -> a = b.
Proof. intros a b H. destruct a, b; try reflexivity; vm_compute in H; discriminate H. Qed.
Print Assumptions C12_stmt_keywords_repo.

(* non-vacuity: a statement with every clause and a nested aliased sub-query is canonical and parses back *)
Definition ex_inner : stmt :=
  Stmt [(ECall [109;101;97;110] [EVar [118] DUnknown], [97])] [SMst [100;98] [] [109] None; SMst [] [114;112] [] (Some [94;99])]
       (Some (EBin OGt (EVar [118] DUnknown) (ENum false 1 [5]))) [ECall [116;105;109;101] [EDur 60000000000]; ERegex [104]]
       FPrev [] 0 0 0 0 None.
Definition ex_stmt_src : source :=
  SSub (Stmt [(ERegex [97], []); (EBin OMul (EVar [97] DUnknown) (EInt 2), [120;32;121])]
             [SSub ex_inner [116;49]; SMst [100;98] [114;112] [109;32;109] None]
             (Some (EBin OEq (EVar [104] DUnknown) (EStr [105;116;39;115]))) [EVar [104] DUnknown] (FNumber (ENum true 1 [5]))
             [([116;105;109;101], false); ([118], true)] 10 2 3 1 (Some [85;84;67])) [].
Example C12_ex_stmt_canonical : canon_source Inst.prec Inst.isop keywords true true ex_stmt_src = true.
Proof. vm_compute. reflexivity. Qed.
Example C12_ex_stmt_roundtrip :
  parse_source Inst.prec Inst.isop KI 20 (source_toks KI true true ex_stmt_src) = Some (ex_stmt_src, []).
Proof. vm_compute. reflexivity. Qed.

(* RESULT CHUNKS: the generated codec (ChunkImpl / ColumnImpl / Bitmap / ChunkTags / floatTuple Marshal, Unmarshal, Size
   over lib/codec) modelled at byte level.  For every chunk whose parts fit the wire format (counts below 2^32, name below
   2^16 bytes, values 64-bit patterns): Unmarshal (Marshal c) = c, also when other bytes follow; and Size() is exactly
   the marshalled length (the writer puts Size() in front of each sub-message, the reader cuts by it). *)
Theorem C12_chunk_roundtrip : forall k rest, wf_chunk k = true -> dec_chunk (enc_chunk k ++ rest) = Some (k, rest).
Proof. exact chunk_roundtrip. Qed.
Print Assumptions C12_chunk_roundtrip.

Theorem C12_chunk_size : forall k, wf_chunk k = true -> len (enc_chunk k) = size_chunk k.
Proof. exact chunk_size. Qed.
Print Assumptions C12_chunk_size.

Theorem C12_column_roundtrip : forall c rest, wf_column c = true -> dec_column (enc_column c ++ rest) = Some (c, rest).
Proof. exact column_roundtrip. Qed.
Print Assumptions C12_column_roundtrip.

(* scalar ints travel zig-zag coded: the coding is a bijection on 64-bit patterns (MinInt64 and -1 included) *)
Theorem C12_zigzag : forall u, u < two64 -> zigzag u < two64 /\ unzigzag (zigzag u) = u.
Proof. exact (fun u H => conj (zigzag_bound u H) (zigzag_inv u H)). Qed.
Print Assumptions C12_zigzag.

(* non-vacuity: a chunk with a nil column slot, a string column with offsets, a float column holding NaN / -0.0 / +Inf
   patterns with a nil bitmap, float tuples, MinInt64 times, tags and a dimension column *)
Definition ex_chunk : chunk :=
  {| k_name := [109;115;116]; k_tags := [[1;0;2;0;104;0;97;0]; []]; k_tagindex := [0; 1]; k_time := [9223372036854775808; 18446744073709551615; 0];
     k_intervalindex := [0];
     k_columns := [None;
        Some {| c_type := 1; c_floats := [9221120237041090561; 9223372036854775808; 9218868437227405312]; c_ints := []; c_strbytes := [];
                c_offset := []; c_bools := []; c_times := [5]; c_tuples := []; c_nils := Some {| bm_bits := [224]; bm_array := []; bm_length := 3; bm_nil := 0 |} |};
        Some {| c_type := 5; c_floats := []; c_ints := []; c_strbytes := [97;98;99]; c_offset := [0;0;3]; c_bools := []; c_times := [];
                c_tuples := [[1;2];[]]; c_nils := Some {| bm_bits := [160]; bm_array := [0;2]; bm_length := 3; bm_nil := 1 |} |}];
     k_dims := [Some {| c_type := 3; c_floats := []; c_ints := [9223372036854775808;1;18446744073709551615]; c_strbytes := []; c_offset := [];
                        c_bools := [true;false]; c_times := []; c_tuples := []; c_nils := None |}] |}.
Example C12_ex_chunk_wf : wf_chunk ex_chunk = true.
Proof. vm_compute. reflexivity. Qed.
Example C12_ex_chunk_roundtrip : dec_chunk (enc_chunk ex_chunk) = Some (ex_chunk, []).
Proof. vm_compute. reflexivity. Qed.
