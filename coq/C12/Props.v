(* C12 property theorems. *)
From Coq Require Import ZArith NArith List Bool.
From OG Require Import C12.Model C12.Proofs.
Import ListNotations.
Open Scope N_scope.
