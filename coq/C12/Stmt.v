(* C12 statement model: the parts of a SELECT statement that travel as text - select list, sources (measurements and
   sub-queries), condition, dimensions, fill, sort fields, limits, time zone - with
   * the printer (SelectStatement / Fields / Field / Sources / Measurement / SubQuery / Dimensions / SortFields
     RenderBytes of ast.go) at text level and at token level, and
   * the HAND-WRITTEN statement parser the storage node uses (parser.go: parseSelectStatement, parseFields, parseField,
     parseAlias, parseSources, parseSource, parseSegmentedIdents, parseCondition, parseDimensions, parseDimension,
     parseFill, parseOrderBy, parseSortFields, parseSortField, ParseOptionalTokenAndInt, parseLocation; entry points
     ParseSource, hybridqp.ParseFields, ParseSortFields) at token level, on top of the expression parser of Model.v.
   Executable definitions only.  Keyword token codes come from the live keyword table (Inst / Gen_Tokens). *)
From Coq Require Import ZArith NArith List Bool.
From OG Require Import C12.Model.
Import ListNotations.
Open Scope N_scope.

(* the statement keywords; their token codes are a function K taken from the live keyword table *)
Inductive kwid := KSelect | KFrom | KWhere | KGroup | KBy | KOrder | KLimit | KOffset | KSlimit | KSoffset | KAs | KAsc | KDesc | KFill.
Definition all_kwids : list kwid := [KSelect; KFrom; KWhere; KGroup; KBy; KOrder; KLimit; KOffset; KSlimit; KSoffset; KAs; KAsc; KDesc; KFill].
Definition kw_word (k : kwid) : str :=
  match k with
  | KSelect => [115;101;108;101;99;116] | KFrom => [102;114;111;109] | KWhere => [119;104;101;114;101]
  | KGroup => [103;114;111;117;112] | KBy => [98;121] | KOrder => [111;114;100;101;114] | KLimit => [108;105;109;105;116]
  | KOffset => [111;102;102;115;101;116] | KSlimit => [115;108;105;109;105;116] | KSoffset => [115;111;102;102;115;101;116]
  | KAs => [97;115] | KAsc => [97;115;99] | KDesc => [100;101;115;99] | KFill => [102;105;108;108]
  end.

Inductive fillopt := FNull | FNone | FPrev | FLinear | FNumber (v : expr).     (* v: IntegerLiteral or NumberLiteral *)

Inductive source :=
| SMst (db rp name : str) (re : option str)          (* Measurement: database, retention policy, name or regex *)
| SSub (s : stmt) (alias : str)                      (* SubQuery *)
with stmt :=
| Stmt (fields : list (expr * str)) (sources : list source) (cond : option expr) (dims : list expr) (fill : fillopt)
       (sort : list (str * bool)) (limit offset slimit soffset : N) (tz : option str).

Definition s_none : str := [110;111;110;101].
Definition s_previous : str := [112;114;101;118;105;111;117;115].
Definition s_linear : str := [108;105;110;101;97;114].
Definition s_null : str := [110;117;108;108].
Definition s_tz : str := [116;122].
Definition s_TZ : str := [84;90].

Section WithTables.
Variable prec : op -> N.
Variable isop : op -> bool.
Variable op_text : op -> str.
Variable keywords : list (str * N).
Variable K : kwid -> N.
Variables nr dr : bool.

Notation PT := (print_toks nr dr).
Notation PTX := (print_text op_text keywords nr dr).
Notation QI := (quote_ident keywords).

(* ---------------------------------------------------------------- printer, token level *)
Definition kw (c : N) : token := TKeyword c.

Fixpoint sep_toks (A : Type) (f : A -> list token) (l : list A) : list token :=
  match l with
  | [] => []
  | [a] => f a
  | a :: r => f a ++ TComma :: TWs :: sep_toks A f r
  end.
Arguments sep_toks {A} f l.

Definition field_toks (fa : expr * str) : list token :=
  PT (fst fa) ++ match snd fa with [] => [] | al => [TWs; kw (K KAs); TWs; TIdent al] end.

Definition dots (segs : list token) : list token := segs.

(* Measurement.RenderBytes: [db "."] [rp] ["." when db or rp] name-or-regex *)
Definition mst_toks (db rp name : str) (re : option str) : list token :=
  (match db with [] => [] | _ => [TIdent db; TDot] end) ++
  (match rp with [] => [] | _ => [TIdent rp] end) ++
  (match db, rp with [], [] => [] | _, _ => [TDot] end) ++
  match name, re with
  | [], Some r => [TRegex r]
  | _, _ => [TIdent name]
  end.

Definition fill_toks (fl : fillopt) : list token :=
  match fl with
  | FNull => []
  | FNone => [TWs; kw (K KFill); TLParen; TIdent s_none; TRParen]
  | FPrev => [TWs; kw (K KFill); TLParen; TIdent s_previous; TRParen]
  | FLinear => [TWs; kw (K KFill); TLParen; TIdent s_linear; TRParen]
  | FNumber v => TWs :: kw (K KFill) :: TLParen :: print_toks false dr v ++ [TRParen]    (* fmt %v: never a ".0" *)
  end.

Definition sort_toks (sf : str * bool) : list token :=
  [TIdent (fst sf); TWs; kw (if snd sf then K KAsc else K KDesc)].

Definition opt_int_toks (code n : N) : list token :=
  if n =? 0 then [] else [TWs; kw code; TWs; TInteger (digits n)].

Fixpoint source_toks (src : source) : list token :=
  match src with
  | SMst db rp name re => mst_toks db rp name re
  | SSub s al => TLParen :: stmt_toks s ++ TRParen :: match al with [] => [] | _ => [TWs; kw (K KAs); TWs; TIdent al] end
  end
with stmt_toks (s : stmt) : list token :=
  match s with
  | Stmt fields sources cond dims fl sort limit offset slimit soffset tz =>
      kw (K KSelect) :: TWs :: sep_toks field_toks fields ++
      (match sources with
       | [] => []
       | _ => TWs :: kw (K KFrom) :: TWs ::
              (fix go (l : list source) : list token :=
                 match l with
                 | [] => []
                 | [a] => source_toks a
                 | a :: r => source_toks a ++ TComma :: TWs :: go r
                 end) sources
       end) ++
      (match cond with Some c => TWs :: kw (K KWhere) :: TWs :: PT c | None => [] end) ++
      (match dims with [] => [] | _ => TWs :: kw (K KGroup) :: TWs :: kw (K KBy) :: TWs :: sep_toks PT dims end) ++
      fill_toks fl ++
      (match sort with [] => [] | _ => TWs :: kw (K KOrder) :: TWs :: kw (K KBy) :: TWs :: sep_toks sort_toks sort end) ++
      opt_int_toks (K KLimit) limit ++ opt_int_toks (K KOffset) offset ++
      opt_int_toks (K KSlimit) slimit ++ opt_int_toks (K KSoffset) soffset ++
      match tz with Some z => [TWs; TIdent s_TZ; TLParen; TString z; TRParen] | None => [] end
  end.

(* ---------------------------------------------------------------- printer, text level (the bytes of RenderBytes) *)
Definition t_select : str := [83;69;76;69;67;84;32].
Definition t_from : str := [32;70;82;79;77;32].
Definition t_where : str := [32;87;72;69;82;69;32].
Definition t_groupby : str := [32;71;82;79;85;80;32;66;89;32].
Definition t_orderby : str := [32;79;82;68;69;82;32;66;89;32].
Definition t_as : str := [32;65;83;32].
Definition t_as_lc : str := [32;97;115;32].
Definition t_fill : str := [32;102;105;108;108;40].
Definition t_limit : str := [32;76;73;77;73;84;32].
Definition t_offset : str := [32;79;70;70;83;69;84;32].
Definition t_slimit : str := [32;83;76;73;77;73;84;32].
Definition t_soffset : str := [32;83;79;70;70;83;69;84;32].
Definition t_tz : str := [32;84;90;40;39].

Fixpoint sep_text (A : Type) (f : A -> str) (l : list A) : str :=
  match l with
  | [] => []
  | [a] => f a
  | a :: r => f a ++ 44 :: 32 :: sep_text A f r
  end.
Arguments sep_text {A} f l.

Definition field_text (fa : expr * str) : str :=
  PTX (fst fa) ++ match snd fa with [] => [] | al => t_as ++ QI al end.
Definition mst_text (db rp name : str) (re : option str) : str :=
  (match db with [] => [] | _ => QI db ++ [46] end) ++
  (match rp with [] => [] | _ => QI rp end) ++
  (match db, rp with [], [] => [] | _, _ => [46] end) ++
  match name, re with
  | [], Some r => 47 :: regex_escape r ++ [47]
  | _, _ => QI name
  end.
Definition fill_text (fl : fillopt) : str :=
  match fl with
  | FNull => []
  | FNone => t_fill ++ s_none ++ [41]
  | FPrev => t_fill ++ s_previous ++ [41]
  | FLinear => t_fill ++ s_linear ++ [41]
  | FNumber v => t_fill ++ print_text op_text keywords false dr v ++ [41]
  end.
Definition sort_text (sf : str * bool) : str :=
  QI (fst sf) ++ (if snd sf then [32;65;83;67] else [32;68;69;83;67]).
Definition opt_int_text (t : str) (n : N) : str := if n =? 0 then [] else t ++ digits n.

Fixpoint source_text (src : source) : str :=
  match src with
  | SMst db rp name re => mst_text db rp name re
  | SSub s al => 40 :: stmt_text s ++ 41 :: match al with [] => [] | _ => t_as_lc ++ al end
  end
with stmt_text (s : stmt) : str :=
  match s with
  | Stmt fields sources cond dims fl sort limit offset slimit soffset tz =>
      t_select ++ sep_text field_text fields ++
      (match sources with
       | [] => []
       | _ => t_from ++
              (fix go (l : list source) : str :=
                 match l with
                 | [] => []
                 | [a] => source_text a
                 | a :: r => source_text a ++ 44 :: 32 :: go r
                 end) sources
       end) ++
      (match cond with Some c => t_where ++ PTX c | None => [] end) ++
      (match dims with [] => [] | _ => t_groupby ++ sep_text PTX dims end) ++
      fill_text fl ++
      (match sort with [] => [] | _ => t_orderby ++ sep_text sort_text sort end) ++
      opt_int_text t_limit limit ++ opt_int_text t_offset offset ++
      opt_int_text t_slimit slimit ++ opt_int_text t_soffset soffset ++
      match tz with Some z => t_tz ++ z ++ [39;41] | None => [] end
  end.

(* ---------------------------------------------------------------- the hand-written statement parser, token level *)
Definition pexpr (toks : list token) : option (expr * list token) := parse_expr prec isop (parse_fuel toks) toks.

(* parseRegex at the start of a field / dimension / source: a regex literal if the next non-blank character is a slash *)
Definition regex_first (toks : list token) : option (str * list token) :=
  match skip_ws toks with TRegex s :: r => Some (s, r) | _ => None end.

(* validateField: these operators are not allowed in the select list *)
Fixpoint field_ops_ok (e : expr) : bool :=
  match e with
  | EBin o l r => negb (match o with OEqRegex | ONeqRegex | OAnd | OOr => true | _ => false end) && field_ops_ok l && field_ops_ok r
  | EParen e' => field_ops_ok e'
  | ECall _ args => forallb field_ops_ok args
  | _ => true
  end.

(* parseAlias: [AS ident] *)
Definition parse_alias (toks : list token) : option (str * list token) :=
  match skip_ws toks with
  | TKeyword c :: r =>
      if c =? K KAs then
        match skip_ws r with TIdent a :: r' => Some (a, r') | _ => None end
      else Some ([], skip_ws toks)
  | _ => Some ([], skip_ws toks)
  end.

Definition parse_field (toks : list token) : option ((expr * str) * list token) :=
  match regex_first toks with
  | Some (s, r) => match parse_alias r with Some (al, r') => Some ((ERegex s, al), skip_ws r') | None => None end
  | None =>
      match pexpr toks with
      | Some (e, r) =>
          if field_ops_ok e then
            match parse_alias r with Some (al, r') => Some ((e, al), skip_ws r') | None => None end
          else None
      | None => None
      end
  end.

Fixpoint parse_fields (fuel : nat) (toks : list token) : option (list (expr * str) * list token) :=
  match fuel with
  | O => None
  | S f =>
      match parse_field toks with
      | Some (fa, r) =>
          match r with
          | TComma :: r' => match parse_fields f r' with Some (l, r'') => Some (fa :: l, r'') | None => None end
          | _ => Some ([fa], r)
          end
      | None => None
      end
  end.

Definition parse_dimension (toks : list token) : option (expr * list token) :=
  match regex_first toks with
  | Some (s, r) => Some (ERegex s, r)
  | None => match pexpr toks with Some (e, r) => Some (e, skip_ws r) | None => None end
  end.

Fixpoint parse_dim_list (fuel : nat) (toks : list token) : option (list expr * list token) :=
  match fuel with
  | O => None
  | S f =>
      match parse_dimension toks with
      | Some (d, r) =>
          match r with
          | TComma :: r' => match parse_dim_list f r' with Some (l, r'') => Some (d :: l, r'') | None => None end
          | _ => Some ([d], r)
          end
      | None => None
      end
  end.

Definition parse_dimensions (fuel : nat) (toks : list token) : option (list expr * list token) :=
  match skip_ws toks with
  | TKeyword c :: r =>
      if c =? K KGroup then
        match skip_ws r with
        | TKeyword c2 :: r' => if c2 =? K KBy then parse_dim_list fuel r' else None
        | _ => None
        end
      else Some ([], skip_ws toks)
  | _ => Some ([], skip_ws toks)
  end.

Definition parse_condition (toks : list token) : option (option expr * list token) :=
  match skip_ws toks with
  | TKeyword c :: r =>
      if c =? K KWhere then match pexpr r with Some (e, r') => Some (Some e, r') | None => None end
      else Some (None, skip_ws toks)
  | _ => Some (None, skip_ws toks)
  end.

(* parseFill (with the FILL keyword): FILL ( expr ) and the option by the printed form of the argument *)
Definition parse_fill (toks : list token) : option (fillopt * list token) :=
  match skip_ws toks with
  | TKeyword c :: r =>
      if c =? K KFill then
        match skip_ws r with
        | TLParen :: r1 =>
            match pexpr r1 with
            | Some (a, r2) =>
                match skip_ws r2 with
                | TRParen :: r3 =>
                    match a with
                    | EVar n DUnknown =>
                        if str_eqb n s_null then Some (FNull, r3)
                        else if str_eqb n s_none then Some (FNone, r3)
                        else if str_eqb n s_previous then Some (FPrev, r3)
                        else if str_eqb n s_linear then Some (FLinear, r3)
                        else None
                    | EInt _ | ENum _ _ _ | ESpecial _ => Some (FNumber a, r3)
                    | _ => None
                    end
                | _ => None
                end
            | None => None
            end
        | _ => None
        end
      else Some (FNull, skip_ws toks)
  | _ => Some (FNull, skip_ws toks)
  end.

Definition asc_desc (c : N) : option bool :=
  if c =? K KAsc then Some true else if c =? K KDesc then Some false else None.

(* parseSortField: ident [ASC|DESC] *)
Definition parse_sort_field (toks : list token) : option ((str * bool) * list token) :=
  match skip_ws toks with
  | TIdent n :: r =>
      match skip_ws r with
      | TKeyword c :: r' => match asc_desc c with Some b => Some ((n, b), r') | None => Some ((n, true), skip_ws r) end
      | _ => Some ((n, true), skip_ws r)
      end
  | _ => None
  end.

Fixpoint parse_more_sort (fuel : nat) (toks : list token) : option (list (str * bool) * list token) :=
  match fuel with
  | O => None
  | S f =>
      match skip_ws toks with
      | TComma :: r =>
          match parse_sort_field r with
          | Some (sf, r') => match parse_more_sort f r' with Some (l, r'') => Some (sf :: l, r'') | None => None end
          | None => None
          end
      | _ => Some ([], skip_ws toks)
      end
  end.

(* parseSortFields: the first field may be a bare ASC / DESC *)
Definition parse_sort_fields (fuel : nat) (toks : list token) : option (list (str * bool) * list token) :=
  match skip_ws toks with
  | TKeyword c :: r =>
      match asc_desc c with
      | Some b => match parse_more_sort fuel r with Some (l, r') => Some (([], b) :: l, r') | None => None end
      | None => None
      end
  | TIdent _ :: _ =>
      match parse_sort_field toks with
      | Some (sf, r) => match parse_more_sort fuel r with Some (l, r') => Some (sf :: l, r') | None => None end
      | None => None
      end
  | _ => None
  end.

Definition parse_order_by (fuel : nat) (toks : list token) : option (list (str * bool) * list token) :=
  match skip_ws toks with
  | TKeyword c :: r =>
      if c =? K KOrder then
        match skip_ws r with
        | TKeyword c2 :: r' => if c2 =? K KBy then parse_sort_fields fuel r' else None
        | _ => None
        end
      else Some ([], skip_ws toks)
  | _ => Some ([], skip_ws toks)
  end.

(* ParseOptionalTokenAndInt *)
Definition parse_opt_int (code : N) (toks : list token) : option (N * list token) :=
  match skip_ws toks with
  | TKeyword c :: r =>
      if c =? code then
        match skip_ws r with
        | TInteger s :: r' => match digits_val s with
                              | Some n => if n <=? max_int64 then Some (n, r') else Some (max_int64, r')
                              | None => None end
        | _ => None
        end
      else Some (0, skip_ws toks)
  | _ => Some (0, skip_ws toks)
  end.

(* parseLocation: tz('<name>') through the expression parser *)
Definition parse_location (toks : list token) : option (option str * list token) :=
  match skip_ws toks with
  | TIdent n :: _ =>
      if str_eqb (lower n) s_tz then
        match pexpr (skip_ws toks) with
        | Some (ECall _ [EStr z], r) => Some (Some z, r)
        | _ => None
        end
      else Some (None, skip_ws toks)
  | _ => Some (None, skip_ws toks)
  end.

(* parseSegmentedIdents: ident { "." [ident] }, stopping before a regex or a cast *)
Fixpoint more_segments (fuel : nat) (acc : list str) (toks : list token) : option (list str * list token) :=
  match fuel with
  | O => None
  | S f =>
      match toks with
      | TDot :: r =>
          match r with
          | TRegex _ :: _ => Some (acc, r)
          | TDColon :: _ => Some (acc, r)
          | TDot :: _ => more_segments f (acc ++ [[]]) r
          | _ => match skip_ws r with
                 | TIdent s :: r' => more_segments f (acc ++ [s]) r'
                 | _ => None
                 end
          end
      | _ => Some (acc, toks)
      end
  end.
Definition segmented_idents (toks : list token) : option (list str * list token) :=
  match skip_ws toks with
  | TIdent s :: r =>
      match more_segments 8 [s] r with
      | Some (l, r') => if (length l <=? 3)%nat then Some (l, r') else None
      | None => None
      end
  | _ => None
  end.

Definition lit_of (t : token) : option str :=
  match t with TIdent s | TString s | TInteger s | TNumber s | TDuration s => Some s | _ => None end.

(* a measurement: segmented identifiers, then possibly a regex *)
Definition parse_mst (toks : list token) : option (source * list token) :=
  match segmented_idents toks with
  | Some ([a; b; c], r) => Some (SMst a b c None, r)
  | Some (ids, r) =>
      let re := regex_first r in
      let r' := match re with Some (_, x) => x | None => r end in
      let reo := match re with Some (s, _) => Some s | None => None end in
      match ids, reo with
      | [a], Some _ => Some (SMst [] a [] reo, r')
      | [a], None => Some (SMst [] [] a None, r')
      | [a; b], Some _ => Some (SMst a b [] reo, r')
      | [a; b], None => Some (SMst [] a b None, r')
      | _, _ => None
      end
  | None => None
  end.

(* after the statement of a sub-query: ")" and an optional "AS alias" *)
Definition sub_after (st : stmt) (r2 : list token) : option (source * list token) :=
  match skip_ws r2 with
  | TRParen :: r3 =>
      match skip_ws r3 with
      | TKeyword c2 :: r4 =>
          if c2 =? K KAs then
            match skip_ws r4 with
            | t :: r5 => match lit_of t with
                         | Some (x :: a) => Some (SSub st (x :: a), r5)
                         | _ => Some (SSub st [], skip_ws r4)
                         end
            | [] => Some (SSub st [], [])
            end
          else Some (SSub st [], skip_ws r3)
      | _ => Some (SSub st [], skip_ws r3)
      end
  | _ => None
  end.

(* the clauses after the sources, in the order the parser tries them *)
Definition parse_tail (fuel : nat) (fields : list (expr * str)) (sources : list source) (r2 : list token) : option (stmt * list token) :=
  match parse_condition r2 with
  | Some (cond, r3) =>
    match parse_dimensions fuel r3 with
    | Some (dims, r4) =>
      match parse_fill r4 with
      | Some (fl, r5) =>
        match parse_order_by fuel r5 with
        | Some (sort, r6) =>
          match parse_opt_int (K KLimit) r6 with
          | Some (limit, r7) =>
            match parse_opt_int (K KOffset) r7 with
            | Some (offset, r8) =>
              match parse_opt_int (K KSlimit) r8 with
              | Some (slimit, r9) =>
                match parse_opt_int (K KSoffset) r9 with
                | Some (soffset, r10) =>
                  match parse_location r10 with
                  | Some (tz, r11) => Some (Stmt fields sources cond dims fl sort limit offset slimit soffset tz, r11)
                  | None => None end
                | None => None end
              | None => None end
            | None => None end
          | None => None end
        | None => None end
      | None => None end
    | None => None end
  | None => None end.

Fixpoint parse_source (fuel : nat) (toks : list token) {struct fuel} : option (source * list token) :=
  match fuel with
  | O => None
  | S f =>
    match regex_first toks with
    | Some (s, r) => Some (SMst [] [] [] (Some s), r)
    | None =>
      match skip_ws toks with
      | TLParen :: r =>
          match skip_ws r with
          | TKeyword c :: r1 =>
              if c =? K KSelect then
                match parse_stmt f r1 with
                | Some (st, r2) => sub_after st r2
                | None => None
                end
              else None
          | _ => None
          end
      | _ => parse_mst toks
      end
    end
  end
with parse_sources (fuel : nat) (toks : list token) {struct fuel} : option (list source * list token) :=
  match fuel with
  | O => None
  | S f =>
      match parse_source f toks with
      | Some (s, r) =>
          match skip_ws r with
          | TComma :: r' => match parse_sources f r' with Some (l, r'') => Some (s :: l, r'') | None => None end
          | _ => Some ([s], skip_ws r)
          end
      | None => None
      end
  end
with parse_stmt (fuel : nat) (toks : list token) {struct fuel} : option (stmt * list token) :=
  match fuel with
  | O => None
  | S f =>
      match parse_fields fuel toks with
      | Some (fields, r0) =>
        match skip_ws r0 with
        | TKeyword c :: r1 =>
          if c =? K KFrom then
            match parse_sources f r1 with
            | Some (sources, r2) => parse_tail fuel fields sources r2
            | None => None
            end
          else None
        | _ => None
        end
      | None => None
      end
  end.

End WithTables.
Arguments sep_toks {A} f l.
Arguments sep_text {A} f l.
