(* C12 lexing, part 2: for every canonical expression the scanner reads the printed TEXT back as the printed TOKENS;
   with ProofsParse.print_parse this closes  parse (scan (print_text e)) = Some e. *)
From Coq Require Import ZArith NArith List Bool Lia ZifyBool ZifyNat ZifyN.
From OG Require Import C12.Model C12.Proofs C12.ProofsParse C12.ProofsLex.
Import ListNotations.
Open Scope N_scope.

(* what can follow an expression in printed text: nothing, a blank (before an operator), ) or , *)
Definition sepb (rest : str) : bool :=
  match rest with [] => true | c :: _ => (c =? 32) || (c =? 41) || (c =? 44) end.

Lemma sepb_bounds : forall rest, sepb rest = true ->
  hd_sat is_ident_or_dot rest = false /\ hd_is 34 rest = false /\ hd_sat is_digit rest = false /\
  hd_is 46 rest = false /\ hd_sat is_dur_first rest = false /\ hd_sat is_dur_char rest = false.
Proof.
  intros [|c rest] H; [repeat split; reflexivity|]. cbn [sepb] in H. unfold hd_is. cbn [hd_sat].
  unfold is_ident_or_dot, is_ident_char, is_dur_first, is_dur_char, is_letter, is_digit. lia.
Qed.

Lemma hd_digit_not_minus : forall s, hd_sat is_digit s = true -> hd_is 45 s = false.
Proof. intros [|c s] H; [reflexivity|]. unfold hd_is. cbn [hd_sat] in *. unfold is_digit in H. lia. Qed.

Lemma hd_digits : forall n rest, hd_sat is_digit (digits n ++ rest) = true.
Proof.
  intros n rest. pose proof (digits_nonempty n) as Hne. pose proof (digits_all n) as Ha.
  destruct (digits n) as [|c d]; [congruence|]. cbn [forallb] in Ha. apply andb_prop in Ha. destruct Ha as [Hc _]. exact Hc.
Qed.

Lemma frac_text_digits : forall fp, forallb (fun d => d <? 10) fp = true -> forallb is_digit (frac_text fp) = true.
Proof.
  induction fp as [|d fp IH]; intro H; [reflexivity|]. cbn [forallb frac_text map] in *. apply andb_prop in H. destruct H as [H1 H2].
  rewrite is_digit_48 by lia. apply IH. exact H2.
Qed.

Lemma dur_unit_sfx : forall dr z,
  hd_sat is_dur_first (snd (dur_unit dr z)) = true /\ forallb is_dur_char (snd (dur_unit dr z)) = true.
Proof.
  intros dr z. unfold dur_unit.
  repeat match goal with |- context [if ?b then _ else _] => destruct b end; split; reflexivity.
Qed.

Lemma not45_match : forall (c : N) (t : str) (A : Type) (x : str -> A) (y : A), c <> 45 ->
  match c :: t with 45 :: t' => x t' | _ => y end = y.
Proof.
  intros c t A x y H. destruct c as [|p]; [reflexivity|].
  repeat (destruct p as [p|p|]; try reflexivity). contradiction H; reflexivity.
Qed.

Lemma size_ge1 : forall e, (1 <= size e)%nat.
Proof. destruct e; cbn [size]; lia. Qed.

Section LexMain.
Variable prec : op -> N.
Variable isop : op -> bool.
Variable op_text : op -> str.
Variable kws : list (str * N).
Variable op_of_code : N -> option op.
Variables ct cf cfield ctag cdistinct : N.
Variables nr dr : bool.

Notation LX := (lexes kws op_of_code ct cf cfield ctag cdistinct).
Notation WT := (word_tok kws op_of_code ct cf cfield ctag cdistinct).
Notation PTX := (print_text op_text kws nr dr).
Notation PT := (print_toks nr dr).
Notation CANON := (canon prec isop kws nr dr).

(* what the scanner needs from the live tables: every operator ParseExpr knows is printed as the text the scanner
   reads as that operator; the cast names, true/false are read back as themselves; Inf and NaN are not keywords *)
Definition lex_tables : Prop :=
  (forall o, isop o = true ->
     match sym_texts o with
     | [] => bare_ok (op_text o) = true /\ WT (op_text o) = TOp o
     | ts => In (op_text o) ts
     end) /\
  (forall d, printable_dtype d = true -> dtype_eqb d DUnknown = false -> WT (dtype_text d) = dtype_tok d) /\
  WT [116;114;117;101] = TTrue /\ WT [102;97;108;115;101] = TFalse /\
  WT [73;110;102] = TIdent [73;110;102] /\ WT [78;97;78] = TIdent [78;97;78].

Hypothesis HT : lex_tables.

Lemma lexes_cons : forall s1 t s2 ts s3 st, LX s1 [t] s2 st -> LX s2 ts s3 (run [t] st) -> LX s1 (t :: ts) s3 st.
Proof. intros. apply (lexes_trans _ _ _ _ _ _ _ s1 [t] s2 ts s3); assumption. Qed.

(* ------------------------------------------------------------------ printed text: shapes *)
Definition pa_text := fix pa (l : list expr) : str :=
  match l with
  | [] => []
  | [a] => PTX a
  | a :: l' => PTX a ++ 44 :: 32 :: pa l'
  end.
Definition sep_text (l : list expr) : str := flat_map (fun a => 44 :: 32 :: PTX a) l.

Lemma text_call : forall name args, PTX (ECall name args) = name ++ 40 :: pa_text args ++ [41].
Proof. reflexivity. Qed.
Lemma pa_text_cons : forall l a, pa_text (a :: l) = PTX a ++ sep_text l.
Proof.
  induction l as [|b l IH]; intro a.
  - cbn [pa_text sep_text flat_map]. rewrite app_nil_r. reflexivity.
  - change (pa_text (a :: b :: l)) with (PTX a ++ 44 :: 32 :: pa_text (b :: l)). rewrite IH. reflexivity.
Qed.

Lemma number_text_canon : forall neg ip fp,
  frac_ok fp && (nr || negb (match fp with [] => true | _ => false end) || (negb neg && (maxint_float_ip <? ip))) = true ->
  number_text_gen nr neg ip fp =
  (if neg then [45] else []) ++ digits ip ++ match fp with [] => [46; 48] | _ => 46 :: frac_text fp end.
Proof.
  intros neg ip fp H. apply andb_prop in H. destruct H as [_ H]. unfold number_text_gen.
  destruct fp as [|d fp']; [|reflexivity].
  cbn [negb orb] in H. rewrite orb_false_r in H. rewrite H. reflexivity.
Qed.

(* the first character of a printed expression is never white space *)
Lemma head_nonws : forall e arg rest, CANON arg e = true -> hd_sat is_ws (PTX e ++ rest) = false.
Proof.
  induction e as [name t|z|n|neg ip fp|k|s|b|z|src|w|e' IHe|name args|o l IHl r IHr]; intros arg rest Hc; cbn [canon] in Hc.
  - (* EVar *) cbn [print_text]. rewrite <- app_assoc. unfold quote_ident.
    destruct (ident_needs_quotes kws name) eqn:E; [reflexivity|].
    unfold ident_needs_quotes in E. destruct (kw_lookup kws (lower name)); [discriminate|]. apply negb_false_iff in E.
    destruct name as [|c nm]; [discriminate|]. cbn [bare_ok] in E. apply andb_prop in E. destruct E as [E _].
    cbn [escape]. assert (X : (c =? 10) = false /\ (c =? 92) = false /\ (c =? 34) = false /\ is_ws c = false).
    { unfold is_ident_first, is_letter, is_ws in *. lia. }
    destruct X as [X1 [X2 [X3 X4]]]. rewrite X1, X2, X3. exact X4.
  - cbn [print_text]. unfold zdigits. destruct (z <? 0)%Z; [reflexivity|].
    pose proof (hd_digits (Z.to_N z) rest) as H. destruct (digits (Z.to_N z) ++ rest) as [|c x]; [reflexivity|].
    cbn [hd_sat] in *. unfold is_digit, is_ws in *. lia.
  - cbn [print_text]. pose proof (hd_digits n rest) as H. destruct (digits n ++ rest) as [|c x]; [reflexivity|].
    cbn [hd_sat] in *. unfold is_digit, is_ws in *. lia.
  - cbn [print_text]. unfold number_text_gen. destruct neg; [reflexivity|]. cbn [app]. rewrite <- app_assoc.
    pose proof (hd_digits ip (match fp with [] => if nr || (negb false && (maxint_float_ip <? ip)) then [46; 48] else [] | _ :: _ => 46 :: frac_text fp end ++ rest)) as H.
    destruct (digits ip ++ _) as [|c x]; [reflexivity|]. cbn [hd_sat] in *. unfold is_digit, is_ws in *. lia.
  - cbn [print_text]. unfold special_text. destruct (k =? 0); [reflexivity|]. destruct (k =? 1); reflexivity.
  - reflexivity.
  - destruct b; reflexivity.
  - cbn [print_text]. unfold format_duration_gen. destruct (z =? 0)%Z; [reflexivity|].
    destruct (dur_unit dr z) as [u sfx]. unfold zdigits. destruct (Z.quot z u <? 0)%Z; [reflexivity|]. rewrite <- app_assoc.
    pose proof (hd_digits (Z.to_N (Z.quot z u)) (sfx ++ rest)) as H. destruct (digits _ ++ _) as [|c x]; [reflexivity|].
    cbn [hd_sat] in *. unfold is_digit, is_ws in *. lia.
  - reflexivity.
  - destruct w; reflexivity.
  - reflexivity.
  - (* ECall *) apply andb_prop in Hc. destruct Hc as [Hn _]. unfold call_name_ok in Hn.
    apply andb_prop in Hn. destruct Hn as [Hn _]. apply andb_prop in Hn. destruct Hn as [Hn _].
    apply andb_prop in Hn. destruct Hn as [Hn _].
    rewrite text_call. destruct name as [|c nm]; [discriminate|]. cbn [bare_ok] in Hn. apply andb_prop in Hn. destruct Hn as [Hn _].
    cbn [app hd_sat]. unfold is_ident_first, is_letter, is_ws in *. lia.
  - (* EBin *) cbn [print_text]. rewrite <- app_assoc.
    repeat (apply andb_prop in Hc; destruct Hc as [Hc ?]). apply (IHl false). assumption.
Qed.

(* ------------------------------------------------------------------ the scanner state after a printed expression *)
Lemma duration_toks_shape : forall z, exists t,
  duration_toks dr z = [TDuration t] \/ duration_toks dr z = [TOp OSub; TDuration t].
Proof.
  intro z. unfold duration_toks. destruct (format_duration_gen dr z) as [|c t]; [exists []; left; reflexivity|].
  destruct (N.eq_dec c 45) as [E|E].
  - subst c. exists t. right. reflexivity.
  - exists (c :: t). left. apply (not45_match c t _ (fun t' => [TOp OSub; TDuration t'])). exact E.
Qed.

Lemma run_stk : forall n e st, (size e <= n)%nat -> s_stk (run (PT e) st) = s_stk st.
Proof.
  induction n as [|n IH]; intros e st Hn; [pose proof (size_ge1 e); lia|].
  destruct e as [name t|z|n0|neg ip fp|k|s|b|z|src|w|e'|name args|o l r]; cbn [print_toks].
  - destruct (dtype_eqb t DUnknown); [reflexivity|]. destruct t; reflexivity.
  - destruct (z <? 0)%Z; reflexivity.
  - reflexivity.
  - unfold number_toks. destruct neg; destruct fp; cbn [app];
      repeat match goal with |- context [if ?b then _ else _] => destruct b end; reflexivity.
  - destruct (k =? 0); [reflexivity|]. destruct (k =? 1); reflexivity.
  - reflexivity.
  - destruct b; reflexivity.
  - destruct (duration_toks_shape z) as [t [E|E]]; rewrite E; reflexivity.
  - reflexivity.
  - destruct w; reflexivity.
  - cbn [size] in Hn. rewrite app_comm_cons, run_app. cbn [run fold_left advance s_stk].
    change (fold_left advance (PT e') ?s) with (run (PT e') s). rewrite IH by lia. reflexivity.
  - cbn [size] in Hn. fold (pa nr dr args).
    rewrite 2 app_comm_cons, run_app. cbn [run fold_left advance s_stk s_last s_ws call_ctx negb].
    change (fold_left advance (pa nr dr args) ?s) with (run (pa nr dr args) s).
    assert (Hargs : forall st', s_stk (run (pa nr dr args) st') = s_stk st').
    { destruct args as [|a more]; [reflexivity|]. intro st'. rewrite pa_cons, run_app.
      assert (Hmore : forall more', (forall b, In b more' -> (size b <= n)%nat) -> forall s, s_stk (run (sep_items nr dr more') s) = s_stk s).
      { induction more' as [|b more' IHm]; intros Hb s; [reflexivity|].
        cbn [sep_items flat_map]. fold (sep_items nr dr more').
        rewrite run_app. change (TComma :: TWs :: PT b) with ([TComma; TWs] ++ PT b). rewrite run_app.
        rewrite IHm by (intros x Hx; apply Hb; right; exact Hx).
        rewrite IH by (apply Hb; left; reflexivity). reflexivity. }
      rewrite Hmore.
      - apply IH. pose proof (size_arg a (a :: more) (or_introl eq_refl)). cbn [fold_right] in *. lia.
      - intros b Hb. pose proof (size_arg b (a :: more) (or_intror Hb)). lia. }
    rewrite Hargs. reflexivity.
  - cbn [size] in Hn.
    change (PT l ++ TWs :: TOp o :: TWs :: PT r) with (PT l ++ [TWs; TOp o; TWs] ++ PT r).
    rewrite 2 run_app. rewrite (IH r) by lia.
    cbn [run fold_left advance s_stk]. change (fold_left advance (PT l) st) with (run (PT l) st). apply IH. lia.
Qed.

Definition good_end (st : sst) : Prop :=
  exists t, s_prev st = Some t /\ s_last st = Some t /\
            match t with TRParen | TIdent _ | TInteger _ | TNumber _ => True | _ => False end.

Lemma good_end_div : forall st, good_end st -> div_after (s_prev st) = true /\ delim_ctx (s_last st) (s_stk st) = false.
Proof. intros st [t [H1 [H2 H3]]]. rewrite H1, H2. destruct t; try contradiction; split; reflexivity. Qed.

Lemma div_state : forall e arg st, CANON arg e = true -> div_left_ok e = true -> good_end (run (PT e) st).
Proof.
  induction e as [name t|z|n|neg ip fp|k|s|b|z|src|w|e' IHe|name args|o l IHl r IHr]; intros arg st Hc Hd;
    cbn [div_left_ok] in Hd; try discriminate; cbn [print_toks].
  - cbn [canon] in Hc. apply andb_prop in Hc. destruct Hc as [_ Hp].
    destruct t; cbn in Hp; try discriminate; try discriminate Hd;
      (eexists; cbn; split; [reflexivity|]; split; [reflexivity | exact I]).
  - destruct (z <? 0)%Z; (eexists; cbn; split; [reflexivity|]; split; [reflexivity | exact I]).
  - eexists; cbn; split; [reflexivity|]; split; [reflexivity | exact I].
  - unfold number_toks. destruct neg; destruct fp; cbn [app];
      repeat match goal with |- context [if ?b then _ else _] => destruct b end;
      (eexists; cbn; split; [reflexivity|]; split; [reflexivity | exact I]).
  - destruct (k =? 0); [|destruct (k =? 1)]; (eexists; cbn; split; [reflexivity|]; split; [reflexivity | exact I]).
  - rewrite app_comm_cons, run_app. eexists; cbn; split; [reflexivity|]; split; [reflexivity | exact I].
  - fold (pa nr dr args). rewrite 2 app_comm_cons, run_app. eexists; cbn; split; [reflexivity|]; split; [reflexivity | exact I].
  - change (PT l ++ TWs :: TOp o :: TWs :: PT r) with (PT l ++ [TWs; TOp o; TWs] ++ PT r).
    rewrite 2 run_app. cbn [canon] in Hc.
    repeat (apply andb_prop in Hc; destruct Hc as [Hc ?]).
    destruct (is_regex_op o).
    + match goal with H : is_regex r && _ = true |- _ => apply andb_prop in H; destruct H as [_ H]; apply (IHr true); [exact H | exact Hd] end.
    + apply (IHr false); [assumption | exact Hd].
Qed.

(* ------------------------------------------------------------------ call arguments after the first *)
Lemma sepb_sep_text : forall more rest, sepb (sep_text more ++ 41 :: rest) = true.
Proof. intros [|b more] rest; reflexivity. Qed.

Lemma lex_more : forall more rest st,
  (forall b, In b more -> forall rest' st', sepb rest' = true ->
     (is_regex b = true -> delim_ctx (s_last st') (s_stk st') = true) -> LX (PTX b ++ rest') (PT b) rest' st') ->
  forallb (CANON true) more = true ->
  (exists k, s_stk st = true :: k) ->
  LX (sep_text more ++ 41 :: rest) (sep_items nr dr more) (41 :: rest) st.
Proof.
  induction more as [|b more IH]; intros rest st Hall Hc Hstk.
  - apply lexes_refl.
  - cbn [forallb] in Hc. apply andb_prop in Hc. destruct Hc as [Hcb Hcm].
    cbn [sep_text sep_items flat_map]. fold (sep_text more). fold (sep_items nr dr more).
    cbn [app]. rewrite <- app_assoc.
    apply (lexes_cons _ TComma (32 :: PTX b ++ sep_text more ++ 41 :: rest)); [apply lex_comma|].
    apply (lexes_cons _ TWs (PTX b ++ sep_text more ++ 41 :: rest)).
    { apply lex_ws. apply (head_nonws b true). exact Hcb. }
    destruct Hstk as [k Hk].
    apply (lexes_trans _ _ _ _ _ _ _ _ (PT b) (sep_text more ++ 41 :: rest)).
    + apply Hall; [left; reflexivity | apply sepb_sep_text |].
      intros _. cbn [run fold_left advance s_last s_stk]. rewrite Hk. reflexivity.
    + apply IH.
      * intros x Hx. apply Hall. right. exact Hx.
      * exact Hcm.
      * exists k. rewrite (run_stk (size b) b) by apply le_n. cbn [run fold_left advance s_stk]. exact Hk.
Qed.

(* ------------------------------------------------------------------ main lemma *)
Lemma canon_not_regex : forall e, CANON false e = true -> is_regex e = false.
Proof. intros e H. destruct e; try reflexivity. cbn in H. discriminate. Qed.

Lemma lex_main : forall n e arg rest st, (size e <= n)%nat -> CANON arg e = true -> sepb rest = true ->
  (is_regex e = true -> delim_ctx (s_last st) (s_stk st) = true) ->
  LX (PTX e ++ rest) (PT e) rest st.
Proof.
  induction n as [|n IH]; intros e arg rest st Hn Hc Hs Hre; [pose proof (size_ge1 e); lia|].
  destruct HT as [HTop [HTdt [HTt [HTf [HTinf HTnan]]]]].
  destruct (sepb_bounds rest Hs) as [B1 [B2 [B3 [B4 [B5 B6]]]]].
  destruct e as [name t|z|n0|neg ip fp|k|s|b|z|src|w|e'|name args|o l r]; cbn [canon] in Hc.
  - (* EVar *)
    apply andb_prop in Hc. destruct Hc as [Hc Hp]. apply andb_prop in Hc. destruct Hc as [Hwf _].
    cbn [print_text print_toks]. destruct (dtype_eqb t DUnknown) eqn:Et.
    + rewrite app_nil_r. apply lex_ident; assumption.
    + rewrite <- app_assoc. cbn [app].
      apply (lexes_cons _ (TIdent name) (58 :: 58 :: dtype_text t ++ rest)); [apply lex_ident; [exact Hwf | reflexivity | reflexivity]|].
      apply (lexes_cons _ TDColon (dtype_text t ++ rest)); [apply lex_dcolon|].
      rewrite <- (HTdt t Hp Et). apply lex_word; [destruct t; reflexivity | exact B1 | exact B2].
  - (* EInt *)
    cbn [print_text print_toks]. unfold zdigits. destruct (z <? 0)%Z.
    + cbn [app]. apply (lexes_cons _ (TOp OSub) (digits (Z.to_N (- z)) ++ rest)).
      * apply lex_minus. apply hd_digit_not_minus. apply hd_digits.
      * apply lex_integer; [apply digits_nonempty | apply digits_all | exact B3 | exact B4 | exact B5].
    + apply lex_integer; [apply digits_nonempty | apply digits_all | exact B3 | exact B4 | exact B5].
  - (* EUnsigned *)
    cbn [print_text print_toks]. apply lex_integer; [apply digits_nonempty | apply digits_all | exact B3 | exact B4 | exact B5].
  - (* ENum *)
    cbn [print_text print_toks]. rewrite (number_toks_canon nr neg ip fp Hc), (number_text_canon neg ip fp Hc).
    apply andb_prop in Hc. destruct Hc as [Hfr _]. unfold frac_ok in Hfr. apply andb_prop in Hfr. destruct Hfr as [Hfr _].
    assert (L : forall st', LX ((digits ip ++ match fp with [] => [46; 48] | _ :: _ => 46 :: frac_text fp end) ++ rest)
                  [TNumber (digits ip ++ match fp with [] => [46; 48] | _ :: _ => 46 :: frac_text fp end)] rest st').
    { intro st'. rewrite <- app_assoc. destruct fp as [|d fp'].
      - apply (lex_number _ _ _ _ _ _ _ (digits ip) [48] rest);
          [apply digits_nonempty | apply digits_all | discriminate | reflexivity | exact B3].
      - cbn [app]. apply (lex_number _ _ _ _ _ _ _ (digits ip) (frac_text (d :: fp')) rest);
          [apply digits_nonempty | apply digits_all | discriminate | apply frac_text_digits; exact Hfr | exact B3]. }
    destruct neg.
    + cbn [app]. rewrite <- app_assoc.
      apply (lexes_cons _ (TOp OSub) (digits ip ++ match fp with [] => [46; 48] | _ :: _ => 46 :: frac_text fp end ++ rest)).
      * apply lex_minus. apply hd_digit_not_minus. apply hd_digits.
      * rewrite app_assoc. apply L.
    + cbn [app]. apply L.
  - (* ESpecial *)
    apply N.ltb_lt in Hc. assert (Hk : k = 0 \/ k = 1 \/ k = 2) by (clear - Hc; lia).
    destruct Hk as [Hk|[Hk|Hk]]; subst k; cbn [print_text print_toks special_text N.eqb Pos.eqb app].
    + apply (lexes_cons _ (TOp OAdd) ([73;110;102] ++ rest)); [apply lex_plus|].
      rewrite <- HTinf. apply lex_word; [reflexivity | exact B1 | exact B2].
    + apply (lexes_cons _ (TOp OSub) ([73;110;102] ++ rest)); [apply lex_minus; reflexivity|].
      rewrite <- HTinf. apply lex_word; [reflexivity | exact B1 | exact B2].
    + rewrite <- HTnan. apply (lex_word _ _ _ _ _ _ _ [78;97;78]); [reflexivity | exact B1 | exact B2].
  - (* EStr *) cbn [print_text print_toks]. apply lex_string. exact Hc.
  - (* EBool *)
    cbn [print_text print_toks]. destruct b.
    + rewrite <- HTt. apply (lex_word _ _ _ _ _ _ _ [116;114;117;101]); [reflexivity | exact B1 | exact B2].
    + rewrite <- HTf. apply (lex_word _ _ _ _ _ _ _ [102;97;108;115;101]); [reflexivity | exact B1 | exact B2].
  - (* EDur *)
    cbn [print_text print_toks]. unfold duration_toks, format_duration_gen.
    destruct (z =? 0)%Z.
    + apply (lex_duration _ _ _ _ _ _ _ [48] [115] rest); [discriminate | reflexivity | reflexivity | reflexivity | exact B6].
    + pose proof (dur_unit_sfx dr z) as [S1 S2]. destruct (dur_unit dr z) as [u sfx]. cbn [snd] in S1, S2.
      unfold zdigits. destruct (Z.quot z u <? 0)%Z.
      * cbn [app]. rewrite <- app_assoc.
        apply (lexes_cons _ (TOp OSub) (digits (Z.to_N (- Z.quot z u)) ++ sfx ++ rest)).
        -- apply lex_minus. apply hd_digit_not_minus. apply hd_digits.
        -- apply lex_duration; [apply digits_nonempty | apply digits_all | exact S1 | exact S2 | exact B6].
      * pose proof (hd_digits (Z.to_N (Z.quot z u)) sfx) as Hh.
        destruct (digits (Z.to_N (Z.quot z u)) ++ sfx) as [|c t] eqn:Et; [discriminate|].
        cbn [hd_sat] in Hh. assert (Hc45 : c <> 45) by (clear - Hh; unfold is_digit in Hh; lia).
        rewrite (not45_match c t _ (fun t' => [TOp OSub; TDuration t']) [TDuration (c :: t)] Hc45).
        rewrite <- Et. rewrite <- app_assoc.
        apply lex_duration; [apply digits_nonempty | apply digits_all | exact S1 | exact S2 | exact B6].
  - (* ERegex *)
    apply andb_prop in Hc. destruct Hc as [_ Hwf]. cbn [print_text print_toks app]. rewrite <- app_assoc. cbn [app].
    apply lex_regex; [apply Hre; reflexivity | exact Hwf].
  - (* EWild *)
    assert (HF : WT (dtype_text DAnyField) = TField) by (apply HTdt; reflexivity).
    assert (HG : WT (dtype_text DTag) = TTag) by (apply HTdt; reflexivity).
    destruct w; cbn [print_text print_toks app].
    + apply lex_star.
    + apply (lexes_cons _ (TOp OMul) (58 :: 58 :: dtype_text DAnyField ++ rest)); [apply lex_star|].
      apply (lexes_cons _ TDColon (dtype_text DAnyField ++ rest)); [apply lex_dcolon|].
      rewrite <- HF. apply lex_word; [reflexivity | exact B1 | exact B2].
    + apply (lexes_cons _ (TOp OMul) (58 :: 58 :: dtype_text DTag ++ rest)); [apply lex_star|].
      apply (lexes_cons _ TDColon (dtype_text DTag ++ rest)); [apply lex_dcolon|].
      rewrite <- HG. apply lex_word; [reflexivity | exact B1 | exact B2].
  - (* EParen *)
    cbn [size] in Hn. cbn [print_text print_toks app]. rewrite <- app_assoc. cbn [app].
    apply (lexes_cons _ TLParen (PTX e' ++ 41 :: rest)); [apply lex_lparen|].
    apply (lexes_trans _ _ _ _ _ _ _ _ (PT e') (41 :: rest)).
    + apply (IH e' false); [clear - Hn; lia | exact Hc | reflexivity |].
      intro Hx. rewrite (canon_not_regex e' Hc) in Hx. discriminate.
    + apply lex_rparen.
  - (* ECall *)
    cbn [size] in Hn. apply andb_prop in Hc. destruct Hc as [Hname Hargs].
    unfold call_name_ok in Hname.
    apply andb_prop in Hname. destruct Hname as [Hname Hkw]. apply andb_prop in Hname. destruct Hname as [Hname _].
    apply andb_prop in Hname. destruct Hname as [Hbare Hlow]. apply str_eqb_eq in Hlow.
    assert (Hw : WT name = TIdent name).
    { unfold word_tok. rewrite Hlow. destruct (kw_lookup kws name); [discriminate | reflexivity]. }
    rewrite text_call, print_call. rewrite <- app_assoc. cbn [app]. rewrite <- app_assoc. cbn [app].
    apply (lexes_cons _ (TIdent name) (40 :: pa_text args ++ 41 :: rest)).
    { rewrite <- Hw. apply lex_word; [exact Hbare | reflexivity | reflexivity]. }
    apply (lexes_cons _ TLParen (pa_text args ++ 41 :: rest)); [apply lex_lparen|].
    apply (lexes_trans _ _ _ _ _ _ _ _ (pa nr dr args) (41 :: rest)); [|apply lex_rparen].
    destruct args as [|a more]; [apply lexes_refl|].
    rewrite pa_text_cons, pa_cons. rewrite <- app_assoc.
    cbn [forallb] in Hargs. apply andb_prop in Hargs. destruct Hargs as [Ha Hm].
    assert (Hsz : forall x, In x (a :: more) -> (size x <= n)%nat).
    { intros x Hx. pose proof (size_arg x (a :: more) Hx) as Hsa. clear - Hn Hsa. lia. }
    apply (lexes_trans _ _ _ _ _ _ _ _ (PT a) (sep_text more ++ 41 :: rest)).
    + apply (IH a true); [apply Hsz; left; reflexivity | exact Ha | apply sepb_sep_text |]. intros _. reflexivity.
    + apply lex_more.
      * intros x Hx rest' st' Hs' Hre'. assert (Hcx : CANON true x = true).
        { apply (proj1 (forallb_forall _ _) Hm). exact Hx. }
        apply (IH x true); [apply Hsz; right; exact Hx | exact Hcx | exact Hs' | exact Hre'].
      * exact Hm.
      * eexists. rewrite (run_stk (size a) a) by apply le_n. reflexivity.
  - (* EBin *)
    cbn [size] in Hn.
    apply andb_prop in Hc. destruct Hc as [Hc Hpr]. apply andb_prop in Hc. destruct Hc as [Hc Hpl].
    apply andb_prop in Hc. destruct Hc as [Hc Hr]. apply andb_prop in Hc. destruct Hc as [Hc Hdiv].
    apply andb_prop in Hc. destruct Hc as [Hop Hl].
    cbn [print_text print_toks]. rewrite <- app_assoc. cbn [app]. rewrite <- app_assoc. cbn [app].
    assert (Hcr : exists argr, CANON argr r = true /\ (is_regex r = true -> is_regex_op o = true)).
    { destruct (is_regex_op o).
      - apply andb_prop in Hr. destruct Hr as [_ Hr]. exists true. split; [exact Hr | reflexivity].
      - exists false. split; [exact Hr|]. intro Hx. rewrite (canon_not_regex r Hr) in Hx. discriminate. }
    destruct Hcr as [argr [Hcr Hrx]].
    apply (lexes_trans _ _ _ _ _ _ _ _ (PT l) (32 :: op_text o ++ 32 :: PTX r ++ rest)).
    { apply (IH l false); [clear - Hn; lia | exact Hl | reflexivity |]. intro Hx. rewrite (canon_not_regex l Hl) in Hx. discriminate. }
    assert (Hopws : hd_sat is_ws (op_text o ++ 32 :: PTX r ++ rest) = false).
    { specialize (HTop o Hop). destruct (sym_texts o) as [|t0 ts] eqn:Es.
      - destruct HTop as [Hb _]. destruct (bare_ok_chars _ Hb) as [c [w' [Ew [Hc1 _]]]]. rewrite Ew.
        cbn [app hd_sat]. destruct (ident_first_class c Hc1) as [X _]. exact X.
      - rewrite <- Es in HTop. clear - HTop.
        destruct o; cbn [sym_texts In] in HTop; repeat (destruct HTop as [HTop|HTop]); try contradiction;
          rewrite <- HTop; reflexivity. }
    apply (lexes_cons _ TWs (op_text o ++ 32 :: PTX r ++ rest)); [apply lex_ws; exact Hopws|].
    apply (lexes_cons _ (TOp o) (32 :: PTX r ++ rest)).
    { specialize (HTop o Hop). destruct (sym_texts o) as [|t0 ts] eqn:Es.
      2: { rewrite <- Es in HTop. apply lex_symop; [exact HTop|].
        intro Eo. subst o. cbn [op_eqb op_idx N.eqb Pos.eqb] in Hdiv.
        cbn [run fold_left advance s_prev s_last s_stk].
        change (fold_left advance (PT l) st) with (run (PT l) st).
        apply and_comm. apply good_end_div. apply (div_state l false); assumption. }
      destruct HTop as [Hb Hw]. rewrite <- Hw. apply lex_word; [exact Hb | reflexivity | reflexivity]. }
    apply (lexes_cons _ TWs (PTX r ++ rest)); [apply lex_ws; apply (head_nonws r argr); exact Hcr|].
    apply (IH r argr); [clear - Hn; lia | exact Hcr | exact Hs |].
    intro Hx. specialize (Hrx Hx). cbn [run fold_left advance s_last s_stk].
    destruct o; cbn in Hrx; try discriminate; reflexivity.
Qed.

Theorem scan_print : forall e, CANON false e = true ->
  scan kws op_of_code ct cf cfield ctag cdistinct (PTX e) = PT e.
Proof.
  intros e Hc. apply lexes_scan. rewrite <- (app_nil_r (PTX e)).
  apply (lex_main (size e) e false [] st0); [lia | exact Hc | reflexivity |].
  intro Hx. rewrite (canon_not_regex e Hc) in Hx. discriminate.
Qed.

(* end to end: the text printed for a canonical expression is read back, by the scanner and the precedence parser, as
   the same tree *)
Theorem print_scan_parse : forall e, CANON false e = true ->
  parse prec isop (scan kws op_of_code ct cf cfield ctag cdistinct (PTX e)) = Some e.
Proof. intros e Hc. rewrite scan_print by exact Hc. apply (print_parse prec isop kws nr dr). exact Hc. Qed.

End LexMain.

(* ------------------------------------------------------------------ the table condition as a computable check *)
Definition tok_same (a b : token) : bool :=
  match a, b with
  | TTag, TTag | TField, TField | TTrue, TTrue | TFalse, TFalse => true
  | TIdent x, TIdent y => str_eqb x y
  | TOp x, TOp y => op_eqb x y
  | _, _ => false
  end.

Lemma op_eqb_eq : forall a b, op_eqb a b = true -> a = b.
Proof. intros a b H. destruct a, b; try reflexivity; discriminate H. Qed.

Lemma tok_same_eq : forall a b, tok_same a b = true -> a = b.
Proof.
  intros a b H. destruct a, b; cbn [tok_same] in H; try discriminate; try reflexivity.
  - apply str_eqb_eq in H. subst. reflexivity.
  - apply op_eqb_eq in H. subst. reflexivity.
Qed.

Definition all_dtypes : list dtype :=
  [DUnknown; DFloat; DFloatTuple; DInteger; DUnsigned; DString; DBoolean; DTag; DAnyField; DTime; DDuration; DGraph].

Section TablesCheck.
Variable isop : op -> bool.
Variable op_text : op -> str.
Variable kws : list (str * N).
Variable op_of_code : N -> option op.
Variables ct cf cfield ctag cdistinct : N.
Notation WT := (word_tok kws op_of_code ct cf cfield ctag cdistinct).

Definition op_lex_b (o : op) : bool :=
  match sym_texts o with
  | [] => bare_ok (op_text o) && tok_same (WT (op_text o)) (TOp o)
  | ts => existsb (str_eqb (op_text o)) ts
  end.

Definition lex_tables_b : bool :=
  forallb (fun o => negb (isop o) || op_lex_b o) all_ops &&
  forallb (fun d => negb (printable_dtype d) || dtype_eqb d DUnknown || tok_same (WT (dtype_text d)) (dtype_tok d)) all_dtypes &&
  tok_same (WT [116;114;117;101]) TTrue && tok_same (WT [102;97;108;115;101]) TFalse &&
  tok_same (WT [73;110;102]) (TIdent [73;110;102]) && tok_same (WT [78;97;78]) (TIdent [78;97;78]).

Lemma lex_tables_reflect : lex_tables_b = true -> lex_tables isop op_text kws op_of_code ct cf cfield ctag cdistinct.
Proof.
  unfold lex_tables_b, lex_tables. intro H.
  apply andb_prop in H. destruct H as [H H6]. apply andb_prop in H. destruct H as [H H5].
  apply andb_prop in H. destruct H as [H H4]. apply andb_prop in H. destruct H as [H H3].
  apply andb_prop in H. destruct H as [H1 H2].
  split; [|split; [|repeat split; apply tok_same_eq; assumption]].
  - intros o Ho. assert (Hin : In o all_ops) by (destruct o; cbn; tauto).
    pose proof (proj1 (forallb_forall _ _) H1 o Hin) as Hx. cbn beta in Hx. rewrite Ho in Hx. cbn [negb orb] in Hx.
    unfold op_lex_b in Hx. destruct (sym_texts o) as [|t0 ts].
    + apply andb_prop in Hx. destruct Hx as [Hb Hw]. split; [exact Hb | apply tok_same_eq; exact Hw].
    + apply existsb_exists in Hx. destruct Hx as [t [Hin' He]]. apply str_eqb_eq in He. rewrite He. exact Hin'.
  - intros d Hp Hd. assert (Hin : In d all_dtypes) by (destruct d; cbn; tauto).
    pose proof (proj1 (forallb_forall _ _) H2 d Hin) as Hx.
    cbn beta in Hx. rewrite Hp, Hd in Hx. cbn [negb orb] in Hx. apply tok_same_eq. exact Hx.
Qed.
End TablesCheck.
