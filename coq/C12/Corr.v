(* C12 correspondence evaluator: runs the model on the harness' cases and reports disagreements with the
   implementation's observed behaviour. *)
From Coq Require Import ZArith NArith List Bool.
From OG Require Import C12.Model C12.Gen_Tokens C12.Inst C12.Regroup.
Import ListNotations.
Open Scope N_scope.

Fixpoint expr_eqb (a b : expr) {struct a} : bool :=
  match a, b with
  | EVar n t, EVar n' t' => str_eqb n n' && dtype_eqb t t'
  | EInt z, EInt z' => Z.eqb z z'
  | EUnsigned n, EUnsigned n' => n =? n'
  | ENum s i f, ENum s' i' f' => Bool.eqb s s' && (i =? i') && str_eqb f f'
  | ESpecial k, ESpecial k' => k =? k'
  | EStr s, EStr s' => str_eqb s s'
  | EBool b, EBool b' => Bool.eqb b b'
  | EDur z, EDur z' => Z.eqb z z'
  | ERegex s, ERegex s' => str_eqb s s'
  | EWild w, EWild w' => match w, w' with WAny, WAny | WField, WField | WTag, WTag => true | _, _ => false end
  | EParen e, EParen e' => expr_eqb e e'
  | ECall n l, ECall n' l' =>
      str_eqb n n' &&
      (fix go (x y : list expr) : bool :=
         match x, y with
         | [], [] => true
         | p :: x', q :: y' => expr_eqb p q && go x' y'
         | _, _ => false
         end) l l'
  | EBin o l r, EBin o' l' r' => op_eqb o o' && expr_eqb l l' && expr_eqb r r'
  | _, _ => false
  end.

Definition oexpr_eqb (a b : option expr) : bool :=
  match a, b with
  | Some x, Some y => expr_eqb x y
  | None, None => true
  | _, _ => false
  end.

Definition tok_eqb (a b : token) : bool :=
  match a, b with
  | TWs, TWs | TTrue, TTrue | TFalse, TFalse | TLParen, TLParen | TRParen, TRParen | TComma, TComma
  | TDColon, TDColon | TDot, TDot | TField, TField | TTag, TTag | TDistinct, TDistinct | TIllegal, TIllegal => true
  | TIdent s, TIdent s' | TString s, TString s' | TInteger s, TInteger s' | TNumber s, TNumber s'
  | TDuration s, TDuration s' | TRegex s, TRegex s' => str_eqb s s'
  | TOp o, TOp o' => op_eqb o o'
  | TKeyword c, TKeyword c' => c =? c'
  | _, _ => false
  end.
Fixpoint toks_eqb (a b : list token) : bool :=
  match a, b with
  | [], [] => true
  | x :: a', y :: b' => tok_eqb x y && toks_eqb a' b'
  | _, _ => false
  end.

(* a case: source text given to the hand-written parser (if any), the tree, its printed text, the re-parsed tree *)
Record xcase := { c_src : option str; c_e : option expr; c_printed : str; c_re : option expr }.

(* failure codes:
   1 parse (scan src) differs from the implementation's ParseExpr(src)
   2 print_text e differs from the implementation's String()
   3 scan (print_text e) differs from print_toks e            (model-internal lexical consistency, canonical e only)
   4 parse (scan printed) differs from the implementation's ParseExpr(printed)
   5 e is canonical (the theorem applies) but the implementation did not return e on re-parsing *)
(* pr: the working tree's BinaryExpr printer puts regrouped operands in parentheses (Regroup.fixp) *)
Definition printed_tree (pr : bool) (e : expr) : expr := if pr then fixp Inst.prec e else e.

Definition check_case (nr dr pr : bool) (c : xcase) : list N :=
  (match c_src c with
   | Some s => if oexpr_eqb (parse (scan s)) (c_e c) then [] else [1]
   | None => []
   end) ++
  match c_e c with
  | None => []
  | Some e0 =>
      let e := printed_tree pr e0 in
      (if str_eqb (print_text_v nr dr e) (c_printed c) then [] else [2]) ++
      (if canon_v nr dr e then
         (if toks_eqb (scan (c_printed c)) (print_toks_v nr dr e) then [] else [3]) ++
         (if oexpr_eqb (c_re c) (Some e) then [] else [5])
       else []) ++
      (if oexpr_eqb (parse (scan (c_printed c))) (c_re c) then [] else [4])
  end.

Fixpoint mismatches_from (k : N) (nr dr pr : bool) (cs : list xcase) : list (N * list N) :=
  match cs with
  | [] => []
  | c :: r => match check_case nr dr pr c with
              | [] => mismatches_from (k + 1) nr dr pr r
              | l => (k, l) :: mismatches_from (k + 1) nr dr pr r
              end
  end.
Definition mismatches := mismatches_from 0.

(* which cases are canonical (for the coverage statistics) *)
Definition canon_flags (nr dr pr : bool) (cs : list xcase) : list bool :=
  map (fun c => match c_e c with Some e => canon_v nr dr (printed_tree pr e) | None => false end) cs.
