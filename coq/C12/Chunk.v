(* C12 chunk codec model: the generated codec of result chunks (engine/executor/chunk_codec.gen.go: ChunkImpl, ColumnImpl,
   Bitmap, ChunkTags, floatTuple Marshal / Unmarshal / Size) over the primitives of lib/codec (binary_encoder.go,
   binary_decoder.go, size.go).  Executable definitions only.
   Bytes are N in [0,256).  Every 64-bit value (int64, int, float64) is its 64-bit pattern, an N below 2^64: int64 in
   two's complement, float64 in IEEE-754 bits - the codec moves patterns and never interprets them, except for the
   zig-zag step of scalar ints.  Scalars are big-endian; slices of fixed-size elements are the raw memory of the Go slice,
   i.e. little-endian on the supported (little-endian) hosts.  Go's nil and empty slices are the same list here. *)
From Coq Require Import NArith List Bool.
Import ListNotations.
Open Scope N_scope.

Definition bytes := list N.

(* ---------------------------------------------------------------- fixed-width integers *)
Fixpoint enc_be (k : nat) (n : N) : bytes :=
  match k with
  | O => []
  | S k' => (n / 256 ^ N.of_nat k') :: enc_be k' (n mod 256 ^ N.of_nat k')
  end.
Fixpoint dec_be (k : nat) (b : bytes) (acc : N) : option (N * bytes) :=
  match k with
  | O => Some (acc, b)
  | S k' => match b with
            | x :: r => dec_be k' r (acc * 256 + x)
            | [] => None
            end
  end.

Fixpoint enc_le (k : nat) (n : N) : bytes :=
  match k with
  | O => []
  | S k' => (n mod 256) :: enc_le k' (n / 256)
  end.
Fixpoint dec_le (k : nat) (b : bytes) : option (N * bytes) :=
  match k with
  | O => Some (0, b)
  | S k' => match b with
            | x :: r => match dec_le k' r with
                        | Some (m, rest) => Some (x + 256 * m, rest)
                        | None => None
                        end
            | [] => None
            end
  end.

Definition two64 : N := 18446744073709551616.
Definition two63 : N := 9223372036854775808.
Definition two32 : N := 4294967296.
Definition two16 : N := 65536.

(* encoding.MarshalInt64: zig-zag on the pattern, then 8 bytes big-endian *)
Definition zigzag (u : N) : N := if u <? two63 then 2 * u else 2 * two64 - 1 - 2 * u.
Definition unzigzag (w : N) : N := if N.even w then w / 2 else (2 * two64 - 1 - w) / 2.

(* a decoder: reads a value from the front of the buffer *)
Definition dec (A : Type) := bytes -> option (A * bytes).

Definition enc_u16 (n : N) : bytes := enc_be 2 n.
Definition dec_u16 : dec N := fun b => dec_be 2 b 0.
Definition enc_u32 (n : N) : bytes := enc_be 4 n.
Definition dec_u32 : dec N := fun b => dec_be 4 b 0.
Definition enc_int (u : N) : bytes := enc_be 8 (zigzag u).                 (* AppendInt / AppendInt64 *)
Definition dec_int : dec N := fun b =>
  match dec_be 8 b 0 with Some (w, r) => Some (unzigzag w, r) | None => None end.

Definition len (A : Type) (l : list A) : N := N.of_nat (length l).
Arguments len {A} l.

(* ---------------------------------------------------------------- slices *)
(* AppendXxxSlice: uint32 count, then the raw memory of the slice (k bytes per element, little-endian) *)
Definition enc_slice (k : nat) (l : list N) : bytes := enc_u32 (len l) ++ flat_map (enc_le k) l.
Fixpoint dec_elems (k : nat) (n : nat) (b : bytes) : option (list N * bytes) :=
  match n with
  | O => Some ([], b)
  | S n' => match dec_le k b with
            | Some (x, r) => match dec_elems k n' r with
                             | Some (l, rest) => Some (x :: l, rest)
                             | None => None
                             end
            | None => None
            end
  end.
Definition dec_slice (k : nat) : dec (list N) := fun b =>
  match dec_u32 b with
  | Some (n, r) => dec_elems k (N.to_nat n) r
  | None => None
  end.

Definition bool_byte (x : bool) : N := if x then 1 else 0.
Definition enc_bools (l : list bool) : bytes := enc_u32 (len l) ++ map bool_byte l.
Fixpoint take (n : nat) (b : bytes) : option (bytes * bytes) :=
  match n with
  | O => Some ([], b)
  | S n' => match b with
            | x :: r => match take n' r with Some (l, rest) => Some (x :: l, rest) | None => None end
            | [] => None
            end
  end.
(* Bytes2BooleanSlice reinterprets the bytes; only the bytes 0 and 1 are written by the encoder *)
Definition dec_bools : dec (list bool) := fun b =>
  match dec_u32 b with
  | Some (n, r) => match take (N.to_nat n) r with
                   | Some (l, rest) => Some (map (fun x => negb (x =? 0)) l, rest)
                   | None => None
                   end
  | None => None
  end.

Definition enc_bytes (l : bytes) : bytes := enc_u32 (len l) ++ l.          (* AppendBytes *)
Definition dec_bytes : dec bytes := fun b =>
  match dec_u32 b with Some (n, r) => take (N.to_nat n) r | None => None end.
Definition enc_string (l : bytes) : bytes := enc_u16 (len l) ++ l.         (* AppendString *)
Definition dec_string : dec bytes := fun b =>
  match dec_u16 b with Some (n, r) => take (N.to_nat n) r | None => None end.

(* ---------------------------------------------------------------- Bitmap *)
Record bitmap := { bm_bits : bytes; bm_array : list N; bm_length : N; bm_nil : N }.

Definition enc_bitmap (m : bitmap) : bytes :=
  enc_bytes (bm_bits m) ++ enc_slice 2 (bm_array m) ++ enc_int (bm_length m) ++ enc_int (bm_nil m).
Definition size_bitmap (m : bitmap) : N := (len (bm_bits m) + 4) + (2 * len (bm_array m) + 4) + 8 + 8.
Definition dec_bitmap : dec bitmap := fun b =>
  match dec_bytes b with
  | Some (bits, r1) =>
    match dec_slice 2 r1 with
    | Some (arr, r2) =>
      match dec_int r2 with
      | Some (l, r3) =>
        match dec_int r3 with
        | Some (nc, r4) => Some ({| bm_bits := bits; bm_array := arr; bm_length := l; bm_nil := nc |}, r4)
        | None => None end
      | None => None end
    | None => None end
  | None => None end.

(* ---------------------------------------------------------------- size-prefixed sub-messages *)
(* the writer puts uint32(item.Size()) in front of item.Marshal; the reader hands exactly that many bytes to Unmarshal
   (BytesNoCopy) and treats a zero size as "absent" *)
Definition dec_sub (A : Type) (d : dec A) : dec (option A) := fun b =>
  match dec_u32 b with
  | Some (n, r) =>
      if n =? 0 then Some (None, r)
      else match take (N.to_nat n) r with
           | Some (sub, rest) => match d sub with
                                 | Some (a, _) => Some (Some a, rest)
                                 | None => None
                                 end
           | None => None
           end
  | None => None
  end.
Arguments dec_sub {A} d.

Fixpoint dec_many (A : Type) (d : dec A) (n : nat) (b : bytes) : option (list A * bytes) :=
  match n with
  | O => Some ([], b)
  | S n' => match d b with
            | Some (x, r) => match dec_many A d n' r with
                             | Some (l, rest) => Some (x :: l, rest)
                             | None => None
                             end
            | None => None
            end
  end.
Arguments dec_many {A} d n b.

(* ---------------------------------------------------------------- floatTuple, ColumnImpl *)
Definition enc_tuple (t : list N) : bytes := enc_slice 8 t.
Definition size_tuple (t : list N) : N := 8 * len t + 4.

Record column := {
  c_type : N; c_floats : list N; c_ints : list N; c_strbytes : bytes; c_offset : list N; c_bools : list bool;
  c_times : list N; c_tuples : list (list N); c_nils : option bitmap }.

Definition enc_column (c : column) : bytes :=
  enc_int (c_type c) ++ enc_slice 8 (c_floats c) ++ enc_slice 8 (c_ints c) ++ enc_bytes (c_strbytes c) ++
  enc_slice 4 (c_offset c) ++ enc_bools (c_bools c) ++ enc_slice 8 (c_times c) ++
  enc_u32 (len (c_tuples c)) ++ flat_map (fun t => enc_u32 (size_tuple t) ++ enc_tuple t) (c_tuples c) ++
  match c_nils c with
  | None => enc_u32 0
  | Some m => enc_u32 (size_bitmap m) ++ enc_bitmap m
  end.
Definition size_column (c : column) : N :=
  8 + (8 * len (c_floats c) + 4) + (8 * len (c_ints c) + 4) + (len (c_strbytes c) + 4) + (4 * len (c_offset c) + 4) +
  (len (c_bools c) + 4) + (8 * len (c_times c) + 4) +
  (4 + fold_right (fun t s => 4 + size_tuple t + s) 0 (c_tuples c)) +
  (4 + match c_nils c with None => 0 | Some m => size_bitmap m end).

(* a floatTuple sub-message is never absent: its size is at least 4; an "absent" one would read as the empty tuple *)
Definition tuple_of (o : option (list N)) : list N := match o with Some t => t | None => [] end.

Definition dec_column : dec column := fun b =>
  match dec_int b with
  | Some (ty, r1) =>
    match dec_slice 8 r1 with
    | Some (fl, r2) =>
      match dec_slice 8 r2 with
      | Some (il, r3) =>
        match dec_bytes r3 with
        | Some (sb, r4) =>
          match dec_slice 4 r4 with
          | Some (off, r5) =>
            match dec_bools r5 with
            | Some (bl, r6) =>
              match dec_slice 8 r6 with
              | Some (tm, r7) =>
                match dec_u32 r7 with
                | Some (nt, r8) =>
                  match dec_many (dec_sub (dec_slice 8)) (N.to_nat nt) r8 with
                  | Some (tl, r9) =>
                    match dec_sub dec_bitmap r9 with
                    | Some (nl, r10) =>
                        Some ({| c_type := ty; c_floats := fl; c_ints := il; c_strbytes := sb; c_offset := off;
                                 c_bools := bl; c_times := tm; c_tuples := map tuple_of tl; c_nils := nl |}, r10)
                    | None => None end
                  | None => None end
                | None => None end
              | None => None end
            | None => None end
          | None => None end
        | None => None end
      | None => None end
    | None => None end
  | None => None end.

(* ---------------------------------------------------------------- ChunkTags, ChunkImpl *)
Definition enc_tags (t : bytes) : bytes := enc_bytes t.
Definition size_tags (t : bytes) : N := len t + 4.
Definition bytes_of (o : option bytes) : bytes := match o with Some t => t | None => [] end.

Record chunk := {
  k_name : bytes; k_tags : list bytes; k_tagindex : list N; k_time : list N; k_intervalindex : list N;
  k_columns : list (option column); k_dims : list (option column) }.

Definition enc_ocolumn (o : option column) : bytes :=
  match o with
  | None => enc_u32 0
  | Some c => enc_u32 (size_column c) ++ enc_column c
  end.
Definition size_ocolumn (o : option column) : N := 4 + match o with None => 0 | Some c => size_column c end.

Definition enc_chunk (k : chunk) : bytes :=
  enc_string (k_name k) ++
  enc_u32 (len (k_tags k)) ++ flat_map (fun t => enc_u32 (size_tags t) ++ enc_tags t) (k_tags k) ++
  enc_slice 8 (k_tagindex k) ++ enc_slice 8 (k_time k) ++ enc_slice 8 (k_intervalindex k) ++
  enc_u32 (len (k_columns k)) ++ flat_map enc_ocolumn (k_columns k) ++
  enc_u32 (len (k_dims k)) ++ flat_map enc_ocolumn (k_dims k).
Definition size_chunk (k : chunk) : N :=
  (len (k_name k) + 2) + (4 + fold_right (fun t s => 4 + size_tags t + s) 0 (k_tags k)) +
  (8 * len (k_tagindex k) + 4) + (8 * len (k_time k) + 4) + (8 * len (k_intervalindex k) + 4) +
  (4 + fold_right (fun o s => size_ocolumn o + s) 0 (k_columns k)) +
  (4 + fold_right (fun o s => size_ocolumn o + s) 0 (k_dims k)).

Definition dec_chunk : dec chunk := fun b =>
  match dec_string b with
  | Some (nm, r1) =>
    match dec_u32 r1 with
    | Some (nt, r2) =>
      match dec_many (dec_sub dec_bytes) (N.to_nat nt) r2 with
      | Some (tg, r3) =>
        match dec_slice 8 r3 with
        | Some (ti, r4) =>
          match dec_slice 8 r4 with
          | Some (tm, r5) =>
            match dec_slice 8 r5 with
            | Some (ii, r6) =>
              match dec_u32 r6 with
              | Some (nc, r7) =>
                match dec_many (dec_sub dec_column) (N.to_nat nc) r7 with
                | Some (cl, r8) =>
                  match dec_u32 r8 with
                  | Some (nd, r9) =>
                    match dec_many (dec_sub dec_column) (N.to_nat nd) r9 with
                    | Some (dl, r10) =>
                        Some ({| k_name := nm; k_tags := map bytes_of tg; k_tagindex := ti; k_time := tm;
                                 k_intervalindex := ii; k_columns := cl; k_dims := dl |}, r10)
                    | None => None end
                  | None => None end
                | None => None end
              | None => None end
            | None => None end
          | None => None end
        | None => None end
      | None => None end
    | None => None end
  | None => None end.

(* ---------------------------------------------------------------- well-formedness: what fits the wire format *)
Definition all_lt (bound : N) (l : list N) : bool := forallb (fun x => x <? bound) l.

Definition wf_bitmap (m : bitmap) : bool :=
  all_lt 256 (bm_bits m) && (len (bm_bits m) <? two32) && all_lt two16 (bm_array m) && (len (bm_array m) <? two32) &&
  (bm_length m <? two64) && (bm_nil m <? two64).

Definition wf_column (c : column) : bool :=
  (c_type c <? two64) && all_lt two64 (c_floats c) && (len (c_floats c) <? two32) &&
  all_lt two64 (c_ints c) && (len (c_ints c) <? two32) &&
  all_lt 256 (c_strbytes c) && (len (c_strbytes c) <? two32) &&
  all_lt two32 (c_offset c) && (len (c_offset c) <? two32) && (len (c_bools c) <? two32) &&
  all_lt two64 (c_times c) && (len (c_times c) <? two32) &&
  forallb (fun t => all_lt two64 t && (size_tuple t <? two32)) (c_tuples c) && (len (c_tuples c) <? two32) &&
  match c_nils c with None => true | Some m => wf_bitmap m && (size_bitmap m <? two32) end.

Definition wf_ocolumn (o : option column) : bool :=
  match o with None => true | Some c => wf_column c && (size_column c <? two32) end.

Definition wf_chunk (k : chunk) : bool :=
  all_lt 256 (k_name k) && (len (k_name k) <? two16) &&
  forallb (fun t => all_lt 256 t && (size_tags t <? two32)) (k_tags k) && (len (k_tags k) <? two32) &&
  all_lt two64 (k_tagindex k) && (len (k_tagindex k) <? two32) &&
  all_lt two64 (k_time k) && (len (k_time k) <? two32) &&
  all_lt two64 (k_intervalindex k) && (len (k_intervalindex k) <? two32) &&
  forallb wf_ocolumn (k_columns k) && (len (k_columns k) <? two32) &&
  forallb wf_ocolumn (k_dims k) && (len (k_dims k) <? two32).
