(* C12: the REPAIRED expression printer (BinaryExpr prints an operand in parentheses when a reader would group it
   differently) as a tree transformation `fixp` followed by the plain printer, and the theorem that lifts the print/parse
   round trip from canonically parenthesised trees to ALL trees whose atoms are printable: the text of `fixp e` parses back
   to `fixp e`, which is e up to ParenExpr nodes - same operators, same grouping.
   Only a right-nested chain of one logical connective (a AND (b AND c) without a ParenExpr; no parser builds it, the
   PromQL transpiler does) is printed without parentheses and comes back left-nested: excluded by `no_right_chain`. *)
From Coq Require Import ZArith NArith List Bool Lia ZifyBool ZifyNat ZifyN.
From OG Require Import C12.Model C12.Proofs C12.ProofsParse C12.ProofsLex C12.ProofsLexMain.
Import ListNotations.
Open Scope N_scope.

Definition assoc_op (o : op) : bool := match o with OAnd | OOr => true | _ => false end.

(* ParenExpr nodes removed: what an expression means *)
Fixpoint strip (e : expr) : expr :=
  match e with
  | EParen e' => strip e'
  | ECall n args => ECall n (map strip args)
  | EBin o l r => EBin o (strip l) (strip r)
  | _ => e
  end.

Section Regroup.
Variable prec : op -> N.
Variable isop : op -> bool.
Variable kws : list (str * N).
Variables nr dr : bool.
Notation CANON := (canon prec isop kws nr dr).
Notation PT := (print_toks nr dr).

Definition wrap_left (o : op) (c : expr) : bool :=
  match c with EBin oc _ _ => prec oc <? prec o | _ => false end.
Definition right_chain (o : op) (c : expr) : bool :=
  match c with EBin oc _ _ => op_eqb oc o && assoc_op o | _ => false end.
Definition wrap_right (o : op) (c : expr) : bool :=
  match c with
  | EBin oc _ _ => (prec oc <? prec o) || ((prec oc =? prec o) && negb (right_chain o c))
  | _ => false
  end.

(* BinaryExpr.renderOperand of the repaired printer, as a tree transformation *)
Fixpoint fixp (e : expr) : expr :=
  match e with
  | EParen e' => EParen (fixp e')
  | ECall n args => ECall n (map fixp args)
  | EBin o l r =>
      EBin o (if wrap_left o l then EParen (fixp l) else fixp l) (if wrap_right o r then EParen (fixp r) else fixp r)
  | _ => e
  end.

(* canonical form WITHOUT the parenthesisation discipline: every tree a parser builds whose atoms are printable *)
Fixpoint canon_np (arg : bool) (e : expr) : bool :=
  match e with
  | EParen e' => canon_np false e'
  | ECall name args => call_name_ok kws name && forallb (canon_np true) args
  | EBin o l r =>
      isop o && canon_np false l && (if op_eqb o ODiv then div_left_ok l else true) &&
      (if is_regex_op o then is_regex r && canon_np true r else canon_np false r) &&
      negb (right_chain o r)
  | _ => CANON arg e
  end.

Lemma strip_fixp : forall n e, (size e <= n)%nat -> strip (fixp e) = strip e.
Proof.
  induction n as [|n IH]; intros e Hn; [pose proof (size_ge1 e); lia|].
  destruct e as [name t|z|n0|neg ip fp|k|s|b|z|src|w|e'|name args|o l r]; try reflexivity; cbn [size] in Hn.
  - cbn [fixp strip]. apply IH. lia.
  - cbn [fixp strip]. f_equal. rewrite map_map. apply map_ext_in. intros a Ha. apply IH.
    pose proof (size_arg a args Ha). lia.
  - cbn [fixp strip].
    assert (Hl : strip (if wrap_left o l then EParen (fixp l) else fixp l) = strip l).
    { destruct (wrap_left o l); cbn [strip]; apply IH; lia. }
    assert (Hr : strip (if wrap_right o r then EParen (fixp r) else fixp r) = strip r).
    { destruct (wrap_right o r); cbn [strip]; apply IH; lia. }
    rewrite Hl, Hr. reflexivity.
Qed.

Lemma fixp_top : forall e, top_prec prec (fixp e) = top_prec prec e.
Proof. destruct e; reflexivity. Qed.
Lemma fixp_is_regex : forall e, is_regex (fixp e) = is_regex e.
Proof. destruct e; reflexivity. Qed.

Lemma div_left_fixp : forall e, div_left_ok e = true -> div_left_ok (fixp e) = true.
Proof.
  induction e as [name t|z|n|neg ip fp|k|s|b|z|src|w|e' IHe|name args|o l IHl r IHr]; intro H; try exact H; try reflexivity.
  cbn [fixp div_left_ok] in *. destruct (wrap_right o r); [reflexivity | apply IHr; exact H].
Qed.

Lemma canon_np_atom_arg : forall e, is_regex e = false -> canon_np true e = canon_np false e.
Proof. intros e H. destruct e; try reflexivity. discriminate. Qed.

Lemma fixp_canon : forall n e arg, (size e <= n)%nat -> canon_np arg e = true -> CANON arg (fixp e) = true.
Proof.
  induction n as [|n IH]; intros e arg Hn Hc; [pose proof (size_ge1 e); lia|].
  destruct e as [name t|z|n0|neg ip fp|k|s|b|z|src|w|e'|name args|o l r]; try exact Hc; cbn [size] in Hn.
  - cbn [fixp canon canon_np] in *. apply IH; [lia | exact Hc].
  - cbn [fixp canon canon_np] in *. apply andb_prop in Hc. destruct Hc as [Hname Hargs]. rewrite Hname. cbn [andb].
    rewrite forallb_forall. intros x Hx. apply in_map_iff in Hx. destruct Hx as [a [Ea Ha]]. subst x.
    apply IH; [pose proof (size_arg a args Ha); lia|]. exact (proj1 (forallb_forall _ _) Hargs a Ha).
  - cbn [canon_np] in Hc.
    apply andb_prop in Hc. destruct Hc as [Hc Hchain]. apply andb_prop in Hc. destruct Hc as [Hc Hr].
    apply andb_prop in Hc. destruct Hc as [Hc Hdiv]. apply andb_prop in Hc. destruct Hc as [Hop Hl].
    apply negb_true_iff in Hchain.
    cbn [fixp canon]. rewrite Hop. cbn [andb].
    assert (HL : CANON false (fixp l) = true) by (apply IH; [lia | exact Hl]).
    (* left operand *)
    assert (A1 : CANON false (if wrap_left o l then EParen (fixp l) else fixp l) = true).
    { destruct (wrap_left o l); [cbn [canon]|]; exact HL. }
    assert (A2 : (if op_eqb o ODiv then div_left_ok (if wrap_left o l then EParen (fixp l) else fixp l) else true) = true).
    { destruct (op_eqb o ODiv); [|reflexivity]. destruct (wrap_left o l); [reflexivity | apply div_left_fixp; exact Hdiv]. }
    assert (A3 : match top_prec prec (if wrap_left o l then EParen (fixp l) else fixp l) with Some p => prec o <=? p | None => true end = true).
    { destruct (wrap_left o l) eqn:W; [reflexivity|]. rewrite fixp_top. destruct l; try reflexivity. cbn [wrap_left top_prec] in *. lia. }
    (* right operand *)
    assert (B1 : (if is_regex_op o then is_regex (if wrap_right o r then EParen (fixp r) else fixp r) &&
                                        CANON true (if wrap_right o r then EParen (fixp r) else fixp r)
                  else CANON false (if wrap_right o r then EParen (fixp r) else fixp r)) = true).
    { destruct (is_regex_op o).
      - apply andb_prop in Hr. destruct Hr as [R1 R2]. destruct r; try discriminate. cbn [wrap_right fixp is_regex]. exact R2.
      - assert (HR : CANON false (fixp r) = true) by (apply IH; [lia | exact Hr]).
        destruct (wrap_right o r); [cbn [canon]|]; exact HR. }
    assert (B2 : match top_prec prec (if wrap_right o r then EParen (fixp r) else fixp r) with Some p => prec o <? p | None => true end = true).
    { destruct (wrap_right o r) eqn:W; [reflexivity|]. rewrite fixp_top. destruct r; try reflexivity.
      cbn [wrap_right top_prec] in *. cbn [right_chain] in Hchain, W. rewrite Hchain in W. cbn [negb] in W. lia. }
    rewrite A1, A2, B1, A3, B2. reflexivity.
Qed.

(* the repaired printer's token sequence parses back to the tree with the parentheses it printed *)
Theorem regroup_print_parse : forall e, canon_np false e = true ->
  parse prec isop (PT (fixp e)) = Some (fixp e) /\ strip (fixp e) = strip e.
Proof.
  intros e H. split.
  - apply (print_parse prec isop kws nr dr). apply (fixp_canon (size e)); [lia | exact H].
  - apply (strip_fixp (size e)). lia.
Qed.

End Regroup.
