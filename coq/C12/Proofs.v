(* C12 lemmas: decimal digits, literal conversions, the spine-insertion algorithm, print/parse round trip. *)
From Coq Require Import ZArith NArith List Bool Lia ZifyBool ZifyNat ZifyN.
From OG Require Import C12.Model.
Import ListNotations.
Open Scope N_scope.

(* ------------------------------------------------------------------ decimal digits *)
Lemma digits_fuel_app : forall f n acc, digits_fuel f n acc = digits_fuel f n [] ++ acc.
Proof.
  induction f as [|f IH]; intros n acc; cbn [digits_fuel].
  - reflexivity.
  - destruct (n <? 10).
    + reflexivity.
    + rewrite IH. rewrite (IH _ [_]). rewrite <- app_assoc. reflexivity.
Qed.

Lemma digits_val_acc_app : forall s t a,
  digits_val_acc a (s ++ t) = match digits_val_acc a s with Some x => digits_val_acc x t | None => None end.
Proof.
  induction s as [|c s IH]; intros t a; cbn [app digits_val_acc].
  - reflexivity.
  - destruct (is_digit c); [apply IH | reflexivity].
Qed.

Lemma is_digit_48 : forall d, d < 10 -> is_digit (48 + d) = true.
Proof. intros d H. unfold is_digit. lia. Qed.

Lemma is_digit_range : forall c, is_digit c = true -> 48 <= c /\ c <= 57.
Proof. intros c H. unfold is_digit in H. lia. Qed.

Lemma digits_fuel_val : forall f n, n < 2 ^ N.of_nat f -> digits_val_acc 0 (digits_fuel f n []) = Some n.
Proof.
  induction f as [|f IH]; intros n Hn.
  - cbn in Hn. cbn. f_equal. lia.
  - cbn [digits_fuel]. destruct (n <? 10) eqn:E.
    + cbn [digits_val_acc]. rewrite is_digit_48 by (apply N.mod_lt; lia).
      f_equal. rewrite N.mod_small by lia. lia.
    + rewrite digits_fuel_app, digits_val_acc_app.
      assert (Hp : 2 ^ N.of_nat (S f) = 2 * 2 ^ N.of_nat f).
      { rewrite Nat2N.inj_succ, N.pow_succ_r'. reflexivity. }
      rewrite IH.
      * cbn [digits_val_acc]. rewrite is_digit_48 by (apply N.mod_lt; lia).
        f_equal. pose proof (N.div_mod n 10). lia.
      * rewrite Hp in Hn. apply N.div_lt_upper_bound; lia.
Qed.

Lemma digits_nonempty : forall n, digits n <> [].
Proof.
  intro n. unfold digits. cbn [digits_fuel]. destruct (n <? 10).
  - discriminate.
  - rewrite digits_fuel_app. intro H. apply app_eq_nil in H. destruct H as [_ H]. discriminate.
Qed.

Lemma digits_val_acc_digits : forall n, digits_val_acc 0 (digits n) = Some n.
Proof.
  intro n. unfold digits. apply digits_fuel_val.
  rewrite Nat2N.inj_succ, N2Nat.id, N.pow_succ_r'.
  pose proof (N.size_gt n). lia.
Qed.

Theorem digits_roundtrip : forall n, digits_val (digits n) = Some n.
Proof.
  intro n. unfold digits_val. pose proof (digits_nonempty n). destruct (digits n) eqn:E; [congruence|].
  rewrite <- E. apply digits_val_acc_digits.
Qed.

Lemma digits_fuel_all : forall f n acc, forallb is_digit acc = true -> forallb is_digit (digits_fuel f n acc) = true.
Proof.
  induction f as [|f IH]; intros n acc H; cbn [digits_fuel]; [exact H|].
  assert (H1 : forallb is_digit ((48 + n mod 10) :: acc) = true).
  { cbn [forallb]. rewrite H, is_digit_48 by (apply N.mod_lt; lia). reflexivity. }
  destruct (n <? 10); [exact H1 | apply IH; exact H1].
Qed.
Lemma digits_all : forall n, forallb is_digit (digits n) = true.
Proof. intro n. apply digits_fuel_all. reflexivity. Qed.

(* ------------------------------------------------------------------ integer literals *)
Lemma int_of_text_small : forall n, n <= max_int64 -> int_of_text (digits n) = Some (EInt (Z.of_N n)).
Proof. intros n H. unfold int_of_text. rewrite digits_roundtrip. apply N.leb_le in H. rewrite H. reflexivity. Qed.

Lemma int_of_text_big : forall n, max_int64 < n -> n <= max_uint64 -> int_of_text (digits n) = Some (EUnsigned n).
Proof.
  intros n H1 H2. unfold int_of_text. rewrite digits_roundtrip.
  apply N.leb_gt in H1. rewrite H1. apply N.leb_le in H2. rewrite H2. reflexivity.
Qed.

(* ------------------------------------------------------------------ number literals *)
Lemma split_dot_digits : forall s acc t, forallb is_digit s = true -> split_dot (s ++ 46 :: t) acc = (rev acc ++ s, Some t).
Proof.
  induction s as [|c s IH]; intros acc t H; cbn [app split_dot].
  - cbn. rewrite app_nil_r. reflexivity.
  - cbn [forallb] in H. apply andb_prop in H. destruct H as [Hc Hs].
    assert (E : (c =? 46) = false) by (apply is_digit_range in Hc; lia).
    rewrite E, IH by exact Hs. cbn [rev]. rewrite <- app_assoc. reflexivity.
Qed.

Lemma last_is_app : forall c l x, last_is c (l ++ [x]) = (x =? c).
Proof.
  induction l as [|a l IH]; intro x; [reflexivity|].
  cbn [app last_is]. destruct (l ++ [x]) eqn:E.
  - destruct l; discriminate.
  - rewrite <- E. apply IH.
Qed.

Lemma strip_trailing_zeros_id : forall fp, last_is 0 fp = false -> strip_trailing_zeros fp = fp.
Proof.
  intros fp H. unfold strip_trailing_zeros. destruct fp as [|a l] using rev_ind; [reflexivity|].
  rewrite last_is_app in H. rewrite rev_app_distr. cbn [rev app strip_trailing_zeros_rev].
  rewrite H. cbn [rev]. rewrite rev_involutive. reflexivity.
Qed.

Lemma digit_vals_frac : forall fp, forallb (fun d => d <? 10) fp = true -> digit_vals (frac_text fp) = Some fp.
Proof.
  intros fp H. unfold digit_vals, frac_text.
  assert (A : forallb is_digit (map (fun d => 48 + d) fp) = true).
  { induction fp as [|d fp IH]; [reflexivity|]. cbn [forallb map] in *. apply andb_prop in H. destruct H as [H1 H2].
    rewrite IH by exact H2. rewrite is_digit_48 by lia. reflexivity. }
  rewrite A. f_equal. rewrite map_map. rewrite <- (map_id fp) at 2. apply map_ext. intro a. lia.
Qed.

Lemma parse_number_print : forall ip fp, frac_ok fp = true ->
  parse_number (digits ip ++ match fp with [] => [46; 48] | _ => 46 :: frac_text fp end) = Some (ip, fp).
Proof.
  intros ip fp H. unfold frac_ok in H. apply andb_prop in H. destruct H as [H1 H2]. apply negb_true_iff in H2.
  unfold parse_number.
  destruct fp as [|d fp'].
  - rewrite split_dot_digits by apply digits_all. cbn [rev app].
    pose proof (digits_nonempty ip) as Hn. pose proof (digits_roundtrip ip) as Hr.
    destruct (digits ip) eqn:E; [congruence|]. rewrite Hr. reflexivity.
  - rewrite split_dot_digits by apply digits_all. cbn [rev app].
    pose proof (digits_nonempty ip) as Hn. pose proof (digits_roundtrip ip) as Hr.
    destruct (digits ip) eqn:E; [congruence|]. rewrite Hr.
    rewrite digit_vals_frac by exact H1. rewrite strip_trailing_zeros_id by exact H2. reflexivity.
Qed.

(* ------------------------------------------------------------------ durations *)
Lemma take_digits_app : forall s acc t, forallb is_digit s = true ->
  match t with [] => True | c :: _ => is_digit c = false end ->
  take_digits (s ++ t) acc = (rev acc ++ s, t).
Proof.
  induction s as [|c s IH]; intros acc t H Ht; cbn [app].
  - rewrite app_nil_r. destruct t as [|c t]; cbn [take_digits]; [reflexivity|]. rewrite Ht. reflexivity.
  - cbn [forallb] in H. apply andb_prop in H. destruct H as [Hc Hs]. cbn [take_digits]. rewrite Hc.
    rewrite IH by assumption. cbn [rev]. rewrite <- app_assoc. reflexivity.
Qed.

Definition units : list (Z * str) :=
  [(ns_w, [119]); (ns_d, [100]); (ns_h, [104]); (ns_m, [109]); (ns_s, [115]); (ns_ms, [109; 115]); (1%Z, [110; 115]); (ns_us, [117])].

Lemma parse_duration_len2 : forall s, (2 <= length s)%nat ->
  parse_duration s = match parse_duration_fuel (S (length s)) s 0%Z with
                     | Some z => if (z <=? Z.of_N max_int64)%Z then Some z else None
                     | None => None end.
Proof. intros s H. destruct s as [|a [|b s]]; cbn [length] in H; try lia. reflexivity. Qed.

Lemma parse_duration_unit : forall q u sfx, In (u, sfx) units -> q <= max_int64 -> (Z.of_N q * u <= Z.of_N max_int64)%Z ->
  parse_duration (digits q ++ sfx) = Some (Z.of_N q * u)%Z.
Proof.
  intros q u sfx Hin Hq Hb.
  assert (Hlen : (2 <= length (digits q ++ sfx))%nat).
  { rewrite app_length. pose proof (digits_nonempty q). destruct (digits q); [congruence|].
    cbn in Hin. cbn [length]. repeat (destruct Hin as [Hin|Hin]; [inversion Hin; subst; cbn; lia|]). contradiction. }
  rewrite parse_duration_len2 by exact Hlen.
  remember (length (digits q ++ sfx)) as L. destruct L as [|[|L]]; try lia.
  cbn [parse_duration_fuel].
  pose proof (digits_nonempty q) as Hne.
  assert (Hs : exists c r, digits q ++ sfx = c :: r).
  { destruct (digits q) as [|c r]; [congruence|]. exists c, (r ++ sfx). reflexivity. }
  destruct Hs as [c0 [r0 Hs]]. rewrite Hs. rewrite <- Hs.
  assert (Hltb : N.ltb max_int64 q = false) by (apply N.ltb_ge; exact Hq).
  cbn in Hin.
  repeat (destruct Hin as [Hin|Hin];
    [inversion Hin; subst u sfx;
     rewrite take_digits_app by (try apply digits_all; reflexivity);
     cbn [rev app]; rewrite digits_roundtrip, Hltb; cbn -[Z.mul Z.add Z.leb max_int64 Z.of_N];
     rewrite Z.add_0_l; apply Z.leb_le in Hb; try rewrite Z.mul_1_r in *; rewrite Hb; reflexivity|]).
  contradiction.
Qed.

Lemma dur_unit_spec : forall dr z, (dr = true \/ Z.rem z ns_us = 0%Z) ->
  In (dur_unit dr z) units /\ Z.rem z (fst (dur_unit dr z)) = 0%Z /\ (0 < fst (dur_unit dr z))%Z.
Proof.
  intros dr z H. unfold dur_unit.
  Local Ltac du_done E := apply Z.eqb_eq in E; cbn [fst]; split; [unfold units; cbn [In]; tauto | split; [exact E | reflexivity]].
  destruct (Z.rem z ns_w =? 0)%Z eqn:E1; [du_done E1|].
  destruct (Z.rem z ns_d =? 0)%Z eqn:E2; [du_done E2|].
  destruct (Z.rem z ns_h =? 0)%Z eqn:E3; [du_done E3|].
  destruct (Z.rem z ns_m =? 0)%Z eqn:E4; [du_done E4|].
  destruct (Z.rem z ns_s =? 0)%Z eqn:E5; [du_done E5|].
  destruct (Z.rem z ns_ms =? 0)%Z eqn:E6; [du_done E6|].
  destruct (Z.rem z ns_us =? 0)%Z eqn:E7.
  - rewrite andb_false_r. du_done E7.
  - destruct H as [H|H]; [subst dr | apply Z.eqb_neq in E7; contradiction].
    cbn [andb negb fst]. split; [unfold units; cbn [In]; tauto|]. split; [apply Z.rem_1_r | reflexivity].
Qed.

Lemma digits_head_not_minus : forall n t, match digits n ++ t with 45 :: _ => False | _ => True end.
Proof.
  intros n t. pose proof (digits_nonempty n) as H. pose proof (digits_all n) as A.
  destruct (digits n) as [|c r]; [congruence|]. cbn [forallb] in A. apply andb_prop in A. destruct A as [A _].
  apply is_digit_range in A. cbn [app]. destruct c as [|p]; [exact I|].
  destruct (N.eq_dec (N.pos p) 45) as [E|E]; [lia|].
  repeat (destruct p as [p|p|]; try exact I); lia.
Qed.

(* what may follow an atom in printed text: end, white space (before an operator), ) or , *)
Definition follow (rest : list token) : bool :=
  match rest with [] | TWs :: _ | TRParen :: _ | TComma :: _ => true | _ => false end.

Section Parser.
Variable prec : op -> N.
Variable isop : op -> bool.
Variable kws : list (str * N).
Variables nr dr : bool.

Notation PU := (parse_unary prec isop).
Notation PE := (parse_expr prec isop).
Notation PL := (parse_loop prec isop).
Notation PC := (parse_call prec isop).
Notation PA := (parse_args prec isop).
Notation PT := (print_toks nr dr).
Notation CANON := (canon prec isop kws nr dr).

Lemma duration_parse : forall z f rest,
  ((- Z.of_N max_int64 <=? z) && (z <=? Z.of_N max_int64))%Z && (dr || (Z.rem z ns_us =? 0)%Z) = true ->
  PU (S (S f)) (duration_toks dr z ++ rest) = Some (EDur z, rest).
Proof.
  intros z f rest H. apply andb_prop in H. destruct H as [Hr Hd]. apply andb_prop in Hr. destruct Hr as [Hlo Hhi].
  apply Z.leb_le in Hlo. apply Z.leb_le in Hhi.
  assert (Hd' : dr = true \/ Z.rem z ns_us = 0%Z).
  { apply orb_prop in Hd. destruct Hd as [Hd|Hd]; [left; exact Hd | right; apply Z.eqb_eq; exact Hd]. }
  unfold duration_toks, format_duration_gen.
  destruct (z =? 0)%Z eqn:E0.
  - apply Z.eqb_eq in E0. subst z. reflexivity.
  - apply Z.eqb_neq in E0. pose proof (dur_unit_spec dr z Hd') as [Hin [Hrem Hpos]].
    destruct (dur_unit dr z) as [u sfx] eqn:EU. cbn [fst] in *.
    assert (Hz : z = (u * Z.quot z u)%Z).
    { pose proof (Z.quot_rem' z u). lia. }
    unfold zdigits. destruct (Z.quot z u <? 0)%Z eqn:Eq.
    + apply Z.ltb_lt in Eq. cbn [app].
      cbn [parse_unary skip_ws].
      assert (Hp : parse_duration (digits (Z.to_N (- Z.quot z u)) ++ sfx) = Some (- z)%Z).
      { rewrite (parse_duration_unit _ u sfx Hin).
        - f_equal. rewrite Z2N.id by lia. lia.
        - unfold max_int64 in *. nia.
        - rewrite Z2N.id by lia. nia. }
      rewrite Hp. cbn [apply_sign]. rewrite Z.opp_involutive. reflexivity.
    + apply Z.ltb_ge in Eq.
      pose proof (digits_head_not_minus (Z.to_N (Z.quot z u)) sfx) as Hh.
      assert (Hp : parse_duration (digits (Z.to_N (Z.quot z u)) ++ sfx) = Some z).
      { rewrite (parse_duration_unit _ u sfx Hin).
        - f_equal. rewrite Z2N.id by lia. lia.
        - unfold max_int64 in *. nia.
        - rewrite Z2N.id by lia. nia. }
      destruct (digits (Z.to_N (Z.quot z u)) ++ sfx) as [|c t] eqn:Et.
      * cbn [app parse_unary skip_ws]. rewrite Hp. reflexivity.
      * destruct (N.eq_dec c 45) as [Ec|Ec]; [subst c; contradiction|].
        assert (Hm : match c :: t with 45 :: t' => [TOp OSub; TDuration t'] | _ => [TDuration (c :: t)] end = [TDuration (c :: t)]).
        { destruct c as [|p]; [reflexivity|]. repeat (destruct p as [p|p|]; try reflexivity). contradiction Ec; reflexivity. }
        rewrite Hm. cbn [app parse_unary skip_ws]. rewrite Hp. reflexivity.
Qed.

(* ------------------------------------------------------------------ simple atoms *)
Lemma str_eqb_eq : forall a b, str_eqb a b = true -> a = b.
Proof.
  induction a as [|x a IH]; destruct b as [|y b]; cbn [str_eqb]; intro H; try discriminate; [reflexivity|].
  apply andb_prop in H. destruct H as [H1 H2]. apply N.eqb_eq in H1. subst y. f_equal. apply IH. exact H2.
Qed.

Lemma PU_ws : forall f t, PU f (TWs :: t) = PU f t.
Proof. intros [|f] t; reflexivity. Qed.

Lemma name_ok_spec : forall s, name_ok s = true -> str_eqb (lower s) str_inf = false /\ str_eqb (lower s) str_nan = false.
Proof.
  intros s H. unfold name_ok in H. apply andb_prop in H. destruct H as [H1 H2].
  apply negb_true_iff in H1. apply negb_true_iff in H2. split; assumption.
Qed.

Lemma number_toks_canon : forall neg ip fp,
  frac_ok fp && (nr || negb (match fp with [] => true | _ => false end) || (negb neg && (maxint_float_ip <? ip))) = true ->
  number_toks nr neg ip fp =
  (if neg then [TOp OSub] else []) ++ [TNumber (digits ip ++ match fp with [] => [46; 48] | _ => 46 :: frac_text fp end)].
Proof.
  intros neg ip fp H. apply andb_prop in H. destruct H as [_ H]. unfold number_toks.
  destruct fp as [|d fp'].
  - cbn [negb orb] in H. rewrite orb_false_r in H. rewrite H. reflexivity.
  - reflexivity.
Qed.

Lemma atom_parse : forall e arg f rest, CANON arg e = true -> follow rest = true ->
  match e with
  | EParen _ | ECall _ _ | EBin _ _ _ => True
  | _ => PU (S (S f)) (PT e ++ rest) = Some (e, rest)
  end.
Proof.
  intros e arg f rest Hc Hf. destruct e as [name t|z|n|neg ip fp|k|s|b|z|src|w|e'|name args|o l r]; try exact I.
  - (* EVar *)
    cbn [canon] in Hc. apply andb_prop in Hc. destruct Hc as [Hc Ht]. apply andb_prop in Hc. destruct Hc as [_ Hn].
    apply name_ok_spec in Hn. destruct Hn as [Hi Hn].
    cbn [print_toks app parse_unary skip_ws]. rewrite Hi, Hn.
    destruct t; cbn in Ht; try discriminate; cbn [dtype_eqb dtype_idx N.eqb Pos.eqb app dtype_tok];
      try reflexivity.
    destruct rest as [|tk rest']; [reflexivity|]. destruct tk; cbn in Hf; try discriminate; reflexivity.
  - (* EInt *)
    cbn [canon] in Hc. apply andb_prop in Hc. destruct Hc as [Hlo Hhi]. apply Z.leb_le in Hlo. apply Z.leb_le in Hhi.
    cbn [print_toks]. destruct (z <? 0)%Z eqn:E.
    + apply Z.ltb_lt in E. cbn [app parse_unary skip_ws].
      destruct (N.eq_dec (Z.to_N (- z)) two63) as [E2|E2].
      * rewrite E2. rewrite int_of_text_big by (unfold max_int64, max_uint64, two63; lia).
        cbn [apply_sign]. rewrite N.eqb_refl. do 3 f_equal. unfold two63 in *. lia.
      * rewrite int_of_text_small by (unfold max_int64, two63 in *; lia).
        cbn [apply_sign]. do 3 f_equal. rewrite Z2N.id by lia. lia.
    + apply Z.ltb_ge in E. cbn [app parse_unary skip_ws].
      rewrite int_of_text_small by (unfold max_int64 in *; lia). rewrite Z2N.id by lia. reflexivity.
  - (* EUnsigned *)
    cbn [canon] in Hc. apply andb_prop in Hc. destruct Hc as [Hlo Hhi]. apply N.ltb_lt in Hlo. apply N.leb_le in Hhi.
    cbn [print_toks app parse_unary skip_ws]. rewrite int_of_text_big by assumption. reflexivity.
  - (* ENum *)
    cbn [canon] in Hc. cbn [print_toks]. rewrite (number_toks_canon _ _ _ Hc).
    apply andb_prop in Hc. destruct Hc as [Hfr _].
    destruct neg; cbn [app parse_unary skip_ws]; rewrite (parse_number_print ip fp Hfr); reflexivity.
  - (* ESpecial *)
    cbn [canon] in Hc. apply N.ltb_lt in Hc.
    assert (Hk : k = 0 \/ k = 1 \/ k = 2) by lia. destruct Hk as [Hk|[Hk|Hk]]; subst k; reflexivity.
  - reflexivity.
  - destruct b; reflexivity.
  - (* EDur *) cbn [canon] in Hc. cbn [print_toks]. apply duration_parse. exact Hc.
  - reflexivity.
  - (* EWild *)
    destruct w; cbn [print_toks app parse_unary skip_ws]; try reflexivity.
    destruct rest as [|tk rest']; [reflexivity|]. destruct tk; cbn in Hf; try discriminate; reflexivity.
Qed.

End Parser.

(* ------------------------------------------------------------------ quoting: QuoteString / QuoteIdent vs ScanString *)
Lemma unquote_escape : forall q s acc rest, (q = 34 \/ q = 39) -> wf_str s = true ->
  unquote q (escape q s ++ q :: rest) acc = Some (rev acc ++ s, rest).
Proof.
  intros q s. induction s as [|c s IH]; intros acc rest Hq Hwf.
  - cbn [escape app unquote]. rewrite N.eqb_refl, app_nil_r. reflexivity.
  - cbn [wf_str forallb] in Hwf. apply andb_prop in Hwf. destruct Hwf as [Hc Hs]. unfold wf_char in Hc.
    assert (IH' : forall x, unquote q (escape q s ++ q :: rest) (x :: acc) = Some (rev acc ++ x :: s, rest)).
    { intro x. rewrite IH by assumption. cbn [rev]. rewrite <- app_assoc. reflexivity. }
    cbn [escape]. destruct (c =? 10) eqn:E10.
    + apply N.eqb_eq in E10. subst c. cbn [app unquote].
      assert (E : (92 =? q) = false) by (destruct Hq; subst q; reflexivity). rewrite E. cbn. apply IH'.
    + destruct (c =? 92) eqn:E92.
      * apply N.eqb_eq in E92. subst c. cbn [app unquote].
        assert (E : (92 =? q) = false) by (destruct Hq; subst q; reflexivity). rewrite E. cbn. apply IH'.
      * destruct (c =? q) eqn:Eq.
        -- apply N.eqb_eq in Eq. subst c. cbn [app unquote].
           assert (E : (92 =? q) = false) by (destruct Hq; subst q; reflexivity). rewrite E.
           destruct Hq; subst q; cbn; apply IH'.
        -- cbn [app unquote]. rewrite Eq, E10, E92.
           assert (E : ((c =? 13) || (c =? 0)) = false) by lia. cbn [orb]. rewrite E. apply IH'.
Qed.

Theorem quote_string_roundtrip : forall s rest, wf_str s = true ->
  match quote_string s ++ rest with
  | q :: body => q = 39 /\ unquote 39 body [] = Some (s, rest)
  | [] => False
  end.
Proof.
  intros s rest H. unfold quote_string. cbn [app]. split; [reflexivity|].
  rewrite <- app_assoc. cbn [app]. rewrite unquote_escape by (auto). reflexivity.
Qed.

(* a quoted identifier scans back to the identifier; an unquoted one is printed verbatim *)
Theorem quote_ident_roundtrip : forall kws s rest, wf_str s = true ->
  if ident_needs_quotes kws s
  then match quote_ident kws s ++ rest with
       | q :: body => q = 34 /\ unquote 34 body [] = Some (s, rest)
       | [] => False
       end
  else bare_ok s = true /\ kw_lookup kws (lower s) = None.
Proof.
  intros kws s rest H. unfold quote_ident. destruct (ident_needs_quotes kws s) eqn:E.
  - cbn [app]. split; [reflexivity|]. rewrite <- app_assoc. cbn [app]. rewrite unquote_escape by (auto). reflexivity.
  - unfold ident_needs_quotes in E. destruct (kw_lookup kws (lower s)); [discriminate|].
    apply negb_false_iff in E. split; [exact E | reflexivity].
Qed.
