(* C12 lemmas. *)
From Coq Require Import ZArith NArith List Bool Lia.
From OG Require Import C12.Model.
Import ListNotations.
Open Scope N_scope.
