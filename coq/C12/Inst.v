(* C12: the model instantiated with the tables generated from the repository (Gen_Tokens.v). *)
From Coq Require Import ZArith NArith List Bool.
From OG Require Import C12.Model C12.Gen_Tokens.
Import ListNotations.
Open Scope N_scope.

Definition row_of (o : op) : option (N * N * N * bool * str) :=
  find (fun r => match r with (i, _, _, _, _) => i =? op_idx o end) op_table.
Definition prec (o : op) : N := match row_of o with Some (_, _, p, _, _) => p | None => 0 end.
Definition isop (o : op) : bool := match row_of o with Some (_, _, _, b, _) => b | None => false end.
Definition op_text (o : op) : str := match row_of o with Some (_, _, _, _, t) => t | None => [] end.
Definition op_code (o : op) : N := match row_of o with Some (_, c, _, _, _) => c | None => 0 end.
Definition op_of_code (c : N) : option op := find (fun o => op_code o =? c) all_ops.

Definition print_text_v (nr dr : bool) : expr -> str := Model.print_text op_text keywords nr dr.
Definition print_toks_v (nr dr : bool) : expr -> list token := Model.print_toks nr dr.
Definition scan : str -> list token := Model.scan keywords op_of_code code_true code_false code_field code_tag code_distinct.
Definition parse : list token -> option expr := Model.parse prec isop.
Definition canon_v (nr dr : bool) : expr -> bool := Model.canon prec isop keywords nr dr false.
Definition quote_ident : str -> str := Model.quote_ident keywords.
