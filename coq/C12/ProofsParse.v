(* C12: correctness of the spine-insertion parser on printed canonical expressions. *)
From Coq Require Import ZArith NArith List Bool Lia ZifyBool ZifyNat ZifyN.
From OG Require Import C12.Model C12.Proofs.
Import ListNotations.
Open Scope N_scope.

(* flattening of an expression along its unparenthesised binary nodes: leftmost atom, then (operator, atom) pairs *)
Fixpoint spine (e : expr) : expr * list (op * expr) :=
  match e with
  | EBin o l r => let '(a, xs) := spine l in let '(b, ys) := spine r in (a, xs ++ (o, b) :: ys)
  | _ => (e, [])
  end.

Fixpoint size (e : expr) : nat :=
  match e with
  | EParen e' => S (size e')
  | ECall _ args => S (fold_right (fun a s => (size a + s)%nat) O args)
  | EBin _ l r => S (size l + size r)
  | _ => 1%nat
  end.

(* fuel needed by the parser *)
Fixpoint cost (e : expr) : nat :=
  match e with
  | EParen e' => (cost e' + 3)%nat
  | ECall _ args => (fold_right (fun a s => (cost a + 3 + s)%nat) O args + 3)%nat
  | EBin _ l r => (cost l + cost r + 1)%nat
  | _ => 2%nat
  end.

Definition stopb (rest : list token) : bool :=
  match rest with [] | TRParen :: _ | TComma :: _ => true | _ => false end.

Lemma stopb_follow : forall r, stopb r = true -> follow r = true.
Proof. intros [|t r]; [reflexivity|]. destruct t; cbn; congruence. Qed.

Definition head_ok (t : list token) : bool :=
  match t with [] | TWs :: _ | TRParen :: _ | TRegex _ :: _ | TComma :: _ => false | _ => true end.

Section Parser.
Variable prec : op -> N.
Variable isop : op -> bool.
Variable kws : list (str * N).
Variables nr dr : bool.

Notation PU := (parse_unary prec isop).
Notation PE := (parse_expr prec isop).
Notation PL := (parse_loop prec isop).
Notation PC := (parse_call prec isop).
Notation PA := (parse_args prec isop).
Notation PT := (print_toks nr dr).
Notation CANON := (canon prec isop kws nr dr).
Notation INS := (ins prec).

Definition build (root : expr) (xs : list (op * expr)) : expr :=
  fold_left (fun r ob => INS r (fst ob) (snd ob)) xs root.

Definition items_toks (xs : list (op * expr)) : list token :=
  flat_map (fun ob => TWs :: TOp (fst ob) :: TWs :: PT (snd ob)) xs.

(* ---------------------------------------------------------------- the insertion algorithm rebuilds canonical trees *)
(* when the root does not let o descend, the later higher-precedence operators all go below the new node *)
Lemma build_under : forall xs l o Y,
  (match l with EBin ol _ _ => prec o <= prec ol | _ => True end) ->
  (forall ob, In ob xs -> prec o < prec (fst ob)) ->
  build (EBin o l Y) xs = EBin o l (build Y xs).
Proof.
  induction xs as [|[o' b] xs IH]; intros l o Y Hl Hall; [reflexivity|].
  cbn [build fold_left fst snd].
  assert (Hlt : prec o < prec o') by (apply (Hall (o', b)); left; reflexivity).
  assert (E : INS (EBin o l Y) o' b = EBin o l (INS Y o' b)).
  { cbn [ins]. assert (E1 : (prec o <? prec o') = true) by lia. rewrite E1. reflexivity. }
  rewrite E. apply (IH l o (INS Y o' b) Hl). intros ob Hin. apply Hall. right. exact Hin.
Qed.

Lemma ins_top : forall l o b, (match l with EBin ol _ _ => prec o <= prec ol | _ => True end) -> INS l o b = EBin o l b.
Proof.
  intros l o b H. destruct l; try reflexivity. cbn [ins].
  assert (E : (prec o0 <? prec o) = false) by lia. rewrite E. reflexivity.
Qed.

(* precedence part of canonicity *)
Fixpoint pcanon (e : expr) : bool :=
  match e with
  | EBin o l r =>
      pcanon l && pcanon r &&
      match top_prec prec l with Some p => prec o <=? p | None => true end &&
      match top_prec prec r with Some p => prec o <? p | None => true end
  | _ => true
  end.

Lemma spine_lower : forall e, pcanon e = true ->
  forall ob, In ob (snd (spine e)) -> match top_prec prec e with Some p => p <= prec (fst ob) | None => True end.
Proof.
  induction e as [name t|z|n|neg ip fp|k|s|b|z|src|w|e'|name args|o l IHl r IHr]; intros Hc ob Hin;
    try (cbn in Hin; contradiction).
  cbn [pcanon] in Hc. apply andb_prop in Hc. destruct Hc as [Hc H4]. apply andb_prop in Hc. destruct Hc as [Hc H3].
  apply andb_prop in Hc. destruct Hc as [H1 H2].
  cbn [spine] in Hin. destruct (spine l) as [a xs] eqn:El. destruct (spine r) as [b0 ys] eqn:Er.
  cbn [snd top_prec] in *. apply in_app_or in Hin. destruct Hin as [Hin|[Hin|Hin]].
  - specialize (IHl H1 ob Hin). destruct l; cbn [top_prec] in *; try (cbn in El; inversion El; subst; contradiction). lia.
  - subst ob. cbn [fst]. lia.
  - specialize (IHr H2 ob Hin). destruct r; cbn [top_prec] in *; try (cbn in Er; inversion Er; subst; contradiction). lia.
Qed.

Lemma build_app : forall xs ys root, build root (xs ++ ys) = build (build root xs) ys.
Proof. intros. unfold build. apply fold_left_app. Qed.

Lemma build_spine : forall e, pcanon e = true -> build (fst (spine e)) (snd (spine e)) = e.
Proof.
  induction e as [name t|z|n|neg ip fp|k|s|b|z|src|w|e'|name args|o l IHl r IHr]; intro Hc; try reflexivity.
  pose proof (spine_lower r) as Hr.
  cbn [pcanon] in Hc. apply andb_prop in Hc. destruct Hc as [Hc H4]. apply andb_prop in Hc. destruct Hc as [Hc H3].
  apply andb_prop in Hc. destruct Hc as [H1 H2]. specialize (Hr H2).
  cbn [spine]. destruct (spine l) as [a xs] eqn:El. destruct (spine r) as [b0 ys] eqn:Er. cbn [fst snd] in *.
  rewrite build_app. rewrite (IHl H1). cbn [build fold_left fst snd].
  assert (Hl : match l with EBin ol _ _ => prec o <= prec ol | _ => True end).
  { destruct l; try exact I. cbn [top_prec] in H3. lia. }
  rewrite (ins_top l o b0 Hl).
  change (fold_left (fun r0 ob => INS r0 (fst ob) (snd ob)) ys (EBin o l b0)) with (build (EBin o l b0) ys).
  rewrite build_under.
  - rewrite (IHr H2). reflexivity.
  - exact Hl.
  - intros ob Hin. specialize (Hr ob Hin). destruct r; cbn [top_prec] in *; try (cbn in Er; inversion Er; subst; contradiction). lia.
Qed.

(* ---------------------------------------------------------------- printed form along the spine *)
Lemma print_spine : forall e, PT e = PT (fst (spine e)) ++ items_toks (snd (spine e)).
Proof.
  induction e as [name t|z|n|neg ip fp|k|s|b|z|src|w|e'|name args|o l IHl r IHr];
    try (cbn [spine fst snd]; unfold items_toks; cbn [flat_map]; rewrite app_nil_r; reflexivity).
  cbn [spine]. destruct (spine l) as [a xs]. destruct (spine r) as [b0 ys]. cbn [fst snd] in *.
  cbn [print_toks]. rewrite IHl, IHr. unfold items_toks. rewrite flat_map_app. cbn [flat_map fst snd].
  rewrite <- !app_assoc. reflexivity.
Qed.

Lemma canon_pcanon : forall e arg, CANON arg e = true -> pcanon e = true.
Proof.
  induction e as [name t|z|n|neg ip fp|k|s|b|z|src|w|e'|name args|o l IHl r IHr]; intros arg H; try reflexivity.
  cbn [canon] in H. repeat (apply andb_prop in H; destruct H as [H ?]).
  cbn [pcanon]. rewrite (IHl false) by assumption.
  assert (Hr : pcanon r = true).
  { destruct (is_regex_op o).
    - match goal with X : (is_regex r && _) = true |- _ => apply andb_prop in X; destruct X as [_ X]; exact (IHr true X) end.
    - eapply IHr; eassumption. }
  rewrite Hr. cbn [andb]. apply andb_true_intro; split; assumption.
Qed.

Definition sumcost (xs : list (op * expr)) : nat := fold_right (fun ob s => (cost (snd ob) + 1 + s)%nat) O xs.
Lemma sumcost_app : forall xs ys, sumcost (xs ++ ys) = (sumcost xs + sumcost ys)%nat.
Proof. induction xs as [|x xs IH]; intro ys; cbn [app sumcost fold_right]; [reflexivity|]. fold (sumcost (xs ++ ys)). fold (sumcost xs). rewrite IH. lia. Qed.

Lemma cost_spine : forall e, (cost (fst (spine e)) + sumcost (snd (spine e)) = cost e)%nat.
Proof.
  induction e as [name t|z|n|neg ip fp|k|s|b|z|src|w|e'|name args|o l IHl r IHr];
    try (cbn [spine fst snd sumcost fold_right]; lia).
  cbn [spine]. destruct (spine l) as [a xs]. destruct (spine r) as [b0 ys]. cbn [fst snd] in *.
  rewrite sumcost_app. cbn [sumcost fold_right snd]. fold (sumcost ys). cbn [cost]. lia.
Qed.

Definition item_ok (bound : nat) (ob : op * expr) : Prop :=
  isop (fst ob) = true /\ is_bin (snd ob) = false /\ (size (snd ob) <= bound)%nat /\
  (if is_regex_op (fst ob) then is_regex (snd ob) = true else CANON false (snd ob) = true).

Lemma item_ok_mono : forall b1 b2 ob, (b1 <= b2)%nat -> item_ok b1 ob -> item_ok b2 ob.
Proof. intros b1 b2 ob H [H1 [H2 [H3 H4]]]. repeat split; try assumption. lia. Qed.

Ltac clear_bool := repeat match goal with H : _ = true |- _ => clear H | H : _ = false |- _ => clear H end.
Ltac slia := clear_bool; lia.

Lemma spine_atoms : forall e, CANON false e = true ->
  CANON false (fst (spine e)) = true /\ is_bin (fst (spine e)) = false /\ (size (fst (spine e)) <= size e)%nat /\
  Forall (item_ok (pred (size e))) (snd (spine e)).
Proof.
  induction e as [name t|z|n|neg ip fp|k|s|b|z|src|w|e'|name args|o l IHl r IHr]; intro H;
    try (cbn [spine fst snd]; repeat split; first [exact H | lia | constructor]).
  cbn [canon] in H. repeat (apply andb_prop in H; destruct H as [H ?]).
  cbn [spine]. specialize (IHl ltac:(assumption)).
  destruct (spine l) as [a xs] eqn:El. destruct (spine r) as [b0 ys] eqn:Er. cbn [fst snd size] in *.
  destruct IHl as [Ha [Hb [Hs Hxs]]].
  repeat split; try assumption; try slia.
  apply Forall_app. split.
  - eapply Forall_impl; [|exact Hxs]. intros ob. apply item_ok_mono. slia.
  - destruct (is_regex_op o) eqn:Ero.
    + match goal with X : (is_regex r && _) = true |- _ => apply andb_prop in X; destruct X as [X _] end.
      destruct r; try discriminate. cbn in Er. inversion Er; subst b0 ys.
      constructor; [|constructor]. unfold item_ok. cbn [fst snd]. rewrite Ero. repeat split; try reflexivity; try assumption. cbn. slia.
    + specialize (IHr ltac:(assumption)). destruct IHr as [Ha' [Hb' [Hs' Hys]]].
      constructor.
      * unfold item_ok. cbn [fst snd]. rewrite Ero. repeat split; try assumption. slia.
      * eapply Forall_impl; [|exact Hys]. intros ob. apply item_ok_mono. slia.
Qed.

Lemma canon_arg : forall e, is_regex e = false -> CANON true e = CANON false e.
Proof. intros e H. destruct e; try reflexivity. discriminate. Qed.

Lemma head_ok_print : forall e R, CANON false e = true -> head_ok (PT e ++ R) = true.
Proof.
  induction e as [name t|z|n|neg ip fp|k|s|b|z|src|w|e'|name args|o l IHl r IHr]; intros R H.
  - reflexivity.
  - cbn [print_toks]. destruct (z <? 0)%Z; reflexivity.
  - reflexivity.
  - cbn [canon] in H. cbn [print_toks]. rewrite (number_toks_canon nr _ _ _ H). destruct neg; reflexivity.
  - cbn [print_toks]. destruct (k =? 0); [reflexivity|]. destruct (k =? 1); reflexivity.
  - reflexivity.
  - destruct b; reflexivity.
  - cbn [print_toks]. unfold duration_toks. destruct (format_duration_gen dr z) as [|c t]; [reflexivity|].
    destruct c as [|p]; [reflexivity|]. repeat (destruct p as [p|p|]; try reflexivity).
  - cbn in H. discriminate.
  - destruct w; reflexivity.
  - reflexivity.
  - reflexivity.
  - cbn [canon] in H. repeat (apply andb_prop in H; destruct H as [H ?]).
    cbn [print_toks]. rewrite <- app_assoc. apply IHl. assumption.
Qed.

Lemma skip_ws_head_ok : forall t, head_ok t = true -> skip_ws t = t.
Proof. intros [|x t] H; [reflexivity|]. destruct x; try reflexivity. discriminate. Qed.

(* unfolding equations of the mutually recursive parser (used instead of cbn, which exposes the whole fixpoint) *)
Lemma PE_S : forall f toks, PE (S f) toks = match PU f toks with Some (e0, r) => PL f e0 r | None => None end.
Proof. reflexivity. Qed.
Lemma PL_S : forall f root toks,
  PL (S f) root toks =
  match skip_ws toks with
  | TOp o :: r =>
      if isop o then
        if is_regex_op o then
          match skip_ws r with
          | TRegex s :: r' => PL f (INS root o (ERegex s)) r'
          | _ => None
          end
        else match PU f r with
             | Some (rhs, r') => PL f (INS root o rhs) r'
             | None => None
             end
      else Some (root, skip_ws toks)
  | _ => Some (root, skip_ws toks)
  end.
Proof. reflexivity. Qed.
Lemma PU_paren : forall f r,
  PU (S f) (TLParen :: r) =
  match PE f r with
  | Some (e, r') => match skip_ws r' with TRParen :: r'' => Some (EParen e, r'') | _ => None end
  | None => None
  end.
Proof. reflexivity. Qed.
Lemma PU_call : forall f s r',
  PU (S f) (TIdent s :: TLParen :: r') =
  if str_eqb (lower s) str_inf then Some (ESpecial 0, TLParen :: r')
  else if str_eqb (lower s) str_nan then Some (ESpecial 2, TLParen :: r')
  else PC f (lower s) r'.
Proof. reflexivity. Qed.
Lemma PC_S : forall f name toks,
  PC (S f) name toks =
  match skip_ws toks with
  | TRParen :: r => Some (ECall name [], r)
  | TRegex s :: r => PA f name [ERegex s] r
  | _ => match PE f (skip_ws toks) with
         | Some (a, r) => PA f name [a] r
         | None => None
         end
  end.
Proof. reflexivity. Qed.
Lemma PA_S : forall f name acc toks,
  PA (S f) name acc toks =
  match skip_ws toks with
  | TComma :: r =>
      match skip_ws r with
      | TRegex s :: r' => PA f name (acc ++ [ERegex s]) r'
      | _ => match PE f (skip_ws r) with
             | Some (a, r') => PA f name (acc ++ [a]) r'
             | None => None
             end
      end
  | TRParen :: r => Some (ECall name acc, r)
  | _ => None
  end.
Proof. reflexivity. Qed.

(* ---------------------------------------------------------------- the operator loop *)
Definition unary_ok (b : expr) : Prop :=
  forall f rest, (cost b <= f)%nat -> follow rest = true -> PU f (PT b ++ rest) = Some (b, rest).

Lemma follow_items : forall xs rest, stopb rest = true -> follow (items_toks xs ++ rest) = true.
Proof. intros [|x xs] rest H; [apply stopb_follow; exact H | reflexivity]. Qed.

Lemma loop_ok : forall xs root f rest,
  Forall (fun ob => isop (fst ob) = true /\
                    (if is_regex_op (fst ob) then is_regex (snd ob) = true else unary_ok (snd ob))) xs ->
  (sumcost xs + 1 <= f)%nat -> stopb rest = true ->
  PL f root (items_toks xs ++ rest) = Some (build root xs, rest).
Proof.
  induction xs as [|[o b] xs IH]; intros root f rest Hall Hf Hstop.
  - destruct f as [|f]; [cbn in Hf; lia|]. rewrite PL_S. cbn [items_toks flat_map app build fold_left].
    destruct rest as [|t rest']; [reflexivity|]. destruct t; cbn in Hstop; try discriminate; reflexivity.
  - inversion Hall as [|? ? [Hop Hb] Hall']; subst. cbn [fst snd] in *.
    cbn [sumcost fold_right snd] in Hf. fold (sumcost xs) in Hf.
    destruct f as [|f]; [lia|].
    cbn [items_toks flat_map fst snd]. fold (items_toks xs).
    rewrite PL_S. cbn [app skip_ws]. rewrite Hop.
    destruct (is_regex_op o) eqn:Ero.
    + destruct b; try discriminate. cbn [print_toks app skip_ws].
      cbn [build fold_left fst snd]. apply IH; [exact Hall' | cbn [cost] in Hf; lia | exact Hstop].
    + rewrite PU_ws. rewrite <- app_assoc. rewrite Hb; [| lia | apply follow_items; exact Hstop].
      cbn [build fold_left fst snd]. apply IH; [exact Hall' | lia | exact Hstop].
Qed.

(* ---------------------------------------------------------------- call arguments *)
Definition pa := fix pa (l : list expr) : list token :=
  match l with
  | [] => []
  | [a] => PT a
  | a :: l' => PT a ++ TComma :: TWs :: pa l'
  end.
Definition sep_items (l : list expr) : list token := flat_map (fun a => TComma :: TWs :: PT a) l.

Lemma print_call : forall name args, PT (ECall name args) = TIdent name :: TLParen :: pa args ++ [TRParen].
Proof. reflexivity. Qed.

Lemma pa_cons : forall l a, pa (a :: l) = PT a ++ sep_items l.
Proof.
  induction l as [|b l IH]; intro a.
  - cbn [pa sep_items flat_map]. rewrite app_nil_r. reflexivity.
  - change (pa (a :: b :: l)) with (PT a ++ TComma :: TWs :: pa (b :: l)). rewrite IH. reflexivity.
Qed.

Definition expr_ok (a : expr) : Prop :=
  forall f rest, (cost a + 2 <= f)%nat -> stopb rest = true -> PE f (PT a ++ rest) = Some (a, rest).
Definition arg_ok (a : expr) : Prop :=
  is_regex a = true \/ (is_regex a = false /\ CANON false a = true /\ expr_ok a).
Definition argcost (l : list expr) : nat := fold_right (fun a s => (cost a + 3 + s)%nat) O l.

Lemma stopb_sep : forall l rest, stopb (sep_items l ++ TRParen :: rest) = true.
Proof. intros [|a l] rest; reflexivity. Qed.

Lemma args_ok : forall more acc f name rest,
  Forall arg_ok more -> (argcost more + 1 <= f)%nat ->
  PA f name acc (sep_items more ++ TRParen :: rest) = Some (ECall name (acc ++ more), rest).
Proof.
  induction more as [|a more IH]; intros acc f name rest Hall Hf.
  - destruct f as [|f]; [cbn in Hf; lia|]. rewrite PA_S. cbn [sep_items flat_map app skip_ws]. rewrite app_nil_r. reflexivity.
  - inversion Hall as [|? ? Ha Hall']; subst.
    cbn [argcost fold_right] in Hf. fold (argcost more) in Hf.
    destruct f as [|f]; [lia|]. rewrite PA_S.
    cbn [sep_items flat_map]. fold (sep_items more). cbn [app skip_ws]. rewrite <- app_assoc.
    replace (acc ++ a :: more) with ((acc ++ [a]) ++ more) by (rewrite <- app_assoc; reflexivity).
    destruct Ha as [Hre|[Hnre [Hc Hok]]].
    + destruct a; try discriminate. cbn [print_toks app skip_ws].
      apply IH; [exact Hall' | cbn [cost] in Hf; lia].
    + remember (PT a ++ sep_items more ++ TRParen :: rest) as X eqn:EX.
      assert (HX : head_ok X = true) by (subst X; apply head_ok_print; exact Hc).
      rewrite (skip_ws_head_ok X HX).
      assert (HPE : PE f X = Some (a, sep_items more ++ TRParen :: rest)).
      { subst X. apply Hok; [lia | apply stopb_sep]. }
      destruct X as [|t T]; [discriminate|].
      destruct t; try discriminate HX; rewrite HPE; (apply IH; [exact Hall' | lia]).
Qed.

(* ---------------------------------------------------------------- main induction *)
Lemma size_pos : forall e, (1 <= size e)%nat.
Proof. destruct e; cbn [size]; lia. Qed.

Lemma size_arg : forall a args, In a args -> (size a <= fold_right (fun a s => (size a + s)%nat) O args)%nat.
Proof.
  induction args as [|b args IH]; intro H; [contradiction|]. cbn [fold_right]. destruct H as [H|H]; [subst; lia|].
  specialize (IH H). lia.
Qed.

Definition A_stmt (e : expr) : Prop :=
  forall arg, CANON arg e = true -> is_bin e = false -> unary_ok e.
Definition B_stmt (e : expr) : Prop := CANON false e = true -> expr_ok e.

Lemma B_from_A : forall e, (forall x, (size x <= size e)%nat -> A_stmt x) -> B_stmt e.
Proof.
  intros e HA Hc f rest Hf Hstop.
  pose proof (spine_atoms e Hc) as [Ha [Hb [Hs Hxs]]].
  pose proof (cost_spine e) as Hcost.
  pose proof (build_spine e (canon_pcanon e false Hc)) as Hbuild.
  rewrite print_spine. destruct (spine e) as [a xs]. cbn [fst snd] in *.
  destruct f as [|f]; [lia|]. rewrite PE_S. rewrite <- app_assoc.
  rewrite (HA a Hs false Ha Hb); [| lia | apply follow_items; exact Hstop].
  rewrite (loop_ok xs a f rest); [rewrite Hbuild; reflexivity | | lia | exact Hstop].
  eapply Forall_impl; [|exact Hxs]. intros [o b] [H1 [H2 [H3 H4]]]. cbn [fst snd] in *. split; [exact H1|].
  destruct (is_regex_op o); [exact H4|].
  apply (HA b ltac:(pose proof (size_pos e); lia) false H4 H2).
Qed.

Lemma main : forall n, (forall e, (size e <= n)%nat -> A_stmt e) /\ (forall e, (size e <= n)%nat -> B_stmt e).
Proof.
  induction n as [|n [IHA IHB]]; [split; intros e Hn; pose proof (size_pos e); lia|].
  assert (HA : forall e, (size e <= S n)%nat -> A_stmt e).
  { intros e Hn arg Hc Hnb f rest Hf Hfol.
    destruct e as [name t|z|n0|neg ip fp|k|s|b|z|src|w|e'|name args|o l r];
      try (cbn [cost] in Hf; destruct f as [|[|f]]; try lia; exact (atom_parse prec isop kws nr dr _ arg f rest Hc Hfol)).
    - (* EParen *)
      cbn [canon] in Hc. cbn [cost] in Hf. cbn [size] in Hn.
      destruct f as [|f]; [lia|]. cbn [print_toks app]. rewrite PU_paren. rewrite <- app_assoc. cbn [app].
      pose proof (IHB e' ltac:(lia)) as HB. rewrite (HB Hc f (TRParen :: rest)); [reflexivity | lia | reflexivity].
    - (* ECall *)
      cbn [canon] in Hc. apply andb_prop in Hc. destruct Hc as [Hname Hargs].
      unfold call_name_ok in Hname. repeat (apply andb_prop in Hname; destruct Hname as [Hname ?]).
      match goal with X : name_ok name = true |- _ => apply name_ok_spec in X; destruct X as [Hi Hna] end.
      match goal with X : str_eqb (lower name) name = true |- _ => apply str_eqb_eq in X; rename X into Hlow end.
      cbn [cost] in Hf. fold (argcost args) in Hf. cbn [size] in Hn.
      rewrite print_call. destruct f as [|f]; [lia|]. cbn [app]. rewrite PU_call, Hi, Hna, Hlow.
      destruct f as [|f]; [lia|]. rewrite PC_S.
      assert (Hall : Forall arg_ok args).
      { apply Forall_forall. intros a Hin. rewrite forallb_forall in Hargs. specialize (Hargs a Hin).
        destruct (is_regex a) eqn:Er; [left; exact Er|]. right. rewrite (canon_arg a Er) in Hargs.
        split; [exact Er|]. split; [exact Hargs|].
        pose proof (size_arg a args Hin). exact (IHB a ltac:(lia) Hargs). }
      destruct args as [|a more].
      + cbn [pa app skip_ws]. reflexivity.
      + rewrite pa_cons. rewrite <- !app_assoc. cbn [app].
        inversion Hall as [|? ? Ha Hall']; subst.
        cbn [argcost fold_right] in Hf. fold (argcost more) in Hf.
        destruct Ha as [Hre|[Hnre [Hc Hok]]].
        * destruct a; try discriminate. cbn [print_toks app skip_ws].
          rewrite (args_ok more [ERegex src] f name rest Hall'); [reflexivity | cbn [cost] in Hf; lia].
        * remember (PT a ++ sep_items more ++ TRParen :: rest) as X eqn:EX.
          assert (HX : head_ok X = true) by (subst X; apply head_ok_print; exact Hc).
          rewrite (skip_ws_head_ok X HX).
          assert (HPE : PE f X = Some (a, sep_items more ++ TRParen :: rest)).
          { subst X. apply Hok; [clear - Hf; lia | apply stopb_sep]. }
          assert (Hfu : (argcost more + 1 <= f)%nat) by (clear - Hf; lia).
          destruct X as [|t T]; [discriminate|].
          destruct t; try discriminate HX; rewrite HPE;
            (rewrite (args_ok more [a] f name rest Hall' Hfu); reflexivity).
    - discriminate. }
  split; [exact HA|].
  intros e Hn. apply B_from_A. intros x Hx. apply HA. lia.
Qed.

(* ---------------------------------------------------------------- the fuel given by parse is enough *)
Lemma len_pos : forall e, (1 <= length (PT e))%nat.
Proof.
  destruct e as [name t|z|n0|neg ip fp|k|s|b|z|src|w|e'|name args|o l r]; cbn [print_toks].
  - cbn [length]. lia.
  - destruct (z <? 0)%Z; cbn [length]; lia.
  - cbn [length]. lia.
  - unfold number_toks. rewrite app_length. cbn [length]. lia.
  - destruct (k =? 0); [cbn [length]; lia|]. destruct (k =? 1); cbn [length]; lia.
  - cbn [length]. lia.
  - cbn [length]. lia.
  - unfold duration_toks. destruct (format_duration_gen dr z) as [|c t]; [cbn [length]; lia|].
    destruct c as [|p]; [cbn [length]; lia|]. repeat (destruct p as [p|p|]; try (cbn [length]; lia)).
  - cbn [length]. lia.
  - destruct w; cbn [length]; lia.
  - cbn [length]. lia.
  - cbn [length]. lia.
  - rewrite app_length. cbn [length]. lia.
Qed.

Lemma sep_cost : forall more, (forall a, In a more -> (cost a <= 4 * length (PT a))%nat) ->
  (argcost more <= 4 * length (sep_items more))%nat.
Proof.
  induction more as [|a more IH]; intro H; [cbn; lia|].
  cbn [argcost fold_right sep_items flat_map]. fold (argcost more). fold (sep_items more).
  rewrite app_length. cbn [length].
  pose proof (H a (or_introl eq_refl)). specialize (IH (fun x Hx => H x (or_intror Hx))). lia.
Qed.

Lemma cost_le_n : forall n e, (size e <= n)%nat -> (cost e <= 4 * length (PT e))%nat.
Proof.
  induction n as [|n IH]; intros e Hn; [pose proof (size_pos e); lia|].
  destruct e as [name t|z|n0|neg ip fp|k|s|b|z|src|w|e'|name args|o l r];
    try (match goal with |- (cost ?a <= _)%nat => pose proof (len_pos a) end; cbn [cost]; lia).
  - cbn [size] in Hn. cbn [print_toks cost length]. rewrite app_length. cbn [length].
    pose proof (IH e' ltac:(lia)). lia.
  - cbn [size] in Hn. rewrite print_call. cbn [cost]. fold (argcost args). cbn [length]. rewrite app_length. cbn [length].
    assert (Hall : forall a, In a args -> (cost a <= 4 * length (PT a))%nat).
    { intros a Hin. apply IH. pose proof (size_arg a args Hin). lia. }
    destruct args as [|a more]; [cbn; lia|].
    rewrite pa_cons, app_length. cbn [argcost fold_right]. fold (argcost more).
    pose proof (Hall a (or_introl eq_refl)).
    pose proof (sep_cost more (fun x Hx => Hall x (or_intror Hx))). lia.
  - cbn [size] in Hn. cbn [print_toks cost]. rewrite app_length. cbn [length].
    pose proof (IH l ltac:(lia)). pose proof (IH r ltac:(lia)). lia.
Qed.

Theorem print_parse : forall e, CANON false e = true -> parse prec isop (PT e) = Some e.
Proof.
  intros e Hc. unfold parse, parse_fuel.
  destruct (main (size e)) as [_ HB]. specialize (HB e (le_n _) Hc).
  pose proof (cost_le_n (size e) e (le_n _)) as Hcost.
  rewrite <- (app_nil_r (PT e)) at 2.
  rewrite (HB (4 * length (PT e) + 8)%nat []); [reflexivity | lia | reflexivity].
Qed.

End Parser.
