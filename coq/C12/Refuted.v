(* C12: today's printers violate the property (witnesses). *)
From Coq Require Import ZArith NArith List Bool.
From OG Require Import C12.Model.
Import ListNotations.
Open Scope N_scope.
