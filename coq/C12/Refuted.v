(* C12: today's code violates the property.  Witnesses against the _current variants: the printers as they are
   (num_repaired = dur_repaired = false) and hand-written copies of today's precedence table / operator map, so that
   these theorems do not change when the repository is repaired (the generated tables do). *)
From Coq Require Import ZArith NArith List Bool.
From OG Require Import C12.Model.
From OG Require C12.Gen_Tokens C12.Inst.
Import ListNotations.
Open Scope N_scope.

Definition prec_current (o : op) : N :=
  match o with
  | OOr => 1 | OAnd => 2
  | OEq | ONeq | OEqRegex | ONeqRegex | OLt | OLte | OGt | OGte => 3
  | OAdd | OSub | OBitOr | OBitXor => 4
  | OMul | ODiv | OMod | OBitAnd => 5
  | OLike | OMatch | OMatchPhrase | OIpInRange => 6
  end.
Definition isop_current (o : op) : bool := match o with OBitAnd | OBitOr | OBitXor => false | _ => true end.
Definition isop_repaired (o : op) : bool := true.

Definition va := EVar [97] DUnknown.
Definition vb := EVar [98] DUnknown.
Definition vc := EVar [99] DUnknown.

(* a / 2.0 > 1.2: canonical for the repaired printer, but today's NumberLiteral printer emits "2" and the parser reads
   an IntegerLiteral *)
Theorem C12_integral_float_refuted : exists e,
  canon prec_current isop_current [] true true false e = true /\
  parse prec_current isop_current (print_toks false false e) <> Some e.
Proof.
  exists (EBin OGt (EBin ODiv va (ENum false 2 [])) (ENum false 1 [2])).
  split; [vm_compute; reflexivity | vm_compute; discriminate].
Qed.
Print Assumptions C12_integral_float_refuted.

(* 1ns prints "0u" and is read back as 0 *)
Theorem C12_duration_ns_refuted : exists z,
  format_duration_current z = [48; 117] /\ parse_duration (format_duration_current z) = Some 0%Z /\ z <> 0%Z /\
  canon prec_current isop_current [] true true false (EDur z) = true /\
  parse prec_current isop_current (print_toks false false (EDur z)) <> Some (EDur z).
Proof.
  exists 1%Z. repeat split; try (vm_compute; reflexivity); vm_compute; discriminate.
Qed.
Print Assumptions C12_duration_ns_refuted.

(* the statement parser (sql.y: %left AND OR on one level) builds (a = 1 OR b = 2) AND c = 3 for
   `a = 1 OR b = 2 AND c = 3`; printing adds no parentheses; ParseExpr regroups it *)
Definition and_or_tree : expr :=
  EBin OAnd (EBin OOr (EBin OEq va (EInt 1)) (EBin OEq vb (EInt 2))) (EBin OEq vc (EInt 3)).
Theorem C12_and_or_refuted :
  parse prec_current isop_current (print_toks true true and_or_tree)
  = Some (EBin OOr (EBin OEq va (EInt 1)) (EBin OAnd (EBin OEq vb (EInt 2)) (EBin OEq vc (EInt 3)))).
Proof. vm_compute. reflexivity. Qed.
Print Assumptions C12_and_or_refuted.

(* the image of ParseExpr itself is not closed under print/parse: `b / -a` *)
Theorem C12_unary_minus_refuted : exists toks e,
  parse prec_current isop_current toks = Some e /\ parse prec_current isop_current (print_toks true true e) <> Some e.
Proof.
  exists [TIdent [98]; TWs; TOp ODiv; TWs; TOp OSub; TIdent [97]], (EBin ODiv vb (EBin OMul (EInt (-1)) va)).
  split; [vm_compute; reflexivity | vm_compute; discriminate].
Qed.
Print Assumptions C12_unary_minus_refuted.

(* & | ^ have a precedence but are not in operatorMap: ParseExpr silently returns the left operand only *)
Theorem C12_bitwise_refuted :
  parse prec_current isop_current (print_toks true true (EBin OEq (EBin OBitAnd va (EInt 1)) (EInt 1))) = Some va /\
  parse prec_current isop_repaired (print_toks true true (EBin OEq (EBin OBitAnd va (EInt 1)) (EInt 1)))
  = Some (EBin OEq (EBin OBitAnd va (EInt 1)) (EInt 1)).
Proof. split; vm_compute; reflexivity. Qed.
Print Assumptions C12_bitwise_refuted.

(* a field called nan is read back as the number NaN *)
Theorem C12_ident_nan_refuted :
  parse prec_current isop_current (print_toks true true (EBin OGt (EVar [110;97;110] DUnknown) (EInt 1)))
  = Some (EBin OGt (ESpecial 2) (EInt 1)).
Proof. vm_compute. reflexivity. Qed.
Print Assumptions C12_ident_nan_refuted.

(* a negative member of an IN set changes sign: parseSet skips the sign token *)
Theorem C12_in_set_negative_refuted :
  parse_set (set_print_toks [SNum true 1 []; SNum false 2 []]) = Some [SNum false 1 []; SNum false 2 []].
Proof. vm_compute. reflexivity. Qed.
Print Assumptions C12_in_set_negative_refuted.

Theorem C12_in_set_empty_string_refuted :
  parse_set (set_print_toks [SNum false 1 []; SStr []]) = Some [SNum false 1 []].
Proof. vm_compute. reflexivity. Qed.
Print Assumptions C12_in_set_empty_string_refuted.

(* a regex literal with a raw line feed prints verbatim and is rejected by the delimited regex reader *)
Theorem C12_regex_newline_refuted :
  regex_delim (regex_escape [97; 10; 98] ++ [47]) [] = None /\ regex_raw ([97; 10; 98] ++ [47]) true [] = Some ([97; 10; 98], []).
Proof. split; vm_compute; reflexivity. Qed.
Print Assumptions C12_regex_newline_refuted.

(* a string literal with a carriage return or a NUL (a bound parameter or a PromQL label matcher can hold one; the
   statement text itself cannot: the reader turns CR into LF and stops at NUL): QuoteString writes the character raw, the
   store's reader turns CR into LF / ends at NUL and ScanString reports a bad string: the shipped condition does not parse.
   These are exactly the characters the lexing theorem excludes (wf_str). *)
Theorem C12_string_cr_nul_refuted : forall c, c = 13 \/ c = 0 ->
  let e := EBin OEq (EVar [104] DUnknown) (EStr [97; c; 98]) in
  Inst.parse (Inst.scan (Inst.print_text_v true true e)) <> Some e.
Proof. intros c [H|H]; subst c; vm_compute; discriminate. Qed.
Print Assumptions C12_string_cr_nul_refuted.
