(* C12 statement correspondence: the model statement printer against the REAL shipped text, and the model of the
   hand-written statement parser (run on the model's token-level print of the tree) against what the REAL store-side
   reader returned for that text. *)
From Coq Require Import ZArith NArith List Bool.
From OG Require Import C12.Model C12.Gen_Tokens C12.Inst C12.Regroup C12.Corr C12.Stmt.
Import ListNotations.
Open Scope N_scope.

(* keyword codes from the live keyword table *)
Definition KI (k : kwid) : N := match kw_lookup keywords (kw_word k) with Some c => c | None => 0 end.

Definition stext (nr dr : bool) := Stmt.source_text Inst.op_text keywords nr dr.
Definition stoks (nr dr : bool) := Stmt.source_toks KI nr dr.
Definition sparse (toks : list token) := Stmt.parse_source Inst.prec Inst.isop KI (length toks + 20) toks.

(* a printer variant as a transformation of every expression of a statement *)
Fixpoint map_source (f : expr -> expr) (s : source) : source :=
  match s with
  | SMst _ _ _ _ => s
  | SSub st al => SSub (map_stmt f st) al
  end
with map_stmt (f : expr -> expr) (s : stmt) : stmt :=
  match s with
  | Stmt fields sources cond dims fl sort l o sl so tz =>
      Stmt (map (fun fa => (f (fst fa), snd fa)) fields)
           ((fix go (l : list source) : list source := match l with [] => [] | a :: r => map_source f a :: go r end) sources)
           (option_map f cond) (map f dims) fl sort l o sl so tz
  end.

Definition ostr_eqb (a b : option str) : bool :=
  match a, b with Some x, Some y => str_eqb x y | None, None => true | _, _ => false end.
Definition fill_eqb (a b : fillopt) : bool :=
  match a, b with
  | FNull, FNull | FNone, FNone | FPrev, FPrev | FLinear, FLinear => true
  | FNumber x, FNumber y => expr_eqb x y
  | _, _ => false
  end.
Fixpoint list_eqb2 (A : Type) (eq : A -> A -> bool) (a b : list A) : bool :=
  match a, b with
  | [], [] => true
  | x :: a', y :: b' => eq x y && list_eqb2 A eq a' b'
  | _, _ => false
  end.
Arguments list_eqb2 {A} eq a b.
Definition field_eqb (a b : expr * str) : bool := expr_eqb (fst a) (fst b) && str_eqb (snd a) (snd b).
Definition sort_eqb (a b : str * bool) : bool := str_eqb (fst a) (fst b) && Bool.eqb (snd a) (snd b).

Fixpoint source_eqb (a b : source) {struct a} : bool :=
  match a, b with
  | SMst d r n re, SMst d' r' n' re' => str_eqb d d' && str_eqb r r' && str_eqb n n' && ostr_eqb re re'
  | SSub s al, SSub s' al' => stmt_eqb s s' && str_eqb al al'
  | _, _ => false
  end
with stmt_eqb (a b : stmt) {struct a} : bool :=
  match a, b with
  | Stmt f s c d fl so l o sl sof tz, Stmt f' s' c' d' fl' so' l' o' sl' sof' tz' =>
      list_eqb2 field_eqb f f' &&
      (fix go (x y : list source) : bool :=
         match x, y with
         | [], [] => true
         | p :: x', q :: y' => source_eqb p q && go x' y'
         | _, _ => false
         end) s s' &&
      oexpr_eqb c c' && list_eqb2 expr_eqb d d' && fill_eqb fl fl' && list_eqb2 sort_eqb so so' &&
      (l =? l') && (o =? o') && (sl =? sl') && (sof =? sof') && ostr_eqb tz tz'
  end.

(* one shipped source (measurement, sub-query, or a whole statement wrapped as a sub-query):
   the tree, the real shipped text, the tree the real ParseSource returned (None: it reported an error) *)
Record srccase := { sc_a : source; sc_printed : str; sc_b : option source }.
Record fldcase := { fc_a : list (expr * str); fc_printed : str; fc_b : option (list (expr * str)) }.
Record srtcase := { oc_a : list (str * bool); oc_printed : str; oc_b : option (list (str * bool)) }.

(* failure codes:
   21 model text of the source differs from the real shipped text
   22 model ParseSource on the model's token-level print differs from what the real ParseSource returned
   23 / 24 the same for the select list (Fields.String / hybridqp.ParseFields: SELECT <fields> FROM mock)
   25 / 26 the same for sort fields (SortFields.String / ParseSortFields) *)
Definition check_src (nr dr pr : bool) (c : srccase) : list N :=
  let a := map_source (printed_tree pr) (sc_a c) in
  (if str_eqb (stext nr dr a) (sc_printed c) then [] else [21]) ++
  (match sparse (stoks nr dr a), sc_b c with
   | Some (s, _), Some b => if source_eqb s b then [] else [22]
   | None, None => []
   | _, _ => [22]
   end).

Definition mock : str := [109;111;99;107].
Definition check_fld (nr dr pr : bool) (c : fldcase) : list N :=
  let a := map (fun fa => (printed_tree pr (fst fa), snd fa)) (fc_a c) in
  (if str_eqb (Stmt.sep_text (Stmt.field_text Inst.op_text keywords nr dr) a) (fc_printed c) then [] else [23]) ++
  (let toks := TWs :: Stmt.sep_toks (Stmt.field_toks KI nr dr) a ++ [TWs; TKeyword (KI KFrom); TWs; TIdent mock] in
   match Stmt.parse_stmt Inst.prec Inst.isop KI (length toks + 20) toks, fc_b c with
   | Some (Stmt f _ _ _ _ _ _ _ _ _ _, _), Some b => if list_eqb2 field_eqb f b then [] else [24]
   | None, None => []
   | _, _ => [24]
   end).

Definition check_srt (c : srtcase) : list N :=
  (if str_eqb (Stmt.sep_text (Stmt.sort_text keywords) (oc_a c)) (oc_printed c) then [] else [25]) ++
  (let toks := Stmt.sep_toks (Stmt.sort_toks KI) (oc_a c) in
   match Stmt.parse_sort_fields KI (length toks + 5) toks, oc_b c with
   | Some (l, _), Some b => if list_eqb2 sort_eqb l b then [] else [26]
   | None, None => []
   | _, _ => [26]
   end).

Fixpoint number_from (A : Type) (f : A -> list N) (i : N) (cs : list A) : list (N * list N) :=
  match cs with
  | [] => []
  | c :: r => match f c with
              | [] => number_from A f (i + 1) r
              | l => (i, l) :: number_from A f (i + 1) r
              end
  end.
Arguments number_from {A} f i cs.
Definition smismatches (nr dr pr : bool) (a : list srccase) (b : list fldcase) (c : list srtcase) : list (N * list N) :=
  number_from (check_src nr dr pr) 0 a ++ number_from (check_fld nr dr pr) 100000 b ++ number_from check_srt 200000 c.
