(* C12: IN sets at token level. *)
From Coq Require Import ZArith NArith List Bool Lia ZifyBool ZifyNat ZifyN.
From OG Require Import C12.Model C12.Proofs.
Import ListNotations.
Open Scope N_scope.

Lemma split_dot_nodot : forall s acc, forallb is_digit s = true -> split_dot s acc = (rev acc ++ s, None).
Proof.
  induction s as [|c s IH]; intros acc H; cbn [split_dot].
  - rewrite app_nil_r. reflexivity.
  - cbn [forallb] in H. apply andb_prop in H. destruct H as [Hc Hs].
    assert (E : (c =? 46) = false) by (apply is_digit_range in Hc; lia).
    rewrite E, IH by exact Hs. cbn [rev]. rewrite <- app_assoc. reflexivity.
Qed.

(* ------------------------------------------------------------------ IN sets: members without a sign survive *)
Lemma parse_set_items_print : forall vs rest, forallb setval_nonneg vs = true ->
  parse_set_items (set_items_toks vs ++ TRParen :: rest) = Some vs.
Proof.
  induction vs as [|v vs IH]; intros rest H; [reflexivity|].
  cbn [forallb] in H. apply andb_prop in H. destruct H as [Hv Hvs].
  assert (Hone : forall tail, parse_set_items tail = Some vs ->
                 parse_set_items (setval_toks v ++ tail) = Some (v :: vs)).
  { intros tail Ht. destruct v as [neg ip fp|s]; cbn [setval_nonneg] in Hv.
    - apply andb_prop in Hv. destruct Hv as [Hn Hf]. apply negb_true_iff in Hn. subst neg.
      cbn [setval_toks app]. destruct fp as [|d fp'].
      + cbn [app parse_set_items]. rewrite Ht. rewrite app_nil_r.
        unfold parse_number. pose proof (digits_all ip) as Ha.
        rewrite (split_dot_nodot (digits ip) [] Ha). cbn [rev app]. pose proof (digits_nonempty ip). pose proof (digits_roundtrip ip) as Hr.
        destruct (digits ip); [congruence|]. rewrite Hr. reflexivity.
      + cbn [app parse_set_items]. rewrite Ht.
        pose proof (parse_number_print ip (d :: fp') Hf) as Hp. cbn beta iota in Hp. rewrite Hp. reflexivity.
    - cbn [setval_toks app parse_set_items]. rewrite Ht. destruct s; [discriminate | reflexivity]. }
  destruct vs as [|v2 vs'].
  - cbn [set_items_toks]. apply Hone. reflexivity.
  - change (set_items_toks (v :: v2 :: vs')) with (setval_toks v ++ TComma :: set_items_toks (v2 :: vs')).
    rewrite <- app_assoc. apply Hone. cbn [app parse_set_items]. rewrite (IH rest Hvs). reflexivity.
Qed.

Theorem set_roundtrip_nonneg : forall vs, forallb setval_nonneg vs = true -> parse_set (set_print_toks vs) = Some vs.
Proof.
  intros vs H. unfold parse_set, set_print_toks. cbn [skip_ws]. apply parse_set_items_print. exact H.
Qed.
