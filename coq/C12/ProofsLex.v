(* C12 lexing: the scanner (Model.scan) reads the TEXT printed by the String methods (Model.print_text) back as exactly
   the token sequence of the token-level printer (Model.print_toks), for every canonical expression.
   Part 1: scanner state as a fold over tokens, one lemma per token class. *)
From Coq Require Import ZArith NArith List Bool Lia ZifyBool ZifyNat ZifyN.
From OG Require Import C12.Model C12.Proofs.
Import ListNotations.
Open Scope N_scope.

(* ------------------------------------------------------------------ generic list helpers *)
Lemma take_while_app : forall p s acc rest, forallb p s = true -> hd_sat p rest = false ->
  take_while p (s ++ rest) acc = (rev acc ++ s, rest).
Proof.
  induction s as [|c s IH]; intros acc rest H Hr; cbn [app].
  - rewrite app_nil_r. destruct rest as [|c rest]; cbn [take_while]; [reflexivity|]. cbn [hd_sat] in Hr. rewrite Hr. reflexivity.
  - cbn [forallb] in H. apply andb_prop in H. destruct H as [Hc Hs]. cbn [take_while]. rewrite Hc.
    rewrite IH by assumption. cbn [rev]. rewrite <- app_assoc. reflexivity.
Qed.

Lemma hd_sat_app : forall p s rest, s <> [] -> hd_sat p (s ++ rest) = hd_sat p s.
Proof. intros p [|c s] rest H; [congruence | reflexivity]. Qed.

Lemma hd_sat_imp : forall (p q : N -> bool) s, (forall c, q c = true -> p c = true) -> hd_sat p s = false -> hd_sat q s = false.
Proof.
  intros p q [|c s] H Hp; [reflexivity|]. cbn [hd_sat] in *. destruct (q c) eqn:E; [|reflexivity].
  apply H in E. congruence.
Qed.

(* ------------------------------------------------------------------ scanner state *)
Record sst := { s_prev : option token; s_ws : bool; s_last : option token; s_stk : list bool }.

(* what the scanner's state is after it has produced token t (in the contexts where the printers put it: a regex
   token always comes from the delimited reader, which leaves the previous-token register alone) *)
Definition advance (st : sst) (t : token) : sst :=
  match t with
  | TWs => {| s_prev := s_prev st; s_ws := true; s_last := s_last st; s_stk := s_stk st |}
  | TRegex _ => {| s_prev := s_prev st; s_ws := false; s_last := Some t; s_stk := s_stk st |}
  | TLParen => {| s_prev := Some t; s_ws := false; s_last := Some t; s_stk := call_ctx (s_last st) (s_ws st) :: s_stk st |}
  | TRParen => {| s_prev := Some t; s_ws := false; s_last := Some t; s_stk := tl (s_stk st) |}
  | _ => {| s_prev := Some t; s_ws := false; s_last := Some t; s_stk := s_stk st |}
  end.
Definition run (toks : list token) (st : sst) : sst := fold_left advance toks st.

Lemma run_app : forall a b st, run (a ++ b) st = run b (run a st).
Proof. intros. apply fold_left_app. Qed.

Definition st0 : sst := {| s_prev := None; s_ws := false; s_last := None; s_stk := [] |}.

(* ------------------------------------------------------------------ facts that do not depend on the tables *)
Lemma ident_first_class : forall c, is_ident_first c = true ->
  is_ws c = false /\ (is_letter c || (c =? 95)) = true.
Proof. intros c H. unfold is_ident_first, is_ws, is_letter in *. lia. Qed.

Lemma digit_class : forall c, is_digit c = true ->
  is_ws c = false /\ (is_letter c || (c =? 95)) = false.
Proof. intros c H. unfold is_ws, is_letter, is_digit in *. lia. Qed.

Lemma bare_ok_chars : forall w, bare_ok w = true ->
  exists c w', w = c :: w' /\ is_ident_first c = true /\ forallb is_ident_or_dot w = true.
Proof.
  intros [|c w'] H; [discriminate|]. cbn [bare_ok] in H. apply andb_prop in H. destruct H as [H1 H2].
  exists c, w'. split; [reflexivity|]. split; [exact H1|].
  cbn [forallb]. apply andb_true_intro. split.
  - unfold is_ident_or_dot, is_ident_char, is_ident_first in *. lia.
  - clear H1. induction w' as [|x w' IH]; [reflexivity|]. cbn [forallb] in *. apply andb_prop in H2. destruct H2 as [Hx Hw].
    rewrite IH by exact Hw. unfold is_ident_or_dot. rewrite Hx. reflexivity.
Qed.

Lemma escape_bare : forall s, forallb is_ident_or_dot s = true -> escape 34 s = s.
Proof.
  induction s as [|c s IH]; intro H; [reflexivity|]. cbn [forallb] in H. apply andb_prop in H. destruct H as [Hc Hs].
  cbn [escape]. rewrite IH by exact Hs.
  assert (E : (c =? 10) = false /\ (c =? 92) = false /\ (c =? 34) = false).
  { unfold is_ident_or_dot, is_ident_char, is_letter, is_digit in Hc. lia. }
  destruct E as [E1 [E2 E3]]. rewrite E1, E2, E3. reflexivity.
Qed.

Lemma digits_first : forall d, d <> [] -> forallb is_digit d = true -> exists c d', d = c :: d' /\ is_digit c = true.
Proof.
  intros [|c d'] Hne H; [congruence|]. cbn [forallb] in H. apply andb_prop in H. destruct H as [Hc _].
  exists c, d'. split; [reflexivity | exact Hc].
Qed.

Lemma wf_regex_tail : forall c r, wf_regex (c :: r) = true -> r <> [] -> wf_regex r = true.
Proof.
  intros c r H Hne. unfold wf_regex in *. cbn [forallb] in H. apply andb_prop in H. destruct H as [H1 H2].
  apply andb_prop in H1. destruct H1 as [_ H1]. rewrite H1. destruct r as [|x r']; [congruence|].
  cbn [last_is] in H2. exact H2.
Qed.

Lemma regex_delim_escape : forall src acc rest, wf_regex src = true ->
  regex_delim (regex_escape src ++ 47 :: rest) acc = Some (rev acc ++ src, rest).
Proof.
  induction src as [|c r IH]; intros acc rest H.
  - cbn [regex_escape app regex_delim]. rewrite app_nil_r. reflexivity.
  - assert (Hc : (c =? 10) = false /\ (c =? 13) = false /\ (c =? 0) = false).
    { unfold wf_regex in H. cbn [forallb] in H. unfold wf_char in H. lia. }
    destruct Hc as [H10 [H13 H0]].
    assert (IH' : r <> [] -> forall x, regex_delim (regex_escape r ++ 47 :: rest) (x :: acc) = Some (rev acc ++ x :: r, rest)).
    { intros Hne x. rewrite IH by (apply (wf_regex_tail c); assumption). cbn [rev]. rewrite <- app_assoc. reflexivity. }
    cbn [regex_escape]. destruct (c =? 47) eqn:E47.
    + apply N.eqb_eq in E47. subst c. cbn [app regex_delim]. cbn -[regex_delim regex_escape app rev].
      destruct r as [|x r'].
      * cbn [regex_escape app regex_delim]. rewrite N.eqb_refl. reflexivity.
      * apply IH'. discriminate.
    + cbn [app regex_delim]. rewrite E47, H10, H13, H0. cbn [orb].
      destruct (c =? 92) eqn:E92.
      * apply N.eqb_eq in E92. subst c.
        destruct r as [|x r'].
        { vm_compute in H. discriminate. }
        assert (Hne : x :: r' <> []) by discriminate.
        specialize (IH' Hne 92). cbn [regex_escape] in *. destruct (x =? 47) eqn:Ex.
        -- cbn [app] in *. change (92 =? 47) with false. cbv iota. exact IH'.
        -- cbn [app] in *. rewrite Ex. exact IH'.
      * destruct r as [|x r'].
        -- cbn [regex_escape app regex_delim]. change (47 =? 47) with true. cbv iota. reflexivity.
        -- apply IH'. discriminate.
Qed.

(* the spellings the scanner reads as each symbolic operator ([] = the operator is a keyword) *)
Definition sym_texts (o : op) : list str :=
  match o with
  | OEq => [[61]] | ONeq => [[33; 61]; [60; 62]] | OEqRegex => [[61; 126]] | ONeqRegex => [[33; 126]]
  | OLt => [[60]] | OLte => [[60; 61]] | OGt => [[62]] | OGte => [[62; 61]]
  | OAdd => [[43]] | OSub => [[45]] | OMul => [[42]] | ODiv => [[47]] | OMod => [[37]]
  | OBitAnd => [[38]] | OBitOr => [[124]] | OBitXor => [[94]]
  | OOr | OAnd | OLike | OMatch | OMatchPhrase | OIpInRange => []
  end.

Section Lex.
Variable kws : list (str * N).
Variable op_of_code : N -> option op.
Variables ct cf cfield ctag cdistinct : N.

Definition SF (f : nat) (s : str) (st : sst) : list token :=
  scan_fuel kws op_of_code ct cf cfield ctag cdistinct f s (s_prev st) (s_ws st) (s_last st) (s_stk st).
Notation KT := (keyword_tok op_of_code ct cf cfield ctag cdistinct).

(* the scanner, given enough fuel, turns text s into toks and goes on with s' *)
Definition lexes (s : str) (toks : list token) (s' : str) (st : sst) : Prop :=
  forall f, (length s < f)%nat -> exists f', (length s' < f')%nat /\ SF f s st = toks ++ SF f' s' (run toks st).

Lemma lexes_refl : forall s st, lexes s [] s st.
Proof. intros s st f H. exists f. split; [exact H | reflexivity]. Qed.

Lemma lexes_trans : forall s1 t1 s2 t2 s3 st,
  lexes s1 t1 s2 st -> lexes s2 t2 s3 (run t1 st) -> lexes s1 (t1 ++ t2) s3 st.
Proof.
  intros s1 t1 s2 t2 s3 st H1 H2 f Hf. destruct (H1 f Hf) as [f1 [Hf1 E1]]. destruct (H2 f1 Hf1) as [f2 [Hf2 E2]].
  exists f2. split; [exact Hf2|]. rewrite E1, E2, run_app, app_assoc. reflexivity.
Qed.

Lemma lexes_scan : forall s toks, lexes s toks [] st0 ->
  scan kws op_of_code ct cf cfield ctag cdistinct s = toks.
Proof.
  intros s toks H. destruct (H (S (length s)) (Nat.lt_succ_diag_r _)) as [f' [Hf' E]].
  unfold scan. unfold SF in E. cbn [st0 s_prev s_ws s_last s_stk] in E. rewrite E.
  destruct f'; [cbn in Hf'; lia|]. cbn [scan_fuel]. apply app_nil_r.
Qed.

(* one token: the proof obligations left are the length bookkeeping and the scanner's own computation *)
Ltac one_tok f Hf :=
  intros f Hf; destruct f as [|f]; [cbn [length] in Hf; lia|]; exists f;
  split; [cbn [length] in Hf; try rewrite !app_length in Hf; cbn [length] in Hf; lia|];
  unfold SF; cbn [run fold_left advance s_prev s_ws s_last s_stk app].

(* ------------------------------------------------------------------ character classes *)


(* ------------------------------------------------------------------ white space, punctuation *)
Lemma lex_ws : forall rest st, hd_sat is_ws rest = false -> lexes (32 :: rest) [TWs] rest st.
Proof.
  intros rest st H. one_tok f Hf. cbn [scan_fuel]. change (is_ws 32) with true. cbv iota.
  pose proof (take_while_app is_ws [] [] rest eq_refl H) as E. cbn [app rev] in E. rewrite E. reflexivity.
Qed.

Lemma lex_lparen : forall rest st, lexes (40 :: rest) [TLParen] rest st.
Proof. intros rest st. one_tok f Hf. reflexivity. Qed.
Lemma lex_rparen : forall rest st, lexes (41 :: rest) [TRParen] rest st.
Proof. intros rest st. one_tok f Hf. reflexivity. Qed.
Lemma lex_comma : forall rest st, lexes (44 :: rest) [TComma] rest st.
Proof. intros rest st. one_tok f Hf. reflexivity. Qed.
Lemma lex_plus : forall rest st, lexes (43 :: rest) [TOp OAdd] rest st.
Proof. intros rest st. one_tok f Hf. reflexivity. Qed.
Lemma lex_star : forall rest st, lexes (42 :: rest) [TOp OMul] rest st.
Proof. intros rest st. one_tok f Hf. reflexivity. Qed.
Lemma lex_minus : forall rest st, hd_is 45 rest = false -> lexes (45 :: rest) [TOp OSub] rest st.
Proof. intros rest st H. one_tok f Hf. cbn [scan_fuel]. cbn -[hd_is scan_fuel]. rewrite H. reflexivity. Qed.
Lemma lex_dcolon : forall rest st, lexes (58 :: 58 :: rest) [TDColon] rest st.
Proof. intros rest st. one_tok f Hf. reflexivity. Qed.

(* ------------------------------------------------------------------ words: identifiers, keywords, keyword operators *)
Definition word_tok (w : str) : token :=
  match kw_lookup kws (lower w) with Some c => KT c | None => TIdent w end.

Lemma advance_KT : forall st c, advance st (KT c) =
  {| s_prev := Some (KT c); s_ws := false; s_last := Some (KT c); s_stk := s_stk st |}.
Proof.
  intros st c. unfold keyword_tok. destruct (op_of_code c); [reflexivity|].
  repeat match goal with |- context [if ?b then _ else _] => destruct b end; reflexivity.
Qed.

Lemma advance_word : forall st w, advance st (word_tok w) =
  {| s_prev := Some (word_tok w); s_ws := false; s_last := Some (word_tok w); s_stk := s_stk st |}.
Proof. intros st w. unfold word_tok. destruct (kw_lookup kws (lower w)); [apply advance_KT | reflexivity]. Qed.


Lemma lex_word : forall w rest st, bare_ok w = true -> hd_sat is_ident_or_dot rest = false -> hd_is 34 rest = false ->
  lexes (w ++ rest) [word_tok w] rest st.
Proof.
  intros w rest st Hb Hr Hq. destruct (bare_ok_chars w Hb) as [c [w' [E [Hc Hall]]]]. subst w.
  destruct (ident_first_class c Hc) as [Hws Hl].
  intros f Hf; destruct f as [|f]; [cbn [length] in Hf; lia|]. exists f.
  split; [cbn [length app] in Hf; rewrite app_length in Hf; lia|].
  unfold SF. cbn [run fold_left]. rewrite advance_word. cbn [s_prev s_ws s_last s_stk app].
  cbn [scan_fuel]. rewrite Hws, Hl.
  pose proof (take_while_app is_ident_or_dot (c :: w') [] rest Hall Hr) as E. cbn [app rev] in E. rewrite E.
  rewrite Hq. unfold word_tok. destruct (kw_lookup kws (lower (c :: w'))); reflexivity.
Qed.

(* ------------------------------------------------------------------ quoted identifiers and strings *)
Lemma lex_quoted : forall s rest st, wf_str s = true -> lexes (34 :: escape 34 s ++ 34 :: rest) [TIdent s] rest st.
Proof.
  intros s rest st H. intros f Hf; destruct f as [|f]; [cbn [length] in Hf; lia|]. exists f.
  split; [cbn [length] in Hf; rewrite app_length in Hf; cbn [length] in Hf; lia|].
  unfold SF. cbn [run fold_left advance s_prev s_ws s_last s_stk app].
  cbn [scan_fuel]. cbn -[unquote scan_fuel escape app]. rewrite unquote_escape by auto. reflexivity.
Qed.

Lemma lex_string : forall s rest st, wf_str s = true -> lexes (quote_string s ++ rest) [TString s] rest st.
Proof.
  intros s rest st H. unfold quote_string. cbn [app]. rewrite <- app_assoc. cbn [app].
  intros f Hf; destruct f as [|f]; [cbn [length] in Hf; lia|]. exists f.
  split; [cbn [length] in Hf; rewrite app_length in Hf; cbn [length] in Hf; lia|].
  unfold SF. cbn [run fold_left advance s_prev s_ws s_last s_stk app].
  cbn [scan_fuel]. cbn -[unquote scan_fuel escape app]. rewrite unquote_escape by auto. reflexivity.
Qed.


Lemma lex_ident : forall name rest st, wf_str name = true ->
  hd_sat is_ident_or_dot rest = false -> hd_is 34 rest = false ->
  lexes (quote_ident kws name ++ rest) [TIdent name] rest st.
Proof.
  intros name rest st Hwf Hr Hq. pose proof (quote_ident_roundtrip kws name rest Hwf) as R.
  unfold quote_ident in *. destruct (ident_needs_quotes kws name) eqn:E.
  - cbn [app]. rewrite <- app_assoc. cbn [app]. apply lex_quoted. exact Hwf.
  - destruct R as [Hb Hk]. destruct (bare_ok_chars name Hb) as [c [w' [En [_ Hall]]]].
    rewrite escape_bare by exact Hall.
    pose proof (lex_word name rest st Hb Hr Hq) as L. unfold word_tok in L. rewrite Hk in L. exact L.
Qed.

(* ------------------------------------------------------------------ integers, numbers, durations *)

Ltac digit_start d Hne Hd c d' Hc Hws Hl f Hf :=
  destruct (digits_first d Hne Hd) as [c [d' [?E Hc]]]; subst d;
  destruct (digit_class c Hc) as [Hws Hl];
  intros f Hf; destruct f as [|f]; [cbn [length] in Hf; lia|]; exists f;
  split; [cbn [length app] in Hf; repeat (rewrite app_length in Hf; cbn [length] in Hf); lia|];
  unfold SF; cbn [run fold_left advance s_prev s_ws s_last s_stk app];
  cbn [scan_fuel]; rewrite Hws, Hl, Hc; cbn [orb].

Lemma lex_integer : forall d rest st, d <> [] -> forallb is_digit d = true ->
  hd_sat is_digit rest = false -> hd_is 46 rest = false -> hd_sat is_dur_first rest = false ->
  lexes (d ++ rest) [TInteger d] rest st.
Proof.
  intros d rest st Hne Hd H1 H2 H3. digit_start d Hne Hd c d' Hc Hws Hl f Hf.
  pose proof (take_while_app is_digit (c :: d') [] rest Hd H1) as E. cbn [app rev] in E. rewrite E.
  rewrite H2, H3. reflexivity.
Qed.

Lemma lex_number : forall d1 d2 rest st, d1 <> [] -> forallb is_digit d1 = true -> d2 <> [] -> forallb is_digit d2 = true ->
  hd_sat is_digit rest = false ->
  lexes (d1 ++ 46 :: d2 ++ rest) [TNumber (d1 ++ 46 :: d2)] rest st.
Proof.
  intros d1 d2 rest st Hne Hd Hne2 Hd2 H1. digit_start d1 Hne Hd c d' Hc Hws Hl f Hf.
  pose proof (take_while_app is_digit (c :: d') [] (46 :: d2 ++ rest) Hd eq_refl) as E. cbn [app rev] in E. rewrite E.
  change (hd_is 46 (46 :: d2 ++ rest)) with true. cbv iota. cbn [tl].
  pose proof (take_while_app is_digit d2 [] rest Hd2 H1) as E2. cbn [app rev] in E2. rewrite E2.
  destruct d2 as [|x d2']; [congruence|]. reflexivity.
Qed.

Lemma lex_duration : forall d w rest st, d <> [] -> forallb is_digit d = true ->
  hd_sat is_dur_first w = true -> forallb is_dur_char w = true -> hd_sat is_dur_char rest = false ->
  lexes (d ++ w ++ rest) [TDuration (d ++ w)] rest st.
Proof.
  intros d w rest st Hne Hd Hw1 Hw H1. destruct w as [|x w']; [discriminate|]. cbn [hd_sat] in Hw1.
  digit_start d Hne Hd c d' Hc Hws Hl f Hf.
  assert (Hx : is_digit x = false /\ (x =? 46) = false).
  { unfold is_dur_first, is_letter, is_digit in *. lia. }
  destruct Hx as [Hx1 Hx2].
  pose proof (take_while_app is_digit (c :: d') [] ((x :: w') ++ rest) Hd Hx1) as E. cbn [app rev] in E. rewrite E.
  unfold hd_is at 1. cbn [hd_sat]. rewrite Hx2, Hw1.
  pose proof (take_while_app is_dur_char (x :: w') [] rest Hw H1) as E2. cbn [app rev] in E2. rewrite E2.
  reflexivity.
Qed.

(* ------------------------------------------------------------------ symbolic operators *)

Lemma lex_symop : forall o t rest st, In t (sym_texts o) ->
  (o = ODiv -> delim_ctx (s_last st) (s_stk st) = false /\ div_after (s_prev st) = true) ->
  lexes (t ++ 32 :: rest) [TOp o] (32 :: rest) st.
Proof.
  intros o t rest st Ht Hdiv.
  destruct o; cbn [sym_texts In] in Ht; repeat (destruct Ht as [Ht|Ht]); try contradiction; subst t;
    try (intros f Hf; destruct f as [|f]; [cbn [length] in Hf; lia|]; exists f;
         split; [cbn [length app] in Hf; cbn [length]; lia|]; reflexivity).
  (* division *)
  destruct (Hdiv eq_refl) as [H1 H2].
  intros f Hf; destruct f as [|f]; [cbn [length] in Hf; lia|]; exists f.
  split; [cbn [length app] in Hf; cbn [length]; lia|].
  unfold SF. cbn [run fold_left advance s_prev s_ws s_last s_stk app].
  cbn [scan_fuel]. cbn -[scan_fuel delim_ctx div_after]. rewrite H1, H2. reflexivity.
Qed.

(* ------------------------------------------------------------------ regular expressions *)


Lemma lex_regex : forall src rest st, delim_ctx (s_last st) (s_stk st) = true -> wf_regex src = true ->
  lexes (47 :: regex_escape src ++ 47 :: rest) [TRegex src] rest st.
Proof.
  intros src rest st Hd Hwf. intros f Hf; destruct f as [|f]; [cbn [length] in Hf; lia|]. exists f.
  split; [cbn [length] in Hf; rewrite app_length in Hf; cbn [length] in Hf; lia|].
  unfold SF. cbn [run fold_left advance s_prev s_ws s_last s_stk app].
  cbn [scan_fuel]. cbn -[scan_fuel delim_ctx regex_delim regex_escape app]. rewrite Hd.
  rewrite regex_delim_escape by exact Hwf. reflexivity.
Qed.

End Lex.
