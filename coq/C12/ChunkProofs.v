(* C12 chunk codec: round trip and size theorems for the model of chunk_codec.gen.go. *)
From Coq Require Import NArith List Bool Lia ZifyBool ZifyNat ZifyN.
From OG Require Import C12.Chunk.
Import ListNotations.
Open Scope N_scope.

(* ------------------------------------------------------------------ fixed-width integers *)
Lemma enc_be_length : forall k n, length (enc_be k n) = k.
Proof. induction k as [|k IH]; intro n; cbn [enc_be length]; [reflexivity | rewrite IH; reflexivity]. Qed.
Lemma enc_le_length : forall k n, length (enc_le k n) = k.
Proof. induction k as [|k IH]; intro n; cbn [enc_le length]; [reflexivity | rewrite IH; reflexivity]. Qed.

Lemma pow_succ : forall k, 256 ^ N.of_nat (S k) = 256 * 256 ^ N.of_nat k.
Proof. intro k. rewrite Nat2N.inj_succ, N.pow_succ_r'. reflexivity. Qed.

Lemma be_roundtrip : forall k n acc rest, n < 256 ^ N.of_nat k ->
  dec_be k (enc_be k n ++ rest) acc = Some (acc * 256 ^ N.of_nat k + n, rest).
Proof.
  induction k as [|k IH]; intros n acc rest H.
  - cbn in H. cbn [enc_be app dec_be]. f_equal. f_equal. cbn. lia.
  - cbn [enc_be app dec_be]. set (p := 256 ^ N.of_nat k) in *.
    assert (Hp : 0 < p) by (subst p; apply N.neq_0_lt_0; apply N.pow_nonzero; discriminate).
    rewrite IH by (apply N.mod_lt; lia). f_equal. f_equal.
    rewrite pow_succ. fold p. pose proof (N.div_mod n p ltac:(lia)). nia.
Qed.

Lemma le_roundtrip : forall k n rest, n < 256 ^ N.of_nat k -> dec_le k (enc_le k n ++ rest) = Some (n, rest).
Proof.
  induction k as [|k IH]; intros n rest H.
  - cbn in H. cbn [enc_le app dec_le]. f_equal. f_equal. lia.
  - cbn [enc_le app dec_le]. rewrite pow_succ in H.
    rewrite IH by (apply N.div_lt_upper_bound; lia). f_equal. f_equal.
    pose proof (N.div_mod n 256 ltac:(lia)). lia.
Qed.

Lemma zigzag_bound : forall u, u < two64 -> zigzag u < two64.
Proof. intros u H. unfold zigzag, two64, two63 in *. destruct (u <? 9223372036854775808) eqn:E; lia. Qed.

Lemma zigzag_inv : forall u, u < two64 -> unzigzag (zigzag u) = u.
Proof.
  intros u H. unfold zigzag, unzigzag, two64, two63 in *. destruct (u <? 9223372036854775808) eqn:E.
  - rewrite N.even_mul. cbn [N.even orb]. rewrite N.mul_comm. apply N.div_mul. discriminate.
  - assert (Hodd : N.even (2 * 18446744073709551616 - 1 - 2 * u) = false).
    { replace (2 * 18446744073709551616 - 1 - 2 * u) with (2 * (18446744073709551616 - 1 - u) + 1) by lia.
      rewrite N.even_add, N.even_mul. reflexivity. }
    rewrite Hodd. replace (2 * 18446744073709551616 - 1 - (2 * 18446744073709551616 - 1 - 2 * u)) with (u * 2) by lia.
    apply N.div_mul. discriminate.
Qed.

Lemma u16_roundtrip : forall n rest, n < two16 -> dec_u16 (enc_u16 n ++ rest) = Some (n, rest).
Proof. intros n rest H. unfold dec_u16, enc_u16. rewrite be_roundtrip by exact H. reflexivity. Qed.
Lemma u32_roundtrip : forall n rest, n < two32 -> dec_u32 (enc_u32 n ++ rest) = Some (n, rest).
Proof. intros n rest H. unfold dec_u32, enc_u32. rewrite be_roundtrip by exact H. reflexivity. Qed.
Lemma int_roundtrip : forall u rest, u < two64 -> dec_int (enc_int u ++ rest) = Some (u, rest).
Proof.
  intros u rest H. unfold dec_int, enc_int. rewrite be_roundtrip by (apply zigzag_bound; exact H).
  rewrite N.mul_0_l, N.add_0_l. rewrite zigzag_inv by exact H. reflexivity.
Qed.

Lemma len_app : forall (A : Type) (a b : list A), len (a ++ b) = len a + len b.
Proof. intros. unfold len. rewrite app_length. lia. Qed.
Lemma len_u16 : forall n, len (enc_u16 n) = 2.
Proof. intro n. unfold len, enc_u16. rewrite enc_be_length. reflexivity. Qed.
Lemma len_u32 : forall n, len (enc_u32 n) = 4.
Proof. intro n. unfold len, enc_u32. rewrite enc_be_length. reflexivity. Qed.
Lemma len_int : forall n, len (enc_int n) = 8.
Proof. intro n. unfold len, enc_int. rewrite enc_be_length. reflexivity. Qed.

(* ------------------------------------------------------------------ slices *)
Lemma all_lt_cons : forall b x l, all_lt b (x :: l) = true -> x < b /\ all_lt b l = true.
Proof. intros b x l H. cbn [all_lt forallb] in H. apply andb_prop in H. destruct H as [H1 H2]. split; [lia | exact H2]. Qed.

Lemma elems_roundtrip : forall k l rest, all_lt (256 ^ N.of_nat k) l = true ->
  dec_elems k (length l) (flat_map (enc_le k) l ++ rest) = Some (l, rest).
Proof.
  induction l as [|x l IH]; intros rest H; [reflexivity|].
  apply all_lt_cons in H. destruct H as [Hx Hl].
  cbn [length flat_map dec_elems]. rewrite <- app_assoc. rewrite le_roundtrip by exact Hx. rewrite IH by exact Hl. reflexivity.
Qed.

Lemma len_nat : forall (A : Type) (l : list A), N.to_nat (len l) = length l.
Proof. intros. unfold len. lia. Qed.

Lemma slice_roundtrip : forall k l rest, all_lt (256 ^ N.of_nat k) l = true -> len l < two32 ->
  dec_slice k (enc_slice k l ++ rest) = Some (l, rest).
Proof.
  intros k l rest H Hl. unfold dec_slice, enc_slice. rewrite <- app_assoc. rewrite u32_roundtrip by exact Hl.
  rewrite len_nat. apply elems_roundtrip. exact H.
Qed.

Lemma len_flat_le : forall k l, len (flat_map (enc_le k) l) = N.of_nat k * len l.
Proof.
  intros k l. unfold len. induction l as [|x l IH]; [cbn; lia|].
  cbn [flat_map length]. rewrite app_length, enc_le_length. lia.
Qed.
Lemma len_slice : forall k l, len (enc_slice k l) = N.of_nat k * len l + 4.
Proof. intros. unfold enc_slice. rewrite len_app, len_u32, len_flat_le. lia. Qed.

Lemma take_app : forall l rest, take (length l) (l ++ rest) = Some (l, rest).
Proof. induction l as [|x l IH]; intro rest; [reflexivity|]. cbn [length app take]. rewrite IH. reflexivity. Qed.

Lemma bools_roundtrip : forall l rest, len l < two32 -> dec_bools (enc_bools l ++ rest) = Some (l, rest).
Proof.
  intros l rest H. unfold dec_bools, enc_bools. rewrite <- app_assoc. rewrite u32_roundtrip by exact H.
  rewrite len_nat. rewrite <- (map_length bool_byte l). rewrite take_app. f_equal. f_equal.
  rewrite map_map. rewrite <- (map_id l) at 2. apply map_ext. intros []; reflexivity.
Qed.
Lemma len_bools : forall l, len (enc_bools l) = len l + 4.
Proof. intro l. unfold enc_bools. rewrite len_app, len_u32. unfold len. rewrite map_length. lia. Qed.

Lemma bytes_roundtrip : forall l rest, len l < two32 -> dec_bytes (enc_bytes l ++ rest) = Some (l, rest).
Proof.
  intros l rest H. unfold dec_bytes, enc_bytes. rewrite <- app_assoc. rewrite u32_roundtrip by exact H.
  rewrite len_nat. apply take_app.
Qed.
Lemma len_bytes : forall l, len (enc_bytes l) = len l + 4.
Proof. intro l. unfold enc_bytes. rewrite len_app, len_u32. lia. Qed.

Lemma string_roundtrip : forall l rest, len l < two16 -> dec_string (enc_string l ++ rest) = Some (l, rest).
Proof.
  intros l rest H. unfold dec_string, enc_string. rewrite <- app_assoc. rewrite u16_roundtrip by exact H.
  rewrite len_nat. apply take_app.
Qed.
Lemma len_string : forall l, len (enc_string l) = len l + 2.
Proof. intro l. unfold enc_string. rewrite len_app, len_u16. lia. Qed.

(* ------------------------------------------------------------------ size-prefixed sub-messages *)
Section Sub.
Variable A : Type.
Variable e : A -> bytes.
Variable d : dec A.
Variable sz : A -> N.
Variable wf : A -> Prop.
Hypothesis Hlaw : forall a rest, wf a -> d (e a ++ rest) = Some (a, rest).
Hypothesis Hsz : forall a, wf a -> len (e a) = sz a.

Lemma sub_roundtrip : forall a rest, wf a -> 0 < sz a -> sz a < two32 ->
  dec_sub d (enc_u32 (sz a) ++ e a ++ rest) = Some (Some a, rest).
Proof.
  intros a rest Hw H0 H1. unfold dec_sub. rewrite u32_roundtrip by exact H1.
  assert (E : (sz a =? 0) = false) by lia. rewrite E.
  rewrite <- (Hsz a Hw), len_nat, take_app.
  rewrite <- (app_nil_r (e a)). rewrite Hlaw by exact Hw. reflexivity.
Qed.

Definition enc_o (o : option A) : bytes := match o with None => enc_u32 0 | Some a => enc_u32 (sz a) ++ e a end.
Definition wf_o (o : option A) : Prop := match o with None => True | Some a => wf a /\ 0 < sz a /\ sz a < two32 end.

Lemma osub_roundtrip : forall o rest, wf_o o -> dec_sub d (enc_o o ++ rest) = Some (o, rest).
Proof.
  intros [a|] rest H; cbn [enc_o wf_o] in *.
  - destruct H as [Hw [H0 H1]]. rewrite <- app_assoc. apply sub_roundtrip; assumption.
  - unfold dec_sub. rewrite u32_roundtrip by reflexivity. reflexivity.
Qed.

Lemma many_osub : forall l rest, Forall wf_o l ->
  dec_many (dec_sub d) (length l) (flat_map enc_o l ++ rest) = Some (l, rest).
Proof.
  induction l as [|o l IH]; intros rest H; [reflexivity|].
  inversion H as [|? ? Ho Hl]; subst. cbn [length flat_map dec_many]. rewrite <- app_assoc.
  rewrite osub_roundtrip by exact Ho. rewrite IH by exact Hl. reflexivity.
Qed.

Lemma many_sub : forall l rest, Forall (fun a => wf a /\ 0 < sz a /\ sz a < two32) l ->
  dec_many (dec_sub d) (length l) (flat_map (fun a => enc_u32 (sz a) ++ e a) l ++ rest) = Some (map Some l, rest).
Proof.
  intros l rest H. pose proof (many_osub (map Some l) rest) as M.
  rewrite map_length in M. rewrite flat_map_concat_map, map_map in M. rewrite flat_map_concat_map.
  apply M. clear M. induction H; constructor; assumption.
Qed.

Lemma len_flat_o : forall l, Forall wf_o l ->
  len (flat_map enc_o l) = fold_right (fun o s => 4 + match o with None => 0 | Some a => sz a end + s) 0 l.
Proof.
  clear Hlaw d.
  induction l as [|o l IH]; intro H; [reflexivity|]. inversion H as [|? ? Ho Hl]; subst.
  cbn [flat_map fold_right]. rewrite len_app, IH by exact Hl.
  destruct o as [a|]; cbn [enc_o wf_o] in *.
  - destruct Ho as [Hw _]. rewrite len_app, len_u32, (Hsz a Hw). lia.
  - rewrite len_u32. lia.
Qed.
End Sub.

(* ------------------------------------------------------------------ Bitmap *)
Lemma pow2 : 256 ^ N.of_nat 2 = two16. Proof. reflexivity. Qed.
Lemma pow4 : 256 ^ N.of_nat 4 = two32. Proof. reflexivity. Qed.
Lemma pow8 : 256 ^ N.of_nat 8 = two64. Proof. reflexivity. Qed.

Ltac split_wf H := repeat (apply andb_prop in H; let H' := fresh "W" in destruct H as [H H']).

Lemma bitmap_roundtrip : forall m rest, wf_bitmap m = true -> dec_bitmap (enc_bitmap m ++ rest) = Some (m, rest).
Proof.
  intros [bits arr l nc] rest H. unfold wf_bitmap in H. cbn [bm_bits bm_array bm_length bm_nil] in H. split_wf H.
  unfold dec_bitmap, enc_bitmap. cbn [bm_bits bm_array bm_length bm_nil].
  repeat rewrite <- app_assoc.
  rewrite bytes_roundtrip by lia. rewrite slice_roundtrip by (try rewrite pow2; assumption || lia).
  rewrite int_roundtrip by lia. rewrite int_roundtrip by lia. reflexivity.
Qed.
Lemma len_bitmap : forall m, len (enc_bitmap m) = size_bitmap m.
Proof.
  intro m. unfold enc_bitmap, size_bitmap. repeat rewrite len_app. rewrite len_bytes, len_slice, !len_int. lia.
Qed.

(* ------------------------------------------------------------------ floatTuple *)
Lemma tuple_roundtrip : forall t rest, all_lt two64 t = true /\ size_tuple t < two32 ->
  dec_slice 8 (enc_tuple t ++ rest) = Some (t, rest).
Proof.
  intros t rest [H1 H2]. unfold enc_tuple. apply slice_roundtrip; [rewrite pow8; exact H1 | unfold size_tuple in H2; lia].
Qed.
Lemma len_tuple : forall t, len (enc_tuple t) = size_tuple t.
Proof. intro t. unfold enc_tuple, size_tuple. rewrite len_slice. lia. Qed.

Lemma map_tuple_of : forall l : list (list N), map tuple_of (map Some l) = l.
Proof. intro l. rewrite map_map. cbn [tuple_of]. apply map_id. Qed.

(* ------------------------------------------------------------------ ColumnImpl *)
Lemma forallb_Forall : forall (A : Type) (p : A -> bool) l, forallb p l = true -> Forall (fun a => p a = true) l.
Proof.
  induction l as [|a l IH]; intro H; constructor; cbn [forallb] in H; apply andb_prop in H; destruct H as [H1 H2];
    [exact H1 | apply IH; exact H2].
Qed.

Lemma len_column : forall c, wf_column c = true -> len (enc_column c) = size_column c.
Proof.
  intros c H. unfold enc_column, size_column. repeat rewrite len_app.
  rewrite len_int, !len_slice, len_bytes, len_bools, len_u32.
  assert (Ht : len (flat_map (fun t => enc_u32 (size_tuple t) ++ enc_tuple t) (c_tuples c)) =
               fold_right (fun t s => 4 + size_tuple t + s) 0 (c_tuples c)).
  { clear H. induction (c_tuples c) as [|t l IH]; [reflexivity|].
    cbn [flat_map fold_right]. rewrite !len_app, len_u32, len_tuple, IH. lia. }
  rewrite Ht. destruct (c_nils c) as [m|].
  - rewrite len_app, len_u32, len_bitmap. lia.
  - rewrite len_u32. lia.
Qed.

Lemma column_roundtrip : forall c rest, wf_column c = true -> dec_column (enc_column c ++ rest) = Some (c, rest).
Proof.
  intros c rest H. pose proof H as Hwf. unfold wf_column in H. split_wf H.
  unfold dec_column, enc_column. repeat rewrite <- app_assoc.
  rewrite int_roundtrip by lia.
  rewrite slice_roundtrip by (try rewrite pow8; assumption || lia).
  rewrite slice_roundtrip by (try rewrite pow8; assumption || lia).
  rewrite bytes_roundtrip by lia.
  rewrite slice_roundtrip by (try rewrite pow4; assumption || lia).
  rewrite bools_roundtrip by lia.
  rewrite slice_roundtrip by (try rewrite pow8; assumption || lia).
  rewrite u32_roundtrip by lia. rewrite len_nat.
  rewrite (many_sub (list N) enc_tuple (dec_slice 8) size_tuple (fun t => all_lt two64 t = true /\ size_tuple t < two32)).
  - assert (Hn : dec_sub dec_bitmap (match c_nils c with None => enc_u32 0 | Some m => enc_u32 (size_bitmap m) ++ enc_bitmap m end ++ rest)
                 = Some (c_nils c, rest)).
    { apply (osub_roundtrip bitmap enc_bitmap dec_bitmap size_bitmap (fun m => wf_bitmap m = true)).
      - intros a r Ha. apply bitmap_roundtrip. exact Ha.
      - intros a _. apply len_bitmap.
      - destruct (c_nils c) as [m|]; cbn [wf_o]; [|exact I].
        apply andb_prop in W. destruct W as [Wa Wb]. split; [exact Wa|]. split; [unfold size_bitmap; lia | lia]. }
    rewrite Hn. rewrite map_tuple_of. destruct c; reflexivity.
  - intros a r Ha. apply tuple_roundtrip. exact Ha.
  - intros a _. apply len_tuple.
  - apply forallb_Forall in W1. eapply Forall_impl; [|exact W1]. cbn beta. intros t Ht.
    apply andb_prop in Ht. destruct Ht as [T1 T2]. split; [split; [exact T1 | lia]|]. split; [unfold size_tuple; lia | lia].
Qed.

(* ------------------------------------------------------------------ ChunkImpl *)
Lemma map_bytes_of : forall l : list bytes, map bytes_of (map Some l) = l.
Proof. intro l. rewrite map_map. cbn [bytes_of]. apply map_id. Qed.

Definition wf_col_prop (c : column) : Prop := wf_column c = true.

Lemma ocolumns_Forall : forall l, forallb wf_ocolumn l = true -> Forall (wf_o column size_column wf_col_prop) l.
Proof.
  intros l H. apply forallb_Forall in H. eapply Forall_impl; [|exact H]. cbn beta. intros [c|] Hc; cbn [wf_o wf_ocolumn] in *; [|exact I].
  apply andb_prop in Hc. destruct Hc as [C1 C2]. split; [exact C1|]. split; [unfold size_column; lia | lia].
Qed.

Lemma enc_ocolumn_o : forall o, enc_ocolumn o = enc_o column enc_column size_column o.
Proof. intros [c|]; reflexivity. Qed.

Lemma flat_ocolumn : forall l, flat_map enc_ocolumn l = flat_map (enc_o column enc_column size_column) l.
Proof. intro l. apply flat_map_ext. exact enc_ocolumn_o. Qed.

Theorem chunk_roundtrip : forall k rest, wf_chunk k = true -> dec_chunk (enc_chunk k ++ rest) = Some (k, rest).
Proof.
  intros k rest H. unfold wf_chunk in H. split_wf H.
  unfold dec_chunk, enc_chunk. repeat rewrite <- app_assoc.
  rewrite string_roundtrip by lia.
  rewrite u32_roundtrip by lia. rewrite len_nat.
  rewrite (many_sub bytes enc_tags dec_bytes size_tags (fun t => all_lt 256 t = true /\ size_tags t < two32)).
  - rewrite slice_roundtrip by (try rewrite pow8; assumption || lia).
    rewrite slice_roundtrip by (try rewrite pow8; assumption || lia).
    rewrite slice_roundtrip by (try rewrite pow8; assumption || lia).
    rewrite u32_roundtrip by lia. rewrite len_nat. rewrite flat_ocolumn.
    rewrite (many_osub column enc_column dec_column size_column wf_col_prop).
    + rewrite u32_roundtrip by lia. rewrite len_nat. rewrite flat_ocolumn.
      rewrite (many_osub column enc_column dec_column size_column wf_col_prop).
      * rewrite map_bytes_of. destruct k; reflexivity.
      * intros a r Ha. apply column_roundtrip. exact Ha.
      * intros a Ha. apply len_column. exact Ha.
      * apply ocolumns_Forall. assumption.
    + intros a r Ha. apply column_roundtrip. exact Ha.
    + intros a Ha. apply len_column. exact Ha.
    + apply ocolumns_Forall. assumption.
  - intros a r [Ha1 Ha2]. unfold enc_tags. apply bytes_roundtrip. unfold size_tags in Ha2. lia.
  - intros a _. unfold enc_tags, size_tags. apply len_bytes.
  - match goal with Ht : forallb _ (k_tags k) = true |- _ => apply forallb_Forall in Ht; eapply Forall_impl; [|exact Ht] end.
    cbn beta. intros t Ht. apply andb_prop in Ht. destruct Ht as [T1 T2].
    split; [split; [exact T1 | lia]|]. split; [unfold size_tags; lia | lia].
Qed.

(* Size() is the marshalled length (it is what the writer puts in front of every sub-message and what the sender uses to
   allocate the frame) *)
Theorem chunk_size : forall k, wf_chunk k = true -> len (enc_chunk k) = size_chunk k.
Proof.
  intros k H. unfold wf_chunk in H. split_wf H.
  unfold enc_chunk, size_chunk. repeat rewrite len_app. rewrite len_string, !len_u32, !len_slice.
  assert (Ht : len (flat_map (fun t => enc_u32 (size_tags t) ++ enc_tags t) (k_tags k)) =
               fold_right (fun t s => 4 + size_tags t + s) 0 (k_tags k)).
  { clear. induction (k_tags k) as [|t l IH]; [reflexivity|].
    cbn [flat_map fold_right]. rewrite !len_app, len_u32, IH. unfold enc_tags, size_tags. rewrite len_bytes. lia. }
  rewrite Ht. rewrite !flat_ocolumn.
  rewrite !(len_flat_o column enc_column size_column wf_col_prop) by
    (try (intros a Ha; apply len_column; exact Ha); apply ocolumns_Forall; assumption).
  assert (Hf : forall l : list (option column),
            fold_right (fun o s => 4 + match o with None => 0 | Some a => size_column a end + s) 0 l =
            fold_right (fun o s => size_ocolumn o + s) 0 l).
  { induction l as [|o l IH]; [reflexivity|]. cbn [fold_right]. rewrite IH. unfold size_ocolumn. lia. }
  rewrite (Hf (k_columns k)), (Hf (k_dims k)). clear. lia.
Qed.
