(* C12 chunk codec correspondence: the model encoder / decoder / size functions run against the real bytes of
   ChunkImpl.Marshal and the real result of ChunkImpl.Unmarshal (field dump through reflection). *)
From Coq Require Import NArith List Bool.
From OG Require Import C12.Chunk.
Import ListNotations.
Open Scope N_scope.

Fixpoint list_eqb (A : Type) (eq : A -> A -> bool) (a b : list A) : bool :=
  match a, b with
  | [], [] => true
  | x :: a', y :: b' => eq x y && list_eqb A eq a' b'
  | _, _ => false
  end.
Arguments list_eqb {A} eq a b.
Definition nl_eqb := list_eqb N.eqb.
Definition opt_eqb (A : Type) (eq : A -> A -> bool) (a b : option A) : bool :=
  match a, b with Some x, Some y => eq x y | None, None => true | _, _ => false end.
Arguments opt_eqb {A} eq a b.

Definition bitmap_eqb (a b : bitmap) : bool :=
  nl_eqb (bm_bits a) (bm_bits b) && nl_eqb (bm_array a) (bm_array b) && (bm_length a =? bm_length b) && (bm_nil a =? bm_nil b).
Definition column_eqb (a b : column) : bool :=
  (c_type a =? c_type b) && nl_eqb (c_floats a) (c_floats b) && nl_eqb (c_ints a) (c_ints b) &&
  nl_eqb (c_strbytes a) (c_strbytes b) && nl_eqb (c_offset a) (c_offset b) && list_eqb Bool.eqb (c_bools a) (c_bools b) &&
  nl_eqb (c_times a) (c_times b) && list_eqb nl_eqb (c_tuples a) (c_tuples b) && opt_eqb bitmap_eqb (c_nils a) (c_nils b).
Definition chunk_eqb (a b : chunk) : bool :=
  nl_eqb (k_name a) (k_name b) && list_eqb nl_eqb (k_tags a) (k_tags b) && nl_eqb (k_tagindex a) (k_tagindex b) &&
  nl_eqb (k_time a) (k_time b) && nl_eqb (k_intervalindex a) (k_intervalindex b) &&
  list_eqb (opt_eqb column_eqb) (k_columns a) (k_columns b) && list_eqb (opt_eqb column_eqb) (k_dims a) (k_dims b).

(* one real chunk: the structure that was marshalled, the real bytes, the structure the real Unmarshal produced *)
Record kcase := { kc_obj : chunk; kc_bytes : bytes; kc_back : chunk }.

(* failure codes:
   10 the real chunk is outside the model's well-formedness (sizes/values that do not fit the wire format)
   11 model encoder output differs from the real bytes
   12 model decoder on the real bytes differs from what the real Unmarshal produced (or leaves bytes over)
   13 the real Unmarshal did not give back the chunk that was marshalled
   14 model Size differs from the real marshalled length *)
Definition check_kcase (c : kcase) : list N :=
  (if wf_chunk (kc_obj c) then [] else [10]) ++
  (if nl_eqb (enc_chunk (kc_obj c)) (kc_bytes c) then [] else [11]) ++
  (match dec_chunk (kc_bytes c) with
   | Some (k, []) => if chunk_eqb k (kc_back c) then [] else [12]
   | _ => [12]
   end) ++
  (if chunk_eqb (kc_obj c) (kc_back c) then [] else [13]) ++
  (if size_chunk (kc_obj c) =? len (kc_bytes c) then [] else [14]).

Fixpoint kmismatches_from (i : N) (cs : list kcase) : list (N * list N) :=
  match cs with
  | [] => []
  | c :: r => match check_kcase c with
              | [] => kmismatches_from (i + 1) r
              | l => (i, l) :: kmismatches_from (i + 1) r
              end
  end.
Definition kmismatches := kmismatches_from 0.
