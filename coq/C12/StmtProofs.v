(* C12 statement model: print / parse theorems for the hand-written statement parser (Stmt.v). *)
From Coq Require Import ZArith NArith List Bool Lia ZifyBool ZifyNat ZifyN.
From OG Require Import C12.Model C12.Proofs C12.ProofsParse C12.Stmt.
Import ListNotations.
Open Scope N_scope.

Lemma skip_ws_idem : forall t, skip_ws (skip_ws t) = skip_ws t.
Proof. induction t as [|x t IH]; [reflexivity|]. destruct x; try reflexivity. exact IH. Qed.

(* the next token is not an operator: the expression parser stops there *)
Definition nonop (t : list token) : bool := match t with TOp _ :: _ => false | _ => true end.

Section ExprInStatement.
Variable prec : op -> N.
Variable isop : op -> bool.
Variable kws : list (str * N).
Variables nr dr : bool.
Notation PU := (parse_unary prec isop).
Notation PE := (parse_expr prec isop).
Notation PL := (parse_loop prec isop).
Notation PT := (print_toks nr dr).
Notation CANON := (canon prec isop kws nr dr).

Lemma follow_items_ws : forall xs r, follow (items_toks nr dr xs ++ TWs :: r) = true.
Proof. intros [|x xs] r; reflexivity. Qed.

Lemma loop_ok_ws : forall xs root f r,
  Forall (fun ob => isop (fst ob) = true /\
                    (if is_regex_op (fst ob) then is_regex (snd ob) = true else unary_ok prec isop nr dr (snd ob))) xs ->
  (sumcost xs + 1 <= f)%nat -> nonop (skip_ws r) = true ->
  PL f root (items_toks nr dr xs ++ TWs :: r) = Some (build prec root xs, skip_ws r).
Proof.
  induction xs as [|[o b] xs IH]; intros root f r Hall Hf Hstop.
  - destruct f as [|f]; [cbn in Hf; lia|]. rewrite PL_S. cbn [items_toks flat_map app build fold_left skip_ws].
    destruct (skip_ws r) as [|t r'] eqn:E; [reflexivity|]. destruct t; try reflexivity. discriminate.
  - inversion Hall as [|? ? [Hop Hb] Hall']; subst. cbn [fst snd] in *.
    cbn [sumcost fold_right snd] in Hf. fold (sumcost xs) in Hf.
    destruct f as [|f]; [lia|].
    cbn [items_toks flat_map fst snd]. fold (items_toks nr dr xs).
    rewrite PL_S. cbn [app skip_ws]. rewrite Hop.
    destruct (is_regex_op o) eqn:Ero.
    + destruct b; try discriminate. cbn [print_toks app skip_ws].
      cbn [build fold_left fst snd]. apply IH; [exact Hall' | cbn [cost] in Hf; lia | exact Hstop].
    + rewrite PU_ws. rewrite <- app_assoc. rewrite Hb; [| lia | apply follow_items_ws].
      cbn [build fold_left fst snd]. apply IH; [exact Hall' | lia | exact Hstop].
Qed.

(* a canonical expression followed by a blank and a token that is not an operator (a keyword, TZ, ...) *)
Lemma expr_ok_ws : forall e f r, CANON false e = true -> (cost e + 2 <= f)%nat -> nonop (skip_ws r) = true ->
  PE f (PT e ++ TWs :: r) = Some (e, skip_ws r).
Proof.
  intros e f r Hc Hf Hstop.
  destruct (main prec isop kws nr dr (size e)) as [HA _].
  pose proof (spine_atoms prec isop kws nr dr e Hc) as [Ha [Hb [Hs Hxs]]].
  pose proof (cost_spine prec isop e) as Hcost.
  pose proof (build_spine prec isop e (canon_pcanon prec isop kws nr dr e false Hc)) as Hbuild.
  rewrite (print_spine nr dr). destruct (spine e) as [a xs]. cbn [fst snd] in *.
  destruct f as [|f]; [lia|]. rewrite PE_S. rewrite <- app_assoc.
  rewrite (HA a Hs false Ha Hb); [| lia | apply follow_items_ws].
  rewrite (loop_ok_ws xs a f r); [rewrite Hbuild; reflexivity | | lia | exact Hstop].
  eapply Forall_impl; [|exact Hxs]. intros [o b] [H1 [H2 [H3 H4]]]. cbn [fst snd] in *. split; [exact H1|].
  destruct (is_regex_op o); [exact H4|].
  apply (HA b ltac:(pose proof (size_pos prec isop e); lia) false H4 H2).
Qed.

(* both endings at once: what may follow an expression inside a statement *)
Definition after_expr (rest : list token) : bool :=
  match rest with
  | [] | TRParen :: _ | TComma :: _ => true
  | TWs :: r => nonop (skip_ws r)
  | _ => false
  end.

Lemma pe_ok : forall e f rest, CANON false e = true -> (cost e + 2 <= f)%nat -> after_expr rest = true ->
  PE f (PT e ++ rest) = Some (e, skip_ws rest).
Proof.
  intros e f rest Hc Hf Hr.
  destruct (main prec isop kws nr dr (size e)) as [_ HB].
  destruct rest as [|t r].
  - rewrite (HB e (le_n _) Hc _ [] Hf eq_refl). reflexivity.
  - destruct t; try discriminate Hr.
    + cbn [after_expr] in Hr. rewrite expr_ok_ws by assumption. reflexivity.
    + rewrite (HB e (le_n _) Hc _ (TRParen :: r) Hf eq_refl). reflexivity.
    + rewrite (HB e (le_n _) Hc _ (TComma :: r) Hf eq_refl). reflexivity.
Qed.

Lemma fuel_enough : forall e pre rest, (cost e + 2 <= parse_fuel (pre ++ PT e ++ rest))%nat.
Proof.
  intros e pre rest. unfold parse_fuel. rewrite !app_length.
  pose proof (cost_le_n prec isop nr dr (size e) e (le_n _)). lia.
Qed.

Lemma pexpr_ok : forall e rest, CANON false e = true -> after_expr rest = true ->
  pexpr prec isop (PT e ++ rest) = Some (e, skip_ws rest).
Proof. intros e rest Hc Hr. unfold pexpr. apply pe_ok; [exact Hc | apply (fuel_enough e []) | exact Hr]. Qed.

(* the same after a leading blank (the parser has just read a keyword) *)
Lemma pexpr_ok_ws : forall e rest, CANON false e = true -> after_expr rest = true ->
  pexpr prec isop (TWs :: PT e ++ rest) = Some (e, skip_ws rest).
Proof.
  intros e rest Hc Hr. unfold pexpr.
  pose proof (fuel_enough e [TWs] rest) as Hf. cbn [app] in Hf.
  destruct (parse_fuel (TWs :: PT e ++ rest)) as [|f] eqn:E; [lia|].
  rewrite PE_S, PU_ws, <- PE_S. apply pe_ok; [exact Hc | lia | exact Hr].
Qed.

End ExprInStatement.

(* ------------------------------------------------------------------ the statement parser *)
Lemma sep_toks_cons : forall (A : Type) (f : A -> list token) (a : A) (l : list A),
  sep_toks f (a :: l) = f a ++ flat_map (fun x => TComma :: TWs :: f x) l.
Proof.
  intros A f a l. revert a. induction l as [|b l IH]; intro a.
  - cbn [sep_toks flat_map]. rewrite app_nil_r. reflexivity.
  - change (sep_toks f (a :: b :: l)) with (f a ++ TComma :: TWs :: sep_toks f (b :: l)). rewrite IH. reflexivity.
Qed.

Definition hd_is_comma (t : list token) : bool := match t with TComma :: _ => true | _ => false end.
Definition hd_kw (t : list token) : option N := match t with TKeyword c :: _ => Some c | _ => None end.

Section StatementParser.
Variable prec : op -> N.
Variable isop : op -> bool.
Variable kws : list (str * N).
Variable K : kwid -> N.
Variables nr dr : bool.
Hypothesis Kinj : forall a b, K a = K b -> a = b.
Notation PT := (print_toks nr dr).
Notation CANON := (canon prec isop kws nr dr).

Ltac kne := apply N.eqb_neq; let HK := fresh in intro HK; apply Kinj in HK; discriminate.

(* ---- sort fields: ParseSortFields (SortFields.String()) *)
Lemma sort_field_ok : forall sf R, parse_sort_field K (TWs :: sort_toks K sf ++ R) = Some (sf, R) /\
                                   parse_sort_field K (sort_toks K sf ++ R) = Some (sf, R).
Proof.
  intros [n b] R. unfold sort_toks, parse_sort_field, asc_desc, kw. cbn [fst snd app skip_ws].
  destruct b.
  - rewrite N.eqb_refl. split; reflexivity.
  - assert (E : (K KDesc =? K KAsc) = false) by kne. rewrite E, N.eqb_refl. split; reflexivity.
Qed.

Lemma more_sort_ok : forall l R f, (length l < f)%nat -> hd_is_comma (skip_ws R) = false ->
  parse_more_sort K f (flat_map (fun x => TComma :: TWs :: sort_toks K x) l ++ R) = Some (l, skip_ws R).
Proof.
  induction l as [|a l IH]; intros R f Hf Hc; (destruct f as [|f]; [cbn in Hf; lia|]).
  - cbn [flat_map app parse_more_sort]. destruct (skip_ws R) as [|t r]; [reflexivity|]. destruct t; try reflexivity. discriminate.
  - cbn [flat_map parse_more_sort app skip_ws]. rewrite <- app_assoc.
    destruct (sort_field_ok a (flat_map (fun x => TComma :: TWs :: sort_toks K x) l ++ R)) as [E _]. rewrite E.
    rewrite IH; [reflexivity | cbn [length] in Hf; lia | exact Hc].
Qed.

Theorem sort_fields_roundtrip : forall sl R, sl <> [] -> hd_is_comma (skip_ws R) = false ->
  parse_sort_fields K (length sl) (sep_toks (sort_toks K) sl ++ R) = Some (sl, skip_ws R).
Proof.
  intros [|a l] R Hne Hc; [congruence|]. rewrite sep_toks_cons, <- app_assoc.
  unfold parse_sort_fields.
  assert (Hhd : skip_ws (sort_toks K a ++ flat_map (fun x => TComma :: TWs :: sort_toks K x) l ++ R) =
                sort_toks K a ++ flat_map (fun x => TComma :: TWs :: sort_toks K x) l ++ R) by reflexivity.
  rewrite Hhd. unfold sort_toks at 1. cbn [app].
  change (TIdent (fst a) :: TWs :: kw (if snd a then K KAsc else K KDesc) :: flat_map (fun x => TComma :: TWs :: sort_toks K x) l ++ R)
    with (sort_toks K a ++ flat_map (fun x => TComma :: TWs :: sort_toks K x) l ++ R).
  destruct (sort_field_ok a (flat_map (fun x => TComma :: TWs :: sort_toks K x) l ++ R)) as [_ E]. rewrite E.
  rewrite more_sort_ok; [reflexivity | cbn [length]; lia | exact Hc].
Qed.

(* ---- optional LIMIT / OFFSET / SLIMIT / SOFFSET *)
Lemma opt_int_ok : forall k n R, n <= max_int64 -> hd_kw (skip_ws R) <> Some (K k) ->
  parse_opt_int (K k) (opt_int_toks (K k) n ++ R) = Some (n, skip_ws R) \/
  (n <> 0 /\ parse_opt_int (K k) (opt_int_toks (K k) n ++ R) = Some (n, R)).
Proof.
  intros k n R Hn Hk. unfold opt_int_toks. destruct (n =? 0) eqn:E.
  - left. apply N.eqb_eq in E. subst n. cbn [app]. unfold parse_opt_int.
    destruct (skip_ws R) as [|t r] eqn:ER; [reflexivity|]. destruct t; try reflexivity.
    cbn [hd_kw] in Hk. assert (E2 : (code =? K k) = false) by (apply N.eqb_neq; congruence). rewrite E2. reflexivity.
  - right. split; [apply N.eqb_neq; exact E|]. cbn [app]. unfold parse_opt_int, kw. cbn [skip_ws]. rewrite N.eqb_refl.
    rewrite digits_roundtrip. apply N.leb_le in Hn. rewrite Hn. reflexivity.
Qed.

(* ---- measurement sources: ParseSource (Measurement.String()) *)
Definition canon_mst (db rp name : str) (re : option str) : bool :=
  match name, re with
  | _ :: _, None => true
  | [], Some _ => true
  | _, _ => false
  end.

(* what may follow a source: end, `)`, `,` or a blank *)
Definition after_source (R : list token) : bool :=
  match R with [] | TRParen :: _ | TComma :: _ | TWs :: _ => true | _ => false end.
Definition no_regex_next (R : list token) : bool := match skip_ws R with TRegex _ :: _ => false | _ => true end.

Lemma parse_source_S : forall f toks,
  parse_source prec isop K (S f) toks =
  match regex_first toks with
  | Some (s, r) => Some (SMst [] [] [] (Some s), r)
  | None =>
    match skip_ws toks with
    | TLParen :: r =>
        match skip_ws r with
        | TKeyword c :: r1 =>
            if c =? K KSelect then
              match parse_stmt prec isop K f r1 with
              | Some (st, r2) => sub_after K st r2
              | None => None
              end
            else None
        | _ => None
        end
    | _ => parse_mst toks
    end
  end.
Proof. reflexivity. Qed.

Lemma ms_dot_ident : forall n acc s r, more_segments (S n) acc (TDot :: TIdent s :: r) = more_segments n (acc ++ [s]) r.
Proof. reflexivity. Qed.
Lemma ms_dot_dot : forall n acc r, more_segments (S n) acc (TDot :: TDot :: r) = more_segments n (acc ++ [[]]) (TDot :: r).
Proof. reflexivity. Qed.
Lemma ms_dot_regex : forall n acc s r, more_segments (S n) acc (TDot :: TRegex s :: r) = Some (acc, TRegex s :: r).
Proof. reflexivity. Qed.

Lemma mst_roundtrip : forall db rp name re R f,
  canon_mst db rp name re = true -> after_source R = true -> no_regex_next R = true ->
  parse_source prec isop K (S f) (mst_toks db rp name re ++ R) = Some (SMst db rp name re, R).
Proof.
  intros db rp name re R f Hc HR Hn. unfold canon_mst in Hc. rewrite parse_source_S.
  assert (HRdot : forall n acc, more_segments (S n) acc R = Some (acc, R)).
  { intros n acc. destruct R as [|t r]; [reflexivity|]. destruct t; try discriminate HR; reflexivity. }
  assert (HRre : regex_first R = None).
  { unfold regex_first. unfold no_regex_next in Hn. destruct (skip_ws R) as [|t r]; [reflexivity|]. destruct t; try reflexivity. discriminate. }
  destruct name as [|c nm]; destruct re as [r0|]; try discriminate Hc;
    destruct db as [|d db']; destruct rp as [|p rp']; cbn [mst_toks app regex_first skip_ws]; try reflexivity;
    unfold parse_mst, segmented_idents; cbn [skip_ws];
    repeat (rewrite ms_dot_ident || rewrite ms_dot_dot || rewrite ms_dot_regex);
    try rewrite HRdot; cbn [app length Nat.leb regex_first skip_ws]; try rewrite HRre; reflexivity.
Qed.

(* ---- select list: parseFields / parseField / parseAlias *)
Definition canon_field (fa : expr * str) : bool :=
  is_regex (fst fa) || (CANON false (fst fa) && field_ops_ok (fst fa)).
Definition after_field (R : list token) : bool :=
  match R with
  | TComma :: _ => true
  | TWs :: TKeyword c :: _ => negb (c =? K KAs)
  | _ => false
  end.

Lemma regex_first_head_ok : forall T, head_ok T = true -> regex_first T = None /\ regex_first (TWs :: T) = None.
Proof. intros [|t T] H; [discriminate|]. destruct t; try discriminate; split; reflexivity. Qed.

Lemma alias_none : forall R, after_field R = true -> parse_alias K R = Some ([], skip_ws R).
Proof.
  intros R HR. unfold parse_alias. destruct R as [|t r]; [discriminate|]. destruct t; try discriminate HR.
  - destruct r as [|t2 r2]; [discriminate|]. destruct t2; try discriminate HR. cbn [after_field] in HR.
    cbn [skip_ws]. apply negb_true_iff in HR. rewrite HR. reflexivity.
  - reflexivity.
Qed.
Lemma alias_some : forall al R, (parse_alias K (kw (K KAs) :: TWs :: TIdent al :: R) = Some (al, R)) /\
    (parse_alias K (TWs :: kw (K KAs) :: TWs :: TIdent al :: R) = Some (al, R)).
Proof. intros al R. unfold parse_alias, kw. cbn [skip_ws]. rewrite N.eqb_refl. split; reflexivity. Qed.

Lemma after_field_expr : forall R, after_field R = true -> after_expr R = true.
Proof.
  intros R HR. destruct R as [|t r]; [discriminate|]. destruct t; try discriminate HR; try reflexivity.
  destruct r as [|t2 r2]; [discriminate|]. destruct t2; try discriminate HR. reflexivity.
Qed.

Lemma field_ok : forall fa R, canon_field fa = true -> after_field R = true ->
  parse_field prec isop K (field_toks K nr dr fa ++ R) = Some (fa, skip_ws R) /\
  parse_field prec isop K (TWs :: field_toks K nr dr fa ++ R) = Some (fa, skip_ws R).
Proof.
  intros [e al] R Hc HR. unfold canon_field in Hc. cbn [fst snd] in Hc. unfold field_toks. cbn [fst snd].
  destruct (is_regex e) eqn:Er.
  - destruct e; try discriminate Er. cbn [print_toks app]. unfold parse_field. cbn [regex_first skip_ws].
    destruct al as [|x a]; cbn [app].
    + rewrite (alias_none R HR), skip_ws_idem. split; reflexivity.
    + destruct (alias_some (x :: a) R) as [_ E]. rewrite E. split; reflexivity.
  - cbn [orb] in Hc. apply andb_prop in Hc. destruct Hc as [Hce Hops].
    destruct al as [|x a].
    + cbn [app]. rewrite app_nil_r.
      pose proof (head_ok_print prec isop kws nr dr e R Hce) as Hh.
      destruct (regex_first_head_ok _ Hh) as [R1 R2].
      unfold parse_field. rewrite R1, R2.
      rewrite (pexpr_ok prec isop kws nr dr e R Hce (after_field_expr R HR)),
              (pexpr_ok_ws prec isop kws nr dr e R Hce (after_field_expr R HR)). rewrite Hops.
      assert (HP : parse_alias K (skip_ws R) = Some ([], skip_ws R)).
      { pose proof (alias_none R HR) as H0. unfold parse_alias in *. rewrite skip_ws_idem. exact H0. }
      rewrite HP, skip_ws_idem. split; reflexivity.
    + rewrite <- app_assoc. cbn [app]. unfold kw.
      set (X := TWs :: TKeyword (K KAs) :: TWs :: TIdent (x :: a) :: R).
      pose proof (head_ok_print prec isop kws nr dr e X Hce) as Hh.
      destruct (regex_first_head_ok _ Hh) as [R1 R2].
      unfold parse_field. rewrite R1, R2.
      rewrite (pexpr_ok prec isop kws nr dr e X Hce eq_refl), (pexpr_ok_ws prec isop kws nr dr e X Hce eq_refl). rewrite Hops.
      subst X. cbn [skip_ws]. destruct (alias_some (x :: a) R) as [E _]. unfold kw in E. rewrite E. split; reflexivity.
Qed.

Lemma from_not_as : (K KFrom =? K KAs) = false.
Proof. kne. Qed.

Lemma fields_ok : forall fl r f, fl <> [] -> forallb canon_field fl = true -> (length fl <= f)%nat ->
  let R := TWs :: TKeyword (K KFrom) :: r in
  parse_fields prec isop K f (sep_toks (field_toks K nr dr) fl ++ R) = Some (fl, skip_ws R) /\
  parse_fields prec isop K f (TWs :: sep_toks (field_toks K nr dr) fl ++ R) = Some (fl, skip_ws R).
Proof.
  induction fl as [|a l IH]; intros r f Hne Hc Hf R; [congruence|].
  cbn [forallb] in Hc. apply andb_prop in Hc. destruct Hc as [Ha Hl].
  destruct f as [|f]; [cbn in Hf; lia|].
  assert (HRf : after_field R = true) by (subst R; cbn [after_field]; rewrite from_not_as; reflexivity).
  destruct l as [|b l'].
  - cbn [sep_toks parse_fields]. destruct (field_ok a R Ha HRf) as [E1 E2]. rewrite E1, E2. subst R. cbn [skip_ws]. split; reflexivity.
  - change (sep_toks (field_toks K nr dr) (a :: b :: l')) with
      (field_toks K nr dr a ++ TComma :: TWs :: sep_toks (field_toks K nr dr) (b :: l')).
    rewrite <- app_assoc. cbn [app parse_fields].
    destruct (field_ok a (TComma :: TWs :: sep_toks (field_toks K nr dr) (b :: l') ++ R) Ha eq_refl) as [E1 E2].
    rewrite E1, E2. cbn [skip_ws].
    destruct (IH r f ltac:(discriminate) Hl ltac:(cbn [length] in *; lia)) as [_ I2]. fold R in I2. rewrite I2. split; reflexivity.
Qed.

(* ---- what follows a clause of a statement: the end, a closing parenthesis, a later clause *)
Inductive tl (ks : list kwid) : list token -> Prop :=
| tl_nil : tl ks []
| tl_par : forall r, tl ks (TRParen :: r)
| tl_kw : forall k r, In k ks -> tl ks (TWs :: TKeyword (K k) :: r)
| tl_tz : forall r, tl ks (TWs :: TIdent s_TZ :: TLParen :: r).

Lemma tl_mono : forall ks ks' R, tl ks R -> incl ks ks' -> tl ks' R.
Proof. intros ks ks' R H Hi. destruct H; constructor. apply Hi. assumption. Qed.
Lemma tl_after_expr : forall ks R, tl ks R -> after_expr R = true.
Proof. intros ks R H. destruct H; reflexivity. Qed.
Lemma tl_no_comma : forall ks R, tl ks R -> hd_is_comma (skip_ws R) = false /\ hd_is_comma R = false.
Proof. intros ks R H. destruct H; split; reflexivity. Qed.
Lemma tl_not_kw : forall ks R k, tl ks R -> ~ In k ks -> hd_kw (skip_ws R) <> Some (K k).
Proof.
  intros ks R k H Hn. destruct H; cbn [skip_ws hd_kw]; try discriminate.
  intro E. inversion E as [E']. apply Kinj in E'. subst. contradiction.
Qed.
Lemma tl_skip : forall ks R, tl ks R -> skip_ws (skip_ws R) = skip_ws R.
Proof. intros. apply skip_ws_idem. Qed.

(* a clause that is absent: the parser looks at the next keyword and leaves it *)
Lemma absent_kw : forall (A : Type) (k : kwid) (R : list token) (yes : list token -> option (A * list token)) (dflt : A),
  hd_kw (skip_ws R) <> Some (K k) ->
  match skip_ws R with
  | TKeyword c :: r => if c =? K k then yes r else Some (dflt, skip_ws R)
  | _ => Some (dflt, skip_ws R)
  end = Some (dflt, skip_ws R).
Proof.
  intros A k R yes dflt H. destruct (skip_ws R) as [|t r]; [reflexivity|]. destruct t; try reflexivity.
  cbn [hd_kw] in H. assert (E : (code =? K k) = false) by (apply N.eqb_neq; congruence). rewrite E. reflexivity.
Qed.

(* ---- WHERE *)
Definition cond_toks (c : option expr) : list token :=
  match c with Some e => TWs :: kw (K KWhere) :: TWs :: PT e | None => [] end.
Lemma cond_ok : forall c ks R, tl ks R -> ~ In KWhere ks ->
  match c with Some e => CANON false e = true | None => True end ->
  parse_condition prec isop K (cond_toks c ++ R) = Some (c, skip_ws R).
Proof.
  intros c ks R HR Hn Hc. unfold parse_condition. destruct c as [e|]; cbn [cond_toks app].
  - unfold kw. cbn [skip_ws]. rewrite N.eqb_refl.
    rewrite (pexpr_ok_ws prec isop kws nr dr e R Hc (tl_after_expr ks R HR)). reflexivity.
  - apply (absent_kw _ KWhere R (fun r => match pexpr prec isop r with Some (e, r') => Some (Some e, r') | None => None end) None).
    apply (tl_not_kw ks); assumption.
Qed.

(* ---- GROUP BY *)
Definition canon_dim (d : expr) : bool := is_regex d || CANON false d.
Definition dims_toks (dims : list expr) : list token :=
  match dims with [] => [] | _ => TWs :: kw (K KGroup) :: TWs :: kw (K KBy) :: TWs :: sep_toks PT dims end.

Lemma dim_ok : forall d R, canon_dim d = true -> after_expr R = true -> hd_is_comma R = hd_is_comma (skip_ws R) ->
  parse_dimension prec isop (TWs :: PT d ++ R) = Some (d, if is_regex d then R else skip_ws R).
Proof.
  intros d R Hc HR _. unfold canon_dim in Hc. unfold parse_dimension. destruct (is_regex d) eqn:Er.
  - destruct d; try discriminate Er. reflexivity.
  - cbn [orb] in Hc. pose proof (head_ok_print prec isop kws nr dr d R Hc) as Hh.
    destruct (regex_first_head_ok _ Hh) as [_ R2]. rewrite R2.
    rewrite (pexpr_ok_ws prec isop kws nr dr d R Hc HR). rewrite skip_ws_idem. reflexivity.
Qed.

Lemma dim_list_ok : forall dl ks R f, dl <> [] -> forallb canon_dim dl = true -> tl ks R -> (length dl <= f)%nat ->
  exists R', parse_dim_list prec isop f (TWs :: sep_toks PT dl ++ R) = Some (dl, R') /\ skip_ws R' = skip_ws R.
Proof.
  induction dl as [|a l IH]; intros ks R f Hne Hc HR Hf; [congruence|].
  cbn [forallb] in Hc. apply andb_prop in Hc. destruct Hc as [Ha Hl].
  destruct f as [|f]; [cbn in Hf; lia|].
  destruct l as [|b l'].
  - cbn [sep_toks parse_dim_list].
    rewrite (dim_ok a R Ha (tl_after_expr ks R HR)) by (destruct HR; reflexivity).
    destruct (tl_no_comma ks R HR) as [N1 N2].
    remember (if is_regex a then R else skip_ws R) as R' eqn:ER'.
    assert (H1 : hd_is_comma R' = false) by (subst R'; destruct (is_regex a); assumption).
    assert (H2 : skip_ws R' = skip_ws R) by (subst R'; destruct (is_regex a); [reflexivity | apply skip_ws_idem]).
    exists R'. split; [|exact H2].
    destruct R' as [|t r]; [reflexivity|]. destruct t; try reflexivity. discriminate H1.
  - change (sep_toks PT (a :: b :: l')) with (PT a ++ TComma :: TWs :: sep_toks PT (b :: l')).
    rewrite <- app_assoc. cbn [app parse_dim_list].
    rewrite (dim_ok a (TComma :: TWs :: sep_toks PT (b :: l') ++ R) Ha eq_refl eq_refl).
    assert (E : (if is_regex a then TComma :: TWs :: sep_toks PT (b :: l') ++ R
                 else skip_ws (TComma :: TWs :: sep_toks PT (b :: l') ++ R)) = TComma :: TWs :: sep_toks PT (b :: l') ++ R)
      by (destruct (is_regex a); reflexivity).
    rewrite E.
    destruct (IH ks R f ltac:(discriminate) Hl HR ltac:(cbn [length] in *; lia)) as [R' [I1 I2]].
    rewrite I1. exists R'. split; [reflexivity | exact I2].
Qed.

Lemma by_not_group : (K KBy =? K KGroup) = false. Proof. kne. Qed.

Lemma dims_ok : forall dl ks R f, forallb canon_dim dl = true -> tl ks R -> ~ In KGroup ks -> (length dl <= f)%nat ->
  exists R', parse_dimensions prec isop K f (dims_toks dl ++ R) = Some (dl, R') /\ skip_ws R' = skip_ws R.
Proof.
  intros dl ks R f Hc HR Hn Hf. unfold parse_dimensions. destruct dl as [|a l].
  - cbn [dims_toks app]. exists (skip_ws R). split; [|apply skip_ws_idem].
    apply (absent_kw _ KGroup R (fun r => match skip_ws r with
                                          | TKeyword c2 :: r' => if c2 =? K KBy then parse_dim_list prec isop f r' else None
                                          | _ => None end) []).
    apply (tl_not_kw ks); assumption.
  - unfold dims_toks, kw. cbn [app skip_ws]. rewrite !N.eqb_refl.
    apply (dim_list_ok (a :: l) ks R f); [discriminate | exact Hc | exact HR | exact Hf].
Qed.

(* ---- fill *)
Definition canon_fill (fl : fillopt) : bool :=
  match fl with
  | FNumber v => (match v with EInt _ | ENum _ _ _ => true | _ => false end) && canon prec isop kws false dr false v
  | _ => true
  end.

Lemma fill_word : forall w ks R, tl ks R -> canon prec isop kws false dr false (EVar w DUnknown) = true ->
  pexpr prec isop (TIdent w :: TRParen :: R) = Some (EVar w DUnknown, TRParen :: R).
Proof.
  intros w ks R HR Hc.
  exact (pexpr_ok prec isop kws false dr (EVar w DUnknown) (TRParen :: R) Hc eq_refl).
Qed.

Lemma fill_ok : forall fl ks R, tl ks R -> ~ In KFill ks -> canon_fill fl = true ->
  exists R', parse_fill prec isop K (fill_toks K dr fl ++ R) = Some (fl, R') /\ skip_ws R' = skip_ws R.
Proof.
  intros fl ks R HR Hn Hc. unfold parse_fill.
  destruct fl as [| | | |v]; cbn [fill_toks app]; unfold kw; cbn [skip_ws]; try rewrite N.eqb_refl.
  - exists (skip_ws R). split; [|apply skip_ws_idem].
    apply (absent_kw _ KFill R (fun r => match skip_ws r with
        | TLParen :: r1 => match pexpr prec isop r1 with
            | Some (a, r2) => match skip_ws r2 with
                | TRParen :: r3 => match a with
                    | EVar n DUnknown => if str_eqb n s_null then Some (FNull, r3) else if str_eqb n s_none then Some (FNone, r3)
                                         else if str_eqb n s_previous then Some (FPrev, r3) else if str_eqb n s_linear then Some (FLinear, r3) else None
                    | EInt _ | ENum _ _ _ | ESpecial _ => Some (FNumber a, r3)
                    | _ => None end
                | _ => None end
            | None => None end
        | _ => None end) FNull).
    apply (tl_not_kw ks); assumption.
  - rewrite (fill_word s_none ks R HR eq_refl). exists R. split; reflexivity.
  - rewrite (fill_word s_previous ks R HR eq_refl). exists R. split; reflexivity.
  - rewrite (fill_word s_linear ks R HR eq_refl). exists R. split; reflexivity.
  - cbn [canon_fill] in Hc. apply andb_prop in Hc. destruct Hc as [Hv Hcv].
    rewrite <- app_assoc. cbn [app].
    rewrite (pexpr_ok prec isop kws false dr v (TRParen :: R) Hcv eq_refl). cbn [skip_ws].
    exists R. destruct v; try discriminate Hv; split; reflexivity.
Qed.

(* ---- ORDER BY *)
Definition order_toks (sl : list (str * bool)) : list token :=
  match sl with [] => [] | _ => TWs :: kw (K KOrder) :: TWs :: kw (K KBy) :: TWs :: sep_toks (sort_toks K) sl end.

Lemma sort_fields_roundtrip_ws : forall sl R f, sl <> [] -> hd_is_comma (skip_ws R) = false -> (length sl <= f)%nat ->
  parse_sort_fields K f (TWs :: sep_toks (sort_toks K) sl ++ R) = Some (sl, skip_ws R).
Proof.
  intros [|a l] R f Hne Hc Hf; [congruence|]. rewrite sep_toks_cons, <- app_assoc.
  unfold parse_sort_fields. cbn [skip_ws]. unfold sort_toks at 1. cbn [app].
  change (TWs :: TIdent (fst a) :: TWs :: kw (if snd a then K KAsc else K KDesc) :: flat_map (fun x => TComma :: TWs :: sort_toks K x) l ++ R)
    with (TWs :: sort_toks K a ++ flat_map (fun x => TComma :: TWs :: sort_toks K x) l ++ R).
  destruct (sort_field_ok a (flat_map (fun x => TComma :: TWs :: sort_toks K x) l ++ R)) as [E _]. rewrite E.
  rewrite more_sort_ok; [reflexivity | cbn [length] in Hf; lia | exact Hc].
Qed.

Lemma order_ok : forall sl ks R f, tl ks R -> ~ In KOrder ks -> (length sl <= f)%nat ->
  parse_order_by K f (order_toks sl ++ R) = Some (sl, skip_ws R).
Proof.
  intros sl ks R f HR Hn Hf. unfold parse_order_by. destruct sl as [|a l].
  - cbn [order_toks app].
    apply (absent_kw _ KOrder R (fun r => match skip_ws r with
                                          | TKeyword c2 :: r' => if c2 =? K KBy then parse_sort_fields K f r' else None
                                          | _ => None end) []).
    apply (tl_not_kw ks); assumption.
  - unfold order_toks, kw. cbn [app skip_ws]. rewrite !N.eqb_refl.
    apply sort_fields_roundtrip_ws; [discriminate | apply (tl_no_comma ks R HR) | exact Hf].
Qed.

(* ---- TZ('...') *)
Definition tz_toks (tz : option str) : list token :=
  match tz with Some z => [TWs; TIdent s_TZ; TLParen; TString z; TRParen] | None => [] end.

Lemma loc_ok : forall tz R, (R = [] \/ exists r, R = TRParen :: r) ->
  parse_location prec isop (tz_toks tz ++ R) = Some (tz, skip_ws R).
Proof.
  intros tz R HR. unfold parse_location. destruct tz as [z|]; cbn [tz_toks app skip_ws].
  - change (str_eqb (lower s_TZ) s_tz) with true. cbv iota.
    unfold pexpr. destruct HR as [HR|[r HR]]; subst R; reflexivity.
  - destruct HR as [HR|[r HR]]; subst R; reflexivity.
Qed.

(* ---- sources, sub-queries, statements *)
Definition srcs_toks := fix go (l : list source) : list token :=
  match l with
  | [] => []
  | [a] => source_toks K nr dr a
  | a :: r => source_toks K nr dr a ++ TComma :: TWs :: go r
  end.

Definition tail_toks (cond : option expr) (dims : list expr) (fl : fillopt) (sort : list (str * bool))
                     (limit offset slimit soffset : N) (tz : option str) : list token :=
  cond_toks cond ++ dims_toks dims ++ fill_toks K dr fl ++ order_toks sort ++
  opt_int_toks (K KLimit) limit ++ opt_int_toks (K KOffset) offset ++
  opt_int_toks (K KSlimit) slimit ++ opt_int_toks (K KSoffset) soffset ++ tz_toks tz.

Lemma stmt_toks_shape : forall fields sources cond dims fl sort limit offset slimit soffset tz,
  sources <> [] ->
  stmt_toks K nr dr (Stmt fields sources cond dims fl sort limit offset slimit soffset tz) =
  kw (K KSelect) :: TWs :: sep_toks (field_toks K nr dr) fields ++
  TWs :: kw (K KFrom) :: TWs :: srcs_toks sources ++ tail_toks cond dims fl sort limit offset slimit soffset tz.
Proof.
  intros fields sources cond dims fl sort limit offset slimit soffset tz Hne.
  destruct sources as [|a l]; [congruence|].
  unfold tail_toks, cond_toks, dims_toks, order_toks, tz_toks. cbn [stmt_toks]. fold srcs_toks.
  repeat rewrite <- app_assoc. cbn [app]. reflexivity.
Qed.

Fixpoint need_src (s : source) : nat :=
  match s with
  | SMst _ _ _ _ => 1
  | SSub st _ => S (need_stmt st)
  end
with need_stmt (s : stmt) : nat :=
  match s with
  | Stmt fields sources _ dims _ sort _ _ _ _ _ =>
      S (length fields + length dims + length sort +
         (fix go (l : list source) : nat := match l with [] => O | a :: r => S (need_src a + go r) end) sources)
  end.
Definition need_srcs := fix go (l : list source) : nat := match l with [] => O | a :: r => S (need_src a + go r) end.

Fixpoint canon_source (s : source) : bool :=
  match s with
  | SMst db rp name re => canon_mst db rp name re
  | SSub st _ => canon_stmt st
  end
with canon_stmt (s : stmt) : bool :=
  match s with
  | Stmt fields sources cond dims fl sort limit offset slimit soffset tz =>
      match fields with [] => false | _ => true end && forallb canon_field fields &&
      match sources with [] => false | _ => true end &&
      (fix go (l : list source) : bool := match l with [] => true | a :: r => canon_source a && go r end) sources &&
      match cond with Some c => CANON false c | None => true end &&
      forallb canon_dim dims && canon_fill fl &&
      (limit <=? max_int64) && (offset <=? max_int64) && (slimit <=? max_int64) && (soffset <=? max_int64)
  end.
Definition canon_srcs := fix go (l : list source) : bool := match l with [] => true | a :: r => canon_source a && go r end.

(* what follows a source inside a FROM list: the next source, or the rest of the statement *)
Inductive after_src : list token -> Prop :=
| as_comma : forall r, after_src (TComma :: r)
| as_tail : forall ks R, tl ks R -> ~ In KAs ks -> after_src R.

Lemma after_src_facts : forall R, after_src R -> after_source R = true /\ no_regex_next R = true /\ hd_kw (skip_ws R) <> Some (K KAs).
Proof.
  intros R H. destruct H as [r|ks R HR Hn].
  - repeat split; try reflexivity. discriminate.
  - repeat split.
    + destruct HR; reflexivity.
    + destruct HR; reflexivity.
    + apply (tl_not_kw ks); assumption.
Qed.

Lemma parse_source_ws : forall f T, parse_source prec isop K f (TWs :: T) = parse_source prec isop K f T.
Proof. intros [|f] T; reflexivity. Qed.

Definition P_src (src : source) : Prop :=
  canon_source src = true -> forall f R, (need_src src <= f)%nat -> after_src R ->
  exists R', parse_source prec isop K f (source_toks K nr dr src ++ R) = Some (src, R') /\ skip_ws R' = skip_ws R.
Definition P_stmt (st : stmt) : Prop :=
  canon_stmt st = true -> forall f X, (need_stmt st <= f)%nat -> (X = [] \/ exists r, X = TRParen :: r) ->
  match stmt_toks K nr dr st with
  | _ :: body => parse_stmt prec isop K f (body ++ X) = Some (st, X)
  | [] => False
  end.

Lemma sources_ok : forall l f R ks, (forall a, In a l -> P_src a) -> l <> [] -> canon_srcs l = true ->
  (need_srcs l <= f)%nat -> tl ks R -> ~ In KAs ks ->
  parse_sources prec isop K f (TWs :: srcs_toks l ++ R) = Some (l, skip_ws R).
Proof.
  induction l as [|a l IH]; intros f R ks HP Hne Hc Hf HR Hn; [congruence|].
  cbn [canon_srcs] in Hc. apply andb_prop in Hc. destruct Hc as [Ha Hl].
  cbn [need_srcs] in Hf. fold need_srcs in Hf.
  destruct f as [|f]; [lia|]. cbn [parse_sources]. rewrite parse_source_ws.
  destruct l as [|b l'].
  - cbn [srcs_toks].
    destruct (HP a (or_introl eq_refl) Ha f R ltac:(lia) (as_tail ks R HR Hn)) as [R' [E1 E2]]. rewrite E1, E2.
    destruct (tl_no_comma ks R HR) as [N1 _].
    destruct (skip_ws R) as [|t r]; [reflexivity|]. destruct t; try reflexivity. discriminate N1.
  - change (srcs_toks (a :: b :: l')) with (source_toks K nr dr a ++ TComma :: TWs :: srcs_toks (b :: l')).
    rewrite <- app_assoc. cbn [app].
    destruct (HP a (or_introl eq_refl) Ha f (TComma :: TWs :: srcs_toks (b :: l') ++ R) ltac:(lia) (as_comma _)) as [R' [E1 E2]].
    rewrite E1, E2. cbn [app skip_ws].
    rewrite (IH f R ks); [reflexivity | intros x Hx; apply HP; right; exact Hx | discriminate | exact Hl | lia | exact HR | exact Hn].
Qed.

(* the optional clauses look only at the tokens after the blanks *)
Lemma cond_skip : forall T, parse_condition prec isop K (skip_ws T) = parse_condition prec isop K T.
Proof. intro T. unfold parse_condition. rewrite skip_ws_idem. reflexivity. Qed.
Lemma dims_skip : forall f T, parse_dimensions prec isop K f (skip_ws T) = parse_dimensions prec isop K f T.
Proof. intros f T. unfold parse_dimensions. rewrite skip_ws_idem. reflexivity. Qed.
Lemma fill_skip : forall T, parse_fill prec isop K (skip_ws T) = parse_fill prec isop K T.
Proof. intro T. unfold parse_fill. rewrite skip_ws_idem. reflexivity. Qed.
Lemma order_skip : forall f T, parse_order_by K f (skip_ws T) = parse_order_by K f T.
Proof. intros f T. unfold parse_order_by. rewrite skip_ws_idem. reflexivity. Qed.
Lemma optint_skip : forall c T, parse_opt_int c (skip_ws T) = parse_opt_int c T.
Proof. intros c T. unfold parse_opt_int. rewrite skip_ws_idem. reflexivity. Qed.
Lemma loc_skip : forall T, parse_location prec isop (skip_ws T) = parse_location prec isop T.
Proof. intro T. unfold parse_location. rewrite skip_ws_idem. reflexivity. Qed.

(* ---- the clauses after the sources, in order *)
Lemma parse_stmt_S : forall f toks,
  parse_stmt prec isop K (S f) toks =
  match parse_fields prec isop K (S f) toks with
  | Some (fields, r0) =>
      match skip_ws r0 with
      | TKeyword c :: r1 =>
          if c =? K KFrom then
            match parse_sources prec isop K f r1 with
            | Some (sources, r2) => parse_tail prec isop K (S f) fields sources r2
            | None => None
            end
          else None
      | _ => None
      end
  | None => None
  end.
Proof. reflexivity. Qed.

Lemma opt_int_ok' : forall k n R, n <= max_int64 -> hd_kw (skip_ws R) <> Some (K k) ->
  exists R', parse_opt_int (K k) (opt_int_toks (K k) n ++ R) = Some (n, R') /\ skip_ws R' = skip_ws R.
Proof.
  intros k n R Hn Hk. destruct (opt_int_ok k n R Hn Hk) as [E|[_ E]].
  - exists (skip_ws R). split; [exact E | apply skip_ws_idem].
  - exists R. split; [exact E | reflexivity].
Qed.

Lemma tl_opt_int : forall k ks n R, tl ks R -> tl (k :: ks) (opt_int_toks (K k) n ++ R).
Proof.
  intros k ks n R H. unfold opt_int_toks. destruct (n =? 0); cbn [app].
  - apply (tl_mono ks); [exact H | intros x Hx; right; exact Hx].
  - apply tl_kw. left. reflexivity.
Qed.
Lemma tl_order : forall ks sl R, tl ks R -> tl (KOrder :: ks) (order_toks sl ++ R).
Proof.
  intros ks sl R H. destruct sl; cbn [order_toks app].
  - apply (tl_mono ks); [exact H | intros x Hx; right; exact Hx].
  - apply tl_kw. left. reflexivity.
Qed.
Lemma tl_fill : forall ks fl R, tl ks R -> tl (KFill :: ks) (fill_toks K dr fl ++ R).
Proof.
  intros ks fl R H. destruct fl; cbn [fill_toks app]; try (apply tl_kw; left; reflexivity).
  apply (tl_mono ks); [exact H | intros x Hx; right; exact Hx].
Qed.
Lemma tl_dims : forall ks dl R, tl ks R -> tl (KGroup :: ks) (dims_toks dl ++ R).
Proof.
  intros ks dl R H. destruct dl; cbn [dims_toks app].
  - apply (tl_mono ks); [exact H | intros x Hx; right; exact Hx].
  - apply tl_kw. left. reflexivity.
Qed.
Lemma tl_cond : forall ks c R, tl ks R -> tl (KWhere :: ks) (cond_toks c ++ R).
Proof.
  intros ks c R H. destruct c; cbn [cond_toks app].
  - apply tl_kw. left. reflexivity.
  - apply (tl_mono ks); [exact H | intros x Hx; right; exact Hx].
Qed.
Lemma tl_tzX : forall tz X, (X = [] \/ exists r, X = TRParen :: r) -> tl [] (tz_toks tz ++ X).
Proof.
  intros tz X HX. destruct tz; cbn [tz_toks app]; [apply tl_tz|].
  destruct HX as [HX|[r HX]]; subst X; constructor.
Qed.

Ltac notin := cbn [In]; intuition discriminate.

Lemma tail_ok : forall fields sources cond dims fl sort limit offset slimit soffset tz X f T0,
  (X = [] \/ exists r, X = TRParen :: r) ->
  match cond with Some c => CANON false c = true | None => True end ->
  forallb canon_dim dims = true -> canon_fill fl = true ->
  limit <= max_int64 -> offset <= max_int64 -> slimit <= max_int64 -> soffset <= max_int64 ->
  (length dims <= f)%nat -> (length sort <= f)%nat ->
  skip_ws T0 = skip_ws (tail_toks cond dims fl sort limit offset slimit soffset tz ++ X) ->
  parse_tail prec isop K f fields sources T0 = Some (Stmt fields sources cond dims fl sort limit offset slimit soffset tz, X).
Proof.
  intros fields sources cond dims fl sort limit offset slimit soffset tz X f T0 HX Hcond Hdims Hfill Hl Ho Hsl Hso Hfd Hfs HT0.
  unfold tail_toks in HT0. repeat rewrite <- app_assoc in HT0.
  set (T9 := tz_toks tz ++ X) in *.
  set (T8 := opt_int_toks (K KSoffset) soffset ++ T9) in *.
  set (T7 := opt_int_toks (K KSlimit) slimit ++ T8) in *.
  set (T6 := opt_int_toks (K KOffset) offset ++ T7) in *.
  set (T5 := opt_int_toks (K KLimit) limit ++ T6) in *.
  set (T4 := order_toks sort ++ T5) in *.
  set (T3 := fill_toks K dr fl ++ T4) in *.
  set (T2 := dims_toks dims ++ T3) in *.
  assert (L9 : tl [] T9) by (apply tl_tzX; exact HX).
  assert (L8 : tl [KSoffset] T8) by (apply tl_opt_int; exact L9).
  assert (L7 : tl [KSlimit; KSoffset] T7) by (apply tl_opt_int; exact L8).
  assert (L6 : tl [KOffset; KSlimit; KSoffset] T6) by (apply tl_opt_int; exact L7).
  assert (L5 : tl [KLimit; KOffset; KSlimit; KSoffset] T5) by (apply tl_opt_int; exact L6).
  assert (L4 : tl [KOrder; KLimit; KOffset; KSlimit; KSoffset] T4) by (apply tl_order; exact L5).
  assert (L3 : tl [KFill; KOrder; KLimit; KOffset; KSlimit; KSoffset] T3) by (apply tl_fill; exact L4).
  assert (L2 : tl [KGroup; KFill; KOrder; KLimit; KOffset; KSlimit; KSoffset] T2) by (apply tl_dims; exact L3).
  unfold parse_tail.
  rewrite <- cond_skip, HT0, cond_skip.
  rewrite (cond_ok cond _ T2 L2 ltac:(notin) Hcond).
  rewrite dims_skip.
  destruct (dims_ok dims _ T3 f Hdims L3 ltac:(notin) Hfd) as [R3 [E3 S3]]. fold T2 in E3. rewrite E3.
  rewrite <- fill_skip, S3, fill_skip.
  destruct (fill_ok fl _ T4 L4 ltac:(notin) Hfill) as [R4 [E4 S4]]. fold T3 in E4. rewrite E4.
  rewrite <- order_skip, S4, order_skip.
  pose proof (order_ok sort _ T5 f L5 ltac:(notin) Hfs) as E5. fold T4 in E5. rewrite E5.
  rewrite optint_skip.
  destruct (opt_int_ok' KLimit limit T6 Hl (tl_not_kw _ T6 KLimit L6 ltac:(notin))) as [R6 [E6 S6]]. fold T5 in E6. rewrite E6.
  rewrite <- optint_skip, S6, optint_skip.
  destruct (opt_int_ok' KOffset offset T7 Ho (tl_not_kw _ T7 KOffset L7 ltac:(notin))) as [R7 [E7 S7]]. fold T6 in E7. rewrite E7.
  rewrite <- optint_skip, S7, optint_skip.
  destruct (opt_int_ok' KSlimit slimit T8 Hsl (tl_not_kw _ T8 KSlimit L8 ltac:(notin))) as [R8 [E8 S8]]. fold T7 in E8. rewrite E8.
  rewrite <- optint_skip, S8, optint_skip.
  destruct (opt_int_ok' KSoffset soffset T9 Hso (tl_not_kw _ T9 KSoffset L9 ltac:(notin))) as [R9 [E9 S9]]. fold T8 in E9. rewrite E9.
  rewrite <- loc_skip, S9, loc_skip.
  unfold T9. rewrite (loc_ok tz X HX).
  destruct HX as [HX|[r HX]]; subst X; reflexivity.
Qed.

(* ---- main induction: sources and statements *)
Lemma need_in : forall a l, In a l -> (need_src a < need_srcs l + 1)%nat.
Proof.
  intros a l. induction l as [|b l IH]; intro H; [contradiction|]. cbn [need_srcs]. fold need_srcs.
  destruct H as [H|H]; [subst; lia | specialize (IH H); lia].
Qed.

Theorem stmt_main : forall n,
  (forall src, (need_src src <= n)%nat -> P_src src) /\ (forall st, (need_stmt st <= n)%nat -> P_stmt st).
Proof.
  induction n as [|n [IHA IHB]].
  - split; [intros src H; destruct src; cbn in H; lia | intros st H; destruct st; cbn in H; lia].
  - assert (HA : forall src, (need_src src <= S n)%nat -> P_src src).
    { intros src Hn Hc f R Hf HR. destruct (after_src_facts R HR) as [F1 [F2 F3]].
      destruct src as [db rp name re|st al].
      - cbn [canon_source source_toks] in *. destruct f as [|f]; [cbn in Hf; lia|].
        exists R. split; [apply mst_roundtrip; assumption | reflexivity].
      - cbn [canon_source need_src] in *. destruct f as [|f]; [lia|].
        pose proof (IHB st ltac:(lia) Hc f) as HB.
        assert (Esub : source_toks K nr dr (SSub st al) = TLParen :: stmt_toks K nr dr st ++ TRParen ::
                         match al with [] => [] | _ :: _ => [TWs; kw (K KAs); TWs; TIdent al] end) by reflexivity.
        rewrite Esub. clear Esub.
        destruct (stmt_toks K nr dr st) as [|t0 body] eqn:Est; [specialize (HB [] ltac:(lia) (or_introl eq_refl)); contradiction|].
        assert (Ht0 : t0 = kw (K KSelect)).
        { destruct st as [fields sources cond dims fl sort limit offset slimit soffset tz]. cbn [stmt_toks] in Est. inversion Est. reflexivity. }
        subst t0.
        set (AL := match al with [] => [] | _ :: _ => [TWs; kw (K KAs); TWs; TIdent al] end) in *.
        specialize (HB (TRParen :: AL ++ R) ltac:(lia) (or_intror (ex_intro _ (AL ++ R) eq_refl))).
        rewrite parse_source_S. unfold kw in *. cbn [app regex_first skip_ws]. rewrite N.eqb_refl.
        rewrite <- app_assoc. cbn [app]. rewrite HB. unfold sub_after. cbn [skip_ws].
        destruct al as [|x a]; subst AL; cbn [app].
        + exists (skip_ws R). split; [|apply skip_ws_idem].
          destruct (skip_ws R) as [|t r] eqn:ER; [reflexivity|]. destruct t; try reflexivity.
          cbn [hd_kw] in F3. assert (E : (code =? K KAs) = false) by (apply N.eqb_neq; congruence). rewrite E. reflexivity.
        + unfold kw. cbn [skip_ws]. rewrite N.eqb_refl. cbn [lit_of]. exists R. split; reflexivity. }
    split; [exact HA|].
    intros st Hn Hc f X Hf HX.
    destruct st as [fields sources cond dims fl sort limit offset slimit soffset tz].
    cbn [canon_stmt] in Hc. fold canon_srcs in Hc.
    repeat (apply andb_prop in Hc; let H := fresh "C" in destruct Hc as [Hc H]).
    assert (Hsne : sources <> []) by (destruct sources; [discriminate | discriminate]).
    assert (Hfne : fields <> []) by (destruct fields; [discriminate | discriminate]).
    rewrite (stmt_toks_shape fields sources cond dims fl sort limit offset slimit soffset tz Hsne). unfold kw at 1.
    cbn [need_stmt] in Hf, Hn. fold need_srcs in Hf, Hn.
    destruct f as [|f]; [lia|]. rewrite parse_stmt_S.
    repeat (rewrite <- app_assoc || rewrite <- app_comm_cons).
    set (T1 := tail_toks cond dims fl sort limit offset slimit soffset tz ++ X).
    destruct (fields_ok fields (TWs :: srcs_toks sources ++ T1) (S f) Hfne ltac:(assumption) ltac:(lia)) as [_ EF].
    cbn zeta in EF. unfold kw. rewrite EF. cbn [skip_ws]. rewrite N.eqb_refl.
    assert (LT : exists ks, tl ks T1 /\ ~ In KAs ks).
    { exists [KWhere; KGroup; KFill; KOrder; KLimit; KOffset; KSlimit; KSoffset]. split; [|notin].
      unfold T1, tail_toks. repeat rewrite <- app_assoc.
      apply tl_cond, tl_dims, tl_fill, tl_order, tl_opt_int, tl_opt_int, tl_opt_int, tl_opt_int, tl_tzX. exact HX. }
    destruct LT as [ks [LT1 LT2]].
    rewrite (sources_ok sources f T1 ks); [| | exact Hsne | assumption | lia | exact LT1 | exact LT2].
    + apply tail_ok; try assumption; try (apply N.leb_le; assumption); try lia.
      * destruct cond; [assumption | exact I].
      * apply skip_ws_idem.
    + intros a Ha. apply IHA. pose proof (need_in a sources Ha). lia.
Qed.

(* ParseSource (Source.String()): every canonical source - measurement or sub-query to any depth, every clause *)
Theorem parse_source_roundtrip : forall src f, canon_source src = true -> (need_src src <= f)%nat ->
  exists R', parse_source prec isop K f (source_toks K nr dr src) = Some (src, R') /\ skip_ws R' = [].
Proof.
  intros src f Hc Hf. destruct (stmt_main (need_src src)) as [HA _].
  destruct (HA src (le_n _) Hc f [] Hf (as_tail [] [] (tl_nil []) (fun H => H))) as [R' [E1 E2]].
  rewrite app_nil_r in E1. exists R'. split; assumption.
Qed.

(* hybridqp.ParseFields (Fields.String()): the select list between SELECT and FROM mock *)
Definition mock : str := [109;111;99;107].
Theorem parse_fields_roundtrip : forall fields f, fields <> [] -> forallb canon_field fields = true -> (length fields + 3 <= f)%nat ->
  parse_stmt prec isop K f (TWs :: sep_toks (field_toks K nr dr) fields ++ [TWs; TKeyword (K KFrom); TWs; TIdent mock]) =
  Some (Stmt fields [SMst [] [] mock None] None [] FNull [] 0 0 0 0 None, []).
Proof.
  intros fields f Hne Hc Hf. destruct (stmt_main (length fields + 3)) as [_ HB].
  set (st := Stmt fields [SMst [] [] mock None] None [] FNull [] 0 0 0 0 None).
  assert (Hcs : canon_stmt st = true).
  { subst st. cbn [canon_stmt]. rewrite Hc. destruct fields; [congruence | reflexivity]. }
  assert (Hn : (need_stmt st <= length fields + 3)%nat) by (subst st; cbn [need_stmt need_src length]; lia).
  pose proof (HB st Hn Hcs f [] ltac:(lia) (or_introl eq_refl)) as H.
  subst st. cbn [stmt_toks] in H. rewrite app_nil_r in H. unfold kw in H. cbn [app mst_toks fill_toks opt_int_toks N.eqb] in H.
  repeat rewrite app_nil_r in H. exact H.
Qed.

End StatementParser.
