(* C12 model: InfluxQL expression AST, token type, the printers (String methods of ast.go: text and token level),
   the scanner (scanner.go) and the hand-written precedence parser (ParseExpr / parseUnaryExpr / parseCall /
   ParseVarRef of parser.go).  Executable definitions only.
   Characters are code points (N); strings are lists of code points.
   Variants: number printer and duration printer exist as _current (today's code) and _repaired. *)
From Coq Require Import ZArith NArith List Bool.
Import ListNotations.
Open Scope N_scope.

Definition str := list N.

Fixpoint str_eqb (a b : str) : bool :=
  match a, b with
  | [], [] => true
  | x :: a', y :: b' => (x =? y) && str_eqb a' b'
  | _, _ => false
  end.

(* ---------------------------------------------------------------- operators, data types *)
Inductive op := OOr | OAnd | OEq | ONeq | OEqRegex | ONeqRegex | OLt | OLte | OGt | OGte
  | OAdd | OSub | OMul | ODiv | OMod | OBitAnd | OBitOr | OBitXor | OLike | OMatch | OMatchPhrase | OIpInRange.

Definition all_ops : list op := [OOr; OAnd; OEq; ONeq; OEqRegex; ONeqRegex; OLt; OLte; OGt; OGte;
  OAdd; OSub; OMul; ODiv; OMod; OBitAnd; OBitOr; OBitXor; OLike; OMatch; OMatchPhrase; OIpInRange].

Definition op_idx (o : op) : N :=
  match o with
  | OOr => 0 | OAnd => 1 | OEq => 2 | ONeq => 3 | OEqRegex => 4 | ONeqRegex => 5 | OLt => 6 | OLte => 7 | OGt => 8
  | OGte => 9 | OAdd => 10 | OSub => 11 | OMul => 12 | ODiv => 13 | OMod => 14 | OBitAnd => 15 | OBitOr => 16
  | OBitXor => 17 | OLike => 18 | OMatch => 19 | OMatchPhrase => 20 | OIpInRange => 21
  end.
Definition op_eqb (a b : op) : bool := op_idx a =? op_idx b.
Definition is_regex_op (o : op) : bool := match o with OEqRegex | ONeqRegex => true | _ => false end.

(* DataType of a VarRef cast. *)
Inductive dtype := DUnknown | DFloat | DFloatTuple | DInteger | DUnsigned | DString | DBoolean | DTag | DAnyField
  | DTime | DDuration | DGraph.
Definition dtype_idx (d : dtype) : N :=
  match d with DUnknown => 0 | DFloat => 1 | DFloatTuple => 2 | DInteger => 3 | DUnsigned => 4 | DString => 5
  | DBoolean => 6 | DTag => 7 | DAnyField => 8 | DTime => 9 | DDuration => 10 | DGraph => 11 end.
Definition dtype_eqb (a b : dtype) := dtype_idx a =? dtype_idx b.

Inductive wild := WAny | WField | WTag.

(* ---------------------------------------------------------------- AST *)
Inductive expr :=
| EVar (name : str) (t : dtype)
| EInt (z : Z)                                   (* IntegerLiteral, int64 *)
| EUnsigned (n : N)                              (* UnsignedLiteral, uint64 *)
| ENum (neg : bool) (ip : N) (fp : list N)       (* NumberLiteral as its exact shortest decimal: sign, integer part,
                                                    fraction digits *)
| ESpecial (k : N)                               (* NumberLiteral +Inf (0), -Inf (1), NaN (2) *)
| EStr (s : str)
| EBool (b : bool)
| EDur (z : Z)                                   (* DurationLiteral, nanoseconds *)
| ERegex (src : str)                             (* RegexLiteral, source text of the pattern *)
| EWild (w : wild)
| EParen (e : expr)
| ECall (name : str) (args : list expr)
| EBin (o : op) (l r : expr).

(* ---------------------------------------------------------------- tokens *)
Inductive token :=
| TWs
| TIdent (s : str) | TString (s : str) | TInteger (s : str) | TNumber (s : str) | TDuration (s : str) | TRegex (s : str)
| TTrue | TFalse | TOp (o : op) | TLParen | TRParen | TComma | TDColon | TDot | TField | TTag | TDistinct
| TKeyword (code : N) | TIllegal.

(* ---------------------------------------------------------------- characters *)
Definition is_digit (c : N) := (48 <=? c) && (c <=? 57).
Definition is_letter (c : N) := ((97 <=? c) && (c <=? 122)) || ((65 <=? c) && (c <=? 90)).
Definition is_ident_char (c : N) := is_letter c || is_digit c || (c =? 95).
Definition is_ident_first (c : N) := is_letter c || (c =? 95).
Definition is_ws (c : N) := (c =? 32) || (c =? 9) || (c =? 10).
Definition lower_c (c : N) := if (65 <=? c) && (c <=? 90) then c + 32 else c.
Definition lower (s : str) : str := map lower_c s.

(* decimal digits of a natural number, most significant first *)
Fixpoint digits_fuel (fuel : nat) (n : N) (acc : str) : str :=
  match fuel with
  | O => acc
  | S f => let acc' := (48 + n mod 10) :: acc in
           if n <? 10 then acc' else digits_fuel f (n / 10) acc'
  end.
Definition digits (n : N) : str := digits_fuel (S (N.to_nat (N.size n))) n [].

(* strconv.ParseInt/ParseUint on a digit string (value; None if empty or a non-digit occurs) *)
Fixpoint digits_val_acc (a : N) (s : str) : option N :=
  match s with
  | [] => Some a
  | c :: r => if is_digit c then digits_val_acc (10 * a + (c - 48)) r else None
  end.
Definition digits_val (s : str) : option N := match s with [] => None | _ => digits_val_acc 0 s end.

Definition max_int64 : N := 9223372036854775807.
Definition max_uint64 : N := 18446744073709551615.

(* ---------------------------------------------------------------- quoting *)
(* qsReplacer / qiReplacer of parser.go:  newline, backslash, quote  *)
Fixpoint escape (q : N) (s : str) : str :=
  match s with
  | [] => []
  | c :: r => if c =? 10 then 92 :: 110 :: escape q r
              else if c =? 92 then 92 :: 92 :: escape q r
              else if c =? q then 92 :: q :: escape q r
              else c :: escape q r
  end.
Definition quote_string (s : str) : str := 39 :: escape 39 s ++ [39].

(* Scanner.ScanString after the opening quote: returns (value, rest) *)
Fixpoint unquote (q : N) (s : str) (acc : str) : option (str * str) :=
  match s with
  | [] => None
  | c :: r =>
      if c =? q then Some (rev acc, r)
      else if (c =? 10) || (c =? 13) || (c =? 0) then None
      else if c =? 92 then
        match r with
        | c1 :: r' => if c1 =? 110 then unquote q r' (10 :: acc)
                      else if c1 =? 92 then unquote q r' (92 :: acc)
                      else if c1 =? 34 then unquote q r' (34 :: acc)
                      else if c1 =? 39 then unquote q r' (39 :: acc)
                      else None
        | [] => None
        end
      else unquote q r (c :: acc)
  end.

(* keyword table: lower-case word -> token code (generated from the live table of the repository) *)
Fixpoint kw_lookup (kws : list (str * N)) (s : str) : option N :=
  match kws with
  | [] => None
  | (w, c) :: r => if str_eqb w s then Some c else kw_lookup r s
  end.

Definition bare_ok (s : str) : bool :=
  match s with
  | [] => false
  | c :: r => is_ident_first c && forallb is_ident_char r
  end.

(* ---------------------------------------------------------------- durations *)
Definition ns_us := 1000%Z.
Definition ns_ms := 1000000%Z.
Definition ns_s := 1000000000%Z.
Definition ns_m := 60000000000%Z.
Definition ns_h := 3600000000000%Z.
Definition ns_d := 86400000000000%Z.
Definition ns_w := 604800000000000%Z.

Definition zdigits (z : Z) : str :=
  if (z <? 0)%Z then 45 :: digits (Z.to_N (- z)) else digits (Z.to_N z).

(* FormatDuration; Go's % and / truncate toward zero: Z.rem / Z.quot.  The unit chosen and its suffix. *)
Definition dur_unit (repaired : bool) (z : Z) : Z * str :=
  if (Z.rem z ns_w =? 0)%Z then (ns_w, [119])
  else if (Z.rem z ns_d =? 0)%Z then (ns_d, [100])
  else if (Z.rem z ns_h =? 0)%Z then (ns_h, [104])
  else if (Z.rem z ns_m =? 0)%Z then (ns_m, [109])
  else if (Z.rem z ns_s =? 0)%Z then (ns_s, [115])
  else if (Z.rem z ns_ms =? 0)%Z then (ns_ms, [109; 115])
  else if repaired && negb (Z.rem z ns_us =? 0)%Z then (1%Z, [110; 115])
  else (ns_us, [117]).
Definition format_duration_gen (repaired : bool) (z : Z) : str :=
  if (z =? 0)%Z then [48; 115]
  else let '(u, suffix) := dur_unit repaired z in zdigits (Z.quot z u) ++ suffix.
Definition format_duration_current := format_duration_gen false.
Definition format_duration_repaired := format_duration_gen true.

(* ParseDuration on the text of a DURATIONVAL token (no sign: the scanner never includes one). Sequence of
   <digits><unit>; int64 wrap-around is not modelled: a result outside int64 is reported as None. *)
Fixpoint take_digits (s : str) (acc : str) : str * str :=
  match s with
  | c :: r => if is_digit c then take_digits r (c :: acc) else (rev acc, s)
  | [] => (rev acc, [])
  end.

Fixpoint parse_duration_fuel (fuel : nat) (s : str) (acc : Z) : option Z :=
  match fuel with
  | O => None
  | S f =>
    match s with
    | [] => Some acc
    | _ =>
      let '(ds, r) := take_digits s [] in
      match digits_val ds, r with
      | Some n, c :: r' =>
          if N.ltb max_int64 n then None else
          let n := Z.of_N n in
          if c =? 110 then match r' with
                           | c2 :: r'' => if c2 =? 115 then parse_duration_fuel f r'' (acc + n)%Z else None
                           | [] => None end
          else if (c =? 117) || (c =? 181) then parse_duration_fuel f r' (acc + n * ns_us)%Z
          else if c =? 109 then match r' with
                                | c2 :: r'' => if c2 =? 115 then parse_duration_fuel f r'' (acc + n * ns_ms)%Z
                                               else parse_duration_fuel f r' (acc + n * ns_m)%Z
                                | [] => parse_duration_fuel f r' (acc + n * ns_m)%Z end
          else if c =? 115 then parse_duration_fuel f r' (acc + n * ns_s)%Z
          else if c =? 104 then parse_duration_fuel f r' (acc + n * ns_h)%Z
          else if c =? 100 then parse_duration_fuel f r' (acc + n * ns_d)%Z
          else if c =? 119 then parse_duration_fuel f r' (acc + n * ns_w)%Z
          else None
      | _, _ => None
      end
    end
  end.
Definition parse_duration (s : str) : option Z :=
  match s with
  | [] | [_] => None
  | _ => match parse_duration_fuel (S (length s)) s 0%Z with
         | Some z => if (z <=? Z.of_N max_int64)%Z then Some z else None
         | None => None
         end
  end.

(* ---------------------------------------------------------------- numbers *)
Fixpoint strip_trailing_zeros_rev (r : list N) : list N :=   (* on the reversed digit list *)
  match r with
  | d :: r' => if d =? 0 then strip_trailing_zeros_rev r' else r
  | [] => []
  end.
Definition strip_trailing_zeros (l : list N) : list N := rev (strip_trailing_zeros_rev (rev l)).

Definition frac_text (fp : list N) : str := map (fun d => 48 + d) fp.

(* NumberLiteral.RenderBytes: FormatFloat(v,'f',-1) below or at MaxInt (as float64: 2^63), one decimal above. *)
Definition two63 : N := 9223372036854775808.
(* shortest decimal of float64(math.MaxInt) = 2^63; every larger float64 has a larger integer part *)
Definition maxint_float_ip : N := 9223372036854776000.
Definition number_text_gen (repaired : bool) (neg : bool) (ip : N) (fp : list N) : str :=
  (if neg then [45] else []) ++ digits ip ++
  match fp with
  | [] => if repaired || (negb neg && (maxint_float_ip <? ip)) then [46; 48] else []
  | _ => 46 :: frac_text fp
  end.

(* text of a NUMBER token -> (ip, fp) canonical; None when malformed *)
Fixpoint split_dot (s : str) (acc : str) : str * option str :=
  match s with
  | [] => (rev acc, None)
  | c :: r => if c =? 46 then (rev acc, Some r) else split_dot r (c :: acc)
  end.
Definition digit_vals (s : str) : option (list N) :=
  if forallb is_digit s then Some (map (fun c => c - 48) s) else None.
Definition parse_number (s : str) : option (N * list N) :=
  let '(a, b) := split_dot s [] in
  let ipv := match a with [] => Some 0 | _ => digits_val a end in
  match ipv, b with
  | Some ip, None => Some (ip, [])
  | Some ip, Some fr => match digit_vals fr with Some ds => Some (ip, strip_trailing_zeros ds) | None => None end
  | None, _ => None
  end.

(* ---------------------------------------------------------------- parameters taken from the repository
   (token table, precedence, operator map, keyword list): passed explicitly; instantiated in Inst.v from Gen_Tokens.v *)
Section WithTables.
Variable prec : op -> N.
Variable isop : op -> bool.
Variable op_text : op -> str.
Variable keywords : list (str * N).
Variable op_of_code : N -> option op.     (* keyword codes that are operators (AND OR LIKE MATCH ...) *)
Variable code_true code_false code_field code_tag code_distinct : N.
Variable num_repaired dur_repaired : bool.

Definition ident_needs_quotes (s : str) : bool :=
  match kw_lookup keywords (lower s) with
  | Some _ => true
  | None => negb (bare_ok s)
  end.
(* QuoteIdent with one segment *)
Definition quote_ident (s : str) : str :=
  if ident_needs_quotes s then 34 :: escape 34 s ++ [34] else escape 34 s.

Definition dtype_text (d : dtype) : str :=
  match d with
  | DUnknown => [117;110;107;110;111;119;110]
  | DFloat => [102;108;111;97;116]
  | DFloatTuple => [102;108;111;97;116;84;117;112;108;101]
  | DInteger => [105;110;116;101;103;101;114]
  | DUnsigned => [117;110;115;105;103;110;101;100]
  | DString => [115;116;114;105;110;103]
  | DBoolean => [98;111;111;108;101;97;110]
  | DTag => [116;97;103]
  | DAnyField => [102;105;101;108;100]
  | DTime => [116;105;109;101]
  | DDuration => [100;117;114;97;116;105;111;110]
  | DGraph => [103;114;97;112;104]
  end.

Fixpoint regex_escape (s : str) : str :=
  match s with
  | [] => []
  | c :: r => if c =? 47 then 92 :: 47 :: regex_escape r else c :: regex_escape r
  end.

Definition special_text (k : N) : str :=
  if k =? 0 then [43;73;110;102] else if k =? 1 then [45;73;110;102] else [78;97;78].

(* ---- text printer (the String methods) *)
Fixpoint print_text (e : expr) : str :=
  match e with
  | EVar name t => quote_ident name ++ (if dtype_eqb t DUnknown then [] else 58 :: 58 :: dtype_text t)
  | EInt z => zdigits z
  | EUnsigned n => digits n
  | ENum neg ip fp => number_text_gen num_repaired neg ip fp
  | ESpecial k => special_text k
  | EStr s => quote_string s
  | EBool b => if b then [116;114;117;101] else [102;97;108;115;101]
  | EDur z => format_duration_gen dur_repaired z
  | ERegex src => 47 :: regex_escape src ++ [47]
  | EWild w => match w with WAny => [42] | WField => [42;58;58;102;105;101;108;100] | WTag => [42;58;58;116;97;103] end
  | EParen e' => 40 :: print_text e' ++ [41]
  | ECall name args =>
      name ++ 40 ::
      (fix pa (l : list expr) : str :=
         match l with
         | [] => []
         | [a] => print_text a
         | a :: l' => print_text a ++ 44 :: 32 :: pa l'
         end) args ++ [41]
  | EBin o l r => print_text l ++ 32 :: op_text o ++ 32 :: print_text r
  end.

(* ---- token printer: the token sequence the scanner yields on print_text e *)
Definition number_toks (neg : bool) (ip : N) (fp : list N) : list token :=
  let body := digits ip ++ match fp with
                           | [] => if num_repaired || (negb neg && (maxint_float_ip <? ip)) then [46; 48] else []
                           | _ => 46 :: frac_text fp end in
  (if neg then [TOp OSub] else []) ++
  [match fp with
   | [] => if num_repaired || (negb neg && (maxint_float_ip <? ip)) then TNumber body else TInteger body
   | _ => TNumber body end].

Definition duration_toks (z : Z) : list token :=
  let t := format_duration_gen dur_repaired z in
  match t with
  | 45 :: t' => [TOp OSub; TDuration t']
  | _ => [TDuration t]
  end.

Definition dtype_tok (d : dtype) : token :=
  match d with DTag => TTag | DAnyField => TField | _ => TIdent (dtype_text d) end.

Definition op_tok (o : op) : token := TOp o.

Fixpoint print_toks (e : expr) : list token :=
  match e with
  | EVar name t => TIdent name :: (if dtype_eqb t DUnknown then [] else [TDColon; dtype_tok t])
  | EInt z => if (z <? 0)%Z then [TOp OSub; TInteger (digits (Z.to_N (- z)))] else [TInteger (digits (Z.to_N z))]
  | EUnsigned n => [TInteger (digits n)]
  | ENum neg ip fp => number_toks neg ip fp
  | ESpecial k => if k =? 0 then [TOp OAdd; TIdent [73;110;102]] else if k =? 1 then [TOp OSub; TIdent [73;110;102]]
                  else [TIdent [78;97;78]]
  | EStr s => [TString s]
  | EBool b => [if b then TTrue else TFalse]
  | EDur z => duration_toks z
  | ERegex src => [TRegex src]
  | EWild w => match w with WAny => [TOp OMul] | WField => [TOp OMul; TDColon; TField] | WTag => [TOp OMul; TDColon; TTag] end
  | EParen e' => TLParen :: print_toks e' ++ [TRParen]
  | ECall name args =>
      TIdent name :: TLParen ::
      (fix pa (l : list expr) : list token :=
         match l with
         | [] => []
         | [a] => print_toks a
         | a :: l' => print_toks a ++ TComma :: TWs :: pa l'
         end) args ++ [TRParen]
  | EBin o l r => print_toks l ++ TWs :: TOp o :: TWs :: print_toks r
  end.

(* ---------------------------------------------------------------- scanner (Scanner.Scan, ScanRegex) *)
Fixpoint take_while (p : N -> bool) (s : str) (acc : str) : str * str :=
  match s with
  | c :: r => if p c then take_while p r (c :: acc) else (rev acc, s)
  | [] => (rev acc, [])
  end.

(* skipUntilEndRegex: the body is kept verbatim, a slash ends it unless the previous character was a backslash *)
Fixpoint regex_raw (s : str) (skip : bool) (acc : str) : option (str * str) :=
  match s with
  | [] => None
  | c :: r => if (c =? 47) && skip then Some (rev acc, r)
              else if c =? 0 then None
              else regex_raw r (negb (c =? 92)) (c :: acc)
  end.
(* ScanDelimited with escapes {'/'} and pass-through of other backslashes *)
Fixpoint regex_delim (s : str) (acc : str) : option (str * str) :=
  match s with
  | [] => None
  | c :: r => if c =? 47 then Some (rev acc, r)
              else if (c =? 10) || (c =? 13) || (c =? 0) then None
              else if c =? 92 then
                match r with
                | c1 :: r' => if c1 =? 47 then regex_delim r' (47 :: acc) else regex_delim r (92 :: acc)
                | [] => None
                end
              else regex_delim r (c :: acc)
  end.

Definition keyword_tok (code : N) : token :=
  match op_of_code code with
  | Some o => TOp o
  | None => if code =? code_true then TTrue else if code =? code_false then TFalse
            else if code =? code_field then TField else if code =? code_tag then TTag
            else if code =? code_distinct then TDistinct else TKeyword code
  end.

(* does a slash after this token mean division?  (preToken rule of Scan; 0 = start of input) *)
Definition div_after (prev : option token) : bool :=
  match prev with
  | None => true
  | Some TRParen | Some (TIdent _) | Some (TInteger _) | Some (TNumber _) => true
  | Some (TKeyword c) => false
  | _ => false
  end.

Definition is_ident_or_dot (c : N) := is_ident_char c || (c =? 46).

(* head tests (used instead of numeral patterns: same behaviour, friendlier to proofs) *)
Definition hd_sat (p : N -> bool) (s : str) : bool := match s with x :: _ => p x | [] => false end.
Definition hd_is (c : N) (s : str) : bool := hd_sat (fun x => x =? c) s.
Definition is_dur_first (c : N) := is_letter c || (c =? 181).
Definition is_dur_char (c : N) := is_letter c || is_digit c || (c =? 181).

(* where the parser calls parseRegex (ScanDelimited) instead of Scan: after =~ !~, and at the start of a call argument *)
Definition delim_ctx (last : option token) (stack : list bool) : bool :=
  match last with
  | Some (TOp OEqRegex) | Some (TOp ONeqRegex) => true
  | Some TLParen | Some TComma => match stack with true :: _ => true | _ => false end
  | _ => false
  end.
(* does this parenthesis open a call's argument list?  (identifier immediately followed by it) *)
Definition call_ctx (last : option token) (ws_before : bool) : bool :=
  match last with Some (TIdent _) | Some TDistinct => negb ws_before | _ => false end.

(* scanner state: previous non-whitespace token (as Scan records it), whether whitespace was just seen, and the stack
   of open parentheses (true = the parenthesis opens a call's argument list) used to decide where the parser calls
   parseRegex (ScanDelimited) instead of Scan *)
Fixpoint scan_fuel (fuel : nat) (s : str) (prev : option token) (ws_before : bool) (last : option token)
                   (stack : list bool) : list token :=
  match fuel with
  | O => [TIllegal]
  | S f =>
    match s with
    | [] => []
    | c :: r =>
      let emit (t : token) (rest : str) (stk : list bool) := t :: scan_fuel f rest (Some t) false (Some t) stk in
      if is_ws c then
        let '(_, rest) := take_while is_ws r [] in TWs :: scan_fuel f rest prev true last stack
      else if is_letter c || (c =? 95) then
        let '(w, rest) := take_while is_ident_or_dot s [] in
        if hd_is 34 rest then    (* bare prefix immediately followed by a quoted part: the quoted part wins *)
            match unquote 34 (tl rest) [] with
            | Some (v, rest'') => emit (TIdent v) rest'' stack
            | None => [TIllegal]
            end
        else match kw_lookup keywords (lower w) with
             | Some code => emit (keyword_tok code) rest stack
             | None => emit (TIdent w) rest stack
             end
      else if is_digit c || ((c =? 46) && hd_sat is_digit r) then
        let '(d1, r1) := take_while is_digit s [] in
        if hd_is 46 r1 then
            let r2 := tl r1 in
            let '(d2, r3) := take_while is_digit r2 [] in
            match d2 with
            | [] => emit (TNumber d1) r2 stack
            | _ => emit (TNumber (d1 ++ 46 :: d2)) r3 stack
            end
        else if hd_sat is_dur_first r1 then
              let '(w, r3) := take_while is_dur_char r1 [] in
              emit (TDuration (d1 ++ w)) r3 stack
        else emit (TInteger d1) r1 stack
      else if c =? 34 then
        match unquote 34 r [] with
        | Some (v, rest) => emit (TIdent v) rest stack
        | None => [TIllegal]
        end
      else if c =? 39 then
        match unquote 39 r [] with
        | Some (v, rest) => emit (TString v) rest stack
        | None => [TIllegal]
        end
      else if c =? 47 then
        if delim_ctx last stack then
          match regex_delim r [] with
          | Some (v, rest) => TRegex v :: scan_fuel f rest prev false (Some (TRegex v)) stack
          | None => [TIllegal]
          end
        else if div_after prev then emit (TOp ODiv) r stack
        else if hd_is 42 r then [TIllegal]    (* comment: outside the modelled domain *)
        else match regex_raw r true [] with
             | Some (v, rest) => emit (TRegex v) rest stack
             | None => [TIllegal]
             end
      else if c =? 40 then emit TLParen r (call_ctx last ws_before :: stack)
      else if c =? 41 then emit TRParen r (tl stack)
      else if c =? 44 then emit TComma r stack
      else if c =? 43 then emit (TOp OAdd) r stack
      else if c =? 45 then if hd_is 45 r then [TIllegal] else emit (TOp OSub) r stack
      else if c =? 42 then emit (TOp OMul) r stack
      else if c =? 37 then emit (TOp OMod) r stack
      else if c =? 38 then emit (TOp OBitAnd) r stack
      else if c =? 124 then emit (TOp OBitOr) r stack
      else if c =? 94 then emit (TOp OBitXor) r stack
      else if c =? 61 then if hd_is 126 r then emit (TOp OEqRegex) (tl r) stack else emit (TOp OEq) r stack
      else if c =? 33 then if hd_is 61 r then emit (TOp ONeq) (tl r) stack
                           else if hd_is 126 r then emit (TOp ONeqRegex) (tl r) stack
                           else [TIllegal]
      else if c =? 62 then if hd_is 61 r then emit (TOp OGte) (tl r) stack else emit (TOp OGt) r stack
      else if c =? 60 then if hd_is 61 r then emit (TOp OLte) (tl r) stack
                           else if hd_is 62 r then emit (TOp ONeq) (tl r) stack
                           else emit (TOp OLt) r stack
      else if c =? 58 then if hd_is 58 r then emit TDColon (tl r) stack else [TIllegal]
      else if c =? 46 then emit TDot r stack
      else [TIllegal]
    end
  end.
Definition scan (s : str) : list token := scan_fuel (S (length s)) s None false None [].

(* ---------------------------------------------------------------- parser *)
Fixpoint skip_ws (t : list token) : list token :=
  match t with TWs :: r => skip_ws r | _ => t end.

(* the spine insertion of ParseExpr *)
Fixpoint ins (root : expr) (o : op) (rhs : expr) : expr :=
  match root with
  | EBin o' l r => if prec o' <? prec o then EBin o' l (ins r o rhs) else EBin o root rhs
  | _ => EBin o root rhs
  end.

Definition str_inf : str := [105;110;102].
Definition str_nan : str := [110;97;110].

Definition dtype_of_name (s : str) : option dtype :=
  let l := lower s in
  if str_eqb l (dtype_text DFloat) then Some DFloat
  else if str_eqb l (lower (dtype_text DFloatTuple)) then Some DFloatTuple
  else if str_eqb l (dtype_text DInteger) then Some DInteger
  else if str_eqb l (dtype_text DUnsigned) then Some DUnsigned
  else if str_eqb l (dtype_text DString) then Some DString
  else if str_eqb l (dtype_text DBoolean) then Some DBoolean
  else if str_eqb l (dtype_text DTag) then Some DTag
  else None.

(* ParseVarRef after the first identifier: more segments, then an optional cast *)
Fixpoint varref_segments (n : nat) (acc : str) (t : list token) : str * list token :=
  match n, t with
  | S n', TDot :: r => match skip_ws r with
                       | TIdent s :: r' => varref_segments n' (acc ++ 46 :: s) r'
                       | _ => (acc, t)
                       end
  | _, _ => (acc, t)
  end.
Definition parse_varref (s : str) (t : list token) : option (expr * list token) :=
  let '(name, r) := varref_segments 2 s t in
  match r with
  | TDot :: _ => None
  | TDColon :: TIdent ty :: r' => match dtype_of_name ty with Some d => Some (EVar name d, r') | None => None end
  | TDColon :: TField :: r' => Some (EVar name DAnyField, r')
  | TDColon :: TTag :: r' => Some (EVar name DTag, r')
  | TDColon :: _ => None
  | _ => Some (EVar name DUnknown, r)
  end.

Definition int_of_text (s : str) : option expr :=
  match digits_val s with
  | Some n => if n <=? max_int64 then Some (EInt (Z.of_N n))
              else if n <=? max_uint64 then Some (EUnsigned n) else None
  | None => None
  end.

Definition apply_sign (sub : bool) (lit : expr) : option expr :=
  match lit with
  | ENum neg ip fp => Some (if sub then ENum (negb neg) ip fp else lit)
  | ESpecial k => Some (if sub then (if k =? 0 then ESpecial 1 else if k =? 1 then ESpecial 0 else ESpecial 2) else lit)
  | EInt z => Some (if sub then EInt (- z) else lit)
  | EUnsigned n => if sub then (if n =? two63 then Some (EInt (- Z.of_N two63)) else None) else Some lit
  | EDur z => Some (if sub then EDur (- z) else lit)
  | EVar _ _ | ECall _ _ | EParen _ => Some (EBin OMul (EInt (if sub then (-1) else 1)) lit)
  | _ => None
  end.

Fixpoint parse_unary (fuel : nat) (toks : list token) {struct fuel} : option (expr * list token) :=
  match fuel with
  | O => None
  | S f =>
    match skip_ws toks with
    | TLParen :: r =>
        match parse_expr f r with
        | Some (e, r') => match skip_ws r' with TRParen :: r'' => Some (EParen e, r'') | _ => None end
        | None => None
        end
    | TIdent s :: r =>
        if str_eqb (lower s) str_inf then Some (ESpecial 0, r)
        else if str_eqb (lower s) str_nan then Some (ESpecial 2, r)
        else match r with
             | TLParen :: r' => parse_call f (lower s) r'
             | _ => parse_varref s r
             end
    | TDistinct :: TLParen :: r' => parse_call f [100;105;115;116;105;110;99;116] r'
    | TString s :: r => Some (EStr s, r)
    | TNumber s :: r => match parse_number s with Some (ip, fp) => Some (ENum false ip fp, r) | None => None end
    | TInteger s :: r => match int_of_text s with Some e => Some (e, r) | None => None end
    | TTrue :: r => Some (EBool true, r)
    | TFalse :: r => Some (EBool false, r)
    | TDuration s :: r => match parse_duration s with Some z => Some (EDur z, r) | None => None end
    | TOp OMul :: r =>
        match r with
        | TDColon :: TField :: r' => Some (EWild WField, r')
        | TDColon :: TTag :: r' => Some (EWild WTag, r')
        | TDColon :: _ => None
        | _ => Some (EWild WAny, r)
        end
    | TRegex s :: r => Some (ERegex s, r)
    | TOp OAdd :: r | TOp OSub :: r =>
        let sub := match skip_ws toks with TOp OSub :: _ => true | _ => false end in
        match skip_ws r with
        | TNumber _ :: _ | TInteger _ :: _ | TDuration _ :: _ | TLParen :: _ | TIdent _ :: _ =>
            match parse_unary f r with
            | Some (lit, r') => match apply_sign sub lit with Some e => Some (e, r') | None => None end
            | None => None
            end
        | _ => None
        end
    | _ => None
    end
  end
with parse_expr (fuel : nat) (toks : list token) {struct fuel} : option (expr * list token) :=
  match fuel with
  | O => None
  | S f => match parse_unary f toks with
           | Some (e0, r) => parse_loop f e0 r
           | None => None
           end
  end
with parse_loop (fuel : nat) (root : expr) (toks : list token) {struct fuel} : option (expr * list token) :=
  match fuel with
  | O => None
  | S f =>
    match skip_ws toks with
    | TOp o :: r =>
        if isop o then
          if is_regex_op o then
            match skip_ws r with
            | TRegex s :: r' => parse_loop f (ins root o (ERegex s)) r'
            | _ => None
            end
          else match parse_unary f r with
               | Some (rhs, r') => parse_loop f (ins root o rhs) r'
               | None => None
               end
        else Some (root, skip_ws toks)
    | _ => Some (root, skip_ws toks)
    end
  end
with parse_call (fuel : nat) (name : str) (toks : list token) {struct fuel} : option (expr * list token) :=
  match fuel with
  | O => None
  | S f =>
    match skip_ws toks with
    | TRParen :: r => Some (ECall name [], r)
    | TRegex s :: r => parse_args f name [ERegex s] r
    | _ => match parse_expr f (skip_ws toks) with
           | Some (a, r) => parse_args f name [a] r
           | None => None
           end
    end
  end
with parse_args (fuel : nat) (name : str) (acc : list expr) (toks : list token) {struct fuel} : option (expr * list token) :=
  match fuel with
  | O => None
  | S f =>
    match skip_ws toks with
    | TComma :: r =>
        match skip_ws r with
        | TRegex s :: r' => parse_args f name (acc ++ [ERegex s]) r'
        | _ => match parse_expr f (skip_ws r) with
               | Some (a, r') => parse_args f name (acc ++ [a]) r'
               | None => None
               end
        end
    | TRParen :: r => Some (ECall name acc, r)
    | _ => None
    end
  end.

Definition parse_fuel (toks : list token) : nat := 4 * length toks + 8.
(* ParseExpr: the first complete expression; whatever follows is ignored (as the Go function does) *)
Definition parse (toks : list token) : option expr :=
  match parse_expr (parse_fuel toks) toks with
  | Some (e, _) => Some e
  | None => None
  end.

(* ---------------------------------------------------------------- canonical form (decidable) *)
Definition wf_char (c : N) : bool := negb ((c =? 0) || (c =? 13)).
Definition wf_str (s : str) : bool := forallb wf_char s.

Definition printable_dtype (d : dtype) : bool :=
  match d with DTime | DDuration | DGraph => false | _ => true end.

Definition name_ok (s : str) : bool :=
  let l := lower s in negb (str_eqb l str_inf) && negb (str_eqb l str_nan).

Definition call_name_ok (s : str) : bool :=
  bare_ok s && str_eqb (lower s) s && name_ok s &&
  match kw_lookup keywords s with Some _ => false | None => true end.

Fixpoint last_is (c : N) (s : str) : bool :=
  match s with [] => false | [x] => x =? c | _ :: r => last_is c r end.
Definition wf_regex (s : str) : bool :=
  forallb (fun c => wf_char c && negb (c =? 10)) s && negb (last_is 92 s).

Definition frac_ok (fp : list N) : bool :=
  forallb (fun d => d <? 10) fp && negb (last_is 0 fp).

Definition is_bin (e : expr) : bool := match e with EBin _ _ _ => true | _ => false end.
Definition is_regex (e : expr) : bool := match e with ERegex _ => true | _ => false end.
Definition top_prec (e : expr) : option N := match e with EBin o _ _ => Some (prec o) | _ => None end.

(* the scanner reads a slash as division only after ) identifier integer number: the left operand of / must end so *)
Fixpoint div_left_ok (e : expr) : bool :=
  match e with
  | EVar _ t => match t with DTag | DAnyField => false | _ => true end
  | EInt _ | EUnsigned _ | ENum _ _ _ | ESpecial _ | EParen _ | ECall _ _ => true
  | EBin _ _ r => div_left_ok r
  | _ => false
  end.

(* canonical: in the image of print/parse round trips.  arg = true when a bare RegexLiteral is allowed here
   (call argument or right operand of a regex operator) *)
Fixpoint canon (arg : bool) (e : expr) : bool :=
  match e with
  | EVar name t => wf_str name && name_ok name && printable_dtype t
  | EInt z => ((- Z.of_N two63 <=? z) && (z <=? Z.of_N max_int64))%Z
  | EUnsigned n => (max_int64 <? n) && (n <=? max_uint64)
  | ENum neg ip fp => frac_ok fp && (num_repaired || negb (match fp with [] => true | _ => false end) || (negb neg && (maxint_float_ip <? ip)))
  | ESpecial k => k <? 3
  | EStr s => wf_str s
  | EBool _ => true
  | EDur z => ((- Z.of_N max_int64 <=? z) && (z <=? Z.of_N max_int64))%Z && (dur_repaired || (Z.rem z ns_us =? 0)%Z)
  | ERegex src => arg && wf_regex src
  | EWild _ => true
  | EParen e' => canon false e'
  | ECall name args => call_name_ok name && forallb (canon true) args
  | EBin o l r =>
      isop o && canon false l && (if op_eqb o ODiv then div_left_ok l else true) &&
      (if is_regex_op o then is_regex r && canon true r else canon false r) &&
      match top_prec l with Some p => prec o <=? p | None => true end &&
      match top_prec r with Some p => prec o <? p | None => true end
  end.

End WithTables.

(* ---------------------------------------------------------------- IN sets (SetLiteral / parseSet), token level *)
Inductive setval := SNum (neg : bool) (ip : N) (fp : list N) | SStr (s : str).

(* SetLiteral.RenderBytes: ( v , v , ... ) with numbers printed like NumberLiteral (current printer) and everything else
   through QuoteString; the order is Go's map order, here the list order *)
Definition setval_toks (v : setval) : list token :=
  match v with
  | SNum neg ip fp =>
      let body := digits ip ++ match fp with [] => [] | _ => 46 :: frac_text fp end in
      (if neg then [TOp OSub] else []) ++ [match fp with [] => TInteger body | _ => TNumber body end]
  | SStr s => [TString s]
  end.
Fixpoint set_items_toks (vs : list setval) : list token :=
  match vs with
  | [] => []
  | [v] => setval_toks v
  | v :: r => setval_toks v ++ TComma :: set_items_toks r
  end.
Definition set_print_toks (vs : list setval) : list token := TLParen :: set_items_toks vs ++ [TRParen].

(* parseSet: after the opening parenthesis every token with a literal text is recorded (INTEGER/NUMBER through
   ParseFloat, the others verbatim); tokens without text - commas, SIGNS and the EMPTY STRING - are skipped; stops at ) *)
Fixpoint parse_set_items (toks : list token) : option (list setval) :=
  match toks with
  | [] => None
  | TRParen :: _ => Some []
  | t :: r =>
      match parse_set_items r with
      | None => None
      | Some vs =>
          match t with
          | TInteger s | TNumber s => match parse_number s with Some (ip, fp) => Some (SNum false ip fp :: vs) | None => Some vs end
          | TString s | TIdent s | TDuration s => match s with [] => Some vs | _ => Some (SStr s :: vs) end
          | _ => Some vs
          end
      end
  end.
Definition parse_set (toks : list token) : option (list setval) :=
  match skip_ws toks with
  | TLParen :: r => parse_set_items r
  | _ => None
  end.

Definition setval_nonneg (v : setval) : bool :=
  match v with SNum neg _ fp => negb neg && frac_ok fp | SStr s => match s with [] => false | _ => true end end.
