(* C05 correspondence evaluator: runs the model on the harness cases and classifies each case.
   Result code per case: 0 = agrees with the model (both variants where a variant exists), 1 = agrees only with
   today's variant (_current), 2 = agrees only with the repaired variant, 3 = disagrees with the model. *)
From Coq Require Import List Arith NArith ZArith Bool.
From OG Require Import C05.Model C05.Trunc C05.ReadPath C05.RestartRace C05.Coord.
Import ListNotations.

Fixpoint list_eqb {A} (eqb : A -> A -> bool) (a b : list A) : bool :=
  match a, b with
  | [], [] => true
  | x :: a', y :: b' => eqb x y && list_eqb eqb a' b'
  | _, _ => false
  end.

Definition rg_eqb (a b : option (nat * list nat)) : bool :=
  match a, b with
  | None, None => true
  | Some (m, ps), Some (m', ps') => Nat.eqb m m' && list_eqb Nat.eqb ps ps'
  | _, _ => false
  end.

Inductive mev :=                      (* compact model events of the ack scenarios *)
| MP (n : nat) (b : batch) | MK (n : nat) | MR (n : nat) | ME (n : nat)
| MRR (m k : nat) | MRC (k : nat) | MRL (m c : nat) | MA (n cnt : nat).

Definition expand (e : mev) : list event :=
  match e with
  | MP n b => [Propose n b] | MK n => [Kill n] | MR n => [Restart n] | ME n => [RElect n]
  | MRR m k => [RReplicate m k] | MRC k => [RCommit k] | MRL m c => [RLearn m c]
  | MA n cnt => repeat (Apply n) cnt
  end.

Inductive oev :=
| OAck (b : batch) | ONoAck (b : batch)
| OKill (n : nat) | ORestart (n : nat) | OPause (n : nat) | OResume (n : nat)
| ORead (kvs : list (key * val)).

Inductive wstep :=
| WE (e : event)
| WAck (b : batch)              (* the request was acknowledged: b must be in the model's acked set now *)
| WNoAck (b : batch)            (* unacknowledged request (it may or may not have reached WriteToRaft) *)
| WRead (kvs : list (key * val)).

Inductive case :=
| CRot (m : nat) (ps : list (nat * bool)) (online : list nat) (newm : nat)
       (gn : option (nat * list nat)) (upd : option (nat * list nat)) (gp : list nat) (el : option (nat * list nat))
| CDw (ty : N) (ident : list N) (pid : N) (data : list N) (bytes : list N)
| CDwBad (bytes : list N) (res : option (N * list N * N * list N))
| CReplay (fs n commit snp : nat) (clears : list nat) (first : nat) (rep : option (nat * nat * nat)) (appl : nat)
| CAck (evs : list mev) (acks : list batch) (final : list (key * val))
| CAckErr (acked : bool)
| CCoord (script : list wres) (acked : bool) (calls : nat)
| CGroup (forced lost : bool)
| CHist (obs : list oev) (w : list wstep)
| CConflict (old : list batch) (j : nat) (new : list batch) (applied : list batch)
| CTrunc (fsz first last : N) (T : Z) (rs : list (Z * bool * list bool * list N * N * option N * bool))
| CGroupT (stale lost : bool)
| CGroupL (lost : bool)
| CGroupR (lost : bool)
| CPersist (acks : list (nat * nat * nat * nat))   (* per acknowledgement: index, term, last index / durable term at the hand-off *)
| CBatch (scripts : list (list wres)) (acked : bool) (calls : list nat)
| CReadSel (health : bool) (master : nat) (online : list bool) (shard_pts : list nat) (sel : list nat)
| CSend (fsz first last snp : N) (probes : list (N * bool)) (slots : list (N * option nat * Z * bool)).

Definition dw_eqb (a : option dwrap) (b : option (N * list N * N * list N)) : bool :=
  match a, b with
  | None, None => true
  | Some d, Some (ty, id, pid, data) =>
      N.eqb (dw_type d) ty && list_eqb N.eqb (dw_ident d) id && N.eqb (dw_pid d) pid && list_eqb N.eqb (dw_data d) data
  | _, _ => false
  end.

Fixpoint mklog (n : nat) (i : N) : list entry :=
  match n with O => [] | S n' => EData 1 i [(i, 0%Z)] :: mklog n' (N.succ i) end.

(* restart-replay scenario on the model: a member with n entries (entry i writes key i), own snapshot index snp,
   the ClearEntryLog indexes applied with the variant's rule, killed and restarted *)
Definition replay_model (clampv : bool) (fs n commit snp : nat) (clears : list nat) : nat * option (nat * nat * nat) * nat :=
  let c := mkCfg 3 fs true clampv true true false in
  let lg := mklog n 1%N in
  let x0 := mkNode true false lg 0 commit snp [] [] [] 0 snp [] [] false [] 0%N in
  let x1 := fold_left (fun x idx => apply_node c 0 x (EClear idx)) clears x0 in
  let x2 := restart_node c (kill_node c x1) in
  let ks := rev (map (fun kv => N.to_nat (fst kv)) (firstn (length (mem x2) - length (mem x1)) (mem x2))) in
  (S (efirst x2), match ks with [] => None | k :: _ => Some (k, last ks k, length ks) end, applied x2).

Definition replay_eqb (a b : nat * option (nat * nat * nat) * nat) : bool :=
  match a, b with
  | (f, r, ap), (f', r', ap') =>
      Nat.eqb f f' && Nat.eqb ap ap' &&
      match r, r' with
      | None, None => true
      | Some (x, y, z), Some (x', y', z') => Nat.eqb x x' && Nat.eqb y y' && Nat.eqb z z'
      | _, _ => false
      end
  end.

Definition batch_in (b : batch) (l : list batch) : bool := existsb (batch_eqb b) l.
Definition same_batches (a b : list batch) : bool :=
  Nat.eqb (length a) (length b) && forallb (fun x => batch_in x b) a && forallb (fun x => batch_in x a) b.

Definition ack_model (fresh : bool) (evs : list mev) : option (list batch * sys) :=
  match run raft_ref (init (mkCfg 3 30000 true true fresh true false)) (flat_map expand evs) with
  | Some s => Some (map (fun a => snd a) (acked s), s)
  | None => None
  end.

Definition ack_agrees (fresh : bool) (evs : list mev) (acks : list batch) (final : list (key * val)) : bool :=
  match ack_model fresh evs with
  | Some (ma, s) =>
      same_batches ma acks &&
      forallb (fun kv => match read s 0 (fst kv) with Some v => Z.eqb v (snd kv) | None => false end) final &&
      Nat.eqb (length final) (length (nodup N.eq_dec (map fst (view (nodes s 0)))))
  | None => false
  end.

(* a follower whose log is overwritten from index k-j+1 by the new leader (effect of RReplicate: the log becomes a
   prefix of the leader's log = kept prefix ++ new entries; an empty batch is the leader's no-op); what it applies *)
Definition conflict_applied (old : list batch) (j : nat) (new : list batch) : list batch :=
  let ent := fun b : batch => match b with [] => ENoop | _ => EData 1 0%N b end in
  let leader_log := firstn (length old - j) (map ent old) ++ map ent new in
  let follower := with_elog node0 (map ent old) in
  let follower' := with_elog follower (firstn (length leader_log) leader_log) in
  flat_map (fun e => match e with EData _ _ b => [b] | _ => [] end) (elog follower').

(* ---------------------------------------------------------------- acceptance of a recorded black-box history.
   obs  = what was observed at the cluster (write requests with/without acknowledgement, kills, restarts, pauses,
          resumes, full read answers), in order.
   w    = a candidate model execution (events of the model under the reference raft oracle, with check points).
   accepted = w projects exactly onto obs, every event of w is enabled, a majority is available after every event,
   every acknowledged batch is in the model's acked set at its check point, every read answer equals what the
   caught-up master replica of the model returns, and the model acknowledges nothing else. *)
Definition kv_eqb (a b : key * val) : bool := N.eqb (fst a) (fst b) && Z.eqb (snd a) (snd b).
Definition oev_eqb (a b : oev) : bool :=
  match a, b with
  | OAck x, OAck y | ONoAck x, ONoAck y => batch_eqb x y
  | OKill x, OKill y | ORestart x, ORestart y | OPause x, OPause y | OResume x, OResume y => Nat.eqb x y
  | ORead x, ORead y => list_eqb kv_eqb x y
  | _, _ => false
  end.

Definition project (w : list wstep) : list oev :=
  flat_map (fun x => match x with
                     | WE (Kill n) => [OKill n] | WE (Restart n) => [ORestart n]
                     | WE (Pause n) => [OPause n] | WE (Resume n) => [OResume n]
                     | WE _ => []
                     | WAck b => [OAck b] | WNoAck b => [ONoAck b] | WRead kvs => [ORead kvs]
                     end) w.

Fixpoint accepts_from (s : sys) (w : list wstep) : option sys :=
  match w with
  | [] => Some s
  | WE e :: r =>
      match step raft_ref s e with
      | Some s' => if minority_down s' then accepts_from s' r else None
      | None => None
      end
  | WAck b :: r => if batch_in b (map (fun a => snd a) (acked s)) then accepts_from s r else None
  | WNoAck _ :: r => accepts_from s r
  | WRead kvs :: r =>
      let m := master s in
      if caught_up s m
         && forallb (fun kv => match read s m (fst kv) with Some v => Z.eqb v (snd kv) | None => false end) kvs
         && Nat.eqb (length kvs) (length (nodup N.eq_dec (map fst (view (nodes s m)))))
      then accepts_from s r else None
  end.

Definition accepts (obs : list oev) (w : list wstep) : bool :=
  list_eqb oev_eqb (project w) obs &&
  match accepts_from (init (cfg_repaired 3 30000)) w with
  | Some s => same_batches (map (fun a => snd a) (acked s))
                           (flat_map (fun o => match o with OAck b => [b] | _ => [] end) obs)
  | None => false
  end.

(* index of the first witness step that is rejected (for diagnostics) *)
Fixpoint reject_at (s : sys) (w : list wstep) (i : nat) : option nat :=
  match w with
  | [] => None
  | x :: r =>
      match accepts_from s [x] with
      | Some s' => reject_at s' r (S i)
      | None => Some i
      end
  end.

(* the long-outage scenario of the real 3-node group: member 2 is down while the others write (with an overwrite),
   flush and run the truncation decision; then it rejoins. forced = the tolerate-time/size branch acted. Result: does the
   rejoined, caught-up member lack an acknowledged value? today = truncation branches as coded + raft snapshot install *)
Definition outage_trace (forced : bool) : list event :=
  [ RElect 0;
    Propose 0 [(1%N, 10%Z)]; RReplicate 1 1; RReplicate 2 1; RCommit 1; RLearn 0 1; RLearn 1 1; RLearn 2 1;
    Apply 0; Apply 1; Apply 2; Kill 2;
    Propose 0 [(1%N, 11%Z)]; Propose 0 [(2%N, 20%Z)]; RReplicate 1 3; RCommit 3; RLearn 0 3; RLearn 1 3;
    Apply 0; Apply 0; Apply 1; Apply 1;
    UpdSnapc 0; FlushSwap 0; SnapPersist 0; FlushCommit 0; UpdSnapc 1; FlushSwap 1; SnapPersist 1; FlushCommit 1 ]
  ++ (if forced then [TruncForce 3; RReplicate 1 4; RCommit 4; RLearn 0 4; RLearn 1 4; Apply 0; Apply 1; Restart 2; RSnapshot 2]
      else [Restart 2; RReplicate 2 3; RLearn 2 3; Apply 2; Apply 2]).

Definition group_lost (today forced : bool) : bool :=
  match run raft_ref (init (if today then cfg_today 3 2 else cfg_repaired 3 2)) (outage_trace forced) with
  | Some s => negb (match read s 2 1%N with Some v => Z.eqb v 11 | None => false end)
  | None => false      (* the forced truncation is not enabled: nothing is lost *)
  end.

(* a sequence of truncation-decision rounds: (clock units that pass before the round, leader?, alive flags, Match
   values, snapshot index, observed proposal, observed "tolerance period running") *)
Definition optN_eqb (a b : option N) : bool :=
  match a, b with None, None => true | Some x, Some y => N.eqb x y | _, _ => false end.
Definition proposal (d : decision) : option N := match d with DNone => None | DHealthy i | DForce i => Some i end.

Fixpoint trunc_agrees (tc : tcfg) (T : Z) (L : layout) (st : option Z) (now : Z)
                      (rs : list (Z * bool * list bool * list N * N * option N * bool)) : bool :=
  match rs with
  | [] => true
  | (adv, lead, alive, mt, snp, prop, armed) :: q =>
      let now' := (now + adv)%Z in
      let r := decide tc T L st (mkRound now' lead alive mt snp) in
      optN_eqb (proposal (snd r)) prop && Bool.eqb (match fst r with Some _ => true | None => false end) armed
      && trunc_agrees tc T L (fst r) now' q
  end.

(* the two-outage scenarios of the real 3-node group as seen by the node that led during the first outage (tolerate
   time 60 minutes): second = outage, recovery seen as the leader, two hours, second outage with three rounds;
   stale = the leadership is lost during the first outage and regained during the second one *)
Definition two_outage_rounds (stale : bool) : list round :=
  let dn := [true; true; false] in let al := [true; true; true] in let m := [9%N; 9%N; 9%N] in
  [ mkRound 0 true dn m 5 ] ++
  (if stale then [ mkRound 0 false dn m 5; mkRound 1 false al m 5 ] else [ mkRound 1 true al m 5 ]) ++
  [ mkRound 121 true dn m 9; mkRound 122 true dn m 9; mkRound 123 true dn m 9 ].
Definition two_outage_forced (tc : tcfg) (stale : bool) : bool :=
  existsb (fun d => match d with DForce _ => true | _ => false end)
          (decisions tc 60 (mkLay 30000 1 20) None (two_outage_rounds stale)).

Definition variant (cur rep : bool) : nat :=
  match cur, rep with true, true => 0 | true, false => 1 | false, true => 2 | false, false => 3 end.

Definition classify (c : case) : nat :=
  match c with
  | CRot m ps online newm gn upd gp el =>
      let ids := map fst ps in
      let ok := rg_eqb (get_new_rg m ids newm) gn
                && (match gn with Some _ => rg_eqb gn upd | None => true end)
                && list_eqb Nat.eqb (generate_new_peer m ids newm) gp
                && rg_eqb (elect_rg_master m ps (fun p => existsb (Nat.eqb p) online)) el in
      if ok then 0 else 3
  | CDw ty ident pid data bytes =>
      let d := mkDw ty ident pid data in
      if list_eqb N.eqb (dw_marshal d) bytes && dw_eqb (dw_unmarshal bytes) (Some (ty, ident, pid, data)) then 0 else 3
  | CDwBad bytes res => if dw_eqb (dw_unmarshal bytes) res then 0 else 3
  | CReplay fs n commit snp clears first rep appl =>
      variant (replay_eqb (replay_model false fs n commit snp clears) (first, rep, appl))
              (replay_eqb (replay_model true fs n commit snp clears) (first, rep, appl))
  | CAck evs acks final => variant (ack_agrees false evs acks final) (ack_agrees true evs acks final)
  | CCoord script acked calls =>
      let lst := last script WFail in
      let r := coord_retry 1000 (removelast script) lst 0 in
      match lst with
      | WRetry => if Bool.eqb (fst (coord_retry 3 (removelast script) lst 0)) acked && Nat.leb (length script) calls then 0 else 3
      | _ => if Bool.eqb (fst r) acked && Nat.eqb (snd r) calls then 0 else 3
      end
  | CGroup forced lost => variant (Bool.eqb (group_lost true forced) lost) (Bool.eqb (group_lost false forced) lost)
  | CHist obs w => if accepts obs w then 0 else 3
  | CConflict old j new applied =>
      if list_eqb batch_eqb (conflict_applied old j new) applied then 0 else 3
  | CAckErr acked =>
      variant (Bool.eqb (commit_result_current true false) acked) (Bool.eqb (commit_result_repaired true false) acked)
  | CTrunc fsz first last T rs =>
      let L := mkLay fsz first last in
      variant (trunc_agrees tcfg_current T L None 0 rs) (trunc_agrees tcfg_repaired T L None 0 rs)
  | CSend fsz first last snp probes slots =>
      let E := layout_files fsz first last in
      let optnat_eqb := fun a b : option nat => match a, b with None, None => true | Some x, Some y => Nat.eqb x y | _, _ => false end in
      if forallb (fun p => Bool.eqb (send_append true E snp (fst p + 1)) (snd p)) probes
         && forallb (fun q => match q with (i, f, off, tok) =>
                                let r := slot_ge true E i in
                                optnat_eqb (fst r) f && Z.eqb (snd r) off && Bool.eqb (storage_term_ok true E snp i) tok
                              end) slots
      then 0 else 3
  | CGroupL lost =>
      (* scenario lagmaster: does the replica that answers after the master's store died lack the acknowledged overwrite? *)
      let m := fun aware : bool =>
        match run raft_ref (init (cfg_repaired 3 2)) lagmaster_trace with
        | Some s => match (if aware then elect_caught_up s else elect_today s) with
                    | Some (nm, _) => negb (match read s nm 1%N with Some v => Z.eqb v 11 | None => false end)
                    | None => false
                    end
        | None => false
        end in
      variant (Bool.eqb (m false) lost) (Bool.eqb (m true) lost)
  | CBatch scripts acked calls =>
      (* per shard as in CCoord: a script that ends in WRetry models "no master for longer than the timeout" (the number
         of attempts depends on the clock: at least the scripted ones) *)
      let one := fun (sc : list wres) (k : nat) =>
        match last sc WFail with
        | WRetry => (fst (coord_retry 3 (removelast sc) WRetry 0), Nat.leb (length sc) k)
        | l => let r := coord_retry 1000 (removelast sc) l 0 in (fst r, Nat.eqb (snd r) k)
        end in
      let rs := map (fun p => one (fst p) (snd p)) (combine scripts calls) in
      if Nat.eqb (length scripts) (length calls) && Bool.eqb (forallb fst rs) acked && forallb snd rs
         && Bool.eqb (fst (batch_write 1000 (filter (fun sc => match last sc WFail with WRetry => false | _ => true end) scripts))
                      && forallb (fun sc => match last sc WFail with WRetry => false | _ => true end) scripts) acked
      then 0 else 3
  | CPersist acks =>
      (* follower path of the model: an acknowledgement carries only what is durable *)
      if forallb (fun a => match a with (i, t, la, ta) => Nat.leb i la && Nat.leb t ta end) acks then 0 else 3
  | CGroupR lost =>
      (* scenario replayrace: the rejoined member's replay is slower than the entries shipped by the leader *)
      let x := mkNode false false [EData 0 1%N [(1%N, 10%Z)]; EData 0 2%N [(1%N, 11%Z)]] 0 1 0 [(1%N, 10%Z)] [] [] 0 0 [] [] false [] 0%N in
      let es := [EData 0 2%N [(1%N, 11%Z)]] in
      let stale := fun y : node => negb (match get (view y) 1%N with Some v => Z.eqb v 11 | None => false end) in
      variant (Bool.eqb (stale (apply_then_replay (cfg_today 3 2) 1 x es)) lost)
              (Bool.eqb (stale (replay_then_apply (cfg_today 3 2) 1 x es)) lost)
  | CReadSel health master online shard_pts sel =>
      if list_eqb Nat.eqb (read_shards health master (fun p => nth p online false) shard_pts) sel then 0 else 3
  | CGroupT stale lost =>
      variant (Bool.eqb (group_lost true (two_outage_forced tcfg_current stale)) lost)
              (Bool.eqb (group_lost true (two_outage_forced tcfg_repaired stale)) lost)
  end.

Definition classify_all (cs : list case) : list nat := map classify cs.
