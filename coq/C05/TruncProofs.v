(* C05 lemmas, part 5: the tolerance timer of the truncation decision, the entry-log lookup over several files, and
   the leader's choice between appending entries and sending a snapshot. *)
From Coq Require Import List NArith ZArith Bool Lia.
From OG Require Import C05.Trunc.
Import ListNotations.

(* ------------------------------------------------------------------ (A) the tolerance timer *)
(* a round that leaves a running tolerance period running, for the given variant *)
Definition quiet (tc : tcfg) (q : round) : Prop :=
  (t_clear_follower tc = true -> r_lead q = true) /\
  (t_clear_health tc = true -> ~ (r_lead q = true /\ r_snap q <> 0%N /\ all_alive q = true)).

(* the round that started the period: a leader with a snapshot that saw a member not alive *)
Definition starts (a : round) : Prop := r_lead a = true /\ r_snap a <> 0%N /\ all_alive a = false.

Lemma tstate_app : forall tc T L a b st, tstate tc T L st (a ++ b) = tstate tc T L (tstate tc T L st a) b.
Proof. induction a as [|x a IH]; intros b st; cbn; [reflexivity|apply IH]. Qed.

Lemma decisions_app : forall tc T L a b st,
  decisions tc T L st (a ++ b) = decisions tc T L st a ++ decisions tc T L (tstate tc T L st a) b.
Proof. induction a as [|x a IH]; intros b st; cbn; [reflexivity|rewrite IH; reflexivity]. Qed.

(* invariant: a running period was started by a round of the sequence and every round since was quiet *)
Definition running (tc : tcfg) (pre : list round) (st : option Z) : Prop :=
  match st with
  | None => True
  | Some t => exists p a w, pre = p ++ a :: w /\ t = r_now a /\ starts a /\ Forall (quiet tc) (a :: w)
  end.

Lemma N_eqb_false_neq : forall a b : N, (a =? b)%N = false -> a <> b.
Proof. intros a b H E; subst; rewrite N.eqb_refl in H; discriminate. Qed.

Lemma running_step : forall tc T L pre st x,
  running tc pre st -> running tc (pre ++ [x]) (fst (decide tc T L st x)).
Proof.
  intros tc T L pre st x Hr. unfold decide.
  assert (Ext : forall t, st = Some t -> quiet tc x -> running tc (pre ++ [x]) (Some t)).
  { intros t -> Hq. cbn in Hr. destruct Hr as (p & a & w & -> & Ht & Hs & Hf).
    exists p, a, (w ++ [x]). split; [rewrite <- app_assoc; reflexivity|]. split; [assumption|]. split; [assumption|].
    change (a :: w ++ [x]) with ((a :: w) ++ [x]). apply Forall_app; split; [assumption|constructor; [assumption|constructor]]. }
  destruct (r_lead x) eqn:Hl; cbn [negb].
  2:{ cbn [fst]. destruct (t_clear_follower tc) eqn:Hcf; [exact I|].
      destruct st as [t|]; [|exact I]. apply Ext; [reflexivity|]. split; [congruence|]. intros _ (A & _); congruence. }
  destruct (r_snap x =? 0)%N eqn:Hs.
  { cbn [fst]. apply N.eqb_eq in Hs. destruct st as [t|]; [|exact I]. apply Ext; [reflexivity|].
    split; [intros _; assumption|]. intros _ (_ & B & _); contradiction. }
  apply N_eqb_false_neq in Hs.
  destruct (all_alive x) eqn:Ha.
  { cbn [fst]. destruct (t_clear_health tc) eqn:Hch; [exact I|].
    destruct st as [t|]; [|exact I]. apply Ext; [reflexivity|]. split; [intros _; assumption|congruence]. }
  assert (Hq : quiet tc x) by (split; [intros _; assumption|intros _ (_ & _ & C); congruence]).
  destruct st as [t|].
  - destruct (T <? r_now x - t)%Z; cbn [fst]; [exact I|]. apply Ext; [reflexivity|assumption].
  - destruct (T <? r_now x - r_now x)%Z; cbn [fst]; [exact I|].
    exists pre, x, []. repeat split; try assumption; try reflexivity. constructor; [assumption|constructor].
Qed.

Lemma running_run : forall tc T L pre, running tc pre (tstate tc T L None pre).
Proof.
  intros tc T L pre. induction pre as [|x pre IH] using rev_ind; [exact I|].
  rewrite tstate_app. cbn [tstate]. apply running_step. assumption.
Qed.

(* the general statement, for every variant: a forced truncation ends a window of quiet rounds that began with a
   leader round that saw a member down, more than T earlier *)
Lemma forced_window : forall tc T L pre r idx,
  snd (decide tc T L (tstate tc T L None pre) r) = DForce idx ->
  exists p a w, pre ++ [r] = p ++ a :: w /\ starts a /\ (T < r_now r - r_now a)%Z /\ Forall (quiet tc) (a :: w).
Proof.
  intros tc T L pre r idx H.
  pose proof (running_run tc T L pre) as Hr. destruct (tstate tc T L None pre) as [t|] eqn:Est; unfold decide in H.
  - destruct (r_lead r) eqn:Hl; cbn [negb snd] in H; [|discriminate].
    destruct (r_snap r =? 0)%N eqn:Hs; [discriminate|]. apply N_eqb_false_neq in Hs.
    destruct (all_alive r) eqn:Ha; [discriminate|].
    destruct (T <? r_now r - t)%Z eqn:Ht; [|discriminate]. apply Z.ltb_lt in Ht.
    cbn in Hr. destruct Hr as (p & a & w & -> & Hta & Hst & Hf). subst t.
    exists p, a, (w ++ [r]). split; [rewrite <- app_assoc; reflexivity|]. split; [assumption|]. split; [assumption|].
    change (a :: w ++ [r]) with ((a :: w) ++ [r]). apply Forall_app; split; [assumption|].
    constructor; [|constructor]. split; [intros _; assumption|intros _ (_ & _ & C); congruence].
  - destruct (r_lead r) eqn:Hl; cbn [negb snd] in H; [|discriminate].
    destruct (r_snap r =? 0)%N eqn:Hs; [discriminate|]. apply N_eqb_false_neq in Hs.
    destruct (all_alive r) eqn:Ha; [discriminate|].
    destruct (T <? r_now r - r_now r)%Z eqn:Ht; [|discriminate]. apply Z.ltb_lt in Ht.
    exists pre, r, []. repeat split; try assumption; try reflexivity.
    constructor; [|constructor]. split; [intros _; assumption|intros _ (_ & _ & C); congruence].
Qed.

Lemma clock_mono_app : forall a b, clock_mono (a ++ b) ->
  clock_mono b /\ forall x y, In x a -> In y b -> (r_now x <= r_now y)%Z.
Proof.
  induction a as [|z a IH]; intros b H; cbn in *; [split; [assumption|intros x y []]|].
  destruct H as [H1 H2]. destruct (IH _ H2) as [A B]. split; [assumption|].
  intros x y [->|Hx] Hy; [apply H1; apply in_or_app; right; assumption|apply B; assumption].
Qed.

Lemma snap_stays_app : forall a b, snap_stays (a ++ b) -> snap_stays b.
Proof. induction a as [|z a IH]; intros b H; cbn in *; [assumption|apply IH; tauto]. Qed.

Lemma snap_stays_head : forall a w x, snap_stays (a :: w) -> r_snap a <> 0%N -> In x (a :: w) -> r_snap x <> 0%N.
Proof. intros a w x [H _] Ha [<-|Hx]; [assumption|apply H; assumption]. Qed.

(* repaired variant: every round of the window is a leader round that saw a member down *)
Lemma forced_continuous_outage : forall T L pre r idx,
  snap_stays (pre ++ [r]) ->
  snd (decide tcfg_repaired T L (tstate tcfg_repaired T L None pre) r) = DForce idx ->
  exists p a w, pre ++ [r] = p ++ a :: w /\ (T < r_now r - r_now a)%Z /\
                forall q, In q (a :: w) -> r_lead q = true /\ all_alive q = false.
Proof.
  intros T L pre r idx Hss H. destruct (forced_window _ _ _ _ _ _ H) as (p & a & w & E & (Sl & Ss & Sa) & Ht & Hf).
  exists p, a, w. split; [assumption|]. split; [assumption|].
  intros q Hq. rewrite Forall_forall in Hf. destruct (Hf q Hq) as [Q1 Q2]. cbn in Q1, Q2.
  specialize (Q1 eq_refl). split; [assumption|].
  rewrite E in Hss. apply snap_stays_app in Hss. pose proof (snap_stays_head _ _ _ Hss Ss Hq) as Hsq.
  destruct (all_alive q) eqn:Ea; [|reflexivity]. exfalso. apply (Q2 eq_refl). repeat split; assumption.
Qed.

(* repaired variant: whenever this node (in any role) saw every member alive at some time, no forced truncation
   happens until more than the tolerate time later *)
Lemma forced_not_within_tolerance_of_health : forall T L pre r idx q,
  clock_mono (pre ++ [r]) -> snap_stays (pre ++ [r]) ->
  snd (decide tcfg_repaired T L (tstate tcfg_repaired T L None pre) r) = DForce idx ->
  In q pre -> all_alive q = true -> (T < r_now r - r_now q)%Z.
Proof.
  intros T L pre r idx q Hcm Hss H Hq Hal.
  destruct (forced_continuous_outage _ _ _ _ _ Hss H) as (p & a & w & E & Ht & Hw).
  assert (Hin : In q (p ++ a :: w)) by (rewrite <- E; apply in_or_app; left; assumption).
  apply in_app_or in Hin. destruct Hin as [Hp|Hw'].
  - rewrite E in Hcm. destruct (clock_mono_app _ _ Hcm) as [_ B]. specialize (B q a Hp (or_introl eq_refl)). lia.
  - destruct (Hw q Hw') as [_ C]. congruence.
Qed.

(* today's code: a healthy round of the LEADER (with a snapshot) does clear the timer *)
Lemma forced_not_within_tolerance_of_leader_health : forall T L pre r idx q,
  clock_mono (pre ++ [r]) ->
  snd (decide tcfg_current T L (tstate tcfg_current T L None pre) r) = DForce idx ->
  In q pre -> r_lead q = true -> r_snap q <> 0%N -> all_alive q = true -> (T < r_now r - r_now q)%Z.
Proof.
  intros T L pre r idx q Hcm H Hq Hl Hs Hal.
  destruct (forced_window _ _ _ _ _ _ H) as (p & a & w & E & _ & Ht & Hf).
  assert (Hin : In q (p ++ a :: w)) by (rewrite <- E; apply in_or_app; left; assumption).
  apply in_app_or in Hin. destruct Hin as [Hp|Hw'].
  - rewrite E in Hcm. destruct (clock_mono_app _ _ Hcm) as [_ B]. specialize (B q a Hp (or_introl eq_refl)). lia.
  - rewrite Forall_forall in Hf. destruct (Hf q Hw') as [_ Q2]. exfalso. apply (Q2 eq_refl). repeat split; assumption.
Qed.

(* ------------------------------------------------------------------ (B) entry-log lookup *)
Lemma find_ge_spec : forall fsz fs nxt k i,
  contig fsz fs nxt -> (nxt <= i)%N -> (i < files_end fs nxt)%N ->
  exists j fi cnt, nth_error fs j = Some (fi, cnt) /\ (fi <= i)%N /\ (i < fi + cnt)%N /\
    (forall fi' c', nth_error fs (S j) = Some (fi', c') -> (i < fi')%N) /\
    ((i = fi /\ find_ge fs i k = k + j) \/ ((fi < i)%N /\ find_ge fs i k = k + S j)).
Proof.
  intros fsz fs. induction fs as [|[fi cnt] r IH]; intros nxt k i Hc Hlo Hhi; cbn in *; [lia|].
  destruct Hc as (-> & Hc1 & Hc2 & Hc3).
  destruct (N.lt_ge_cases i (nxt + cnt)) as [Hin|Hout].
  - exists 0, nxt, cnt. split; [reflexivity|]. split; [assumption|]. split; [assumption|]. split.
    + intros fi' c' Hn. cbn in Hn. destruct r as [|[f2 c2] r2]; [discriminate|]. inversion Hn; subst.
      cbn in Hc3. destruct Hc3 as (-> & _). assumption.
    + destruct (N.eq_dec i nxt) as [->|Hne].
      * left. split; [reflexivity|]. rewrite N.leb_refl. lia.
      * right. split; [lia|]. assert (E : (i <=? nxt)%N = false) by (apply N.leb_gt; lia). rewrite E.
        destruct r as [|[f2 c2] r2]; cbn; [lia|]. cbn in Hc3. destruct Hc3 as (-> & _).
        assert (E2 : (i <=? nxt + cnt)%N = true) by (apply N.leb_le; lia). rewrite E2. lia.
  - assert (E : (i <=? nxt)%N = false) by (apply N.leb_gt; lia). rewrite E.
    destruct (IH (nxt + cnt)%N (S k) i Hc3 Hout Hhi) as (j & f & c & Hn & H1 & H2 & H3 & H4).
    exists (S j), f, c. split; [assumption|]. split; [assumption|]. split; [assumption|]. split; [assumption|].
    destruct H4 as [[A B]|[A B]]; [left|right]; (split; [assumption|rewrite B; lia]).
Qed.

Lemma files_end_ge : forall fsz fs nxt, contig fsz fs nxt -> (nxt <= files_end fs nxt)%N.
Proof.
  intros fsz fs. induction fs as [|[fi cnt] r IH]; intros nxt H; cbn in *; [lia|].
  destruct H as (-> & H1 & H2 & H3). specialize (IH _ H3). lia.
Qed.

Lemma contig_nth : forall fsz fs nxt j fi cnt, contig fsz fs nxt -> nth_error fs j = Some (fi, cnt) ->
  (0 < cnt)%N /\ (cnt <= fsz)%N /\ (nxt <= fi)%N.
Proof.
  intros fsz fs. induction fs as [|[f c] r IH]; intros nxt j fi cnt H Hn; destruct j; cbn in *; try discriminate.
  - inversion Hn; subst. destruct H as (-> & H1 & H2 & _). repeat split; try assumption; lia.
  - destruct H as (-> & H1 & H2 & H3). destruct (IH _ _ _ _ H3 Hn) as (A & B & C). repeat split; try assumption; lia.
Qed.

Lemma rev_last_files : forall fsz fs nxt, contig fsz fs nxt -> fs <> [] ->
  exists fi cnt, rev fs = (fi, cnt) :: tl (rev fs) /\ (fi + cnt)%N = files_end fs nxt.
Proof.
  intros fsz fs. induction fs as [|[f c] r IH]; intros nxt H Hne; [contradiction|].
  cbn in H. destruct H as (-> & H1 & H2 & H3). destruct r as [|x r'].
  - exists nxt, c. cbn. split; reflexivity.
  - destruct (IH _ H3) as (fi & cnt & E & F); [discriminate|].
    exists fi, cnt. cbn [rev] in *. rewrite E. cbn. split; [reflexivity|]. cbn [files_end] in *. assumption.
Qed.

(* every entry of a contiguously written log is found, whichever file it is in *)
Lemma wf_shape : forall E, wf_files E ->
  (ef_files E = [] /\ ((0 < fst (ef_cur E))%N \/ snd (ef_cur E) = 0%N)) \/
  (exists f0, (0 < f0)%N /\ ef_files E <> [] /\ hd (0%N, 0%N) (ef_files E) = (f0, snd (hd (0%N, 0%N) (ef_files E))) /\
              contig (ef_fsz E) (ef_files E) f0 /\ fst (ef_cur E) = files_end (ef_files E) f0).
Proof.
  intros [fsz fs [cf cc]] (_ & H & _). cbn [ef_fsz ef_files ef_cur fst snd] in *.
  destruct fs as [|[f0 c0] r]; [left; split; [reflexivity|assumption]|].
  right. exists f0. destruct H as (A & B & C). split; [assumption|]. split; [discriminate|]. split; [reflexivity|]. split; assumption.
Qed.

Lemma log_first_files : forall E f0, ef_files E <> [] -> hd (0%N, 0%N) (ef_files E) = (f0, snd (hd (0%N, 0%N) (ef_files E))) ->
  (0 < f0)%N -> log_first E = f0.
Proof.
  intros [fsz fs cur] f0 Hne Hh Hp. unfold log_first. cbn [ef_files ef_cur] in *.
  destruct fs as [|x r]; [contradiction|]. cbn in Hh. rewrite Hh. cbn [fst].
  destruct (f0 =? 0)%N eqn:E0; [apply N.eqb_eq in E0; lia|reflexivity].
Qed.

Lemma log_last_cur : forall E, wf_files E -> (log_last E + 1 = fst (ef_cur E) + snd (ef_cur E))%N \/ (ef_files E = [] /\ snd (ef_cur E) = 0%N).
Proof.
  intros E Hwf. pose proof (wf_shape _ Hwf) as Hs. destruct E as [fsz fs [cf cc]]. cbn [ef_fsz ef_files ef_cur fst snd] in *.
  unfold log_last. cbn [ef_files ef_cur fst snd].
  destruct (0 <? cc)%N eqn:Ec; [apply N.ltb_lt in Ec; left; lia|]. apply N.ltb_ge in Ec. assert (cc = 0%N) by lia. subst cc.
  destruct Hs as [[-> _]|(f0 & Hf0 & Hne & _ & Hc & Hcf)]; [right; split; reflexivity|].
  left. destruct (rev_last_files _ _ _ Hc Hne) as (fi & cnt & E1 & E2). rewrite E1. pose proof (contig_nth fsz fs f0) as Hn.
  assert (0 < cnt)%N.
  { assert (Hin : In (fi, cnt) fs) by (apply (proj2 (in_rev fs (fi, cnt))); rewrite E1; left; reflexivity).
    apply In_nth_error in Hin. destruct Hin as [j Hj]. destruct (Hn _ _ _ Hc Hj) as (A & _). assumption. }
  lia.
Qed.

Lemma seek_finds : forall E i, wf_files E -> (log_first E <= i)%N -> (i <= log_last E)%N -> seek true E i = SFound i.
Proof.
  intros E i Hwf Hlo Hhi.
  pose proof (wf_shape _ Hwf) as Hshape. pose proof (log_last_cur _ Hwf) as Hlast.
  destruct Hwf as (Hfsz & _ & Hcc).
  destruct E as [fsz fs [cf cc]]. cbn [ef_fsz ef_files ef_cur fst snd] in *.
  unfold seek. cbn [ef_fsz ef_files ef_cur].
  assert (Hi0 : (0 < i)%N).
  { unfold log_first in Hlo. cbn [ef_files ef_cur fst] in Hlo.
    destruct (match fs with [] => cf | f :: _ => fst f end =? 0)%N eqn:E0; [lia|]. apply N_eqb_false_neq in E0. lia. }
  assert (Ei0 : (i =? 0)%N = false) by (apply N.eqb_neq; lia). rewrite Ei0.
  unfold slot_ge. cbn [ef_files ef_cur].
  destruct Hlast as [Hlast|[-> ->]].
  2:{ exfalso. unfold log_last in Hhi. cbn in Hhi. lia. }
  (* in the current file? *)
  destruct (N.lt_ge_cases i cf) as [Hbelow|Hin].
  2:{ assert (Hcf : (0 < cf)%N).
      { destruct Hshape as [[-> [A|A]]|(f0 & Hf0 & _ & _ & Hc & Hcf)].
        - assumption.
        - subst cc. unfold log_last in Hhi. cbn in Hhi. lia.
        - pose proof (files_end_ge _ _ _ Hc). lia. }
      assert (Hccp : (i < cf + cc)%N) by lia.
      unfold file_slot_ge.
      assert (E1 : ((cf =? 0)%N || (i <? cf)%N) = false).
      { apply orb_false_iff. split; [apply N.eqb_neq; lia|apply N.ltb_ge; assumption]. }
      rewrite E1. assert (E2 : (i - cf <? cc)%N = true) by (apply N.ltb_lt; lia). rewrite E2.
      assert (E3 : (0 <=? Z.of_N (i - cf))%Z = true) by (apply Z.leb_le; lia). rewrite E3.
      assert (E4 : (Z.of_N (i - cf) =? -1)%Z = false) by (apply Z.eqb_neq; lia). rewrite E4.
      assert (E5 : (Z.of_N fsz <=? Z.of_N (i - cf))%Z = false) by (apply Z.leb_gt; lia). rewrite E5.
      assert (E6 : (Z.of_N cc <=? Z.of_N (i - cf))%Z = false) by (apply Z.leb_gt; lia). rewrite E6.
      rewrite N2Z.id. assert (E7 : (cf + (i - cf) =? i)%N = true) by (apply N.eqb_eq; lia). rewrite E7. reflexivity. }
  (* in a rotated file *)
  assert (Ecur : file_slot_ge (cf, cc) i = (-1)%Z).
  { unfold file_slot_ge. assert (E : (i <? cf)%N = true) by (apply N.ltb_lt; assumption). rewrite E, orb_true_r. reflexivity. }
  rewrite Ecur. cbn [Z.leb Z.compare].
  destruct Hshape as [[-> _]|(f0 & Hf0 & Hne & Hhd & Hcont & Hcf)].
  { exfalso. unfold log_first in Hlo. cbn in Hlo. destruct (cf =? 0)%N eqn:E0; [apply N.eqb_eq in E0; lia|lia]. }
  assert (Hlo' : (f0 <= i)%N).
  { rewrite (log_first_files (mkFiles fsz fs (cf, cc)) f0 Hne Hhd Hf0) in Hlo. assumption. }
  destruct (find_ge_spec _ _ _ 0 i Hcont Hlo' ltac:(lia)) as (j & fi & cnt & Hn & H1 & H2 & H3 & H4).
  destruct (contig_nth _ _ _ _ _ _ Hcont Hn) as (Hc1 & Hc2 & Hc3).
  assert (Hnth : nth j fs (0%N, 0%N) = (fi, cnt)) by (apply nth_error_nth; assumption).
  destruct fs as [|x xs] eqn:Efs2; [contradiction|]. rewrite <- Efs2 in *.
  destruct H4 as [[-> Hk]|[Hlt Hk]]; rewrite Hk; cbn [Nat.add].
  - rewrite Hn. cbn [andb]. rewrite N.eqb_refl.
    cbn [Z.eqb]. assert (E5 : (Z.of_N fsz <=? 0)%Z = false) by (apply Z.leb_gt; lia). rewrite E5.
    rewrite Hnth. assert (E6 : (Z.of_N cnt <=? 0)%Z = false) by (apply Z.leb_gt; lia). rewrite E6.
    cbn [Z.to_N]. rewrite N.add_0_r, N.eqb_refl. reflexivity.
  - assert (Hres : (Some (Nat.pred (S j)), file_slot_ge (nth (Nat.pred (S j)) fs (0%N, 0%N)) i) = (Some j, Z.of_N (i - fi))).
    { cbn [Nat.pred]. rewrite Hnth. unfold file_slot_ge.
      assert (E1 : ((fi =? 0)%N || (i <? fi)%N) = false).
      { apply orb_false_iff. split; [apply N.eqb_neq; lia|apply N.ltb_ge; lia]. }
      rewrite E1. assert (E2 : (i - fi <? cnt)%N = true) by (apply N.ltb_lt; lia). rewrite E2. reflexivity. }
    assert (Hsel : match nth_error fs (S j) with
                   | Some (fi0, _) => if true && (fi0 =? i)%N then (Some (S j), 0%Z)
                                      else (Some (Nat.pred (S j)), file_slot_ge (nth (Nat.pred (S j)) fs (0%N, 0%N)) i)
                   | None => (Some (Nat.pred (S j)), file_slot_ge (nth (Nat.pred (S j)) fs (0%N, 0%N)) i)
                   end = (Some j, Z.of_N (i - fi))).
    { destruct (nth_error fs (S j)) as [[fi' c']|] eqn:En; [|exact Hres].
      specialize (H3 _ _ eq_refl). assert (E : (fi' =? i)%N = false) by (apply N.eqb_neq; lia). rewrite E. cbn [andb]. exact Hres. }
    rewrite Hsel.
    assert (E4 : (Z.of_N (i - fi) =? -1)%Z = false) by (apply Z.eqb_neq; lia). rewrite E4.
    assert (E5 : (Z.of_N fsz <=? Z.of_N (i - fi))%Z = false) by (apply Z.leb_gt; lia). rewrite E5.
    rewrite Hnth. assert (E6 : (Z.of_N cnt <=? Z.of_N (i - fi))%Z = false) by (apply Z.leb_gt; lia). rewrite E6.
    rewrite N2Z.id. assert (E7 : (fi + (i - fi) =? i)%N = true) by (apply N.eqb_eq; lia). rewrite E7. reflexivity.
Qed.

(* a follower whose entry next-1 is in the leader's log is sent entries, never a snapshot *)
Lemma append_when_prev_in_log : forall E snp next, wf_files E ->
  (log_first E <= next - 1)%N -> (next - 1 <= log_last E)%N -> send_append true E snp next = true.
Proof.
  intros E snp next Hwf Hlo Hhi. unfold send_append. apply andb_true_iff. split.
  - unfold raftlog_term_ok. destruct ((next - 1 <? log_first E - 1)%N || (N.max (log_last E) snp <? next - 1)%N); [reflexivity|].
    unfold storage_term_ok. rewrite (seek_finds _ _ Hwf Hlo Hhi). reflexivity.
  - unfold raftlog_entries_ok. apply orb_true_iff. right. apply N.leb_le. lia.
Qed.

(* the converse direction: a follower whose NEXT entry is already below the leader's first index gets a snapshot *)
Lemma snapshot_when_next_below_log : forall exact E snp next,
  (next < log_first E)%N -> (next <= N.max (log_last E) snp)%N -> send_append exact E snp next = false.
Proof.
  intros exact E snp next H1 H2. unfold send_append, raftlog_entries_ok.
  assert (A : (N.max (log_last E) snp <? next)%N = false) by (apply N.ltb_ge; assumption).
  assert (B : (log_first E <=? next)%N = false) by (apply N.leb_gt; assumption).
  rewrite A, B. apply andb_false_r.
Qed.

(* the entry just before the log is compacted *)
Lemma seek_before_log : forall E i, wf_files E -> (0 < i)%N -> (i < log_first E)%N -> seek true E i = SCompacted.
Proof.
  intros E i Hwf Hi0 Hlt. pose proof (wf_shape _ Hwf) as Hshape.
  destruct E as [fsz fs [cf cc]]. cbn [ef_fsz ef_files ef_cur fst snd] in *.
  unfold seek. assert (Ei0 : (i =? 0)%N = false) by (apply N.eqb_neq; lia). rewrite Ei0.
  unfold slot_ge. cbn [ef_files ef_cur].
  destruct Hshape as [[-> _]|(f0 & Hf0 & Hne & Hhd & Hcont & Hcf)].
  - unfold log_first in Hlt. cbn in Hlt.
    assert (Ecur : file_slot_ge (cf, cc) i = (-1)%Z).
    { unfold file_slot_ge. destruct (cf =? 0)%N eqn:E0; [reflexivity|]. cbn [orb].
      assert (E : (i <? cf)%N = true) by (apply N.ltb_lt; lia). rewrite E. reflexivity. }
    rewrite Ecur. reflexivity.
  - rewrite (log_first_files (mkFiles fsz fs (cf, cc)) f0 Hne Hhd Hf0) in Hlt.
    pose proof (files_end_ge _ _ _ Hcont) as Hge.
    assert (Ecur : file_slot_ge (cf, cc) i = (-1)%Z).
    { unfold file_slot_ge. assert (E : (i <? cf)%N = true) by (apply N.ltb_lt; lia). rewrite E, orb_true_r. reflexivity. }
    rewrite Ecur. cbn [Z.leb Z.compare].
    destruct fs as [|[f c] r]; [contradiction|]. cbn in Hhd. inversion Hhd; subst f.
    cbn [find_ge]. assert (E1 : (i <=? f0)%N = true) by (apply N.leb_le; lia). rewrite E1.
    cbn [nth_error]. assert (E2 : (f0 =? i)%N = false) by (apply N.eqb_neq; lia). rewrite E2. cbn [andb Nat.pred nth].
    assert (E3 : file_slot_ge (f0, c) i = (-1)%Z).
    { unfold file_slot_ge. assert (E : (i <? f0)%N = true) by (apply N.ltb_lt; assumption). rewrite E, orb_true_r. reflexivity. }
    rewrite E3. reflexivity.
Qed.

(* ... and so does a follower whose log ends exactly where the leader's begins (its last entry is the one before the
   leader's first), unless the leader's snapshot index is that very entry *)
Lemma snapshot_when_prev_just_before_log : forall E snp next, wf_files E ->
  (1 < next)%N -> next = log_first E -> (next - 1 <= N.max (log_last E) snp)%N -> snp <> (next - 1)%N ->
  send_append true E snp next = false.
Proof.
  intros E snp next Hwf H1 Hn H2 Hs. unfold send_append, raftlog_term_ok.
  assert (A : (next - 1 <? log_first E - 1)%N = false) by (apply N.ltb_ge; lia).
  assert (B : (N.max (log_last E) snp <? next - 1)%N = false) by (apply N.ltb_ge; assumption).
  rewrite A, B. cbn [orb]. unfold storage_term_ok. rewrite (seek_before_log E (next - 1)%N Hwf) by lia.
  assert (C : (next - 1 =? snp)%N = false) by (apply N.eqb_neq; congruence). rewrite C. reflexivity.
Qed.
