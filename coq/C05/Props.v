(* C05 property theorems. Statements closed by `exact lemma`, followed by Print Assumptions, plus Examples.
   etcd/raft is third-party and trusted: what is assumed of it are the four Section hypotheses below (they become
   premises of every closed theorem; nothing is declared as an axiom). The theorems are for the repaired variants
   (wf_cfg: shard WAL on, member-local clamp of ClearEntryLog, propose ids never reused); Refuted.v shows what fails
   for today's variants. Not expressible here (partial claim): timing, timeouts, real network behaviour. *)
From Coq Require Import List Arith NArith ZArith Bool Lia Permutation.
From OG Require Import C05.Model C05.Proofs C05.Invariant C05.Theorems C05.Final C05.Trunc C05.TruncProofs C05.Catchup C05.ReadPath C05.Refine C05.RestartRace C05.TruncPM C05.Coord C05.Persist.
Import ListNotations.

Section C05.
  Variable raft_ok : sys -> event -> bool.
  (* leader completeness *)
  Hypothesis H_elect : forall s n, raft_ok s (RElect n) = true ->
    up (nodes s n) = true /\ prefixb (glog s) (elog (nodes s n)) = true.
  (* log matching *)
  Hypothesis H_repl : forall s m k, raft_ok s (RReplicate m k) = true ->
    exists l, leader s = Some l /\ m <> l /\ up (nodes s m) = true /\ hcommit (nodes s m) <= k /\
              k <= length (elog (nodes s l)) /\
              (prefixb (glog s) (elog (nodes s m)) = true -> length (glog s) <= k).
  (* commit only through a quorum, never retracted *)
  Hypothesis H_commit : forall s k, raft_ok s (RCommit k) = true ->
    exists l, leader s = Some l /\ length (glog s) <= k /\ k <= length (elog (nodes s l)) /\
              nn (cfg s) < 2 * count (fun m => prefixb (firstn k (elog (nodes s l))) (elog (nodes s m))) (nn (cfg s)).
  (* state-machine safety *)
  Hypothesis H_learn : forall s m c, raft_ok s (RLearn m c) = true ->
    up (nodes s m) = true /\ hcommit (nodes s m) <= c /\ c <= length (glog s) /\
    firstn c (elog (nodes s m)) = firstn c (glog s).

  (* every trace of proposals, raft events, applies, flushes, truncations, kills, restarts, pauses, rotations *)
  Theorem ack_implies_committed : forall c es s o p b, wf_cfg c -> run raft_ok (init c) es = Some s ->
    In (o, p, b) (acked s) -> In (EData o p b) (glog s).
  Proof. exact (ack_committed raft_ok H_elect H_repl H_commit H_learn). Qed.

  Theorem committed_survives_minority : forall c es s, wf_cfg c -> run raft_ok (init c) es = Some s ->
    (forall n, hcommit (nodes s n) <= length (glog s) /\
               firstn (hcommit (nodes s n)) (elog (nodes s n)) = firstn (hcommit (nodes s n)) (glog s)) /\
    (forall l, leader s = Some l -> pre (glog s) (elog (nodes s l))) /\
    (forall n, up (nodes s n) = true ->
               applied (nodes s n) <= hcommit (nodes s n) /\
               forall k, read s n k = get (ents_store (firstn (applied (nodes s n)) (glog s))) k) /\
    (minority_down s = true -> exists n, n < nn c /\ avail (nodes s n) = true /\ pre (glog s) (elog (nodes s n))).
  Proof. exact (survives raft_ok H_elect H_repl H_commit H_learn). Qed.

  Theorem any_replica_same_answer : forall c es s n m k, wf_cfg c -> run raft_ok (init c) es = Some s ->
    caught_up s n = true -> caught_up s m = true ->
    read s n k = read s m k /\ read s n k = get (ents_store (glog s)) k.
  Proof. exact (replicas_agree raft_ok H_elect H_repl H_commit H_learn). Qed.

  (* obligation made explicit: snapshot index <= entries contained in the durable shard state (data files + shard
     WAL). In writeSnapshot the RaftFlushC signal (and so CreateSnapshot) comes BEFORE commitSnapshot writes the data
     files: the obligation holds only because the switched WAL files are removed after commitSnapshot (wal_on). *)
  Theorem snapshot_index_safe : forall c es s n, wf_cfg c -> run raft_ok (init c) es = Some s ->
    (up (nodes s n) = true -> snap (nodes s n) <= applied (nodes s n) /\ dview (nodes s n) = view (nodes s n)) /\
    (up (nodes s n) = false ->
       (exists d, snap (nodes s n) <= d /\ d <= hcommit (nodes s n) /\
                  forall k, get (dview (nodes s n)) k = get (ents_store (firstn d (glog s))) k) /\
       forall s', step raft_ok s (Restart n) = Some s' ->
                  applied (nodes s' n) = hcommit (nodes s n) /\
                  forall k, read s' n k = get (ents_store (firstn (hcommit (nodes s n)) (glog s))) k).
  Proof. exact (snapshot_safe raft_ok H_elect H_repl H_commit H_learn). Qed.

  Theorem truncate_safe : forall c es s n, wf_cfg c -> run raft_ok (init c) es = Some s ->
    (efirst (nodes s n) = 0 \/ efirst (nodes s n) < snap (nodes s n)) /\
    (up (nodes s n) = true -> efirst (nodes s n) <= applied (nodes s n)).
  Proof. exact (truncate_safe_all raft_ok H_elect H_repl H_commit H_learn). Qed.

  (* the forced branches (clear-entryLog-tolerate-time, clear-entryLog-tolerate-size) are covered by truncate_safe
     for the member's OWN replay (the clamp makes any index safe locally). What they endanger is the OTHER members:
     this holds under the extra hypothesis made explicit by wf_cfg's trunc_all - an index is used for truncation only
     once EVERY member, also a dead one, has persisted it as committed. Then no node ever deletes an entry a member
     still lacks, so no raft snapshot (which carries no shard data) is ever needed. Today's forced branches do not
     satisfy it: Refuted.forced_truncation_strands_member_refuted. *)
  Theorem leader_keeps_what_members_lack : forall c es s n m, wf_cfg c -> run raft_ok (init c) es = Some s ->
    m < nn c -> efirst (nodes s n) <= hcommit (nodes s m) /\ efirst (nodes s n) <= length (elog (nodes s m)).
  Proof. exact (members_keep_entries raft_ok H_elect H_repl H_commit H_learn). Qed.

  (* progress half of catch-up: the next known committed entry can always be applied; together with
     committed_survives_minority (reads = LWW of the applied prefix) a replica that reaches the commit point
     answers like every other *)
  Theorem rejoin_catches_up : forall c es s n, wf_cfg c -> run raft_ok (init c) es = Some s ->
    avail (nodes s n) = true -> applied (nodes s n) < hcommit (nodes s n) ->
    exists s', step raft_ok s (Apply n) = Some s' /\ applied (nodes s' n) = S (applied (nodes s n)).
  Proof. exact (apply_enabled raft_ok H_elect H_repl H_commit H_learn). Qed.
End C05.

Print Assumptions ack_implies_committed.
Print Assumptions committed_survives_minority.
Print Assumptions any_replica_same_answer.
Print Assumptions snapshot_index_safe.
Print Assumptions truncate_safe.
Print Assumptions leader_keeps_what_members_lack.
Print Assumptions rejoin_catches_up.

(* master rotation (GetNewRg / UpdateReplication, GenerateNewPeer, electRgMaster) *)
Theorem get_new_rg_permutes : forall m ps newm m' ps', ~ In m ps -> NoDup ps ->
  get_new_rg m ps newm = Some (m', ps') ->
  m' = newm /\ In newm ps /\ Permutation (m' :: ps') (m :: ps) /\ ~ In m' ps' /\ NoDup ps' /\ length ps' = length ps.
Proof. exact get_new_rg_ok. Qed.
Print Assumptions get_new_rg_permutes.

Theorem get_new_rg_accepts_every_peer : forall m ps newm, ~ In m ps -> NoDup ps -> In newm ps -> get_new_rg m ps newm <> None.
Proof. exact get_new_rg_total. Qed.

Theorem generate_new_peer_permutes : forall m ps newm, ~ In m ps -> NoDup ps -> In newm ps ->
  let ps' := generate_new_peer m ps newm in
  Permutation (newm :: ps') (m :: ps) /\ ~ In newm ps' /\ NoDup ps'.
Proof. exact generate_new_peer_ok. Qed.

Theorem elect_rg_master_permutes : forall online ps m nm ps',
  elect_rg_master m ps online = Some (nm, ps') ->
  Permutation (nm :: ps') (m :: map fst ps) /\ In nm (map fst ps) /\ online nm = true /\ length ps' = length ps.
Proof. exact elect_rg_master_ok. Qed.
Print Assumptions elect_rg_master_permutes.

Theorem rotation_keeps_group : forall raft_ok c es s, 0 < nn c -> run raft_ok (init c) es = Some s ->
  ~ In (master s) (peers s) /\ NoDup (peers s) /\ Permutation (master s :: peers s) (seq 0 (nn (cfg s))).
Proof. intros raft_ok c es s Hn H. exact (rg_run raft_ok es (init c) s (rg_init c Hn) H). Qed.
Print Assumptions rotation_keeps_group.

(* coordinator (writeRowToShard): an acknowledgement to the client means the store acknowledged the final attempt;
   while the store answers with retryable errors (no master yet) the request is retried and succeeds as soon as the
   store accepts it within the budget ("writes are accepted again as soon as a new leader exists") *)
Theorem coordinator_ack_only_after_store_ack : forall fuel script last calls,
  fst (coord_retry fuel script last calls) = true -> In WOk (script ++ [last]).
Proof. exact coord_ack_sound. Qed.
Theorem coordinator_retries_until_master : forall k fuel last calls, k <= fuel ->
  coord_retry fuel (repeat WRetry k ++ [WOk]) last calls = (true, S (k + calls)).
Proof. exact coord_retries_until_ok. Qed.
Print Assumptions coordinator_ack_only_after_store_ack.

Theorem ack_only_after_successful_apply : forall u a, commit_result_repaired u a = true -> a = true.
Proof. exact commit_result_repaired_sound. Qed.

(* ---------------------------------------------------------------- non-vacuity *)
(* the hypotheses are satisfiable: the reference oracle has all four properties *)
Example raft_hypotheses_satisfiable :
  (forall s n, raft_ref s (RElect n) = true -> up (nodes s n) = true /\ prefixb (glog s) (elog (nodes s n)) = true) /\
  (forall s m k, raft_ref s (RReplicate m k) = true ->
    exists l, leader s = Some l /\ m <> l /\ up (nodes s m) = true /\ hcommit (nodes s m) <= k /\
              k <= length (elog (nodes s l)) /\ (prefixb (glog s) (elog (nodes s m)) = true -> length (glog s) <= k)) /\
  (forall s k, raft_ref s (RCommit k) = true ->
    exists l, leader s = Some l /\ length (glog s) <= k /\ k <= length (elog (nodes s l)) /\
              nn (cfg s) < 2 * count (fun m => prefixb (firstn k (elog (nodes s l))) (elog (nodes s m))) (nn (cfg s))) /\
  (forall s m c, raft_ref s (RLearn m c) = true ->
    up (nodes s m) = true /\ hcommit (nodes s m) <= c /\ c <= length (glog s) /\
    firstn c (elog (nodes s m)) = firstn c (glog s)).
Proof. exact (conj ref_elect (conj ref_repl (conj ref_commit ref_learn))). Qed.

(* a full run under the reference oracle: write, overwrite, leader killed, new leader, old leader rejoins, catches
   up, then another node is killed; the acknowledged points are readable with their latest values on every
   caught-up replica *)
Definition demo_trace : list event :=
  [ RElect 0;
    Propose 0 [(1%N, 10%Z); (2%N, 20%Z)]; RReplicate 1 1; RReplicate 2 1; RCommit 1; RLearn 0 1; Apply 0;
    RLearn 1 1; Apply 1; UpdSnapc 1; FlushSwap 1; SnapPersist 1;
    Propose 0 [(1%N, 11%Z)]; RReplicate 1 2; RCommit 2; RLearn 0 2; Apply 0;
    Kill 0;
    RLearn 1 2; RElect 1; Rotate 1;
    RReplicate 2 2; RLearn 2 2; Apply 2; Apply 2; Apply 1; FlushCommit 1;
    Propose 1 [(2%N, 21%Z)]; RReplicate 2 3; RCommit 3; RLearn 1 3; Apply 1;
    Restart 0; RReplicate 0 3; RLearn 0 3; Apply 0;
    Kill 2 ].

Example demo_run :
  match run raft_ref (init (cfg_repaired 3 2)) demo_trace with
  | Some s =>
      minority_down s = true /\ caught_up s 0 = true /\ caught_up s 1 = true /\ master s = 1 /\
      length (acked s) = 3 /\
      read s 0 1%N = Some 11%Z /\ read s 0 2%N = Some 21%Z /\ read s 1 1%N = Some 11%Z /\ read s 1 2%N = Some 21%Z
  | None => False
  end.
Proof. vm_compute. repeat split. Qed.

(* the explicit snapshot obligation is needed: with the shard WAL switched off, a kill between the RaftFlushC signal
   (snapshot index persisted) and commitSnapshot loses an acknowledged write on that replica although it counts as
   caught up *)
Example snapshot_window_without_wal :
  match run raft_ref (init (mkCfg 3 2 false true true true false))
        [ RElect 0; Propose 0 [(1%N, 10%Z)]; Propose 0 [(2%N, 20%Z)]; RReplicate 1 2; RCommit 2; RLearn 0 2;
          Apply 0; Apply 0; UpdSnapc 0; FlushSwap 0; SnapPersist 0; Kill 0; Restart 0 ] with
  | Some s => length (acked s) = 2 /\ applied (nodes s 0) = length (glog s) /\ read s 0 1%N = None /\ read s 0 2%N = Some 20%Z
  | None => False
  end.
Proof. vm_compute. repeat split. Qed.

(* ---------------------------------------------------------------- the leader's truncation decision (Trunc.v)
   The tolerance timer is state of the decision. T = clear-entryLog-tolerate-time, L = the entry-file layout, pre = the
   decision rounds of one node since its start (any roles, any liveness, any Match values, any clock values), r = the
   round that follows. *)

(* every variant: a forced truncation (ClearEntryLog computed from the ACTIVE members only) ends a window of rounds
   that began, more than T earlier, with a leader round that saw a member down, and in which no round stopped the
   timer ([quiet] says what stops it in the given variant) *)
Theorem forced_truncation_window : forall tc T L pre r idx,
  snd (decide tc T L (tstate tc T L None pre) r) = DForce idx ->
  exists p a w, pre ++ [r] = p ++ a :: w /\ starts a /\ (T < r_now r - r_now a)%Z /\ Forall (quiet tc) (a :: w).
Proof. exact forced_window. Qed.
Print Assumptions forced_truncation_window.

(* repaired rule (timer cleared by a healthy round and by a round in which the node is not the leader): a forced
   truncation happens only after a CONTINUOUS unhealthy period longer than the tolerate time - in every decision round of
   a window longer than T this node was the leader and saw a member down *)
Theorem forced_truncation_needs_continuous_outage : forall T L pre r idx,
  snap_stays (pre ++ [r]) ->
  snd (decide tcfg_repaired T L (tstate tcfg_repaired T L None pre) r) = DForce idx ->
  exists p a w, pre ++ [r] = p ++ a :: w /\ (T < r_now r - r_now a)%Z /\
                forall q, In q (a :: w) -> r_lead q = true /\ all_alive q = false.
Proof. exact forced_continuous_outage. Qed.
Print Assumptions forced_truncation_needs_continuous_outage.

(* repaired rule: after any round (in any role) in which this node saw every member alive, nothing is forced until
   more than the tolerate time later: a second outage never inherits the clock of a first one *)
Theorem forced_truncation_not_within_tolerance_of_health : forall T L pre r idx q,
  clock_mono (pre ++ [r]) -> snap_stays (pre ++ [r]) ->
  snd (decide tcfg_repaired T L (tstate tcfg_repaired T L None pre) r) = DForce idx ->
  In q pre -> all_alive q = true -> (T < r_now r - r_now q)%Z.
Proof. exact forced_not_within_tolerance_of_health. Qed.
Print Assumptions forced_truncation_not_within_tolerance_of_health.

(* today's rule (partial: only health seen AS THE LEADER clears the timer; see
   Refuted.stale_tolerance_timer_refuted for what is missing) *)
Theorem leader_health_clears_tolerance_timer_partial : forall T L pre r idx q,
  clock_mono (pre ++ [r]) ->
  snd (decide tcfg_current T L (tstate tcfg_current T L None pre) r) = DForce idx ->
  In q pre -> r_lead q = true -> r_snap q <> 0%N -> all_alive q = true -> (T < r_now r - r_now q)%Z.
Proof. exact forced_not_within_tolerance_of_leader_health. Qed.
Print Assumptions leader_health_clears_tolerance_timer_partial.

(* the hypotheses are satisfiable and the forced branch is reachable: a member is down for seven hours (tolerate time
   six hours = 360 minutes, rounds every 60 minutes); the forced index is the minimum over the ACTIVE members *)
Example forced_after_long_outage :
  let dn := [true; true; false] in
  let rs := map (fun t => mkRound t true dn [100%N; 90%N; 7%N] 95%N) [0; 60; 120; 180; 240; 300; 360]%Z in
  let r := mkRound 420 true dn [100%N; 90%N; 7%N] 95%N in
  clock_mono (rs ++ [r]) /\ snap_stays (rs ++ [r]) /\
  decisions tcfg_repaired 360 (mkLay 30000 1 100) None (rs ++ [r]) = [DNone; DNone; DNone; DNone; DNone; DNone; DNone; DForce 95%N].
Proof.
  cbn -[decisions]. split; [|split; [|vm_compute; reflexivity]].
  - repeat split; intros x Hx; cbn in Hx; repeat (destruct Hx as [<-|Hx]; [cbn; lia|]); contradiction.
  - repeat split; intros _ x Hx; cbn in Hx; repeat (destruct Hx as [<-|Hx]; [cbn; discriminate|]); contradiction.
Qed.

(* ---------------------------------------------------------------- entry-log lookup and append-vs-snapshot (Trunc.v) *)
(* every entry of a contiguously written entry log is found by seekEntry, whichever file holds it - in particular the
   first entry of a rotated file *)
Theorem entry_lookup_finds_every_entry : forall E i, wf_files E ->
  (log_first E <= i)%N -> (i <= log_last E)%N -> seek true E i = SFound i.
Proof. exact seek_finds. Qed.
Print Assumptions entry_lookup_finds_every_entry.

(* a follower whose entry next-1 is in the leader's log is sent entries (MsgApp), never a snapshot *)
Theorem follower_with_prev_in_log_gets_entries : forall E snp next, wf_files E ->
  (log_first E <= next - 1)%N -> (next - 1 <= log_last E)%N -> send_append true E snp next = true.
Proof. exact append_when_prev_in_log. Qed.
Print Assumptions follower_with_prev_in_log_gets_entries.

(* the converse: a follower whose next entry is already below the leader's first index is sent a snapshot (which carries
   no shard data), for both lookup variants *)
Theorem follower_below_log_gets_snapshot : forall exact E snp next,
  (next < log_first E)%N -> (next <= N.max (log_last E) snp)%N -> send_append exact E snp next = false.
Proof. exact snapshot_when_next_below_log. Qed.
Print Assumptions follower_below_log_gets_snapshot.

(* ... and so is a follower whose log ends exactly where the leader's begins (Term(first-1) is compacted), unless the
   leader's snapshot index is that very entry: the strict form efirst < |log m| of catch_up_from_log_guaranteed is needed *)
Theorem follower_ending_just_before_log_gets_snapshot : forall E snp next, wf_files E ->
  (1 < next)%N -> next = log_first E -> (next - 1 <= N.max (log_last E) snp)%N -> snp <> (next - 1)%N ->
  send_append true E snp next = false.
Proof. exact snapshot_when_prev_just_before_log. Qed.
Print Assumptions follower_ending_just_before_log_gets_snapshot.

(* the hypotheses are satisfiable: a log of 60100 entries in three files of 30000 *)
Example three_file_log_is_wf :
  wf_files (layout_files 30000 1 60100) /\ log_first (layout_files 30000 1 60100) = 1%N /\
  log_last (layout_files 30000 1 60100) = 60100%N /\
  seek true (layout_files 30000 1 60100) 30001 = SFound 30001%N /\
  send_append true (layout_files 30000 1 60100) 60050 30002 = true.
Proof. vm_compute. repeat split; try reflexivity; try discriminate. Qed.

(* the same log after its first file was deleted: a follower that ends at 30000 or earlier gets a snapshot *)
Example truncated_log_sends_snapshot :
  wf_files (layout_files 30000 30001 60100) /\ log_first (layout_files 30000 30001 60100) = 30001%N /\
  send_append true (layout_files 30000 30001 60100) 60050 30001 = false /\
  send_append true (layout_files 30000 30001 60100) 60050 30000 = false /\
  send_append true (layout_files 30000 30001 60100) 60050 30002 = true.
Proof. vm_compute. repeat split; try reflexivity; try discriminate. Qed.

(* ---------------------------------------------------------------- catch-up and the data-less raft snapshot (Catchup.v) *)
Section C05_catchup.
  Variable raft_ok : sys -> event -> bool.
  Hypothesis H_elect : forall s n, raft_ok s (RElect n) = true ->
    up (nodes s n) = true /\ prefixb (glog s) (elog (nodes s n)) = true.
  Hypothesis H_repl : forall s m k, raft_ok s (RReplicate m k) = true ->
    exists l, leader s = Some l /\ m <> l /\ up (nodes s m) = true /\ hcommit (nodes s m) <= k /\
              k <= length (elog (nodes s l)) /\
              (prefixb (glog s) (elog (nodes s m)) = true -> length (glog s) <= k).
  Hypothesis H_commit : forall s k, raft_ok s (RCommit k) = true ->
    exists l, leader s = Some l /\ length (glog s) <= k /\ k <= length (elog (nodes s l)) /\
              nn (cfg s) < 2 * count (fun m => prefixb (firstn k (elog (nodes s l))) (elog (nodes s m))) (nn (cfg s)).
  Hypothesis H_learn : forall s m c, raft_ok s (RLearn m c) = true ->
    up (nodes s m) = true /\ hcommit (nodes s m) <= c /\ c <= length (glog s) /\
    firstn c (elog (nodes s m)) = firstn c (glog s).
  (* log matching, second half: replication never removes a committed entry from a follower's log *)
  Hypothesis H_keep : forall s m k, raft_ok s (RReplicate m k) = true -> lcp (elog (nodes s m)) (glog s) <= k.

  (* for every configuration with the shard WAL and the member-local clamp (trunc_all and snap_install as they are
     today or repaired), every trace in which each truncation step is [sound] - its index lies inside what EVERY member
     of the group, also a dead one, holds of the committed sequence; the healthy branch with the Match of all members
     is of this kind - : in the reached state every node's log starts strictly inside every member's log, i.e. the
     entry before the member's next one is still in the leader's log, so the leader ships entries and a raft snapshot
     (which carries no shard data) is never enabled: catch-up from the log is guaranteed. *)
  Theorem catch_up_from_log_guaranteed : forall c es s n m, base_cfg c ->
    sound_run raft_ok (init c) es -> run raft_ok (init c) es = Some s -> m < nn c ->
    (efirst (nodes s n) = 0 \/ efirst (nodes s n) < length (elog (nodes s m))) /\
    step raft_ok s (RSnapshot m) = None.
  Proof. exact (catch_up_from_log raft_ok H_elect H_repl H_commit H_learn H_keep). Qed.
End C05_catchup.
Print Assumptions catch_up_from_log_guaranteed.

(* what installing a raft snapshot means for the shard of member m: nothing is transferred - the applied and commit
   indexes jump to the leader's snapshot index, what the member reads (and what survives a kill) is unchanged; and it
   happens only when the leader's log starts after the member's log ends *)
Theorem snapshot_install_transfers_no_shard_data : forall raft_ok s m s', step raft_ok s (RSnapshot m) = Some s' ->
  exists l, leader s = Some l /\
    view (nodes s' m) = view (nodes s m) /\ dview (nodes s' m) = dview (nodes s m) /\
    applied (nodes s' m) = snap (nodes s l) /\ hcommit (nodes s' m) = snap (nodes s l) /\
    length (elog (nodes s m)) < efirst (nodes s l).
Proof. exact snapshot_install_no_data. Qed.
Print Assumptions snapshot_install_transfers_no_shard_data.

(* the five raft hypotheses are satisfiable together *)
Example raft_hypotheses_with_keep_satisfiable :
  (forall s n, raft_ref2 s (RElect n) = true -> up (nodes s n) = true /\ prefixb (glog s) (elog (nodes s n)) = true) /\
  (forall s m c, raft_ref2 s (RLearn m c) = true ->
     up (nodes s m) = true /\ hcommit (nodes s m) <= c /\ c <= length (glog s) /\ firstn c (elog (nodes s m)) = firstn c (glog s)) /\
  (forall s m k, raft_ref2 s (RReplicate m k) = true -> lcp (elog (nodes s m)) (glog s) <= k).
Proof.
  split; [|split].
  - intros s n H; apply ref_elect; apply ref2_ref; assumption.
  - intros s m c H; apply ref_learn; apply ref2_ref; assumption.
  - exact ref2_keep.
Qed.

(* today's configuration, healthy truncation only: the leader flushes and truncates with the Match of all members
   (entry file 1 = entries 1,2 deleted on the leader), then member 2 is down during an acknowledged overwrite, rejoins
   and catches up from the log; every step is sound *)
Definition healthy_trace : list event :=
  [ RElect 0; Propose 0 [(1%N, 10%Z)]; RReplicate 1 1; RReplicate 2 1; RCommit 1; RLearn 0 1; RLearn 1 1; RLearn 2 1;
    Apply 0; Apply 1; Apply 2;
    Propose 0 [(2%N, 20%Z)]; Propose 0 [(3%N, 30%Z)]; RReplicate 1 3; RReplicate 2 3; RCommit 3;
    RLearn 0 3; RLearn 1 3; RLearn 2 3; Apply 0; Apply 0; Apply 1; Apply 1; Apply 2; Apply 2;
    UpdSnapc 0; FlushSwap 0; SnapPersist 0; FlushCommit 0;
    TruncPropose 3; RReplicate 1 4; RReplicate 2 4; RCommit 4; RLearn 0 4; RLearn 1 4; RLearn 2 4; Apply 0; Apply 1; Apply 2;
    Kill 2; Propose 0 [(1%N, 11%Z)]; RReplicate 1 5; RCommit 5; RLearn 0 5; RLearn 1 5; Apply 0; Apply 1;
    Restart 2; RReplicate 2 5; RLearn 2 5; Apply 2 ].

Example healthy_truncation_then_catch_up :
  sound_run raft_ref2 (init (cfg_today 3 2)) healthy_trace /\
  match run raft_ref2 (init (cfg_today 3 2)) healthy_trace with
  | Some s => efirst (nodes s 0) = 2 /\ caught_up s 2 = true /\ read s 2 1%N = Some 11%Z /\ length (acked s) = 4
  | None => False
  end.
Proof.
  split.
  - vm_compute. repeat split; try exact I. right. intros m Hm.
    destruct m as [|[|[|m]]]; vm_compute; try lia.
  - vm_compute. repeat split.
Qed.

(* ---------------------------------------------------------------- read path after a failure of the master's store (ReadPath.v) *)
Section C05_readpath.
  Variable raft_ok : sys -> event -> bool.
  Hypothesis H_elect : forall s n, raft_ok s (RElect n) = true ->
    up (nodes s n) = true /\ prefixb (glog s) (elog (nodes s n)) = true.
  Hypothesis H_repl : forall s m k, raft_ok s (RReplicate m k) = true ->
    exists l, leader s = Some l /\ m <> l /\ up (nodes s m) = true /\ hcommit (nodes s m) <= k /\
              k <= length (elog (nodes s l)) /\
              (prefixb (glog s) (elog (nodes s m)) = true -> length (glog s) <= k).
  Hypothesis H_commit : forall s k, raft_ok s (RCommit k) = true ->
    exists l, leader s = Some l /\ length (glog s) <= k /\ k <= length (elog (nodes s l)) /\
              nn (cfg s) < 2 * count (fun m => prefixb (firstn k (elog (nodes s l))) (elog (nodes s m))) (nn (cfg s)).
  Hypothesis H_learn : forall s m c, raft_ok s (RLearn m c) = true ->
    up (nodes s m) = true /\ hcommit (nodes s m) <= c /\ c <= length (glog s) /\
    firstn c (elog (nodes s m)) = firstn c (glog s).

  (* a master elected (with electRgMaster's rule, any peer order) among the members that have CAUGHT UP answers every
     key with its latest committed value; today's rule elects among the members that are merely Online:
     Refuted.master_elected_before_catch_up_refuted *)
  Theorem master_elected_among_caught_up_answers_latest : forall c es s nm ps' k, wf_cfg c ->
    run raft_ok (init c) es = Some s -> elect_caught_up s = Some (nm, ps') -> read s nm k = get (ents_store (glog s)) k.
  Proof. exact (caught_up_master_answers_latest raft_ok H_elect H_repl H_commit H_learn). Qed.
End C05_readpath.
Print Assumptions master_elected_among_caught_up_answers_latest.

Example caught_up_master_after_lagmaster_trace :
  match run raft_ref (init (cfg_repaired 3 2)) lagmaster_trace with
  | Some s => elect_caught_up s = Some (2, [1; 0]) /\ read s 2 1%N = Some 11%Z
  | None => False
  end.
Proof. vm_compute. split; reflexivity. Qed.

(* the weakest rule: elect among the members whose applied prefix contains every ACKNOWLEDGED write (they need not have
   caught up with everything committed) *)
Section C05_readpath2.
  Variable raft_ok : sys -> event -> bool.
  Hypothesis H_elect : forall s n, raft_ok s (RElect n) = true ->
    up (nodes s n) = true /\ prefixb (glog s) (elog (nodes s n)) = true.
  Hypothesis H_repl : forall s m k, raft_ok s (RReplicate m k) = true ->
    exists l, leader s = Some l /\ m <> l /\ up (nodes s m) = true /\ hcommit (nodes s m) <= k /\
              k <= length (elog (nodes s l)) /\
              (prefixb (glog s) (elog (nodes s m)) = true -> length (glog s) <= k).
  Hypothesis H_commit : forall s k, raft_ok s (RCommit k) = true ->
    exists l, leader s = Some l /\ length (glog s) <= k /\ k <= length (elog (nodes s l)) /\
              nn (cfg s) < 2 * count (fun m => prefixb (firstn k (elog (nodes s l))) (elog (nodes s m))) (nn (cfg s)).
  Hypothesis H_learn : forall s m c, raft_ok s (RLearn m c) = true ->
    up (nodes s m) = true /\ hcommit (nodes s m) <= c /\ c <= length (glog s) /\
    firstn c (elog (nodes s m)) = firstn c (glog s).

  Theorem master_covering_every_ack_answers_every_ack : forall c es s nm ps', wf_cfg c ->
    run raft_ok (init c) es = Some s -> elect_covering s = Some (nm, ps') ->
    let a := applied (nodes s nm) in
    (forall k, read s nm k = get (ents_store (firstn a (glog s))) k) /\
    (forall o p b, In (o, p, b) (acked s) -> In (EData o p b) (firstn a (glog s))) /\
    (forall k, get (ents_store (skipn a (glog s))) k = None -> read s nm k = get (ents_store (glog s)) k).
  Proof. exact (covering_master_answers raft_ok H_elect H_repl H_commit H_learn). Qed.
End C05_readpath2.
Print Assumptions master_covering_every_ack_answers_every_ack.

(* the rule is strictly weaker than "caught up": an entry whose writer gave up (never acknowledged) is committed but not
   yet applied on member 1; the master's store dies: no member has caught up, member 1 covers every acknowledgement *)
Example covering_is_weaker_than_caught_up :
  match run raft_ref (init (cfg_repaired 3 2))
        [ RElect 0; Propose 0 [(1%N, 10%Z)]; RReplicate 1 1; RReplicate 2 1; RCommit 1; RLearn 0 1; RLearn 1 1; RLearn 2 1;
          Apply 0; Apply 1; Apply 2;
          Propose 0 [(2%N, 20%Z)]; Timeout 0 2%N; RReplicate 1 2; RCommit 2; RLearn 0 2; Apply 0; Kill 0 ] with
  | Some s => elect_caught_up s = None /\ elect_covering s = Some (1, [0; 2]) /\ length (acked s) = 1 /\ read s 1 1%N = Some 10%Z
  | None => False
  end.
Proof. vm_compute. repeat split. Qed.

(* ---------------------------------------------------------------- the decision model refines the group machine (Refine.v)
   Layered machine: the group machine + a wall clock + one tolerance timer per node; TRound n ms runs Trunc.decide on
   node n with what n sees of the group (leadership, who is up, its snapshot index, its entry-file layout) and performs
   the decision as the TruncPropose / TruncForce event of the group machine. For every raft oracle, timer variant, T. *)
Theorem truncation_decision_refines_group_machine : forall raft_ok tc T tes ts ts',
  trun raft_ok tc T ts tes = Some ts' -> exists es, run raft_ok (tb ts) es = Some (tb ts').
Proof. exact trun_refines. Qed.
Print Assumptions truncation_decision_refines_group_machine.

(* a round whose decision proposes idx appends exactly ClearEntryLog(idx) to the leader's log: genProposeData with the
   file ids SlotGe reports relative to the present log and the group machine's trunc_idx agree on it *)
Theorem round_appends_exactly_the_decided_index : forall raft_ok tc T ts n ms ts' idx,
  tstep raft_ok tc T ts (TRound n ms) = Some ts' ->
  (snd (decide tc T (lay_of (tb ts) n) (ttim ts n) (round_of ts n ms)) = DHealthy idx \/
   snd (decide tc T (lay_of (tb ts) n) (ttim ts n) (round_of ts n ms)) = DForce idx) ->
  leader (tb ts) = Some n /\
  tb ts' = set_node (tb ts) n (with_elog (nodes (tb ts) n) (elog (nodes (tb ts) n) ++ [EClear (N.to_nat idx)])).
Proof. exact round_appends_decision. Qed.
Print Assumptions round_appends_exactly_the_decided_index.

(* group level, repaired timer rule (today's code since 5ce0b1e): in every reachable state of the layered machine, a node
   whose decision forces a truncation now last saw every member alive (in any role) more than T ago *)
Theorem group_forced_truncation_not_within_tolerance_of_health : forall raft_ok T c tes ts n ms idx z,
  trun raft_ok tcfg_repaired T (tinit c) tes = Some ts ->
  snd (decide tcfg_repaired T (lay_of (tb ts) n) (ttim ts n) (round_of ts n ms)) = DForce idx ->
  tseen ts n = Some z -> (T < tclock ts - z)%Z.
Proof. exact group_forced_after_tolerance. Qed.
Print Assumptions group_forced_truncation_not_within_tolerance_of_health.

(* a layered run under the reference oracle: healthy round (ClearEntryLog(1) proposed), member 2 killed, rounds while
   the tolerate time (360) runs, forced round after 400 *)
Example layered_run_demo :
  match trun raft_ref tcfg_repaired 360 (tinit (cfg_today 3 2))
        [ TBase (RElect 0); TBase (Propose 0 [(1%N, 10%Z)]); TBase (RReplicate 1 1); TBase (RReplicate 2 1); TBase (RCommit 1);
          TBase (RLearn 0 1); TBase (Apply 0); TBase (UpdSnapc 0); TBase (FlushSwap 0); TBase (SnapPersist 0);
          TRound 0 [1; 1; 1]%N; TBase (Kill 2); TTick 10; TRound 0 [2; 2; 1]%N; TTick 400; TRound 0 [2; 2; 1]%N ] with
  | Some ts => elog (nodes (tb ts) 0) = [EData 0 1%N [(1%N, 10%Z)]; EClear 1; EClear 1] /\ ttim ts 0 = None /\ tclock ts = 410%Z
  | None => False
  end.
Proof. vm_compute. repeat split. Qed.

(* ---------------------------------------------------------------- restart replay before newer entries (RestartRace.v) *)
(* repaired order (the commit reader waits for the restart replay): if the restart reconstructs a prefix of the log,
   applying the entries that follow gives the image of the longer prefix - log order is kept *)
Theorem restart_replay_before_newer_entries_is_log_order : forall c n x es pre,
  sim (view (restart_node c x)) (ents_store pre) ->
  sim (view (replay_then_apply c n x es)) (ents_store (pre ++ es)) /\
  applied (replay_then_apply c n x es) = hcommit x + length es.
Proof. exact replay_then_apply_log_order. Qed.
Print Assumptions restart_replay_before_newer_entries_is_log_order.

(* ---------------------------------------------------------------- per-member tolerance periods (TruncPM.v; a design variant) *)
(* a member's entries are given up only after ITS OWN continuous outage of more than T *)
Theorem per_member_given_up_only_after_own_outage : forall T L pre r j,
  snap_stays (pre ++ [r]) -> pm_expired T L pre r j = true ->
  exists p a w, pre ++ [r] = p ++ a :: w /\ (T < r_now r - r_now a)%Z /\
                forall q, In q (a :: w) -> r_lead q = true /\ nth j (r_alive q) true = false.
Proof. exact pm_given_up_after_own_outage. Qed.
Print Assumptions per_member_given_up_only_after_own_outage.

(* ... and the forced index respects the Match of every member whose own period has not expired *)
Theorem per_member_forced_index_counts_members_within_tolerance : forall n T L pre r idx,
  decide_pm n T L pre r = DForce idx ->
  exists mm, idx = gen_idx L (r_snap r) mm /\
    forall j m, j < n -> j < length (r_match r) -> pm_expired T L pre r j = false -> mm = Some m -> (m <= nth j (r_match r) 0)%N.
Proof. exact pm_forced_counts_members_within_tolerance. Qed.
Print Assumptions per_member_forced_index_counts_members_within_tolerance.

(* member 1 is down for six hours, comes back, and member 2 goes down within two minutes: today's group timer forces the
   truncation with member 2's entries given up; with per-member periods member 1's period ends, member 2's starts *)
Definition handover_rounds : list round :=
  map (fun t => mkRound t true [true; false; true] [100%N; 40%N; 100%N] 95%N) [0; 60; 120; 180; 240; 300; 359]%Z.
Definition handover_last : round := mkRound 361 true [true; true; false] [100%N; 100%N; 90%N] 95%N.
Example per_member_handover :
  decide_pm 3 360 (mkLay 30000 1 100) handover_rounds handover_last = DNone /\
  snd (decide tcfg_repaired 360 (mkLay 30000 1 100) (tstate tcfg_repaired 360 (mkLay 30000 1 100) None handover_rounds) handover_last) = DForce 95%N.
Proof. vm_compute. split; reflexivity. Qed.

(* ---------------------------------------------------------------- a write request over several shards (Coord.v) *)
(* acknowledged to the client => every shard the request touches was acknowledged by its store *)
Theorem batch_ack_means_every_shard_stored : forall fuel scripts, Forall (fun sc => sc <> []) scripts ->
  fst (batch_write fuel scripts) = true -> Forall (fun sc => In WOk sc) scripts.
Proof. exact batch_ack_every_shard. Qed.
Print Assumptions batch_ack_means_every_shard_stored.

(* a partially stored request is never acknowledged *)
Theorem partially_stored_batch_is_not_acknowledged : forall fuel scripts sc, In sc scripts ->
  fst (shard_write fuel sc) = false -> fst (batch_write fuel scripts) = false.
Proof. exact batch_partial_not_acked. Qed.

Theorem fully_stored_batch_is_acknowledged : forall fuel scripts,
  Forall (fun sc => fst (shard_write fuel sc) = true) scripts -> fst (batch_write fuel scripts) = true.
Proof. exact batch_all_stored_acked. Qed.

Example partial_batch_demo :
  batch_write 10 [[WOk]; [WRetry; WFail]; [WRetry; WOk]] = (false, [(true, 1); (false, 2); (true, 2)]).
Proof. vm_compute. reflexivity. Qed.

(* ---------------------------------------------------------------- persistence before send, per role (Persist.v) *)
(* every member answers on the follower path (an acknowledgement carries only what is durable): what the leader has
   committed - and acknowledged to the client - is on the disk of a quorum at every instant of every run, whichever
   members are killed whenever *)
Theorem acknowledged_is_on_disk_of_a_quorum : forall n es s, prun n true pinit es = Some s ->
  pcommit s = 0 \/ n < 2 * cnt n (fun m => Nat.leb (pcommit s) (pd s m)).
Proof. exact committed_on_disk_of_quorum. Qed.
Print Assumptions acknowledged_is_on_disk_of_a_quorum.

Example persist_run_demo :
  match prun 3 true pinit [PRecv 0 1; PPersist 0; PAck 0; PRecv 1 1; PAck 1; PKill 1; PRecv 1 1; PPersist 1; PAck 1; PCommit 1] with
  | Some s => pcommit s = 1 /\ pd s 0 = 1 /\ pd s 1 = 1
  | None => False
  end.
Proof. vm_compute. repeat split. Qed.
