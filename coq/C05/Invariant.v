(* C05 lemmas, part 2: the replication invariant and its preservation by every step, for every raft oracle that
   satisfies the raft safety facts (Section hypotheses). *)
From Coq Require Import List Arith NArith ZArith Bool Lia.
From OG Require Import C05.Model C05.Proofs.
Import ListNotations.

Definition good_cfg (c : config) : Prop := wal_on c = true /\ clamp c = true /\ snap_install c = false.

Record node_ok (g : list entry) (x : node) : Prop := mkOk {
  ok_hc : hcommit x <= length g;
  ok_match : firstn (hcommit x) (elog x) = firstn (hcommit x) g;
  ok_trunc : efirst x = 0 \/ efirst x < snap x;
  ok_up : up x = true ->
      applied x <= hcommit x /\ snap x <= snapc x /\ snapc x <= applied x /\ efirst x <= applied x /\
      sim (view x) (ents_store (firstn (applied x) g)) /\ wal x = mem x /\ walold x = imm x;
  ok_down : up x = false ->
      exists d, snap x <= d /\ d <= hcommit x /\ efirst x <= d /\ sim (dview x) (ents_store (firstn d g)) }.

Definition Inv' (c : config) (nd : nat -> node) (g : list entry) (ld : option nat) : Prop :=
  (forall n, node_ok g (nd n)) /\
  (forall l, ld = Some l -> pre g (elog (nd l)) /\ up (nd l) = true) /\
  nn c < 2 * count (fun m => prefixb g (elog (nd m))) (nn c).

Definition Inv (s : sys) : Prop := Inv' (cfg s) (nodes s) (glog s) (leader s).

Lemma hc_le_elog : forall g x, node_ok g x -> hcommit x <= length (elog x).
Proof.
  intros g x H. pose proof (ok_hc _ _ H) as H1. pose proof (ok_match _ _ H) as H2.
  apply (f_equal (@length entry)) in H2. rewrite !firstn_length in H2. lia.
Qed.

Lemma node_ok_ext : forall g g' x, node_ok g x -> pre g g' -> node_ok g' x.
Proof.
  intros g g' x H [t ->]. destruct H as [H1 H2 H3 H4 H5]. constructor.
  - rewrite app_length; lia.
  - rewrite firstn_pre by assumption; assumption.
  - assumption.
  - intros Hu. specialize (H4 Hu). destruct H4 as (A & B & C & D & E & F & G).
    repeat split; try assumption. rewrite firstn_pre by lia; assumption.
  - intros Hu. specialize (H5 Hu). destruct H5 as (d & A & B & C & D).
    exists d; repeat split; try assumption. rewrite firstn_pre by lia; assumption.
Qed.

Lemma node_ok_elog_ext : forall g x t, node_ok g x -> node_ok g (with_elog x (elog x ++ t)).
Proof.
  intros g x t H. pose proof (hc_le_elog _ _ H) as Hl. destruct H as [H1 H2 H3 H4 H5].
  constructor; cbn; try assumption.
  rewrite firstn_app. replace (hcommit x - length (elog x)) with 0 by lia. cbn. rewrite app_nil_r; assumption.
Qed.

Lemma count_mono : forall (p q : nat -> bool) n, (forall m, p m = true -> q m = true) -> count p n <= count q n.
Proof. intros; unfold count; apply count_mono_list; intros; auto. Qed.

Lemma upd_same : forall f n x, upd f n x n = x.
Proof. intros; unfold upd; rewrite Nat.eqb_refl; reflexivity. Qed.
Lemma upd_other : forall f n x m, m <> n -> upd f n x m = f m.
Proof. intros f n x m H; unfold upd. destruct (Nat.eqb m n) eqn:E; [apply Nat.eqb_eq in E; contradiction|reflexivity]. Qed.

(* one node changes, its log only grows, its up flag is kept *)
Lemma inv_set_node : forall c nd g ld n x',
  Inv' c nd g ld -> node_ok g x' -> pre (elog (nd n)) (elog x') -> up x' = up (nd n) ->
  Inv' c (upd nd n x') g ld.
Proof.
  intros c nd g ld n x' (HN & HL & HQ) Hx Hp Hu. split; [|split].
  - intros m. destruct (Nat.eq_dec m n) as [->|Hm]; [rewrite upd_same; assumption|rewrite upd_other by assumption; apply HN].
  - intros l Hl. specialize (HL l Hl). destruct (Nat.eq_dec l n) as [->|Hm].
    + rewrite upd_same. destruct HL as [A B]. split; [eapply pre_trans; eassumption|congruence].
    + rewrite upd_other by assumption; assumption.
  - eapply Nat.lt_le_trans; [exact HQ|]. apply Nat.mul_le_mono_l. apply count_mono. intros m Hm.
    destruct (Nat.eq_dec m n) as [->|Hmn]; [rewrite upd_same|rewrite upd_other by assumption; assumption].
    apply prefixb_spec. apply prefixb_spec in Hm. eapply pre_trans; eassumption.
Qed.

Lemma nth_firstn : forall (A : Type) (l : list A) i k, i < k -> nth_error (firstn k l) i = nth_error l i.
Proof.
  induction l as [|x l IH]; intros i k H; destruct k, i; cbn; try reflexivity; try lia.
  apply IH; lia.
Qed.

Section RaftFacts.
  Variable raft_ok : sys -> event -> bool.

  (* leader completeness: raft elects only a live node whose log holds every committed entry *)
  Hypothesis H_elect : forall s n, raft_ok s (RElect n) = true ->
    up (nodes s n) = true /\ prefixb (glog s) (elog (nodes s n)) = true.
  (* log matching: a follower's log becomes a prefix of the leader's log; raft never removes an entry the follower
     has persisted as committed, nor a committed entry from a log that held all of them *)
  Hypothesis H_repl : forall s m k, raft_ok s (RReplicate m k) = true ->
    exists l, leader s = Some l /\ m <> l /\ up (nodes s m) = true /\ hcommit (nodes s m) <= k /\
              k <= length (elog (nodes s l)) /\
              (prefixb (glog s) (elog (nodes s m)) = true -> length (glog s) <= k).
  (* commit: only entries of the current leader's log, never retracting a committed entry, and only when a quorum
     of nodes has persisted them *)
  Hypothesis H_commit : forall s k, raft_ok s (RCommit k) = true ->
    exists l, leader s = Some l /\ length (glog s) <= k /\ k <= length (elog (nodes s l)) /\
              nn (cfg s) < 2 * count (fun m => prefixb (firstn k (elog (nodes s l))) (elog (nodes s m))) (nn (cfg s)).
  (* state-machine safety: a node learns commit index c only if its first c entries are the committed ones *)
  Hypothesis H_learn : forall s m c, raft_ok s (RLearn m c) = true ->
    up (nodes s m) = true /\ hcommit (nodes s m) <= c /\ c <= length (glog s) /\
    firstn c (elog (nodes s m)) = firstn c (glog s).

  Lemma step_cfg : forall s e s', step raft_ok s e = Some s' -> cfg s' = cfg s.
  Proof.
    intros s e s' H. destruct e; cbn [step] in H;
      repeat match type of H with
             | (if ?b then _ else _) = Some _ => destruct b; try discriminate
             | match ?x with Some _ => _ | None => _ end = Some _ => destruct x; try discriminate
             | match ?x with (_, _) => _ end = Some _ => destruct x
             end; try (inversion H; subst; reflexivity).
    all: try (inversion H; subst; cbn; repeat match goal with |- context [match ?x with _ => _ end] => destruct x end; reflexivity).
  Qed.

  Lemma avail_up : forall x, avail x = true -> up x = true.
  Proof. intros x H; unfold avail in H; apply andb_prop in H; tauto. Qed.

  (* general form: either raft snapshots are never installed (snap_install = false), or the step is not one *)
  Lemma step_inv_gen : forall s e s', wal_on (cfg s) = true -> clamp (cfg s) = true ->
    (snap_install (cfg s) = false \/ forall m, e <> RSnapshot m) ->
    Inv s -> step raft_ok s e = Some s' -> Inv s'.
  Proof.
    intros s e s' Hwal Hclamp Hnosnap HI H. unfold Inv in *.
    destruct e; cbn [step] in H.
    - (* Propose *)
      destruct (avail (nodes s n)) eqn:Hav; [|discriminate].
      set (x := nodes s n) in *.
      set (x' := mkNode (up x) (paused x) (elog x) (efirst x) (hcommit x) (snap x) (wal x) (walold x) (files x)
                        (applied x) (snapc x) (mem x) (imm x) (sig x) ((N.succ (nextpid x), b) :: pend x) (N.succ (nextpid x))) in *.
      assert (H1 : Inv' (cfg s) (upd (nodes s) n x') (glog s) (leader s)).
      { apply inv_set_node; [assumption| |apply pre_refl|reflexivity].
        destruct HI as (HN & _ & _). specialize (HN n). fold x in HN. destruct HN as [A B C D E].
        constructor; cbn; assumption. }
      destruct (leader s) as [l|] eqn:Hl.
      + cbn [set_node set_nodes nodes] in H.
        destruct (avail (upd (nodes s) n x' l)) eqn:Hal; inversion H; subst; cbn; try assumption.
        apply inv_set_node; [assumption| |cbn; exists [EData n (N.succ (nextpid x)) b]; reflexivity|reflexivity].
        apply node_ok_elog_ext. destruct H1 as (HN & _ & _). apply HN.
      + inversion H; subst; cbn; assumption.
    - (* Timeout *)
      inversion H; subst; cbn. apply inv_set_node; [assumption| |apply pre_refl|reflexivity].
      destruct HI as (HN & _ & _). specialize (HN n). destruct HN as [A B C D E]. constructor; cbn; assumption.
    - (* RElect *)
      destruct (raft_ok s (RElect n)) eqn:Hr; [|discriminate]. inversion H; subst; cbn.
      destruct (H_elect _ _ Hr) as [Hu Hp]. destruct HI as (HN & HL & HQ). split; [assumption|split; [|assumption]].
      intros l Hl; inversion Hl; subst. split; [apply prefixb_spec|]; assumption.
    - (* RStepDown *)
      inversion H; subst; cbn. destruct HI as (HN & HL & HQ). split; [assumption|split; [|assumption]].
      intros l Hl; discriminate.
    - (* RReplicate *)
      destruct (raft_ok s (RReplicate m k)) eqn:Hr; [|discriminate]. cbn [andb] in H.
      destruct (match leader s with Some l => Nat.leb (efirst (nodes s l)) (length (elog (nodes s m))) | None => false end); [|discriminate].
      inversion H; subst; clear H.
      destruct (H_repl _ _ _ Hr) as (l & Hl & Hml & Hum & Hhc & Hk & Hkeep).
      cbn [raft_effect]. rewrite Hl. cbn. destruct HI as (HN & HL & HQ).
      destruct (HL l Hl) as [Hpl Hul].
      split; [|split].
      + intros n. destruct (Nat.eq_dec n m) as [->|Hn]; [rewrite upd_same|rewrite upd_other by assumption; apply HN].
        specialize (HN m). destruct HN as [A B C D E]. constructor; cbn; try assumption.
        rewrite firstn_firstn, Nat.min_l by assumption. apply pre_firstn_eq; assumption.
      + intros l' Hl'. try rewrite Hl in Hl'; inversion Hl'; subst l'. rewrite upd_other by auto. split; assumption.
      + eapply Nat.lt_le_trans; [exact HQ|]. apply Nat.mul_le_mono_l. apply count_mono. intros n Hn.
        destruct (Nat.eq_dec n m) as [->|Hnm]; [rewrite upd_same|rewrite upd_other by assumption; assumption].
        cbn. apply prefixb_spec. apply pre_firstn; [assumption|auto].
    - (* RCommit *)
      destruct (raft_ok s (RCommit k)) eqn:Hr; [|discriminate]. inversion H; subst; clear H.
      destruct (H_commit _ _ Hr) as (l & Hl & Hk1 & Hk2 & Hq).
      cbn [raft_effect]. rewrite Hl. cbn. destruct HI as (HN & HL & HQ).
      destruct (HL l Hl) as [Hpl Hul].
      assert (Hext : pre (glog s) (firstn k (elog (nodes s l)))) by (apply pre_firstn; assumption).
      split; [|split].
      + intros n. eapply node_ok_ext; [apply HN|assumption].
      + intros l' Hl'. try rewrite Hl in Hl'; inversion Hl'; subst l'. split; [apply pre_firstn_self|assumption].
      + assumption.
    - (* RLearn *)
      destruct (raft_ok s (RLearn m c)) eqn:Hr; [|discriminate]. inversion H; subst; clear H.
      destruct (H_learn _ _ _ Hr) as (Hu & Hc1 & Hc2 & Hm).
      cbn. apply inv_set_node; [assumption| |apply pre_refl|reflexivity].
      destruct HI as (HN & _ & _). specialize (HN m). destruct HN as [A B C D E].
      constructor; cbn; try assumption.
      * intros Hu'. specialize (D Hu'). destruct D as (D1 & D2 & D3 & D4 & D5 & D6 & D7). repeat split; try assumption; lia.
      * intros Hd; congruence.
    - (* Apply *)
      set (x := nodes s n) in *.
      destruct (avail x && Nat.ltb (applied x) (hcommit x) && Nat.leb (efirst x) (applied x)) eqn:Hg; [|discriminate].
      apply andb_prop in Hg; destruct Hg as [Hg Hef]; apply andb_prop in Hg; destruct Hg as [Hav Hlt].
      apply Nat.ltb_lt in Hlt. apply Nat.leb_le in Hef. apply avail_up in Hav.
      destruct (nth_error (elog x) (applied x)) as [en|] eqn:Hnth; [|discriminate].
      inversion H; subst; clear H. cbn.
      apply inv_set_node; [assumption| |apply pre_refl|reflexivity].
      destruct HI as (HN & _ & _). specialize (HN n). fold x in HN. destruct HN as [A B C D E].
      destruct (D Hav) as (D1 & D2 & D3 & D4 & D5 & D6 & D7).
      assert (Hg : nth_error (glog s) (applied x) = Some en).
      { rewrite <- (nth_firstn _ (glog s) (applied x) (hcommit x)) by assumption.
        rewrite <- B. rewrite nth_firstn by assumption. assumption. }
      constructor; cbn -[firstn Nat.max Nat.min tr_first]; try assumption.
      + destruct en; try assumption. rewrite Hclamp.
        pose proof (tr_first_le (fsz (cfg s)) (Nat.min idx (snap x))). lia.
      + intros _. rewrite Hwal. repeat split; try lia.
        * destruct en; try lia. rewrite Hclamp.
          pose proof (tr_first_le (fsz (cfg s)) (Nat.min idx (snap x))). lia.
        * rewrite (firstn_S_nth _ _ _ _ Hg), ents_store_snoc.
          unfold view in *; cbn. rewrite <- app_assoc. apply sim_app_l. assumption.
        * congruence.
        * assumption.
      + intros Hd; congruence.
    - (* UpdSnapc *)
      destruct (avail (nodes s n)) eqn:Hav; [|discriminate]. inversion H; subst; cbn.
      apply inv_set_node; [assumption| |apply pre_refl|reflexivity].
      destruct HI as (HN & _ & _). specialize (HN n). destruct HN as [A B C D E]. constructor; cbn; try assumption.
      intros Hu. destruct (D Hu) as (D1 & D2 & D3 & D4 & D5 & D6 & D7). repeat split; try assumption; lia.
    - (* FlushSwap *)
      set (x := nodes s n) in *.
      destruct (avail x) eqn:Hav; cbn [andb] in H; [|discriminate].
      destruct (imm x) eqn:Himm; [|discriminate]. destruct (walold x) eqn:Hwo; [|discriminate]. cbn [andb] in H.
      inversion H; subst; cbn.
      apply inv_set_node; [assumption| |apply pre_refl|reflexivity].
      destruct HI as (HN & _ & _). specialize (HN n). fold x in HN. destruct HN as [A B C D E]. constructor; cbn; try assumption.
      + intros Hu. destruct (D Hu) as (D1 & D2 & D3 & D4 & D5 & D6 & D7). repeat split; try assumption.
        unfold view in *; cbn. rewrite Himm in D5. rewrite app_nil_l in D5. assumption.
      + intros Hd. apply avail_up in Hav. congruence.
    - (* SnapPersist *)
      set (x := nodes s n) in *.
      destruct (avail x && sig x) eqn:Hg; [|discriminate]. apply andb_prop in Hg; destruct Hg as [Hav _]. apply avail_up in Hav.
      inversion H; subst; cbn.
      apply inv_set_node; [assumption| |apply pre_refl|reflexivity].
      destruct HI as (HN & _ & _). specialize (HN n). fold x in HN. destruct HN as [A B C D E].
      destruct (D Hav) as (D1 & D2 & D3 & D4 & D5 & D6 & D7).
      constructor; cbn; try assumption.
      + destruct (Nat.leb (snapc x) (efirst x)) eqn:El; [assumption|]. apply Nat.leb_gt in El. lia.
      + intros _. repeat split; try assumption. destruct (Nat.leb (snapc x) (efirst x)); lia.
      + intros Hd; congruence.
    - (* FlushCommit *)
      set (x := nodes s n) in *.
      destruct (avail x) eqn:Hav; [|discriminate]. apply avail_up in Hav. inversion H; subst; cbn.
      apply inv_set_node; [assumption| |apply pre_refl|reflexivity].
      destruct HI as (HN & _ & _). specialize (HN n). fold x in HN. destruct HN as [A B C D E].
      destruct (D Hav) as (D1 & D2 & D3 & D4 & D5 & D6 & D7).
      constructor; cbn; try assumption.
      + intros _. repeat split; try assumption; try (unfold view in *; cbn; assumption).
      + intros Hd; congruence.
    - (* TruncPropose *)
      destruct (leader s) as [l|] eqn:Hl; [|discriminate].
      match type of H with (if ?b then _ else _) = _ => destruct b; [|discriminate] end.
      inversion H; subst; cbn. rewrite Hl.
      apply inv_set_node; [assumption| |cbn; eexists; reflexivity|reflexivity].
      apply node_ok_elog_ext. destruct HI as (HN & _ & _). apply HN.
    - (* TruncForce *)
      destruct (leader s) as [l|] eqn:Hl; [|discriminate].
      match type of H with (if ?b then _ else _) = _ => destruct b; [|discriminate] end.
      inversion H; subst; cbn. rewrite Hl.
      apply inv_set_node; [assumption| |cbn; eexists; reflexivity|reflexivity].
      apply node_ok_elog_ext. destruct HI as (HN & _ & _). apply HN.
    - (* TruncLocal *)
      set (x := nodes s n) in *.
      destruct (avail x) eqn:Hav; cbn [andb] in H; [|discriminate]. apply avail_up in Hav.
      match type of H with (if ?b then _ else _) = _ => destruct b; [|discriminate] end.
      inversion H; subst; cbn.
      apply inv_set_node; [assumption| |apply pre_refl|reflexivity].
      destruct HI as (HN & _ & _). specialize (HN n). fold x in HN. destruct HN as [A B C D E].
      destruct (D Hav) as (D1 & D2 & D3 & D4 & D5 & D6 & D7).
      pose proof (tr_first_le (fsz (cfg s)) (snap x)) as Ht.
      constructor; cbn -[Nat.max tr_first]; try assumption.
      + unfold tr_first in *. destruct (Nat.eqb (snap x) 0) eqn:E0; [lia|]. apply Nat.eqb_neq in E0. lia.
      + intros _. repeat split; try assumption; lia.
      + intros Hd; congruence.
    - (* RSnapshot *)
      destruct Hnosnap as [Hnosnap|Hne]; [|exfalso; apply (Hne m); reflexivity].
      destruct (leader s) as [l|]; [|discriminate]. rewrite Hnosnap in H. cbn in H. discriminate.
    - (* Kill *)
      set (x := nodes s n) in *.
      destruct (up x) eqn:Hu; [|discriminate]. inversion H; subst; clear H; cbn.
      destruct HI as (HN & HL & HQ). split; [|split].
      + intros m. destruct (Nat.eq_dec m n) as [->|Hm]; [rewrite upd_same|rewrite upd_other by assumption; apply HN].
        specialize (HN n). fold x in HN. destruct HN as [A B C D E].
        destruct (D Hu) as (D1 & D2 & D3 & D4 & D5 & D6 & D7).
        constructor; cbn; try assumption.
        * intros; discriminate.
        * intros _. exists (applied x). repeat split; try lia.
          unfold dview, view in *; cbn. rewrite D6, D7. assumption.
      + intros l Hl. destruct (leader s) as [l0|] eqn:El; [|discriminate].
        destruct (Nat.eqb l0 n) eqn:En; [discriminate|]. inversion Hl; subst l0.
        apply Nat.eqb_neq in En. rewrite upd_other by assumption. apply HL; reflexivity.
      + eapply Nat.lt_le_trans; [exact HQ|]. apply Nat.mul_le_mono_l. apply count_mono. intros m Hm.
        destruct (Nat.eq_dec m n) as [->|Hmn]; [rewrite upd_same|rewrite upd_other by assumption; assumption].
        cbn. assumption.
    - (* Restart *)
      set (x := nodes s n) in *.
      destruct (up x) eqn:Hu; [discriminate|]. inversion H; subst; clear H; cbn.
      destruct HI as (HN & HL & HQ). split; [|split].
      + intros m. destruct (Nat.eq_dec m n) as [->|Hm]; [rewrite upd_same|rewrite upd_other by assumption; apply HN].
        specialize (HN n). fold x in HN. destruct HN as [A B C D E].
        destruct (E Hu) as (d & E1 & E2 & E3 & E4).
        assert (Hlo : Nat.leb (Nat.max 1 (snap x)) (efirst x) = false) by (apply Nat.leb_gt; lia).
        unfold restart_node. rewrite Hlo, Hwal.
        constructor; cbn; try assumption.
        * intros _. repeat split; try lia.
          unfold view; cbn. unfold seg. rewrite B.
          unfold dview in E4. rewrite <- !app_assoc.
          apply (replay_idem (glog s) (wal x ++ walold x ++ files x) (Nat.max 1 (snap x) - 1) d (hcommit x)); try lia.
          assumption.
        * intros; discriminate.
      + intros l Hl. destruct (HL l Hl) as [A B]. destruct (Nat.eq_dec l n) as [->|Hm].
        * fold x in B. congruence.
        * rewrite upd_other by assumption. split; assumption.
      + eapply Nat.lt_le_trans; [exact HQ|]. apply Nat.mul_le_mono_l. apply count_mono. intros m Hm.
        destruct (Nat.eq_dec m n) as [->|Hmn]; [rewrite upd_same|rewrite upd_other by assumption; assumption].
        unfold restart_node; cbn. assumption.
    - (* Pause *)
      destruct (up (nodes s n)) eqn:Hu; [|discriminate]. inversion H; subst; cbn.
      apply inv_set_node; [assumption| |apply pre_refl|cbn; congruence].
      destruct HI as (HN & _ & _). specialize (HN n). destruct HN as [A B C D E]. constructor; cbn; try assumption.
      + intros _; apply D; assumption.
      + intros; discriminate.
    - (* Resume *)
      destruct (up (nodes s n)) eqn:Hu; [|discriminate]. inversion H; subst; cbn.
      apply inv_set_node; [assumption| |apply pre_refl|cbn; congruence].
      destruct HI as (HN & _ & _). specialize (HN n). destruct HN as [A B C D E]. constructor; cbn; try assumption.
      + intros _; apply D; assumption.
      + intros; discriminate.
    - (* Rotate *)
      destruct (get_new_rg (master s) (peers s) newm) as [[m' ps']|]; [|discriminate].
      inversion H; subst; cbn. assumption.
  Qed.

  Lemma step_inv : forall s e s', good_cfg (cfg s) -> Inv s -> step raft_ok s e = Some s' -> Inv s'.
  Proof.
    intros s e s' (Hwal & Hclamp & Hnosnap) HI H. eapply step_inv_gen; try eassumption. left; assumption.
  Qed.

  Lemma run_inv : forall es s s', good_cfg (cfg s) -> Inv s -> run raft_ok s es = Some s' -> Inv s' /\ cfg s' = cfg s.
  Proof.
    induction es as [|e es IH]; intros s s' Hc HI H; cbn in H.
    - inversion H; subst; split; [assumption|reflexivity].
    - destruct (step raft_ok s e) as [s1|] eqn:Hs; [|discriminate].
      pose proof (step_cfg _ _ _ Hs) as Hc1.
      destruct (IH s1 s') as [A B]; [rewrite Hc1; assumption|eapply step_inv; eassumption|assumption|].
      split; [assumption|congruence].
  Qed.
End RaftFacts.

Lemma count_all : forall n, count (fun _ => true) n = n.
Proof.
  intros n; unfold count.
  assert (H : forall l : list nat, filter (fun _ => true) l = l) by (induction l; cbn; congruence).
  rewrite H, seq_length; reflexivity.
Qed.

Lemma inv_init : forall c, 0 < nn c -> Inv (init c).
Proof.
  intros c Hn. unfold Inv, init; cbn. split; [|split].
  - intros n. constructor; cbn; try lia; try reflexivity; try (intros; discriminate).
    intros _. repeat split; try lia; try reflexivity.
  - intros l Hl; discriminate.
  - rewrite count_all. lia.
Qed.
