(* C05 - model, part 2 (definitions only): what the leader of a replica group decides about its own entry log.

   (A) The periodic truncation decision (lib/raftconn/node.go: deleteEntryLog -> forceDeleteEntryLog ->
       prepareDeleteEntryLogProposeData / genProposeData). The tolerance timer [tolerateStartTime] is STATE of the
       decision: started at the first round in which a member is not alive, cleared by a round that sees every member
       alive, and when it has run for more than clear-entryLog-tolerate-time the leader proposes ClearEntryLog with the
       minimum Match of the ACTIVE members only (the forced branch: entries the dead member lacks are given up).
       Variants:   t_clear_health   = false : the timer is never cleared by a healthy round (refuted class)
                   t_clear_follower = false : a round in which the node is not the leader leaves the timer alone
                                              (today's code, finding C05-stale-tolerance-timer-after-leadership-loss)
                                    = true  : such a round clears it (repair, fix2.patch).
   (B) The entry-log lookup (lib/raftlog/entrylog.go slotGe / seekEntry, log.go logFile.slotGe) over a log that spans
       several entry files, RaftDiskStorage.Term, and etcd/raft's choice between MsgApp and MsgSnap for a follower
       (raft.go maybeSendAppend: a snapshot is sent iff term(next-1) or entries(next) fails).
   Indexes are N (logs of > 60000 entries are evaluated), wall-clock time is Z. *)
From Coq Require Import List NArith ZArith Bool Lia.
Import ListNotations.

(* ------------------------------------------------------------------ (A) truncation decision *)
Record tcfg := mkTcfg { t_clear_health : bool; t_clear_follower : bool }.
Definition tcfg_current : tcfg := mkTcfg true false.
Definition tcfg_repaired : tcfg := mkTcfg true true.
Definition tcfg_noclear : tcfg := mkTcfg false false.

(* one decision round as the node sees it *)
Record round := mkRound {
  r_now : Z;               (* time.Now() *)
  r_lead : bool;           (* isLeader() *)
  r_alive : list bool;     (* meta status of every member of the group is Alive (CheckAllRgMembers) *)
  r_match : list N;        (* raft Status().Progress[member].Match, same order *)
  r_snap : N }.            (* Store.Snapshot().Metadata.Index *)

Inductive decision :=
| DNone                    (* nothing is proposed *)
| DHealthy (idx : N)       (* every member alive: ClearEntryLog(idx), idx from the Match of ALL members *)
| DForce (idx : N).        (* tolerance expired: ClearEntryLog(idx), idx from the Match of the ACTIVE members only *)

(* the entry log as SlotGe sees it: entries lay_first..lay_last, lay_fsz entries per file *)
Record layout := mkLay { lay_fsz : N; lay_first : N; lay_last : N }.
(* the file an index falls into: indexes below the log fall into the first file, indexes above into the current one *)
Definition file_no (L : layout) (i : N) : N := ((N.max (lay_first L) (N.min i (lay_last L)) - 1) / lay_fsz L)%N.

Fixpoint min_list (l : list N) : option N :=
  match l with
  | [] => None
  | x :: r => match min_list r with Some m => Some (N.min x m) | None => Some x end
  end.

(* the values of the members whose flag is set *)
Fixpoint sel {A} (fl : list bool) (l : list A) : list A :=
  match fl, l with
  | f :: fl', x :: l' => if f then x :: sel fl' l' else sel fl' l'
  | _, _ => []
  end.

(* genProposeData: the leader's snapshot index if the slowest member is in the same entry file, else the smaller of
   the two (DeleteBefore removes whole files before the file of the index) *)
Definition gen_idx (L : layout) (snp : N) (mm : option N) : N :=
  match mm with
  | None => snp
  | Some m => if (file_no L m =? file_no L snp)%N then snp else N.min m snp
  end.

Definition all_alive (r : round) : bool := forallb (fun b => b) (r_alive r).

(* one round: new timer state (None = not running) and the decision *)
Definition decide (tc : tcfg) (T : Z) (L : layout) (st : option Z) (r : round) : option Z * decision :=
  if negb (r_lead r) then ((if t_clear_follower tc then None else st), DNone)
  else if (r_snap r =? 0)%N then (st, DNone)                                   (* "dont have a snapshot yet" *)
  else if all_alive r then
    ((if t_clear_health tc then None else st), DHealthy (gen_idx L (r_snap r) (min_list (r_match r))))
  else
    let s0 := match st with Some t => t | None => r_now r end in
    if (T <? r_now r - s0)%Z
    then (None, DForce (gen_idx L (r_snap r) (min_list (sel (r_alive r) (r_match r)))))
    else (Some s0, DNone).

(* timer state after a sequence of rounds *)
Fixpoint tstate (tc : tcfg) (T : Z) (L : layout) (st : option Z) (rs : list round) : option Z :=
  match rs with
  | [] => st
  | r :: q => tstate tc T L (fst (decide tc T L st r)) q
  end.

(* all decisions of a sequence *)
Fixpoint decisions (tc : tcfg) (T : Z) (L : layout) (st : option Z) (rs : list round) : list decision :=
  match rs with
  | [] => []
  | r :: q => snd (decide tc T L st r) :: decisions tc T L (fst (decide tc T L st r)) q
  end.

(* the wall clock never goes back *)
Fixpoint clock_mono (rs : list round) : Prop :=
  match rs with
  | [] => True
  | r :: q => (forall x, In x q -> (r_now r <= r_now x)%Z) /\ clock_mono q
  end.

(* a snapshot index, once there, stays *)
Fixpoint snap_stays (rs : list round) : Prop :=
  match rs with
  | [] => True
  | r :: q => (r_snap r <> 0%N -> forall x, In x q -> r_snap x <> 0%N) /\ snap_stays q
  end.

(* ------------------------------------------------------------------ (B) entry-log lookup and append-vs-snapshot *)
(* an entry file: (index of its first entry, number of entries); a log: rotated files (oldest first) + current file *)
Definition efile := (N * N)%type.
Record elog_files := mkFiles { ef_fsz : N; ef_files : list efile; ef_cur : efile }.

(* logFile.slotGe: -1 = before this file, the slot of the entry, or the first empty slot (maxNumEntries if full) *)
Definition file_slot_ge (f : efile) (i : N) : Z :=
  let '(fi, cnt) := f in
  if (fi =? 0)%N || (i <? fi)%N then (-1)%Z
  else if (i - fi <? cnt)%N then Z.of_N (i - fi) else Z.of_N cnt.

(* position of the first file whose first index is >= i (sort.Search over the sorted file list) *)
Fixpoint find_ge (fs : list efile) (i : N) (k : nat) : nat :=
  match fs with
  | [] => k
  | (fi, _) :: r => if (i <=? fi)%N then k else find_ge r i (S k)
  end.

(* entryLog.slotGe: (file position, slot); file position None = the current file.
   exact = false is the variant without the "raftIndex is exactly the first index of a rotated file" case *)
Definition slot_ge (exact : bool) (E : elog_files) (i : N) : option nat * Z :=
  let o := file_slot_ge (ef_cur E) i in
  if (0 <=? o)%Z then (None, o)
  else match ef_files E with
       | [] => (None, (-1)%Z)
       | _ =>
           let k := find_ge (ef_files E) i 0 in
           match nth_error (ef_files E) k with
           | Some (fi, _) =>
               if exact && (fi =? i)%N then (Some k, 0%Z)
               else let k' := Nat.pred k in
                    (Some k', file_slot_ge (nth k' (ef_files E) (0%N, 0%N)) i)
           | None =>
               let k' := Nat.pred k in
               (Some k', file_slot_ge (nth k' (ef_files E) (0%N, 0%N)) i)
           end
       end.

Inductive seek_res := SFound (idx : N) | SCompacted | SUnavailable | SNotFound.

(* entryLog.seekEntry (index 0 is answered with the empty entry) *)
Definition seek (exact : bool) (E : elog_files) (i : N) : seek_res :=
  if (i =? 0)%N then SFound 0%N else
  let '(fp, off) := slot_ge exact E i in
  if (off =? -1)%Z then SCompacted
  else if (Z.of_N (ef_fsz E) <=? off)%Z then SUnavailable
  else let '(fi, cnt) := match fp with None => ef_cur E | Some k => nth k (ef_files E) (0%N, 0%N) end in
       if (Z.of_N cnt <=? off)%Z then SUnavailable                      (* empty slot *)
       else if (fi + Z.to_N off =? i)%N then SFound i else SNotFound.

Definition log_first (E : elog_files) : N :=
  let fi := match ef_files E with [] => fst (ef_cur E) | f :: _ => fst f end in
  if (fi =? 0)%N then 1%N else fi.
Definition log_last (E : elog_files) : N :=
  if (0 <? snd (ef_cur E))%N then (fst (ef_cur E) + snd (ef_cur E) - 1)%N
  else match rev (ef_files E) with [] => 0%N | (fi, cnt) :: _ => (fi + cnt - 1)%N end.

(* RaftDiskStorage.Term returns no error *)
Definition storage_term_ok (exact : bool) (E : elog_files) (snp i : N) : bool :=
  match seek exact E i with
  | SFound _ => true
  | _ => (i =? snp)%N
  end.

(* etcd raftLog.term(i) returns no error (stable log only): outside [first-1, last] it answers (0, nil) *)
Definition raftlog_term_ok (exact : bool) (E : elog_files) (snp i : N) : bool :=
  if (i <? log_first E - 1)%N || (N.max (log_last E) snp <? i)%N then true else storage_term_ok exact E snp i.

(* etcd raftLog.entries(next) returns no error *)
Definition raftlog_entries_ok (E : elog_files) (snp next : N) : bool :=
  (N.max (log_last E) snp <? next)%N || (log_first E <=? next)%N.

(* maybeSendAppend: true = MsgApp, false = MsgSnap *)
Definition send_append (exact : bool) (E : elog_files) (snp next : N) : bool :=
  raftlog_term_ok exact E snp (next - 1) && raftlog_entries_ok E snp next.

(* a log written contiguously: every rotated file is non-empty, at most ef_fsz entries, and the next file starts
   right after it; the current file continues the last rotated one *)
Fixpoint contig (fsz : N) (fs : list efile) (nxt : N) : Prop :=
  match fs with
  | [] => True
  | (fi, cnt) :: r => fi = nxt /\ (0 < cnt)%N /\ (cnt <= fsz)%N /\ contig fsz r (fi + cnt)%N
  end.
Fixpoint files_end (fs : list efile) (start : N) : N :=
  match fs with [] => start | (fi, cnt) :: r => files_end r (fi + cnt)%N end.

Definition wf_files (E : elog_files) : Prop :=
  (0 < ef_fsz E)%N /\
  match ef_files E with
  | [] => (0 < fst (ef_cur E))%N \/ snd (ef_cur E) = 0%N
  | (f0, _) :: _ => (0 < f0)%N /\ contig (ef_fsz E) (ef_files E) f0 /\ fst (ef_cur E) = files_end (ef_files E) f0
  end /\ (snd (ef_cur E) <= ef_fsz E)%N.

(* the files of a log with entries first..last written by AddEntries with n entries per file (first = k*n+1) *)
Fixpoint mk_files (fuel : nat) (n first last : N) : list efile :=
  match fuel with
  | O => []
  | S f => if (first + n <=? last)%N then (first, n) :: mk_files f n (first + n)%N last else []
  end.
Definition layout_files (n first last : N) : elog_files :=
  let fs := mk_files (N.to_nat ((last - first) / n + 1)) n first last in
  let cf := files_end fs first in
  mkFiles n fs (cf, (last + 1 - cf)%N).
